(* RENDERED by translate/mk_panicreview.py from corpus/C06/panic_sites_reviewed.json -- reviewed by hand.
   One row per panic-capable site of Gen/GenPanicSites.v: modelled (a model Panic site / model function
   represents it), guarded (unreachable by the preceding check named in the text) or not peer-reachable
   (send path, local API misuse, constants).  Keyed on file + fn + kind + ordinal, never on line numbers. *)
From Coq Require Import String.
From H3V Require Import Base.Bytes Gen.GenPanicSites.
Inductive verdict := Modelled | Guarded | NotPeerReachable.
Record review := mk_review { r_file : string; r_fn : string; r_kind : pkind; r_ord : N; r_verdict : verdict; r_why : string }.
Local Open Scope string_scope.
Definition table : list review := [
  mk_review "h3/src/frame.rs" "FrameStream::poll_next" K_assert 1 Modelled
    "Model/FrameStream.v Panic 67 (poll_next assert remaining_data == 0); unreachable since the F7 repair: poll_data answers Ok(None) only with remaining_data == 0 or usize::MAX never followed by poll_next; harness family trl/flt exercises it at every step; unreachability: theorem C06_no_panic_frame_stream (run_no_panic, C02: all histories under the no-empty-chunk contract and the documented call pattern)";
  mk_review "h3/src/frame.rs" "FrameStream::poll_data" K_arith 1 Guarded
    "take_chunk(self.remaining_data) hands out at most remaining_data bytes (usize::min in BufList::take_chunk), so the subtraction cannot underflow; Model/FrameStream.v poll_data (st_rem - len d with len d <= st_rem by bl_take_chunk)";
  mk_review "h3/src/frame.rs" "FrameDecoder::decode" K_buf_advance 1 Modelled
    "pos is the position of a Cursor over the same BufList, which Cursor::advance keeps <= remaining(); Model/FrameStream.v Panic 50/51; unreachability: theorem C06_no_panic_frame_stream (run_no_panic, C02: all histories under the no-empty-chunk contract and the documented call pattern)";
  mk_review "h3/src/frame.rs" "FrameDecoder::decode" K_buf_advance 2 Modelled
    "pos is the position of a Cursor over the same BufList, which Cursor::advance keeps <= remaining(); Model/FrameStream.v Panic 50/51; unreachability: theorem C06_no_panic_frame_stream (run_no_panic, C02: all histories under the no-empty-chunk contract and the documented call pattern)";
  mk_review "h3/src/buf.rs" "BufList::push" K_debug_assert 1 NotPeerReachable
    "BufList::push is dead code outside tests (allow(dead_code)); debug build only";
  mk_review "h3/src/buf.rs" "BufList::take_chunk" K_split 1 Guarded
    "split_to(min(max_len, chunk.remaining()))";
  mk_review "h3/src/buf.rs" "BufList::push_bytes" K_debug_assert 1 Modelled
    "Model/FrameStream.v Panic 20: transport contract ""no empty chunks"" (explicit premise of the models; SimQuic upholds it); debug build only; unreachability: theorem C06_no_panic_frame_stream (run_no_panic, C02: all histories under the no-empty-chunk contract and the documented call pattern)";
  mk_review "h3/src/buf.rs" "BufList::push_bytes" K_buf_copy 1 Guarded
    "copy_to_bytes(buf.remaining()): exact length";
  mk_review "h3/src/buf.rs" "Buf for BufList::advance" K_index_const 1 Modelled
    "cnt > 0 and every caller passes cnt <= remaining() (FrameDecoder::decode: cursor position; bytes default get_u8/copy_to_slice after a remaining() check in VarInt::decode), so a front buffer exists; Model/FrameStream.v bl_advance = None (Panic 50/51); unreachability: theorem C06_no_panic_frame_stream (run_no_panic, C02: all histories under the no-empty-chunk contract and the documented call pattern)";
  mk_review "h3/src/buf.rs" "Buf for BufList::advance" K_buf_advance 1 Guarded
    "front.advance(cnt) only when rem > cnt, else advance(rem) with rem = front.remaining()";
  mk_review "h3/src/buf.rs" "Buf for BufList::advance" K_buf_advance 2 Guarded
    "front.advance(cnt) only when rem > cnt, else advance(rem) with rem = front.remaining()";
  mk_review "h3/src/buf.rs" "Buf for BufList::advance" K_arith 1 Guarded
    "else-branch of rem > cnt: rem <= cnt";
  mk_review "h3/src/buf.rs" "Buf for BufList::chunks_vectored" K_arith 1 Guarded
    "vecs <= dst.len() is the loop invariant (break when equal); not called on receive paths by h3";
  mk_review "h3/src/buf.rs" "Buf for BufList::chunks_vectored" K_index 1 Guarded
    "vecs <= dst.len() is the loop invariant (break when equal); not called on receive paths by h3";
  mk_review "h3/src/buf.rs" "Buf for Cursor::remaining" K_arith 1 Modelled
    "Model/Cursor.v cur_remaining (Panic 133); theorem C06_no_panic_cursor_remaining: pos_total <= buf.remaining() in every reachable state";
  mk_review "h3/src/buf.rs" "Buf for Cursor::chunk" K_index 1 Modelled
    "Model/Cursor.v cur_chunk (Panic 138, both index expressions); theorem C06_no_panic_cursor_chunk: while bytes remain, bufs[index] exists and pos_front is inside it (no empty chunks); callers (bytes default methods, modelled as cur_get_u8 / cur_copy_to_slice: theorems C06_no_panic_cursor_get_u8 / _copy_to_slice) call chunk() only while remaining() > 0";
  mk_review "h3/src/buf.rs" "Buf for Cursor::chunk" K_index 2 Modelled
    "Model/Cursor.v cur_chunk (Panic 138, both index expressions); theorem C06_no_panic_cursor_chunk: while bytes remain, bufs[index] exists and pos_front is inside it (no empty chunks); callers (bytes default methods, modelled as cur_get_u8 / cur_copy_to_slice: theorems C06_no_panic_cursor_get_u8 / _copy_to_slice) call chunk() only while remaining() > 0";
  mk_review "h3/src/buf.rs" "Buf for Cursor::advance" K_assert 1 Modelled
    "Model/Cursor.v cur_advance / adv_loop (Panic 143 the assert, 146 index, 147 subtraction); theorems C06_no_panic_cursor_advance (k <= remaining: no site reached, exactly k bytes skipped) and C06_cursor_advance_past_end_is_the_assert; every advance on a cursor comes from a bytes default method after a remaining() check of the caller (VarInt::decode, Decode for u8, Frame::decode take(len), prefix_string::decode)";
  mk_review "h3/src/buf.rs" "Buf for Cursor::advance" K_arith 1 Modelled
    "Model/Cursor.v cur_advance / adv_loop (Panic 143 the assert, 146 index, 147 subtraction); theorems C06_no_panic_cursor_advance (k <= remaining: no site reached, exactly k bytes skipped) and C06_cursor_advance_past_end_is_the_assert; every advance on a cursor comes from a bytes default method after a remaining() check of the caller (VarInt::decode, Decode for u8, Frame::decode take(len), prefix_string::decode)";
  mk_review "h3/src/buf.rs" "Buf for Cursor::advance" K_index 1 Modelled
    "Model/Cursor.v cur_advance / adv_loop (Panic 143 the assert, 146 index, 147 subtraction); theorems C06_no_panic_cursor_advance (k <= remaining: no site reached, exactly k bytes skipped) and C06_cursor_advance_past_end_is_the_assert; every advance on a cursor comes from a bytes default method after a remaining() check of the caller (VarInt::decode, Decode for u8, Frame::decode take(len), prefix_string::decode)";
  mk_review "h3/src/buf.rs" "Buf for Cursor::advance" K_arith 2 Modelled
    "Model/Cursor.v cur_advance / adv_loop (Panic 143 the assert, 146 index, 147 subtraction); theorems C06_no_panic_cursor_advance (k <= remaining: no site reached, exactly k bytes skipped) and C06_cursor_advance_past_end_is_the_assert; every advance on a cursor comes from a bytes default method after a remaining() check of the caller (VarInt::decode, Decode for u8, Frame::decode take(len), prefix_string::decode)";
  mk_review "h3/src/buf.rs" "Buf for Cursor::advance" K_arith 3 Modelled
    "Model/Cursor.v cur_advance / adv_loop (Panic 143 the assert, 146 index, 147 subtraction); theorems C06_no_panic_cursor_advance (k <= remaining: no site reached, exactly k bytes skipped) and C06_cursor_advance_past_end_is_the_assert; every advance on a cursor comes from a bytes default method after a remaining() check of the caller (VarInt::decode, Decode for u8, Frame::decode take(len), prefix_string::decode)";
  mk_review "h3/src/buf.rs" "Buf for Cursor::advance" K_arith 4 Modelled
    "Model/Cursor.v cur_advance / adv_loop (Panic 143 the assert, 146 index, 147 subtraction); theorems C06_no_panic_cursor_advance (k <= remaining: no site reached, exactly k bytes skipped) and C06_cursor_advance_past_end_is_the_assert; every advance on a cursor comes from a bytes default method after a remaining() check of the caller (VarInt::decode, Decode for u8, Frame::decode take(len), prefix_string::decode)";
  mk_review "h3/src/buf.rs" "Buf for Cursor::advance" K_arith 5 Modelled
    "Model/Cursor.v cur_advance / adv_loop (Panic 143 the assert, 146 index, 147 subtraction); theorems C06_no_panic_cursor_advance (k <= remaining: no site reached, exactly k bytes skipped) and C06_cursor_advance_past_end_is_the_assert; every advance on a cursor comes from a bytes default method after a remaining() check of the caller (VarInt::decode, Decode for u8, Frame::decode take(len), prefix_string::decode)";
  mk_review "h3/src/buf.rs" "Buf for Cursor::advance" K_arith 6 Modelled
    "Model/Cursor.v cur_advance / adv_loop (Panic 143 the assert, 146 index, 147 subtraction); theorems C06_no_panic_cursor_advance (k <= remaining: no site reached, exactly k bytes skipped) and C06_cursor_advance_past_end_is_the_assert; every advance on a cursor comes from a bytes default method after a remaining() check of the caller (VarInt::decode, Decode for u8, Frame::decode take(len), prefix_string::decode)";
  mk_review "h3/src/buf.rs" "Buf for Cursor::advance" K_arith 7 Modelled
    "Model/Cursor.v cur_advance / adv_loop (Panic 143 the assert, 146 index, 147 subtraction); theorems C06_no_panic_cursor_advance (k <= remaining: no site reached, exactly k bytes skipped) and C06_cursor_advance_past_end_is_the_assert; every advance on a cursor comes from a bytes default method after a remaining() check of the caller (VarInt::decode, Decode for u8, Frame::decode take(len), prefix_string::decode)";
  mk_review "h3/src/stream.rs" "WriteBuf::encode_stream_type" K_index 1 NotPeerReachable
    "send path only (encoding of locally produced values; C14/C13 cover the writers), never run on peer bytes; Model/WriteBuf.v (C14)";
  mk_review "h3/src/stream.rs" "WriteBuf::encode_stream_type" K_arith 1 NotPeerReachable
    "send path only (encoding of locally produced values; C14/C13 cover the writers), never run on peer bytes; Model/WriteBuf.v (C14)";
  mk_review "h3/src/stream.rs" "WriteBuf::encode_value" K_index 1 NotPeerReachable
    "send path only (encoding of locally produced values; C14/C13 cover the writers), never run on peer bytes; Model/WriteBuf.v (C14)";
  mk_review "h3/src/stream.rs" "WriteBuf::encode_value" K_arith 1 NotPeerReachable
    "send path only (encoding of locally produced values; C14/C13 cover the writers), never run on peer bytes; Model/WriteBuf.v (C14)";
  mk_review "h3/src/stream.rs" "WriteBuf::encode_frame_header" K_index 1 NotPeerReachable
    "send path only (encoding of locally produced values; C14/C13 cover the writers), never run on peer bytes; Model/WriteBuf.v (C14)";
  mk_review "h3/src/stream.rs" "WriteBuf::encode_frame_header" K_arith 1 NotPeerReachable
    "send path only (encoding of locally produced values; C14/C13 cover the writers), never run on peer bytes; Model/WriteBuf.v (C14)";
  mk_review "h3/src/stream.rs" "Buf for WriteBuf::remaining" K_arith 1 Guarded
    "send path, but driven by the transport: advance(cnt) is called with what the flow-control credit of the peer lets the transport take. remaining_header = len - pos >= 0 by the invariant pos <= len; advanced = min(cnt, remaining_header) so pos += advanced keeps pos <= len and cnt -= advanced cannot underflow; the payload advance gets cnt <= payload.remaining() from the Buf contract of the caller; chunk() slices buf[pos..len] with pos <= len <= 64. Model/WriteBuf.v (C14) wb_advance; exercised by the back-pressure family (budgets 0,1,2,3,7,63)";
  mk_review "h3/src/stream.rs" "Buf for WriteBuf::remaining" K_arith 2 Guarded
    "send path, but driven by the transport: advance(cnt) is called with what the flow-control credit of the peer lets the transport take. remaining_header = len - pos >= 0 by the invariant pos <= len; advanced = min(cnt, remaining_header) so pos += advanced keeps pos <= len and cnt -= advanced cannot underflow; the payload advance gets cnt <= payload.remaining() from the Buf contract of the caller; chunk() slices buf[pos..len] with pos <= len <= 64. Model/WriteBuf.v (C14) wb_advance; exercised by the back-pressure family (budgets 0,1,2,3,7,63)";
  mk_review "h3/src/stream.rs" "Buf for WriteBuf::chunk" K_arith 1 Guarded
    "send path, but driven by the transport: advance(cnt) is called with what the flow-control credit of the peer lets the transport take. remaining_header = len - pos >= 0 by the invariant pos <= len; advanced = min(cnt, remaining_header) so pos += advanced keeps pos <= len and cnt -= advanced cannot underflow; the payload advance gets cnt <= payload.remaining() from the Buf contract of the caller; chunk() slices buf[pos..len] with pos <= len <= 64. Model/WriteBuf.v (C14) wb_advance; exercised by the back-pressure family (budgets 0,1,2,3,7,63)";
  mk_review "h3/src/stream.rs" "Buf for WriteBuf::chunk" K_index 1 Guarded
    "send path, but driven by the transport: advance(cnt) is called with what the flow-control credit of the peer lets the transport take. remaining_header = len - pos >= 0 by the invariant pos <= len; advanced = min(cnt, remaining_header) so pos += advanced keeps pos <= len and cnt -= advanced cannot underflow; the payload advance gets cnt <= payload.remaining() from the Buf contract of the caller; chunk() slices buf[pos..len] with pos <= len <= 64. Model/WriteBuf.v (C14) wb_advance; exercised by the back-pressure family (budgets 0,1,2,3,7,63)";
  mk_review "h3/src/stream.rs" "Buf for WriteBuf::advance" K_arith 1 Guarded
    "send path, but driven by the transport: advance(cnt) is called with what the flow-control credit of the peer lets the transport take. remaining_header = len - pos >= 0 by the invariant pos <= len; advanced = min(cnt, remaining_header) so pos += advanced keeps pos <= len and cnt -= advanced cannot underflow; the payload advance gets cnt <= payload.remaining() from the Buf contract of the caller; chunk() slices buf[pos..len] with pos <= len <= 64. Model/WriteBuf.v (C14) wb_advance; exercised by the back-pressure family (budgets 0,1,2,3,7,63)";
  mk_review "h3/src/stream.rs" "Buf for WriteBuf::advance" K_arith 2 Guarded
    "send path, but driven by the transport: advance(cnt) is called with what the flow-control credit of the peer lets the transport take. remaining_header = len - pos >= 0 by the invariant pos <= len; advanced = min(cnt, remaining_header) so pos += advanced keeps pos <= len and cnt -= advanced cannot underflow; the payload advance gets cnt <= payload.remaining() from the Buf contract of the caller; chunk() slices buf[pos..len] with pos <= len <= 64. Model/WriteBuf.v (C14) wb_advance; exercised by the back-pressure family (budgets 0,1,2,3,7,63)";
  mk_review "h3/src/stream.rs" "Buf for WriteBuf::advance" K_arith 3 Guarded
    "send path, but driven by the transport: advance(cnt) is called with what the flow-control credit of the peer lets the transport take. remaining_header = len - pos >= 0 by the invariant pos <= len; advanced = min(cnt, remaining_header) so pos += advanced keeps pos <= len and cnt -= advanced cannot underflow; the payload advance gets cnt <= payload.remaining() from the Buf contract of the caller; chunk() slices buf[pos..len] with pos <= len <= 64. Model/WriteBuf.v (C14) wb_advance; exercised by the back-pressure family (budgets 0,1,2,3,7,63)";
  mk_review "h3/src/stream.rs" "Buf for WriteBuf::advance" K_buf_advance 1 Guarded
    "send path, but driven by the transport: advance(cnt) is called with what the flow-control credit of the peer lets the transport take. remaining_header = len - pos >= 0 by the invariant pos <= len; advanced = min(cnt, remaining_header) so pos += advanced keeps pos <= len and cnt -= advanced cannot underflow; the payload advance gets cnt <= payload.remaining() from the Buf contract of the caller; chunk() slices buf[pos..len] with pos <= len <= 64. Model/WriteBuf.v (C14) wb_advance; exercised by the back-pressure family (budgets 0,1,2,3,7,63)";
  mk_review "h3/src/stream.rs" "AcceptRecvStream::into_stream" K_expect 1 Modelled
    "into_stream is only called after poll_type returned Ready(Ok(())), which has set ty, and id for WEBTRANSPORT_UNI/PUSH (connection.rs poll_accept_recv); Model/AcceptRecv.v into_stream_kind Panic 61/62, unreachable by poll_type_char (C04): after Ready(Ok) ty is set and the id is set exactly for PUSH / WEBTRANSPORT_UNI";
  mk_review "h3/src/stream.rs" "AcceptRecvStream::into_stream" K_expect 2 Modelled
    "into_stream is only called after poll_type returned Ready(Ok(())), which has set ty, and id for WEBTRANSPORT_UNI/PUSH (connection.rs poll_accept_recv); Model/AcceptRecv.v into_stream_kind Panic 61/62, unreachable by poll_type_char (C04): after Ready(Ok) ty is set and the id is set exactly for PUSH / WEBTRANSPORT_UNI";
  mk_review "h3/src/stream.rs" "AcceptRecvStream::poll_next_varint" K_index_const 1 Modelled
    "same line: buf.remaining() >= 1, and the front chunk of a non-empty BufList is non-empty (take_chunk pops emptied fronts; no empty chunks pushed); Model/AcceptRecv.v poll_next_varint, theorem C06_no_panic_accept_recv (poll_type_no_panic, C04)";
  mk_review "h3/src/stream.rs" "RecvStream for BufRecvStream::poll_data" K_buf_copy 1 Guarded
    "copy_to_bytes(data.remaining()): exact length";
  mk_review "h3/src/stream.rs" "AsyncRead for BufRecvStream::poll_read" K_assert 1 Guarded
    "take_chunk(limit) returns at most limit bytes, so chunk.len() <= buf.len() and the slices have equal length (WebTransport payload path only)";
  mk_review "h3/src/stream.rs" "AsyncRead for BufRecvStream::poll_read" K_index 1 Guarded
    "take_chunk(limit) returns at most limit bytes, so chunk.len() <= buf.len() and the slices have equal length (WebTransport payload path only)";
  mk_review "h3/src/stream.rs" "AsyncRead for BufRecvStream::poll_read" K_buf_copy 1 Guarded
    "take_chunk(limit) returns at most limit bytes, so chunk.len() <= buf.len() and the slices have equal length (WebTransport payload path only)";
  mk_review "h3/src/stream.rs" "AsyncRead for BufRecvStream::poll_read#2" K_assert 1 Guarded
    "take_chunk(limit) returns at most limit bytes, so chunk.len() <= buf.len() and the slices have equal length (WebTransport payload path only)";
  mk_review "h3/src/stream.rs" "AsyncRead for BufRecvStream::poll_read#2" K_buf_copy 1 Guarded
    "take_chunk(limit) returns at most limit bytes, so chunk.len() <= buf.len() and the slices have equal length (WebTransport payload path only)";
  mk_review "h3/src/connection.rs" "ConnectionInner::new" K_capacity 1 NotPeerReachable
    "Vec::with_capacity(3): constant";
  mk_review "h3/src/connection.rs" "ConnectionInner::poll_accept_recv" K_expect 1 Guarded
    "the iterator is filtered by s.is_some() and take() is on the same element";
  mk_review "h3/src/connection.rs" "ConnectionInner::poll_accept_recv" K_expect 2 Guarded
    "the iterator is filtered by s.is_some() and take() is on the same element";
  mk_review "h3/src/proto/frame.rs" "Frame::decode" K_arith 1 Guarded
    "remaining is a buffer length (< 2^63) and len < 2^62, so remaining + 1 and 2 + len fit in usize";
  mk_review "h3/src/proto/frame.rs" "Frame::decode" K_arith 2 Guarded
    "remaining is a buffer length (< 2^63) and len < 2^62, so remaining + 1 and 2 + len fit in usize";
  mk_review "h3/src/proto/frame.rs" "Frame::decode" K_cast 1 Guarded
    "64-bit usize assumed (DESIGN section 3): the value is < 2^62 or already bound-checked against usize::MAX, the cast is lossless";
  mk_review "h3/src/proto/frame.rs" "Frame::decode" K_cast 2 Guarded
    "64-bit usize assumed (DESIGN section 3): the value is < 2^62 or already bound-checked against usize::MAX, the cast is lossless";
  mk_review "h3/src/proto/frame.rs" "Frame::decode" K_arith 3 Guarded
    "remaining is a buffer length (< 2^63) and len < 2^62, so remaining + 1 and 2 + len fit in usize";
  mk_review "h3/src/proto/frame.rs" "Frame::decode" K_cast 3 Guarded
    "64-bit usize assumed (DESIGN section 3): the value is < 2^62 or already bound-checked against usize::MAX, the cast is lossless";
  mk_review "h3/src/proto/frame.rs" "Frame::decode" K_cast 4 Guarded
    "64-bit usize assumed (DESIGN section 3): the value is < 2^62 or already bound-checked against usize::MAX, the cast is lossless";
  mk_review "h3/src/proto/frame.rs" "Frame::decode" K_buf_copy 1 Modelled
    "Model/FrameDec.v Panic 30 (copy_to_bytes past the end): guarded by the buf.remaining() < len => Incomplete check just above; unreachability: theorem C06_no_panic_frame_decode (Proofs/NoPanicFrames.v frame_decode_no_panic)";
  mk_review "h3/src/proto/frame.rs" "Frame::decode" K_cast 5 Guarded
    "64-bit usize assumed (DESIGN section 3): the value is < 2^62 or already bound-checked against usize::MAX, the cast is lossless";
  mk_review "h3/src/proto/frame.rs" "Frame::decode" K_unreachable 1 Modelled
    "Model/FrameDec.v Panic 31 (ArmUnreachable): DATA and WEBTRANSPORT_BI_STREAM return before the match (GenFrameTypes pins the arm order); unreachability: theorem C06_no_panic_frame_decode (Proofs/NoPanicFrames.v frame_decode_no_panic)";
  mk_review "h3/src/proto/frame.rs" "Frame::decode" K_buf_advance 1 Guarded
    "payload = buf.take(len) after remaining() >= len: advance(len) is within the Take limit";
  mk_review "h3/src/proto/frame.rs" "Frame::decode" K_cast 6 Guarded
    "64-bit usize assumed (DESIGN section 3): the value is < 2^62 or already bound-checked against usize::MAX, the cast is lossless";
  mk_review "h3/src/proto/frame.rs" "Encode for Frame::encode" K_cast 1 NotPeerReachable
    "send path only (encoding of locally produced values; C14/C13 cover the writers), never run on peer bytes";
  mk_review "h3/src/proto/frame.rs" "Encode for Frame::encode" K_cast 2 NotPeerReachable
    "send path only (encoding of locally produced values; C14/C13 cover the writers), never run on peer bytes";
  mk_review "h3/src/proto/frame.rs" "Encode for Frame::encode" K_buf_copy 1 NotPeerReachable
    "send path only (encoding of locally produced values; C14/C13 cover the writers), never run on peer bytes";
  mk_review "h3/src/proto/frame.rs" "FrameType::grease" K_arith 1 NotPeerReachable
    "local RNG value below 0x210842108421083: g*0x1f+0x21 < 2^62 (Model/FrameEnc.v Panic 25 shows the bound)";
  mk_review "h3/src/proto/frame.rs" "FrameType::grease" K_arith 2 NotPeerReachable
    "local RNG value below 0x210842108421083: g*0x1f+0x21 < 2^62 (Model/FrameEnc.v Panic 25 shows the bound)";
  mk_review "h3/src/proto/frame.rs" "trait FrameHeader::encode_header" K_cast 1 NotPeerReachable
    "send path only (encoding of locally produced values; C14/C13 cover the writers), never run on peer bytes";
  mk_review "h3/src/proto/frame.rs" "FrameHeader for PushPromise::encode_header" K_cast 1 NotPeerReachable
    "send path only (encoding of locally produced values; C14/C13 cover the writers), never run on peer bytes";
  mk_review "h3/src/proto/frame.rs" "FrameHeader for PushPromise::len" K_expect 1 NotPeerReachable
    "send path only (encoding of locally produced values; C14/C13 cover the writers), never run on peer bytes";
  mk_review "h3/src/proto/frame.rs" "FrameHeader for PushPromise::len" K_arith 1 NotPeerReachable
    "send path only (encoding of locally produced values; C14/C13 cover the writers), never run on peer bytes";
  mk_review "h3/src/proto/frame.rs" "PushPromise::decode" K_buf_copy 1 Guarded
    "copy_to_bytes(buf.remaining()): exact length";
  mk_review "h3/src/proto/frame.rs" "PushPromise::encode" K_buf_copy 1 NotPeerReachable
    "send path only (encoding of locally produced values; C14/C13 cover the writers), never run on peer bytes";
  mk_review "h3/src/proto/frame.rs" "simple_frame_encode" K_cast 1 NotPeerReachable
    "send path only (encoding of locally produced values; C14/C13 cover the writers), never run on peer bytes";
  mk_review "h3/src/proto/frame.rs" "SettingId::grease" K_arith 1 NotPeerReachable
    "local RNG value below 0x210842108421083: g*0x1f+0x21 < 2^62 (Model/FrameEnc.v Panic 25 shows the bound)";
  mk_review "h3/src/proto/frame.rs" "SettingId::grease" K_arith 2 NotPeerReachable
    "local RNG value below 0x210842108421083: g*0x1f+0x21 < 2^62 (Model/FrameEnc.v Panic 25 shows the bound)";
  mk_review "h3/src/proto/frame.rs" "FrameHeader for Settings::len" K_index 1 NotPeerReachable
    "send path only (encoding of locally produced values; C14/C13 cover the writers), never run on peer bytes";
  mk_review "h3/src/proto/frame.rs" "FrameHeader for Settings::len" K_arith 1 NotPeerReachable
    "send path only (encoding of locally produced values; C14/C13 cover the writers), never run on peer bytes";
  mk_review "h3/src/proto/frame.rs" "FrameHeader for Settings::len" K_unwrap 1 NotPeerReachable
    "send path only (encoding of locally produced values; C14/C13 cover the writers), never run on peer bytes";
  mk_review "h3/src/proto/frame.rs" "FrameHeader for Settings::len" K_arith 2 NotPeerReachable
    "send path only (encoding of locally produced values; C14/C13 cover the writers), never run on peer bytes";
  mk_review "h3/src/proto/frame.rs" "FrameHeader for Settings::len" K_unwrap 2 NotPeerReachable
    "send path only (encoding of locally produced values; C14/C13 cover the writers), never run on peer bytes";
  mk_review "h3/src/proto/frame.rs" "Settings::insert" K_index 1 Modelled
    "Model/Settings.v (C13): len <= SETTINGS_LEN is an invariant, insert answers Exceeded before indexing entries[len]; at most 7 supported ids and repeats are refused; theorems C06_no_panic_settings (st_decode_no_panic) and settings_scan_no_panic inside C06_no_panic_frame_decode";
  mk_review "h3/src/proto/frame.rs" "Settings::insert" K_index 2 Modelled
    "Model/Settings.v (C13): len <= SETTINGS_LEN is an invariant, insert answers Exceeded before indexing entries[len]; at most 7 supported ids and repeats are refused; theorems C06_no_panic_settings (st_decode_no_panic) and settings_scan_no_panic inside C06_no_panic_frame_decode";
  mk_review "h3/src/proto/frame.rs" "Settings::insert" K_arith 1 Modelled
    "Model/Settings.v (C13): len <= SETTINGS_LEN is an invariant, insert answers Exceeded before indexing entries[len]; at most 7 supported ids and repeats are refused; theorems C06_no_panic_settings (st_decode_no_panic) and settings_scan_no_panic inside C06_no_panic_frame_decode";
  mk_review "h3/src/proto/frame.rs" "Settings::encode" K_index 1 NotPeerReachable
    "send path only (encoding of locally produced values; C14/C13 cover the writers), never run on peer bytes";
  mk_review "h3/src/proto/frame.rs" "Settings::decode" K_headermap 1 Guarded
    "lexical false positive: Settings::insert (fixed array, returns Err(Exceeded)), not HeaderMap::insert";
  mk_review "h3/src/proto/varint.rs" "Div for VarInt::div" K_arith 1 NotPeerReachable
    "the divisor is the constant 4 at the only call site (h3-datagram), never a peer value";
  mk_review "h3/src/proto/varint.rs" "VarInt::from_u32" K_cast 1 Guarded
    "widening cast to u64";
  mk_review "h3/src/proto/varint.rs" "VarInt::from_u64" K_arith 1 Guarded
    "2u64.pow(62) is a constant";
  mk_review "h3/src/proto/varint.rs" "VarInt::size" K_arith 1 Guarded
    "2u64.pow(k) with constant k <= 62";
  mk_review "h3/src/proto/varint.rs" "VarInt::size" K_arith 2 Guarded
    "2u64.pow(k) with constant k <= 62";
  mk_review "h3/src/proto/varint.rs" "VarInt::size" K_arith 3 Guarded
    "2u64.pow(k) with constant k <= 62";
  mk_review "h3/src/proto/varint.rs" "VarInt::size" K_arith 4 Guarded
    "2u64.pow(k) with constant k <= 62";
  mk_review "h3/src/proto/varint.rs" "VarInt::size" K_unreachable 1 Modelled
    "Model/Varint.v size: every VarInt is < 2^62 (from_u64 / decode mask the top bits); C16 theorems";
  mk_review "h3/src/proto/varint.rs" "VarInt::encoded_size" K_arith 1 Guarded
    "first >> 6 <= 3, so 2^(first>>6) <= 8";
  mk_review "h3/src/proto/varint.rs" "VarInt::encoded_size" K_shift 1 Guarded
    "first >> 6 <= 3, so 2^(first>>6) <= 8";
  mk_review "h3/src/proto/varint.rs" "VarInt::encoded_size" K_cast 1 Guarded
    "first >> 6 <= 3, so 2^(first>>6) <= 8";
  mk_review "h3/src/proto/varint.rs" "VarInt::decode" K_index_const 1 Modelled
    "Model/Varint.v varint decode; theorem C16_decode_never_panics: constant indices into [u8; 8], get_u8/copy_to_slice after has_remaining()/remaining() checks, tag = byte >> 6 <= 3 = C06_no_panic_varint";
  mk_review "h3/src/proto/varint.rs" "VarInt::decode" K_buf_get 1 Modelled
    "Model/Varint.v varint decode; theorem C16_decode_never_panics: constant indices into [u8; 8], get_u8/copy_to_slice after has_remaining()/remaining() checks, tag = byte >> 6 <= 3 = C06_no_panic_varint";
  mk_review "h3/src/proto/varint.rs" "VarInt::decode" K_index_const 2 Modelled
    "Model/Varint.v varint decode; theorem C16_decode_never_panics: constant indices into [u8; 8], get_u8/copy_to_slice after has_remaining()/remaining() checks, tag = byte >> 6 <= 3 = C06_no_panic_varint";
  mk_review "h3/src/proto/varint.rs" "VarInt::decode" K_shift 1 Modelled
    "Model/Varint.v varint decode; theorem C16_decode_never_panics: constant indices into [u8; 8], get_u8/copy_to_slice after has_remaining()/remaining() checks, tag = byte >> 6 <= 3 = C06_no_panic_varint";
  mk_review "h3/src/proto/varint.rs" "VarInt::decode" K_index_const 3 Modelled
    "Model/Varint.v varint decode; theorem C16_decode_never_panics: constant indices into [u8; 8], get_u8/copy_to_slice after has_remaining()/remaining() checks, tag = byte >> 6 <= 3 = C06_no_panic_varint";
  mk_review "h3/src/proto/varint.rs" "VarInt::decode" K_index_const 4 Modelled
    "Model/Varint.v varint decode; theorem C16_decode_never_panics: constant indices into [u8; 8], get_u8/copy_to_slice after has_remaining()/remaining() checks, tag = byte >> 6 <= 3 = C06_no_panic_varint";
  mk_review "h3/src/proto/varint.rs" "VarInt::decode" K_buf_copy 1 Modelled
    "Model/Varint.v varint decode; theorem C16_decode_never_panics: constant indices into [u8; 8], get_u8/copy_to_slice after has_remaining()/remaining() checks, tag = byte >> 6 <= 3 = C06_no_panic_varint";
  mk_review "h3/src/proto/varint.rs" "VarInt::decode" K_index 1 Modelled
    "Model/Varint.v varint decode; theorem C16_decode_never_panics: constant indices into [u8; 8], get_u8/copy_to_slice after has_remaining()/remaining() checks, tag = byte >> 6 <= 3 = C06_no_panic_varint";
  mk_review "h3/src/proto/varint.rs" "VarInt::decode" K_index 2 Modelled
    "Model/Varint.v varint decode; theorem C16_decode_never_panics: constant indices into [u8; 8], get_u8/copy_to_slice after has_remaining()/remaining() checks, tag = byte >> 6 <= 3 = C06_no_panic_varint";
  mk_review "h3/src/proto/varint.rs" "VarInt::decode" K_unwrap 1 Modelled
    "Model/Varint.v varint decode; theorem C16_decode_never_panics: constant indices into [u8; 8], get_u8/copy_to_slice after has_remaining()/remaining() checks, tag = byte >> 6 <= 3 = C06_no_panic_varint";
  mk_review "h3/src/proto/varint.rs" "VarInt::decode" K_buf_copy 2 Modelled
    "Model/Varint.v varint decode; theorem C16_decode_never_panics: constant indices into [u8; 8], get_u8/copy_to_slice after has_remaining()/remaining() checks, tag = byte >> 6 <= 3 = C06_no_panic_varint";
  mk_review "h3/src/proto/varint.rs" "VarInt::decode" K_index 3 Modelled
    "Model/Varint.v varint decode; theorem C16_decode_never_panics: constant indices into [u8; 8], get_u8/copy_to_slice after has_remaining()/remaining() checks, tag = byte >> 6 <= 3 = C06_no_panic_varint";
  mk_review "h3/src/proto/varint.rs" "VarInt::decode" K_index 4 Modelled
    "Model/Varint.v varint decode; theorem C16_decode_never_panics: constant indices into [u8; 8], get_u8/copy_to_slice after has_remaining()/remaining() checks, tag = byte >> 6 <= 3 = C06_no_panic_varint";
  mk_review "h3/src/proto/varint.rs" "VarInt::decode" K_unwrap 2 Modelled
    "Model/Varint.v varint decode; theorem C16_decode_never_panics: constant indices into [u8; 8], get_u8/copy_to_slice after has_remaining()/remaining() checks, tag = byte >> 6 <= 3 = C06_no_panic_varint";
  mk_review "h3/src/proto/varint.rs" "VarInt::decode" K_buf_copy 3 Modelled
    "Model/Varint.v varint decode; theorem C16_decode_never_panics: constant indices into [u8; 8], get_u8/copy_to_slice after has_remaining()/remaining() checks, tag = byte >> 6 <= 3 = C06_no_panic_varint";
  mk_review "h3/src/proto/varint.rs" "VarInt::decode" K_index 5 Modelled
    "Model/Varint.v varint decode; theorem C16_decode_never_panics: constant indices into [u8; 8], get_u8/copy_to_slice after has_remaining()/remaining() checks, tag = byte >> 6 <= 3 = C06_no_panic_varint";
  mk_review "h3/src/proto/varint.rs" "VarInt::decode" K_unreachable 1 Modelled
    "Model/Varint.v varint decode; theorem C16_decode_never_panics: constant indices into [u8; 8], get_u8/copy_to_slice after has_remaining()/remaining() checks, tag = byte >> 6 <= 3 = C06_no_panic_varint";
  mk_review "h3/src/proto/varint.rs" "VarInt::encode" K_arith 1 NotPeerReachable
    "send path only (encoding of locally produced values; C14/C13 cover the writers), never run on peer bytes; Model/Varint.v encode (C16)";
  mk_review "h3/src/proto/varint.rs" "VarInt::encode" K_cast 1 NotPeerReachable
    "send path only (encoding of locally produced values; C14/C13 cover the writers), never run on peer bytes; Model/Varint.v encode (C16)";
  mk_review "h3/src/proto/varint.rs" "VarInt::encode" K_arith 2 NotPeerReachable
    "send path only (encoding of locally produced values; C14/C13 cover the writers), never run on peer bytes; Model/Varint.v encode (C16)";
  mk_review "h3/src/proto/varint.rs" "VarInt::encode" K_shift 1 NotPeerReachable
    "send path only (encoding of locally produced values; C14/C13 cover the writers), never run on peer bytes; Model/Varint.v encode (C16)";
  mk_review "h3/src/proto/varint.rs" "VarInt::encode" K_cast 2 NotPeerReachable
    "send path only (encoding of locally produced values; C14/C13 cover the writers), never run on peer bytes; Model/Varint.v encode (C16)";
  mk_review "h3/src/proto/varint.rs" "VarInt::encode" K_arith 3 NotPeerReachable
    "send path only (encoding of locally produced values; C14/C13 cover the writers), never run on peer bytes; Model/Varint.v encode (C16)";
  mk_review "h3/src/proto/varint.rs" "VarInt::encode" K_shift 2 NotPeerReachable
    "send path only (encoding of locally produced values; C14/C13 cover the writers), never run on peer bytes; Model/Varint.v encode (C16)";
  mk_review "h3/src/proto/varint.rs" "VarInt::encode" K_cast 3 NotPeerReachable
    "send path only (encoding of locally produced values; C14/C13 cover the writers), never run on peer bytes; Model/Varint.v encode (C16)";
  mk_review "h3/src/proto/varint.rs" "VarInt::encode" K_arith 4 NotPeerReachable
    "send path only (encoding of locally produced values; C14/C13 cover the writers), never run on peer bytes; Model/Varint.v encode (C16)";
  mk_review "h3/src/proto/varint.rs" "VarInt::encode" K_shift 3 NotPeerReachable
    "send path only (encoding of locally produced values; C14/C13 cover the writers), never run on peer bytes; Model/Varint.v encode (C16)";
  mk_review "h3/src/proto/varint.rs" "VarInt::encode" K_unreachable 1 NotPeerReachable
    "send path only (encoding of locally produced values; C14/C13 cover the writers), never run on peer bytes; Model/Varint.v encode (C16)";
  mk_review "h3/src/proto/varint.rs" "TryFrom for VarInt::try_from#2" K_cast 1 Guarded
    "widening cast to u64";
  mk_review "h3/src/proto/varint.rs" "BufMutExt for T::write_var" K_unwrap 1 NotPeerReachable
    "send path only (encoding of locally produced values; C14/C13 cover the writers), never run on peer bytes: arguments are lengths of in-memory buffers and ids < 2^62";
  mk_review "h3/src/proto/headers.rs" "Header::len" K_arith 1 Guarded
    "sum of two in-memory collection sizes";
  mk_review "h3/src/proto/headers.rs" "Header::size" K_arith 1 Guarded
    "sum of two in-memory collection sizes";
  mk_review "h3/src/proto/headers.rs" "TryFrom for Header::try_from" K_arith 1 Guarded
    "counts pseudo-header fields of one field section: bounded by the number of decoded fields (< buffer length)";
  mk_review "h3/src/proto/headers.rs" "TryFrom for Header::try_from" K_arith 2 Guarded
    "counts pseudo-header fields of one field section: bounded by the number of decoded fields (< buffer length)";
  mk_review "h3/src/proto/headers.rs" "TryFrom for Header::try_from" K_arith 3 Guarded
    "counts pseudo-header fields of one field section: bounded by the number of decoded fields (< buffer length)";
  mk_review "h3/src/proto/headers.rs" "TryFrom for Header::try_from" K_arith 4 Guarded
    "counts pseudo-header fields of one field section: bounded by the number of decoded fields (< buffer length)";
  mk_review "h3/src/proto/headers.rs" "TryFrom for Header::try_from" K_arith 5 Guarded
    "counts pseudo-header fields of one field section: bounded by the number of decoded fields (< buffer length)";
  mk_review "h3/src/proto/headers.rs" "TryFrom for Header::try_from" K_arith 6 Guarded
    "counts pseudo-header fields of one field section: bounded by the number of decoded fields (< buffer length)";
  mk_review "h3/src/proto/headers.rs" "Field::parse" K_index_const 1 Modelled
    "Model/Headers.v Panic 100 (name[0]): guarded by the name.is_empty() check (GenHeaders pins empty_name_is_error); theorems C06_no_panic_headers_request / _response / _trailers (field_parse_no_panic)";
  mk_review "h3/src/proto/headers.rs" "Pseudo::request" K_arith 1 NotPeerReachable
    "send path only (encoding of locally produced values; C14/C13 cover the writers), never run on peer bytes (client builds its own request); bool casts";
  mk_review "h3/src/proto/headers.rs" "Pseudo::request" K_cast 1 NotPeerReachable
    "send path only (encoding of locally produced values; C14/C13 cover the writers), never run on peer bytes (client builds its own request); bool casts";
  mk_review "h3/src/proto/headers.rs" "Pseudo::request" K_arith 2 NotPeerReachable
    "send path only (encoding of locally produced values; C14/C13 cover the writers), never run on peer bytes (client builds its own request); bool casts";
  mk_review "h3/src/proto/headers.rs" "Pseudo::request" K_cast 2 NotPeerReachable
    "send path only (encoding of locally produced values; C14/C13 cover the writers), never run on peer bytes (client builds its own request); bool casts";
  mk_review "h3/src/qpack/decoder.rs" "Decoder::decode_header" K_arith 1 NotPeerReachable
    "stateful QPACK decoder/encoder-side code: h3 connection code only calls decode_stateless/encode_stateless and never reads the peer QPACK streams (connection.rs stores them unread); covered by the C20 models, not reachable by a peer of h3";
  mk_review "h3/src/qpack/decoder.rs" "Decoder::decode_header" K_cast 1 NotPeerReachable
    "stateful QPACK decoder/encoder-side code: h3 connection code only calls decode_stateless/encode_stateless and never reads the peer QPACK streams (connection.rs stores them unread); covered by the C20 models, not reachable by a peer of h3";
  mk_review "h3/src/qpack/decoder.rs" "Decoder::on_encoder_recv" K_buf_copy 1 NotPeerReachable
    "stateful QPACK decoder/encoder-side code: h3 connection code only calls decode_stateless/encode_stateless and never reads the peer QPACK streams (connection.rs stores them unread); covered by the C20 models, not reachable by a peer of h3";
  mk_review "h3/src/qpack/decoder.rs" "Decoder::on_encoder_recv" K_arith 1 NotPeerReachable
    "stateful QPACK decoder/encoder-side code: h3 connection code only calls decode_stateless/encode_stateless and never reads the peer QPACK streams (connection.rs stores them unread); covered by the C20 models, not reachable by a peer of h3";
  mk_review "h3/src/qpack/decoder.rs" "Decoder::parse_instruction" K_index_const 1 NotPeerReachable
    "stateful QPACK decoder/encoder-side code: h3 connection code only calls decode_stateless/encode_stateless and never reads the peer QPACK streams (connection.rs stores them unread); covered by the C20 models, not reachable by a peer of h3";
  mk_review "h3/src/qpack/decoder.rs" "Decoder::parse_instruction" K_buf_advance 1 NotPeerReachable
    "stateful QPACK decoder/encoder-side code: h3 connection code only calls decode_stateless/encode_stateless and never reads the peer QPACK streams (connection.rs stores them unread); covered by the C20 models, not reachable by a peer of h3";
  mk_review "h3/src/qpack/decoder.rs" "Decoder::parse_instruction" K_cast 1 NotPeerReachable
    "stateful QPACK decoder/encoder-side code: h3 connection code only calls decode_stateless/encode_stateless and never reads the peer QPACK streams (connection.rs stores them unread); covered by the C20 models, not reachable by a peer of h3";
  mk_review "h3/src/qpack/decoder.rs" "Decoder::parse_header_field" K_index_const 1 NotPeerReachable
    "stateful QPACK decoder/encoder-side code: h3 connection code only calls decode_stateless/encode_stateless and never reads the peer QPACK streams (connection.rs stores them unread); covered by the C20 models, not reachable by a peer of h3";
  mk_review "h3/src/qpack/decoder.rs" "decode_stateless" K_index_const 1 Modelled
    "loop condition buf.has_remaining(): Bytes::chunk() is non-empty then; Model/QpackStateless.v; Model/QpackStateless.v decode_stateless / fields_loop, theorem C06_no_panic_qpack_stateless (decode_stateless_no_panic, C11)";
  mk_review "h3/src/qpack/decoder.rs" "decode_stateless" K_index_const 2 Modelled
    "loop condition buf.has_remaining(): Bytes::chunk() is non-empty then; Model/QpackStateless.v; Model/QpackStateless.v decode_stateless / fields_loop, theorem C06_no_panic_qpack_stateless (decode_stateless_no_panic, C11)";
  mk_review "h3/src/qpack/decoder.rs" "decode_stateless" K_arith 1 Modelled
    "mem_size grows by name+value+32 per field, each field costs >= 1 wire byte: bounded by ~2^7 x input length; Model/QpackStateless.v decode_stateless / fields_loop, theorem C06_no_panic_qpack_stateless (decode_stateless_no_panic, C11)";
  mk_review "h3/src/qpack/decoder.rs" "decode_stateless" K_cast 1 Modelled
    "mem_size grows by name+value+32 per field, each field costs >= 1 wire byte: bounded by ~2^7 x input length; Model/QpackStateless.v decode_stateless / fields_loop, theorem C06_no_panic_qpack_stateless (decode_stateless_no_panic, C11)";
  mk_review "h3/src/qpack/block.rs" "HeaderPrefix::new" K_assert 1 NotPeerReachable
    "stateful QPACK decoder/encoder-side code: h3 connection code only calls decode_stateless/encode_stateless and never reads the peer QPACK streams (connection.rs stores them unread); covered by the C20 models, not reachable by a peer of h3";
  mk_review "h3/src/qpack/block.rs" "HeaderPrefix::new" K_arith 1 NotPeerReachable
    "stateful QPACK decoder/encoder-side code: h3 connection code only calls decode_stateless/encode_stateless and never reads the peer QPACK streams (connection.rs stores them unread); covered by the C20 models, not reachable by a peer of h3";
  mk_review "h3/src/qpack/block.rs" "HeaderPrefix::new" K_arith 2 NotPeerReachable
    "stateful QPACK decoder/encoder-side code: h3 connection code only calls decode_stateless/encode_stateless and never reads the peer QPACK streams (connection.rs stores them unread); covered by the C20 models, not reachable by a peer of h3";
  mk_review "h3/src/qpack/block.rs" "HeaderPrefix::new" K_arith 3 NotPeerReachable
    "stateful QPACK decoder/encoder-side code: h3 connection code only calls decode_stateless/encode_stateless and never reads the peer QPACK streams (connection.rs stores them unread); covered by the C20 models, not reachable by a peer of h3";
  mk_review "h3/src/qpack/block.rs" "HeaderPrefix::new" K_arith 4 NotPeerReachable
    "stateful QPACK decoder/encoder-side code: h3 connection code only calls decode_stateless/encode_stateless and never reads the peer QPACK streams (connection.rs stores them unread); covered by the C20 models, not reachable by a peer of h3";
  mk_review "h3/src/qpack/block.rs" "HeaderPrefix::new" K_arith 5 NotPeerReachable
    "stateful QPACK decoder/encoder-side code: h3 connection code only calls decode_stateless/encode_stateless and never reads the peer QPACK streams (connection.rs stores them unread); covered by the C20 models, not reachable by a peer of h3";
  mk_review "h3/src/qpack/block.rs" "HeaderPrefix::new" K_arith 6 NotPeerReachable
    "stateful QPACK decoder/encoder-side code: h3 connection code only calls decode_stateless/encode_stateless and never reads the peer QPACK streams (connection.rs stores them unread); covered by the C20 models, not reachable by a peer of h3";
  mk_review "h3/src/qpack/block.rs" "HeaderPrefix::new" K_arith 7 NotPeerReachable
    "stateful QPACK decoder/encoder-side code: h3 connection code only calls decode_stateless/encode_stateless and never reads the peer QPACK streams (connection.rs stores them unread); covered by the C20 models, not reachable by a peer of h3";
  mk_review "h3/src/qpack/block.rs" "HeaderPrefix::base_without_refs" K_arith 1 Guarded
    "-1 - x is in range for EVERY isize x (x = MIN gives MAX, x = MAX gives MIN), whatever delta_base as isize wraps to; value only used in the error; modelled in Model/QpackStateless.v (hp_decode / indexed_decode / nameref_decode / literal_decode), theorem C06_no_panic_qpack_stateless";
  mk_review "h3/src/qpack/block.rs" "HeaderPrefix::base_without_refs" K_cast 1 Guarded
    "-1 - x is in range for EVERY isize x (x = MIN gives MAX, x = MAX gives MIN), whatever delta_base as isize wraps to; value only used in the error; modelled in Model/QpackStateless.v (hp_decode / indexed_decode / nameref_decode / literal_decode), theorem C06_no_panic_qpack_stateless";
  mk_review "h3/src/qpack/block.rs" "HeaderPrefix::get" K_arith 1 NotPeerReachable
    "stateful QPACK decoder/encoder-side code: h3 connection code only calls decode_stateless/encode_stateless and never reads the peer QPACK streams (connection.rs stores them unread); covered by the C20 models, not reachable by a peer of h3";
  mk_review "h3/src/qpack/block.rs" "HeaderPrefix::get" K_arith 2 NotPeerReachable
    "stateful QPACK decoder/encoder-side code: h3 connection code only calls decode_stateless/encode_stateless and never reads the peer QPACK streams (connection.rs stores them unread); covered by the C20 models, not reachable by a peer of h3";
  mk_review "h3/src/qpack/block.rs" "HeaderPrefix::get" K_arith 3 NotPeerReachable
    "stateful QPACK decoder/encoder-side code: h3 connection code only calls decode_stateless/encode_stateless and never reads the peer QPACK streams (connection.rs stores them unread); covered by the C20 models, not reachable by a peer of h3";
  mk_review "h3/src/qpack/block.rs" "HeaderPrefix::get" K_arith 4 NotPeerReachable
    "stateful QPACK decoder/encoder-side code: h3 connection code only calls decode_stateless/encode_stateless and never reads the peer QPACK streams (connection.rs stores them unread); covered by the C20 models, not reachable by a peer of h3";
  mk_review "h3/src/qpack/block.rs" "HeaderPrefix::get" K_arith 5 NotPeerReachable
    "stateful QPACK decoder/encoder-side code: h3 connection code only calls decode_stateless/encode_stateless and never reads the peer QPACK streams (connection.rs stores them unread); covered by the C20 models, not reachable by a peer of h3";
  mk_review "h3/src/qpack/block.rs" "HeaderPrefix::get" K_arith 6 NotPeerReachable
    "stateful QPACK decoder/encoder-side code: h3 connection code only calls decode_stateless/encode_stateless and never reads the peer QPACK streams (connection.rs stores them unread); covered by the C20 models, not reachable by a peer of h3";
  mk_review "h3/src/qpack/block.rs" "HeaderPrefix::get" K_arith 7 NotPeerReachable
    "stateful QPACK decoder/encoder-side code: h3 connection code only calls decode_stateless/encode_stateless and never reads the peer QPACK streams (connection.rs stores them unread); covered by the C20 models, not reachable by a peer of h3";
  mk_review "h3/src/qpack/block.rs" "HeaderPrefix::get" K_arith 8 NotPeerReachable
    "stateful QPACK decoder/encoder-side code: h3 connection code only calls decode_stateless/encode_stateless and never reads the peer QPACK streams (connection.rs stores them unread); covered by the C20 models, not reachable by a peer of h3";
  mk_review "h3/src/qpack/block.rs" "HeaderPrefix::get" K_arith 9 NotPeerReachable
    "stateful QPACK decoder/encoder-side code: h3 connection code only calls decode_stateless/encode_stateless and never reads the peer QPACK streams (connection.rs stores them unread); covered by the C20 models, not reachable by a peer of h3";
  mk_review "h3/src/qpack/block.rs" "HeaderPrefix::get" K_arith 10 NotPeerReachable
    "stateful QPACK decoder/encoder-side code: h3 connection code only calls decode_stateless/encode_stateless and never reads the peer QPACK streams (connection.rs stores them unread); covered by the C20 models, not reachable by a peer of h3";
  mk_review "h3/src/qpack/block.rs" "HeaderPrefix::get" K_arith 11 NotPeerReachable
    "stateful QPACK decoder/encoder-side code: h3 connection code only calls decode_stateless/encode_stateless and never reads the peer QPACK streams (connection.rs stores them unread); covered by the C20 models, not reachable by a peer of h3";
  mk_review "h3/src/qpack/block.rs" "HeaderPrefix::get" K_arith 12 NotPeerReachable
    "stateful QPACK decoder/encoder-side code: h3 connection code only calls decode_stateless/encode_stateless and never reads the peer QPACK streams (connection.rs stores them unread); covered by the C20 models, not reachable by a peer of h3";
  mk_review "h3/src/qpack/block.rs" "HeaderPrefix::get" K_arith 13 NotPeerReachable
    "stateful QPACK decoder/encoder-side code: h3 connection code only calls decode_stateless/encode_stateless and never reads the peer QPACK streams (connection.rs stores them unread); covered by the C20 models, not reachable by a peer of h3";
  mk_review "h3/src/qpack/block.rs" "HeaderPrefix::get" K_arith 14 NotPeerReachable
    "stateful QPACK decoder/encoder-side code: h3 connection code only calls decode_stateless/encode_stateless and never reads the peer QPACK streams (connection.rs stores them unread); covered by the C20 models, not reachable by a peer of h3";
  mk_review "h3/src/qpack/block.rs" "HeaderPrefix::get" K_cast 1 NotPeerReachable
    "stateful QPACK decoder/encoder-side code: h3 connection code only calls decode_stateless/encode_stateless and never reads the peer QPACK streams (connection.rs stores them unread); covered by the C20 models, not reachable by a peer of h3";
  mk_review "h3/src/qpack/block.rs" "HeaderPrefix::get" K_arith 15 NotPeerReachable
    "stateful QPACK decoder/encoder-side code: h3 connection code only calls decode_stateless/encode_stateless and never reads the peer QPACK streams (connection.rs stores them unread); covered by the C20 models, not reachable by a peer of h3";
  mk_review "h3/src/qpack/block.rs" "HeaderPrefix::get" K_cast 2 NotPeerReachable
    "stateful QPACK decoder/encoder-side code: h3 connection code only calls decode_stateless/encode_stateless and never reads the peer QPACK streams (connection.rs stores them unread); covered by the C20 models, not reachable by a peer of h3";
  mk_review "h3/src/qpack/block.rs" "HeaderPrefix::get" K_arith 16 NotPeerReachable
    "stateful QPACK decoder/encoder-side code: h3 connection code only calls decode_stateless/encode_stateless and never reads the peer QPACK streams (connection.rs stores them unread); covered by the C20 models, not reachable by a peer of h3";
  mk_review "h3/src/qpack/block.rs" "HeaderPrefix::get" K_arith 17 NotPeerReachable
    "stateful QPACK decoder/encoder-side code: h3 connection code only calls decode_stateless/encode_stateless and never reads the peer QPACK streams (connection.rs stores them unread); covered by the C20 models, not reachable by a peer of h3";
  mk_review "h3/src/qpack/block.rs" "HeaderPrefix::get" K_arith 18 NotPeerReachable
    "stateful QPACK decoder/encoder-side code: h3 connection code only calls decode_stateless/encode_stateless and never reads the peer QPACK streams (connection.rs stores them unread); covered by the C20 models, not reachable by a peer of h3";
  mk_review "h3/src/qpack/block.rs" "HeaderPrefix::decode" K_cast 1 Guarded
    "64-bit usize assumed (DESIGN section 3): the value is < 2^62 or already bound-checked against usize::MAX, the cast is lossless; modelled in Model/QpackStateless.v (hp_decode / indexed_decode / nameref_decode / literal_decode), theorem C06_no_panic_qpack_stateless";
  mk_review "h3/src/qpack/block.rs" "HeaderPrefix::decode" K_cast 2 Guarded
    "64-bit usize assumed (DESIGN section 3): the value is < 2^62 or already bound-checked against usize::MAX, the cast is lossless; modelled in Model/QpackStateless.v (hp_decode / indexed_decode / nameref_decode / literal_decode), theorem C06_no_panic_qpack_stateless";
  mk_review "h3/src/qpack/block.rs" "HeaderPrefix::decode" K_cast 3 Guarded
    "64-bit usize assumed (DESIGN section 3): the value is < 2^62 or already bound-checked against usize::MAX, the cast is lossless; modelled in Model/QpackStateless.v (hp_decode / indexed_decode / nameref_decode / literal_decode), theorem C06_no_panic_qpack_stateless";
  mk_review "h3/src/qpack/block.rs" "HeaderPrefix::decode" K_cast 4 Guarded
    "64-bit usize assumed (DESIGN section 3): the value is < 2^62 or already bound-checked against usize::MAX, the cast is lossless; modelled in Model/QpackStateless.v (hp_decode / indexed_decode / nameref_decode / literal_decode), theorem C06_no_panic_qpack_stateless";
  mk_review "h3/src/qpack/block.rs" "HeaderPrefix::encode" K_cast 1 NotPeerReachable
    "send path only (encoding of locally produced values; C14/C13 cover the writers), never run on peer bytes";
  mk_review "h3/src/qpack/block.rs" "HeaderPrefix::encode" K_cast 2 NotPeerReachable
    "send path only (encoding of locally produced values; C14/C13 cover the writers), never run on peer bytes";
  mk_review "h3/src/qpack/block.rs" "Indexed::decode" K_cast 1 Guarded
    "64-bit usize assumed (DESIGN section 3): the value is < 2^62 or already bound-checked against usize::MAX, the cast is lossless; modelled in Model/QpackStateless.v (hp_decode / indexed_decode / nameref_decode / literal_decode), theorem C06_no_panic_qpack_stateless";
  mk_review "h3/src/qpack/block.rs" "Indexed::decode" K_cast 2 Guarded
    "64-bit usize assumed (DESIGN section 3): the value is < 2^62 or already bound-checked against usize::MAX, the cast is lossless; modelled in Model/QpackStateless.v (hp_decode / indexed_decode / nameref_decode / literal_decode), theorem C06_no_panic_qpack_stateless";
  mk_review "h3/src/qpack/block.rs" "Indexed::decode" K_cast 3 Guarded
    "64-bit usize assumed (DESIGN section 3): the value is < 2^62 or already bound-checked against usize::MAX, the cast is lossless; modelled in Model/QpackStateless.v (hp_decode / indexed_decode / nameref_decode / literal_decode), theorem C06_no_panic_qpack_stateless";
  mk_review "h3/src/qpack/block.rs" "Indexed::decode" K_cast 4 Guarded
    "64-bit usize assumed (DESIGN section 3): the value is < 2^62 or already bound-checked against usize::MAX, the cast is lossless; modelled in Model/QpackStateless.v (hp_decode / indexed_decode / nameref_decode / literal_decode), theorem C06_no_panic_qpack_stateless";
  mk_review "h3/src/qpack/block.rs" "Indexed::encode" K_cast 1 NotPeerReachable
    "send path only (encoding of locally produced values; C14/C13 cover the writers), never run on peer bytes";
  mk_review "h3/src/qpack/block.rs" "Indexed::encode" K_cast 2 NotPeerReachable
    "send path only (encoding of locally produced values; C14/C13 cover the writers), never run on peer bytes";
  mk_review "h3/src/qpack/block.rs" "IndexedWithPostBase::decode" K_cast 1 Guarded
    "64-bit usize assumed (DESIGN section 3): the value is < 2^62 or already bound-checked against usize::MAX, the cast is lossless";
  mk_review "h3/src/qpack/block.rs" "IndexedWithPostBase::decode" K_cast 2 Guarded
    "64-bit usize assumed (DESIGN section 3): the value is < 2^62 or already bound-checked against usize::MAX, the cast is lossless";
  mk_review "h3/src/qpack/block.rs" "IndexedWithPostBase::encode" K_cast 1 NotPeerReachable
    "send path only (encoding of locally produced values; C14/C13 cover the writers), never run on peer bytes";
  mk_review "h3/src/qpack/block.rs" "LiteralWithNameRef::decode" K_cast 1 Guarded
    "64-bit usize assumed (DESIGN section 3): the value is < 2^62 or already bound-checked against usize::MAX, the cast is lossless; modelled in Model/QpackStateless.v (hp_decode / indexed_decode / nameref_decode / literal_decode), theorem C06_no_panic_qpack_stateless";
  mk_review "h3/src/qpack/block.rs" "LiteralWithNameRef::decode" K_cast 2 Guarded
    "64-bit usize assumed (DESIGN section 3): the value is < 2^62 or already bound-checked against usize::MAX, the cast is lossless; modelled in Model/QpackStateless.v (hp_decode / indexed_decode / nameref_decode / literal_decode), theorem C06_no_panic_qpack_stateless";
  mk_review "h3/src/qpack/block.rs" "LiteralWithNameRef::decode" K_cast 3 Guarded
    "64-bit usize assumed (DESIGN section 3): the value is < 2^62 or already bound-checked against usize::MAX, the cast is lossless; modelled in Model/QpackStateless.v (hp_decode / indexed_decode / nameref_decode / literal_decode), theorem C06_no_panic_qpack_stateless";
  mk_review "h3/src/qpack/block.rs" "LiteralWithNameRef::decode" K_cast 4 Guarded
    "64-bit usize assumed (DESIGN section 3): the value is < 2^62 or already bound-checked against usize::MAX, the cast is lossless; modelled in Model/QpackStateless.v (hp_decode / indexed_decode / nameref_decode / literal_decode), theorem C06_no_panic_qpack_stateless";
  mk_review "h3/src/qpack/block.rs" "LiteralWithNameRef::encode" K_cast 1 NotPeerReachable
    "send path only (encoding of locally produced values; C14/C13 cover the writers), never run on peer bytes";
  mk_review "h3/src/qpack/block.rs" "LiteralWithNameRef::encode" K_cast 2 NotPeerReachable
    "send path only (encoding of locally produced values; C14/C13 cover the writers), never run on peer bytes";
  mk_review "h3/src/qpack/block.rs" "LiteralWithPostBaseNameRef::decode" K_cast 1 Guarded
    "64-bit usize assumed (DESIGN section 3): the value is < 2^62 or already bound-checked against usize::MAX, the cast is lossless";
  mk_review "h3/src/qpack/block.rs" "LiteralWithPostBaseNameRef::decode" K_cast 2 Guarded
    "64-bit usize assumed (DESIGN section 3): the value is < 2^62 or already bound-checked against usize::MAX, the cast is lossless";
  mk_review "h3/src/qpack/block.rs" "LiteralWithPostBaseNameRef::encode" K_cast 1 NotPeerReachable
    "send path only (encoding of locally produced values; C14/C13 cover the writers), never run on peer bytes";
  mk_review "h3/src/qpack/block.rs" "Literal::decode" K_index_const 1 Guarded
    "guarded by the buf.remaining() < 1 check of the same if-chain; modelled in Model/QpackStateless.v (hp_decode / indexed_decode / nameref_decode / literal_decode), theorem C06_no_panic_qpack_stateless";
  mk_review "h3/src/qpack/block.rs" "Literal::decode" K_index_const 2 Guarded
    "guarded by the buf.remaining() < 1 check of the same if-chain; modelled in Model/QpackStateless.v (hp_decode / indexed_decode / nameref_decode / literal_decode), theorem C06_no_panic_qpack_stateless";
  mk_review "h3/src/qpack/prefix_string/mod.rs" "decode" K_arith 1 Guarded
    "size - 1: every caller passes the constant 8 or 4";
  mk_review "h3/src/qpack/prefix_string/mod.rs" "decode" K_buf_copy 1 Modelled
    "Model/PrefixString.v ps_decode: guarded by buf.remaining() < len => UnexpectedEnd; theorem C06_no_panic_prefix_string (ps_decode_no_panic, C15)";
  mk_review "h3/src/qpack/prefix_string/mod.rs" "decode" K_cast 1 Guarded
    "widening cast usize -> u64 (64-bit usize), followed by saturating_mul: the H1 repair (Huffman strings of 2^29 bytes or more are refused before the 32-bit bit positions of the decoder can overflow)";
  mk_review "h3/src/qpack/prefix_string/mod.rs" "encode" K_arith 1 NotPeerReachable
    "send path only (encoding of locally produced values; C14/C13 cover the writers), never run on peer bytes";
  mk_review "h3/src/qpack/prefix_string/mod.rs" "encode" K_shift 1 NotPeerReachable
    "send path only (encoding of locally produced values; C14/C13 cover the writers), never run on peer bytes";
  mk_review "h3/src/qpack/prefix_string/decode.rs" "HuffmanDecoder::check_eof" K_arith 1 Modelled
    "Model/Huffman.v check_eof (Panic 12): bit_pos.byte + 1 <= input.len() + 1 < 2^29 + 1 (caller-enforced bound, H1/F18 repair); side.count = 8 - bit % 8 is in 1..8 so 2u16 << (count-1) and - 1 are in range; theorem C06_no_panic_huffman";
  mk_review "h3/src/qpack/prefix_string/decode.rs" "HuffmanDecoder::check_eof" K_cast 1 Modelled
    "Model/Huffman.v check_eof (Panic 12): bit_pos.byte + 1 <= input.len() + 1 < 2^29 + 1 (caller-enforced bound, H1/F18 repair); side.count = 8 - bit % 8 is in 1..8 so 2u16 << (count-1) and - 1 are in range; theorem C06_no_panic_huffman";
  mk_review "h3/src/qpack/prefix_string/decode.rs" "HuffmanDecoder::check_eof" K_shift 1 Modelled
    "Model/Huffman.v check_eof (Panic 12): bit_pos.byte + 1 <= input.len() + 1 < 2^29 + 1 (caller-enforced bound, H1/F18 repair); side.count = 8 - bit % 8 is in 1..8 so 2u16 << (count-1) and - 1 are in range; theorem C06_no_panic_huffman";
  mk_review "h3/src/qpack/prefix_string/decode.rs" "HuffmanDecoder::check_eof" K_arith 2 Modelled
    "Model/Huffman.v check_eof (Panic 12): bit_pos.byte + 1 <= input.len() + 1 < 2^29 + 1 (caller-enforced bound, H1/F18 repair); side.count = 8 - bit % 8 is in 1..8 so 2u16 << (count-1) and - 1 are in range; theorem C06_no_panic_huffman";
  mk_review "h3/src/qpack/prefix_string/decode.rs" "HuffmanDecoder::check_eof" K_arith 3 Modelled
    "Model/Huffman.v check_eof (Panic 12): bit_pos.byte + 1 <= input.len() + 1 < 2^29 + 1 (caller-enforced bound, H1/F18 repair); side.count = 8 - bit % 8 is in 1..8 so 2u16 << (count-1) and - 1 are in range; theorem C06_no_panic_huffman";
  mk_review "h3/src/qpack/prefix_string/decode.rs" "HuffmanDecoder::check_eof" K_cast 2 Modelled
    "Model/Huffman.v check_eof (Panic 12): bit_pos.byte + 1 <= input.len() + 1 < 2^29 + 1 (caller-enforced bound, H1/F18 repair); side.count = 8 - bit % 8 is in 1..8 so 2u16 << (count-1) and - 1 are in range; theorem C06_no_panic_huffman";
  mk_review "h3/src/qpack/prefix_string/decode.rs" "HuffmanDecoder::fetch_value" K_cast 1 Guarded
    "widening casts (u8 -> u32 -> usize)";
  mk_review "h3/src/qpack/prefix_string/decode.rs" "HuffmanDecoder::decode_next" K_cast 1 Guarded
    "widening casts (u8 -> u32 -> usize)";
  mk_review "h3/src/qpack/prefix_string/decode.rs" "read_bits" K_cast 1 Modelled
    "Model/Huffman.v read_bits, Panic 10/11 = index out of bounds, guarded by the length test at the head; shift amounts bit_offset < 8, 8 - len, 16 - len with 1 <= len <= 8.  The u32 products `src.len() as u32 * 8` and `byte_offset * 8` cannot overflow any more: since the H1/F18 repair the only caller (prefix_string::decode) refuses Huffman strings whose bit length does not fit in u32 (len >= 2^29) before decoding; theorem C06_no_panic_huffman (hpack_decode_no_panic, C15) covers the model, whose unbounded bit positions are exact below that bound";
  mk_review "h3/src/qpack/prefix_string/decode.rs" "read_bits" K_arith 1 Modelled
    "Model/Huffman.v read_bits, Panic 10/11 = index out of bounds, guarded by the length test at the head; shift amounts bit_offset < 8, 8 - len, 16 - len with 1 <= len <= 8.  The u32 products `src.len() as u32 * 8` and `byte_offset * 8` cannot overflow any more: since the H1/F18 repair the only caller (prefix_string::decode) refuses Huffman strings whose bit length does not fit in u32 (len >= 2^29) before decoding; theorem C06_no_panic_huffman (hpack_decode_no_panic, C15) covers the model, whose unbounded bit positions are exact below that bound";
  mk_review "h3/src/qpack/prefix_string/decode.rs" "read_bits" K_arith 2 Modelled
    "Model/Huffman.v read_bits, Panic 10/11 = index out of bounds, guarded by the length test at the head; shift amounts bit_offset < 8, 8 - len, 16 - len with 1 <= len <= 8.  The u32 products `src.len() as u32 * 8` and `byte_offset * 8` cannot overflow any more: since the H1/F18 repair the only caller (prefix_string::decode) refuses Huffman strings whose bit length does not fit in u32 (len >= 2^29) before decoding; theorem C06_no_panic_huffman (hpack_decode_no_panic, C15) covers the model, whose unbounded bit positions are exact below that bound";
  mk_review "h3/src/qpack/prefix_string/decode.rs" "read_bits" K_arith 3 Modelled
    "Model/Huffman.v read_bits, Panic 10/11 = index out of bounds, guarded by the length test at the head; shift amounts bit_offset < 8, 8 - len, 16 - len with 1 <= len <= 8.  The u32 products `src.len() as u32 * 8` and `byte_offset * 8` cannot overflow any more: since the H1/F18 repair the only caller (prefix_string::decode) refuses Huffman strings whose bit length does not fit in u32 (len >= 2^29) before decoding; theorem C06_no_panic_huffman (hpack_decode_no_panic, C15) covers the model, whose unbounded bit positions are exact below that bound";
  mk_review "h3/src/qpack/prefix_string/decode.rs" "read_bits" K_arith 4 Modelled
    "Model/Huffman.v read_bits, Panic 10/11 = index out of bounds, guarded by the length test at the head; shift amounts bit_offset < 8, 8 - len, 16 - len with 1 <= len <= 8.  The u32 products `src.len() as u32 * 8` and `byte_offset * 8` cannot overflow any more: since the H1/F18 repair the only caller (prefix_string::decode) refuses Huffman strings whose bit length does not fit in u32 (len >= 2^29) before decoding; theorem C06_no_panic_huffman (hpack_decode_no_panic, C15) covers the model, whose unbounded bit positions are exact below that bound";
  mk_review "h3/src/qpack/prefix_string/decode.rs" "read_bits" K_arith 5 Modelled
    "Model/Huffman.v read_bits, Panic 10/11 = index out of bounds, guarded by the length test at the head; shift amounts bit_offset < 8, 8 - len, 16 - len with 1 <= len <= 8.  The u32 products `src.len() as u32 * 8` and `byte_offset * 8` cannot overflow any more: since the H1/F18 repair the only caller (prefix_string::decode) refuses Huffman strings whose bit length does not fit in u32 (len >= 2^29) before decoding; theorem C06_no_panic_huffman (hpack_decode_no_panic, C15) covers the model, whose unbounded bit positions are exact below that bound";
  mk_review "h3/src/qpack/prefix_string/decode.rs" "read_bits" K_arith 6 Modelled
    "Model/Huffman.v read_bits, Panic 10/11 = index out of bounds, guarded by the length test at the head; shift amounts bit_offset < 8, 8 - len, 16 - len with 1 <= len <= 8.  The u32 products `src.len() as u32 * 8` and `byte_offset * 8` cannot overflow any more: since the H1/F18 repair the only caller (prefix_string::decode) refuses Huffman strings whose bit length does not fit in u32 (len >= 2^29) before decoding; theorem C06_no_panic_huffman (hpack_decode_no_panic, C15) covers the model, whose unbounded bit positions are exact below that bound";
  mk_review "h3/src/qpack/prefix_string/decode.rs" "read_bits" K_arith 7 Modelled
    "Model/Huffman.v read_bits, Panic 10/11 = index out of bounds, guarded by the length test at the head; shift amounts bit_offset < 8, 8 - len, 16 - len with 1 <= len <= 8.  The u32 products `src.len() as u32 * 8` and `byte_offset * 8` cannot overflow any more: since the H1/F18 repair the only caller (prefix_string::decode) refuses Huffman strings whose bit length does not fit in u32 (len >= 2^29) before decoding; theorem C06_no_panic_huffman (hpack_decode_no_panic, C15) covers the model, whose unbounded bit positions are exact below that bound";
  mk_review "h3/src/qpack/prefix_string/decode.rs" "read_bits" K_arith 8 Modelled
    "Model/Huffman.v read_bits, Panic 10/11 = index out of bounds, guarded by the length test at the head; shift amounts bit_offset < 8, 8 - len, 16 - len with 1 <= len <= 8.  The u32 products `src.len() as u32 * 8` and `byte_offset * 8` cannot overflow any more: since the H1/F18 repair the only caller (prefix_string::decode) refuses Huffman strings whose bit length does not fit in u32 (len >= 2^29) before decoding; theorem C06_no_panic_huffman (hpack_decode_no_panic, C15) covers the model, whose unbounded bit positions are exact below that bound";
  mk_review "h3/src/qpack/prefix_string/decode.rs" "read_bits" K_arith 9 Modelled
    "Model/Huffman.v read_bits, Panic 10/11 = index out of bounds, guarded by the length test at the head; shift amounts bit_offset < 8, 8 - len, 16 - len with 1 <= len <= 8.  The u32 products `src.len() as u32 * 8` and `byte_offset * 8` cannot overflow any more: since the H1/F18 repair the only caller (prefix_string::decode) refuses Huffman strings whose bit length does not fit in u32 (len >= 2^29) before decoding; theorem C06_no_panic_huffman (hpack_decode_no_panic, C15) covers the model, whose unbounded bit positions are exact below that bound";
  mk_review "h3/src/qpack/prefix_string/decode.rs" "read_bits" K_arith 10 Modelled
    "Model/Huffman.v read_bits, Panic 10/11 = index out of bounds, guarded by the length test at the head; shift amounts bit_offset < 8, 8 - len, 16 - len with 1 <= len <= 8.  The u32 products `src.len() as u32 * 8` and `byte_offset * 8` cannot overflow any more: since the H1/F18 repair the only caller (prefix_string::decode) refuses Huffman strings whose bit length does not fit in u32 (len >= 2^29) before decoding; theorem C06_no_panic_huffman (hpack_decode_no_panic, C15) covers the model, whose unbounded bit positions are exact below that bound";
  mk_review "h3/src/qpack/prefix_string/decode.rs" "read_bits" K_index 1 Modelled
    "Model/Huffman.v read_bits, Panic 10/11 = index out of bounds, guarded by the length test at the head; shift amounts bit_offset < 8, 8 - len, 16 - len with 1 <= len <= 8.  The u32 products `src.len() as u32 * 8` and `byte_offset * 8` cannot overflow any more: since the H1/F18 repair the only caller (prefix_string::decode) refuses Huffman strings whose bit length does not fit in u32 (len >= 2^29) before decoding; theorem C06_no_panic_huffman (hpack_decode_no_panic, C15) covers the model, whose unbounded bit positions are exact below that bound";
  mk_review "h3/src/qpack/prefix_string/decode.rs" "read_bits" K_cast 2 Modelled
    "Model/Huffman.v read_bits, Panic 10/11 = index out of bounds, guarded by the length test at the head; shift amounts bit_offset < 8, 8 - len, 16 - len with 1 <= len <= 8.  The u32 products `src.len() as u32 * 8` and `byte_offset * 8` cannot overflow any more: since the H1/F18 repair the only caller (prefix_string::decode) refuses Huffman strings whose bit length does not fit in u32 (len >= 2^29) before decoding; theorem C06_no_panic_huffman (hpack_decode_no_panic, C15) covers the model, whose unbounded bit positions are exact below that bound";
  mk_review "h3/src/qpack/prefix_string/decode.rs" "read_bits" K_shift 1 Modelled
    "Model/Huffman.v read_bits, Panic 10/11 = index out of bounds, guarded by the length test at the head; shift amounts bit_offset < 8, 8 - len, 16 - len with 1 <= len <= 8.  The u32 products `src.len() as u32 * 8` and `byte_offset * 8` cannot overflow any more: since the H1/F18 repair the only caller (prefix_string::decode) refuses Huffman strings whose bit length does not fit in u32 (len >= 2^29) before decoding; theorem C06_no_panic_huffman (hpack_decode_no_panic, C15) covers the model, whose unbounded bit positions are exact below that bound";
  mk_review "h3/src/qpack/prefix_string/decode.rs" "read_bits" K_shift 2 Modelled
    "Model/Huffman.v read_bits, Panic 10/11 = index out of bounds, guarded by the length test at the head; shift amounts bit_offset < 8, 8 - len, 16 - len with 1 <= len <= 8.  The u32 products `src.len() as u32 * 8` and `byte_offset * 8` cannot overflow any more: since the H1/F18 repair the only caller (prefix_string::decode) refuses Huffman strings whose bit length does not fit in u32 (len >= 2^29) before decoding; theorem C06_no_panic_huffman (hpack_decode_no_panic, C15) covers the model, whose unbounded bit positions are exact below that bound";
  mk_review "h3/src/qpack/prefix_string/decode.rs" "read_bits" K_arith 11 Modelled
    "Model/Huffman.v read_bits, Panic 10/11 = index out of bounds, guarded by the length test at the head; shift amounts bit_offset < 8, 8 - len, 16 - len with 1 <= len <= 8.  The u32 products `src.len() as u32 * 8` and `byte_offset * 8` cannot overflow any more: since the H1/F18 repair the only caller (prefix_string::decode) refuses Huffman strings whose bit length does not fit in u32 (len >= 2^29) before decoding; theorem C06_no_panic_huffman (hpack_decode_no_panic, C15) covers the model, whose unbounded bit positions are exact below that bound";
  mk_review "h3/src/qpack/prefix_string/decode.rs" "read_bits" K_index 2 Modelled
    "Model/Huffman.v read_bits, Panic 10/11 = index out of bounds, guarded by the length test at the head; shift amounts bit_offset < 8, 8 - len, 16 - len with 1 <= len <= 8.  The u32 products `src.len() as u32 * 8` and `byte_offset * 8` cannot overflow any more: since the H1/F18 repair the only caller (prefix_string::decode) refuses Huffman strings whose bit length does not fit in u32 (len >= 2^29) before decoding; theorem C06_no_panic_huffman (hpack_decode_no_panic, C15) covers the model, whose unbounded bit positions are exact below that bound";
  mk_review "h3/src/qpack/prefix_string/decode.rs" "read_bits" K_cast 3 Modelled
    "Model/Huffman.v read_bits, Panic 10/11 = index out of bounds, guarded by the length test at the head; shift amounts bit_offset < 8, 8 - len, 16 - len with 1 <= len <= 8.  The u32 products `src.len() as u32 * 8` and `byte_offset * 8` cannot overflow any more: since the H1/F18 repair the only caller (prefix_string::decode) refuses Huffman strings whose bit length does not fit in u32 (len >= 2^29) before decoding; theorem C06_no_panic_huffman (hpack_decode_no_panic, C15) covers the model, whose unbounded bit positions are exact below that bound";
  mk_review "h3/src/qpack/prefix_string/decode.rs" "read_bits" K_cast 4 Modelled
    "Model/Huffman.v read_bits, Panic 10/11 = index out of bounds, guarded by the length test at the head; shift amounts bit_offset < 8, 8 - len, 16 - len with 1 <= len <= 8.  The u32 products `src.len() as u32 * 8` and `byte_offset * 8` cannot overflow any more: since the H1/F18 repair the only caller (prefix_string::decode) refuses Huffman strings whose bit length does not fit in u32 (len >= 2^29) before decoding; theorem C06_no_panic_huffman (hpack_decode_no_panic, C15) covers the model, whose unbounded bit positions are exact below that bound";
  mk_review "h3/src/qpack/prefix_string/decode.rs" "read_bits" K_shift 3 Modelled
    "Model/Huffman.v read_bits, Panic 10/11 = index out of bounds, guarded by the length test at the head; shift amounts bit_offset < 8, 8 - len, 16 - len with 1 <= len <= 8.  The u32 products `src.len() as u32 * 8` and `byte_offset * 8` cannot overflow any more: since the H1/F18 repair the only caller (prefix_string::decode) refuses Huffman strings whose bit length does not fit in u32 (len >= 2^29) before decoding; theorem C06_no_panic_huffman (hpack_decode_no_panic, C15) covers the model, whose unbounded bit positions are exact below that bound";
  mk_review "h3/src/qpack/prefix_string/decode.rs" "read_bits" K_index 3 Modelled
    "Model/Huffman.v read_bits, Panic 10/11 = index out of bounds, guarded by the length test at the head; shift amounts bit_offset < 8, 8 - len, 16 - len with 1 <= len <= 8.  The u32 products `src.len() as u32 * 8` and `byte_offset * 8` cannot overflow any more: since the H1/F18 repair the only caller (prefix_string::decode) refuses Huffman strings whose bit length does not fit in u32 (len >= 2^29) before decoding; theorem C06_no_panic_huffman (hpack_decode_no_panic, C15) covers the model, whose unbounded bit positions are exact below that bound";
  mk_review "h3/src/qpack/prefix_string/decode.rs" "read_bits" K_cast 5 Modelled
    "Model/Huffman.v read_bits, Panic 10/11 = index out of bounds, guarded by the length test at the head; shift amounts bit_offset < 8, 8 - len, 16 - len with 1 <= len <= 8.  The u32 products `src.len() as u32 * 8` and `byte_offset * 8` cannot overflow any more: since the H1/F18 repair the only caller (prefix_string::decode) refuses Huffman strings whose bit length does not fit in u32 (len >= 2^29) before decoding; theorem C06_no_panic_huffman (hpack_decode_no_panic, C15) covers the model, whose unbounded bit positions are exact below that bound";
  mk_review "h3/src/qpack/prefix_string/decode.rs" "read_bits" K_arith 12 Modelled
    "Model/Huffman.v read_bits, Panic 10/11 = index out of bounds, guarded by the length test at the head; shift amounts bit_offset < 8, 8 - len, 16 - len with 1 <= len <= 8.  The u32 products `src.len() as u32 * 8` and `byte_offset * 8` cannot overflow any more: since the H1/F18 repair the only caller (prefix_string::decode) refuses Huffman strings whose bit length does not fit in u32 (len >= 2^29) before decoding; theorem C06_no_panic_huffman (hpack_decode_no_panic, C15) covers the model, whose unbounded bit positions are exact below that bound";
  mk_review "h3/src/qpack/prefix_string/decode.rs" "read_bits" K_cast 6 Modelled
    "Model/Huffman.v read_bits, Panic 10/11 = index out of bounds, guarded by the length test at the head; shift amounts bit_offset < 8, 8 - len, 16 - len with 1 <= len <= 8.  The u32 products `src.len() as u32 * 8` and `byte_offset * 8` cannot overflow any more: since the H1/F18 repair the only caller (prefix_string::decode) refuses Huffman strings whose bit length does not fit in u32 (len >= 2^29) before decoding; theorem C06_no_panic_huffman (hpack_decode_no_panic, C15) covers the model, whose unbounded bit positions are exact below that bound";
  mk_review "h3/src/qpack/prefix_string/decode.rs" "read_bits" K_shift 4 Modelled
    "Model/Huffman.v read_bits, Panic 10/11 = index out of bounds, guarded by the length test at the head; shift amounts bit_offset < 8, 8 - len, 16 - len with 1 <= len <= 8.  The u32 products `src.len() as u32 * 8` and `byte_offset * 8` cannot overflow any more: since the H1/F18 repair the only caller (prefix_string::decode) refuses Huffman strings whose bit length does not fit in u32 (len >= 2^29) before decoding; theorem C06_no_panic_huffman (hpack_decode_no_panic, C15) covers the model, whose unbounded bit positions are exact below that bound";
  mk_review "h3/src/qpack/prefix_string/decode.rs" "read_bits" K_shift 5 Modelled
    "Model/Huffman.v read_bits, Panic 10/11 = index out of bounds, guarded by the length test at the head; shift amounts bit_offset < 8, 8 - len, 16 - len with 1 <= len <= 8.  The u32 products `src.len() as u32 * 8` and `byte_offset * 8` cannot overflow any more: since the H1/F18 repair the only caller (prefix_string::decode) refuses Huffman strings whose bit length does not fit in u32 (len >= 2^29) before decoding; theorem C06_no_panic_huffman (hpack_decode_no_panic, C15) covers the model, whose unbounded bit positions are exact below that bound";
  mk_review "h3/src/qpack/prefix_string/decode.rs" "read_bits" K_arith 13 Modelled
    "Model/Huffman.v read_bits, Panic 10/11 = index out of bounds, guarded by the length test at the head; shift amounts bit_offset < 8, 8 - len, 16 - len with 1 <= len <= 8.  The u32 products `src.len() as u32 * 8` and `byte_offset * 8` cannot overflow any more: since the H1/F18 repair the only caller (prefix_string::decode) refuses Huffman strings whose bit length does not fit in u32 (len >= 2^29) before decoding; theorem C06_no_panic_huffman (hpack_decode_no_panic, C15) covers the model, whose unbounded bit positions are exact below that bound";
  mk_review "h3/src/qpack/prefix_string/decode.rs" "read_bits" K_cast 7 Modelled
    "Model/Huffman.v read_bits, Panic 10/11 = index out of bounds, guarded by the length test at the head; shift amounts bit_offset < 8, 8 - len, 16 - len with 1 <= len <= 8.  The u32 products `src.len() as u32 * 8` and `byte_offset * 8` cannot overflow any more: since the H1/F18 repair the only caller (prefix_string::decode) refuses Huffman strings whose bit length does not fit in u32 (len >= 2^29) before decoding; theorem C06_no_panic_huffman (hpack_decode_no_panic, C15) covers the model, whose unbounded bit positions are exact below that bound";
  mk_review "h3/src/qpack/prefix_string/decode.rs" "DecodeIter::check_padding" K_arith 1 Modelled
    "Model/Huffman.v check_padding (Panic 40 = the u8 shift by symbol_end % 8; body anchored by Gen/GenHuffIter.v); symbol_end % 8 < 8 and symbol_end / 8 is bounded by the content length; theorems C06_no_panic_huffman / C06_no_panic_prefix_string (hpack_decode_no_panic, ps_decode_no_panic, C15) cover the site; audit mutant au1";
  mk_review "h3/src/qpack/prefix_string/decode.rs" "DecodeIter::check_padding" K_shift 1 Modelled
    "Model/Huffman.v check_padding (Panic 40 = the u8 shift by symbol_end % 8; body anchored by Gen/GenHuffIter.v); symbol_end % 8 < 8 and symbol_end / 8 is bounded by the content length; theorems C06_no_panic_huffman / C06_no_panic_prefix_string (hpack_decode_no_panic, ps_decode_no_panic, C15) cover the site; audit mutant au1";
  mk_review "h3/src/qpack/prefix_string/decode.rs" "DecodeIter::check_padding" K_arith 2 Modelled
    "Model/Huffman.v check_padding (Panic 40 = the u8 shift by symbol_end % 8; body anchored by Gen/GenHuffIter.v); symbol_end % 8 < 8 and symbol_end / 8 is bounded by the content length; theorems C06_no_panic_huffman / C06_no_panic_prefix_string (hpack_decode_no_panic, ps_decode_no_panic, C15) cover the site; audit mutant au1";
  mk_review "h3/src/qpack/prefix_string/decode.rs" "Iterator for DecodeIter::next" K_cast 1 Guarded
    "usize arithmetic on u32 values: byte * 8 + bit + count < 2^36";
  mk_review "h3/src/qpack/prefix_string/decode.rs" "Iterator for DecodeIter::next" K_arith 1 Guarded
    "usize arithmetic on u32 values: byte * 8 + bit + count < 2^36";
  mk_review "h3/src/qpack/prefix_string/decode.rs" "Iterator for DecodeIter::next" K_arith 2 Guarded
    "usize arithmetic on u32 values: byte * 8 + bit + count < 2^36";
  mk_review "h3/src/qpack/prefix_string/decode.rs" "Iterator for DecodeIter::next" K_cast 2 Guarded
    "usize arithmetic on u32 values: byte * 8 + bit + count < 2^36";
  mk_review "h3/src/qpack/prefix_string/decode.rs" "Iterator for DecodeIter::next" K_arith 3 Guarded
    "usize arithmetic on u32 values: byte * 8 + bit + count < 2^36";
  mk_review "h3/src/qpack/prefix_string/decode.rs" "Iterator for DecodeIter::next" K_cast 3 Guarded
    "usize arithmetic on u32 values: byte * 8 + bit + count < 2^36";
  mk_review "h3/src/qpack/prefix_string/bitwin.rs" "BitWindow::forwards" K_arith 1 Guarded
    "bit < 8 and count <= 8 at entry so bit + count <= 16; byte grows by at most 2 per symbol and stays <= input length + 1 <= 2^29 (the caller prefix_string::decode refuses longer Huffman strings since the H1/F18 repair), far below u32::MAX";
  mk_review "h3/src/qpack/prefix_string/bitwin.rs" "BitWindow::forwards" K_arith 2 Guarded
    "bit < 8 and count <= 8 at entry so bit + count <= 16; byte grows by at most 2 per symbol and stays <= input length + 1 <= 2^29 (the caller prefix_string::decode refuses longer Huffman strings since the H1/F18 repair), far below u32::MAX";
  mk_review "h3/src/qpack/prefix_string/bitwin.rs" "BitWindow::forwards" K_arith 3 Guarded
    "bit < 8 and count <= 8 at entry so bit + count <= 16; byte grows by at most 2 per symbol and stays <= input length + 1 <= 2^29 (the caller prefix_string::decode refuses longer Huffman strings since the H1/F18 repair), far below u32::MAX";
  mk_review "h3/src/qpack/prefix_string/bitwin.rs" "BitWindow::forwards" K_arith 4 Guarded
    "bit < 8 and count <= 8 at entry so bit + count <= 16; byte grows by at most 2 per symbol and stays <= input length + 1 <= 2^29 (the caller prefix_string::decode refuses longer Huffman strings since the H1/F18 repair), far below u32::MAX";
  mk_review "h3/src/qpack/prefix_string/bitwin.rs" "BitWindow::opposite_bit_window" K_arith 1 Guarded
    "8 - (bit % 8) is in 1..8";
  mk_review "h3/src/qpack/prefix_string/bitwin.rs" "BitWindow::opposite_bit_window" K_arith 2 Guarded
    "8 - (bit % 8) is in 1..8";
  mk_review "h3/src/qpack/prefix_int.rs" "decode" K_assert 1 Guarded
    "size is a constant at every call site: 8, 7, 6, 4, 3 (block.rs) and size-1 in {7, 3} (prefix_string)";
  mk_review "h3/src/qpack/prefix_int.rs" "decode" K_cast 1 Modelled
    "Model/PrefixInt.v (C15): size in 3..8 so 8 - size is in 0..5; power <= 56 when shifted ((byte & 127) << 56 < 2^63) and value <= 255 + sum 127 * 2^(7k), k = 0..8, < 2^64; the loop stops with Overflow once power reaches MAX_POWER = 63 (GenPrefixInt); theorem C06_no_panic_prefix_int (pi_decode_no_panic, sizes 1..8)";
  mk_review "h3/src/qpack/prefix_int.rs" "decode" K_shift 1 Modelled
    "Model/PrefixInt.v (C15): size in 3..8 so 8 - size is in 0..5; power <= 56 when shifted ((byte & 127) << 56 < 2^63) and value <= 255 + sum 127 * 2^(7k), k = 0..8, < 2^64; the loop stops with Overflow once power reaches MAX_POWER = 63 (GenPrefixInt); theorem C06_no_panic_prefix_int (pi_decode_no_panic, sizes 1..8)";
  mk_review "h3/src/qpack/prefix_int.rs" "decode" K_cast 2 Modelled
    "Model/PrefixInt.v (C15): size in 3..8 so 8 - size is in 0..5; power <= 56 when shifted ((byte & 127) << 56 < 2^63) and value <= 255 + sum 127 * 2^(7k), k = 0..8, < 2^64; the loop stops with Overflow once power reaches MAX_POWER = 63 (GenPrefixInt); theorem C06_no_panic_prefix_int (pi_decode_no_panic, sizes 1..8)";
  mk_review "h3/src/qpack/prefix_int.rs" "decode" K_shift 2 Modelled
    "Model/PrefixInt.v (C15): size in 3..8 so 8 - size is in 0..5; power <= 56 when shifted ((byte & 127) << 56 < 2^63) and value <= 255 + sum 127 * 2^(7k), k = 0..8, < 2^64; the loop stops with Overflow once power reaches MAX_POWER = 63 (GenPrefixInt); theorem C06_no_panic_prefix_int (pi_decode_no_panic, sizes 1..8)";
  mk_review "h3/src/qpack/prefix_int.rs" "decode" K_arith 1 Modelled
    "Model/PrefixInt.v (C15): size in 3..8 so 8 - size is in 0..5; power <= 56 when shifted ((byte & 127) << 56 < 2^63) and value <= 255 + sum 127 * 2^(7k), k = 0..8, < 2^64; the loop stops with Overflow once power reaches MAX_POWER = 63 (GenPrefixInt); theorem C06_no_panic_prefix_int (pi_decode_no_panic, sizes 1..8)";
  mk_review "h3/src/qpack/prefix_int.rs" "decode" K_cast 3 Modelled
    "Model/PrefixInt.v (C15): size in 3..8 so 8 - size is in 0..5; power <= 56 when shifted ((byte & 127) << 56 < 2^63) and value <= 255 + sum 127 * 2^(7k), k = 0..8, < 2^64; the loop stops with Overflow once power reaches MAX_POWER = 63 (GenPrefixInt); theorem C06_no_panic_prefix_int (pi_decode_no_panic, sizes 1..8)";
  mk_review "h3/src/qpack/prefix_int.rs" "decode" K_cast 4 Modelled
    "Model/PrefixInt.v (C15): size in 3..8 so 8 - size is in 0..5; power <= 56 when shifted ((byte & 127) << 56 < 2^63) and value <= 255 + sum 127 * 2^(7k), k = 0..8, < 2^64; the loop stops with Overflow once power reaches MAX_POWER = 63 (GenPrefixInt); theorem C06_no_panic_prefix_int (pi_decode_no_panic, sizes 1..8)";
  mk_review "h3/src/qpack/prefix_int.rs" "decode" K_cast 5 Modelled
    "Model/PrefixInt.v (C15): size in 3..8 so 8 - size is in 0..5; power <= 56 when shifted ((byte & 127) << 56 < 2^63) and value <= 255 + sum 127 * 2^(7k), k = 0..8, < 2^64; the loop stops with Overflow once power reaches MAX_POWER = 63 (GenPrefixInt); theorem C06_no_panic_prefix_int (pi_decode_no_panic, sizes 1..8)";
  mk_review "h3/src/qpack/prefix_int.rs" "decode" K_arith 2 Modelled
    "Model/PrefixInt.v (C15): size in 3..8 so 8 - size is in 0..5; power <= 56 when shifted ((byte & 127) << 56 < 2^63) and value <= 255 + sum 127 * 2^(7k), k = 0..8, < 2^64; the loop stops with Overflow once power reaches MAX_POWER = 63 (GenPrefixInt); theorem C06_no_panic_prefix_int (pi_decode_no_panic, sizes 1..8)";
  mk_review "h3/src/qpack/prefix_int.rs" "decode" K_shift 3 Modelled
    "Model/PrefixInt.v (C15): size in 3..8 so 8 - size is in 0..5; power <= 56 when shifted ((byte & 127) << 56 < 2^63) and value <= 255 + sum 127 * 2^(7k), k = 0..8, < 2^64; the loop stops with Overflow once power reaches MAX_POWER = 63 (GenPrefixInt); theorem C06_no_panic_prefix_int (pi_decode_no_panic, sizes 1..8)";
  mk_review "h3/src/qpack/prefix_int.rs" "decode" K_arith 3 Modelled
    "Model/PrefixInt.v (C15): size in 3..8 so 8 - size is in 0..5; power <= 56 when shifted ((byte & 127) << 56 < 2^63) and value <= 255 + sum 127 * 2^(7k), k = 0..8, < 2^64; the loop stops with Overflow once power reaches MAX_POWER = 63 (GenPrefixInt); theorem C06_no_panic_prefix_int (pi_decode_no_panic, sizes 1..8)";
  mk_review "h3/src/qpack/prefix_int.rs" "encode" K_assert 1 NotPeerReachable
    "send path only (encoding of locally produced values; C14/C13 cover the writers), never run on peer bytes";
  mk_review "h3/src/qpack/prefix_int.rs" "encode" K_shift 1 NotPeerReachable
    "send path only (encoding of locally produced values; C14/C13 cover the writers), never run on peer bytes";
  mk_review "h3/src/qpack/prefix_int.rs" "encode" K_cast 1 NotPeerReachable
    "send path only (encoding of locally produced values; C14/C13 cover the writers), never run on peer bytes";
  mk_review "h3/src/qpack/prefix_int.rs" "encode" K_cast 2 NotPeerReachable
    "send path only (encoding of locally produced values; C14/C13 cover the writers), never run on peer bytes";
  mk_review "h3/src/qpack/prefix_int.rs" "encode" K_shift 2 NotPeerReachable
    "send path only (encoding of locally produced values; C14/C13 cover the writers), never run on peer bytes";
  mk_review "h3/src/qpack/prefix_int.rs" "encode" K_cast 3 NotPeerReachable
    "send path only (encoding of locally produced values; C14/C13 cover the writers), never run on peer bytes";
  mk_review "h3/src/qpack/prefix_int.rs" "encode" K_cast 4 NotPeerReachable
    "send path only (encoding of locally produced values; C14/C13 cover the writers), never run on peer bytes";
  mk_review "h3/src/qpack/prefix_int.rs" "encode" K_cast 5 NotPeerReachable
    "send path only (encoding of locally produced values; C14/C13 cover the writers), never run on peer bytes";
  mk_review "h3/src/qpack/prefix_int.rs" "encode" K_arith 1 NotPeerReachable
    "send path only (encoding of locally produced values; C14/C13 cover the writers), never run on peer bytes";
  mk_review "h3/src/qpack/prefix_int.rs" "encode" K_cast 6 NotPeerReachable
    "send path only (encoding of locally produced values; C14/C13 cover the writers), never run on peer bytes";
  mk_review "h3/src/qpack/prefix_int.rs" "encode" K_arith 2 NotPeerReachable
    "send path only (encoding of locally produced values; C14/C13 cover the writers), never run on peer bytes";
  mk_review "h3/src/qpack/prefix_int.rs" "encode" K_cast 7 NotPeerReachable
    "send path only (encoding of locally produced values; C14/C13 cover the writers), never run on peer bytes";
  mk_review "h3/src/qpack/prefix_int.rs" "encode" K_arith 3 NotPeerReachable
    "send path only (encoding of locally produced values; C14/C13 cover the writers), never run on peer bytes";
  mk_review "h3/src/qpack/prefix_int.rs" "encode" K_arith 4 NotPeerReachable
    "send path only (encoding of locally produced values; C14/C13 cover the writers), never run on peer bytes";
  mk_review "h3/src/qpack/prefix_int.rs" "encode" K_cast 8 NotPeerReachable
    "send path only (encoding of locally produced values; C14/C13 cover the writers), never run on peer bytes";
  mk_review "h3/src/qpack/static_.rs" "StaticTable::find" K_index 1 NotPeerReachable
    "full-range slices &x[..] cannot panic; encoder side";
  mk_review "h3/src/qpack/static_.rs" "StaticTable::find" K_index 2 NotPeerReachable
    "full-range slices &x[..] cannot panic; encoder side";
  mk_review "h3/src/server/connection.rs" "Connection::shutdown" K_arith 1 NotPeerReachable
    "local API argument; StreamId + usize is the saturating Add impl of proto/stream.rs (Model/Varint.v sid_add, C16)";
  mk_review "h3/src/server/connection.rs" "Connection::shutdown" K_arith 2 NotPeerReachable
    "local API argument; StreamId + usize is the saturating Add impl of proto/stream.rs (Model/Varint.v sid_add, C16)";
  mk_review "h3/src/server/connection.rs" "Connection::shutdown" K_arith 3 NotPeerReachable
    "local API argument; StreamId + usize is the saturating Add impl of proto/stream.rs (Model/Varint.v sid_add, C16)";
  mk_review "h3/src/server/connection.rs" "Connection::poll_accept_request_stream_internal" K_headermap 1 Guarded
    "lexical false positive: HashSet::insert (ongoing_streams)";
  mk_review "h3/src/server/connection.rs" "Connection::poll_requests_completion" K_split 1 Guarded
    "lexical false positive: HashSet::remove";
  mk_review "h3/src/server/request.rs" "ResolvedRequest::resolve" K_expect 1 Guarded
    "Response::builder().status(REQUEST_HEADER_FIELDS_TOO_LARGE).body(()) is built from constants and cannot fail";
  mk_review "h3/src/server/request.rs" "ResolvedRequest::resolve" K_headermap 1 Guarded
    "lexical false positive: http::Extensions::insert (no HeaderMap capacity limit)";
  mk_review "h3/src/proto/stream.rs" "StreamType::grease" K_arith 1 NotPeerReachable
    "local RNG value below 0x210842108421083";
  mk_review "h3/src/proto/stream.rs" "StreamType::grease" K_arith 2 NotPeerReachable
    "local RNG value below 0x210842108421083";
  mk_review "h3/src/proto/stream.rs" "StreamId::new" K_shift 1 Guarded
    "index <= 2^60 - 1 at every call (Add clamps to VarInt::MAX >> 2, FIRST_REQUEST is 0); constant shift amounts; enum discriminant casts";
  mk_review "h3/src/proto/stream.rs" "StreamId::new" K_cast 1 Guarded
    "index <= 2^60 - 1 at every call (Add clamps to VarInt::MAX >> 2, FIRST_REQUEST is 0); constant shift amounts; enum discriminant casts";
  mk_review "h3/src/proto/stream.rs" "StreamId::new" K_shift 2 Guarded
    "index <= 2^60 - 1 at every call (Add clamps to VarInt::MAX >> 2, FIRST_REQUEST is 0); constant shift amounts; enum discriminant casts";
  mk_review "h3/src/proto/stream.rs" "StreamId::new" K_cast 2 Guarded
    "index <= 2^60 - 1 at every call (Add clamps to VarInt::MAX >> 2, FIRST_REQUEST is 0); constant shift amounts; enum discriminant casts";
  mk_review "h3/src/proto/stream.rs" "StreamId::index" K_shift 1 Guarded
    "index <= 2^60 - 1 at every call (Add clamps to VarInt::MAX >> 2, FIRST_REQUEST is 0); constant shift amounts; enum discriminant casts";
  mk_review "h3/src/proto/stream.rs" "Encode for StreamId::encode" K_unwrap 1 NotPeerReachable
    "send path only (encoding of locally produced values; C14/C13 cover the writers), never run on peer bytes; a StreamId is < 2^62 by construction (TryFrom<u64> checks, Add clamps)";
  mk_review "h3/src/proto/stream.rs" "Add for StreamId::add" K_cast 1 Modelled
    "Model/Varint.v sid_add (C16): saturating_add then min with VarInt::MAX >> 2";
  mk_review "h3/src/proto/stream.rs" "Add for StreamId::add" K_shift 1 Modelled
    "Model/Varint.v sid_add (C16): saturating_add then min with VarInt::MAX >> 2";
  mk_review "h3/src/proto/coding.rs" "Decode for u8::decode" K_buf_get 1 Guarded
    "guarded by the buf.remaining() < 1 check";
  mk_review "h3/src/proto/coding.rs" "BufMutExt for T::write_var" K_unwrap 1 NotPeerReachable
    "send path only (encoding of locally produced values; C14/C13 cover the writers), never run on peer bytes";
  mk_review "h3/src/qpack/field.rs" "HeaderField::mem_size" K_arith 1 Guarded
    "lengths of two in-memory byte vectors plus 32";
  mk_review "h3/src/qpack/field.rs" "HeaderField::mem_size" K_arith 2 Guarded
    "lengths of two in-memory byte vectors plus 32";
  mk_review "h3/src/webtransport/session_id.rs" "Encode for SessionId::encode" K_unwrap 1 NotPeerReachable
    "send path only (encoding of locally produced values; C14/C13 cover the writers), never run on peer bytes";
  mk_review "h3/src/error/codes.rs" "macro_rules codes" K_arith 1 Guarded
    "lexical false positive: the `+` is the repetition operator of the codes! macro_rules pattern / expansion, not arithmetic";
  mk_review "h3/src/error/codes.rs" "macro_rules codes" K_arith 2 Guarded
    "lexical false positive: the `+` is the repetition operator of the codes! macro_rules pattern / expansion, not arithmetic";
  mk_review "h3/src/error/codes.rs" "Debug for Code::fmt" K_arith 1 Guarded
    "lexical false positive: the `+` is the repetition operator of the codes! macro_rules pattern / expansion, not arithmetic";
  mk_review "h3/src/error/codes.rs" "Display for Code::fmt" K_arith 1 Guarded
    "lexical false positive: the `+` is the repetition operator of the codes! macro_rules pattern / expansion, not arithmetic";
  mk_review "h3/src/config.rs" "TryFrom for Settings::try_from" K_headermap 1 NotPeerReachable
    "Settings built from the LOCAL configuration (send path); `.insert(` is Settings::insert (fixed array, returns Err), the casts are bool/u64 widenings; C13";
  mk_review "h3/src/config.rs" "TryFrom for Settings::try_from" K_headermap 2 NotPeerReachable
    "Settings built from the LOCAL configuration (send path); `.insert(` is Settings::insert (fixed array, returns Err), the casts are bool/u64 widenings; C13";
  mk_review "h3/src/config.rs" "TryFrom for Settings::try_from" K_headermap 3 NotPeerReachable
    "Settings built from the LOCAL configuration (send path); `.insert(` is Settings::insert (fixed array, returns Err), the casts are bool/u64 widenings; C13";
  mk_review "h3/src/config.rs" "TryFrom for Settings::try_from" K_cast 1 NotPeerReachable
    "Settings built from the LOCAL configuration (send path); `.insert(` is Settings::insert (fixed array, returns Err), the casts are bool/u64 widenings; C13";
  mk_review "h3/src/config.rs" "TryFrom for Settings::try_from" K_headermap 4 NotPeerReachable
    "Settings built from the LOCAL configuration (send path); `.insert(` is Settings::insert (fixed array, returns Err), the casts are bool/u64 widenings; C13";
  mk_review "h3/src/config.rs" "TryFrom for Settings::try_from" K_cast 2 NotPeerReachable
    "Settings built from the LOCAL configuration (send path); `.insert(` is Settings::insert (fixed array, returns Err), the casts are bool/u64 widenings; C13";
  mk_review "h3/src/config.rs" "TryFrom for Settings::try_from" K_headermap 5 NotPeerReachable
    "Settings built from the LOCAL configuration (send path); `.insert(` is Settings::insert (fixed array, returns Err), the casts are bool/u64 widenings; C13";
  mk_review "h3/src/config.rs" "TryFrom for Settings::try_from" K_cast 3 NotPeerReachable
    "Settings built from the LOCAL configuration (send path); `.insert(` is Settings::insert (fixed array, returns Err), the casts are bool/u64 widenings; C13";
  mk_review "h3/src/config.rs" "TryFrom for Settings::try_from" K_headermap 6 NotPeerReachable
    "Settings built from the LOCAL configuration (send path); `.insert(` is Settings::insert (fixed array, returns Err), the casts are bool/u64 widenings; C13";
  mk_review "h3-webtransport/src/server.rs" "WebTransportSession::accept" K_unwrap 1 Guarded
    "Response::builder() with constant header / status values cannot fail";
  mk_review "h3-webtransport/src/server.rs" "WebTransportSession::accept" K_unwrap 2 Guarded
    "Response::builder() with constant header / status values cannot fail";
  mk_review "h3-webtransport/src/server.rs" "WebTransportSession::datagram_reader" K_unwrap 1 Guarded
    "Mutex::lock().unwrap() fails only when the mutex is poisoned, i.e. after another h3 call already panicked while holding it; no peer input poisons it by itself";
  mk_review "h3-webtransport/src/server.rs" "WebTransportSession::datagram_sender" K_unwrap 1 Guarded
    "Mutex::lock().unwrap() fails only when the mutex is poisoned, i.e. after another h3 call already panicked while holding it; no peer input poisons it by itself";
  mk_review "h3-webtransport/src/server.rs" "WebTransportSession::accept_bi" K_unwrap 1 Guarded
    "Mutex::lock().unwrap() fails only when the mutex is poisoned, i.e. after another h3 call already panicked while holding it; no peer input poisons it by itself";
  mk_review "h3-webtransport/src/server.rs" "WebTransportSession::accept_bi" K_unwrap 2 Guarded
    "Mutex::lock().unwrap() fails only when the mutex is poisoned, i.e. after another h3 call already panicked while holding it; no peer input poisons it by itself";
  mk_review "h3-webtransport/src/server.rs" "Future for OpenBi::poll" K_unwrap 1 Guarded
    "Mutex::lock().unwrap() fails only if another holder panicked before (poisoning); p.stream.take().unwrap() is inside the `Some((stream, buf))` arm of the match on the same Option";
  mk_review "h3-webtransport/src/server.rs" "Future for OpenBi::poll" K_unwrap 2 Guarded
    "Mutex::lock().unwrap() fails only if another holder panicked before (poisoning); p.stream.take().unwrap() is inside the `Some((stream, buf))` arm of the match on the same Option";
  mk_review "h3-webtransport/src/server.rs" "Future for OpenUni::poll" K_unwrap 1 Guarded
    "Mutex::lock().unwrap() fails only if another holder panicked before (poisoning); p.stream.take().unwrap() is inside the `Some((stream, buf))` arm of the match on the same Option";
  mk_review "h3-webtransport/src/server.rs" "Future for OpenUni::poll" K_assert 1 Guarded
    "the while loop just above ran until !buf.has_remaining(); OpenUni is a send-side future";
  mk_review "h3-webtransport/src/server.rs" "Future for OpenUni::poll" K_unwrap 2 Guarded
    "Mutex::lock().unwrap() fails only if another holder panicked before (poisoning); p.stream.take().unwrap() is inside the `Some((stream, buf))` arm of the match on the same Option";
  mk_review "h3-webtransport/src/server.rs" "Future for AcceptUni::poll" K_unwrap 1 Guarded
    "Mutex::lock().unwrap() fails only when the mutex is poisoned, i.e. after another h3 call already panicked while holding it; no peer input poisons it by itself"
].
(* the fingerprint each owning function had when its rows were reviewed *)
Definition print_table : list fn_print := [
  mk_print "h3/src/frame.rs" "FrameStream::poll_next" 773942712910499929;
  mk_print "h3/src/frame.rs" "FrameStream::poll_data" 450068831201023236;
  mk_print "h3/src/frame.rs" "FrameDecoder::decode" 672027543324904117;
  mk_print "h3/src/buf.rs" "BufList::push" 242143266256771136;
  mk_print "h3/src/buf.rs" "BufList::take_chunk" 934105119137658593;
  mk_print "h3/src/buf.rs" "BufList::push_bytes" 157875036097330398;
  mk_print "h3/src/buf.rs" "Buf for BufList::advance" 638458634516667010;
  mk_print "h3/src/buf.rs" "Buf for BufList::chunks_vectored" 848614575771136269;
  mk_print "h3/src/buf.rs" "Buf for Cursor::remaining" 163695877692090574;
  mk_print "h3/src/buf.rs" "Buf for Cursor::chunk" 676316392519317006;
  mk_print "h3/src/buf.rs" "Buf for Cursor::advance" 479689138231383342;
  mk_print "h3/src/stream.rs" "WriteBuf::encode_stream_type" 795521190218598940;
  mk_print "h3/src/stream.rs" "WriteBuf::encode_value" 356748551558653800;
  mk_print "h3/src/stream.rs" "WriteBuf::encode_frame_header" 929521502262075454;
  mk_print "h3/src/stream.rs" "Buf for WriteBuf::remaining" 91094741877907860;
  mk_print "h3/src/stream.rs" "Buf for WriteBuf::chunk" 1125404724953153464;
  mk_print "h3/src/stream.rs" "Buf for WriteBuf::advance" 164696321208360097;
  mk_print "h3/src/stream.rs" "AcceptRecvStream::into_stream" 258665904043366105;
  mk_print "h3/src/stream.rs" "AcceptRecvStream::poll_next_varint" 1085122436385001287;
  mk_print "h3/src/stream.rs" "RecvStream for BufRecvStream::poll_data" 854547133147545051;
  mk_print "h3/src/stream.rs" "AsyncRead for BufRecvStream::poll_read" 101313352011356071;
  mk_print "h3/src/stream.rs" "AsyncRead for BufRecvStream::poll_read#2" 254956492202555858;
  mk_print "h3/src/connection.rs" "ConnectionInner::new" 12721471135637780;
  mk_print "h3/src/connection.rs" "ConnectionInner::poll_accept_recv" 713826345832115115;
  mk_print "h3/src/proto/frame.rs" "Frame::decode" 367832883571405207;
  mk_print "h3/src/proto/frame.rs" "Encode for Frame::encode" 870179636553563531;
  mk_print "h3/src/proto/frame.rs" "FrameType::grease" 301319997934305385;
  mk_print "h3/src/proto/frame.rs" "trait FrameHeader::encode_header" 618757857832004207;
  mk_print "h3/src/proto/frame.rs" "FrameHeader for PushPromise::encode_header" 635976018898191353;
  mk_print "h3/src/proto/frame.rs" "FrameHeader for PushPromise::len" 252993968248478575;
  mk_print "h3/src/proto/frame.rs" "PushPromise::decode" 714169771396949280;
  mk_print "h3/src/proto/frame.rs" "PushPromise::encode" 509208693144242715;
  mk_print "h3/src/proto/frame.rs" "simple_frame_encode" 631200995060528153;
  mk_print "h3/src/proto/frame.rs" "SettingId::grease" 836932576843504522;
  mk_print "h3/src/proto/frame.rs" "FrameHeader for Settings::len" 985087382786155330;
  mk_print "h3/src/proto/frame.rs" "Settings::insert" 528066828679289942;
  mk_print "h3/src/proto/frame.rs" "Settings::encode" 1145645857995315072;
  mk_print "h3/src/proto/frame.rs" "Settings::decode" 384620666545267632;
  mk_print "h3/src/proto/varint.rs" "Div for VarInt::div" 256651914913590250;
  mk_print "h3/src/proto/varint.rs" "VarInt::from_u32" 941072526534185645;
  mk_print "h3/src/proto/varint.rs" "VarInt::from_u64" 293689546447897185;
  mk_print "h3/src/proto/varint.rs" "VarInt::size" 312976612711140409;
  mk_print "h3/src/proto/varint.rs" "VarInt::encoded_size" 918329555572025248;
  mk_print "h3/src/proto/varint.rs" "VarInt::decode" 926658823126021335;
  mk_print "h3/src/proto/varint.rs" "VarInt::encode" 213449925008563489;
  mk_print "h3/src/proto/varint.rs" "TryFrom for VarInt::try_from#2" 229936924402357041;
  mk_print "h3/src/proto/varint.rs" "BufMutExt for T::write_var" 912368294879219765;
  mk_print "h3/src/proto/headers.rs" "Header::len" 897836074035909664;
  mk_print "h3/src/proto/headers.rs" "Header::size" 897836074035909664;
  mk_print "h3/src/proto/headers.rs" "TryFrom for Header::try_from" 457636697265220485;
  mk_print "h3/src/proto/headers.rs" "Field::parse" 320040293628555634;
  mk_print "h3/src/proto/headers.rs" "Pseudo::request" 782785178403069000;
  mk_print "h3/src/qpack/decoder.rs" "Decoder::decode_header" 628830084392218672;
  mk_print "h3/src/qpack/decoder.rs" "Decoder::on_encoder_recv" 895248460119009793;
  mk_print "h3/src/qpack/decoder.rs" "Decoder::parse_instruction" 575943375186396049;
  mk_print "h3/src/qpack/decoder.rs" "Decoder::parse_header_field" 1011462602769334633;
  mk_print "h3/src/qpack/decoder.rs" "decode_stateless" 544680205903707186;
  mk_print "h3/src/qpack/block.rs" "HeaderPrefix::new" 700412233743204094;
  mk_print "h3/src/qpack/block.rs" "HeaderPrefix::base_without_refs" 1068279302702602763;
  mk_print "h3/src/qpack/block.rs" "HeaderPrefix::get" 986661657310795746;
  mk_print "h3/src/qpack/block.rs" "HeaderPrefix::decode" 21144466040010937;
  mk_print "h3/src/qpack/block.rs" "HeaderPrefix::encode" 904984220486143245;
  mk_print "h3/src/qpack/block.rs" "Indexed::decode" 1074453268469304238;
  mk_print "h3/src/qpack/block.rs" "Indexed::encode" 371211073614992000;
  mk_print "h3/src/qpack/block.rs" "IndexedWithPostBase::decode" 958790998564218513;
  mk_print "h3/src/qpack/block.rs" "IndexedWithPostBase::encode" 792538056711760264;
  mk_print "h3/src/qpack/block.rs" "LiteralWithNameRef::decode" 957988546141259113;
  mk_print "h3/src/qpack/block.rs" "LiteralWithNameRef::encode" 475812391532452569;
  mk_print "h3/src/qpack/block.rs" "LiteralWithPostBaseNameRef::decode" 926428210056120332;
  mk_print "h3/src/qpack/block.rs" "LiteralWithPostBaseNameRef::encode" 703207341857269299;
  mk_print "h3/src/qpack/block.rs" "Literal::decode" 1002216006489317059;
  mk_print "h3/src/qpack/prefix_string/mod.rs" "decode" 131588597399552501;
  mk_print "h3/src/qpack/prefix_string/mod.rs" "encode" 184149237997394068;
  mk_print "h3/src/qpack/prefix_string/decode.rs" "HuffmanDecoder::check_eof" 15064980860918784;
  mk_print "h3/src/qpack/prefix_string/decode.rs" "HuffmanDecoder::fetch_value" 281182403792575853;
  mk_print "h3/src/qpack/prefix_string/decode.rs" "HuffmanDecoder::decode_next" 735121105642080766;
  mk_print "h3/src/qpack/prefix_string/decode.rs" "read_bits" 876441152047018122;
  mk_print "h3/src/qpack/prefix_string/decode.rs" "DecodeIter::check_padding" 176311161961407516;
  mk_print "h3/src/qpack/prefix_string/decode.rs" "Iterator for DecodeIter::next" 11204835972663812;
  mk_print "h3/src/qpack/prefix_string/bitwin.rs" "BitWindow::forwards" 432337054672047978;
  mk_print "h3/src/qpack/prefix_string/bitwin.rs" "BitWindow::opposite_bit_window" 560190362719643189;
  mk_print "h3/src/qpack/prefix_int.rs" "decode" 659354619757671532;
  mk_print "h3/src/qpack/prefix_int.rs" "encode" 1082176733542918343;
  mk_print "h3/src/qpack/static_.rs" "StaticTable::find" 678541548410680664;
  mk_print "h3/src/server/connection.rs" "Connection::shutdown" 292969043711398150;
  mk_print "h3/src/server/connection.rs" "Connection::poll_accept_request_stream_internal" 610404150778549482;
  mk_print "h3/src/server/connection.rs" "Connection::poll_requests_completion" 718867821029490266;
  mk_print "h3/src/server/request.rs" "ResolvedRequest::resolve" 959414860809335716;
  mk_print "h3/src/proto/stream.rs" "StreamType::grease" 28828865531186429;
  mk_print "h3/src/proto/stream.rs" "StreamId::new" 590293261440644767;
  mk_print "h3/src/proto/stream.rs" "StreamId::index" 502293241333893232;
  mk_print "h3/src/proto/stream.rs" "Encode for StreamId::encode" 873769224673166670;
  mk_print "h3/src/proto/stream.rs" "Add for StreamId::add" 345524331354929405;
  mk_print "h3/src/proto/coding.rs" "Decode for u8::decode" 626058792564135691;
  mk_print "h3/src/proto/coding.rs" "BufMutExt for T::write_var" 912368294879219765;
  mk_print "h3/src/qpack/field.rs" "HeaderField::mem_size" 533776943161820621;
  mk_print "h3/src/webtransport/session_id.rs" "Encode for SessionId::encode" 873769224673166670;
  mk_print "h3/src/error/codes.rs" "macro_rules codes" 682329413848013144;
  mk_print "h3/src/error/codes.rs" "Debug for Code::fmt" 280962994888135949;
  mk_print "h3/src/error/codes.rs" "Display for Code::fmt" 280962994888135949;
  mk_print "h3/src/config.rs" "TryFrom for Settings::try_from" 1017941183739610855;
  mk_print "h3-webtransport/src/server.rs" "WebTransportSession::accept" 550420007095464154;
  mk_print "h3-webtransport/src/server.rs" "WebTransportSession::datagram_reader" 924007633160314050;
  mk_print "h3-webtransport/src/server.rs" "WebTransportSession::datagram_sender" 314400305298621567;
  mk_print "h3-webtransport/src/server.rs" "WebTransportSession::accept_bi" 740955396557562170;
  mk_print "h3-webtransport/src/server.rs" "Future for OpenBi::poll" 144988328635635407;
  mk_print "h3-webtransport/src/server.rs" "Future for OpenUni::poll" 278308910431972849;
  mk_print "h3-webtransport/src/server.rs" "Future for AcceptUni::poll" 342224305447064034
].

Definition print_reviewed (q : fn_print) : bool :=
  existsb (fun r => String.eqb (p_file r) (p_file q) && String.eqb (p_fn r) (p_fn q) && N.eqb (p_hash r) (p_hash q)) print_table.

Definition pkind_eqb (a b : pkind) : bool :=
  match a, b with
  | K_unwrap, K_unwrap | K_expect, K_expect | K_panic, K_panic | K_unreachable, K_unreachable
  | K_assert, K_assert | K_debug_assert, K_debug_assert | K_todo, K_todo | K_index, K_index
  | K_index_const, K_index_const | K_buf_advance, K_buf_advance | K_buf_copy, K_buf_copy
  | K_buf_get, K_buf_get | K_split, K_split | K_arith, K_arith | K_shift, K_shift | K_cast, K_cast
  | K_headermap, K_headermap | K_capacity, K_capacity => true
  | _, _ => false
  end.

Definition covers (r : review) (s : site) : bool :=
  String.eqb (r_file r) (s_file s) && String.eqb (r_fn r) (s_fn s) && pkind_eqb (r_kind r) (s_kind s) && N.eqb (r_ord r) (s_ord s).

(* a site is reviewed when exactly this (file, fn, kind, ordinal) has a row *)
Definition reviewed (s : site) : bool := existsb (fun r => covers r s) table.

(* rows of the table that no longer match any site (informational; a removed site cannot panic) *)
Definition stale (r : review) : bool := negb (existsb (fun s => covers r s) sites).

Definition count_verdict (v : verdict) : N :=
  N.of_nat (length (filter (fun r => match r_verdict r, v with
                                     | Modelled, Modelled | Guarded, Guarded | NotPeerReachable, NotPeerReachable => true
                                     | _, _ => false end) table)).
