(* Vocabulary shared by the frame-layer model (Model/FrameDec.v, Model/FrameStream.v) and its specification
   (Spec/Frames.v): plain data types only, no behaviour. *)
From H3V Require Import Base.Bytes.

Inductive settings_err :=
| SMalformed | SRepeated (id : N) | SInvalidId (id : N) | SExceeded | SInvalidValue (id v : N).

(* a frame as handed to the caller of FrameStream::poll_next (DATA carries only its declared length) *)
Inductive frame :=
| FData (len : N)
| FHeaders (block : bytes)
| FCancelPush (id : N)
| FSettings (payload : bytes)      (* the entries are C13's subject; the frame layer keeps the raw payload *)
| FPushPromise (id : N) (block : bytes)
| FGoaway (id : N)
| FMaxPushId (id : N)
| FWebTransport (session : N).

(* what the QUIC layer can report instead of data *)
Inductive qerr :=
| QTerminated (code : N)     (* StreamErrorIncoming::StreamTerminated: RESET_STREAM from the peer *)
| QConnApp (code : N)        (* connection closed by the peer with an application code *)
| QTimeout                   (* connection idle timeout *)
| QInternal                  (* ConnectionErrorIncoming::InternalError of the transport implementation *)
| QStreamUnknown             (* StreamErrorIncoming::Unknown: a stream failure h3 knows nothing about *)
| QConnUndefined.            (* ConnectionErrorIncoming::Undefined: a transport failure h3 knows nothing about *)

(* one event of a receive stream; Fin and Abort are terminal and sticky *)
Inductive ev := Chunk (b : bytes) | Fin | Abort (e : qerr).

(* protocol-level rejection of a complete frame *)
Inductive perr_class :=
| PCMalformed                    (* payload longer or shorter than the fixed fields: H3_FRAME_ERROR *)
| PCForbidden (ty : N)           (* HTTP/2-reserved type: H3_FRAME_UNEXPECTED *)
| PCSettings (e : settings_err). (* SETTINGS contents refused: H3_SETTINGS_ERROR *)

(* what an endpoint acts on: frames, and DATA payload bytes one by one (piece boundaries are not semantic) *)
Inductive tok := TFrame (f : frame) | TByte (b : N).

Inductive tail :=
| CleanEnd                       (* FIN exactly at a frame boundary *)
| FrameError                     (* FIN inside a frame header or payload (incl. a DATA payload): H3_FRAME_ERROR *)
| ProtoError (e : perr_class)
| Aborted (e : qerr)             (* the stream was reset / the connection was lost *)
| Handover                       (* a WebTransport stream header: the rest of the stream is not HTTP/3 framing *)
| Waiting.                       (* stream still open and nothing more can be said *)
