(* C06, property-level specification of "the terminal event the call waits on has been delivered".
   Written from the property text and the transport contract only (sticky terminal events), not from h3's code:
   a peer script is a list of transport events; a call waits on the connection, on the receive side of one
   stream, or on nothing the peer controls.  [must_complete evs t] says that after the script [evs] a call waiting
   on [t] may no longer be pending at quiescence. *)
From H3V Require Import Base.Bytes.

Inductive term := TOpen | TFin | TReset.

Inductive pev :=
| EOpen (id : N)            (* U<id> / B<id>: the peer opens a stream *)
| EChunk (id : N)           (* bytes arrive *)
| EFin (id : N)
| EReset (id : N)
| EStop (id : N)            (* STOP_SENDING for our send half: not a terminal event of any receive call *)
| ELost                     (* connection close / idle timeout / transport error *)
| ERun.                     (* the executor runs to quiescence: no transport meaning *)

(* WSend id: a send call on stream id; it waits on the peer's flow-control credit for that stream and must complete
   once the peer sent STOP_SENDING for it or the connection is lost.  WCredit: waits on credit to open streams
   and to write h3's own unidirectional streams; must complete once the connection is lost.  [backpressure] says
   whether the script withholds any credit at all: if not, send-side calls may never be pending. *)
Inductive target := WConn | WStream (id : N) | WNothing | WSend (id : N) | WCredit.

(* terminal events are sticky: the first FIN / RESET on a stream wins, later events on it are ignored *)
Fixpoint rx_state (evs : list pev) (id : N) : term :=
  match evs with
  | [] => TOpen
  | EFin i :: r => if i =? id then TFin else rx_state r id
  | EReset i :: r => if i =? id then TReset else rx_state r id
  | _ :: r => rx_state r id
  end.

Fixpoint lost (evs : list pev) : bool :=
  match evs with
  | [] => false
  | ELost :: _ => true
  | _ :: r => lost r
  end.

Definition ev_id (e : pev) : option N :=
  match e with
  | EOpen i | EChunk i | EFin i | EReset i | EStop i => Some i
  | ELost | ERun => None
  end.

Fixpoint mem_N (x : N) (l : list N) : bool :=
  match l with [] => false | y :: r => (x =? y) || mem_N x r end.

(* stream ids mentioned by the script, in order of first mention *)
Fixpoint mentioned_acc (acc : list N) (evs : list pev) : list N :=
  match evs with
  | [] => rev acc
  | e :: r => match ev_id e with
              | Some i => if mem_N i acc then mentioned_acc acc r else mentioned_acc (i :: acc) r
              | None => mentioned_acc acc r
              end
  end.
Definition mentioned (evs : list pev) : list N := mentioned_acc [] evs.

Fixpoint stopped (evs : list pev) (id : N) : bool :=
  match evs with
  | [] => false
  | EStop i :: r => (i =? id) || stopped r id
  | _ :: r => stopped r id
  end.

Definition must_complete_bp (backpressure : bool) (evs : list pev) (t : target) : bool :=
  match t with
  | WNothing => true
  | WConn => lost evs
  | WStream id => lost evs || match rx_state evs id with TOpen => false | _ => true end
  | WSend id => negb backpressure || lost evs || stopped evs id
  | WCredit => negb backpressure || lost evs
  end.

(* scripts without back-pressure (unlimited credit): the form used by the theorems about receive calls *)
Definition must_complete (evs : list pev) (t : target) : bool := must_complete_bp false evs t.

(* the oracle for one observed run: no panic, and no pending call whose target must complete *)
Inductive observed := ObsPanic | ObsPending (t : target) | ObsDone.
Definition acceptable (evs : list pev) (o : observed) : bool :=
  match o with
  | ObsPanic => false
  | ObsPending t => negb (must_complete evs t)
  | ObsDone => true
  end.
