(* C09 "shutdown drains", stated over observable traces.

   Vocabulary.  Inputs: what the peer does (opens a request stream, sends GOAWAY, sends good or bad
   HEADERS / FIN / RESET on a request stream) and what the application does with the objects accept()
   handed to it (the resolver, then the request stream, possibly split into two halves): resolve, finish,
   drop.  Outputs: the answers of accept() (Spec/GoawaySpec.v: EShown, ENone, EPending, EErr, ...).

   A request handed out by accept() has ENDED when the application holds no object for it any more -
   whichever way it got there: resolver dropped before resolution, resolution failed (FIN or RESET before
   HEADERS, undecodable or malformed HEADERS), stream finished or reset and then dropped, halves dropped
   one after the other.  The bookkeeping below is about the application's objects only.

   Errors:   accept() reports a connection error only when the inputs justify one: an undecodable (QPACK) or
             wrong-first-frame request (QPACK_DECOMPRESSION_FAILED / H3_FRAME_UNEXPECTED), or a peer GOAWAY whose
             identifier is larger than the previous one (H3_ID_ERROR).  An equal or smaller one is legal.
   Safety:   accept() answers "no more requests" only when every request handed out has ended.
   Liveness: once the peer's GOAWAY has arrived, every request handed out has ended, no request
             stream is waiting and the control stream is writable, accept() does not answer "pending". *)
From H3V Require Import Base.Bytes Spec.GoawaySpec.

Inductive fail_kind :=
| KFin | KReset            (* FIN / RESET before any byte of HEADERS *)
| KBadQpack | KUnexpected  (* undecodable field section / first frame is not HEADERS: connection errors *)
| KMalformed               (* decodable but not a valid request: stream error *)
| KTooBig                  (* field section above the server's limit: 431 response, stream error *)
| KTruncFin                (* FIN inside the HEADERS frame: connection error H3_FRAME_ERROR *)
| KTruncReset              (* RESET inside the HEADERS frame *)
| KUnknown.                (* the transport reports an error of its own on the request stream *)

Inductive dop :=
| DArrive (id : N)                       (* the peer opened request stream id (nothing sent on it yet) *)
| DPoll                                  (* the accept task runs until accept() stops handing out requests *)
| DPeerGoaway (pid : N)                  (* the peer's GOAWAY arrived *)
| DDropResolver (id : N)                 (* the application drops the resolver without resolving it *)
| DHeadersOk (id : N)                    (* valid HEADERS arrive, resolve_request() succeeds *)
| DHeadersFail (id : N) (k : fail_kind)  (* FIN / RESET / bad HEADERS arrive, resolve_request() fails *)
| DFinish (id : N)                       (* response sent, stream finished; the handle is kept *)
| DPeerReset (id : N)                    (* RESET after HEADERS, recv_data() fails; the handle is kept *)
| DDropStream (id : N)                   (* the unsplit request stream is dropped *)
| DSplit (id : N)                        (* the request stream is split into its two halves *)
| DDropHalf (id : N) (send : bool).      (* one half is dropped *)

(* DW: flow control on the server's control stream closed (true) / reopened (false);
   DX: the QUIC connection failed with an error of the transport's own *)
Inductive dev := DI (o : dop) | DO (e : gev) | DW (blocked : bool) | DX.

(* what the application holds for a request *)
Inductive aobj := AResolver | AStream | AHalves (send recv : bool).

(* effect of an operation on the object it addresses: None = not applicable (ignored),
   Some None = the last object of the request is gone, Some (Some o) = the application now holds o *)
Definition obj_update (o : aobj) (op : dop) : option (option aobj) :=
  match op, o with
  | DDropResolver _, AResolver => Some None
  | DHeadersOk _, AResolver => Some (Some AStream)
  | DHeadersFail _ _, AResolver => Some None
  | DFinish _, AStream => Some (Some AStream)
  | DFinish _, AHalves true r => Some (Some (AHalves true r))
  | DPeerReset _, AStream => Some (Some AStream)
  | DPeerReset _, AHalves s true => Some (Some (AHalves s true))
  | DDropStream _, AStream => Some None
  | DSplit _, AStream => Some (Some (AHalves true true))
  | DDropHalf _ true, AHalves true r => if r then Some (Some (AHalves false r)) else Some None
  | DDropHalf _ false, AHalves s true => if s then Some (Some (AHalves s false)) else Some None
  | _, _ => None
  end.

Definition op_target (op : dop) : option N :=
  match op with
  | DDropResolver id | DHeadersOk id | DHeadersFail id _ | DFinish id | DPeerReset id
  | DDropStream id | DSplit id | DDropHalf id _ => Some id
  | _ => None
  end.

Fixpoint lookup {V} (id : N) (l : list (N * V)) : option V :=
  match l with
  | [] => None
  | (k, v) :: r => if id =? k then Some v else lookup id r
  end.
Fixpoint update {V} (id : N) (v : option V) (l : list (N * V)) : list (N * V) :=
  match l with
  | [] => []
  | (k, x) :: r => if id =? k then (match v with Some y => (k, y) :: r | None => r end)
                   else (k, x) :: update id v r
  end.

Record astate := { a_objs : list (N * aobj);   (* requests handed out and not yet ended *)
                   a_goaway : bool;            (* the peer's GOAWAY has arrived *)
                   a_wait : list N;            (* request streams opened by the peer, not yet taken *)
                   a_lastgo : option N;        (* identifier of the peer's most recent GOAWAY *)
                   a_excuse : list N;          (* connection error codes the inputs so far justify *)
                   a_blocked : bool }.         (* the server cannot write on its control stream *)
Definition astate0 : astate :=
  {| a_objs := []; a_goaway := false; a_wait := []; a_lastgo := None; a_excuse := []; a_blocked := false |}.

Definition rfc_QPACK_DECOMPRESSION_FAILED : N := 512.   (* 0x0200, RFC 9204 6 *)
Definition rfc_H3_FRAME_UNEXPECTED : N := 261.          (* 0x0105 *)
Definition rfc_H3_FRAME_ERROR : N := 262.               (* 0x0106 *)
Definition transport_error : N := 0.                    (* not an HTTP/3 code: the transport's own error, passed through *)
(* the connection error a failed request justifies *)
Definition fail_excuse (op : dop) : list N :=
  match op with
  | DHeadersFail _ KBadQpack => [rfc_QPACK_DECOMPRESSION_FAILED]
  | DHeadersFail _ KUnexpected => [rfc_H3_FRAME_UNEXPECTED]
  | DHeadersFail _ KTruncFin => [rfc_H3_FRAME_ERROR]
  | _ => []
  end.
Definition st_objs (st : astate) (o : list (N * aobj)) (w : list N) (ex : list N) : astate :=
  {| a_objs := o; a_goaway := a_goaway st; a_wait := w; a_lastgo := a_lastgo st; a_excuse := ex;
     a_blocked := a_blocked st |}.

Definition app_step (st : astate) (e : dev) : astate :=
  match e with
  | DI (DArrive id) => st_objs st (a_objs st) (a_wait st ++ [id]) (a_excuse st)
  | DI (DPeerGoaway pid) =>
      {| a_objs := a_objs st; a_goaway := true; a_wait := a_wait st; a_lastgo := Some pid;
         a_excuse := (match a_lastgo st with
                      | Some p => if p <? pid then [rfc_H3_ID_ERROR] else []
                      | None => []
                      end) ++ a_excuse st;
         a_blocked := a_blocked st |}
  | DX => st_objs st (a_objs st) (a_wait st) (transport_error :: a_excuse st)
  | DW b => {| a_objs := a_objs st; a_goaway := a_goaway st; a_wait := a_wait st; a_lastgo := a_lastgo st;
               a_excuse := a_excuse st; a_blocked := b |}
  | DI op =>
      match op_target op with
      | Some id =>
          match lookup id (a_objs st) with
          | Some o =>
              match obj_update o op with
              | Some o' => st_objs st (update id o' (a_objs st)) (a_wait st) (fail_excuse op ++ a_excuse st)
              | None => st
              end
          | None => st
          end
      | None => st
      end
  | DO (EShown id) => st_objs st (a_objs st ++ [(id, AResolver)]) (remove1 id (a_wait st)) (a_excuse st)
  | DO (ERejected id _ _) => st_objs st (a_objs st) (remove1 id (a_wait st)) (a_excuse st)
  | DO _ => st
  end.

Definition app_after (t : list dev) : astate := fold_left app_step t astate0.

Definition all_ended (st : astate) : Prop := a_objs st = [].
Definition drained (st : astate) : Prop :=
  a_goaway st = true /\ a_objs st = [] /\ a_wait st = [] /\ a_blocked st = false.

Definition drain_safe (t : list dev) : Prop :=
  forall a b, t = a ++ DO ENone :: b -> all_ended (app_after a).
Definition drain_live (t : list dev) : Prop :=
  forall a b, t = a ++ DO EPending :: b -> ~ drained (app_after a).
Definition errors_justified (t : list dev) : Prop :=
  forall a b c, t = a ++ DO (EErr c) :: b -> In c (a_excuse (app_after a)).

(* one-pass monitor: the oracle on real traces *)
Definition is_nilb {A} (l : list A) : bool := match l with [] => true | _ => false end.
Definition drain_check (st : astate) (e : dev) : bool :=
  match e with
  | DO ENone => is_nilb (a_objs st)
  | DO EPending => negb (a_goaway st && is_nilb (a_objs st) && is_nilb (a_wait st) && negb (a_blocked st))
  | DO (EErr c) => existsb (N.eqb c) (a_excuse st)
  | _ => true
  end.
Fixpoint drain_run (st : astate) (t : list dev) : bool :=
  match t with
  | [] => true
  | e :: r => drain_check st e && drain_run (app_step st e) r
  end.
Definition drain_okb (t : list dev) : bool := drain_run astate0 t.

Fixpoint drain_fail_at (st : astate) (t : list dev) (i : N) : option N :=
  match t with
  | [] => None
  | e :: r => if drain_check st e then drain_fail_at (app_step st e) r (i + 1) else Some i
  end.
