(* RFC 9204 reference decoder for the dynamic table, written from the RFC text with 0-based absolute indices
   (sections 3.2, 4.3, 4.5): independent of h3's VirtualAddressSpace, maps and reference tracking.
   The static table rows are taken from Gen.GenStatic (their agreement with RFC 9204 App. A is C11's obligation). *)
From H3V Require Import Base.Bytes Gen.GenStatic Model.QInstr.

Definition rfield := (bytes * bytes)%type.

(* 3.2.1: size of an entry = name length + value length + 32 *)
Definition rfc_entry_size (f : rfield) : N := len (fst f) + len (snd f) + 32.

Record rdec := mkRdec {
  r_live : list rfield;     (* oldest first *)
  r_dropped : N;            (* number of evicted entries = absolute index of the oldest live entry *)
  r_cap : N                 (* dynamic table capacity *)
}.

Definition rfc_size (l : list rfield) : N := fold_right (fun f a => rfc_entry_size f + a) 0 l.
Definition rfc_insert_count (d : rdec) : N := r_dropped d + N.of_nat (length (r_live d)).

(* evict from the oldest until the size is at most target *)
Fixpoint rfc_evict (live : list rfield) (sz target : N) : list rfield * N :=
  match live with
  | [] => ([], 0)
  | f :: r => if sz <=? target then (live, 0)
              else let '(l, k) := rfc_evict r (sz - rfc_entry_size f) target in (l, k + 1)
  end.

(* 3.2.2: before a new entry is added, entries are evicted until size <= capacity - new size;
   an entry larger than the capacity is an error *)
Definition rfc_insert (d : rdec) (f : rfield) : option rdec :=
  if r_cap d <? rfc_entry_size f then None
  else let '(l, k) := rfc_evict (r_live d) (rfc_size (r_live d)) (r_cap d - rfc_entry_size f) in
       Some (mkRdec (l ++ [f]) (r_dropped d + k) (r_cap d)).

Fixpoint rnth {A} (l : list A) (n : N) : option A :=
  match l with [] => None | x :: r => if n =? 0 then Some x else rnth r (n - 1) end.

(* absolute index (0-based) -> entry, None when evicted or not yet inserted *)
Definition rfc_abs (d : rdec) (a : N) : option rfield :=
  if a <? r_dropped d then None else rnth (r_live d) (a - r_dropped d).

(* 3.2.5 relative index on the encoder stream: 0 = most recently inserted *)
Definition rfc_rel_instr (d : rdec) (i : N) : option rfield :=
  if rfc_insert_count d <=? i then None else rfc_abs d (rfc_insert_count d - 1 - i).

Definition rfc_static (i : N) : option rfield := rnth static_rows i.

(* 4.3 *)
Definition rfc_instr (d : rdec) (i : einstr) : option rdec :=
  match i with
  | ISizeUpdate c =>
      let '(l, k) := rfc_evict (r_live d) (rfc_size (r_live d)) c in Some (mkRdec l (r_dropped d + k) c)
  | IInsertLit n v => rfc_insert d (n, v)
  | IInsertStatic i v => match rfc_static i with Some f => rfc_insert d (fst f, v) | None => None end
  | IInsertDyn i v => match rfc_rel_instr d i with Some f => rfc_insert d (fst f, v) | None => None end
  | IDuplicate i => match rfc_rel_instr d i with Some f => rfc_insert d f | None => None end
  end.

Fixpoint rfc_instrs (d : rdec) (is : list einstr) : option rdec :=
  match is with
  | [] => Some d
  | i :: r => match rfc_instr d i with Some d' => rfc_instrs d' r | None => None end
  end.

(* 4.5.1.1 Required Insert Count reconstruction (the RFC's pseudo-code) *)
Definition rfc_required (eic total max_capacity : N) : option N :=
  let max_entries := max_capacity / 32 in
  let full_range := 2 * max_entries in
  if eic =? 0 then Some 0
  else if full_range <? eic then None
  else
    let max_value := total + max_entries in
    let max_wrapped := (max_value / full_range) * full_range in
    let r := max_wrapped + eic - 1 in
    if max_value <? r then
      (if r <=? full_range then None
       else if r - full_range =? 0 then None else Some (r - full_range))
    else if r =? 0 then None else Some r.

Inductive rfc_result := RfcOk (fs : list rfield) | RfcBlocked (required : N) | RfcError.

Definition rfc_rep (d : rdec) (base required : N) (r : brep) : option rfield :=
  (* dynamic references must name an entry below the Required Insert Count that is still in the table *)
  let dyn (a : N) := if a <? required then rfc_abs d a else None in
  match r with
  | BIndexedStatic i => rfc_static i
  | BIndexedDyn i => if base <=? i then None else dyn (base - 1 - i)                 (* 3.2.5 relative to Base *)
  | BIndexedPost i => dyn (base + i)                                                   (* 3.2.6 post-base *)
  | BLitStaticName i v => match rfc_static i with Some f => Some (fst f, v) | None => None end
  | BLitDynName i v => if base <=? i then None else
                       match dyn (base - 1 - i) with Some f => Some (fst f, v) | None => None end
  | BLitPostName i v => match dyn (base + i) with Some f => Some (fst f, v) | None => None end
  | BLiteral n v => Some (n, v)
  end.

Fixpoint rfc_reps (d : rdec) (base required : N) (rs : list brep) : option (list rfield) :=
  match rs with
  | [] => Some []
  | r :: rest => match rfc_rep d base required r, rfc_reps d base required rest with
                 | Some f, Some fs => Some (f :: fs)
                 | _, _ => None
                 end
  end.

(* 4.5: decode one encoded field section; max_capacity is the SETTINGS value both ends agreed on *)
Definition rfc_section (d : rdec) (max_capacity : N) (b : hblock) : rfc_result :=
  match rfc_required (hp_eic (fst b)) (rfc_insert_count d) max_capacity with
  | None => RfcError
  | Some required =>
      if rfc_insert_count d <? required then RfcBlocked required
      else
        let base_o := if hp_sign (fst b)
                      then (if required <? hp_delta (fst b) + 1 then None else Some (required - hp_delta (fst b) - 1))
                      else Some (required + hp_delta (fst b)) in
        match base_o with
        | None => RfcError
        | Some base => match rfc_reps d base required (snd b) with Some fs => RfcOk fs | None => RfcError end
        end
  end.
