(* C12, specification side: what a well-formed HTTP/3 field section is, written from the RFC character classes
   (RFC 9110 5.1 field-name = token, 5.6.2 tchar, 5.5 field-value; RFC 9114 4.2 lowercase names, 4.3 pseudo-header
   fields, 4.3.1 request pseudo-headers and authority/Host agreement, 4.3.2 :status, 8.1 H3_MESSAGE_ERROR)
   independently of h3's code and of the http crate's tables.
   "Parseable value" of a defined pseudo-header is a parameter [parseable name value] (instantiated in
   Spec/HttpParseable.v with the parsers of the HTTP library in use).
   Reading of the property text chosen here:
   * non-empty lowercase token names: every byte is an RFC 9110 tchar other than A-Z;
   * legal value bytes: HTAB, SP, VCHAR (0x21-0x7e) and obs-text (0x80-0xff): no NUL, CR, LF, other C0 controls
     or DEL - this holds for pseudo-header values too;
   * only defined pseudo-header fields: a name starting with ':' is one of :method :scheme :authority :path :status
     :protocol (RFC 8441 / RFC 9220); duplicates and role-inappropriate ones are not excluded (DESIGN 11);
   * a :method is present; a non-empty authority a exists that an :authority or Host field carries, and that each of
     the two kinds carries if the kind is present at all ("identical when both are present"; with duplicated fields:
     some occurrence of each kind carries a);
   * responses: a :status is present;  trailers: every field is well-formed. *)
From H3V Require Import Base.Bytes.

Definition H3_MESSAGE_ERROR_rfc : N := 270. (* 0x010e, RFC 9114 8.1 *)

(* RFC 5234 / RFC 9110 5.6.2 *)
Definition is_digit (b : N) : bool := (48 <=? b) && (b <=? 57).
Definition is_upper (b : N) : bool := (65 <=? b) && (b <=? 90).
Definition is_lower (b : N) : bool := (97 <=? b) && (b <=? 122).
(* "!" / "#" / "$" / "%" / "&" / "'" / "*" / "+" / "-" / "." / "^" / "_" / "`" / "|" / "~" *)
Definition tchar_symbols : bytes := [33; 35; 36; 37; 38; 39; 42; 43; 45; 46; 94; 95; 96; 124; 126].
Definition tchar (b : N) : bool := is_digit b || is_upper b || is_lower b || existsb (N.eqb b) tchar_symbols.
Definition lower_tchar (b : N) : bool := tchar b && negb (is_upper b).
Definition token (s : bytes) : bool := match s with [] => false | _ => forallb tchar s end.
(* RFC 9114 4.2: field names are lowercase tokens *)
Definition field_name_ok (n : bytes) : bool := match n with [] => false | _ => forallb lower_tchar n end.
(* RFC 9110 5.5: field-content is made of field-vchar (VCHAR / obs-text), SP and HTAB *)
Definition field_value_byte (b : N) : bool :=
  (b =? 9) || ((32 <=? b) && (b <=? 126)) || ((128 <=? b) && (b <=? 255)).
Definition field_value_ok (v : bytes) : bool := forallb field_value_byte v.

Definition beq (a b : bytes) : bool := if list_eq_dec N.eq_dec a b then true else false.
Definition memb (a : bytes) (l : list bytes) : bool := existsb (beq a) l.

(* ":method" ":scheme" ":authority" ":path" ":status" ":protocol" "host" *)
Definition pn_method : bytes := [58; 109; 101; 116; 104; 111; 100].
Definition pn_scheme : bytes := [58; 115; 99; 104; 101; 109; 101].
Definition pn_authority : bytes := [58; 97; 117; 116; 104; 111; 114; 105; 116; 121].
Definition pn_path : bytes := [58; 112; 97; 116; 104].
Definition pn_status : bytes := [58; 115; 116; 97; 116; 117; 115].
Definition pn_protocol : bytes := [58; 112; 114; 111; 116; 111; 99; 111; 108].
Definition hn_host : bytes := [104; 111; 115; 116].
Definition defined_pseudo : list bytes := [pn_method; pn_scheme; pn_authority; pn_path; pn_status; pn_protocol].
Definition is_pseudo_name (n : bytes) : bool := match n with 58 :: _ => true | _ => false end.

Definition fieldline := (bytes * bytes)%type.
Definition values_of (name : bytes) (fs : list fieldline) : list bytes :=
  map snd (filter (fun f => beq (fst f) name) fs).
Definition regular_fields (fs : list fieldline) : list fieldline :=
  filter (fun f => negb (is_pseudo_name (fst f))) fs.
Definition last_value (name : bytes) (fs : list fieldline) : option bytes :=
  match rev (values_of name fs) with [] => None | v :: _ => Some v end.

(* canonical form of a :path value in a URI: the fragment is not part of the request target; an empty
   path-and-query is "/" *)
Fixpoint strip_fragment (s : bytes) : bytes :=
  match s with
  | [] => []
  | b :: r => if b =? 35 then [] else b :: strip_fragment r
  end.
Definition path_canon (s : bytes) : bytes := match strip_fragment s with [] => [47] | d => d end.

Section WF.
  Variable parseable : bytes -> bytes -> bool.

  (* ---- as propositions (what the theorems state) *)
  Definition wf_field (f : fieldline) : Prop :=
    field_value_ok (snd f) = true /\
    ((is_pseudo_name (fst f) = true /\ In (fst f) defined_pseudo /\ parseable (fst f) (snd f) = true)
     \/ (is_pseudo_name (fst f) = false /\ field_name_ok (fst f) = true)).
  Definition has_field (name : bytes) (fs : list fieldline) : Prop := exists v, In (name, v) fs.
  Definition authority_agrees (fs : list fieldline) : Prop :=
    exists a, a <> [] /\ (In (pn_authority, a) fs \/ In (hn_host, a) fs)
              /\ (has_field pn_authority fs -> In (pn_authority, a) fs)
              /\ (has_field hn_host fs -> In (hn_host, a) fs).
  Definition wf_request (fs : list fieldline) : Prop :=
    Forall wf_field fs /\ has_field pn_method fs /\ authority_agrees fs.
  Definition wf_response (fs : list fieldline) : Prop :=
    Forall wf_field fs /\ has_field pn_status fs.
  Definition wf_trailers (fs : list fieldline) : Prop := Forall wf_field fs.

  (* ---- the same, executable (the oracle of the correspondence run) *)
  Definition wf_fieldb (f : fieldline) : bool :=
    field_value_ok (snd f) &&
    (if is_pseudo_name (fst f) then memb (fst f) defined_pseudo && parseable (fst f) (snd f)
     else field_name_ok (fst f)).
  Definition nonempty {A} (l : list A) : bool := match l with [] => false | _ => true end.
  Definition authority_agreesb (fs : list fieldline) : bool :=
    let auths := values_of pn_authority fs in
    let hosts := values_of hn_host fs in
    existsb (fun a => nonempty a && (negb (nonempty auths) || memb a auths) && (negb (nonempty hosts) || memb a hosts))
            (auths ++ hosts).
  Definition wf_requestb (fs : list fieldline) : bool :=
    forallb wf_fieldb fs && nonempty (values_of pn_method fs) && authority_agreesb fs.
  Definition wf_responseb (fs : list fieldline) : bool :=
    forallb wf_fieldb fs && nonempty (values_of pn_status fs).
  Definition wf_trailersb (fs : list fieldline) : bool := forallb wf_fieldb fs.
End WF.

(* ---- the send side: what a list of emitted field lines must look like: all pseudo-header fields before any
   regular field, each at most once (the statement fixes no order among the pseudo fields) *)
Definition pseudo_first (emitted ps rs : list fieldline) : Prop :=
  emitted = ps ++ rs /\
  Forall (fun f => is_pseudo_name (fst f) = true) ps /\
  Forall (fun f => is_pseudo_name (fst f) = false) rs /\
  NoDup (map fst ps).
