(* C01: the RFC reading of a finished request stream (RFC 9114 4.1: one HEADERS frame, any number of DATA frames,
   optionally one more HEADERS frame; frames of unknown type anywhere; then FIN at a frame boundary), as the sequence
   of items a request-stream reader must hand up.  Built on the frame-level reference reader of Spec/Frames.v (C02),
   applied to the FLAT byte string: chunking does not exist at this level. *)
From H3V Require Import Base.Bytes Spec.RFC9000 Spec.FrameVocab Spec.Frames Model.EndToEnd.

Inductive rd_phase := RdFirst | RdBody | RdTrailers (tb : bytes).

(* [acc] collects the DATA payload bytes seen since the last item *)
Fixpoint read_tokens (ph : rd_phase) (acc : bytes) (toks : list tok) (tl : tail) : list ritem :=
  match toks with
  | [] =>
      match ph, tl with
      | RdFirst, _ => [RFail 1]
      | RdBody, CleanEnd => flush_items acc ++ [RDataEnd; RTrailers None]
      | RdBody, _ => flush_items acc ++ [RFail 2]
      | RdTrailers tb, CleanEnd => [RTrailers (Some tb)]
      | RdTrailers _, _ => [RFail 3]
      end
  | t :: r =>
      match ph, t with
      | RdFirst, TFrame (FHeaders b) => RFirst b :: read_tokens RdBody [] r tl
      | RdFirst, _ => [RFail 4]
      | RdBody, TFrame (FData _) => read_tokens RdBody acc r tl
      | RdBody, TByte x => read_tokens RdBody (acc ++ [x]) r tl
      | RdBody, TFrame (FHeaders b) => flush_items acc ++ RDataEnd :: read_tokens (RdTrailers b) [] r tl
      | RdBody, _ => flush_items acc ++ [RFail 5]
      | RdTrailers _, _ => [RFail 6]
      end
  end.

(* SETTINGS never belongs on a request stream; its contents are not looked at *)
Definition no_settings_check : bytes -> option settings_err := fun _ => None.

(* [scheck]: the verdict on a SETTINGS payload (C13's subject); it cannot matter for a well-formed request stream,
   which carries no SETTINGS frame, and is a parameter so that any verdict function can be plugged in *)
Definition rfc_stream_reading_with (scheck : bytes -> option settings_err) (flat : bytes) : list ritem :=
  let '(toks, tl) := frame_outcome scheck flat Finished in
  read_tokens RdFirst [] toks tl.

Definition rfc_stream_reading (flat : bytes) : list ritem := rfc_stream_reading_with no_settings_check flat.
