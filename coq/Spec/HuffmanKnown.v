(* The class of inputs of the open known finding F15b (h3 accepts all-ones padding of 8..37 bits,
   which includes a complete EOS code): valid symbol codes followed by 8..37 one bits.
   Stated over the RFC table only. *)
From H3V Require Import Base.Bytes Spec.RFC7541Huffman.

Definition LongOnes (bs : bytes) : Prop :=
  exists s pad, wf_bytes s /\ bits_of_bytes bs = codes s ++ pad /\ all_ones pad = true /\
                (8 <= length pad <= 37)%nat.

(* what h3 returns on a member of the class: the symbols before the ones *)
Definition LongOnesResult (bs s : bytes) : Prop :=
  exists pad, wf_bytes s /\ bits_of_bytes bs = codes s ++ pad /\ all_ones pad = true /\
              (8 <= length pad <= 37)%nat.

(* executable form: strip symbol codes (rows 0..255, EOS excluded) greedily, look at what is left *)
Definition sym_code_table : list bits := firstn 256 rfc_code_table.

Fixpoint greedy_split (fuel : nat) (l : bits) : bytes * bits :=
  match fuel with
  | O => ([], l)
  | S f =>
      match match_code sym_code_table 0 l with
      | Some (s, rest) => let (out, r) := greedy_split f rest in (s :: out, r)
      | None => ([], l)
      end
  end.

Definition long_ones_split (bs : bytes) : bytes * bits :=
  greedy_split (S (8 * length bs)) (bits_of_bytes bs).

Definition long_ones_b (bs : bytes) : bool :=
  let (s, pad) := long_ones_split bs in
  all_ones pad && Nat.leb 8 (length pad) && Nat.leb (length pad) 37.

Definition long_ones_result (bs : bytes) : bytes := fst (long_ones_split bs).
