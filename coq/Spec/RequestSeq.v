(* RFC 9114 section 4.1: an HTTP message on a request stream is one HEADERS frame, then DATA frames of any length,
   then at most one HEADERS frame (trailers); frames of unknown types may appear anywhere and are ignored (section 9);
   any other frame sequence is a connection error H3_FRAME_UNEXPECTED (4.1, 7.2.3-7.2.8); a request stream that
   ends before a complete message gets H3_REQUEST_INCOMPLETE from the server (4.1).

   Input: the outcome the frame layer's reference reader (Spec/Frames.v) prescribes for the stream's flat bytes - the
   frames and DATA payload bytes in order (unknown-type frames already skipped) and how the stream stops.
   Output: what the application must be shown, and how it ends.  Written from the RFC; shares only data types with
   the model. *)
From H3V Require Import Base.Bytes Spec.FrameVocab Spec.Frames.

Inductive rside := AtServer | AtClient.

Inductive revent :=
| EHead (block : bytes)            (* the message's header section *)
| EByte (b : N)                    (* one byte of content *)
| EBodyEnd                         (* the content is complete *)
| ETrailers (t : option bytes).    (* the trailer section, or none: the message is complete *)

Definition H3_ID_ERROR_rfc : N := 264.
Definition H3_REQUEST_INCOMPLETE_rfc : N := 269.

Inductive rfinal :=
| RDone                            (* a complete message was delivered *)
| RConnError (allowed : list N)    (* connection error with one of these codes *)
| RIncomplete                      (* server: refused as incomplete - stream error H3_REQUEST_INCOMPLETE, the stream is
                                      reset with that code, no connection error *)
| RAborted (e : qerr)              (* the peer reset the stream / the connection was lost *)
| RWaiting                         (* stream still open, nothing more can be said yet *)
| ROutOfScope.                     (* a WebTransport stream header: not an HTTP message *)

(* the 4 states of HEADERS DATA* HEADERS? (the error state is the [inr] result) *)
Inductive dstate := DStart | DBody | DTrail (t : bytes).

Definition unexpected : rfinal := RConnError [H3_FRAME_UNEXPECTED_rfc].

(* a known frame that never belongs on a request stream; PUSH_PROMISE may be sent to a client, which then has to
   reject it because it never allowed pushes (RFC: H3_ID_ERROR; also accepted: H3_FRAME_UNEXPECTED) *)
Definition not_a_message_frame (s : rside) (f : frame) : rfinal :=
  match f, s with
  | FPushPromise _ _, AtClient => RConnError [H3_FRAME_UNEXPECTED_rfc; H3_ID_ERROR_rfc]
  | _, _ => unexpected
  end.

Fixpoint req_walk (s : rside) (st : dstate) (toks : list tok) : list revent * (dstate + rfinal) :=
  match toks with
  | [] => ([], inl st)
  | TByte b :: ts =>
      match st with
      | DBody => let '(ev, r) := req_walk s DBody ts in (EByte b :: ev, r)
      | _ => ([], inr unexpected)
      end
  | TFrame (FHeaders h) :: ts =>
      match st with
      | DStart => let '(ev, r) := req_walk s DBody ts in (EHead h :: ev, r)
      | DBody => let '(ev, r) := req_walk s (DTrail h) ts in (EBodyEnd :: ev, r)
      | DTrail _ => ([], inr unexpected)
      end
  | TFrame (FData _) :: ts =>
      match st with
      | DBody => req_walk s DBody ts
      | _ => ([], inr unexpected)
      end
  | TFrame (FWebTransport _) :: _ => ([], inr ROutOfScope)
  | TFrame f :: _ => ([], inr (not_a_message_frame s f))
  end.

(* how the stream stops, seen from state [st] *)
Definition req_stop (s : rside) (st : dstate) (t : tail) : list revent * rfinal :=
  match t with
  | CleanEnd =>
      match st with
      | DStart => ([], match s with AtServer => RIncomplete | AtClient => unexpected end)
      | DBody => ([EBodyEnd; ETrailers None], RDone)
      | DTrail tr => ([ETrailers (Some tr)], RDone)
      end
  | FrameError => ([], RConnError [H3_FRAME_ERROR_rfc])
  (* a mis-sized CANCEL_PUSH / GOAWAY / MAX_PUSH_ID / PUSH_PROMISE: malformed, and (but for PUSH_PROMISE at a client)
     not allowed here anyway *)
  | ProtoError PCMalformed => ([], RConnError [H3_FRAME_ERROR_rfc; H3_FRAME_UNEXPECTED_rfc])
  | ProtoError (PCForbidden _) => ([], unexpected)
  (* a SETTINGS frame with bad contents on a request stream: wrong stream and wrong contents *)
  | ProtoError (PCSettings _) => ([], RConnError [H3_FRAME_UNEXPECTED_rfc; H3_SETTINGS_ERROR_rfc])
  | Aborted e => ([], RAborted e)
  | Handover => ([], ROutOfScope)
  | Waiting => ([], RWaiting)
  end.

Definition req_out (s : rside) (st : dstate) (O : list tok * tail) : list revent * rfinal :=
  let '(ev, r) := req_walk s st (fst O) in
  match r with
  | inl st' => let '(ev', f) := req_stop s st' (snd O) in (ev ++ ev', f)
  | inr f => (ev, f)
  end.

Definition request_outcome (scheck : bytes -> option settings_err) (s : rside) (flat : bytes) (en : ending)
  : list revent * rfinal :=
  req_out s DStart (frame_outcome scheck flat en).

(* RFC 9114 7.2.4, 7.2.4.1, 11.2.2: is this SETTINGS payload acceptable?  Identifier-value pairs of variable-length
   integers covering the payload exactly; the identifiers reserved because HTTP/2 used them (0x00, 0x02, 0x03, 0x04,
   0x05) MUST NOT be sent; the same identifier MUST NOT occur twice.  Written from the RFC: it does not look at h3's
   lists.  (A receiver MAY ignore a repeated identifier it does not know; on a request stream that only widens the
   allowed codes.) *)
Definition rfc_reserved_setting (id : N) : bool :=
  (id =? 0) || (id =? 2) || (id =? 3) || (id =? 4) || (id =? 5).
Fixpoint rfc_settings_scan (fuel : nat) (p : bytes) (seen : list N) : option settings_err :=
  match fuel with
  | O => Some SMalformed
  | S f =>
    match p with
    | [] => None
    | _ =>
      match rfc_take_varint p with
      | None => Some SMalformed
      | Some (id, r1) =>
        match rfc_take_varint r1 with
        | None => Some SMalformed
        | Some (_, r2) =>
          if rfc_reserved_setting id then Some (SInvalidId id)
          else if existsb (N.eqb id) seen then Some (SRepeated id)
          else rfc_settings_scan f r2 (id :: seen)
        end
      end
    end
  end.
Definition rfc_settings_verdict (p : bytes) : option settings_err := rfc_settings_scan (S (length p)) p [].

(* the language itself, on the sequence of frame kinds (for the statement "delivered iff in the language") *)
Inductive kind := KHeaders | KData | KOther.
Fixpoint in_language (st : dstate) (ks : list kind) : bool :=
  match ks with
  | [] => match st with DStart => false | _ => true end
  | KHeaders :: r => match st with DStart => in_language DBody r | DBody => in_language (DTrail []) r | DTrail _ => false end
  | KData :: r => match st with DBody => in_language DBody r | _ => false end
  | KOther :: _ => false
  end.
