(* "Parseable" for the six defined pseudo-header fields, as decided by the HTTP library h3 uses (the `http` crate
   types Method, StatusCode, uri::Scheme, uri::Authority, uri::PathAndQuery, reached through `str::parse`, which
   needs UTF-8) and, for :protocol, the extended-CONNECT protocol tokens h3 knows (RFC 9220 "websocket",
   RFC 9298 "connect-udp", RFC 9484 "connect-ip", WebTransport "webtransport").
   The crate's parsers are the executable ports of Model/HttpCrate.v (validated against the crate by the
   correspondence run); Proofs/HeadersProofs.v proves what they imply in RFC terms (a parseable :method is a token,
   a parseable :status is three digits 100..999, a parseable :authority is non-empty visible ASCII, every parseable
   value consists of legal field-value bytes). *)
From H3V Require Import Base.Bytes Model.HttpCrate Spec.WellFormed.

Definition known_protocols : list bytes :=
  [ [119; 101; 98; 116; 114; 97; 110; 115; 112; 111; 114; 116]   (* webtransport *)
  ; [99; 111; 110; 110; 101; 99; 116; 45; 117; 100; 112]         (* connect-udp *)
  ; [99; 111; 110; 110; 101; 99; 116; 45; 105; 112]              (* connect-ip *)
  ; [119; 101; 98; 115; 111; 99; 107; 101; 116] ].               (* websocket *)

Definition path_ok (v : bytes) : bool := match path_parse v with Ok _ => true | _ => false end.

Definition http_parseable (name value : bytes) : bool :=
  if beq name pn_method then method_ok value
  else if beq name pn_status then match status_parse value with Some _ => true | None => false end
  else if beq name pn_scheme then utf8_valid value && scheme_ok value
  else if beq name pn_authority then utf8_valid value && authority_ok value
  else if beq name pn_path then utf8_valid value && path_ok value
  else if beq name pn_protocol then memb value known_protocols
  else false.
