(* C07 - what a fault confined to one request may do, written from the property text and RFC 9114
   (4.1, 4.1.2, 4.2.2, 8.1), independently of h3's code.

   Vocabulary.  A request stream as the peer drives it is a list of transport events, one chunk
   per event, classified at the HTTP/3 level (QPACK / field validation are other properties'):
     EHeaders k      one complete HEADERS frame whose field section is k (the first one on a stream is the
                     message header, one after the body is the trailer section)
     EData t p       a DATA frame header announcing t payload bytes, followed by the first bytes p of them
     EMore bs        further payload bytes of the open DATA frame
     EPartial        a strict prefix of a frame (header) that nothing completes
     EFin / EReset o the peer's FIN / the receive half fails: RESET_STREAM(c) for o = Some c, a transport-specific
                     stream failure (StreamErrorIncoming::Unknown) for o = None
   plus, out of band, STOP_SENDING(c) for our sending half.

   The specification is the table [classify]: for a script in the class of the property (a healthy
   message, or a healthy prefix hit by ONE stream-scoped fault) it lists the only outcomes the request
   may show.  Every listed outcome is stream-scoped; the connection-level expectation is [conn_quiet]. *)
From H3V Require Import Base.Bytes.

Inductive hkind := HOk | HMalformed | HOversized | HBadQpack.
Inductive ev :=
| EHeaders (k : hkind)
| EData (total : N) (part : bytes)
| EMore (bs : bytes)
| EPartial
| EFin
| EReset (code : option N).
Inductive role := Server | Client.

(* transport calls h3 makes on the request's own stream, and the frames it writes there *)
Inductive call := CReset (c : N) | CStop (c : N) | CFin.
Inductive witem := WHeaders (tag : N) | WData (bs : bytes) | WTrailers | WGrease.   (* tag: status of a response, 0 for a request *)

(* what the application sees at the end of a request *)
(* KUndefined: StreamError::Undefined, what a transport-specific stream error becomes (no code) *)
Inductive errclass := KStreamError | KRemoteTerminate | KHeaderTooBig | KRemoteClosing | KUndefined.
Inductive outcome :=
| ONone                                         (* still running *)
| OOk                                           (* completed normally *)
| OStreamErr (k : errclass) (code : option N)   (* an error whose scope is this stream *)
| OConnErr (code : N)                           (* an error whose scope is the connection *)
| OOther.                                       (* panic / outside the abstraction *)

(* ob_trl: a trailer section was handed to the application *)
Record observed := { ob_out : outcome; ob_data : bytes; ob_trl : bool; ob_calls : list call; ob_tx : list witem }.

(* RFC 9114 section 8.1 *)
Definition RFC_H3_REQUEST_CANCELLED : N := 268.  (* 0x010c *)
Definition RFC_H3_REQUEST_INCOMPLETE : N := 269. (* 0x010d *)
Definition RFC_H3_MESSAGE_ERROR : N := 270.      (* 0x010e *)
Definition STATUS_OK : N := 200.
Definition STATUS_HEADER_FIELDS_TOO_LARGE : N := 431.
(* size (RFC 9114 4.2.2: name + value + 32) of the field section ":status: 431" *)
Definition SIZE_OF_431_SECTION : N := 42.

(* per-request constants of the scenario: our role, the size of the field section WE send, the body WE send,
   the size of the trailer section WE send (None: no trailers); whether this request carries the connection's
   one reserved-type ("grease") frame, written by finish(); whether the transport reports a STOP_SENDING seen
   while finishing as a transport-specific error (as h3-quinn does) instead of StreamTerminated *)
Record rcfg := { c_role : role; c_hsize : N; c_body : bytes; c_trl : option N; c_grease : bool; c_unk : bool }.
(* disturbances that are not faults of the stream's own bytes: a STOP_SENDING for this request, the
   limit announced in the peer's SETTINGS (if it arrives at all), a GOAWAY from the peer *)
Record renv := { e_stop : option N; e_limit : option N; e_goaway : bool }.

Inductive allowance :=
| AOk (body : bytes) (tx : list witem) (trl : bool)
    (* normal completion: exactly these bytes were delivered, trailers handed over iff trl, exactly these frames
       written, stream finished, no reset / stop_sending *)
| AErr (k : errclass) (code : option N) (aborts : list call) (upto : bytes) (tx : option (list witem)).
    (* that stream-level error; these reset/stop_sending calls were made on the stream (in any order: the
       property does not constrain how a faulted stream is torn down); the delivered bytes are a prefix of
       [upto]; frames written as given when constrained *)

(* a failed receive half: RemoteTerminate with the peer's code for a RESET, Undefined for a transport-specific failure *)
Definition reset_allowance (o : option N) (upto : bytes) : allowance :=
  match o with
  | Some code => AErr KRemoteTerminate (Some code) [] upto None
  | None => AErr KUndefined None [] upto None
  end.

(* ---------- the body of a message: DATA frames cut into chunks, then how it ends *)
(* EndFinT k: a trailer section k, then FIN *)
Inductive ending := EndFin | EndFinT (k : hkind) | EndReset (c : option N) | EndBad.

(* scan_body r acc P: r payload bytes of the open DATA frame are still owed; returns the payload
   bytes in order and how the stream ends.  Anything outside the grammar is EndBad. *)
Fixpoint scan_body (r : N) (acc : bytes) (p : list ev) : bytes * ending :=
  match p with
  | [] => (acc, EndBad)
  | EReset c :: [] => (acc, EndReset c)
  | EFin :: [] => if r =? 0 then (acc, EndFin) else (acc, EndBad)
  | EPartial :: EReset c :: [] => if r =? 0 then (acc, EndReset c) else (acc, EndBad)
  | EData t part :: q =>
      if (r =? 0) && (len part <=? t) then scan_body (t - len part) (acc ++ part) q else (acc, EndBad)
  | EMore bs :: q =>
      if (0 <? len bs) && (len bs <=? r) then scan_body (r - len bs) (acc ++ bs) q else (acc, EndBad)
  | EHeaders k :: q =>
      (* trailers: only at a frame boundary, and nothing but the end of the stream may follow *)
      if r =? 0 then
        match q with
        | EFin :: [] => (acc, EndFinT k)
        | EReset c :: [] => (acc, EndReset c)
        | EPartial :: EReset c :: [] => (acc, EndReset c)
        | _ => (acc, EndBad)
        end
      else (acc, EndBad)
  | _ => (acc, EndBad)
  end.

Definition healthy_tx (c : rcfg) : list witem :=
  (match c_role c with
   | Server => [WHeaders STATUS_OK; WData (c_body c)]
   | Client => [WHeaders 0; WData (c_body c)]
   end) ++ (match c_trl c with Some _ => [WTrailers] | None => [] end) ++ (if c_grease c then [WGrease] else []).

Definition over (sz : N) (lim : option N) : bool :=
  match lim with Some v => v <? sz | None => false end.

(* the outcomes owed to the stream's own bytes *)
Definition classify_script (c : rcfg) (s : list ev) : option (list allowance) :=
  match s with
  | EHeaders HOk :: body =>
      match scan_body 0 [] body with
      | (d, EndFin) => Some [AOk d (healthy_tx c) false]
      | (d, EndFinT HOk) => Some [AOk d (healthy_tx c) true]
      | (d, EndFinT HMalformed) =>
          (* RFC 9114 4.1.2 applies to trailer sections as well: stream error H3_MESSAGE_ERROR *)
          Some [AErr KStreamError (Some RFC_H3_MESSAGE_ERROR) [CStop RFC_H3_MESSAGE_ERROR] d
                     (match c_role c with Server => Some [] | Client => None end)]
      | (d, EndFinT HOversized) =>
          match c_role c with
          | Server => Some [AErr KHeaderTooBig None [] d (Some [])]
          | Client => Some [AErr KHeaderTooBig None [CStop RFC_H3_REQUEST_CANCELLED] d None]
          end
      | (_, EndFinT HBadQpack) => None
      | (d, EndReset o) => Some [reset_allowance o d]
      | (_, EndBad) => None
      end
  | EHeaders HMalformed :: _ =>
      (* RFC 9114 4.1.2: malformed messages are a stream error of type H3_MESSAGE_ERROR *)
      match c_role c with
      | Server => Some [AErr KStreamError (Some RFC_H3_MESSAGE_ERROR)
                             [CReset RFC_H3_MESSAGE_ERROR; CStop RFC_H3_MESSAGE_ERROR] [] (Some [])]
      | Client => Some [AErr KStreamError (Some RFC_H3_MESSAGE_ERROR) [CStop RFC_H3_MESSAGE_ERROR] [] None]
      end
  | EHeaders HOversized :: _ =>
      (* RFC 9114 4.2.2: a server may answer 431; a client cancels the request *)
      match c_role c with
      | Server => Some [AErr KHeaderTooBig None [] [] (Some [WHeaders STATUS_HEADER_FIELDS_TOO_LARGE])]
      | Client => Some [AErr KHeaderTooBig None [CStop RFC_H3_REQUEST_CANCELLED] [] None]
      end
  | EHeaders HBadQpack :: _ => None            (* connection error: not in the class *)
  | EFin :: [] =>
      (* RFC 9114 4.1: a request stream ended before its headers: H3_REQUEST_INCOMPLETE (server side, DESIGN 11) *)
      match c_role c with
      | Server => Some [AErr KStreamError (Some RFC_H3_REQUEST_INCOMPLETE) [CReset RFC_H3_REQUEST_INCOMPLETE] [] (Some [])]
      | Client => None
      end
  | EReset o :: [] => Some [reset_allowance o []]
  | EPartial :: EReset o :: [] => Some [reset_allowance o []]
  | _ => None
  end.

Definition all_data (s : list ev) : bytes :=
  match s with
  | EHeaders HOk :: body => fst (scan_body 0 [] body)
  | _ => []
  end.

(* outcomes that the environment's disturbances add *)
Definition classify_env (c : rcfg) (e : renv) (s : list ev) : list allowance :=
  (match e_stop e with
   | Some code =>
       AErr KRemoteTerminate (Some code) [] (all_data s) None ::
       (if c_unk c then [AErr KUndefined None [] (all_data s) None] else [])
   | None => []
   end) ++
  (if over (c_hsize c) (e_limit e)
      || (match c_trl c with Some z => over z (e_limit e) | None => false end)
      || (match c_role c, s with
          | Server, EHeaders HOversized :: _ => over SIZE_OF_431_SECTION (e_limit e)
          | _, _ => false
          end)
   then [AErr KHeaderTooBig None [] (all_data s) None] else []) ++
  (match c_role c with
   | Client => if e_goaway e then [AErr KRemoteClosing None [] [] (Some [])] else []
   | Server => []
   end).

Definition classify (c : rcfg) (e : renv) (s : list ev) : option (list allowance) :=
  match classify_script c s with
  | Some l => Some (l ++ classify_env c e s)
  | None => None
  end.

(* ---------- does an observation meet an allowance *)
Fixpoint bytes_eqb (a b : bytes) : bool :=
  match a, b with
  | [], [] => true
  | x :: a', y :: b' => (x =? y) && bytes_eqb a' b'
  | _, _ => false
  end.
Fixpoint prefixb (a b : bytes) : bool :=
  match a, b with
  | [], _ => true
  | x :: a', y :: b' => (x =? y) && prefixb a' b'
  | _, _ => false
  end.
Definition call_eqb (a b : call) : bool :=
  match a, b with
  | CReset x, CReset y => x =? y
  | CStop x, CStop y => x =? y
  | CFin, CFin => true
  | _, _ => false
  end.
Definition witem_eqb (a b : witem) : bool :=
  match a, b with
  | WHeaders x, WHeaders y => x =? y
  | WData x, WData y => bytes_eqb x y
  | WTrailers, WTrailers => true
  | WGrease, WGrease => true
  | _, _ => false
  end.
Fixpoint list_eqb {A} (eqb : A -> A -> bool) (a b : list A) : bool :=
  match a, b with
  | [], [] => true
  | x :: a', y :: b' => eqb x y && list_eqb eqb a' b'
  | _, _ => false
  end.
Definition is_abort (c : call) : bool := match c with CFin => false | _ => true end.
Definition errclass_eqb (a b : errclass) : bool :=
  match a, b with
  | KStreamError, KStreamError | KRemoteTerminate, KRemoteTerminate
  | KHeaderTooBig, KHeaderTooBig | KRemoteClosing, KRemoteClosing | KUndefined, KUndefined => true
  | _, _ => false
  end.
Definition optN_eqb (a b : option N) : bool :=
  match a, b with
  | Some x, Some y => x =? y
  | None, None => true
  | _, _ => false
  end.

Definition sat1 (o : observed) (a : allowance) : bool :=
  match a, ob_out o with
  | AOk body tx trl, OOk =>
      bytes_eqb (ob_data o) body && list_eqb witem_eqb (ob_tx o) tx && list_eqb call_eqb (ob_calls o) [CFin]
      && Bool.eqb (ob_trl o) trl
  | AErr k code aborts upto tx, OStreamErr k' code' =>
      errclass_eqb k k' && optN_eqb code code'
      && forallb (fun a => existsb (call_eqb a) (ob_calls o)) aborts
      && prefixb (ob_data o) upto
      && match tx with Some t => list_eqb witem_eqb (ob_tx o) t | None => true end
  | _, _ => false
  end.

(* a finished request meets the table; a running one has shown nothing but a prefix of its data *)
Definition sat (o : observed) (l : list allowance) : bool := existsb (sat1 o) l.

(* a request that is in the class and completes normally is owed exactly its bytes, and its trailers iff sent *)
Definition healthy (c : rcfg) (s : list ev) : option (bytes * bool) :=
  match classify_script c s with
  | Some [AOk d _ t] => Some (d, t)
  | _ => None
  end.

(* connection-level expectation when every request is in the class: no connection error anywhere,
   close never called *)
Record connobs := { co_cell : option N; co_closes : list N; co_driver : option N }.
Definition conn_quiet (c : connobs) : bool :=
  match co_cell c, co_closes c, co_driver c with
  | None, [], None => true
  | _, _, _ => false
  end.
