(* RFC 9204 (QPACK) restricted to what can be used WITHOUT a dynamic table:
     Appendix A   the static table (99 entries), transcribed from the RFC - NOT from h3's static_.rs
     4.5.1        encoded field section prefix (Required Insert Count, S, Delta Base)
     4.5.2        indexed field line, static (T = 1)
     4.5.4        literal field line with name reference, static (T = 1)
     4.5.6        literal field line with literal name
     4.1.1/4.1.2  prefixed integers and string literals (RFC 7541 5.1 / 5.2, Spec.PrefixInt / Spec.RFC7541Huffman)
   Written independently of h3: the grammar is an inductive relation, the reference decoder classifies the
   first octet by numeric ranges and reads the table below. *)
From H3V Require Import Base.Bytes Spec.PrefixInt Spec.RFC7541Huffman Spec.HuffmanKnown.

Definition rfield := (bytes * bytes)%type.

(* ---------------------------------------------------------------- Appendix A *)
(* The 99 entries as octet strings.  The human-readable transcription of the RFC table is
   Spec/RFC9204AppendixA.v (text); Proofs/StaticTableProofs.v proves that this list is that text, entry by
   entry.  (Kept apart so that the extracted oracle does not drag Coq's `string` type into OCaml.) *)
Definition rfc9204_static_table : list rfield := [
  ([58;97;117;116;104;111;114;105;116;121], []);
  ([58;112;97;116;104], [47]);
  ([97;103;101], [48]);
  ([99;111;110;116;101;110;116;45;100;105;115;112;111;115;105;116;105;111;110], []);
  ([99;111;110;116;101;110;116;45;108;101;110;103;116;104], [48]);
  ([99;111;111;107;105;101], []);
  ([100;97;116;101], []);
  ([101;116;97;103], []);
  ([105;102;45;109;111;100;105;102;105;101;100;45;115;105;110;99;101], []);
  ([105;102;45;110;111;110;101;45;109;97;116;99;104], []);
  ([108;97;115;116;45;109;111;100;105;102;105;101;100], []);
  ([108;105;110;107], []);
  ([108;111;99;97;116;105;111;110], []);
  ([114;101;102;101;114;101;114], []);
  ([115;101;116;45;99;111;111;107;105;101], []);
  ([58;109;101;116;104;111;100], [67;79;78;78;69;67;84]);
  ([58;109;101;116;104;111;100], [68;69;76;69;84;69]);
  ([58;109;101;116;104;111;100], [71;69;84]);
  ([58;109;101;116;104;111;100], [72;69;65;68]);
  ([58;109;101;116;104;111;100], [79;80;84;73;79;78;83]);
  ([58;109;101;116;104;111;100], [80;79;83;84]);
  ([58;109;101;116;104;111;100], [80;85;84]);
  ([58;115;99;104;101;109;101], [104;116;116;112]);
  ([58;115;99;104;101;109;101], [104;116;116;112;115]);
  ([58;115;116;97;116;117;115], [49;48;51]);
  ([58;115;116;97;116;117;115], [50;48;48]);
  ([58;115;116;97;116;117;115], [51;48;52]);
  ([58;115;116;97;116;117;115], [52;48;52]);
  ([58;115;116;97;116;117;115], [53;48;51]);
  ([97;99;99;101;112;116], [42;47;42]);
  ([97;99;99;101;112;116], [97;112;112;108;105;99;97;116;105;111;110;47;100;110;115;45;109;101;115;115;97;103;101]);
  ([97;99;99;101;112;116;45;101;110;99;111;100;105;110;103], [103;122;105;112;44;32;100;101;102;108;97;116;101;44;32;98;114]);
  ([97;99;99;101;112;116;45;114;97;110;103;101;115], [98;121;116;101;115]);
  ([97;99;99;101;115;115;45;99;111;110;116;114;111;108;45;97;108;108;111;119;45;104;101;97;100;101;114;115], [99;97;99;104;101;45;99;111;110;116;114;111;108]);
  ([97;99;99;101;115;115;45;99;111;110;116;114;111;108;45;97;108;108;111;119;45;104;101;97;100;101;114;115], [99;111;110;116;101;110;116;45;116;121;112;101]);
  ([97;99;99;101;115;115;45;99;111;110;116;114;111;108;45;97;108;108;111;119;45;111;114;105;103;105;110], [42]);
  ([99;97;99;104;101;45;99;111;110;116;114;111;108], [109;97;120;45;97;103;101;61;48]);
  ([99;97;99;104;101;45;99;111;110;116;114;111;108], [109;97;120;45;97;103;101;61;50;53;57;50;48;48;48]);
  ([99;97;99;104;101;45;99;111;110;116;114;111;108], [109;97;120;45;97;103;101;61;54;48;52;56;48;48]);
  ([99;97;99;104;101;45;99;111;110;116;114;111;108], [110;111;45;99;97;99;104;101]);
  ([99;97;99;104;101;45;99;111;110;116;114;111;108], [110;111;45;115;116;111;114;101]);
  ([99;97;99;104;101;45;99;111;110;116;114;111;108], [112;117;98;108;105;99;44;32;109;97;120;45;97;103;101;61;51;49;53;51;54;48;48;48]);
  ([99;111;110;116;101;110;116;45;101;110;99;111;100;105;110;103], [98;114]);
  ([99;111;110;116;101;110;116;45;101;110;99;111;100;105;110;103], [103;122;105;112]);
  ([99;111;110;116;101;110;116;45;116;121;112;101], [97;112;112;108;105;99;97;116;105;111;110;47;100;110;115;45;109;101;115;115;97;103;101]);
  ([99;111;110;116;101;110;116;45;116;121;112;101], [97;112;112;108;105;99;97;116;105;111;110;47;106;97;118;97;115;99;114;105;112;116]);
  ([99;111;110;116;101;110;116;45;116;121;112;101], [97;112;112;108;105;99;97;116;105;111;110;47;106;115;111;110]);
  ([99;111;110;116;101;110;116;45;116;121;112;101], [97;112;112;108;105;99;97;116;105;111;110;47;120;45;119;119;119;45;102;111;114;109;45;117;114;108;101;110;99;111;100;101;100]);
  ([99;111;110;116;101;110;116;45;116;121;112;101], [105;109;97;103;101;47;103;105;102]);
  ([99;111;110;116;101;110;116;45;116;121;112;101], [105;109;97;103;101;47;106;112;101;103]);
  ([99;111;110;116;101;110;116;45;116;121;112;101], [105;109;97;103;101;47;112;110;103]);
  ([99;111;110;116;101;110;116;45;116;121;112;101], [116;101;120;116;47;99;115;115]);
  ([99;111;110;116;101;110;116;45;116;121;112;101], [116;101;120;116;47;104;116;109;108;59;32;99;104;97;114;115;101;116;61;117;116;102;45;56]);
  ([99;111;110;116;101;110;116;45;116;121;112;101], [116;101;120;116;47;112;108;97;105;110]);
  ([99;111;110;116;101;110;116;45;116;121;112;101], [116;101;120;116;47;112;108;97;105;110;59;99;104;97;114;115;101;116;61;117;116;102;45;56]);
  ([114;97;110;103;101], [98;121;116;101;115;61;48;45]);
  ([115;116;114;105;99;116;45;116;114;97;110;115;112;111;114;116;45;115;101;99;117;114;105;116;121], [109;97;120;45;97;103;101;61;51;49;53;51;54;48;48;48]);
  ([115;116;114;105;99;116;45;116;114;97;110;115;112;111;114;116;45;115;101;99;117;114;105;116;121], [109;97;120;45;97;103;101;61;51;49;53;51;54;48;48;48;59;32;105;110;99;108;117;100;101;115;117;98;100;111;109;97;105;110;115]);
  ([115;116;114;105;99;116;45;116;114;97;110;115;112;111;114;116;45;115;101;99;117;114;105;116;121], [109;97;120;45;97;103;101;61;51;49;53;51;54;48;48;48;59;32;105;110;99;108;117;100;101;115;117;98;100;111;109;97;105;110;115;59;32;112;114;101;108;111;97;100]);
  ([118;97;114;121], [97;99;99;101;112;116;45;101;110;99;111;100;105;110;103]);
  ([118;97;114;121], [111;114;105;103;105;110]);
  ([120;45;99;111;110;116;101;110;116;45;116;121;112;101;45;111;112;116;105;111;110;115], [110;111;115;110;105;102;102]);
  ([120;45;120;115;115;45;112;114;111;116;101;99;116;105;111;110], [49;59;32;109;111;100;101;61;98;108;111;99;107]);
  ([58;115;116;97;116;117;115], [49;48;48]);
  ([58;115;116;97;116;117;115], [50;48;52]);
  ([58;115;116;97;116;117;115], [50;48;54]);
  ([58;115;116;97;116;117;115], [51;48;50]);
  ([58;115;116;97;116;117;115], [52;48;48]);
  ([58;115;116;97;116;117;115], [52;48;51]);
  ([58;115;116;97;116;117;115], [52;50;49]);
  ([58;115;116;97;116;117;115], [52;50;53]);
  ([58;115;116;97;116;117;115], [53;48;48]);
  ([97;99;99;101;112;116;45;108;97;110;103;117;97;103;101], []);
  ([97;99;99;101;115;115;45;99;111;110;116;114;111;108;45;97;108;108;111;119;45;99;114;101;100;101;110;116;105;97;108;115], [70;65;76;83;69]);
  ([97;99;99;101;115;115;45;99;111;110;116;114;111;108;45;97;108;108;111;119;45;99;114;101;100;101;110;116;105;97;108;115], [84;82;85;69]);
  ([97;99;99;101;115;115;45;99;111;110;116;114;111;108;45;97;108;108;111;119;45;104;101;97;100;101;114;115], [42]);
  ([97;99;99;101;115;115;45;99;111;110;116;114;111;108;45;97;108;108;111;119;45;109;101;116;104;111;100;115], [103;101;116]);
  ([97;99;99;101;115;115;45;99;111;110;116;114;111;108;45;97;108;108;111;119;45;109;101;116;104;111;100;115], [103;101;116;44;32;112;111;115;116;44;32;111;112;116;105;111;110;115]);
  ([97;99;99;101;115;115;45;99;111;110;116;114;111;108;45;97;108;108;111;119;45;109;101;116;104;111;100;115], [111;112;116;105;111;110;115]);
  ([97;99;99;101;115;115;45;99;111;110;116;114;111;108;45;101;120;112;111;115;101;45;104;101;97;100;101;114;115], [99;111;110;116;101;110;116;45;108;101;110;103;116;104]);
  ([97;99;99;101;115;115;45;99;111;110;116;114;111;108;45;114;101;113;117;101;115;116;45;104;101;97;100;101;114;115], [99;111;110;116;101;110;116;45;116;121;112;101]);
  ([97;99;99;101;115;115;45;99;111;110;116;114;111;108;45;114;101;113;117;101;115;116;45;109;101;116;104;111;100], [103;101;116]);
  ([97;99;99;101;115;115;45;99;111;110;116;114;111;108;45;114;101;113;117;101;115;116;45;109;101;116;104;111;100], [112;111;115;116]);
  ([97;108;116;45;115;118;99], [99;108;101;97;114]);
  ([97;117;116;104;111;114;105;122;97;116;105;111;110], []);
  ([99;111;110;116;101;110;116;45;115;101;99;117;114;105;116;121;45;112;111;108;105;99;121], [115;99;114;105;112;116;45;115;114;99;32;39;110;111;110;101;39;59;32;111;98;106;101;99;116;45;115;114;99;32;39;110;111;110;101;39;59;32;98;97;115;101;45;117;114;105;32;39;110;111;110;101;39]);
  ([101;97;114;108;121;45;100;97;116;97], [49]);
  ([101;120;112;101;99;116;45;99;116], []);
  ([102;111;114;119;97;114;100;101;100], []);
  ([105;102;45;114;97;110;103;101], []);
  ([111;114;105;103;105;110], []);
  ([112;117;114;112;111;115;101], [112;114;101;102;101;116;99;104]);
  ([115;101;114;118;101;114], []);
  ([116;105;109;105;110;103;45;97;108;108;111;119;45;111;114;105;103;105;110], [42]);
  ([117;112;103;114;97;100;101;45;105;110;115;101;99;117;114;101;45;114;101;113;117;101;115;116;115], [49]);
  ([117;115;101;114;45;97;103;101;110;116], []);
  ([120;45;102;111;114;119;97;114;100;101;100;45;102;111;114], []);
  ([120;45;102;114;97;109;101;45;111;112;116;105;111;110;115], [100;101;110;121]);
  ([120;45;102;114;97;109;101;45;111;112;116;105;111;110;115], [115;97;109;101;111;114;105;103;105;110])
].

Fixpoint table_nth (t : list rfield) (i : nat) : option rfield :=
  match t, i with
  | [], _ => None
  | f :: _, O => Some f
  | _ :: r, S k => table_nth r k
  end.

(* the entry with absolute index i of the static table; None: "a reference to an entry that does not exist" *)
Definition rfc_static (i : N) : option rfield :=
  if i <? 99 then table_nth rfc9204_static_table (N.to_nat i) else None.

(* ---------------------------------------------------------------- grammar *)

(* e is a complete RFC 7541 5.1 encoding of the integer v on an n-bit prefix, the bits of the first octet
   above the prefix being f (non-minimal encodings with trailing zero groups are encodings too) *)
Definition int_enc (n f v : N) (e : bytes) : Prop := rfc_pi_decode n e = Some (f, v, []).

Section Grammar.
  (* hs payload s : the Huffman-flagged payload stands for the string s *)
  Variable hs : bytes -> bytes -> Prop.

  (* 4.1.2 string literal whose length has an n-bit prefix; f = the bits of the first octet above the H bit *)
  Inductive str_lit (n f : N) : bytes -> bytes -> Prop :=
  | str_raw : forall s e, int_enc n (2 * f) (len s) e -> str_lit n f s (e ++ s)
  | str_huff : forall s p e, int_enc n (2 * f + 1) (len p) e -> hs p s -> str_lit n f s (e ++ p).

  Inductive field_line : rfield -> bytes -> Prop :=
  (* 4.5.2   1 T=1 index(6+) *)
  | fl_indexed : forall i f e,
      int_enc 6 3 i e -> rfc_static i = Some f -> field_line f e
  (* 4.5.4   0 1 N T=1 name-index(4+) ; H value-length(7+) ; value *)
  | fl_name_ref : forall nbit i entry e v sv,
      nbit < 2 -> int_enc 4 (5 + 2 * nbit) i e -> rfc_static i = Some entry -> str_lit 7 0 v sv ->
      field_line (fst entry, v) (e ++ sv)
  (* 4.5.6   0 0 1 N H name-length(3+) ; name ; H value-length(7+) ; value *)
  | fl_literal : forall nbit name sn v sv,
      nbit < 2 -> str_lit 3 (2 + nbit) name sn -> str_lit 7 0 v sv ->
      field_line (name, v) (sn ++ sv).

  Inductive field_lines : list rfield -> bytes -> Prop :=
  | fls_nil : field_lines [] []
  | fls_cons : forall f fs l ls, field_line f l -> field_lines fs ls -> field_lines (f :: fs) (l ++ ls).

  (* 4.5.1: Required Insert Count = 0 (no dynamic entry is needed), S = 0 so that Base = 0 + Delta Base >= 0
     ("the value of Base MUST NOT be negative") *)
  Definition section_g (fs : list rfield) (bs : bytes) : Prop :=
    exists e1 e2 delta ls,
      bs = e1 ++ e2 ++ ls /\ int_enc 8 0 0 e1 /\ int_enc 7 0 delta e2 /\ field_lines fs ls.
End Grammar.

(* RFC 7541 5.2, strictly *)
Definition hs_strict (p s : bytes) : Prop := valid_huff (bits_of_bytes p) s.
(* ... plus the class of the open known finding F15b *)
Definition hs_lax (p s : bytes) : Prop := hs_strict p s \/ LongOnesResult p s.
(* ... the lax reading in which no payload is in the known class *)
Definition hs_outside (p s : bytes) : Prop := hs_lax p s /\ ~ LongOnes p.

(* THE specification: bs is an RFC 9204 encoding of the field list fs that uses no dynamic table *)
Definition section (fs : list rfield) (bs : bytes) : Prop := section_g hs_strict fs bs.

(* "no Huffman-coded string literal of bs is in the known class": whenever bs parses in the lax reading,
   it parses with every Huffman payload outside LongOnes *)
Definition no_known_huffman (bs : bytes) : Prop :=
  forall fs, section_g hs_lax fs bs -> section_g hs_outside fs bs.

(* ---------------------------------------------------------------- executable reference decoder *)

Section Reference.
  Variable idec : N -> bytes -> option (N * N * bytes).      (* prefixed integer reader *)
  Variable hdec : bytes -> option bytes.                     (* Huffman payload decoder *)

  (* string literal with an n-bit length prefix: (string, rest) *)
  Definition ref_string (n : N) (bs : bytes) : option (bytes * bytes) :=
    match idec n bs with
    | None => None
    | Some (f, l, r) =>
        if len r <? l then None
        else
          let p := firstn (N.to_nat l) r in
          let rest := skipn (N.to_nat l) r in
          if f mod 2 =? 0 then Some (p, rest)
          else match hdec p with
               | Some s => Some (s, rest)
               | None => None
               end
    end.

  Definition ref_line (bs : bytes) : option (rfield * bytes) :=
    match bs with
    | [] => None
    | b :: _ =>
        if 128 <=? b then
          (* 1 T index(6+): only T = 1 can be resolved without a dynamic table *)
          match idec 6 bs with
          | Some (f, i, r) =>
              if f =? 3 then match rfc_static i with Some fl => Some (fl, r) | None => None end
              else None
          | None => None
          end
        else if 64 <=? b then
          (* 0 1 N T name-index(4+) *)
          match idec 4 bs with
          | Some (f, i, r) =>
              if f mod 2 =? 1 then
                match rfc_static i with
                | Some fl => match ref_string 7 r with
                             | Some (v, r') => Some ((fst fl, v), r')
                             | None => None
                             end
                | None => None
                end
              else None
          | None => None
          end
        else if 32 <=? b then
          (* 0 0 1 N H name-length(3+) *)
          match ref_string 3 bs with
          | Some (name, r) => match ref_string 7 r with
                              | Some (v, r') => Some ((name, v), r')
                              | None => None
                              end
          | None => None
          end
        else None      (* 0 0 0 1 ... / 0 0 0 0 ...: post-base forms exist only with a dynamic table *)
    end.

  Fixpoint ref_lines (fuel : nat) (bs : bytes) : option (list rfield) :=
    match bs with
    | [] => Some []
    | _ :: _ =>
        match fuel with
        | O => None
        | S k => match ref_line bs with
                 | Some (f, r) => match ref_lines k r with
                                  | Some fs => Some (f :: fs)
                                  | None => None
                                  end
                 | None => None
                 end
        end
    end.

  Definition ref_section (bs : bytes) : option (list rfield) :=
    match idec 8 bs with
    | Some (_, ric, r) =>
        if ric =? 0 then
          match idec 7 r with
          | Some (s, _, r2) => if s =? 0 then ref_lines (length r2) r2 else None
          | None => None
          end
        else None
    | None => None
    end.
End Reference.

(* the oracle: RFC integers (unbounded), RFC Huffman (strict) *)
Definition rfc_decode_static : bytes -> option (list rfield) := ref_section rfc_pi_decode rfc_huff_decode.

(* ---- variants used by the correspondence check to classify a disagreement, never as the verdict ---- *)

(* integers an implementation must accept (RFC 9204 4.1.1: up to 62 bits): here, at most 9 continuation octets *)
Definition bounded_pi_decode (n : N) (bs : bytes) : option (N * N * bytes) :=
  match bs with
  | [] => None
  | b0 :: r => if (b0 mod 2 ^ n =? 2 ^ n - 1) && Nat.leb 9 (cont_run r) then None else rfc_pi_decode n bs
  end.
Definition rfc_decode_static_bounded : bytes -> option (list rfield) := ref_section bounded_pi_decode rfc_huff_decode.

(* strict decoding extended by the documented behaviour inside the known class F15b *)
Definition lax_huff_decode (p : bytes) : option bytes :=
  match rfc_huff_decode p with
  | Some s => Some s
  | None => if long_ones_b p then Some (long_ones_result p) else None
  end.
Definition rfc_decode_static_lax : bytes -> option (list rfield) := ref_section bounded_pi_decode lax_huff_decode.
