(* RFC 7541 section 5.1 (used unchanged by RFC 9204 4.1.1): integer representation with an
   N-bit prefix.  Everything here is in unbounded naturals, so nothing can wrap.

     decode I from the next N bits
     if I < 2^N - 1, return I
     else M = 0
          repeat B = next octet; I = I + (B & 127) * 2^M; M = M + 7
          while B & 128 == 128
          return I                                                                  *)
From H3V Require Import Base.Bytes.

(* value of the continuation octets: sum of (B mod 128) * 2^(7k); None when the octets end
   while the continuation bit is still set.  Also returns the unread rest. *)
Fixpoint rfc_pi_cont (bs : bytes) (m : N) : option (N * bytes) :=
  match bs with
  | [] => None
  | b :: r =>
      if b / 128 =? 0 then Some ((b mod 128) * 2 ^ m, r)
      else match rfc_pi_cont r (m + 7) with
           | Some (v, rest) => Some ((b mod 128) * 2 ^ m + v, rest)
           | None => None
           end
  end.

(* decode an integer with an [n]-bit prefix (1 <= n <= 8): (flag bits above the prefix, value, rest);
   None = the encoding is truncated *)
Definition rfc_pi_decode (n : N) (bs : bytes) : option (N * N * bytes) :=
  match bs with
  | [] => None
  | b0 :: r =>
      let i := b0 mod 2 ^ n in
      let flags := b0 / 2 ^ n in
      if i <? 2 ^ n - 1 then Some (flags, i, r)
      else match rfc_pi_cont r 0 with
           | Some (v, rest) => Some (flags, i + v, rest)
           | None => None
           end
  end.

(* number of continuation octets that carry the continuation bit at the front of [bs] *)
Fixpoint cont_run (bs : bytes) : nat :=
  match bs with
  | b :: r => if b / 128 =? 0 then O else S (cont_run r)
  | [] => O
  end.

(*   if I < 2^N - 1, encode I on N bits
     else encode (2^N - 1) on N bits; I = I - (2^N - 1)
          while I >= 128: encode (I % 128 + 128) on 8 bits; I = I / 128
          encode I on 8 bits                                                          *)
Fixpoint rfc_pi_tail (fuel : nat) (i : N) : bytes :=
  match fuel with
  | O => [i]
  | S f => if i <? 128 then [i] else (i mod 128 + 128) :: rfc_pi_tail f (i / 128)
  end.

Definition rfc_pi_encode (n flags i : N) : bytes :=
  let top := flags * 2 ^ n in
  if i <? 2 ^ n - 1 then [top + i]
  else (top + (2 ^ n - 1)) :: rfc_pi_tail (N.to_nat (N.size i)) (i - (2 ^ n - 1)).
