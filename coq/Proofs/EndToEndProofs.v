(* C01: the composition argument, proved once for any layers that satisfy their round-trip laws.
   Each law is the theorem of the property that owns the layer; here they are Section hypotheses, i.e. explicit
   premises of the closed theorem [e2e_fidelity_generic]. *)
From H3V Require Import Base.Bytes Base.BytesLemmas Model.EndToEnd Spec.EndToEndSpec.

(* ---------- body merging ---------- *)
Definition not_body {H' T'} (e : aevent H' T') : Prop := match e with ABody _ => False | _ => True end.

Lemma merge_body_flush {H' T'} (acc : bytes) (l : list (aevent H' T')) :
  merge_body [] (flush_body acc ++ l) = merge_body acc l.
Proof. destruct acc; reflexivity. Qed.

Lemma merge_body_pass {H' T'} (xs rest : list (aevent H' T')) :
  Forall not_body xs -> merge_body [] (xs ++ rest) = xs ++ merge_body [] rest.
Proof.
  induction 1 as [|x xs Hx Hxs IH]; [reflexivity|].
  cbn [app]. destruct x; cbn in Hx; try contradiction; cbn [merge_body flush_body app]; now rewrite IH.
Qed.

Lemma merge_body_cons_nb {H' T'} acc (x : aevent H' T') l :
  not_body x -> merge_body acc (x :: l) = flush_body acc ++ x :: merge_body [] l.
Proof. destruct x; cbn; try contradiction; reflexivity. Qed.

Section Generic.
  Variables H H' T T' : Type.
  Variable fields_of_head : H -> option fieldl.
  Variable head_of_fields : fieldl -> option H'.
  Variable fields_of_trailers : T -> option fieldl.
  Variable trailers_of_fields : fieldl -> option T'.
  Variable encode_section : fieldl -> option bytes.
  Variable decode_section : bytes -> option fieldl.
  Variable wire_write : list sframe -> list N -> option bytes.
  Variable rstate : Type.
  Variable r_init : rstate.
  Variable r_arrive : bytes -> rstate -> rstate.
  Variable r_fin : rstate -> rstate.
  Variable r_poll : rstate -> list ritem * rstate.
  Variable r_done : rstate -> bool.

  (* the specification side *)
  Variable norm_h : H -> H'.
  Variable norm_t : T -> T'.
  Variable head_ok : H -> Prop.            (* the heads the property speaks about *)
  Variable trailers_ok : T -> Prop.
  Variable fields_ok : fieldl -> Prop.     (* the field lists the codec is specified for *)
  Variable block_ok : bytes -> Prop.       (* the payloads the frame layer is specified for *)
  Variable frame_bytes : sframe -> bytes.  (* RFC 9114 7.1 layout of one frame *)
  Variable stream_outcome : bytes -> list ritem.   (* RFC-level reading of a finished request stream *)

  Definition frame_ok (f : sframe) : Prop :=
    match f with SHeaders b => block_ok b | SData p => block_ok p | SGrease g => g < 148764065110560899 end.

  (* C12: the header mapping round trip *)
  Hypothesis H_head : forall h fs, head_ok h -> fields_of_head h = Some fs ->
    fields_ok fs /\ head_of_fields fs = Some (norm_h h).
  Hypothesis H_trailers : forall t fs, trailers_ok t -> fields_of_trailers t = Some fs ->
    fields_ok fs /\ trailers_of_fields fs = Some (norm_t t).
  (* C11: decode_stateless (encode_stateless fs) = fs *)
  Hypothesis H_section : forall fs b, fields_ok fs -> encode_section fs = Some b ->
    block_ok b /\ decode_section b = Some fs.
  (* C14: whatever the acceptance script, the bytes accepted are the frames' layouts back to back *)
  Hypothesis H_write : forall fs ks b, Forall frame_ok fs -> wire_write fs ks = Some b -> b = concat (map frame_bytes fs).
  (* C02 + C03: whatever the chunking and the interleaving of arrivals and calls, once the calls have completed
     the items handed up are the RFC reading of the flat byte string (body pieces up to concatenation) - asked
     only for streams whose reading has no error item (what happens on malformed streams is C02/C03's subject) *)
  Hypothesis H_read : forall h items s, hist_ok h = true -> rx_run rstate r_arrive r_fin r_poll h r_init = (items, s) ->
    r_done s = true -> wf_bytes (hist_flat h) -> no_fail (stream_outcome (hist_flat h)) ->
    merge_items [] items = stream_outcome (hist_flat h).
  (* the layout of a frame with byte-valued payload consists of bytes *)
  Hypothesis H_frame_wf : forall f, frame_ok f -> wf_bytes (frame_bytes f).
  (* RFC 9114 7.1 / 4.1: reading back HEADERS DATA* HEADERS? (reserved-type frame)? *)
  Hypothesis H_frames : forall hb pieces tb g,
    block_ok hb -> Forall block_ok pieces -> match tb with Some b => block_ok b | None => True end ->
    match g with Some x => x < 148764065110560899 | None => True end ->
    stream_outcome (concat (map frame_bytes (SHeaders hb :: map SData pieces ++
        match tb with Some b => [SHeaders b] | None => [] end ++
        match g with Some x => [SGrease x] | None => [] end)))
    = RFirst hb :: flush_items (concat pieces) ++ [RDataEnd; RTrailers tb].

  Notation app_ev := (app_event H' T' head_of_fields trailers_of_fields decode_section).

  Lemma app_event_not_body i : (forall p, i <> RData p) -> Forall not_body (app_ev i).
  Proof.
    intros Hi. destruct i as [b|p| |[b|]|w]; cbn [app_event].
    - destruct (decode_section b) as [fs|]; [destruct (head_of_fields fs)|]; repeat constructor.
    - exfalso. now apply (Hi p).
    - repeat constructor.
    - destruct (decode_section b) as [fs|]; [destruct (trailers_of_fields fs)|]; repeat constructor.
    - repeat constructor.
    - repeat constructor.
  Qed.

  Lemma app_event_nonempty i : (forall p, i <> RData p) -> exists x xs, app_ev i = x :: xs.
  Proof.
    intros Hi. destruct i as [b|p| |[b|]|w]; cbn [app_event]; try (eexists; eexists; reflexivity).
    - destruct (decode_section b) as [fs|]; [destruct (head_of_fields fs)|]; eexists; eexists; reflexivity.
    - destruct (decode_section b) as [fs|]; [destruct (trailers_of_fields fs)|]; eexists; eexists; reflexivity.
  Qed.

  Lemma merge_body_nb_block acc i rest : (forall p, i <> RData p) ->
    merge_body acc (app_ev i ++ rest) = flush_body acc ++ app_ev i ++ merge_body [] rest.
  Proof.
    intros Hnb. pose proof (app_event_not_body i Hnb) as Hf.
    destruct (app_event_nonempty i Hnb) as (x & xs & Hx). rewrite Hx in *.
    inversion Hf as [|? ? Hx1 Hxs]; subst.
    cbn [app]. rewrite (merge_body_cons_nb acc x _ Hx1), (merge_body_pass xs _ Hxs). reflexivity.
  Qed.

  Lemma flat_map_flush acc : flat_map app_ev (flush_items acc) = flush_body acc.
  Proof. destruct acc; reflexivity. Qed.

  (* merging body pieces before or after the message layer is the same *)
  Lemma merge_commute items : forall acc,
    merge_body acc (flat_map app_ev items) = merge_body [] (flat_map app_ev (merge_items acc items)).
  Proof.
    induction items as [|i items IH]; intros acc.
    - cbn [flat_map merge_items merge_body]. destruct acc; reflexivity.
    - assert (Hgen : (forall p, i <> RData p) ->
                     merge_body acc (flat_map app_ev (i :: items)) =
                     merge_body [] (flat_map app_ev (flush_items acc ++ i :: merge_items [] items))).
      { intros Hnb. rewrite flat_map_app, flat_map_flush, merge_body_flush.
        change (flat_map app_ev (i :: ?l)) with (app_ev i ++ flat_map app_ev l).
        rewrite !(merge_body_nb_block acc i _ Hnb). now rewrite <- IH. }
      destruct i as [b|p| |tb|w]; cbn [merge_items];
        try (apply Hgen; intros; discriminate).
      cbn [flat_map app_event app merge_body]. apply IH.
  Qed.

  Lemma encode_fields_inv o b : encode_fields encode_section o = Some b -> exists fs, o = Some fs /\ encode_section fs = Some b.
  Proof. destruct o as [fs|]; cbn; [eauto|discriminate]. Qed.

  Lemma frames_ok hb pieces tb g :
    block_ok hb -> Forall block_ok pieces -> match tb with Some b => block_ok b | None => True end ->
    match g with Some x => x < 148764065110560899 | None => True end ->
    Forall frame_ok (SHeaders hb :: map SData pieces ++
                     match tb with Some b => SHeaders b :: match g with Some x => [SGrease x] | None => [] end
                              | None => match g with Some x => [SGrease x] | None => [] end end).
  Proof.
    intros Hb Hp Ht Hg. constructor; [exact Hb|]. apply Forall_app. split.
    - induction Hp; cbn [map]; constructor; assumption.
    - destruct tb as [b|]; destruct g as [x|]; repeat constructor; assumption.
  Qed.

  (* ---------- the composition ---------- *)
  Lemma frames_wf fs : Forall frame_ok fs -> wf_bytes (concat (map frame_bytes fs)).
  Proof.
    induction 1 as [|f fs Hf _ IH]; [constructor|]. cbn [map concat]. apply wf_bytes_app. split; [apply H_frame_wf; exact Hf|exact IH].
  Qed.

  Lemma no_fail_expected hb pieces tb :
    no_fail (RFirst hb :: flush_items (concat pieces) ++ [RDataEnd; RTrailers tb]).
  Proof. unfold no_fail. destruct (concat pieces); repeat constructor. Qed.

  Theorem e2e_fidelity_generic :
    forall (grease : option N) (m : message H T) (ks : list N) (b : bytes) (h : list hevent) items s,
      head_ok (m_head m) -> Forall block_ok (m_pieces m) ->
      match m_trailers m with Some t => trailers_ok t | None => True end ->
      match grease with Some g => g < 148764065110560899 | None => True end ->
      (* the sender's bytes under acceptance script ks *)
      wire H T fields_of_head fields_of_trailers encode_section wire_write grease m ks = Some b ->
      (* reach the receiver under history h: any chunking of b, FIN, the application's calls interleaved anyhow *)
      hist_ok h = true -> hist_flat h = b ->
      rx_run rstate r_arrive r_fin r_poll h r_init = (items, s) -> r_done s = true ->
      receiver_outcome H' T' head_of_fields trailers_of_fields decode_section rstate r_init r_arrive r_fin r_poll h
      = expected_events norm_h norm_t m.
  Proof.
    intros grease m ks b h items s Hh Hp Ht Hg Hw Hok Hflat Hrun Hdone.
    unfold receiver_outcome. rewrite Hrun. cbn [fst]. rewrite merge_commute.
    unfold wire, sender_program in Hw.
    destruct (encode_fields encode_section (fields_of_head (m_head m))) as [hb|] eqn:Ehb; [|discriminate].
    apply encode_fields_inv in Ehb. destruct Ehb as (hfs & Ehf & Ehb).
    destruct (H_head _ _ Hh Ehf) as [Hfok Hhead].
    destruct (H_section _ _ Hfok Ehb) as [Hbok Hdec].
    assert (Hfirst : app_ev (RFirst hb) = [AHead (norm_h (m_head m))])
      by (cbn [app_event]; now rewrite Hdec, Hhead).
    assert (Hfl : flat_map app_ev (flush_items (concat (m_pieces m))) = flush_body (concat (m_pieces m)))
      by (destruct (concat (m_pieces m)); reflexivity).
    unfold expected_events.
    destruct (m_trailers m) as [t|] eqn:Etr.
    - destruct (encode_fields encode_section (fields_of_trailers t)) as [tb|] eqn:Etb; [|discriminate].
      apply encode_fields_inv in Etb. destruct Etb as (tfs & Etf & Etb).
      destruct (H_trailers _ _ Ht Etf) as [Htok Htrl].
      destruct (H_section _ _ Htok Etb) as [Htbok Htdec].
      pose proof (frames_ok hb (m_pieces m) (Some tb) grease Hbok Hp Htbok Hg) as Hfok2.
      apply H_write in Hw; [|exact Hfok2]. subst b.
      pose proof (frames_wf _ Hfok2) as Hwfb. cbv iota beta in Hwfb.
      pose proof (H_frames hb (m_pieces m) (Some tb) grease Hbok Hp Htbok Hg) as Hfr.
      cbn [app] in Hfr.
      rewrite <- Hflat in Hfr, Hwfb.
      rewrite (H_read h items s Hok Hrun Hdone Hwfb) by (rewrite Hfr; apply no_fail_expected).
      rewrite Hfr.
      change (flat_map app_ev (RFirst hb :: ?l)) with (app_ev (RFirst hb) ++ flat_map app_ev l).
      rewrite Hfirst, flat_map_app, Hfl. cbn [flat_map app_event app]. rewrite Htdec, Htrl. cbn [app merge_body flush_body].
      destruct (concat (m_pieces m)); reflexivity.
    - pose proof (frames_ok hb (m_pieces m) None grease Hbok Hp I Hg) as Hfok2.
      apply H_write in Hw; [|exact Hfok2]. subst b.
      pose proof (frames_wf _ Hfok2) as Hwfb. cbv iota beta in Hwfb.
      pose proof (H_frames hb (m_pieces m) None grease Hbok Hp I Hg) as Hfr.
      cbn [app] in Hfr.
      rewrite <- Hflat in Hfr, Hwfb.
      rewrite (H_read h items s Hok Hrun Hdone Hwfb) by (rewrite Hfr; apply no_fail_expected).
      rewrite Hfr.
      change (flat_map app_ev (RFirst hb :: ?l)) with (app_ev (RFirst hb) ++ flat_map app_ev l).
      rewrite Hfirst, flat_map_app, Hfl. cbn [flat_map app_event app merge_body flush_body].
      destruct (concat (m_pieces m)); reflexivity.
  Qed.
End Generic.
