(* Auxiliary lemmas for C13: list helpers, the reference varint parser against the model's decoder,
   fuel independence of the reference SETTINGS parser, serialise-then-parse of the reference. *)
From H3V Require Import Base.Bytes Base.BytesLemmas Gen.GenVarint Spec.RFC9000 Spec.RFC9114Settings
  Model.Varint Proofs.VarintProofs.
From Coq Require Import ZifyBool ZifyNat ZifyN.
Ltac Zify.zify_post_hook ::= Z.div_mod_to_equations.

(* ---------- membership ---------- *)
Lemma rfc_in_In x l : rfc_in x l = true <-> In x l.
Proof.
  unfold rfc_in. rewrite existsb_exists. split.
  - intros (y & Hy & E). apply N.eqb_eq in E. subst. exact Hy.
  - intros H. exists x. split; [exact H|apply N.eqb_refl].
Qed.

Lemma rfc_in_false x l : rfc_in x l = false <-> ~ In x l.
Proof.
  rewrite <- rfc_in_In. destruct (rfc_in x l); split; intros H; try congruence; try tauto.
Qed.

Lemma rfc_in_ext x l1 l2 : (forall y, In y l1 <-> In y l2) -> rfc_in x l1 = rfc_in x l2.
Proof.
  intros H. destruct (rfc_in x l2) eqn:E.
  - apply rfc_in_In. apply H. apply rfc_in_In. exact E.
  - apply rfc_in_false. intros Hin. apply H in Hin. apply rfc_in_In in Hin. congruence.
Qed.

Lemma rfc_has_dup_NoDup l : rfc_has_dup l = false <-> NoDup l.
Proof.
  induction l as [|x l IH]; cbn [rfc_has_dup].
  - split; [constructor|reflexivity].
  - rewrite orb_false_iff, rfc_in_false, IH. split.
    + intros [H1 H2]. constructor; assumption.
    + intros H. inversion H; subst. split; assumption.
Qed.

Lemma rfc_has_dup_app_In x a b : In x a -> rfc_has_dup (a ++ x :: b) = true.
Proof.
  intros H. destruct (rfc_has_dup (a ++ x :: b)) eqn:E; [reflexivity|].
  apply rfc_has_dup_NoDup in E. apply NoDup_remove_2 in E. exfalso. apply E.
  apply in_or_app. left. exact H.
Qed.

Lemma NoDup_app_snoc {A} (l : list A) x : NoDup l -> ~ In x l -> NoDup (l ++ [x]).
Proof.
  induction l as [|y l IH]; intros Hnd Hn; cbn [app].
  - constructor; [intros []|constructor].
  - inversion Hnd; subst. constructor.
    + intros Hin. apply in_app_or in Hin as [Hin|[<-|[]]]; [contradiction|]. apply Hn. left. reflexivity.
    + apply IH; [assumption|]. intros Hin. apply Hn. right. exact Hin.
Qed.

(* ---------- assoc ---------- *)
Lemma assoc_app_none {V} k (a b : list (N * V)) : assoc k a = None -> assoc k (a ++ b) = assoc k b.
Proof.
  induction a as [|[k' v] a IH]; cbn [assoc app]; [reflexivity|].
  destruct (k =? k'); [discriminate|exact IH].
Qed.

Lemma assoc_app_some {V} k (a b : list (N * V)) v : assoc k a = Some v -> assoc k (a ++ b) = Some v.
Proof.
  induction a as [|[k' v'] a IH]; cbn [assoc app]; [discriminate|].
  destruct (k =? k'); [auto|exact IH].
Qed.

Lemma assoc_repeat_ne {V} k k' (v : V) n : k <> k' -> assoc k (repeat (k', v) n) = None.
Proof.
  intros Hne. induction n as [|n IH]; cbn [repeat assoc]; [reflexivity|].
  destruct (N.eqb_spec k k'); [contradiction|exact IH].
Qed.

Lemma assoc_filter_key {V} (P : N -> bool) k (l : list (N * V)) :
  P k = true -> assoc k (filter (fun p => P (fst p)) l) = assoc k l.
Proof.
  intros HP. induction l as [|[k' v] l IH]; cbn [filter assoc fst]; [reflexivity|].
  destruct (N.eqb_spec k k') as [->|Hne].
  - rewrite HP. cbn [assoc]. rewrite N.eqb_refl. reflexivity.
  - destruct (P k'); [cbn [assoc]; destruct (N.eqb_spec k k'); [contradiction|exact IH]|exact IH].
Qed.

Lemma assoc_In_none {V} k (l : list (N * V)) : ~ In k (map fst l) -> assoc k l = None.
Proof.
  induction l as [|[k' v] l IH]; cbn [assoc map fst]; [reflexivity|].
  intros H. destruct (N.eqb_spec k k') as [->|Hne]; [exfalso; apply H; left; reflexivity|].
  apply IH. intros Hin. apply H. right. exact Hin.
Qed.

(* ---------- the four varint lengths ---------- *)
Lemma rfc_vi_len_cases b0 : b0 < 256 ->
  rfc_vi_len b0 = 1 \/ rfc_vi_len b0 = 2 \/ rfc_vi_len b0 = 4 \/ rfc_vi_len b0 = 8.
Proof.
  intros Hb. unfold rfc_vi_len.
  assert (Ht : b0 / 64 = 0 \/ b0 / 64 = 1 \/ b0 / 64 = 2 \/ b0 / 64 = 3) by lia.
  destruct Ht as [-> | [-> | [-> | ->]]]; vm_compute; auto.
Qed.

Lemma rfc_vi_len_pos b0 : 1 <= rfc_vi_len b0.
Proof.
  unfold rfc_vi_len. assert (0 < 2 ^ (b0 / 64)) by (apply N.neq_0_lt_0, N.pow_nonzero; lia). lia.
Qed.

(* ---------- the reference varint parser ---------- *)
Lemma rfc_varint_shape bs v r : rfc_varint bs = Some (v, r) ->
  exists b0 t, bs = b0 :: t /\ rfc_vi_len b0 <= len bs /\
    v = rfc_vi_value (firstn (N.to_nat (rfc_vi_len b0)) bs) /\ r = skipn (N.to_nat (rfc_vi_len b0)) bs.
Proof.
  unfold rfc_varint. destruct bs as [|b0 t]; [discriminate|].
  destruct (N.ltb_spec (len (b0 :: t)) (rfc_vi_len b0)) as [Hlt|Hge]; [discriminate|].
  intros E. inversion E; subst. exists b0, t. auto.
Qed.

Lemma rfc_varint_shorter bs v r : rfc_varint bs = Some (v, r) -> (length r < length bs)%nat.
Proof.
  intros H. apply rfc_varint_shape in H as (b0 & t & -> & Hl & _ & ->).
  rewrite skipn_length. pose proof (rfc_vi_len_pos b0). unfold len in Hl. cbn [length] in *. lia.
Qed.

Lemma rfc_varint_wf bs v r : wf_bytes bs -> rfc_varint bs = Some (v, r) -> wf_bytes r /\ v < 2 ^ 62.
Proof.
  intros Hwf H. apply rfc_varint_shape in H as (b0 & t & -> & Hl & -> & ->).
  split; [apply wf_bytes_skipn; exact Hwf|].
  pose proof Hwf as Hwf'. apply wf_bytes_cons in Hwf' as [Hb _].
  unfold rfc_vi_value.
  set (e := firstn (N.to_nat (rfc_vi_len b0)) (b0 :: t)).
  assert (Hle : len e = rfc_vi_len b0).
  { unfold e, len. rewrite firstn_length. unfold len in Hl. lia. }
  rewrite Hle.
  assert (Hp : 2 ^ (8 * rfc_vi_len b0 - 2) <= 2 ^ 62).
  { apply N.pow_le_mono_r; [lia|]. destruct (rfc_vi_len_cases b0 Hb) as [-> | [-> | [-> | ->]]]; lia. }
  assert (Hm : be_value e mod 2 ^ (8 * rfc_vi_len b0 - 2) < 2 ^ (8 * rfc_vi_len b0 - 2)).
  { apply N.mod_lt. apply N.pow_nonzero. lia. }
  lia.
Qed.

(* the model's decoder reads what the reference reads *)
Lemma vi_decode_rfc_some bs v r : wf_bytes bs -> rfc_varint bs = Some (v, r) -> vi_decode bs = (Ok v, r).
Proof.
  intros Hwf H. apply rfc_varint_shape in H as (b0 & t & -> & Hl & -> & ->).
  apply vi_decode_complete; assumption.
Qed.

Lemma vi_decode_rfc_none bs : wf_bytes bs -> rfc_varint bs = None -> exists e r, vi_decode bs = (Err e, r).
Proof.
  intros Hwf H. destruct bs as [|b0 t].
  - exists 0, []. reflexivity.
  - unfold rfc_varint in H.
    destruct (N.ltb_spec (len (b0 :: t)) (rfc_vi_len b0)) as [Hlt|Hge]; [|discriminate].
    apply wf_bytes_cons in Hwf as [Hb _].
    exists (tag_of b0), t. apply vi_decode_truncated; assumption.
Qed.

(* ---------- serialising then parsing one integer ---------- *)
Lemma rfc_varint_rfc_vi x r : x < 2 ^ 62 -> rfc_varint (rfc_vi x ++ r) = Some (x, r).
Proof.
  intros Hx. unfold rfc_vi.
  destruct (shortest_cases x Hx) as [Hl Hb].
  destruct (rfc_enc_head (rfc_vi_shortest x) x Hl Hb) as (b0 & t & He & Hlen & Hval).
  assert (Hlt : length (b0 :: t) = N.to_nat (rfc_vi_shortest x)) by (rewrite <- He; apply rfc_vi_enc_length).
  rewrite He in *. cbn [app]. unfold rfc_varint.
  change (b0 :: t ++ r) with ((b0 :: t) ++ r).
  rewrite Hlen.
  destruct (N.ltb_spec (len ((b0 :: t) ++ r)) (rfc_vi_shortest x)) as [Hc|_].
  { rewrite len_app in Hc. unfold len in Hc. lia. }
  rewrite <- Hlt. rewrite firstn_app_exact, skipn_app_exact, Hval. reflexivity.
Qed.

Lemma rfc_vi_wf x : wf_bytes (rfc_vi x).
Proof. apply rfc_vi_enc_wf. Qed.

Lemma rfc_vi_len_eq x : len (rfc_vi x) = rfc_vi_shortest x.
Proof. unfold len, rfc_vi. rewrite rfc_vi_enc_length. lia. Qed.

Lemma rfc_vi_len_bounds x : 1 <= len (rfc_vi x) <= 8.
Proof.
  rewrite rfc_vi_len_eq. unfold rfc_vi_shortest.
  destruct (x <? 2 ^ 6); [lia|]. destruct (x <? 2 ^ 14); [lia|]. destruct (x <? 2 ^ 30); lia.
Qed.

Lemma rfc_vi_small x : x < 64 -> rfc_vi x = [x].
Proof.
  intros Hx. unfold rfc_vi, rfc_vi_shortest.
  destruct (N.ltb_spec x (2 ^ 6)) as [_|H]; [|change (2 ^ 6) with 64 in H; lia].
  unfold rfc_vi_enc. change (rfc_vi_prefix 1) with 0. change (N.to_nat 1) with 1%nat.
  cbn [be_bytes app]. f_equal. rewrite N.mod_small by lia. lia.
Qed.

Lemma vi_encode_rfc x : x < 2 ^ 62 -> vi_encode x = Some (rfc_vi x).
Proof. apply vi_encode_shortest. Qed.

(* ---------- the reference SETTINGS parser does not depend on its fuel ---------- *)
Lemma rfc_entries_fuel f1 : forall f2 bs,
  (length bs <= f1)%nat -> (length bs <= f2)%nat -> rfc_entries f1 bs = rfc_entries f2 bs.
Proof.
  induction f1 as [|f1 IH]; intros f2 bs H1 H2.
  - destruct bs; [destruct f2; reflexivity|cbn in H1; lia].
  - destruct bs as [|b0 t]; [destruct f2; reflexivity|].
    destruct f2 as [|f2]; [cbn in H2; lia|].
    cbn [rfc_entries].
    destruct (rfc_varint (b0 :: t)) as [[id r1]|] eqn:E1; [|reflexivity].
    destruct (rfc_varint r1) as [[v r2]|] eqn:E2; [|reflexivity].
    apply rfc_varint_shorter in E1. apply rfc_varint_shorter in E2.
    rewrite (IH f2 r2); [reflexivity| |]; lia.
Qed.

Lemma rfc_settings_nil : rfc_settings [] = Some [].
Proof. reflexivity. Qed.

Lemma rfc_settings_step bs id r1 v r2 :
  rfc_varint bs = Some (id, r1) -> rfc_varint r1 = Some (v, r2) ->
  rfc_settings bs = match rfc_settings r2 with Some l => Some ((id, v) :: l) | None => None end.
Proof.
  intros E1 E2. unfold rfc_settings.
  pose proof (rfc_varint_shorter _ _ _ E1) as L1. pose proof (rfc_varint_shorter _ _ _ E2) as L2.
  destruct bs as [|b0 t]; [discriminate|].
  cbn [length rfc_entries]. rewrite E1, E2.
  rewrite (rfc_entries_fuel (length t) (length r2) r2); [reflexivity| |]; cbn [length] in *; lia.
Qed.

Lemma rfc_settings_cut1 bs : bs <> [] -> rfc_varint bs = None -> rfc_settings bs = None.
Proof.
  intros Hne E. unfold rfc_settings. destruct bs as [|b0 t]; [contradiction|].
  cbn [length rfc_entries]. rewrite E. reflexivity.
Qed.

Lemma rfc_settings_cut2 bs id r1 : rfc_varint bs = Some (id, r1) -> rfc_varint r1 = None -> rfc_settings bs = None.
Proof.
  intros E1 E2. unfold rfc_settings. destruct bs as [|b0 t]; [discriminate|].
  cbn [length rfc_entries]. rewrite E1, E2. reflexivity.
Qed.

(* ---------- serialise then parse ---------- *)
Definition pair_ok (p : N * N) : Prop := fst p < 2 ^ 62 /\ snd p < 2 ^ 62.

Lemma rfc_settings_payload_wf l : wf_bytes (rfc_settings_payload l).
Proof.
  induction l as [|[id v] l IH]; cbn [rfc_settings_payload]; [constructor|].
  apply wf_bytes_app; split; [apply rfc_vi_wf|]. apply wf_bytes_app; split; [apply rfc_vi_wf|exact IH].
Qed.

Theorem rfc_settings_payload_parses l : Forall pair_ok l -> rfc_settings (rfc_settings_payload l) = Some l.
Proof.
  induction l as [|[id v] l IH]; intros H; [reflexivity|].
  inversion H as [|? ? [Hid Hv] Hl]; subst. cbn [fst snd] in *.
  cbn [rfc_settings_payload].
  rewrite (rfc_settings_step _ id (rfc_vi v ++ rfc_settings_payload l) v (rfc_settings_payload l)).
  - rewrite IH by exact Hl. reflexivity.
  - apply rfc_varint_rfc_vi. exact Hid.
  - apply rfc_varint_rfc_vi. exact Hv.
Qed.
