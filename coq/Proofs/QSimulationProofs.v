(* T4, first half: the decoder's table follows the encoder's table.  Applying the not yet delivered encoder-stream
   instructions to the decoder's table yields the encoder's table (entries, sizes, index space, capacity) - for every
   history and every delivery schedule. *)
From H3V Require Import Base.Bytes Gen.GenQpack Gen.GenStatic Model.Vas Model.DynTable Model.QInstr Model.QEncoder
  Model.QDecoder Model.QSystem Proofs.VasProofs Proofs.AMapLemmas Proofs.DynTableProofs Proofs.QEncoderProofs Proofs.QSystemProofs.
From Coq Require Import ZifyBool ZifyN ZifyNat.
Ltac Zify.zify_post_hook ::= Z.div_mod_to_equations.

(* ---------------------------------------------------------------- the static table as data *)
Lemma find_name_arm_in name arms i : find_name_arm name arms = Some i -> In (name, i) arms.
Proof.
  induction arms as [|[n j] r IH]; cbn [find_name_arm]; [discriminate|].
  destruct (bytes_eqb name n) eqn:E; intros H.
  - apply bytes_eqb_eq in E. inversion H; subst. left. reflexivity.
  - right. auto.
Qed.

Lemma find_arm_in f arms i : find_arm f arms = Some i -> In (fst f, snd f, i) arms.
Proof.
  induction arms as [|[[n v] j] r IH]; cbn [find_arm]; [discriminate|].
  destruct (field_eqb f (n, v)) eqn:E; intros H.
  - apply field_eqb_eq in E. inversion H; subst. left. reflexivity.
  - right. auto.
Qed.

Definition name_arm_ok (x : bytes * N) : bool :=
  match static_get (snd x) with Some g => bytes_eqb (fst g) (fst x) | None => false end.
Definition find_arm_ok (x : bytes * bytes * N) : bool :=
  match static_get (snd x) with Some g => field_eqb g (fst x) | None => false end.

Lemma static_name_arms_ok : forallb name_arm_ok static_find_name_arms = true.
Proof. vm_compute. reflexivity. Qed.
Lemma static_find_arms_ok : forallb find_arm_ok static_find_arms = true.
Proof. vm_compute. reflexivity. Qed.

(* StaticTable::find_name(n) = Some i  ->  row i has name n *)
Lemma static_find_name_sound n i : static_find_name n = Some i -> exists g, static_get i = Some g /\ fst g = n.
Proof.
  intros H. apply find_name_arm_in in H. pose proof static_name_arms_ok as K. rewrite forallb_forall in K.
  specialize (K _ H). unfold name_arm_ok in K. cbn [fst snd] in K.
  destruct (static_get i) as [g|]; [|discriminate]. exists g. split; [reflexivity|]. apply bytes_eqb_eq. assumption.
Qed.

(* StaticTable::find(f) = Some i  ->  row i is f *)
Lemma static_find_sound f i : static_find f = Some i -> static_get i = Some f.
Proof.
  intros H. apply find_arm_in in H. pose proof static_find_arms_ok as K. rewrite forallb_forall in K.
  specialize (K _ H). unfold find_arm_ok in K. cbn [fst snd] in K.
  destruct (static_get i) as [g|]; [|discriminate]. apply field_eqb_eq in K. subst. destruct f; reflexivity.
Qed.

(* ---------------------------------------------------------------- same store *)
Definition store_eq (t d : dt) : Prop :=
  dt_fields t = dt_fields d /\ dt_max t = dt_max d /\
  v_inserted (dt_vas t) = v_inserted (dt_vas d) /\ v_dropped (dt_vas t) = v_dropped (dt_vas d).

Lemma store_eq_refl t : store_eq t t.
Proof. repeat split. Qed.
Lemma store_eq_sym t d : store_eq t d -> store_eq d t.
Proof. intros (A & B & C & D). repeat split; auto. Qed.
Lemma store_eq_trans a b c : store_eq a b -> store_eq b c -> store_eq a c.
Proof. intros (A & B & C & D) (A' & B' & C' & D'). repeat split; congruence. Qed.

Lemma store_eq_vas t d : dt_ok t -> dt_ok d -> store_eq t d -> dt_vas t = dt_vas d /\ dt_curr t = dt_curr d.
Proof.
  intros Ht Hd (A & B & C & D). split.
  - pose proof (ok_vas t Ht) as V1. pose proof (ok_vas d Hd) as V2. unfold vas_inv in *.
    destruct (dt_vas t) as [i1 d1 l1], (dt_vas d) as [i2 d2 l2]. cbn [v_inserted v_dropped v_delta] in *. f_equal; lia.
  - rewrite (ok_curr t Ht), (ok_curr d Hd), A. reflexivity.
Qed.

Lemma store_eq_field_at t d a : dt_ok t -> dt_ok d -> store_eq t d -> field_at t a = field_at d a.
Proof.
  intros Ht Hd He. destruct (store_eq_vas t d Ht Hd He) as [V _]. destruct He as (A & _).
  unfold field_at. rewrite A, V. reflexivity.
Qed.

(* the minimal number of oldest entries to drop so that what is left is at most `lower` *)
Fixpoint need (lower : N) (fs : list field) (hyp ev : N) : N * N :=
  match fs with
  | [] => (hyp, ev)
  | f :: r => if hyp <=? lower then (hyp, ev) else need lower r (hyp - mem_size f) (ev + 1)
  end.

Lemma cf_loop_need_untracked t lower : dt_track t = [] ->
  forall fs idx hyp ev, idx + N.of_nat (length fs) <= v_delta (dt_vas t) -> sum_sizes fs <= hyp ->
    cf_loop t lower fs idx hyp ev = Ok (need lower fs hyp ev).
Proof.
  intros Ht. induction fs as [|f r IH]; intros idx hyp ev Hl Hs; cbn [cf_loop need]; [reflexivity|].
  cbn [length sum_sizes] in Hl, Hs. rewrite cmp_loop. destruct (hyp <=? lower); [reflexivity|].
  unfold vas_index. destruct (v_delta (dt_vas t) <=? idx) eqn:Ei; [lia|].
  unfold dt_is_tracked. rewrite Ht. cbn [aget]. destruct (hyp <? mem_size f) eqn:Eh; [lia|].
  apply IH; lia.
Qed.

Lemma cf_loop_need_enough t lower :
  forall fs idx hyp ev hyp' ev', cf_loop t lower fs idx hyp ev = Ok (hyp', ev') -> hyp' <= lower ->
    need lower fs hyp ev = (hyp', ev').
Proof.
  induction fs as [|f r IH]; intros idx hyp ev hyp' ev'; cbn [cf_loop need].
  - intros H _. inversion H; reflexivity.
  - rewrite cmp_loop. destruct (hyp <=? lower) eqn:E; [intros H _; inversion H; reflexivity|].
    destruct (vas_index (dt_vas t) idx) as [a| |]; try discriminate.
    destruct (dt_is_tracked t a).
    + intros H Hle. inversion H; subst. lia.
    + destruct (hyp <? mem_size f); [discriminate|]. apply IH.
Qed.

(* the decoder (no references) frees exactly what the encoder freed *)
Lemma can_free_agree t d required n :
  dt_ok t -> dt_ok d -> dt_track d = [] -> store_eq t d ->
  dt_can_free t required = Ok (Some n) -> dt_can_free d required = Ok (Some n).
Proof.
  intros Ht Hd Hu He. destruct (store_eq_vas t d Ht Hd He) as [V C]. destruct He as (A & B & _).
  unfold dt_can_free. rewrite <- B, <- C, cmp_toolarge, cmp_room.
  destruct (dt_max t <? required) eqn:E1; [discriminate|].
  destruct (dt_max t <? dt_curr t) eqn:E2; [discriminate|].
  destruct (required <=? dt_max t - dt_curr t) eqn:E3; [auto|].
  destruct (cf_loop t (dt_max t - required) (dt_fields t) 0 (dt_curr t) 0) as [[hyp ev]| |] eqn:EL; try discriminate.
  destruct (dt_max t <? hyp) eqn:E4; [discriminate|]. rewrite cmp_final.
  destruct (required <=? dt_max t - hyp) eqn:E5; [|discriminate].
  intros H. inversion H; subst.
  apply cf_loop_need_enough in EL; [|lia].
  rewrite cf_loop_need_untracked; [|assumption| |].
  - rewrite <- A, EL, E4, cmp_final, E5. reflexivity.
  - rewrite <- A, <- V. pose proof (ok_delta t Ht). lia.
  - rewrite <- A. pose proof (ok_curr t Ht). lia.
Qed.

(* DynamicTable::insert on two tables with the same store: same store afterwards *)
Lemma dt_insert_agree t d f t' idx :
  dt_ok t -> dt_ok d -> dt_track d = [] -> store_eq t d ->
  dt_insert t f = Ok (t', Some idx) ->
  exists d1, dt_insert d f = Ok (pushed d1 f, Some idx) /\ dt_ok (pushed d1 f) /\ store_eq t' (pushed d1 f) /\
             dt_track (pushed d1 f) = [] /\ dt_ok d1 /\ dt_fmap d1 = dt_fmap (pushed d1 f) /\ dt_nmap d1 = dt_nmap (pushed d1 f).
Proof.
  intros Ht Hd Hu He Hi.
  destruct (dt_insert_spec t f Ht) as [(t1 & n & Ei & Ecf & Eev & Hok1 & Hokp & G1 & G2 & G3 & G4 & G5 & G6 & G7 & G8 & G9 & G10 & Gm) | [Ei | [Ei _]]];
    rewrite Ei in Hi; inversion Hi; subst; clear Hi.
  pose proof (can_free_agree t d _ n Ht Hd Hu He Ecf) as Ecfd.
  destruct (dt_insert_spec d f Hd) as [(d1 & n' & Ei' & Ecf' & Eev' & Hokd1 & Hokdp & D1 & D2 & D3 & D4 & D5 & D6 & D7 & D8 & D9 & D10 & Dm) | [Ei' | [Ei' _]]].
  - rewrite Ecfd in Ecf'. inversion Ecf'; subst n'. exists d1. destruct He as (A & B & C & D).
    split; [rewrite Ei'; f_equal; f_equal; f_equal; lia|]. split; [assumption|]. split.
    + unfold store_eq, pushed, vas_add; cbn [with_store dt_fields dt_max dt_vas v_inserted v_dropped].
      rewrite G1, D1, G2, D2, G9, D9, G10, D10, A, B, C, D. repeat split; reflexivity.
    + split; [unfold pushed; cbn [with_store dt_track]; congruence|]. split; [assumption|]. split; reflexivity.
  - exfalso. unfold dt_insert in Ei'. destruct He as (_ & B & _).
    destruct (dt_max d =? 0) eqn:E0; [apply N.eqb_eq in E0; congruence|].
    destruct (dt_can_free_spec d _ n Hd Ecfd) as (K1 & _ & K3).
    destruct (dt_evict_ok (N.to_nat n) d Hd K1) as (x & Ex & _); [intros i Hi; apply K3; lia|].
    rewrite Ecfd, Ex in Ei'. discriminate.
  - exfalso. unfold dt_insert in Ei'. destruct He as (_ & B & _).
    destruct (dt_max d =? 0) eqn:E0; [discriminate|].
    destruct (dt_can_free_spec d _ n Hd Ecfd) as (K1 & _ & K3).
    destruct (dt_evict_ok (N.to_nat n) d Hd K1) as (x & Ex & _); [intros i Hi; apply K3; lia|].
    rewrite Ecfd, Ex in Ei'. discriminate.
Qed.

(* one decoder step *)
Definition dec_step (d : dt) (i : einstr) : res dec_err dt :=
  match dec_resolve d i with
  | Ok (AInsert f) => match dt_put d f with Ok d' => Ok d' | Err e => Err (DEDynamicTable e) | Panic s => Panic s end
  | Ok (ATableSizeUpdate n) => match dt_set_max_size d n with Ok d' => Ok d' | Err e => Err (DEDynamicTable e) | Panic s => Panic s end
  | Err e => Err e
  | Panic s => Panic s
  end.

Lemma dec_apply_cons d i r :
  dec_apply d (i :: r) = match dec_step d i with Ok d' => dec_apply d' r | Err e => (d, Err e) | Panic s => (d, Panic s) end.
Proof.
  cbn [dec_apply]. unfold dec_step. destruct (dec_resolve d i) as [[f|n]| |]; try reflexivity.
  - destruct (dt_put d f); reflexivity.
  - destruct (dt_set_max_size d n); reflexivity.
Qed.

Lemma dec_apply_app a : forall d b,
  dec_apply d (a ++ b) = match dec_apply d a with (d1, Ok _) => dec_apply d1 b | (d1, Err e) => (d1, Err e) | (d1, Panic s) => (d1, Panic s) end.
Proof.
  induction a as [|i r IH]; intros d b; [reflexivity|].
  change ((i :: r) ++ b) with (i :: (r ++ b)). rewrite !dec_apply_cons.
  destruct (dec_step d i) as [d'| |]; [apply IH | reflexivity | reflexivity].
Qed.

Lemma dt_put_agree t d f t' idx :
  dt_ok t -> dt_ok d -> dt_track d = [] -> store_eq t d -> dt_insert t f = Ok (t', Some idx) ->
  exists d', dt_put d f = Ok d' /\ dt_ok d' /\ dt_track d' = [] /\ store_eq t' d'.
Proof.
  intros Ht Hd Hu He Hi. destruct (dt_insert_agree _ _ _ _ _ Ht Hd Hu He Hi) as (d1 & E & Hok & Hs & Htr & _).
  pose proof (dt_put_ok d f) as Pok. pose proof (dt_put_track d f) as Ptr.
  unfold dt_put in *. rewrite E in *.
  destruct (static_find_name (fst f)); eexists; (split; [reflexivity|]); (split; [apply Pok; [assumption|reflexivity]|]);
    (split; [rewrite (Ptr _ Hd eq_refl); assumption|]); destruct Hs as (A & B & C & D); repeat split; assumption.
Qed.

(* positions of an entry that survives the eviction of n older ones *)
Lemma field_at_skip t t1 n a :
  dt_fields t1 = skipn (N.to_nat n) (dt_fields t) -> v_dropped (dt_vas t1) = v_dropped (dt_vas t) + n ->
  v_dropped (dt_vas t1) < a -> field_at t1 a = field_at t a.
Proof.
  intros Hf Hd Ha. unfold field_at, vas_pos. rewrite Hf, nth_opt_skipn. f_equal. lia.
Qed.

(* ---------------------------------------------------------------- encoder steps seen from the decoder *)
Definition same_store (t t' : dt) : Prop :=
  dt_fields t' = dt_fields t /\ dt_max t' = dt_max t /\ dt_vas t' = dt_vas t.

Lemma same_store_eq t t' d : same_store t t' -> store_eq t d -> store_eq t' d.
Proof. intros (A & B & C) (A' & B' & C' & D'). unfold store_eq. rewrite A, B, C. auto. Qed.

Lemma same_store_refl t : same_store t t. Proof. repeat split. Qed.
Lemma same_store_trans a b c : same_store a b -> same_store b c -> same_store a c.
Proof. intros (A & B & C) (A' & B' & C'). repeat split; congruence. Qed.

Lemma te_track_ref_store e r : same_store (te_t e) (te_t (te_track_ref e r)).
Proof. repeat split. Qed.

Lemma te_lookup_result_store e a e' l : te_lookup_result e a = (e', l) -> same_store (te_t e) (te_t e').
Proof.
  unfold te_lookup_result. destruct a as [x|]; [|intros H; inversion H; apply same_store_refl].
  destruct (x <=? te_base e); intros H; inversion H; apply te_track_ref_store.
Qed.

Lemma te_find_store e f e' l : te_find e f = (e', l) -> same_store (te_t e) (te_t e').
Proof. apply te_lookup_result_store. Qed.

Lemma te_find_name_store e n e' l : te_find_name e n = (e', l) -> same_store (te_t e) (te_t e').
Proof.
  unfold te_find_name. destruct (static_find_name n); [intros H; inversion H; apply same_store_refl|].
  apply te_lookup_result_store.
Qed.

Lemma dec_resolve_relative d v ref g :
  dt_vas d = v -> vas_inv v -> vas_live v ref -> nth_opt (dt_fields d) (vas_pos v ref) = Some g ->
  dt_get_relative d (v_inserted v - ref) = Ok g.
Proof.
  intros Hv Hi Hl Hn. unfold dt_get_relative. rewrite Hv, (vas_relative_live v ref Hi Hl), Hn. reflexivity.
Qed.

Definition sim_after (e' : tenc) (d : dt) (i : einstr) : Prop :=
  exists d', dec_step d i = Ok d' /\ dt_ok d' /\ dt_track d' = [] /\ store_eq (te_t e') d'.

Lemma te_insert_sim e f e' r d :
  te_ok e -> dt_ok d -> dt_track d = [] -> store_eq (te_t e) d ->
  te_insert e f = Ok (e', r) ->
  match r with
  | RNotInserted _ => store_eq (te_t e') d
  | RInserted _ _ => sim_after e' d (IInsertLit (fst f) (snd f))
  | RDuplicated rel _ _ => sim_after e' d (IDuplicate rel)
  | RInsertedNameRef _ rel _ => sim_after e' d (IInsertDyn rel (snd f))
  | RInsertedStaticNameRef _ si _ => sim_after e' d (IInsertStatic si (snd f))
  end.
Proof.
  intros Hok Hd Hu He. unfold te_insert. rewrite cmp_gate.
  destruct (dt_bmax (te_t e) <=? dt_bcount (te_t e)).
  { destruct (te_find_name e (fst f)) as [e1 l] eqn:Ef. intros H; inversion H; subst.
    eapply same_store_eq; [eapply te_find_name_store; eauto | assumption]. }
  destruct (dt_insert_spec (te_t e) f Hok) as [(t1 & n & Ei & Ecf & Eev & Hok1 & Hokp & G1 & G2 & G3 & G4 & G5 & G6 & G7 & G8 & G9 & G10 & Gm) | [Ei | [Ei _]]]; rewrite Ei.
  2:{ destruct (te_find_name (te_with_t e (te_t e)) (fst f)) as [e1 l] eqn:Ef. intros H; inversion H; subst.
      eapply same_store_eq; [eapply te_find_name_store; eauto | assumption]. }
  2:{ destruct (te_find_name e (fst f)) as [e1 l] eqn:Ef. intros H; inversion H; subst.
      eapply same_store_eq; [eapply te_find_name_store; eauto | assumption]. }
  set (index := v_inserted (dt_vas (te_t e)) + 1) in *.
  set (tp := pushed t1 f) in *.
  destruct (dt_put_agree (te_t e) d f tp index Hok Hd Hu He Ei) as (d' & Eput & Hokd' & Hud' & Hsd').
  destruct (index <=? te_base e); [discriminate|].
  pose proof (store_eq_vas _ _ Hok Hd He) as [Hvas _].
  assert (Hinv : vas_inv (dt_vas (te_t e))) by apply (ok_vas _ Hok).
  (* a reference found in a map of t1 resolves on the decoder to the same entry *)
  assert (Href : forall ref g, vas_live (dt_vas t1) ref -> field_at t1 ref = Some g ->
                   dt_get_relative d (index - ref - 1) = Ok g).
  { intros ref g Hl Hf.
    assert (Hl0 : vas_live (dt_vas (te_t e)) ref) by (unfold vas_live in *; lia).
    replace (index - ref - 1) with (v_inserted (dt_vas (te_t e)) - ref) by (unfold index, vas_live in *; lia).
    apply dec_resolve_relative; [symmetry; assumption | assumption | assumption |].
    destruct He as (A & _). rewrite <- A. rewrite <- Hf. symmetry. apply (field_at_skip (te_t e) t1 n); try assumption.
    unfold vas_live in Hl. lia. }
  assert (Hfin : forall e2, same_store tp (te_t e2) -> store_eq (te_t e2) d').
  { intros e2 Hs. eapply same_store_eq; eassumption. }
  change (dt_fmap (te_t (te_track_ref (te_with_t e tp) index))) with (dt_fmap t1).
  change (dt_nmap (te_t (te_track_ref (te_with_t e tp) index))) with (dt_nmap t1).
  destruct (aget field_eqb f (dt_fmap t1)) as [ref_index|] eqn:Efm.
  - destruct (index <=? ref_index); [discriminate|]. intros H; inversion H; subst; clear H.
    destruct (ok_fmap t1 Hok1 f ref_index Efm) as [Hl Hf].
    exists d'. unfold dec_step, dec_resolve. rewrite (Href ref_index f Hl Hf), Eput.
    repeat (split; [first [reflexivity | assumption]|]). apply Hfin. repeat split.
  - destruct (static_find_name (fst f)) as [si|] eqn:Esn.
    + intros H; inversion H; subst; clear H.
      destruct (static_find_name_sound _ _ Esn) as (g & Eg & Hg).
      exists d'. unfold dec_step, dec_resolve. rewrite Eg, Hg. replace (fst f, snd f) with f by (destruct f; reflexivity).
      rewrite Eput. repeat (split; [first [reflexivity | assumption]|]). apply Hfin. repeat split.
    + destruct (aget bytes_eqb (fst f) (dt_nmap t1)) as [ref_index|] eqn:Enm.
      * destruct (index <=? ref_index); [discriminate|]. intros H; inversion H; subst; clear H.
        destruct (ok_nmap t1 Hok1 _ ref_index Enm) as [Hl (g & Hf & Hg)].
        exists d'. unfold dec_step, dec_resolve. rewrite (Href ref_index g Hl Hf), Hg.
        replace (fst f, snd f) with f by (destruct f; reflexivity).
        rewrite Eput. repeat (split; [first [reflexivity | assumption]|]). apply Hfin. repeat split.
      * intros H; inversion H; subst; clear H.
        exists d'. unfold dec_step, dec_resolve. replace (fst f, snd f) with f by (destruct f; reflexivity).
        rewrite Eput. repeat (split; [first [reflexivity | assumption]|]). apply Hfin. repeat split.
Qed.

(* Encoder::encode_field: either the store is unchanged and nothing is emitted, or the emitted instruction replays *)
Lemma encode_field_sim e f e' em d :
  te_ok e -> dt_ok d -> dt_track d = [] -> store_eq (te_t e) d ->
  encode_field e f = Ok (e', em) ->
  match fe_instr em with
  | None => store_eq (te_t e') d
  | Some i => sim_after e' d i
  end.
Proof.
  intros Hok Hd Hu He. unfold encode_field. destruct (static_find f); [intros H; inversion H; subst; assumption|].
  destruct (te_find e f) as [e1 l] eqn:Ef. pose proof (te_find_ok e f e1 l Hok Ef) as Hok1.
  pose proof (same_store_eq _ _ _ (te_find_store _ _ _ _ Ef) He) as He1.
  assert (K : forall e2 r, te_insert e1 f = Ok (e2, r) ->
            match fe_instr (match r with
                  | RDuplicated relative postbase absolute => mkEmit (BIndexedPost postbase) (Some (IDuplicate relative)) (Some absolute)
                  | RInserted postbase absolute => mkEmit (BIndexedPost postbase) (Some (IInsertLit (fst f) (snd f))) (Some absolute)
                  | RInsertedStaticNameRef postbase index absolute => mkEmit (BIndexedPost postbase) (Some (IInsertStatic index (snd f))) (Some absolute)
                  | RInsertedNameRef postbase relative absolute => mkEmit (BIndexedPost postbase) (Some (IInsertDyn relative (snd f))) (Some absolute)
                  | RNotInserted (LStatic index) => mkEmit (BLitStaticName index (snd f)) None None
                  | RNotInserted (LRelative index absolute) => mkEmit (BLitDynName index (snd f)) None (Some absolute)
                  | RNotInserted (LPostBase index absolute) => mkEmit (BLitPostName index (snd f)) None (Some absolute)
                  | RNotInserted LNotFound => mkEmit (BLiteral (fst f) (snd f)) None None
                  end) with
            | None => store_eq (te_t e2) d
            | Some i => sim_after e2 d i
            end).
  { intros e2 r Hi. pose proof (te_insert_sim e1 f e2 r d Hok1 Hd Hu He1 Hi) as S.
    destruct r as [pb ab|rel pb ab|pb rel ab|pb si ab|[si|ix ab|ix ab|]]; cbn [fe_instr]; assumption. }
  destruct l; try (intros H; inversion H; subst; cbn [fe_instr]; assumption);
    destruct (te_insert e1 f) as [[e2 r]| |] eqn:Ei; try discriminate; intros H; inversion H; subst; apply K; reflexivity.
Qed.

(* Encoder::encode, all fields: the instructions emitted replay on the decoder to the encoder's new store *)
Lemma encode_fields_sim fs : forall e required reps ins e' required' reps' ins' d,
  te_ok e -> dt_ok d -> dt_track d = [] -> store_eq (te_t e) d ->
  encode_fields e fs required reps ins = (e', Ok (required', reps', ins')) ->
  exists new d', ins' = ins ++ new /\ dec_apply d new = (d', Ok tt) /\ dt_ok d' /\ dt_track d' = [] /\ store_eq (te_t e') d'.
Proof.
  induction fs as [|f r IH]; intros e required reps ins e' required' reps' ins' d Hok Hd Hu He; cbn [encode_fields].
  - intros H; inversion H; subst. exists [], d. rewrite app_nil_r. auto.
  - destruct (encode_field e f) as [[e1 em]| |] eqn:Ef; try discriminate.
    pose proof (encode_field_ok _ _ _ _ Hok Ef) as Hok1.
    pose proof (encode_field_sim _ _ _ _ d Hok Hd Hu He Ef) as S.
    destruct (fe_instr em) as [i|].
    + destruct S as (d1 & Es & Hd1 & Hu1 & He1). intros H.
      destruct (IH _ _ _ _ _ _ _ _ d1 Hok1 Hd1 Hu1 He1 H) as (new & d' & E1 & E2 & K).
      exists (i :: new), d'. split; [rewrite E1, <- app_assoc; reflexivity|]. split; [|assumption].
      rewrite dec_apply_cons, Es. assumption.
    + intros H. destruct (IH _ _ _ _ _ _ _ _ d Hok1 Hd Hu S H) as (new & d' & E1 & K). exists new, d'. auto.
Qed.
