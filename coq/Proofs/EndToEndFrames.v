(* C01: reading back what a request-stream sender lays out.  The frame-level reference reader of Spec/Frames.v (C02)
   applied to HEADERS DATA* HEADERS? reserved? in the RFC 9114 7.1 layout recovers exactly those frames, and the 4.1
   reading of Spec/EndToEndStream.v turns them into: first block, body bytes, end of body, trailers, clean end. *)
From H3V Require Import Base.Bytes Base.BytesLemmas Spec.RFC9000 Spec.RFC9114Wire Spec.FrameVocab Spec.Frames
  Proofs.WireParseProofs Model.EndToEnd Spec.EndToEndStream Proofs.EndToEndWire.
From Coq Require Import ZifyBool ZifyNat ZifyN.
Ltac Zify.zify_post_hook ::= Z.div_mod_to_equations.

Lemma take_varint_enc x r : x < 2 ^ 62 -> rfc_take_varint (rfc_varint x ++ r) = Some (x, r).
Proof. exact (read_varint_enc x r). Qed.

Lemma rfc_varint_nonempty x r : exists b t, rfc_varint x ++ r = b :: t.
Proof.
  pose proof (len_rfc_varint_pos x) as H. destruct (rfc_varint x) as [|b t] eqn:E.
  - unfold len in H. cbn in H. lia.
  - exists b, (t ++ r). reflexivity.
Qed.

(* one frame off the front *)
Lemma outcome_frame f sc ty p rest en :
  ty < 2 ^ 62 -> len p < 2 ^ 62 -> ty <> T_WEBTRANSPORT_STREAM ->
  outcome_from (S f) sc (rfc_frame ty p ++ rest) en =
    if ty =? Frames.T_DATA then
      let '(ts, t) := outcome_from f sc rest en in (TFrame (FData (len p)) :: map TByte p ++ ts, t)
    else
      match classify sc ty p with
      | CKnown fr => let '(ts, t) := outcome_from f sc rest en in (TFrame fr :: ts, t)
      | CBad e => ([], ProtoError e)
      | CSkip => outcome_from f sc rest en
      end.
Proof.
  intros Ht Hp Hwt. unfold rfc_frame. rewrite <- !app_assoc.
  destruct (rfc_varint_nonempty ty (rfc_varint (len p) ++ p ++ rest)) as (b & t & E).
  cbn [outcome_from]. rewrite E. rewrite <- E.
  rewrite take_varint_enc by exact Ht.
  destruct (N.eqb_spec ty T_WEBTRANSPORT_STREAM) as [Ew|_]; [contradiction|].
  rewrite take_varint_enc by exact Hp.
  destruct (N.ltb_spec (len (p ++ rest)) (len p)) as [Hc|_]; [rewrite len_app in Hc; lia|].
  replace (N.to_nat (len p)) with (length p) by (unfold len; lia).
  rewrite firstn_app_exact, skipn_app_exact. reflexivity.
Qed.

Definition data_tokens (pieces : list bytes) : list tok :=
  flat_map (fun p => TFrame (FData (len p)) :: map TByte p) pieces.

Lemma classify_headers sc p : classify sc Frames.T_HEADERS p = CKnown (FHeaders p).
Proof. reflexivity. Qed.

Lemma classify_grease sc g p : classify sc (31 * g + 33) p = CSkip.
Proof.
  unfold classify, Frames.T_HEADERS, Frames.T_CANCEL_PUSH, Frames.T_SETTINGS, Frames.T_PUSH_PROMISE, Frames.T_GOAWAY,
    Frames.T_MAX_PUSH_ID, h2_reserved.
  repeat match goal with |- context [?a =? ?b] =>
    destruct (N.eqb_spec a b) as [E|_]; [exfalso; lia|] end.
  reflexivity.
Qed.

Definition payload_ok (b : bytes) : Prop := len b < 2 ^ 62.

Definition tail_frames (tb : option bytes) (g : option N) : list sframe :=
  match tb with Some b => [SHeaders b] | None => [] end ++ match g with Some x => [SGrease x] | None => [] end.

(* the frame-level reading of the tail of the stream: optional trailers, optional reserved-type frame, end *)
Lemma outcome_tail sc tb g : forall f,
  match tb with Some b => payload_ok b | None => True end ->
  match g with Some x => x < 148764065110560899 | None => True end ->
  outcome_from (length (tail_frames tb g) + S f) sc (concat (map rfc_frame_bytes (tail_frames tb g))) Finished
  = (match tb with Some b => [TFrame (FHeaders b)] | None => [] end, CleanEnd).
Proof.
  intros f Ht Hg.
  assert (Hgr : forall x k, x < 148764065110560899 ->
            outcome_from (S (S k)) sc (rfc_frame (31 * x + 33) [103; 114; 101; 97; 115; 101] ++ []) Finished = ([], CleanEnd)).
  { intros x k Hx. rewrite outcome_frame.
    - destruct (N.eqb_spec (31 * x + 33) Frames.T_DATA) as [E|_]; [unfold Frames.T_DATA in E; lia|].
      rewrite classify_grease. reflexivity.
    - change (2 ^ 62) with 4611686018427387904. lia.
    - reflexivity.
    - unfold T_WEBTRANSPORT_STREAM. lia. }
  unfold tail_frames. destruct tb as [b|]; destruct g as [x|]; cbn [map concat app rfc_frame_bytes length plus].
  - rewrite outcome_frame; [|reflexivity|exact Ht|discriminate].
    change (RFC9114Wire.T_HEADERS =? Frames.T_DATA) with false. cbv iota.
    change RFC9114Wire.T_HEADERS with Frames.T_HEADERS. rewrite classify_headers.
    rewrite Hgr by exact Hg. reflexivity.
  - rewrite app_nil_r. rewrite <- (app_nil_r (rfc_frame _ b)).
    rewrite outcome_frame; [|reflexivity|exact Ht|discriminate].
    change (RFC9114Wire.T_HEADERS =? Frames.T_DATA) with false. cbv iota.
    change RFC9114Wire.T_HEADERS with Frames.T_HEADERS. rewrite classify_headers. reflexivity.
  - apply Hgr. exact Hg.
  - reflexivity.
Qed.

Lemma outcome_data sc pieces rest : forall f ts,
  Forall payload_ok pieces ->
  outcome_from f sc rest Finished = (ts, CleanEnd) ->
  outcome_from (length pieces + f) sc (concat (map rfc_frame_bytes (map SData pieces)) ++ rest) Finished
  = (data_tokens pieces ++ ts, CleanEnd).
Proof.
  induction pieces as [|p ps IH]; intros f ts Hok H; [exact H|].
  inversion Hok as [|? ? Hp Hps]; subst.
  cbn [map concat length plus rfc_frame_bytes]. rewrite <- app_assoc.
  rewrite outcome_frame; [|reflexivity|exact Hp|discriminate].
  change (RFC9114Wire.T_DATA =? Frames.T_DATA) with true. cbv iota.
  rewrite (IH f ts Hps H). cbn [data_tokens flat_map]. rewrite <- app_assoc. reflexivity.
Qed.

Lemma read_data_tokens pieces : forall acc rest tl,
  read_tokens RdBody acc (data_tokens pieces ++ rest) tl = read_tokens RdBody (acc ++ concat pieces) rest tl.
Proof.
  induction pieces as [|p ps IH]; intros acc rest tl.
  - cbn. rewrite app_nil_r. reflexivity.
  - cbn [data_tokens flat_map concat]. rewrite <- app_assoc. cbn [app read_tokens].
    assert (Hb : forall q a r, read_tokens RdBody a (map TByte q ++ r) tl = read_tokens RdBody (a ++ q) r tl).
    { induction q as [|x q IHq]; intros a r; [cbn; rewrite app_nil_r; reflexivity|].
      cbn [map app read_tokens]. rewrite IHq. rewrite <- app_assoc. reflexivity. }
    rewrite Hb. change (flat_map _ ps) with (data_tokens ps). rewrite IH. rewrite app_assoc. reflexivity.
Qed.

Lemma flat_len_bound (fs : list sframe) : (2 * length fs <= length (concat (map rfc_frame_bytes fs)))%nat.
Proof.
  induction fs as [|f fs IH]; [cbn; lia|]. cbn [map concat length]. rewrite app_length.
  assert (2 <= length (rfc_frame_bytes f))%nat.
  { destruct f; cbn [rfc_frame_bytes];
      match goal with |- (2 <= length (rfc_frame ?t ?p))%nat => pose proof (len_rfc_frame_ge2 t p) as H; unfold len in H; lia end. }
  lia.
Qed.

Lemma outcome_fuel_mono sc en : forall f v r, outcome_from f sc v en = r -> snd r <> Waiting ->
  forall f', (f <= f')%nat -> outcome_from f' sc v en = r.
Proof.
  induction f as [|f IH]; intros v r H Hw f' Hle.
  - cbn in H. subst r. cbn in Hw. contradiction.
  - destruct f' as [|f']; [lia|]. assert (Hle' : (f <= f')%nat) by lia.
    cbn [outcome_from] in *. destruct v as [|b v]; [exact H|].
    destruct (rfc_take_varint (b :: v)) as [[ty r1]|]; [|exact H].
    destruct (ty =? T_WEBTRANSPORT_STREAM); [exact H|].
    destruct (rfc_take_varint r1) as [[l r2]|]; [|exact H].
    destruct (ty =? Frames.T_DATA).
    + destruct (len r2 <? l); [exact H|].
      destruct (outcome_from f sc (skipn (N.to_nat l) r2) en) as [ts t] eqn:E.
      subst r. cbn [snd] in Hw. rewrite (IH _ _ E Hw f' Hle'). reflexivity.
    + destruct (len r2 <? l); [exact H|].
      destruct (classify sc ty (firstn (N.to_nat l) r2)); [|exact H|].
      * destruct (outcome_from f sc (skipn (N.to_nat l) r2) en) as [ts t] eqn:E.
        subst r. cbn [snd] in Hw. rewrite (IH _ _ E Hw f' Hle'). reflexivity.
      * apply (IH _ _ H Hw f' Hle').
Qed.

(* P-frames *)
Theorem request_stream_reading_of_layout_with sc hb pieces tb g :
  payload_ok hb -> Forall payload_ok pieces -> match tb with Some b => payload_ok b | None => True end ->
  match g with Some x => x < 148764065110560899 | None => True end ->
  rfc_stream_reading_with sc (concat (map rfc_frame_bytes (SHeaders hb :: map SData pieces ++
      match tb with Some b => [SHeaders b] | None => [] end ++
      match g with Some x => [SGrease x] | None => [] end)))
  = RFirst hb :: flush_items (concat pieces) ++ [RDataEnd; RTrailers tb].
Proof.
  intros Hhb Hp Ht Hg.
  change (match tb with Some b => [SHeaders b] | None => [] end ++ match g with Some x => [SGrease x] | None => [] end)
    with (tail_frames tb g).
  set (tailf := tail_frames tb g).
  set (fs := SHeaders hb :: map SData pieces ++ tailf).
  assert (Hout : frame_outcome sc (concat (map rfc_frame_bytes fs)) Finished =
                 (TFrame (FHeaders hb) :: data_tokens pieces ++ match tb with Some b => [TFrame (FHeaders b)] | None => [] end,
                  CleanEnd)).
  { unfold frame_outcome.
    apply (outcome_fuel_mono sc Finished (S (length pieces + (length tailf + 1)))); [|discriminate|].
    - unfold fs. cbn [map concat rfc_frame_bytes].
      rewrite outcome_frame; [|reflexivity|exact Hhb|discriminate].
      change (RFC9114Wire.T_HEADERS =? Frames.T_DATA) with false. cbv iota.
      change RFC9114Wire.T_HEADERS with Frames.T_HEADERS. rewrite classify_headers.
      rewrite map_app, concat_app. unfold tailf.
      rewrite (outcome_data sc pieces _ (length (tail_frames tb g) + 1) _ Hp (outcome_tail sc tb g 0 Ht Hg)).
      reflexivity.
    - pose proof (flat_len_bound fs) as Hb. unfold fs in Hb at 1. cbn [length] in Hb. rewrite app_length, map_length in Hb.
      lia. }
  unfold rfc_stream_reading_with. rewrite Hout. cbn [read_tokens]. f_equal.
  rewrite read_data_tokens. cbn [app]. destruct tb as [b|]; cbn [read_tokens]; reflexivity.
Qed.

Theorem request_stream_reading_of_layout hb pieces tb g :
  payload_ok hb -> Forall payload_ok pieces -> match tb with Some b => payload_ok b | None => True end ->
  match g with Some x => x < 148764065110560899 | None => True end ->
  rfc_stream_reading (concat (map rfc_frame_bytes (SHeaders hb :: map SData pieces ++
      match tb with Some b => [SHeaders b] | None => [] end ++
      match g with Some x => [SGrease x] | None => [] end)))
  = RFirst hb :: flush_items (concat pieces) ++ [RDataEnd; RTrailers tb].
Proof. exact (request_stream_reading_of_layout_with no_settings_check hb pieces tb g). Qed.
