(* C06 PART 3: the composed receive path of one frame never panics, on any byte string, for every role, every
   HeaderMap growth behaviour and every field-section limit. *)
From H3V Require Import Base.Bytes Base.BytesLemmas Gen.GenFrameTypes Spec.FrameVocab Model.Varint Model.FrameDec
  Model.Static Model.QpackStateless Model.Headers Model.Settings Model.RecvPath
  Proofs.VarintProofs Proofs.NoPanicFrames Proofs.QpackStatelessProofs Proofs.HeadersProofs Proofs.SettingsProofs.

(* the payload a HEADERS / SETTINGS frame hands on is made of bytes of the input *)
Lemma frame_decode_payload_wf v f pos : wf_bytes v -> FrameDec.frame_decode v = (Ok f, pos) ->
  match f with FHeaders b => wf_bytes b | FSettings p => wf_bytes p | _ => True end.
Proof.
  intros Hwf. unfold FrameDec.frame_decode.
  destruct (vi_decode v) as [[ty|e|s] r1] eqn:V1; try discriminate.
  assert (W1 : wf_bytes r1) by (pose proof (vi_decode_rest_wf _ Hwf) as W; rewrite V1 in W; exact W).
  destruct (ty =? fdec_wt_type).
  - destruct (vi_decode r1) as [[sid|e|s] r2]; try discriminate. intros H; inversion H; subst. exact I.
  - destruct (vi_decode r1) as [[l|e|s] r2] eqn:V2; try discriminate.
    assert (W2 : wf_bytes r2) by (pose proof (vi_decode_rest_wf _ W1) as W; rewrite V2 in W; exact W).
    destruct (ty =? fdec_data_type); [intros H; inversion H; subst; exact I|].
    destruct (if fdec_payload_cmp_strict then len r2 <? l else len r2 <=? l); [discriminate|].
    set (p := if fdec_payload_bounded then firstn (N.to_nat l) r2 else r2).
    assert (Wp : wf_bytes p) by (unfold p; destruct fdec_payload_bounded; [apply wf_bytes_firstn|]; exact W2).
    destruct (assoc ty fdec_arms) as [a|]; [|discriminate].
    destruct (read_arm a ty l p) as [[f'|e|s] rest] eqn:RA; try discriminate.
    destruct (fdec_trailing_check && negb (len rest =? 0)); [discriminate|].
    intros H; inversion H; subst f'. clear H.
    revert RA. destruct a; cbn [read_arm].
    + destruct (len p <? l); [discriminate|]. intros H; inversion H; subst. apply wf_bytes_firstn. exact Wp.
    + destruct (settings_check p); try discriminate. intros H; inversion H; subst. exact Wp.
    + destruct (vi_decode p) as [[x|?|?] ?]; try discriminate. unfold push_id_try_from.
      destruct (vi_from_u64 x); cbn; intros H; inversion H; subst; exact I.
    + destruct (vi_decode p) as [[x|?|?] ?]; try discriminate. intros H; inversion H; subst; exact I.
    + destruct (vi_decode p) as [[x|?|?] ?]; try discriminate. intros H; inversion H; subst; exact I.
    + destruct (vi_decode p) as [[x|?|?] ?]; try discriminate. unfold push_id_try_from.
      destruct (vi_from_u64 x); cbn; intros H; inversion H; subst; exact I.
    + discriminate.
    + discriminate.
Qed.

Lemma rp_message_of_no_panic role grow fs s : rp_message_of role grow fs <> RpPanic s.
Proof.
  destruct role; cbn [rp_message_of].
  - pose proof (resolve_request_no_panic grow fs) as H. destruct (resolve_request grow fs); try discriminate. exfalso. eapply H. reflexivity.
  - pose proof (recv_response_no_panic grow fs) as H. destruct (recv_response grow fs); try discriminate. exfalso. eapply H. reflexivity.
  - pose proof (recv_trailers_no_panic grow fs) as H. destruct (recv_trailers grow fs); try discriminate. exfalso. eapply H. reflexivity.
Qed.

Theorem recv_path_no_panic role grow max v s : wf_bytes v -> recv_path role grow max v <> RpPanic s.
Proof.
  intros Hwf. unfold recv_path.
  pose proof (frame_decode_no_panic v Hwf) as F.
  destruct (FrameDec.frame_decode v) as [[f|e|s'] pos] eqn:D; cbn [fst] in *; [|discriminate|discriminate].
  pose proof (frame_decode_payload_wf v f pos Hwf D) as W.
  destruct f; try discriminate.
  - pose proof (decode_stateless_no_panic max block W) as Q.
    destruct (decode_stateless max block) as [[fs m]|e|s']; [|discriminate|discriminate].
    apply rp_message_of_no_panic.
  - pose proof (st_decode_no_panic payload W) as S.
    destruct (st_decode payload); [discriminate|discriminate|discriminate].
Qed.
