(* C07: lemmas about the receive side of one request stream (FrameStream / poll_recv_data of
   Model.StreamFaults) on scripts of the Spec.StreamScoped grammar. *)
From Coq Require Import ZifyBool ZifyNat ZifyN.
From H3V Require Import Base.Bytes Base.BytesLemmas Gen.GenCodes Gen.GenStreamFaults Spec.StreamScoped Model.StreamFaults.
Ltac Zify.zify_post_hook ::= Z.div_mod_to_equations.

(* ------------------------------------------------------------------ facts read from the source, used below *)
Lemma gen_hq_term : hq_term_stores = false /\ hq_term_variant = VRemoteTerminate /\ hq_term_code_is_peers = true.
Proof. repeat split; reflexivity. Qed.
Lemma gen_fse : fse_quic_via_hq = true /\ fse_end_stores = true /\ hcs_stores = true.
Proof. repeat split; reflexivity. Qed.

Lemma on_stream_terminated_eq : forall c s, on_stream_terminated c s = (s, SRemoteTerminate c).
Proof. reflexivity. Qed.
Definition quic_serr (o : option N) : serr := match o with Some c => SRemoteTerminate c | None => SUndefined end.
Lemma fse_quic_eq : forall o s, fse_quic o s = (s, quic_serr o).
Proof. intros [c|] s; reflexivity. Qed.
Lemma on_stream_unknown_eq : forall s, on_stream_unknown s = (s, SUndefined).
Proof. reflexivity. Qed.

(* ------------------------------------------------------------------ the grammar of a message body as a relation *)
(* what may follow a trailer section k: the end of the stream *)
Definition tail_ok (q : list ev) (e : ending) (k : hkind) : Prop :=
  (q = [EFin] /\ e = EndFinT k) \/ (exists c, q = [EReset c] /\ e = EndReset c) \/
  (exists c, q = [EPartial; EReset c] /\ e = EndReset c).

Inductive body_ok : N -> list ev -> bytes -> ending -> Prop :=
| bo_fin : body_ok 0 [EFin] [] EndFin
| bo_reset : forall r c, body_ok r [EReset c] [] (EndReset c)
| bo_partial : forall c, body_ok 0 [EPartial; EReset c] [] (EndReset c)
| bo_data : forall t part q d e,
    len part <= t -> body_ok (t - len part) q d e -> body_ok 0 (EData t part :: q) (part ++ d) e
| bo_more : forall r bs q d e,
    bs <> [] -> len bs <= r -> body_ok (r - len bs) q d e -> body_ok r (EMore bs :: q) (bs ++ d) e
| bo_trl : forall k q e, tail_ok q e k -> body_ok 0 (EHeaders k :: q) [] e.

Lemma len_le0_nil : forall p : bytes, len p <= 0 -> p = [].
Proof. intros p H. destruct p; [reflexivity | unfold len in H; cbn [length] in H; lia]. Qed.

Lemma len_pos_iff : forall bs : bytes, (0 <? len bs) = true <-> bs <> [].
Proof.
  intros bs. unfold len. destruct bs as [|b bs']; cbn [length].
  - split; [intros H; discriminate H | intros H; contradiction H; reflexivity].
  - split; [intros _ H; discriminate H | intros _; lia].
Qed.

Lemma scan_body_ok : forall p r acc d' e,
  scan_body r acc p = (d', e) -> e <> EndBad -> exists d, d' = acc ++ d /\ body_ok r p d e.
Proof.
  induction p as [|x p IH]; intros r acc d' e Hs Hne.
  - cbn in Hs. inversion Hs; subst. contradiction Hne; reflexivity.
  - destruct x as [k|t part|bs| | |c].
    + (* trailers *)
      cbn [scan_body] in Hs.
      destruct (r =? 0) eqn:Hr; [|inversion Hs; subst; contradiction Hne; reflexivity].
      apply N.eqb_eq in Hr. subst r.
      destruct p as [|y p']; [inversion Hs; subst; contradiction Hne; reflexivity|].
      destruct y as [k'|t' part'|bs'| | |c]; try (inversion Hs; subst; contradiction Hne; reflexivity).
      * destruct p' as [|z p'']; [inversion Hs; subst; contradiction Hne; reflexivity|].
        destruct z; try (inversion Hs; subst; contradiction Hne; reflexivity).
        destruct p''; [|inversion Hs; subst; contradiction Hne; reflexivity].
        inversion Hs; subst. exists []. split; [rewrite app_nil_r; reflexivity|].
        apply bo_trl. right; right. eexists; split; reflexivity.
      * destruct p'; [|inversion Hs; subst; contradiction Hne; reflexivity].
        inversion Hs; subst. exists []. split; [rewrite app_nil_r; reflexivity|].
        apply bo_trl. left. split; reflexivity.
      * destruct p'; [|inversion Hs; subst; contradiction Hne; reflexivity].
        inversion Hs; subst. exists []. split; [rewrite app_nil_r; reflexivity|].
        apply bo_trl. right; left. eexists; split; reflexivity.
    + cbn [scan_body] in Hs.
      destruct ((r =? 0) && (len part <=? t)) eqn:Hc.
      * apply andb_true_iff in Hc. destruct Hc as [Hr Hl].
        apply N.eqb_eq in Hr. apply N.leb_le in Hl. subst r.
        destruct (IH _ _ _ _ Hs Hne) as [d [Hd Hb]].
        exists (part ++ d). split; [rewrite Hd; rewrite app_assoc; reflexivity|].
        apply bo_data; assumption.
      * inversion Hs; subst. contradiction Hne; reflexivity.
    + cbn [scan_body] in Hs.
      destruct ((0 <? len bs) && (len bs <=? r)) eqn:Hc.
      * apply andb_true_iff in Hc. destruct Hc as [Hp Hl].
        apply len_pos_iff in Hp. apply N.leb_le in Hl.
        destruct (IH _ _ _ _ Hs Hne) as [d [Hd Hb]].
        exists (bs ++ d). split; [rewrite Hd; rewrite app_assoc; reflexivity|].
        apply bo_more; assumption.
      * inversion Hs; subst. contradiction Hne; reflexivity.
    + (* EPartial *)
      cbn [scan_body] in Hs.
      destruct p as [|y p']; [inversion Hs; subst; contradiction Hne; reflexivity|].
      destruct y as [k|t part|bs| | |c]; try (inversion Hs; subst; contradiction Hne; reflexivity).
      destruct p' as [|z p'']; [|inversion Hs; subst; contradiction Hne; reflexivity].
      destruct (r =? 0) eqn:Hr; [|inversion Hs; subst; contradiction Hne; reflexivity].
      apply N.eqb_eq in Hr. subst r. inversion Hs; subst.
      exists []. split; [rewrite app_nil_r; reflexivity | apply bo_partial].
    + (* EFin *)
      cbn [scan_body] in Hs.
      destruct p as [|y p']; [|inversion Hs; subst; contradiction Hne; reflexivity].
      destruct (r =? 0) eqn:Hr; [|inversion Hs; subst; contradiction Hne; reflexivity].
      apply N.eqb_eq in Hr. subst r. inversion Hs; subst.
      exists []. split; [rewrite app_nil_r; reflexivity | apply bo_fin].
    + (* EReset *)
      cbn [scan_body] in Hs.
      destruct p as [|y p']; [|inversion Hs; subst; contradiction Hne; reflexivity].
      inversion Hs; subst.
      exists []. split; [rewrite app_nil_r; reflexivity | apply bo_reset].
Qed.

Definition is_chunk (e : ev) : Prop := match e with EFin | EReset _ => False | _ => True end.
Definition chunks (l : list ev) : Prop := Forall is_chunk l.

Lemma chunks_app : forall a b, chunks a -> chunks b -> chunks (a ++ b).
Proof. intros a b Ha Hb. apply Forall_app. split; assumption. Qed.
Lemma chunks_tail : forall x a, chunks (x :: a) -> chunks a.
Proof. intros x a H. inversion H; assumption. Qed.

(* a RESET anywhere in a well-formed body is how the body ends *)
Lemma body_ok_reset : forall r p d e c, body_ok r p d e -> In (EReset c) p -> e = EndReset c.
Proof.
  intros r p d e c H. induction H as [|r0 c0|c0|t part q d e Hl Hb IH|r0 bs q d e Hn Hl Hb IH|k q e Ht]; intros Hin.
  - destruct Hin as [Hx|[]]. discriminate Hx.
  - destruct Hin as [Hx|[]]. inversion Hx; reflexivity.
  - destruct Hin as [Hx|[Hx|[]]]; [discriminate Hx | inversion Hx; reflexivity].
  - destruct Hin as [Hx|Hin]; [discriminate Hx | exact (IH Hin)].
  - destruct Hin as [Hx|Hin]; [discriminate Hx | exact (IH Hin)].
  - destruct Hin as [Hx|Hin]; [discriminate Hx|].
    destruct Ht as [[Hq He]|[[c1 [Hq He]]|[c1 [Hq He]]]]; subst q e.
    + destruct Hin as [Hx|[]]. discriminate Hx.
    + destruct Hin as [Hx|[]]. inversion Hx; reflexivity.
    + destruct Hin as [Hx|[Hx|[]]]; [discriminate Hx | inversion Hx; reflexivity].
Qed.

(* terminal events occur only in the last position *)
Lemma body_ok_terminal_last : forall r p d e, body_ok r p d e ->
  forall a x b, p = a ++ x :: b -> b <> [] -> is_chunk x.
Proof.
  intros r p d e H. induction H as [|r0 c0|c0|t part q d e Hl Hb IH|r0 bs q d e Hn Hl Hb IH|k q e Ht]; intros a x b Heq Hb'.
  - destruct a as [|y a']; cbn in Heq; inversion Heq; subst.
    + contradiction Hb'; reflexivity.
    + destruct a'; discriminate.
  - destruct a as [|y a']; cbn in Heq; inversion Heq; subst.
    + contradiction Hb'; reflexivity.
    + destruct a'; discriminate.
  - destruct a as [|y a']; cbn in Heq; inversion Heq; subst.
    + exact I.
    + destruct a' as [|z a'']; cbn in *.
      * inversion H1; subst. contradiction Hb'; reflexivity.
      * inversion H1. destruct a''; discriminate.
  - destruct a as [|y a']; cbn in Heq; inversion Heq; subst.
    + exact I.
    + eapply IH; [reflexivity | exact Hb'].
  - destruct a as [|y a']; cbn in Heq; inversion Heq; subst.
    + exact I.
    + eapply IH; [reflexivity | exact Hb'].
  - destruct a as [|y a']; cbn in Heq; inversion Heq; subst; [exact I|].
    destruct Ht as [[Hq He]|[[c1 [Hq He]]|[c1 [Hq He]]]]; subst e.
    + destruct a' as [|z a'']; cbn in Hq; inversion Hq; subst; [contradiction Hb'; reflexivity | destruct a''; discriminate].
    + destruct a' as [|z a'']; cbn in Hq; inversion Hq; subst; [contradiction Hb'; reflexivity | destruct a''; discriminate].
    + destruct a' as [|z a'']; cbn in Hq; inversion Hq; subst; [exact I|].
      destruct a'' as [|z2 a3]; cbn in *; inversion H1; subst; [contradiction Hb'; reflexivity | destruct a3; discriminate].
Qed.

Lemma body_ok_nonempty : forall r p d e, body_ok r p d e -> p <> [].
Proof. intros r p d e H. destruct H; discriminate. Qed.

Lemma tail_ok_not_chunks : forall q e k, tail_ok q e k -> ~ chunks q.
Proof.
  intros q e k [[Hq _]|[[c [Hq _]]|[c [Hq _]]]] Hc; subst q.
  - inversion Hc as [|? ? Hx ?]; subst. exact Hx.
  - inversion Hc as [|? ? Hx ?]; subst. exact Hx.
  - inversion Hc as [|? ? _ Hc']; subst. inversion Hc' as [|? ? Hx ?]; subst. exact Hx.
Qed.

(* a well-formed body ends with a terminal event: it cannot consist of chunks only *)
Lemma body_ok_not_chunks : forall r p d e, body_ok r p d e -> ~ chunks p.
Proof.
  intros r p d e H. induction H as [|r0 c0|c0|t part q d e Hl Hb IH|r0 bs q d e Hn Hl Hb IH|k q e Ht]; intros Hc.
  - inversion Hc as [|? ? Hx ?]; subst. exact Hx.
  - inversion Hc as [|? ? Hx ?]; subst. exact Hx.
  - inversion Hc as [|? ? _ Hc']; subst. inversion Hc' as [|? ? Hx ?]; subst. exact Hx.
  - apply IH. eapply chunks_tail; exact Hc.
  - apply IH. eapply chunks_tail; exact Hc.
  - apply chunks_tail in Hc. eapply tail_ok_not_chunks; eassumption.
Qed.

(* ------------------------------------------------------------------ stream state invariant *)
Definition fs_ok (f : fstream) : Prop :=
  chunks (buf f) /\ (eos f = true -> exists q, rx f = EFin :: q).
Definition pend (f : fstream) : list ev := buf f ++ rx f.
Definition msr (f : fstream) : nat := length (buf f) + length (rx f).

Definition payload_chunk (p : bytes) : list ev := match p with [] => [] | _ => [EMore p] end.

Lemma body_ok_after_header : forall t part q d e,
  body_ok 0 (EData t part :: q) d e -> body_ok t (payload_chunk part ++ q) d e.
Proof.
  intros t part q d e H. inversion H as [| | |t0 p0 q0 d0 e0 Hl Hb| |]; subst.
  destruct part as [|b part'].
  - cbn [payload_chunk app]. cbn [len length] in Hb. change (N.of_nat 0) with 0 in Hb.
    rewrite N.sub_0_r in Hb. exact Hb.
  - cbn [payload_chunk app]. apply (bo_more t (b :: part') q d0 e); [discriminate | exact Hl | exact Hb].
Qed.

(* ------------------------------------------------------------------ poll_next on a body *)
Definition pn_post (f : fstream) (T : list ev) (d : bytes) (e : ending) (res : pn * fstream) : Prop :=
  match res with
  | (PnPending, f') =>
      fs_ok f' /\ remaining f' = 0 /\ eos f' = false /\ pend f' = pend f /\ rx f' = []
  | (PnErrQuic c, _) => e = EndReset c
  | (PnData t, f') =>
      fs_ok f' /\ remaining f' = t /\ body_ok t (pend f' ++ T) d e /\ (msr f' <= msr f)%nat /\
      (t = 0 -> (msr f' < msr f)%nat)
  | (PnEnd, f') =>
      e = EndFin /\ d = [] /\ fs_ok f' /\ eos f' = true /\ buf f' = [] /\ remaining f' = 0 /\ (msr f' <= msr f)%nat
  | (PnHeaders k, f') =>
      (* the trailer section *)
      d = [] /\ fs_ok f' /\ remaining f' = 0 /\ tail_ok (pend f' ++ T) e k /\ (msr f' < msr f)%nat
  | _ => False
  end.

Lemma decode_data : forall t part b, decode (EData t part :: b) = (DData t, payload_chunk part ++ b).
Proof. intros t part b. destruct part; reflexivity. Qed.

Lemma length_payload_chunk : forall p, (length (payload_chunk p) <= 1)%nat.
Proof. intros p. destruct p; cbn; lia. Qed.

(* what a well-formed body can start with *)
Definition no_trailers (p : list ev) : Prop := forall k rest, p <> EHeaders k :: rest.

Lemma body_head0 : forall p d e, body_ok 0 p d e -> no_trailers p ->
  p = [EFin] \/ (exists c, p = [EReset c]) \/ (exists c, p = [EPartial; EReset c]) \/
  (exists t part q, p = EData t part :: q).
Proof.
  intros p d e H Hnt. inversion H as [|r0 c|c|t part q d0 e0 Hl Hb|r0 bs q d0 e0 Hn Hl Hb|k q e0 Ht]; subst;
    [| | | | |exfalso; eapply Hnt; reflexivity].
  - left; reflexivity.
  - right; left; exists c; reflexivity.
  - right; right; left; exists c; reflexivity.
  - right; right; right; exists t, part, q; reflexivity.
  - exfalso. destruct bs as [|x bs']; [apply Hn; reflexivity | unfold len in Hl; cbn [length] in Hl; lia].
Qed.

Lemma body_head_pos : forall r p d e, r <> 0 -> body_ok r p d e ->
  (exists c, p = [EReset c]) \/
  (exists bs q d', p = EMore bs :: q /\ bs <> [] /\ len bs <= r /\ d = bs ++ d' /\ body_ok (r - len bs) q d' e).
Proof.
  intros r p d e Hr H. inversion H as [|r0 c|c|t part q d0 e0 Hl Hb|r0 bs q d0 e0 Hn Hl Hb|k q e0 Ht]; subst.
  - contradiction Hr; reflexivity.
  - left; exists c; reflexivity.
  - contradiction Hr; reflexivity.
  - contradiction Hr; reflexivity.
  - right. exists bs, q, d0. repeat split; assumption.
  - contradiction Hr; reflexivity.
Qed.

Lemma pn_loop_chunk : forall x q b, is_chunk x ->
  pn_loop (x :: q) b =
  match decode (b ++ [x]) with
  | (DNone, _) => pn_loop q (b ++ [x])
  | _ => decode_or (b ++ [x]) false q PnPending
  end.
Proof. intros x q b Hx. destruct x; try reflexivity; destruct Hx. Qed.

Lemma pn_post_transfer : forall f1 f2 T d e res,
  pend f1 = pend f2 -> msr f1 = msr f2 -> pn_post f1 T d e res -> pn_post f2 T d e res.
Proof.
  intros f1 f2 T d e [r f'] Hp Hm H. destruct r; cbn [pn_post] in *; try exact H.
  - destruct H as (H1 & H2 & H3 & H4 & H5). repeat split; try assumption; try apply H1. congruence.
  - destruct H as (H1 & H2 & H3 & H4 & H5 & H6 & H7). repeat split; try assumption; try apply H3. lia.
  - destruct H as (H1 & H2 & H3 & H4 & H5). repeat split; try assumption; try apply H2. lia.
  - destruct H as (H1 & H2 & H3 & H4 & H5). repeat split; try assumption; try apply H1; lia.
Qed.

(* the buffer of a stream waiting inside a body is empty, a partial frame, or starts with a DATA frame *)
Lemma pn_decode_data : forall t part b' e0 q T d e,
  chunks (EData t part :: b') -> (e0 = true -> exists q', q = EFin :: q') ->
  body_ok 0 ((EData t part :: b') ++ q ++ T) d e ->
  forall f0, pend f0 = (EData t part :: b') ++ q -> msr f0 = (length (EData t part :: b') + length q)%nat ->
  pn_post f0 T d e (decode_or (EData t part :: b') e0 q PnPending).
Proof.
  intros t part b' e0 q T d e Hc He Hb f0 Hp Hm.
  unfold decode_or. rewrite decode_data. cbn [pn_post].
  split; [|split; [reflexivity|split; [|split]]].
  - split; cbn [buf eos rx].
    + apply chunks_app; [destruct part; cbn; constructor; [exact I|constructor] | eapply chunks_tail; exact Hc].
    + exact He.
  - unfold pend. cbn [buf rx]. rewrite <- !app_assoc.
    apply body_ok_after_header. cbn [app] in Hb. exact Hb.
  - unfold msr at 1. cbn [buf rx]. rewrite Hm, app_length. cbn [length].
    pose proof (length_payload_chunk part). lia.
  - intros Ht. subst t.
    cbn [app] in Hb. inversion Hb as [| | |t0 p0 q0 d0 e1 Hl Hb0| |]; subst.
    assert (Hpt : part = []) by (apply len_le0_nil; exact Hl).
    subst part. unfold msr at 1. cbn [buf rx payload_chunk app]. rewrite Hm. cbn [length]. lia.
Qed.

Lemma pn_loop_body : forall q b T d e,
  chunks b -> body_ok 0 (b ++ q ++ T) d e -> no_trailers (b ++ q ++ T) ->
  pn_post {| buf := b; remaining := 0; eos := false; rx := q |} T d e (pn_loop q b).
Proof.
  induction q as [|x q IH]; intros b T d e Hc Hb Hnt.
  - (* transport queue empty *)
    cbn [pn_loop].
    destruct b as [|h b'].
    + cbn. repeat split; try reflexivity; try constructor. intros H; discriminate H.
    + destruct (body_head0 _ _ _ Hb Hnt) as [H|[[c H]|[[c H]|[t [part [q0 H]]]]]]; cbn [app] in H.
      * inversion H; subst. inversion Hc as [|? ? Hx ?]; subst. destruct Hx.
      * inversion H; subst. inversion Hc as [|? ? Hx ?]; subst. destruct Hx.
      * inversion H as [[Hh H2]]; subst h. destruct b' as [|y b''].
        -- cbn. repeat split; try reflexivity.
           ++ constructor; [exact I | constructor].
           ++ intros Hf; discriminate Hf.
        -- cbn in H2. inversion H2; subst.
           inversion Hc as [|? ? _ Hc']; subst. inversion Hc' as [|? ? Hx ?]; subst. destruct Hx.
      * inversion H; subst.
        apply pn_decode_data; try assumption; try reflexivity. intros Hf; discriminate Hf.
  - assert (Hx : x = EFin \/ (exists c, x = EReset c) \/ is_chunk x).
    { destruct x; try (right; right; exact I); [left; reflexivity | right; left; eexists; reflexivity]. }
    destruct Hx as [Hx|[[c Hx]|Hx]].
    + (* FIN next *)
      subst x. cbn [pn_loop].
      destruct b as [|h b'].
      * cbn [app] in Hb. destruct (body_head0 _ _ _ Hb Hnt) as [H|[[c H]|[[c H]|[t [part [q0 H]]]]]]; try discriminate H.
        inversion H; subst. inversion Hb; subst. cbn. split; [reflexivity|]. split; [reflexivity|]. split; [split; cbn; [constructor | intros _; eexists; reflexivity]|]. split; [reflexivity|]. split; [reflexivity|]. split; [reflexivity|]. unfold msr; cbn; rewrite ?Hbuf, ?Hq; cbn; lia.
      * destruct (body_head0 _ _ _ Hb Hnt) as [H|[[c H]|[[c H]|[t [part [q0 H]]]]]]; cbn [app] in H.
        -- inversion H; subst. destruct b'; discriminate.
        -- inversion H; subst. destruct b'; discriminate.
        -- inversion H as [[Hh H2]]; subst. destruct b' as [|y b'']; cbn in H2; [discriminate H2|].
           inversion H2; subst. destruct b''; discriminate.
        -- inversion H; subst.
           replace (end_case (EData t part :: b')) with PnUnexpectedEnd by reflexivity.
           unfold decode_or. rewrite decode_data.
           pose proof (pn_decode_data t part b' true (EFin :: q) T d e Hc) as HH.
           unfold decode_or in HH. rewrite decode_data in HH.
           apply HH; try reflexivity; try assumption. intros _. eexists; reflexivity.
    + (* RESET next *)
      subst x. cbn [pn_loop pn_post]. eapply body_ok_reset; [exact Hb|].
      apply in_or_app; right. left; reflexivity.
    + (* a chunk next *)
      rewrite pn_loop_chunk by exact Hx.
      destruct b as [|h b'].
      * cbn [app] in Hb. cbn [app].
        destruct (body_head0 _ _ _ Hb Hnt) as [H|[[c H]|[[c H]|[t [part [q0 H]]]]]].
        -- inversion H; subst. destruct Hx.
        -- inversion H; subst. destruct Hx.
        -- (* a partial frame arrives, buffer empty: keep reading *)
           inversion H as [[Hh H2]]; subst x. cbn [decode].
           eapply pn_post_transfer; [| |apply IH].
           ++ reflexivity.
           ++ unfold msr; cbn; lia.
           ++ constructor; [exact I | constructor].
           ++ cbn [app]. exact Hb.
           ++ cbn [app]. exact Hnt.
        -- (* a DATA frame arrives, buffer empty *)
           inversion H; subst. rewrite decode_data.
           eapply pn_decode_data; try reflexivity.
           ++ constructor; [exact I | constructor].
           ++ intros Hf; discriminate Hf.
           ++ exact Hb.
      * destruct (body_head0 _ _ _ Hb Hnt) as [H|[[c H]|[[c H]|[t [part [q0 H]]]]]]; cbn [app] in H.
        -- inversion H; subst. inversion Hc as [|? ? Hy ?]; subst. destruct Hy.
        -- inversion H; subst. inversion Hc as [|? ? Hy ?]; subst. destruct Hy.
        -- inversion H as [[Hh H2]]; subst h. destruct b' as [|y b'']; cbn in H2.
           ++ inversion H2; subst. destruct Hx.
           ++ inversion H2. destruct b''; discriminate.
        -- inversion H; subst. cbn [app]. rewrite decode_data.
           change (EData t part :: b' ++ [x]) with ((EData t part :: b' ++ [x])).
           eapply (pn_decode_data t part (b' ++ [x]) false q T d e).
           ++ constructor; [exact I|]. apply chunks_app; [eapply chunks_tail; exact Hc | constructor; [exact Hx | constructor]].
           ++ intros Hf; discriminate Hf.
           ++ cbn [app]. rewrite <- app_assoc. cbn [app]. exact Hb.
           ++ unfold pend. cbn [buf rx app]. rewrite <- app_assoc. reflexivity.
           ++ unfold msr. cbn [buf rx length]. rewrite app_length. cbn [length]. lia.
Qed.


Lemma fstream_eta : forall f, f = {| buf := buf f; remaining := remaining f; eos := eos f; rx := rx f |}.
Proof. intros f. destruct f; reflexivity. Qed.

Lemma pn_body_data : forall f T d e,
  fs_ok f -> remaining f = 0 -> body_ok 0 (pend f ++ T) d e -> no_trailers (pend f ++ T) ->
  pn_post f T d e (poll_next f).
Proof.
  intros f T d e [Hc He] Hr Hb Hnt. unfold poll_next. rewrite Hr. cbn [N.eqb negb].
  change (0 =? 0) with true. cbn [negb].
  unfold pend in Hb, Hnt. rewrite <- app_assoc in Hb, Hnt.
  destruct (eos f) eqn:Heos.
  - (* the end of the stream was seen before *)
    destruct (He eq_refl) as [q Hq]. rewrite Hq in *.
    destruct (buf f) as [|h b'] eqn:Hbuf.
    + cbn [app] in Hb. destruct (body_head0 _ _ _ Hb Hnt) as [H|[[c H]|[[c H]|[t [part [q0 H]]]]]]; try discriminate H.
      inversion H; subst. inversion Hb; subst. cbn. split; [reflexivity|]. split; [reflexivity|]. split; [split; cbn; [constructor | intros _; eexists; reflexivity]|]. split; [reflexivity|]. split; [reflexivity|]. split; [reflexivity|]. unfold msr; cbn; rewrite ?Hbuf, ?Hq; cbn; lia.
    + destruct (body_head0 _ _ _ Hb Hnt) as [H|[[c H]|[[c H]|[t [part [q0 H]]]]]]; cbn [app] in H.
      * inversion H; subst. destruct b'; discriminate.
      * inversion H; subst. destruct b'; discriminate.
      * inversion H as [[Hh H2]]; subst. destruct b' as [|y b'']; cbn in H2; [discriminate H2|].
        inversion H2; subst. destruct b''; discriminate.
      * inversion H; subst.
        replace (end_case (EData t part :: b')) with PnUnexpectedEnd by reflexivity.
        unfold decode_or. rewrite decode_data.
        pose proof (pn_decode_data t part b' true (EFin :: q) T d e Hc) as HH.
        unfold decode_or in HH. rewrite decode_data in HH.
        apply HH; try assumption.
        -- unfold pend. rewrite Hbuf, Hq. reflexivity.
        -- unfold msr. rewrite Hbuf, Hq. reflexivity.
  - eapply pn_post_transfer; [| |apply pn_loop_body; [exact Hc | exact Hb | exact Hnt]].
    + reflexivity.
    + reflexivity.
Qed.

Lemma decode_headers : forall k b, decode (EHeaders k :: b) = (DHeaders k, b).
Proof. reflexivity. Qed.

(* the next thing to decode is a trailer section *)
Lemma pn_headers : forall f T d e k rest,
  fs_ok f -> remaining f = 0 -> body_ok 0 (pend f ++ T) d e -> pend f ++ T = EHeaders k :: rest ->
  pn_post f T d e (poll_next f).
Proof.
  intros f T d e k rest [Hc He] Hr Hb Heq.
  assert (Hd : d = [] /\ tail_ok rest e k).
  { rewrite Heq in Hb. inversion Hb as [| | | | |k0 q0 e0 Ht]; subst. split; [reflexivity | exact Ht]. }
  destruct Hd as [Hd Ht]. subst d.
  unfold poll_next. rewrite Hr. change (negb (0 =? 0)) with false. cbn iota.
  unfold pend in Heq. rewrite <- app_assoc in Heq.
  assert (Hdone : forall b' e0 q nc, buf f = EHeaders k :: b' -> rx f = q -> (e0 = true -> exists q', q = EFin :: q') ->
            pn_post f T [] e (decode_or (EHeaders k :: b') e0 q nc)).
  { intros b' e0 q nc Hbuf Hrx He0. unfold decode_or. rewrite decode_headers. cbn [pn_post].
    rewrite Hbuf, Hrx in Heq. cbn [app] in Heq. injection Heq as Heq.
    split; [reflexivity|]. split; [|split; [reflexivity|split]].
    - split; cbn [buf eos rx]; [rewrite Hbuf in Hc; eapply chunks_tail; exact Hc | exact He0].
    - unfold pend. cbn [buf rx]. rewrite <- app_assoc, Heq. exact Ht.
    - unfold msr. cbn [buf rx]. rewrite Hbuf, Hrx. cbn [length]. lia. }
  destruct (eos f) eqn:Heos.
  - destruct (He eq_refl) as [q0 Hq]. destruct (buf f) as [|h b'] eqn:Hbuf.
    + rewrite Hq in Heq. cbn in Heq. discriminate Heq.
    + cbn [app] in Heq. injection Heq as Hh _. subst h. apply Hdone; [reflexivity | reflexivity|].
      intros _. eexists; exact Hq.
  - destruct (buf f) as [|h b'] eqn:Hbuf.
    + cbn [app] in Heq. destruct (rx f) as [|x q] eqn:Hrx.
      * cbn. split; [split; cbn; [constructor | intros Hf; discriminate Hf]|].
        split; [reflexivity|]. split; [reflexivity|]. split; [unfold pend; rewrite Hbuf, Hrx; reflexivity | reflexivity].
      * cbn [app] in Heq. injection Heq as Hx Hrest. subst x.
        rewrite pn_loop_chunk by exact I. cbn [app]. rewrite decode_headers.
        unfold decode_or. rewrite decode_headers. cbn [pn_post].
        split; [reflexivity|]. split; [|split; [reflexivity|split]].
        -- split; cbn; [constructor | intros Hf; discriminate Hf].
        -- unfold pend. cbn. rewrite Hrest. exact Ht.
        -- unfold msr. rewrite Hbuf, Hrx. cbn. lia.
    + cbn [app] in Heq. injection Heq as Hh Hrest. subst h.
      destruct (rx f) as [|x q] eqn:Hrx.
      * cbn [pn_loop]. apply Hdone; [reflexivity | reflexivity | intros Hf; discriminate Hf].
      * assert (Hx : x = EFin \/ (exists c, x = EReset c) \/ is_chunk x).
        { destruct x; try (right; right; exact I); [left; reflexivity | right; left; eexists; reflexivity]. }
        destruct Hx as [Hx|[[c Hx]|Hx]].
        -- subst x. cbn [pn_loop]. apply Hdone; [reflexivity | reflexivity|]. intros _. eexists; reflexivity.
        -- subst x. cbn [pn_loop pn_post]. eapply body_ok_reset; [exact Hb|].
           unfold pend. rewrite Hbuf, Hrx. apply in_or_app; left. apply in_or_app; right. left; reflexivity.
        -- rewrite pn_loop_chunk by exact Hx. cbn [app]. rewrite decode_headers.
           unfold decode_or. rewrite decode_headers. cbn [pn_post].
           split; [reflexivity|]. split; [|split; [reflexivity|split]].
           ++ split; cbn [buf eos rx]; [|intros Hf; discriminate Hf].
              apply chunks_app; [eapply chunks_tail; exact Hc | constructor; [exact Hx | constructor]].
           ++ unfold pend. cbn [buf rx]. rewrite <- !app_assoc. rewrite <- Hrest in Ht. exact Ht.
           ++ unfold msr. cbn [buf rx]. rewrite Hbuf, Hrx, app_length. cbn [length]. lia.
Qed.

Lemma pn_body : forall f T d e,
  fs_ok f -> remaining f = 0 -> body_ok 0 (pend f ++ T) d e -> pn_post f T d e (poll_next f).
Proof.
  intros f T d e Hok Hr Hb.
  destruct (pend f ++ T) as [|x rest] eqn:Heq.
  - exfalso. eapply body_ok_nonempty; [exact Hb | reflexivity].
  - destruct x as [k|t part|bs| | |c]; try (rewrite <- Heq in Hb; apply pn_body_data; try assumption; rewrite Heq; intros k0 r0 Hf; discriminate Hf).
    rewrite <- Heq in Hb. eapply pn_headers; eassumption.
Qed.

(* ------------------------------------------------------------------ poll_data inside a DATA payload *)
Definition pd_post (f : fstream) (T : list ev) (d : bytes) (e : ending) (res : pd * fstream) : Prop :=
  match res with
  | (PdPending, f') => f' = f /\ rx f = [] /\ buf f = []
  | (PdErrQuic c, _) => e = EndReset c
  | (PdSome bs, f') =>
      fs_ok f' /\ (msr f' < msr f)%nat /\
      exists d', d = bs ++ d' /\ body_ok (remaining f') (pend f' ++ T) d' e
  | _ => False
  end.

Lemma take_chunk_whole : forall r bs b', len bs <= r -> bs <> [] -> take_chunk r (EMore bs :: b') = TkGot bs b'.
Proof.
  intros r bs b' Hl Hn. cbn [take_chunk].
  assert (Hm : N.to_nat (N.min r (len bs)) = length bs) by (unfold len in *; lia).
  rewrite Hm, skipn_all, firstn_all. reflexivity.
Qed.

Definition pd_tail (fin : bool) (f1 : fstream) : pd * fstream :=
  match take_chunk (remaining f1) (buf f1) with
  | TkUnmodelled => (PdUnmodelled, f1)
  | TkEmpty => if fin then (PdUnexpectedEnd, f1) else (PdPending, f1)
  | TkGot d0 b0 =>
      if fin && (len d0 <? remaining f1) && (match b0 with [] => true | _ => false end)
      then (PdUnexpectedEnd, set_buf_rem b0 (remaining f1) f1)
      else (PdSome d0, set_buf_rem b0 (remaining f1 - len d0) f1)
  end.

Lemma poll_data_unfold : forall f,
  poll_data f =
  if remaining f =? 0 then (PdNone, f) else
  match try_recv f with
  | (TErr c, s1) => (PdErrQuic c, s1)
  | (TEnd, s1) => pd_tail true s1
  | (_, s1) => pd_tail false s1
  end.
Proof.
  intros f. unfold poll_data, pd_tail. destruct (remaining f =? 0); [reflexivity|].
  destruct (try_recv f) as [[| | |c] s1]; reflexivity.
Qed.

Lemma pd_take : forall f1 f T d e r bs b',
  remaining f1 = r -> r <> 0 -> buf f1 = EMore bs :: b' -> chunks (buf f1) ->
  (eos f1 = true -> exists q, rx f1 = EFin :: q) ->
  body_ok r (pend f1 ++ T) d e -> (msr f1 <= msr f)%nat ->
  forall fin : bool, (fin = true -> exists q, rx f1 = EFin :: q) ->
  pd_post f T d e (pd_tail fin f1).
Proof.
  intros f1 f T d e r bs b' Hr Hr0 Hbuf Hc He Hb Hm fin Hfin.
  unfold pd_tail. unfold pend in Hb. rewrite Hbuf in Hb. cbn [app] in Hb. rewrite <- app_assoc in Hb.
  destruct (body_head_pos _ _ _ _ Hr0 Hb) as [[c H]|[bs0 [q0 [d' [H [Hn [Hl [Hd Hb']]]]]]]]; [discriminate H|].
  inversion H; subst bs0 q0. clear H.
  rewrite Hr, Hbuf, (take_chunk_whole r bs b' Hl Hn).
  assert (Hcond : fin && (len bs <? r) && (match b' with [] => true | _ => false end) = false).
  { destruct fin; [|reflexivity]. destruct (len bs <? r) eqn:Hlt; [|reflexivity].
    destruct b' as [|y b'']; [|reflexivity]. exfalso.
    destruct (Hfin eq_refl) as [q Hq]. rewrite Hq in Hb'. cbn [app] in Hb'.
    apply N.ltb_lt in Hlt.
    assert (Hpos : r - len bs <> 0) by lia.
    destruct (body_head_pos _ _ _ _ Hpos Hb') as [[c H]|[bs0 [q0 [d'' [H _]]]]]; discriminate H. }
  rewrite Hcond. cbn [pd_post].
  split; [|split].
  - split; cbn [set_buf_rem buf eos rx].
    + rewrite Hbuf in Hc. eapply chunks_tail; exact Hc.
    + exact He.
  - unfold msr in *. cbn [set_buf_rem buf rx]. rewrite Hbuf in Hm. cbn [length] in Hm. lia.
  - exists d'. split; [exact Hd|]. unfold pend. cbn [set_buf_rem buf rx remaining].
    rewrite <- app_assoc. exact Hb'.
Qed.

Lemma pd_body : forall f T d e,
  fs_ok f -> remaining f <> 0 -> body_ok (remaining f) (pend f ++ T) d e -> pd_post f T d e (poll_data f).
Proof.
  intros f T d e [Hc He] Hr Hb. rewrite poll_data_unfold.
  destruct (remaining f =? 0) eqn:Hz; [apply N.eqb_eq in Hz; contradiction|]. clear Hz.
  unfold try_recv.
  assert (Hhead : forall b, buf f = b -> b = [] \/ exists bs b', b = EMore bs :: b').
  { intros b Hbuf. destruct b as [|h b']; [left; reflexivity|right].
    unfold pend in Hb. rewrite Hbuf in Hb. cbn [app] in Hb. rewrite <- app_assoc in Hb.
    destruct (body_head_pos _ _ _ _ Hr Hb) as [[c H]|[bs0 [q0 [d' [H _]]]]].
    - inversion H; subst. rewrite Hbuf in Hc. inversion Hc as [|? ? Hx ?]; subst. destruct Hx.
    - inversion H; subst. eexists; eexists; reflexivity. }
  destruct (eos f) eqn:Heos.
  - (* end already seen: what is buffered must be payload *)
    destruct (He eq_refl) as [q Hq].
    destruct (Hhead _ eq_refl) as [Hnil|[bs [b' Hbuf]]].
    + exfalso. unfold pend in Hb. rewrite Hnil, Hq in Hb. cbn [app] in Hb.
      destruct (body_head_pos _ _ _ _ Hr Hb) as [[c H]|[bs0 [q0 [d' [H _]]]]]; discriminate H.
    + eapply (pd_take f f T d e (remaining f) bs b'); try reflexivity; try assumption; try lia.
      intros _. exists q. exact Hq.
  - assert (He2 : eos f = true -> False) by (rewrite Heos; intros Hf; discriminate Hf).
    destruct (rx f) as [|x q] eqn:Hrx.
    + (* nothing to read *)
      destruct (Hhead _ eq_refl) as [Hnil|[bs [b' Hbuf]]].
      * unfold pd_tail. rewrite Hnil. cbn [take_chunk pd_post]. split; [reflexivity | split; [exact Hrx | exact Hnil]].
      * eapply (pd_take f f T d e (remaining f) bs b' eq_refl Hr Hbuf Hc (fun H => False_ind _ (He2 H)) Hb (le_n _) false).
        intros Hf; discriminate Hf.
    + assert (Hx : x = EFin \/ (exists c, x = EReset c) \/ is_chunk x).
      { destruct x; try (right; right; exact I); [left; reflexivity | right; left; eexists; reflexivity]. }
      destruct Hx as [Hx|[[c Hx]|Hx]].
      * subst x.
        set (f1 := {| buf := buf f; remaining := remaining f; eos := true; rx := EFin :: q |}).
        destruct (Hhead _ eq_refl) as [Hnil|[bs [b' Hbuf]]].
        -- exfalso. unfold pend in Hb. rewrite Hnil, Hrx in Hb. cbn [app] in Hb.
           destruct (body_head_pos _ _ _ _ Hr Hb) as [[c H]|[bs0 [q0 [d' [H _]]]]]; discriminate H.
        -- eapply (pd_take f1 f T d e (remaining f) bs b'); try reflexivity; try assumption.
           ++ intros _. exists q. reflexivity.
           ++ unfold pend, f1. cbn [buf rx]. unfold pend in Hb. rewrite Hrx in Hb. exact Hb.
           ++ unfold msr, f1. cbn [buf rx]. rewrite Hrx. lia.
           ++ intros _. exists q. reflexivity.
      * subst x. cbn [pd_post]. eapply body_ok_reset; [exact Hb|].
        unfold pend. rewrite Hrx. apply in_or_app; left. apply in_or_app; right. left; reflexivity.
      * (* a chunk is read *)
        assert (Heq : (match x with
                       | EFin => (TEnd, {| buf := buf f; remaining := remaining f; eos := true; rx := x :: q |})
                       | EReset c => (TErr c, f)
                       | _ => (TMore, {| buf := buf f ++ [x]; remaining := remaining f; eos := false; rx := q |})
                       end) = (TMore, {| buf := buf f ++ [x]; remaining := remaining f; eos := false; rx := q |})).
        { destruct x; try reflexivity; destruct Hx. }
        rewrite Heq. clear Heq.
        set (f1 := {| buf := buf f ++ [x]; remaining := remaining f; eos := false; rx := q |}).
        assert (Hpend : pend f1 = pend f).
        { unfold pend, f1. cbn [buf rx]. rewrite Hrx, <- app_assoc. reflexivity. }
        assert (Hbuf1 : exists bs b', buf f1 = EMore bs :: b').
        { destruct (Hhead _ eq_refl) as [Hnil|[bs [b' Hbuf]]].
          - unfold f1. cbn [buf]. rewrite Hnil. cbn [app].
            unfold pend in Hb. rewrite Hnil, Hrx in Hb. cbn [app] in Hb.
            destruct (body_head_pos _ _ _ _ Hr Hb) as [[c H]|[bs0 [q0 [d' [H _]]]]].
            + inversion H; subst. destruct Hx.
            + inversion H; subst. eexists; eexists; reflexivity.
          - unfold f1. cbn [buf]. rewrite Hbuf. cbn [app]. eexists; eexists; reflexivity. }
        destruct Hbuf1 as [bs [b' Hbuf1]].
        eapply (pd_take f1 f T d e (remaining f) bs b'); try reflexivity; try assumption.
        -- unfold f1. cbn [buf]. apply chunks_app; [exact Hc | constructor; [exact Hx | constructor]].
        -- intros Hf; discriminate Hf.
        -- rewrite Hpend. exact Hb.
        -- unfold msr, f1. cbn [buf rx]. rewrite Hrx, app_length. cbn [length]. lia.
        -- intros Hf; discriminate Hf.
Qed.

(* ------------------------------------------------------------------ RequestStream::poll_recv_data on a body *)
Definition rd_post (sh : shared) (f : fstream) (T : list ev) (d : bytes) (e : ending)
                   (res : rd * shared * fstream) : Prop :=
  match res with
  | (RdPending, sh', f') =>
      sh' = sh /\ fs_ok f' /\ body_ok (remaining f') (pend f' ++ T) d e /\ (msr f' <= msr f)%nat /\ rx f' = []
  | (RdSome bs, sh', f') =>
      sh' = sh /\ fs_ok f' /\ (msr f' < msr f)%nat /\
      exists d', d = bs ++ d' /\ body_ok (remaining f') (pend f' ++ T) d' e
  | (RdNone, sh', f') =>
      sh' = sh /\ e = EndFin /\ d = [] /\ fs_ok f' /\ eos f' = true /\ buf f' = [] /\ remaining f' = 0 /\
      (msr f' <= msr f)%nat
  | (RdTrailers k, sh', f') =>
      sh' = sh /\ d = [] /\ fs_ok f' /\ remaining f' = 0 /\ tail_ok (pend f' ++ T) e k /\ (msr f' < msr f)%nat
  | (RdErr er, sh', _) => sh' = sh /\ exists c, e = EndReset c /\ er = quic_serr c
  | _ => False
  end.

Lemma msr_pend : forall f, msr f = length (pend f).
Proof. intros f. unfold msr, pend. rewrite app_length. reflexivity. Qed.

Lemma rd_post_mono : forall sh f1 f2 T d e res,
  (msr f1 <= msr f2)%nat -> rd_post sh f1 T d e res -> rd_post sh f2 T d e res.
Proof.
  intros sh f1 f2 T d e [[r sh'] f'] Hm H. destruct r; cbn [rd_post] in *; try exact H.
  - destruct H as (H1 & H2 & H3 & H4 & H5). repeat split; try assumption; try apply H2. lia.
  - destruct H as (H1 & H2 & H3 & H4). repeat split; try assumption; try apply H2. lia.
  - destruct H as (H1 & H2 & H3 & H4 & H5 & H6 & H7 & H8). repeat split; try assumption; try apply H4. lia.
  - destruct H as (H1 & H2 & H3 & H4 & H5 & H6). repeat split; try assumption; try apply H3. lia.
Qed.

Lemma recv_loop_body : forall fuel sh f T d e,
  fs_ok f -> body_ok (remaining f) (pend f ++ T) d e ->
  (remaining f = 0 -> (msr f < fuel)%nat) ->
  rd_post sh f T d e (recv_data_loop fuel sh f).
Proof.
  induction fuel as [|n IH]; intros sh f T d e Hok Hb Hfuel.
  - cbn [recv_data_loop]. destruct (remaining f =? 0) eqn:Hz.
    + apply N.eqb_eq in Hz. specialize (Hfuel Hz). lia.
    + apply N.eqb_neq in Hz. pose proof (pd_body f T d e Hok Hz Hb) as Hpd.
      destruct (poll_data f) as [[|bs| |c| |] f']; cbn [pd_post rd_post] in *; try contradiction.
      * destruct Hpd as (Hf & Hrx & Hbuf). subst f'. repeat split; try assumption; try apply Hok. lia.
      * destruct Hpd as (H1 & H2 & H3). repeat split; try assumption; apply H1.
      * rewrite fse_quic_eq. split; [reflexivity|]. exists c. split; [exact Hpd | reflexivity].
  - cbn [recv_data_loop]. destruct (remaining f =? 0) eqn:Hz.
    + apply N.eqb_eq in Hz. specialize (Hfuel Hz). rewrite Hz in Hb.
      pose proof (pn_body f T d e Hok Hz Hb) as Hpn.
      destruct (poll_next f) as [[| |k|t|c| | |s] f']; cbn [pn_post rd_post] in *; try contradiction.
      * destruct Hpn as (H1 & H2 & H3 & H4 & H5). repeat split; try assumption; try apply H1.
        -- rewrite H2, H4. exact Hb.
        -- rewrite !msr_pend, H4. lia.
      * destruct Hpn as (H1 & H2 & H3 & H4 & H5 & H6 & H7). repeat split; try assumption; apply H3.
      * destruct Hpn as (H1 & H2 & H3 & H4 & H5). repeat split; try assumption; apply H2.
      * destruct Hpn as (H1 & H2 & H3 & H4 & H5).
        eapply rd_post_mono; [exact H4|]. apply IH; [exact H1 | rewrite H2; exact H3 |].
        intros Hr0. rewrite H2 in Hr0. specialize (H5 Hr0). lia.
      * rewrite fse_quic_eq. split; [reflexivity|]. exists c. split; [exact Hpn | reflexivity].
    + apply N.eqb_neq in Hz. pose proof (pd_body f T d e Hok Hz Hb) as Hpd.
      destruct (poll_data f) as [[|bs| |c| |] f']; cbn [pd_post rd_post] in *; try contradiction.
      * destruct Hpd as (Hf & Hrx & Hbuf). subst f'. repeat split; try assumption; try apply Hok. lia.
      * destruct Hpd as (H1 & H2 & H3). repeat split; try assumption; apply H1.
      * rewrite fse_quic_eq. split; [reflexivity|]. exists c. split; [exact Hpd | reflexivity].
Qed.

Lemma poll_recv_data_body : forall sh f T d e,
  fs_ok f -> body_ok (remaining f) (pend f ++ T) d e -> rd_post sh f T d e (poll_recv_data sh f).
Proof.
  intros sh f T d e Hok Hb. unfold poll_recv_data. apply recv_loop_body; try assumption.
  intros _. unfold msr. lia.
Qed.

(* ------------------------------------------------------------------ Pending means the transport queue is exhausted *)
Lemma decode_or_pending : forall b e q nc f', decode_or b e q nc = (PnPending, f') -> nc = PnPending /\ rx f' = q /\ eos f' = e.
Proof.
  intros b e q nc f' H. unfold decode_or in H. destruct (decode b) as [[|k|t|] b']; inversion H; subst; cbn; auto.
Qed.

Lemma pn_loop_pending : forall q b f', pn_loop q b = (PnPending, f') -> rx f' = [] /\ eos f' = false.
Proof.
  induction q as [|x q IH]; intros b f' H; cbn [pn_loop] in H.
  - apply decode_or_pending in H. destruct H as (_ & H1 & H2). split; assumption.
  - destruct x as [k|t part|bs| | |c].
    + destruct (decode (b ++ [EHeaders k])) as [[|k'|t'|] b'] eqn:Hd; try (apply IH in H; exact H);
        unfold decode_or in H; rewrite Hd in H; discriminate H.
    + destruct (decode (b ++ [EData t part])) as [[|k'|t'|] b'] eqn:Hd; try (apply IH in H; exact H);
        unfold decode_or in H; rewrite Hd in H; discriminate H.
    + destruct (decode (b ++ [EMore bs])) as [[|k'|t'|] b'] eqn:Hd; try (apply IH in H; exact H);
        unfold decode_or in H; rewrite Hd in H; discriminate H.
    + destruct (decode (b ++ [EPartial])) as [[|k'|t'|] b'] eqn:Hd; try (apply IH in H; exact H);
        unfold decode_or in H; rewrite Hd in H; discriminate H.
    + apply decode_or_pending in H. destruct H as (Hnc & _). destruct b; discriminate Hnc.
    + discriminate H.
Qed.

Lemma poll_next_pending : forall f f', poll_next f = (PnPending, f') -> rx f' = [] /\ eos f' = false.
Proof.
  intros f f' H. unfold poll_next in H. destruct (negb (remaining f =? 0)); [discriminate H|].
  destruct (eos f).
  - apply decode_or_pending in H. destruct H as (Hnc & _). destruct (buf f); discriminate Hnc.
  - eapply pn_loop_pending. exact H.
Qed.

Lemma pd_tail_pending : forall fin f1 f', pd_tail fin f1 = (PdPending, f') -> buf f1 = [] /\ fin = false /\ f' = f1.
Proof.
  intros fin f1 f' H. unfold pd_tail in H.
  destruct (buf f1) as [|h b]; cbn [take_chunk] in H.
  - destruct fin; [discriminate H|]. injection H as H. auto.
  - destruct h; try discriminate H.
    destruct (skipn (N.to_nat (N.min (remaining f1) (len bs))) bs);
      match type of H with (if ?c then _ else _) = _ => destruct c; discriminate H end.
Qed.

Lemma poll_data_pending : forall f f', poll_data f = (PdPending, f') -> rx f' = [] /\ eos f' = false.
Proof.
  intros f f' H. rewrite poll_data_unfold in H. destruct (remaining f =? 0); [discriminate H|].
  unfold try_recv in H. destruct (eos f) eqn:He.
  - apply pd_tail_pending in H. destruct H as (_ & Hf & _). discriminate Hf.
  - destruct (rx f) as [|x q] eqn:Hrx.
    + apply pd_tail_pending in H. destruct H as (_ & _ & Hf). subst f'. split; assumption.
    + destruct x as [k|t part|bs| | |c]; try discriminate H;
        apply pd_tail_pending in H; destruct H as (Hb & Hf & _); try discriminate Hf;
        cbn [buf] in Hb; destruct (buf f); discriminate Hb.
Qed.

Lemma recv_data_loop_pending : forall fuel s f s' f',
  recv_data_loop fuel s f = (RdPending, s', f') -> rx f' = [] /\ eos f' = false.
Proof.
  induction fuel as [|n IH]; intros s f s' f' H; cbn [recv_data_loop] in H.
  - destruct (remaining f =? 0); [discriminate H|].
    destruct (poll_data f) as [[|d| |c| |] f1] eqn:Hp; try discriminate H;
      try (destruct (fse_quic c s); discriminate H); try (destruct (fse_end s); discriminate H).
    injection H as H1 H2. subst. eapply poll_data_pending; exact Hp.
  - destruct (remaining f =? 0).
    + destruct (poll_next f) as [[| |k|t|c| | |m] f1] eqn:Hp; try discriminate H;
        try (destruct (fse_quic c s); discriminate H); try (destruct (fse_end s); discriminate H).
      * injection H as H1 H2. subst. eapply poll_next_pending; exact Hp.
      * eapply IH; exact H.
    + destruct (poll_data f) as [[|d| |c| |] f1] eqn:Hp; try discriminate H;
        try (destruct (fse_quic c s); discriminate H); try (destruct (fse_end s); discriminate H).
      injection H as H1 H2. subst. eapply poll_data_pending; exact Hp.
Qed.

(* ------------------------------------------------------------------ after a trailer section: only the end of the stream *)
Definition pn_tail_post (f : fstream) (e : ending) (k : hkind) (res : pn * fstream) : Prop :=
  match res with
  | (PnPending, f') => fs_ok f' /\ remaining f' = 0 /\ pend f' = pend f /\ rx f' = []
  | (PnEnd, _) => e = EndFinT k
  | (PnErrQuic c, _) => e = EndReset c
  | _ => False
  end.

Lemma pn_tail : forall f T e k,
  fs_ok f -> remaining f = 0 -> tail_ok (pend f ++ T) e k -> pn_tail_post f e k (poll_next f).
Proof.
  intros [b r es q] T e k [Hc He] Hr Ht. cbn [buf remaining eos rx] in *. subst r.
  unfold pend in Ht. cbn [buf rx] in Ht.
  unfold poll_next. cbn [remaining eos buf rx]. change (negb (0 =? 0)) with false. cbn iota.
  destruct Ht as [[Hp He']|[[c [Hp He']]|[c [Hp He']]]]; subst e.
  - (* FIN *)
    destruct b as [|x b]; [|exfalso; cbn in Hp; injection Hp as Hx _; subst x; inversion Hc as [|? ? Hy ?]; exact Hy].
    cbn [app] in Hp. destruct q as [|y q].
    + destruct es; [destruct (He eq_refl) as [? Hf]; discriminate Hf|].
      cbn. repeat split; try constructor. intros Hf; discriminate Hf.
    + cbn [app] in Hp. injection Hp as Hy _. subst y. destruct es; cbn; reflexivity.
  - (* RESET *)
    destruct b as [|x b]; [|exfalso; cbn in Hp; injection Hp as Hx _; subst x; inversion Hc as [|? ? Hy ?]; exact Hy].
    cbn [app] in Hp. destruct q as [|y q].
    + destruct es; [destruct (He eq_refl) as [? Hf]; discriminate Hf|].
      cbn. repeat split; try constructor. intros Hf; discriminate Hf.
    + cbn [app] in Hp. injection Hp as Hy _. subst y.
      destruct es; [destruct (He eq_refl) as [? Hf]; discriminate Hf|]. cbn. reflexivity.
  - (* a truncated frame, then RESET *)
    destruct es.
    { exfalso. destruct (He eq_refl) as [q' Hq]. subst q.
      destruct b as [|x1 [|x2 b]]; cbn in Hp; try discriminate Hp.
      injection Hp as _ _ Hp. destruct b; discriminate Hp. }
    destruct b as [|x1 b].
    + cbn [app] in Hp. destruct q as [|y1 q].
      * cbn. repeat split; try constructor. intros Hf; discriminate Hf.
      * cbn [app] in Hp. injection Hp as Hy Hp. subst y1. destruct q as [|y2 q].
        -- cbn. repeat split; try reflexivity.
           ++ constructor; [exact I | constructor].
           ++ intros Hf; discriminate Hf.
        -- cbn [app] in Hp. injection Hp as Hy _. subst y2. cbn. reflexivity.
    + cbn [app] in Hp. injection Hp as Hx Hp. subst x1.
      destruct b as [|x2 b].
      * cbn [app] in Hp. destruct q as [|y1 q].
        -- cbn. repeat split; try reflexivity.
           ++ constructor; [exact I | constructor].
           ++ intros Hf; discriminate Hf.
        -- cbn [app] in Hp. injection Hp as Hy _. subst y1. cbn. reflexivity.
      * exfalso. cbn [app] in Hp. injection Hp as Hx _. subst x2.
        inversion Hc as [|? ? _ Hc']; subst. inversion Hc' as [|? ? Hy ?]; exact Hy.
Qed.

Lemma poll_next_at_end : forall f, eos f = true -> buf f = [] -> remaining f = 0 -> poll_next f = (PnEnd, f).
Proof. intros [b r es q] He Hb Hr. cbn in *. subst. reflexivity. Qed.
