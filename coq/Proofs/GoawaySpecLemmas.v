(* The one-pass monitor of Spec/GoawaySpec.v is sound and complete for the trace predicate [line]. *)
From H3V Require Import Base.Bytes Base.BytesLemmas Spec.GoawaySpec.
From Coq Require Import ZifyBool ZifyN.

Lemma snoc_split {A} (a b t : list A) (x e : A) :
  t ++ [e] = a ++ x :: b ->
  (b = [] /\ a = t /\ x = e) \/ (exists b', b = b' ++ [e] /\ t = a ++ x :: b').
Proof.
  intros H0. symmetry in H0. revert t H0. induction a as [|y a IH]; intros t H; cbn in H.
  - destruct t as [|z t]; cbn in H.
    + inversion H; subst. left. auto.
    + inversion H; subst. right. exists t. auto.
  - destruct t as [|z t]; cbn in H.
    + inversion H as [[Hy Ha]]. destruct a; discriminate Ha.
    + inversion H as [[Hy Ha]]; subst. destruct (IH _ Ha) as [(Hb & Hat & Hx)|(b' & Hb & Ht)].
      * left. subst. auto.
      * right. exists b'. subst. auto.
Qed.

Lemma last_wire_snoc t e :
  last_wire (t ++ [e]) = match e with EWire g => Some g | _ => last_wire t end.
Proof.
  induction t as [|x t IH]; cbn [app last_wire].
  - destruct e; reflexivity.
  - rewrite IH. destruct e; try reflexivity.
Qed.

Lemma waiting_snoc t e : waiting (t ++ [e]) = waiting_step (waiting t) e.
Proof. unfold waiting. rewrite fold_left_app. reflexivity. Qed.

Definition mon_bind (o : option mon) (e : gev) : option mon :=
  match o with Some m => mon_step m e | None => None end.

Lemma mon_run_snoc t : forall m e, mon_run m (t ++ [e]) = mon_bind (mon_run m t) e.
Proof.
  induction t as [|x t IH]; intros m e; cbn [app mon_run mon_bind].
  - destruct (mon_step m e); reflexivity.
  - destruct (mon_step m x); [apply IH|reflexivity].
Qed.

Lemma mon_run_app t1 : forall m t2,
  mon_run m (t1 ++ t2) = match mon_run m t1 with Some m' => mon_run m' t2 | None => None end.
Proof.
  induction t1 as [|x t IH]; intros m t2; cbn [app mon_run]; [reflexivity|].
  destruct (mon_step m x); [apply IH|reflexivity].
Qed.

Lemma memb_In x l : memb x l = true <-> In x l.
Proof.
  unfold memb. rewrite existsb_exists. split.
  - intros (y & Hy & E). apply N.eqb_eq in E. subst. exact Hy.
  - intros H. exists x. split; [exact H|apply N.eqb_refl].
Qed.

Lemma code_is_spec c k : code_is c k = true <-> c = Some k.
Proof.
  destruct c as [x|]; cbn [code_is]; split; intros H; try discriminate.
  - apply N.eqb_eq in H. subst. reflexivity.
  - inversion H. apply N.eqb_refl.
Qed.

(* what the monitor knows after accepting a trace *)
Record mon_inv (t : list gev) (m : mon) : Prop := {
  mi_wire : m_wire m = last_wire t;
  mi_wait : m_wait m = waiting t;
  mi_min : forall g, In (EWire g) t -> exists g0, m_wire m = Some g0 /\ g0 <= g;
  mi_top : forall id, In (EShown id) t -> exists top, m_top m = Some top /\ id <= top;
  mi_below : forall top g, m_top m = Some top -> In (EWire g) t -> top < g;
  mi_line : line t
}.

Lemma line_nil : line [].
Proof.
  split; [|split; [|split; [|split; [|split]]]].
  - intros a b c g1 g2 H. destruct a; discriminate H.
  - intros id g [].
  - intros a b id st rs H. destruct a; discriminate H.
  - intros id [].
  - intros a b e id H. destruct a; discriminate H.
  - intros a b H. destruct a; discriminate H.
Qed.

Lemma mon_inv_nil : mon_inv [] mon0.
Proof.
  split; try reflexivity.
  - intros g [].
  - intros id [].
  - intros top g H. discriminate H.
  - apply line_nil.
Qed.

(* extending a line by an event that is neither a wire, a shown, a taken stream nor Pending *)
Definition neutral (e : gev) : Prop :=
  match e with
  | EWire _ | EShown _ | ERejected _ _ _ | ELost _ | EPending => False
  | _ => True
  end.

Lemma in_snoc {A} (x : A) t e : In x (t ++ [e]) <-> In x t \/ x = e.
Proof. rewrite in_app_iff. cbn. intuition. Qed.

Section Extend.
  Variable t : list gev.
  Variable e : gev.
  Hypothesis Hl : line t.

  Lemma ext_wire :
    (forall g2, e = EWire g2 -> forall g1, In (EWire g1) t -> g2 <= g1) ->
    wire_nonincreasing (t ++ [e]).
  Proof.
    intros Hnew a b c g1 g2 H.
    destruct Hl as (Hw & _).
    apply snoc_split in H. destruct H as [(Hb & _ & _)|(b' & Hb & Ht)].
    - destruct b; discriminate Hb.
    - symmetry in Hb. apply snoc_split in Hb. destruct Hb as [(Hc & Hbb & Hx)|(c' & Hc & Hb')].
      + subst. apply (Hnew g2 eq_refl g1). apply in_app_iff. right. left. reflexivity.
      + subst. eapply Hw. reflexivity.
  Qed.

  Lemma ext_shown :
    (forall id, e = EShown id -> forall g, In (EWire g) t -> id < g) ->
    (forall g, e = EWire g -> forall id, In (EShown id) t -> id < g) ->
    shown_below_every_goaway (t ++ [e]).
  Proof.
    intros Hs Hg id g Hi Hgw.
    destruct Hl as (_ & Hsb & _).
    apply in_snoc in Hi. apply in_snoc in Hgw.
    destruct Hi as [Hi|Hi], Hgw as [Hgw|Hgw].
    - apply Hsb; assumption.
    - eapply Hg; [symmetry; exact Hgw|exact Hi].
    - eapply Hs; [symmetry; exact Hi|exact Hgw].
    - rewrite <- Hi in Hgw. discriminate Hgw.
  Qed.

  Lemma ext_rejected :
    (forall id st rs, e = ERejected id st rs ->
       st = Some rfc_H3_REQUEST_REJECTED /\ rs = Some rfc_H3_REQUEST_REJECTED /\
       exists g, last_wire t = Some g /\ g <= id) ->
    rejected_only_beyond (t ++ [e]).
  Proof.
    intros Hnew a b id st rs H.
    destruct Hl as (_ & _ & Hr & _).
    apply snoc_split in H. destruct H as [(Hb & Ha & Hx)|(b' & Hb & Ht)].
    - subst. apply Hnew. reflexivity.
    - subst. eapply Hr. reflexivity.
  Qed.

  Lemma ext_lost :
    (forall id, e <> ELost id) ->
    (forall id, taken e = Some id -> In id (waiting t)) ->
    (e = EPending -> waiting t = []) ->
    nothing_lost (t ++ [e]).
  Proof.
    intros Hnl Htk Hp.
    destruct Hl as (_ & _ & _ & (H1 & H2 & H3)).
    split; [|split].
    - intros id Hi. apply in_snoc in Hi. destruct Hi as [Hi|Hi]; [exact (H1 _ Hi)|].
      apply (Hnl id). symmetry. exact Hi.
    - intros a b x id H Hx. apply snoc_split in H. destruct H as [(Hb & Ha & Hxe)|(b' & Hb & Ht)].
      + subst. apply Htk. exact Hx.
      + subst. eapply H2; [reflexivity|exact Hx].
    - intros a b H. apply snoc_split in H. destruct H as [(Hb & Ha & Hxe)|(b' & Hb & Ht)].
      + subst. apply Hp. reflexivity.
      + subst. eapply H3. reflexivity.
  Qed.
End Extend.

Ltac nodisc := first [intros ? E; discriminate E | intros ? ? ? E; discriminate E | intros E; discriminate E].
Ltac line4 Hl tw ts1 ts2 tr tl1 tl2 tl3 :=
  split; [apply ext_wire; [exact Hl|tw]
  |split; [apply ext_shown; [exact Hl|ts1|ts2]
  |split; [apply ext_rejected; [exact Hl|tr]
  |apply (ext_lost _ _ Hl); [tl1|tl2|tl3]]]].
Ltac old_in Hi := apply in_snoc in Hi; destruct Hi as [Hi|Hi]; [eauto|discriminate Hi].

Lemma mon_step_inv t m e m' :
  mon_inv t m -> mon_step m e = Some m' -> mon_inv (t ++ [e]) m'.
Proof.
  intros [Hw Hq Hmin Htop Hbel Hl] Hs.
  destruct e as [id|n| |id|pid|g|id|id st rs|id| | |code]; cbn [mon_step] in Hs.
  - (* EArrive *)
    inversion Hs; subst m'; clear Hs. split; cbn [m_wire m_top m_wait].
    + rewrite last_wire_snoc. exact Hw.
    + rewrite waiting_snoc, Hq. reflexivity.
    + intros g Hi. old_in Hi.
    + intros i Hi. old_in Hi.
    + intros top g Ht Hi. old_in Hi.
    + line4 Hl nodisc nodisc nodisc nodisc nodisc nodisc nodisc.
  - (* EShutdown *)
    inversion Hs; subst m'; clear Hs. split.
    + rewrite last_wire_snoc. exact Hw.
    + rewrite waiting_snoc, Hq. reflexivity.
    + intros g Hi. old_in Hi.
    + intros i Hi. old_in Hi.
    + intros top g Ht Hi. old_in Hi.
    + line4 Hl nodisc nodisc nodisc nodisc nodisc nodisc nodisc.
  - (* EPoll *)
    inversion Hs; subst m'; clear Hs. split.
    + rewrite last_wire_snoc. exact Hw.
    + rewrite waiting_snoc, Hq. reflexivity.
    + intros g Hi. old_in Hi.
    + intros i Hi. old_in Hi.
    + intros top g Ht Hi. old_in Hi.
    + line4 Hl nodisc nodisc nodisc nodisc nodisc nodisc nodisc.
  - (* EComplete *)
    inversion Hs; subst m'; clear Hs. split.
    + rewrite last_wire_snoc. exact Hw.
    + rewrite waiting_snoc, Hq. reflexivity.
    + intros g Hi. old_in Hi.
    + intros i Hi. old_in Hi.
    + intros top g Ht Hi. old_in Hi.
    + line4 Hl nodisc nodisc nodisc nodisc nodisc nodisc nodisc.
  - (* EPeerGoaway *)
    inversion Hs; subst m'; clear Hs. split.
    + rewrite last_wire_snoc. exact Hw.
    + rewrite waiting_snoc, Hq. reflexivity.
    + intros g Hi. old_in Hi.
    + intros i Hi. old_in Hi.
    + intros top g Ht Hi. old_in Hi.
    + line4 Hl nodisc nodisc nodisc nodisc nodisc nodisc nodisc.
  - (* EWire g *)
    destruct ((match m_wire m with None => true | Some g0 => g <=? g0 end) && opt_lt (m_top m) g) eqn:C;
      [|discriminate Hs].
    inversion Hs; subst m'; clear Hs. apply andb_true_iff in C. destruct C as [C1 C2].
    assert (Hold : forall g1, In (EWire g1) t -> g <= g1).
    { intros g1 Hi. destruct (Hmin _ Hi) as (g0 & E0 & L0). rewrite E0 in C1. lia. }
    assert (Hsh : forall id, In (EShown id) t -> id < g).
    { intros id Hi. destruct (Htop _ Hi) as (top & Et & Lt). rewrite Et in C2. cbn [opt_lt] in C2. lia. }
    split; cbn [m_wire m_top m_wait].
    + rewrite last_wire_snoc. reflexivity.
    + rewrite waiting_snoc, Hq. reflexivity.
    + intros g1 Hi. exists g. split; [reflexivity|]. apply in_snoc in Hi. destruct Hi as [Hi|Hi].
      * apply Hold. exact Hi.
      * inversion Hi. lia.
    + intros i Hi. old_in Hi.
    + intros top g1 Ht Hi. apply in_snoc in Hi. destruct Hi as [Hi|Hi]; [eauto|].
      inversion Hi; subst g1. rewrite Ht in C2. cbn [opt_lt] in C2. lia.
    + line4 Hl ltac:(intros g2 E g1 Hi; inversion E; subst g2; apply Hold; exact Hi)
               nodisc
               ltac:(intros g2 E id Hi; inversion E; subst g2; apply Hsh; exact Hi)
               nodisc nodisc nodisc nodisc.
  - (* EShown id *)
    destruct (memb id (m_wait m) && (match m_wire m with None => true | Some g => id <? g end)) eqn:C;
      [|discriminate Hs].
    inversion Hs; subst m'; clear Hs. apply andb_true_iff in C. destruct C as [C1 C2].
    apply memb_In in C1.
    assert (Hbw : forall g, In (EWire g) t -> id < g).
    { intros g Hi. destruct (Hmin _ Hi) as (g0 & E0 & L0). rewrite E0 in C2. lia. }
    split; cbn [m_wire m_top m_wait].
    + rewrite last_wire_snoc. exact Hw.
    + rewrite waiting_snoc, Hq. reflexivity.
    + intros g Hi. old_in Hi.
    + intros i Hi. apply in_snoc in Hi. destruct Hi as [Hi|Hi].
      * destruct (Htop _ Hi) as (top & Et & Lt). rewrite Et. cbn [opt_max]. eexists. split; [reflexivity|lia].
      * inversion Hi; subst i. destruct (m_top m) as [top|]; cbn [opt_max]; eexists; (split; [reflexivity|lia]).
    + intros top g Ht Hi. apply in_snoc in Hi. destruct Hi as [Hi|Hi]; [|discriminate Hi].
      specialize (Hbw _ Hi). destruct (m_top m) as [top0|] eqn:Et; cbn [opt_max] in Ht; inversion Ht; subst top.
      * specialize (Hbel _ _ eq_refl Hi). lia.
      * exact Hbw.
    + line4 Hl nodisc
               ltac:(intros i E g Hi; inversion E; subst i; apply Hbw; exact Hi)
               nodisc nodisc nodisc
               ltac:(intros i E; inversion E; subst i; rewrite <- Hq; exact C1)
               nodisc.
  - (* ERejected *)
    destruct (memb id (m_wait m) && code_is st rfc_H3_REQUEST_REJECTED && code_is rs rfc_H3_REQUEST_REJECTED
              && (match m_wire m with None => false | Some g => g <=? id end)) eqn:C; [|discriminate Hs].
    inversion Hs; subst m'; clear Hs.
    apply andb_true_iff in C. destruct C as [C C4]. apply andb_true_iff in C. destruct C as [C C3].
    apply andb_true_iff in C. destruct C as [C1 C2].
    apply memb_In in C1. apply code_is_spec in C2. apply code_is_spec in C3.
    split; cbn [m_wire m_top m_wait].
    + rewrite last_wire_snoc. exact Hw.
    + rewrite waiting_snoc, Hq. reflexivity.
    + intros g Hi. old_in Hi.
    + intros i Hi. old_in Hi.
    + intros top g Ht Hi. old_in Hi.
    + line4 Hl nodisc nodisc nodisc
               ltac:(intros i s1 s2 E; inversion E; subst i s1 s2;
                     split; [exact C2|]; split; [exact C3|];
                     destruct (m_wire m) as [g|] eqn:Eg; [|discriminate C4];
                     exists g; rewrite <- Hw; split; [reflexivity|lia])
               nodisc
               ltac:(intros i E; inversion E; subst i; rewrite <- Hq; exact C1)
               nodisc.
  - (* ELost *) discriminate Hs.
  - (* ENone *)
    destruct (m_wire m) as [g0|] eqn:Eg0; [|discriminate Hs].
    destruct (g0 <=? first_unserved (m_top m)); [|discriminate Hs].
    inversion Hs; subst m'; clear Hs. rewrite <- Eg0 in *. split.
    + rewrite last_wire_snoc. exact Hw.
    + rewrite waiting_snoc, Hq. reflexivity.
    + intros g Hi. old_in Hi.
    + intros i Hi. old_in Hi.
    + intros top g Ht Hi. old_in Hi.
    + line4 Hl nodisc nodisc nodisc nodisc nodisc nodisc nodisc.
  - (* EPending *)
    destruct (m_wait m) as [|x r] eqn:Ew; [|discriminate Hs].
    inversion Hs; subst m'; clear Hs. split.
    + rewrite last_wire_snoc. exact Hw.
    + rewrite waiting_snoc, Ew, <- Hq. reflexivity.
    + intros g Hi. old_in Hi.
    + intros i Hi. old_in Hi.
    + intros top g Ht Hi. old_in Hi.
    + line4 Hl nodisc nodisc nodisc nodisc nodisc nodisc ltac:(intros _; symmetry; exact Hq).
  - (* EErr *)
    inversion Hs; subst m'; clear Hs. split.
    + rewrite last_wire_snoc. exact Hw.
    + rewrite waiting_snoc, Hq. reflexivity.
    + intros g Hi. old_in Hi.
    + intros i Hi. old_in Hi.
    + intros top g Ht Hi. old_in Hi.
    + line4 Hl nodisc nodisc nodisc nodisc nodisc nodisc nodisc.
Qed.

Lemma mon_run_inv t : forall m, mon_run mon0 t = Some m -> mon_inv t m.
Proof.
  induction t as [|e t IH] using rev_ind; intros m H.
  - cbn in H. inversion H; subst. apply mon_inv_nil.
  - rewrite mon_run_snoc in H. destruct (mon_run mon0 t) as [m1|] eqn:E; [|discriminate H].
    cbn [mon_bind] in H. eapply mon_step_inv; [apply IH; reflexivity|exact H].
Qed.

(* soundness of the oracle: a trace the monitor accepts is on the line *)
Theorem line_okb_sound t : line_okb t = true -> line t.
Proof.
  unfold line_okb. destruct (mon_run mon0 t) as [m|] eqn:E; [|discriminate].
  intros _. exact (mi_line _ _ (mon_run_inv _ _ E)).
Qed.

(* ---------- the closing clause ---------- *)
Lemma top_shown_snoc t e : top_shown (t ++ [e]) = top_step (top_shown t) e.
Proof. unfold top_shown. rewrite fold_left_app. reflexivity. Qed.

Lemma mon_run_topval t : forall m, mon_run mon0 t = Some m -> m_top m = top_shown t.
Proof.
  induction t as [|e t IH] using rev_ind; intros m H.
  - cbn in H. inversion H; subst. reflexivity.
  - rewrite mon_run_snoc in H. destruct (mon_run mon0 t) as [m1|] eqn:E; [|discriminate H].
    cbn [mon_bind] in H. rewrite top_shown_snoc, <- (IH m1 eq_refl).
    destruct e; cbn [mon_step top_step] in *; try (inversion H; subst m; reflexivity).
    + destruct (_ && _) in H; [|discriminate H]. inversion H; subst m. reflexivity.
    + destruct (_ && _) in H; [|discriminate H]. inversion H; subst m. reflexivity.
    + destruct (_ && _) in H; [|discriminate H]. inversion H; subst m. reflexivity.
    + destruct (m_wire m1); [|discriminate H]. destruct (_ <=? _) in H; [|discriminate H]. inversion H; subst m. reflexivity.
    + destruct (m_wait m1); [|discriminate H]. inversion H; subst m. reflexivity.
Qed.

Theorem line_okb_closing t : line_okb t = true -> closing_goaway t.
Proof.
  unfold line_okb. intros H a b E. subst t. rewrite mon_run_app in H.
  destruct (mon_run mon0 a) as [ma|] eqn:Ea; [|discriminate H].
  cbn [mon_run mon_step] in H.
  rewrite <- (mi_wire _ _ (mon_run_inv _ _ Ea)), <- (mon_run_topval _ _ Ea).
  destruct (m_wire ma) as [g|]; [|discriminate H]. exists g. split; [reflexivity|].
  destruct (g <=? first_unserved (m_top ma)) eqn:C; [lia|discriminate H].
Qed.

Lemma closing_prefix t e : closing_goaway (t ++ [e]) -> closing_goaway t.
Proof. intros H a b E. apply (H a (b ++ [e])). rewrite E, <- app_assoc. reflexivity. Qed.

(* ---------- completeness: the monitor accepts every trace that is on the line ---------- *)
Lemma line_prefix t e : line (t ++ [e]) -> line t.
Proof.
  intros (Hw & Hs & Hr & (H1 & H2 & H3)).
  split; [|split; [|split; [|split; [|split]]]].
  - intros a b c g1 g2 E. apply (Hw a b (c ++ [e]) g1 g2). rewrite E, <- !app_assoc. cbn [app].
    rewrite <- !app_assoc. reflexivity.
  - intros id g Hi Hg. apply Hs; apply in_app_iff; left; assumption.
  - intros a b id st rs E. apply (Hr a (b ++ [e]) id st rs). rewrite E, <- app_assoc. reflexivity.
  - intros id Hi. apply (H1 id). apply in_app_iff. left. exact Hi.
  - intros a b x id E Hx. apply (H2 a (b ++ [e]) x id); [|exact Hx]. rewrite E, <- app_assoc. reflexivity.
  - intros a b E. apply (H3 a (b ++ [e])). rewrite E, <- app_assoc. reflexivity.
Qed.

Lemma mon_run_top t : forall m top, mon_run mon0 t = Some m -> m_top m = Some top -> In (EShown top) t.
Proof.
  induction t as [|e t IH] using rev_ind; intros m top H Ht.
  - cbn in H. inversion H; subst. discriminate Ht.
  - rewrite mon_run_snoc in H. destruct (mon_run mon0 t) as [m1|] eqn:E; [|discriminate H].
    cbn [mon_bind] in H. apply in_snoc.
    destruct e; cbn [mon_step] in H;
      try (inversion H; subst m; left; eapply IH; [reflexivity|exact Ht]).
    + destruct (_ && _) in H; [|discriminate H]. inversion H; subst m. left. eapply IH; [reflexivity|exact Ht].
    + destruct (_ && _) in H; [|discriminate H]. inversion H; subst m. cbn [m_top] in Ht.
      destruct (m_top m1) as [t0|] eqn:Et; cbn [opt_max] in Ht; inversion Ht; subst top.
      * destruct (N.max_spec t0 id) as [[_ ->]|[_ ->]]; [right; reflexivity|left; eapply IH; [reflexivity|exact Et]].
      * right. reflexivity.
    + destruct (_ && _) in H; [|discriminate H]. inversion H; subst m. left. eapply IH; [reflexivity|exact Ht].
    + discriminate H.
    + destruct (m_wire m1); [|discriminate H]. destruct (_ <=? _) in H; [|discriminate H].
      inversion H; subst m. left. eapply IH; [reflexivity|exact Ht].
    + destruct (m_wait m1); [|discriminate H]. inversion H; subst m. left. eapply IH; [reflexivity|exact Ht].
Qed.

Theorem line_okb_complete t : line t -> closing_goaway t -> line_okb t = true.
Proof.
  unfold line_okb. induction t as [|e t IH] using rev_ind; intros Hl Hcl; [reflexivity|].
  pose proof (line_prefix _ _ Hl) as Hlt. specialize (IH Hlt (closing_prefix _ _ Hcl)).
  pose proof (fun m H => mon_run_topval t m H) as Htv.
  destruct (mon_run mon0 t) as [m|] eqn:E; [|discriminate IH]. clear IH.
  pose proof (mon_run_inv _ _ E) as [Hw Hq Hmin Htop Hbel _].
  rewrite mon_run_snoc, E. cbn [mon_bind].
  destruct Hl as (Lw & Ls & Lr & (L1 & L2 & L3)).
  assert (Hwire_in : forall g0, m_wire m = Some g0 -> In (EWire g0) t).
  { intros g0 E0. rewrite Hw in E0. clear -E0. induction t as [|x t IHt]; cbn [last_wire] in E0; [discriminate|].
    destruct (last_wire t) as [g'|].
    - inversion E0; subst. right. apply IHt. reflexivity.
    - destruct x; try discriminate. inversion E0; subst. left. reflexivity. }
  destruct e as [id|n| |id|pid|g|id|id st rs|id| | |code]; cbn [mon_step]; try reflexivity.
  - (* EWire g *)
    assert (C1 : (match m_wire m with None => true | Some g0 => g <=? g0 end) = true).
    { destruct (m_wire m) as [g0|] eqn:E0; [|reflexivity]. specialize (Hwire_in g0 eq_refl).
      apply in_split in Hwire_in. destruct Hwire_in as (a & b & Et).
      assert (g <= g0); [|lia]. apply (Lw a b [] g0 g). rewrite Et, <- app_assoc. reflexivity. }
    assert (C2 : opt_lt (m_top m) g = true).
    { destruct (m_top m) as [top|] eqn:Et; cbn [opt_lt]; [|reflexivity].
      pose proof (mon_run_top _ _ _ E Et) as Hin.
      assert (top < g); [|lia]. apply Ls; apply in_snoc; [left; exact Hin|right; reflexivity]. }
    rewrite C1, C2. reflexivity.
  - (* EShown id *)
    assert (C1 : memb id (m_wait m) = true).
    { apply memb_In. rewrite Hq. apply (L2 t [] (EShown id) id); reflexivity. }
    assert (C2 : (match m_wire m with None => true | Some g => id <? g end) = true).
    { destruct (m_wire m) as [g0|] eqn:E0; [|reflexivity]. specialize (Hwire_in g0 eq_refl).
      assert (id < g0); [|lia]. apply Ls; apply in_snoc; [right; reflexivity|left; exact Hwire_in]. }
    rewrite C1, C2. reflexivity.
  - (* ERejected *)
    destruct (Lr t [] id st rs eq_refl) as (Es & Er & g & Eg & Hle). subst st rs.
    assert (C1 : memb id (m_wait m) = true).
    { apply memb_In. rewrite Hq. apply (L2 t [] (ERejected id (Some rfc_H3_REQUEST_REJECTED) (Some rfc_H3_REQUEST_REJECTED)) id); reflexivity. }
    rewrite C1, Hw, Eg. cbn [code_is]. rewrite N.eqb_refl. cbn [andb].
    assert (C4 : (g <=? id) = true) by lia. rewrite C4. reflexivity.
  - (* ELost *)
    exfalso. apply (L1 id). apply in_snoc. right. reflexivity.
  - (* ENone *)
    destruct (Hcl t [] eq_refl) as (g & Eg & Hle). rewrite Hw, Eg, (Htv m eq_refl).
    assert (C : (g <=? first_unserved (top_shown t)) = true) by lia. rewrite C. reflexivity.
  - (* EPending *)
    rewrite Hq, (L3 t [] eq_refl). reflexivity.
Qed.
