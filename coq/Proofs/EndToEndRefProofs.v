(* C01: the two reference layers of Model/EndToEndRef.v that close the composition theorem without waiting for C11
   and C02/C03: the length-prefixed field-section coding round-trips, and the store-and-forward reader hands up the
   RFC reading of the flat bytes whatever the history.  With them every premise of the composition theorem is met
   (by h3's header mapping and writer, and by these two stand-ins), so the premises are jointly satisfiable. *)
From H3V Require Import Base.Bytes Base.BytesLemmas Spec.RFC9000 Model.Varint Proofs.VarintProofs Proofs.FrameEncProofs
  Spec.WellFormed Proofs.HeadersProofs Model.EndToEnd Spec.EndToEndSpec Spec.FrameVocab Spec.Frames Spec.EndToEndStream
  Model.EndToEndRef Proofs.EndToEndMerge.
From Coq Require Import ZifyBool ZifyNat ZifyN.
Ltac Zify.zify_post_hook ::= Z.div_mod_to_equations.

(* ---------- the reference field-section coding ---------- *)
Lemma vi_encode_some x e : vi_encode x = Some e -> x < 2 ^ 62 /\ 1 <= len e <= 8.
Proof.
  intros H. destruct (N.lt_ge_cases x (2 ^ 62)) as [Hx|Hx]; [|rewrite (vi_encode_unreachable x Hx) in H; discriminate].
  split; [exact Hx|]. rewrite (vi_encode_shortest x Hx) in H. inversion H; subst e.
  unfold len. rewrite rfc_vi_enc_length. pose proof (shortest_le_8 x). lia.
Qed.

Lemma vi_decode_encoded x e r : vi_encode x = Some e -> wf_bytes r -> wf_bytes e /\ vi_decode (e ++ r) = (Ok x, r).
Proof.
  intros H Hr. destruct (vi_encode_some x e H) as [Hx _].
  destruct (vi_roundtrip x r Hx Hr) as (e' & He & Hw & Hd). rewrite H in He. inversion He; subst e'. split; assumption.
Qed.

Lemma nonempty_len (l : bytes) : 1 <= len l -> exists b t, l = b :: t.
Proof. destruct l as [|b t]; [unfold len; cbn; lia|eauto]. Qed.

Lemma ref_lines_ok fs : forall b, wf_fields fs -> ref_encode_lines fs = Some b ->
  wf_bytes b /\ len b <= section_size fs /\
  forall fuel, (length b <= fuel)%nat -> ref_decode_lines fuel b = Some fs.
Proof.
  induction fs as [|[n v] fs IH]; intros b Hwf H.
  - cbn in H. inversion H; subst. repeat split; [constructor|cbn; lia|]. intros fuel _. destruct fuel; reflexivity.
  - inversion Hwf as [|? ? [Hn Hv] Hwf']; subst. cbn [fst snd] in *.
    cbn [ref_encode_lines] in H.
    destruct (vi_encode (len n)) as [a|] eqn:Ea; [|discriminate].
    destruct (vi_encode (len v)) as [a2|] eqn:Ea2; [|discriminate].
    destruct (ref_encode_lines fs) as [c|] eqn:Ec; [|discriminate].
    inversion H; subst b. clear H.
    destruct (IH c Hwf' eq_refl) as (Hc & Hlc & Hdc).
    destruct (vi_encode_some _ _ Ea) as [_ Hla]. destruct (vi_encode_some _ _ Ea2) as [_ Hla2].
    assert (W2 : wf_bytes (v ++ c)) by (apply wf_bytes_app; split; assumption).
    destruct (vi_decode_encoded _ a2 (v ++ c) Ea2 W2) as [Wa2 D2].
    assert (W1 : wf_bytes (n ++ a2 ++ v ++ c)).
    { apply wf_bytes_app; split; [exact Hn|]. apply wf_bytes_app; split; assumption. }
    destruct (vi_decode_encoded _ a (n ++ a2 ++ v ++ c) Ea W1) as [Wa D1].
    split; [apply wf_bytes_app; split; assumption|]. split.
    + cbn [section_size]. unfold field_size. cbn [fst snd]. rewrite !len_app. lia.
    + intros fuel Hfuel. destruct fuel as [|fuel].
      { exfalso. rewrite !app_length in Hfuel. unfold len in Hla. lia. }
      destruct (nonempty_len a ltac:(lia)) as (b0 & t0 & Eab). subst a.
      cbn [ref_decode_lines app] in *. rewrite D1.
      destruct (N.ltb_spec (len (n ++ a2 ++ v ++ c)) (len n)) as [Hc1|_]; [rewrite len_app in Hc1; lia|].
      replace (N.to_nat (len n)) with (length n) by (unfold len; lia).
      rewrite firstn_app_exact, skipn_app_exact. rewrite D2.
      destruct (N.ltb_spec (len (v ++ c)) (len v)) as [Hc2|_]; [rewrite len_app in Hc2; lia|].
      replace (N.to_nat (len v)) with (length v) by (unfold len; lia).
      rewrite firstn_app_exact, skipn_app_exact.
      rewrite Hdc; [reflexivity|]. cbn [length] in Hfuel. rewrite !app_length in Hfuel. lia.
Qed.

Definition block_ok (b : bytes) : Prop := wf_bytes b /\ len b < 2 ^ 62.
Definition fields_ok (fs : fieldl) : Prop := wf_fields fs /\ section_fits fs.

Theorem ref_section_roundtrip fs b :
  fields_ok fs -> ref_encode_section fs = Some b -> block_ok b /\ ref_decode_section b = Some fs.
Proof.
  intros [Hwf Hfit] H. unfold ref_encode_section in H.
  destruct (ref_encode_lines fs) as [c|] eqn:Ec; [|discriminate]. inversion H; subst b.
  destruct (ref_lines_ok fs c Hwf Ec) as (Hc & Hl & Hd). split.
  - split.
    + constructor; [unfold wf_byte; lia|]. constructor; [unfold wf_byte; lia|exact Hc].
    + unfold section_fits in Hfit. unfold len in *. cbn [length]. change (2 ^ 62) with 4611686018427387904.
      change (2 ^ 26) with 67108864 in Hfit. lia.
  - cbn [ref_decode_section]. apply Hd. lia.
Qed.

(* ---------- the store-and-forward reader ---------- *)
Notation sf_run := (rx_run sfstate sf_arrive sf_finish sf_poll).

Lemma sf_polls_after_done h : forall s,
  hist_ok_from true h = true -> sf_done s = true -> sf_run h s = ([], s) /\ hist_flat h = [].
Proof.
  induction h as [|e h IH]; intros s Hok Hd; [split; reflexivity|].
  destruct e as [c| |]; cbn [hist_ok_from negb andb] in Hok; try discriminate.
  cbn [rx_run hist_flat]. unfold sf_poll at 1. rewrite Hd. rewrite andb_false_r.
  destruct (IH s Hok Hd) as [Hr Hf]. rewrite Hr. split; [reflexivity|exact Hf].
Qed.

Lemma sf_run_reads h : forall s items s',
  hist_ok_from (sf_fin s) h = true -> sf_done s = false ->
  sf_run h s = (items, s') -> sf_done s' = true ->
  items = rfc_stream_reading (sf_buf s ++ hist_flat h).
Proof.
  induction h as [|e h IH]; intros s items s' Hok Hnd Hrun Hd.
  - cbn in Hrun. inversion Hrun; subst. congruence.
  - destruct e as [c| |]; cbn [hist_ok_from] in Hok; cbn [rx_run hist_flat] in *.
    + apply andb_true_iff in Hok. destruct Hok as [Hok1 Hok]. apply andb_true_iff in Hok1. destruct Hok1 as [Hf _].
      apply negb_true_iff in Hf.
      rewrite app_assoc. apply (IH (sf_arrive c s) items s'); try assumption.
      cbn [sf_arrive sf_fin]. rewrite Hf. exact Hok.
    + apply andb_true_iff in Hok. destruct Hok as [_ Hok].
      apply (IH (sf_finish s) items s'); try assumption.
    + unfold sf_poll at 1 in Hrun. rewrite Hnd in Hrun. cbn [negb] in Hrun. rewrite andb_true_r in Hrun.
      destruct (sf_fin s) eqn:Ef.
      * destruct (sf_polls_after_done h {| sf_buf := sf_buf s; sf_fin := true; sf_done := true |} Hok eq_refl) as [Hr Hfl].
        rewrite Hr in Hrun. inversion Hrun; subst. rewrite Hfl, !app_nil_r. reflexivity.
      * destruct (sf_run h s) as [o2 s2] eqn:E2. cbn [app] in Hrun. inversion Hrun. subst o2 s2.
        apply (IH s items s'); try assumption. rewrite Ef. exact Hok.
Qed.

Theorem sf_reader_law h items s :
  hist_ok h = true -> sf_run h sf_init = (items, s) -> sf_done s = true ->
  merge_items [] items = rfc_stream_reading (hist_flat h).
Proof.
  intros Hok Hrun Hd. rewrite (sf_run_reads h sf_init items s Hok eq_refl Hrun Hd). cbn [sf_init sf_buf app].
  unfold rfc_stream_reading, rfc_stream_reading_with. destruct (frame_outcome no_settings_check (hist_flat h) Finished) as [toks tl].
  apply read_tokens_merged.
Qed.
