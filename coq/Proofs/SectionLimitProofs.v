(* C10: the field-section size limit is enforced exactly, in both directions. *)
From H3V Require Import Base.Bytes Base.BytesLemmas Gen.GenCodes Gen.GenQStateless Gen.GenLimits
  Spec.RFC9204Static Spec.FieldSize
  Model.Static Model.QpackStateless Model.SectionLimit
  Proofs.QpackSpecLemmas Proofs.QpackStatelessProofs Proofs.QpackEncodeProofs.
From Coq Require Import ZifyBool ZifyNat ZifyN.
Ltac Zify.zify_post_hook ::= Z.div_mod_to_equations.

(* ---------------------------------------------------------------- generated decisions (the tie to the source) *)
Lemma gen_limit_operators :
  lim_send_request_strict = true /\ lim_send_response_strict = true /\ lim_send_trailers_strict = true /\
  qs_too_long_strict = true.
Proof. repeat split; reflexivity. Qed.

Lemma gen_limit_sources :
  lim_send_request_uses_peer = true /\ lim_send_response_uses_peer = true /\ lim_send_trailers_uses_peer = true /\
  lim_recv_request_own = true /\ lim_recv_response_own = true /\ lim_recv_trailers_own = true.
Proof. repeat split; reflexivity. Qed.

Lemma gen_limit_constants :
  qs_overhead = 32 /\ lim_default = 2 ^ 62 - 1 /\ lim_refusal_status = 431 /\ lim_refusal_send_error_propagates = true /\
  lim_client_response_stop_code = 268 /\ lim_client_trailers_stop_code = 268 /\ lim_setting_id = 6 /\
  lim_recv_request_decomp_code = 512 /\ lim_recv_response_decomp_code = 512 /\ lim_recv_trailers_decomp_code = 512.
Proof. repeat split; reflexivity. Qed.

(* ---------------------------------------------------------------- T1: the sizes h3 computes are the RFC 9114 4.2.2 size *)
Lemma fields_encode_size fs : forall bs size, fields_encode fs = Ok (bs, size) -> size = section_size fs.
Proof.
  induction fs as [|f fs IH]; intros bs size H; cbn [fields_encode] in H.
  - inversion H. reflexivity.
  - destruct (field_encode f) as [b|u|]; try discriminate.
    destruct (fields_encode fs) as [[bs' size']|u|]; try discriminate.
    inversion H; subst. rewrite mem_size_is_field_size, (IH _ _ eq_refl). reflexivity.
Qed.

Theorem encode_size_is_rfc fs bs size : encode_stateless fs = Ok (bs, size) -> size = section_size fs.
Proof.
  unfold encode_stateless. destruct (hp_encode 0 false 0); try discriminate.
  destruct (fields_encode fs) as [[bs' size']|u|] eqn:E; try discriminate.
  intros H. inversion H; subst. eapply fields_encode_size; eauto.
Qed.

Theorem decode_size_is_rfc bs fs m : wf_bytes bs -> decode_stateless None bs = Ok (fs, m) -> m = section_size fs.
Proof. intros Hwf H. destruct (decode_accepts_lax bs fs m Hwf H) as [_ Hm]. exact Hm. Qed.

(* ---------------------------------------------------------------- decoding under a limit vs without one *)
Lemma fields_loop_grows fuel : forall bs max mem acc fs m,
  fields_loop fuel bs max mem acc = Ok (fs, m) -> mem <= m.
Proof.
  induction fuel as [|k IH]; intros bs max mem acc fs m H; destruct bs as [|b t]; cbn [fields_loop] in H;
    try discriminate; try (inversion H; lia).
  destruct (field_decode (b :: t)) as [[f r]|e|]; try discriminate.
  destruct (too_long (mem + mem_size f) max); [discriminate|].
  apply IH in H. lia.
Qed.

Lemma fields_loop_limit L fuel : forall bs mem acc fs m,
  mem <= L -> fields_loop fuel bs None mem acc = Ok (fs, m) ->
  (m <= L -> fields_loop fuel bs (Some L) mem acc = Ok (fs, m)) /\
  (L < m -> exists n, L < n /\ fields_loop fuel bs (Some L) mem acc = Err (DHeaderTooLong n)).
Proof.
  induction fuel as [|k IH]; intros bs mem acc fs m Hmem H; destruct bs as [|b t]; cbn [fields_loop] in *;
    try discriminate.
  - inversion H; subst. split; [reflexivity|]. intros Hlt. lia.
  - inversion H; subst. split; [reflexivity|]. intros Hlt. lia.
  - destruct (field_decode (b :: t)) as [[f r]|e|]; try discriminate.
    cbn [too_long] in H. unfold too_long, qs_too_long_strict.
    pose proof (fields_loop_grows _ _ _ _ _ _ _ H) as Hg.
    destruct (N.ltb_spec L (mem + mem_size f)) as [Hover|Hfit].
    + split; [intros Hle; lia|]. intros _. exists (mem + mem_size f). split; [exact Hover|reflexivity].
    + exact (IH _ _ _ _ _ Hfit H).
Qed.

Theorem decode_stateless_limit L bs fs m :
  decode_stateless None bs = Ok (fs, m) ->
  (m <= L -> decode_stateless (Some L) bs = Ok (fs, m)) /\
  (L < m -> exists n, L < n /\ decode_stateless (Some L) bs = Err (DHeaderTooLong n)).
Proof.
  unfold decode_stateless. destruct (hp_decode bs) as [[[[eic sign] delta] r]|e|]; try discriminate.
  destruct (qs_ric_nonzero_rejected && negb (eic =? 0)); [discriminate|].
  destruct (qs_base_checked && qs_negative_base_is_error && sign); [discriminate|].
  apply fields_loop_limit. lia.
Qed.

(* ---------------------------------------------------------------- T2: receive *)

(* [readable bs fs]: h3 can read bs at all (no limit), and reads the field list fs; by C11 fs is then the RFC 9204
   decoding of bs *)
Definition readable (bs : bytes) (fs : list field) : Prop := exists m, decode_stateless None bs = Ok (fs, m).

Theorem recv_section_exact c own ps bs fs :
  wf_bytes bs -> readable bs fs ->
  (section_size fs <= own -> recv_section true c own ps bs = Delivered fs) /\
  (own < section_size fs -> exists n, own < n /\ recv_section true c own ps bs = RecvTooBig n own).
Proof.
  intros Hwf [m H]. pose proof (decode_size_is_rfc _ _ _ Hwf H) as Hm. subst m.
  destruct (decode_stateless_limit own _ _ _ H) as [H1 H2]. unfold recv_section. split.
  - intros Hle. rewrite (H1 Hle). reflexivity.
  - intros Hlt. destruct (H2 Hlt) as (n & Hn & E). exists n. split; [exact Hn|]. rewrite E. reflexivity.
Qed.

(* the 431 answer: its section and its size *)
Definition refusal_section : bytes := [0; 0; 95; 9; 131; 105; 144; 255].

Lemma refusal_encoding : encode_stateless refusal_fields = Ok (refusal_section, 42).
Proof. vm_compute. reflexivity. Qed.

Lemma refusal_is_status_431 :
  rfc_decode_static refusal_section = Some [([58; 115; 116; 97; 116; 117; 115], [52; 51; 49])] /\
  section_size refusal_fields = 42.
Proof. split; vm_compute; reflexivity. Qed.

Lemma send_response_refusal own ps :
  send_response own ps refusal_fields =
  if limit_in_force ps <? 42 then SendTooBig 42 (limit_in_force ps) else Sent refusal_section.
Proof.
  unfold send_response, send_section. rewrite refusal_encoding.
  unfold lim_send_response_uses_peer, lim_send_response_strict, exceeds. reflexivity.
Qed.

(* server, request headers: delivered iff it fits; otherwise header-too-big (stream scope), answered with 431 unless
   that answer would exceed the client's limit, in which case nothing is written *)
Theorem server_request_exact own ps bs fs :
  wf_bytes bs -> readable bs fs ->
  (section_size fs <= own ->
     server_recv_request own ps bs = {| ro_result := Delivered fs; ro_written := None; ro_stop := None |}) /\
  (own < section_size fs ->
     exists a mx, ro_result (server_recv_request own ps bs) = RecvTooBig a mx /\ mx < a /\
                  ro_stop (server_recv_request own ps bs) = None /\
                  ro_written (server_recv_request own ps bs) =
                    if limit_in_force ps <? 42 then None else Some refusal_section).
Proof.
  intros Hwf Hr. destruct (recv_section_exact lim_recv_request_decomp_code own ps bs fs Hwf Hr) as [H1 H2].
  unfold server_recv_request, lim_recv_request_own. split.
  - intros Hle. rewrite (H1 Hle). reflexivity.
  - intros Hlt. destruct (H2 Hlt) as (n & Hn & E). rewrite E, send_response_refusal.
    destruct (N.ltb_spec (limit_in_force ps) 42) as [Hsmall|Hbig].
    + unfold lim_refusal_send_error_propagates. cbn. exists 42, (limit_in_force ps). repeat split; auto.
    + cbn. exists n, own. repeat split; auto.
Qed.

Theorem client_response_exact own ps bs fs :
  wf_bytes bs -> readable bs fs ->
  (section_size fs <= own ->
     client_recv_response own ps bs = {| ro_result := Delivered fs; ro_written := None; ro_stop := None |}) /\
  (own < section_size fs ->
     exists n, own < n /\
       client_recv_response own ps bs =
       {| ro_result := RecvTooBig n own; ro_written := None; ro_stop := Some H3_REQUEST_CANCELLED |}).
Proof.
  intros Hwf Hr. destruct (recv_section_exact lim_recv_response_decomp_code own ps bs fs Hwf Hr) as [H1 H2].
  unfold client_recv_response, lim_recv_response_own. split.
  - intros Hle. rewrite (H1 Hle). reflexivity.
  - intros Hlt. destruct (H2 Hlt) as (n & Hn & E). rewrite E. exists n. split; [exact Hn|reflexivity].
Qed.

Theorem trailers_exact own ps bs fs :
  wf_bytes bs -> readable bs fs ->
  (section_size fs <= own ->
     server_recv_trailers own ps bs = {| ro_result := Delivered fs; ro_written := None; ro_stop := None |} /\
     client_recv_trailers own ps bs = {| ro_result := Delivered fs; ro_written := None; ro_stop := None |}) /\
  (own < section_size fs ->
     exists n, own < n /\
       server_recv_trailers own ps bs = {| ro_result := RecvTooBig n own; ro_written := None; ro_stop := None |} /\
       client_recv_trailers own ps bs =
       {| ro_result := RecvTooBig n own; ro_written := None; ro_stop := Some H3_REQUEST_CANCELLED |}).
Proof.
  intros Hwf Hr. destruct (recv_section_exact lim_recv_trailers_decomp_code own ps bs fs Hwf Hr) as [H1 H2].
  unfold server_recv_trailers, client_recv_trailers, lim_recv_trailers_own. split.
  - intros Hle. rewrite (H1 Hle). split; reflexivity.
  - intros Hlt. destruct (H2 Hlt) as (n & Hn & E). rewrite E. exists n. repeat split; auto.
Qed.

(* a readable section never produces a connection error at a receive site, whatever the limits *)
Theorem recv_never_connection_error c own ps bs fs code :
  wf_bytes bs -> readable bs fs -> recv_section true c own ps bs <> RecvConnError code.
Proof.
  intros Hwf Hr. destruct (recv_section_exact c own ps bs fs Hwf Hr) as [H1 H2].
  destruct (N.le_gt_cases (section_size fs) own) as [Hle|Hgt].
  - rewrite (H1 Hle). discriminate.
  - destruct (H2 Hgt) as (n & _ & E). rewrite E. discriminate.
Qed.

(* ---------------------------------------------------------------- T3: send *)

Theorem limit_in_force_default : limit_in_force None = 2 ^ 62 - 1 /\ limit_in_force (Some None) = 2 ^ 62 - 1 /\
                                 forall p, limit_in_force (Some (Some p)) = p.
Proof. repeat split; reflexivity. Qed.

Lemma send_section_exact own ps fs :
  Forall wf_field fs ->
  exists bs, encode_stateless fs = Ok (bs, section_size fs) /\
    send_section true true own ps fs =
    if limit_in_force ps <? section_size fs then SendTooBig (section_size fs) (limit_in_force ps) else Sent bs.
Proof.
  intros Hwf. destruct (encode_writes_rfc fs Hwf) as (bs & He & _). exists bs. split; [exact He|].
  unfold send_section. rewrite He. reflexivity.
Qed.

(* all three send sites: written iff the size does not exceed the limit in force (the peer's, or the default until
   the peer's SETTINGS are stored); the endpoint's own limit plays no role *)
Theorem send_sites_exact own ps fs :
  Forall wf_field fs ->
  exists bs, encode_stateless fs = Ok (bs, section_size fs) /\
    let expected := if limit_in_force ps <? section_size fs
                    then SendTooBig (section_size fs) (limit_in_force ps) else Sent bs in
    send_request own ps fs = expected /\ send_response own ps fs = expected /\ send_trailers own ps fs = expected.
Proof.
  intros Hwf. destruct (send_section_exact own ps fs Hwf) as (bs & He & Hs). exists bs. split; [exact He|].
  cbv zeta. unfold send_request, send_response, send_trailers.
  unfold lim_send_request_strict, lim_send_request_uses_peer, lim_send_response_strict, lim_send_response_uses_peer,
    lim_send_trailers_strict, lim_send_trailers_uses_peer. repeat split; exact Hs.
Qed.

Theorem sent_implies_within_limit own ps fs p :
  Forall wf_field fs ->
  (send_request own ps fs = Sent p \/ send_response own ps fs = Sent p \/ send_trailers own ps fs = Sent p) ->
  section_size fs <= limit_in_force ps.
Proof.
  intros Hwf H. destruct (send_sites_exact own ps fs Hwf) as (bs & _ & H1 & H2 & H3). cbv zeta in *.
  destruct (N.ltb_spec (limit_in_force ps) (section_size fs)) as [Hlt|Hle]; [|exact Hle].
  destruct H as [H|[H|H]]; congruence.
Qed.

Theorem over_limit_is_refused_unwritten own ps fs :
  Forall wf_field fs -> limit_in_force ps < section_size fs ->
  send_request own ps fs = SendTooBig (section_size fs) (limit_in_force ps) /\
  send_response own ps fs = SendTooBig (section_size fs) (limit_in_force ps) /\
  send_trailers own ps fs = SendTooBig (section_size fs) (limit_in_force ps).
Proof.
  intros Hwf Hlt. destruct (send_sites_exact own ps fs Hwf) as (bs & _ & H1 & H2 & H3). cbv zeta in *.
  destruct (N.ltb_spec (limit_in_force ps) (section_size fs)) as [_|Hle]; [auto|lia].
Qed.

(* ---------------------------------------------------------------- C11: a section h3 cannot decode is a CONNECTION error
   with code QPACK_DECOMPRESSION_FAILED (0x200) at each of the three receive sites, whatever the limits *)
Lemma fields_loop_limit_err L fuel : forall bs mem acc e,
  fields_loop fuel bs None mem acc = Err e ->
  fields_loop fuel bs (Some L) mem acc = Err e \/ exists n, fields_loop fuel bs (Some L) mem acc = Err (DHeaderTooLong n).
Proof.
  induction fuel as [|k IH]; intros bs mem acc e H; destruct bs as [|b t]; cbn [fields_loop] in *; try discriminate.
  - left. exact H.
  - destruct (field_decode (b :: t)) as [[f r]|e'|]; try discriminate.
    + cbn [too_long] in H. destruct (too_long (mem + mem_size f) (Some L)); [right; eexists; reflexivity|].
      apply IH. exact H.
    + left. exact H.
Qed.

Lemma fields_loop_limit_ok L fuel : forall bs mem acc r,
  fields_loop fuel bs (Some L) mem acc = Ok r -> fields_loop fuel bs None mem acc = Ok r.
Proof.
  induction fuel as [|k IH]; intros bs mem acc r H; destruct bs as [|b t]; cbn [fields_loop] in *; try discriminate;
    try exact H.
  destruct (field_decode (b :: t)) as [[f r']|e'|]; try discriminate.
  destruct (too_long (mem + mem_size f) (Some L)); [discriminate|]. cbn [too_long]. apply IH. exact H.
Qed.

(* production code always passes a finite limit: what is accepted under a limit is accepted without one, so
   everything C11 proves about [decode_stateless None] covers every acceptance at the call sites *)
Theorem decode_limit_ok_is_unlimited_ok L bs r : decode_stateless (Some L) bs = Ok r -> decode_stateless None bs = Ok r.
Proof.
  unfold decode_stateless. destruct (hp_decode bs) as [[[[eic sign] delta] r0]|e|]; try discriminate.
  destruct (qs_ric_nonzero_rejected && negb (eic =? 0)); [discriminate|].
  destruct (qs_base_checked && qs_negative_base_is_error && sign); [discriminate|].
  apply fields_loop_limit_ok.
Qed.

Theorem decode_limit_err L bs e :
  decode_stateless None bs = Err e ->
  decode_stateless (Some L) bs = Err e \/ exists n, decode_stateless (Some L) bs = Err (DHeaderTooLong n).
Proof.
  unfold decode_stateless. destruct (hp_decode bs) as [[[[eic sign] delta] r0]|e'|]; try discriminate.
  - destruct (qs_ric_nonzero_rejected && negb (eic =? 0)); [intros H; left; exact H|].
    destruct (qs_base_checked && qs_negative_base_is_error && sign); [intros H; left; exact H|].
    apply fields_loop_limit_err.
  - intros H. left. exact H.
Qed.

(* an undecodable section at a receive site: connection error QPACK_DECOMPRESSION_FAILED, or - when the running
   size passed the limit before the bad line was reached - header-too-big; never delivered, never a panic *)
Theorem bad_section_at_receive_sites own ps bs e :
  wf_bytes bs -> decode_stateless None bs = Err e ->
  forall site, In site [ro_result (server_recv_request own ps bs); ro_result (client_recv_response own ps bs);
                        ro_result (server_recv_trailers own ps bs); ro_result (client_recv_trailers own ps bs)] ->
  site = RecvConnError 512 \/ exists a m, site = RecvTooBig a m.
Proof.
  intros Hwf He.
  assert (Hc : decompression_failed e = true) by (eapply decode_stateless_err_class; eauto).
  assert (G : forall c, recv_section true c own ps bs = RecvConnError c \/ exists a m, recv_section true c own ps bs = RecvTooBig a m).
  { intros c. unfold recv_section. destruct (decode_limit_err own bs e He) as [H|[n H]]; rewrite H.
    - left. destruct e; try reflexivity; discriminate.
    - right. eauto. }
  intros site Hin. cbn [In] in Hin.
  unfold server_recv_request, client_recv_response, server_recv_trailers, client_recv_trailers,
    lim_recv_request_own, lim_recv_response_own, lim_recv_trailers_own,
    lim_recv_request_decomp_code, lim_recv_response_decomp_code, lim_recv_trailers_decomp_code in Hin.
  change QPACK_DECOMPRESSION_FAILED with 512 in Hin.
  destruct (G 512) as [E|(a & m & E)]; rewrite E in Hin.
  - cbn in Hin. intuition (subst; auto).
  - rewrite send_response_refusal in Hin. destruct (limit_in_force ps <? 42); cbn in Hin; intuition (subst; eauto).
Qed.

(* without a limit in the way (limit >= everything decoded so far is impossible to state per prefix; the common case:
   the limit is the default 2^62-1 and the section is shorter than that) the refusal is exactly the connection error *)
Theorem bad_section_is_connection_error_512 own ps bs e :
  wf_bytes bs -> decode_stateless None bs = Err e -> decode_stateless (Some own) bs = Err e ->
  ro_result (server_recv_request own ps bs) = RecvConnError 512 /\
  ro_result (client_recv_response own ps bs) = RecvConnError 512 /\
  ro_result (server_recv_trailers own ps bs) = RecvConnError 512 /\
  ro_result (client_recv_trailers own ps bs) = RecvConnError 512.
Proof.
  intros Hwf He HeL.
  assert (Hc : decompression_failed e = true) by (eapply decode_stateless_err_class; eauto).
  unfold server_recv_request, client_recv_response, server_recv_trailers, client_recv_trailers, recv_section,
    lim_recv_request_own, lim_recv_response_own, lim_recv_trailers_own,
    lim_recv_request_decomp_code, lim_recv_response_decomp_code, lim_recv_trailers_decomp_code.
  rewrite HeL. change QPACK_DECOMPRESSION_FAILED with 512.
  destruct e; try discriminate; repeat split; reflexivity.
Qed.

(* ---------------------------------------------------------------- the configured limit reaches every handle unchanged *)
Theorem own_limit_reaches_every_handle h configured ps : own_at h configured ps = configured.
Proof. destruct h as [[psc|] [|]| |[|]]; reflexivity. Qed.

(* every sending handle reads the connection's settings cell *)
Theorem every_sending_handle_reads_the_connection_cell h ps : settings_seen_by h ps = ps.
Proof. destruct h as [[|]|[|] [|]|[|]]; reflexivity. Qed.

(* ---------------------------------------------------------------- early cancel: an oversize section is refused as too big
   whatever follows the lines that already exceed the limit (a truncated or undecodable tail is never looked at) *)
Inductive reads : bytes -> list field -> bytes -> Prop :=
| reads_nil : forall r, reads r [] r
| reads_cons : forall r f r' fs t, field_decode r = Ok (f, r') -> reads r' fs t -> reads r (f :: fs) t.

Lemma fields_loop_early_cancel L r fs t : reads r fs t -> forall fuel mem acc,
  wf_bytes r -> (length r <= fuel)%nat -> mem <= L -> L < mem + section_size fs ->
  exists n, L < n /\ fields_loop fuel r (Some L) mem acc = Err (DHeaderTooLong n).
Proof.
  induction 1 as [r|r f r' fs t Hf Hr IH]; intros fuel mem acc Hwf Hfuel Hmem Hover.
  - cbn [section_size] in Hover. lia.
  - destruct r as [|b x]; [discriminate|].
    destruct fuel as [|k]; [cbn in Hfuel; lia|].
    cbn [fields_loop]. rewrite Hf. unfold too_long, qs_too_long_strict.
    destruct (N.ltb_spec L (mem + mem_size f)) as [Hc|Hfit].
    + exists (mem + mem_size f). split; [exact Hc|reflexivity].
    + destruct (field_decode_rest _ _ _ Hwf Hf) as [Hwf' Hlen].
      apply IH; [exact Hwf'|lia|exact Hfit|].
      cbn [section_size] in Hover. rewrite mem_size_is_field_size. lia.
Qed.

Theorem oversize_wins_over_bad_tail L bs delta r fs t :
  wf_bytes bs -> hp_decode bs = Ok (0, false, delta, r) -> reads r fs t -> L < section_size fs ->
  exists n, L < n /\ decode_stateless (Some L) bs = Err (DHeaderTooLong n).
Proof.
  intros Hwf Hh Hr Hover. unfold decode_stateless. rewrite Hh.
  change (qs_ric_nonzero_rejected && negb (0 =? 0)) with false. cbv iota.
  change (qs_base_checked && qs_negative_base_is_error && false) with false. cbv iota.
  destruct (hp_decode_ok _ _ _ _ _ Hwf Hh) as (_ & _ & _ & _ & _ & _ & _ & Hw).
  eapply fields_loop_early_cancel; eauto; lia.
Qed.
