(* C14, part 4: every API program leaves on every stream bytes the RFC 9114 reference parser accepts. *)
From H3V Require Import Base.Bytes Base.BytesLemmas Gen.GenWriters Spec.RFC9000 Spec.RFC9114Wire
  Model.Varint Model.Datagram Model.FrameEnc Model.WriteBuf Model.Writers
  Proofs.VarintProofs Proofs.DatagramProofs Proofs.WriteBufProofs Proofs.FrameEncProofs Proofs.WireParseProofs.
From Coq Require Import ZifyBool ZifyNat ZifyN.
Ltac Zify.zify_post_hook ::= Z.div_mod_to_equations.

Definition grease_range : N := 148764065110560899.

(* ---- source facts ---- *)
Lemma gen_setup :
  setup_open_pos = [0; 1; 2] /\ setup_headers = [0; 1; 2] /\ grease_stream_finishes = true /\
  finish_frame_is_grease = true /\ finish_clears_flag = true /\ shutdown_frame_is_goaway = true /\ shutdown_skip_cmp = 0.
Proof. repeat split; reflexivity. Qed.

(* CLOSED WORLD.  The writer automaton of Model/Writers.v has one transition for each call below and no other: these are
   ALL the places in the non-test sources of h3/src where bytes or a FIN are handed to a send stream (census regenerated
   from the working tree on every run: file | enclosing fn | callee | argument heads).  stream.rs / frame.rs rows are the
   plumbing (stream::write itself, the SendStream forwarding impls of BufRecvStream / FrameStream, the unframed
   AsyncWrite adapters used by WebTransport); the others are the sites the automaton models.  A new or changed site
   changes Gen.write_sites and breaks this lemma. *)
Definition expected_write_sites : list N := [
  236276700556432 (* connection.rs|send_control_stream_headers|stream::write|&mutself.control_send,WriteBuf::from(UniStreamHeader::Control(sett *);
  243471427161725 (* connection.rs|send_control_stream_headers|stream::write|stream,WriteBuf::from(UniStreamHeader::Decoder) *);
  218385777245949 (* connection.rs|send_control_stream_headers|stream::write|stream,WriteBuf::from(UniStreamHeader::Encoder) *);
  278248340835223 (* connection.rs|shutdown|stream::write|&mutself.control_send,Frame::Goaway(max_id.into()) *);
  93190795814898 (* connection.rs|poll_grease_stream|.send_data|(StreamType::grease(),Frame::Grease) *);
  184104172257312 (* connection.rs|poll_grease_stream|.poll_finish|cx *);
  141954617144699 (* connection.rs|send_data|stream::write|&mutself.stream,frame *);
  84635067732679 (* connection.rs|send_trailers|stream::write|&mutself.stream,Frame::Headers(block.freeze()) *);
  196592677318858 (* connection.rs|finish|stream::write|&mutself.stream,Frame::Grease *);
  125673138829854 (* connection.rs|finish|.poll_finish|cx *);
  126527542322560 (* frame.rs|send_data|.send_data|data *);
  217973562043755 (* frame.rs|poll_finish|.poll_finish|cx *);
  221042019067478 (* stream.rs|write|.send_data|data *);
  609140036848 (* stream.rs|poll_finish|.poll_finish|cx *);
  119699821529641 (* stream.rs|send_data|.send_data|data *);
  53526287060569 (* stream.rs|poll_send|.poll_send|cx,buf *);
  247172877697666 (* stream.rs|poll_write|.poll_send|cx,&mutbuf *);
  15064168258662 (* stream.rs|poll_close|.poll_finish|cx *);
  247172877697666 (* stream.rs|poll_write|.poll_send|cx,&mutbuf *);
  204659356846110 (* stream.rs|poll_shutdown|.poll_finish|cx *);
  180917363914306 (* client/connection.rs|send_request|stream::write|&mutstream,Frame::Headers(block.freeze()) *);
  214293468459282 (* client/stream.rs|send_data|.send_data|buf *);
  33325421543922 (* server/stream.rs|send_response|stream::write|&mutself.inner.stream,Frame::Headers(block.freeze()) *);
  185634815566812 (* server/stream.rs|send_data|.send_data|buf *)
].
Lemma gen_write_sites : write_sites = expected_write_sites.
Proof. reflexivity. Qed.

(* the call graph above the write sites: every call (method, path / UFCS, or bare after a `use`) of a function that can
   reach one of them.  A documented API that starts calling a writer a second time (server::Connection::new calling
   send_control_stream_headers again, ...) is a new row. *)
Definition expected_writer_calls : list N := [
  220204973076472 (* client/connection.rs|poll_close|poll_control|x1 *);
  110361032146187 (* client/connection.rs|send_request|write|x1 *);
  38679175255429 (* client/connection.rs|shutdown|shutdown|x1 *);
  241287665189353 (* client/connection.rs|wait_idle|poll_close|x1 *);
  115889103166002 (* client/stream.rs|finish|finish|x1 *);
  133124101379033 (* client/stream.rs|send_data|send_data|x1 *);
  122302395613437 (* client/stream.rs|send_trailers|send_trailers|x1 *);
  167828741085947 (* connection.rs|finish|poll_finish|x1 *);
  263892213736713 (* connection.rs|finish|write|x1 *);
  13482537145611 (* connection.rs|new|send_control_stream_headers|x1 *);
  128829812730102 (* connection.rs|poll_control|poll_grease_stream|x1 *);
  60156865862783 (* connection.rs|poll_grease_stream|poll_finish|x1 *);
  185481792600116 (* connection.rs|poll_grease_stream|send_data|x1 *);
  245053616450851 (* connection.rs|send_control_stream_headers|write|x3 *);
  159354077639967 (* connection.rs|send_data|write|x1 *);
  17585822420554 (* connection.rs|send_trailers|write|x1 *);
  234181147598681 (* connection.rs|shutdown|write|x1 *);
  211206760408200 (* frame.rs|poll_finish|poll_finish|x1 *);
  78660384600797 (* frame.rs|send_data|send_data|x1 *);
  267363584846106 (* quic.rs|fmt|finish|x2 *);
  117150961622846 (* server/connection.rs|accept|poll_accept_request_stream_internal|x1 *);
  155105933791331 (* server/connection.rs|accept|shutdown|x1 *);
  199914476776555 (* server/connection.rs|poll_accept_request_stream|poll_accept_request_stream_internal|x1 *);
  91540266651699 (* server/connection.rs|poll_accept_request_stream_internal|poll_control|x1 *);
  130781127746512 (* server/connection.rs|poll_control|poll_next_control|x1 *);
  132971073138578 (* server/connection.rs|poll_next_control|poll_control|x1 *);
  75608015697243 (* server/connection.rs|shutdown|shutdown|x1 *);
  46553785725809 (* server/request.rs|resolve|send_response|x1 *);
  159355952676271 (* server/request.rs|resolve_request|resolve|x1 *);
  233040534344236 (* server/stream.rs|finish|finish|x1 *);
  118845893263919 (* server/stream.rs|send_data|send_data|x1 *);
  130140801999598 (* server/stream.rs|send_response|write|x1 *);
  185391324238666 (* server/stream.rs|send_trailers|send_trailers|x1 *);
  19985617346734 (* stream.rs|fmt|finish|x1 *);
  186062395757988 (* stream.rs|poll_close|poll_finish|x1 *);
  268925354750747 (* stream.rs|poll_finish|poll_finish|x1 *);
  91153604531702 (* stream.rs|poll_send|poll_send|x1 *);
  90945222058526 (* stream.rs|poll_shutdown|poll_finish|x1 *);
  47015012297883 (* stream.rs|poll_write|poll_send|x2 *);
  255146904518510 (* stream.rs|send_data|send_data|x1 *);
  218780568362383 (* stream.rs|write|send_data|x1 *)
].
Lemma gen_writer_calls : writer_calls = expected_writer_calls.
Proof. reflexivity. Qed.

(* the inserts of TryFrom<Config>: every fixed identifier is a registered HTTP/3 setting and not an HTTP/2-only one *)
Definition ins_okb (i : option N * N) : bool :=
  match fst i with
  | Some id => (id <? 2 ^ 62) && rfc_known_setting id && negb (rfc_h2_setting id)
  | None => snd i <? 2 ^ 62
  end.
Lemma gen_config_inserts_ok : forallb ins_okb config_inserts = true.
Proof. vm_compute. reflexivity. Qed.

(* an upper bound of the encoded size of what the inserts can add *)
Definition field_bound (fld : N) : N := if (fld =? 1) || (fld =? 2) || (fld =? 3) then 1 else 8.
Fixpoint ins_bound (ins : list (option N * N)) : N :=
  match ins with
  | [] => 0
  | (None, v) :: r => 8 + rfc_vi_shortest v + ins_bound r
  | (Some id, fld) :: r => rfc_vi_shortest id + field_bound fld + ins_bound r
  end.
Lemma gen_config_inserts_bound : ins_bound config_inserts <= 61.
Proof. vm_compute. discriminate. Qed.

(* ---- settings ---- *)
Lemma rfc_settings_bytes_eq es : rfc_settings_bytes es = pairs_bytes es.
Proof. reflexivity. Qed.

Definition id_allowed (e : N * N) : Prop :=
  rfc_h2_setting (fst e) = false /\ (rfc_known_setting (fst e) = true \/ rfc_reserved (fst e) = true).

Definition settings_good (es : list (N * N)) : Prop :=
  Forall pair_good es /\ NoDup (map fst es) /\ Forall id_allowed es.

Lemma settings_insert_some es id v es' :
  settings_insert es id v = Some es' ->
  es' = es ++ [(id, v)] /\ id < 2 ^ 62 /\ v < 2 ^ 62 /\ ~ In id (map fst es).
Proof.
  unfold settings_insert. destruct (settings_len <=? N.of_nat (length es)); [discriminate|].
  rewrite !vi_from_u64_spec.
  destruct (N.ltb_spec id (2 ^ 62)); [|discriminate]. destruct (N.ltb_spec v (2 ^ 62)); [|discriminate].
  destruct (existsb (fun e => fst e =? id) es) eqn:E; [discriminate|].
  intros H'. inversion H'. repeat split; auto.
  intros Hin. apply in_map_iff in Hin as (e & He & Hine).
  assert (existsb (fun e => fst e =? id) es = true).
  { apply existsb_exists. exists e. split; auto. apply N.eqb_eq. exact He. }
  congruence.
Qed.

Lemma pairs_bytes_app a b : pairs_bytes (a ++ b) = pairs_bytes a ++ pairs_bytes b.
Proof. unfold pairs_bytes. rewrite map_app, concat_app. reflexivity. Qed.

Lemma len_pair i v : i < 2 ^ 62 -> v < 2 ^ 62 ->
  len (pairs_bytes [(i, v)]) = rfc_vi_shortest i + rfc_vi_shortest v.
Proof.
  intros Hi Hv. unfold pairs_bytes. cbn [map concat fst snd]. rewrite app_nil_r, len_app, !len_rfc_varint by assumption.
  reflexivity.
Qed.

Lemma NoDup_snoc {A} (l : list A) x : NoDup l -> ~ In x l -> NoDup (l ++ [x]).
Proof.
  induction l as [|a l IH]; intros Hn Hx; cbn [app].
  - constructor; [intros []|constructor].
  - inversion Hn as [|? ? Ha Hl]; subst. constructor.
    + intros Hin. apply in_app_or in Hin as [Hin|[Hin|[]]]; [contradiction|]. subst. apply Hx. left. reflexivity.
    + apply IH; [exact Hl|]. intros Hin. apply Hx. right. exact Hin.
Qed.

Lemma settings_good_snoc es i v :
  settings_good es -> i < 2 ^ 62 -> v < 2 ^ 62 -> ~ In i (map fst es) -> id_allowed (i, v) ->
  settings_good (es ++ [(i, v)]).
Proof.
  intros (Hp & Hn & Ha) Hi Hv Hni Hal. repeat split.
  - apply Forall_app. split; [exact Hp|]. constructor; [split; assumption|constructor].
  - rewrite map_app. cbn [map fst]. apply NoDup_snoc; assumption.
  - apply Forall_app. split; [exact Ha|]. constructor; [exact Hal|constructor].
Qed.

Lemma settings_good_nil : settings_good [].
Proof. repeat split; constructor. Qed.

Lemma reserved_not_h2 x : rfc_reserved x = true -> rfc_h2_setting x = false /\ rfc_h2_frame x = false.
Proof.
  unfold rfc_reserved, rfc_h2_setting, rfc_h2_frame. intros H. apply andb_true_iff in H as [H _].
  split; repeat (apply orb_false_iff; split); apply N.eqb_neq; lia.
Qed.

Lemma field_size cfg fld : cf_field cfg fld < 2 ^ 62 -> rfc_vi_shortest (cf_field cfg fld) <= field_bound fld.
Proof.
  intros _. unfold cf_field, field_bound.
  destruct (N.eqb_spec fld 0) as [->|]; [cbn [orb]; apply shortest_le_8|].
  destruct (N.eqb_spec fld 1) as [->|]; [destruct (cf_ext cfg); vm_compute; discriminate|].
  destruct (N.eqb_spec fld 2) as [->|]; [destruct (cf_wt cfg); vm_compute; discriminate|].
  destruct (N.eqb_spec fld 3) as [->|]; [destruct (cf_dgram cfg); vm_compute; discriminate|].
  cbn [orb]. apply shortest_le_8.
Qed.

Lemma grease_value_ok g : g < grease_range ->
  grease_value g 31 33 = Ok (grease_id g).
Proof.
  intros H. unfold grease_value, grease_id, grease_range in *.
  destruct (N.ltb_spec (g * 31 + 33) (2 ^ 64)); [f_equal; lia|].
  change (2 ^ 64) with 18446744073709551616 in *. lia.
Qed.

Lemma config_run_good cfg g ins :
  g < grease_range -> forallb ins_okb ins = true ->
  forall es, settings_good es ->
    exists r, config_inserts_run cfg g ins es = Ok r /\
      match r with
      | Some es' => settings_good es' /\ len (pairs_bytes es') <= len (pairs_bytes es) + ins_bound ins
      | None => True
      end.
Proof.
  intros Hg. induction ins as [|[o x] ins IH]; intros Hok es Hes.
  - exists (Some es). cbn. split; [reflexivity|]. split; [exact Hes|lia].
  - cbn [forallb] in Hok. apply andb_true_iff in Hok as [Ho Hok]. specialize (IH Hok).
    destruct o as [id|]; cbn [config_inserts_run ins_bound].
    + unfold ins_okb in Ho. cbn [fst] in Ho. apply andb_true_iff in Ho as [Ho Hh2]. apply andb_true_iff in Ho as [Hid Hkn].
      destruct (settings_insert es id (cf_field cfg x)) as [es1|] eqn:E.
      * apply settings_insert_some in E as (-> & Hi & Hv & Hni).
        destruct (IH (es ++ [(id, cf_field cfg x)])) as (r & Hr & Hres).
        { apply settings_good_snoc; auto. split; cbn [fst]; [apply negb_true_iff; exact Hh2|left; exact Hkn]. }
        exists r. split; [exact Hr|]. destruct r as [es'|]; [|exact I].
        destruct Hres as [Hgood Hlen]. split; [exact Hgood|].
        rewrite pairs_bytes_app, len_app, len_pair in Hlen by assumption.
        pose proof (field_size cfg x Hv). lia.
      * exists None. split; [reflexivity|exact I].
    + unfold ins_okb in Ho. cbn [fst snd] in Ho.
      destruct (cf_grease cfg).
      * destruct gen_grease as (_ & _ & _ & _ & -> & -> & _). rewrite grease_value_ok by exact Hg.
        pose proof (grease_id_range g Hg) as Hr. pose proof (grease_id_reserved g) as Hrs.
        destruct (settings_insert es (grease_id g) x) as [es1|] eqn:E.
        -- apply settings_insert_some in E as (-> & Hi & Hv & Hni).
           destruct (IH (es ++ [(grease_id g, x)])) as (r & Hr' & Hres).
           { apply settings_good_snoc; auto. split; cbn [fst]; [apply reserved_not_h2; exact Hrs|right; exact Hrs]. }
           exists r. split; [exact Hr'|]. destruct r as [es'|]; [|exact I].
           destruct Hres as [Hgood Hlen]. split; [exact Hgood|].
           rewrite pairs_bytes_app, len_app, len_pair in Hlen by assumption.
           pose proof (shortest_le_8 (grease_id g)). lia.
        -- destruct (IH es Hes) as (r & Hr' & Hres). exists r. split; [exact Hr'|].
           destruct r as [es'|]; [|exact I]. destruct Hres. split; [assumption|lia].
      * destruct (IH es Hes) as (r & Hr' & Hres). exists r. split; [exact Hr'|].
        destruct r as [es'|]; [|exact I]. destruct Hres. split; [assumption|lia].
Qed.

Lemma config_settings_good cfg g :
  g < grease_range ->
  exists r, config_settings cfg g = Ok r /\
    match r with Some es => settings_good es /\ len (pairs_bytes es) <= 61 | None => True end.
Proof.
  intros Hg. unfold config_settings.
  destruct (config_run_good cfg g config_inserts Hg gen_config_inserts_ok [] settings_good_nil) as (r & Hr & Hres).
  exists r. split; [exact Hr|]. destruct r; [|exact I]. destruct Hres as [Hgood Hlen]. split; [exact Hgood|].
  pose proof gen_config_inserts_bound. change (len (pairs_bytes [])) with 0 in Hlen. lia.
Qed.

(* ---- what one buffer on a stream is ---- *)
Definition req_type_ok (ty : N) : Prop := ty = T_DATA \/ ty = T_HEADERS \/ (rfc_reserved ty = true /\ ty < 2 ^ 62).

Definition req_out (o : wbuf * option N) : Prop :=
  snd o = None /\ wb_inv (fst o) /\
  exists ty p, wb_view (fst o) = rfc_frame ty p /\ len p < 2 ^ 62 /\ req_type_ok ty.

Definition goaway_out (o : wbuf * option N) : Prop :=
  snd o = None /\ wb_inv (fst o) /\ exists id, id < 2 ^ 62 /\ wb_view (fst o) = rfc_frame T_GOAWAY (rfc_varint id).

(* u: residue mod 4 of the endpoint's own unidirectional stream ids; nu: the next such id; ctl: control_send;
   gid: the grease stream whose write is in flight *)
Definition stream_ok (u nu ctl : N) (s : sstate) : Prop :=
  match s_kind s with
  | KControl =>
      s_id s = ctl /\
      exists w es rest, s_out s = (w, None) :: rest /\ wb_inv w /\ settings_good es /\
                        len (pairs_bytes es) < 2 ^ 62 /\
                        wb_view w = rfc_varint S_CONTROL ++ rfc_frame T_SETTINGS (pairs_bytes es) /\
                        Forall goaway_out rest
  | KEncoder =>
      s_id s mod 4 = u /\ s_id s < nu /\ s_id s <> ctl /\
      exists w, s_out s = [(w, None)] /\ wb_inv w /\ wb_view w = rfc_varint S_QPACK_ENCODER
  | KDecoder =>
      s_id s mod 4 = u /\ s_id s < nu /\ s_id s <> ctl /\
      exists w, s_out s = [(w, None)] /\ wb_inv w /\ wb_view w = rfc_varint S_QPACK_DECODER
  | KGrease =>
      s_id s mod 4 = u /\ s_id s < nu /\ s_id s <> ctl /\
      exists w cut gs gf, s_out s = [(w, cut)] /\ wb_inv w /\ gs < grease_range /\ gf < grease_range /\
                          wb_view w = rfc_varint (grease_id gs) ++ rfc_frame (grease_id gf) grease_payload
  | KRequest => s_id s mod 4 = 0 /\ Forall req_out (s_out s)
  end.

Definition is_kind (k : skind) (s : sstate) : Prop := s_kind s = k.

Definition cinv (c : conn) : Prop :=
  let u := first_uni_of (c_server c) in
  Forall (stream_ok u (c_next_uni c) (c_control c)) (c_streams c) /\
  c_next_uni c mod 4 = u /\ c_control c mod 4 = u /\ c_control c < c_next_uni c /\
  Forall (fun h => h_sid h mod 4 = 0) (c_handles c) /\
  match c_grease_id c with
  | Some id => id mod 4 = u /\ id <> c_control c /\
               Forall (fun s => s_id s = id -> s_kind s = KGrease) (c_streams c)
  | None => True
  end /\
  (c_server c = false -> c_next_bidi c mod 4 = 0) /\
  match c_last_accepted c with Some l => l < 2 ^ 62 | None => True end.

Lemma first_uni_cases server : first_uni_of server = 2 \/ first_uni_of server = 3.
Proof. destruct server; cbn; auto. Qed.

Lemma stream_ok_mono u nu nu' ctl s : nu <= nu' -> stream_ok u nu ctl s -> stream_ok u nu' ctl s.
Proof.
  intros Hle. unfold stream_ok. destruct (s_kind s); auto.
  - intros (A & B & C & D). repeat split; auto. lia.
  - intros (A & B & C & D). repeat split; auto. lia.
  - intros (A & B & C & D). repeat split; auto. lia.
Qed.

(* ---- list plumbing ---- *)
Lemma map_stream_Forall (P : sstate -> Prop) f id ss :
  Forall P ss -> (forall s, P s -> s_id s = id -> P (f s)) -> Forall P (map_stream f id ss).
Proof.
  intros H Hf. induction H as [|s ss Hs Hss IH]; cbn [map_stream]; [constructor|].
  destruct (N.eqb_spec (s_id s) id).
  - constructor; auto.
  - constructor; auto.
Qed.

Lemma has_stream_false ss id : Forall (fun s => s_id s <> id) ss -> has_stream ss id = false.
Proof.
  induction 1 as [|s ss Hs Hss IH]; cbn [has_stream]; [reflexivity|].
  rewrite IH. destruct (N.eqb_spec (s_id s) id); [contradiction|reflexivity].
Qed.

Lemma has_stream_true ss id : has_stream ss id = true -> exists s, In s ss /\ s_id s = id.
Proof.
  induction ss as [|s ss IH]; cbn [has_stream]; [discriminate|].
  destruct (N.eqb_spec (s_id s) id); cbn [orb]; intros H.
  - exists s. split; [left; reflexivity|assumption].
  - destruct (IH H) as (s' & Hin & Hid). exists s'. split; [right; exact Hin|exact Hid].
Qed.

Lemma map_stream_ids f id ss (Q : N -> Prop) :
  (forall s, s_id (f s) = s_id s) -> Forall (fun s => Q (s_id s)) ss -> Forall (fun s => Q (s_id s)) (map_stream f id ss).
Proof.
  intros Hf H. induction H as [|s ss Hs Hss IH]; cbn [map_stream]; [constructor|].
  destruct (s_id s =? id); constructor; auto. rewrite Hf. exact Hs.
Qed.

(* pushing a request frame on the stream `sid` (a client-initiated bidirectional id) *)
Lemma push_request_ok u nu ctl sid w ss :
  (u = 2 \/ u = 3) -> sid mod 4 = 0 -> req_out (w, None) ->
  Forall (stream_ok u nu ctl) ss -> ctl mod 4 = u ->
  Forall (stream_ok u nu ctl) (map_stream (push_out w None) sid ss).
Proof.
  intros Hu Hsid Hreq Hss Hctl. apply map_stream_Forall; [exact Hss|].
  intros s Hs Hid. unfold stream_ok in *. unfold push_out. cbn [s_kind s_id s_out].
  destruct (s_kind s).
  - destruct Hs as (A & _). lia.
  - destruct Hs as (A & _). lia.
  - destruct Hs as (A & _). lia.
  - destruct Hs as (A & _). lia.
  - destruct Hs as (A & B). split; [exact A|]. apply Forall_app. split; [exact B|]. constructor; [exact Hreq|constructor].
Qed.

Lemma push_goaway_ok u nu ctl w ss :
  (u = 2 \/ u = 3) -> ctl mod 4 = u ->
  goaway_out (w, None) -> Forall (stream_ok u nu ctl) ss ->
  Forall (stream_ok u nu ctl) (map_stream (push_out w None) ctl ss).
Proof.
  intros Hu Hctl Hg Hss. apply map_stream_Forall; [exact Hss|].
  intros s Hs Hid. unfold stream_ok in *. unfold push_out. cbn [s_kind s_id s_out].
  destruct (s_kind s).
  - destruct Hs as (A & w0 & es & rest & E & Hi & Hgood & Hlen & Hv & Hr). split; [exact A|].
    exists w0, es, (rest ++ [(w, None)]). rewrite E.
    split; [reflexivity|]. split; [exact Hi|]. split; [exact Hgood|]. split; [exact Hlen|]. split; [exact Hv|].
    apply Forall_app. split; [exact Hr|]. constructor; [exact Hg|constructor].
  - destruct Hs as (_ & _ & C & _). contradiction.
  - destruct Hs as (_ & _ & C & _). contradiction.
  - destruct Hs as (_ & _ & C & _). contradiction.
  - destruct Hs as (A & _). lia.
Qed.

(* ---- the buffers h3 builds for its frames ---- *)
Lemma headers_out b : len b < 2 ^ 62 -> exists w, wb_from_frame (FHeaders b) = Ok w /\ req_out (w, None).
Proof.
  intros Hb. pose proof (frame_header_small (FHeaders b) Hb) as Hs. cbn beta iota in Hs.
  destruct (wb_from_frame_ok (FHeaders b) Hb I) as (w & E & Hi & Hv); [lia|].
  exists w. split; [exact E|]. split; [reflexivity|]. split; [exact Hi|]. cbn [fst snd].
  exists T_HEADERS, b. split; [|split; [exact Hb|right; left; reflexivity]].
  rewrite Hv. cbn [frame_header_bytes frame_payload_bytes]. unfold rfc_frame. rewrite <- app_assoc. reflexivity.
Qed.

Lemma data_out p :
  nonempty_chunks p -> len (concat p) < 2 ^ 62 -> exists w, wb_from_frame (FData p) = Ok w /\ req_out (w, None).
Proof.
  intros Hne Hb. pose proof (frame_header_small (FData p) Hb) as Hs. cbn beta iota in Hs.
  destruct (wb_from_frame_ok (FData p) Hb Hne) as (w & E & Hi & Hv); [lia|].
  exists w. split; [exact E|]. split; [reflexivity|]. split; [exact Hi|]. cbn [fst snd].
  exists T_DATA, (concat p). split; [|split; [exact Hb|left; reflexivity]].
  rewrite Hv. cbn [frame_header_bytes frame_payload_bytes]. unfold rfc_frame. rewrite <- app_assoc. reflexivity.
Qed.

Lemma grease_frame_out g : g < grease_range -> exists w, wb_from_frame (FGrease g) = Ok w /\ req_out (w, None).
Proof.
  intros Hg. pose proof (frame_header_small (FGrease g) Hg) as Hs. cbn beta iota in Hs.
  destruct (wb_from_frame_ok (FGrease g) Hg I) as (w & E & Hi & Hv); [lia|].
  exists w. split; [exact E|]. split; [reflexivity|]. split; [exact Hi|]. cbn [fst snd].
  exists (grease_id g), grease_payload. split; [|split].
  - rewrite Hv. cbn [frame_header_bytes frame_payload_bytes]. apply app_nil_r.
  - vm_compute. reflexivity.
  - right. right. split; [apply grease_id_reserved|apply grease_id_range; exact Hg].
Qed.

Lemma goaway_wb id : id < 2 ^ 62 -> exists w, wb_from_frame (FGoaway id) = Ok w /\ goaway_out (w, None).
Proof.
  intros Hid. pose proof (frame_header_small (FGoaway id) Hid) as Hs. cbn beta iota in Hs.
  destruct (wb_from_frame_ok (FGoaway id) Hid I) as (w & E & Hi & Hv); [lia|].
  exists w. split; [exact E|]. split; [reflexivity|]. split; [exact Hi|]. cbn [fst snd].
  exists id. split; [exact Hid|]. rewrite Hv. cbn [frame_header_bytes frame_payload_bytes]. apply app_nil_r.
Qed.

Lemma grease_pair_wb gs gf : gs < grease_range -> gf < grease_range ->
  exists w, wb_from_pair (grease_id gs) (FGrease gf) = Ok w /\ wb_inv w /\
            wb_view w = rfc_varint (grease_id gs) ++ rfc_frame (grease_id gf) grease_payload.
Proof.
  intros Hs Hf. pose proof (frame_header_small (FGrease gf) Hf) as Hsm. cbn beta iota in Hsm.
  destruct (wb_from_pair_ok (grease_id gs) (FGrease gf) (grease_id_range gs Hs) Hf I) as (w & E & Hi & Hv); [lia|].
  exists w. split; [exact E|]. split; [exact Hi|]. rewrite Hv. cbn [frame_header_bytes frame_payload_bytes].
  rewrite app_nil_r. reflexivity.
Qed.

(* ---- programs ---- *)
Definition block_ok (b : option bytes) : Prop := match b with Some x => len x < 2 ^ 62 | None => True end.

Definition op_ok (o : op) : Prop :=
  match o with
  | OPeerControl _ gs gf _ => gs < grease_range /\ gf < grease_range
  | OAccept sid out => sid mod 4 = 0 /\ sid < 2 ^ 62 /\ match out with ATooLarge b => len b < 2 ^ 62 | _ => True end
  | ORequest b => block_ok b
  | OHeaders _ b => block_ok b
  | OData _ p => nonempty_chunks p /\ len (concat p) < 2 ^ 62
  | OFinish _ g => g < grease_range
  | OShutdown n => n < 2 ^ 64
  | OStop _ | ODrop _ | OStopSending _ | OPoll | OStopControl => True
  end.

Lemma nth_n_In {A} (l : list A) i x : nth_n l i = Some x -> In x l.
Proof.
  revert i. induction l as [|a l IH]; intros i; cbn [nth_n]; [discriminate|].
  destruct (i =? 0); [intros H; inversion H; left; reflexivity|]. intros H. right. eapply IH. exact H.
Qed.

Lemma live_handle_sid c h hd : cinv c -> live_handle c h = Some hd -> h_sid hd mod 4 = 0.
Proof.
  intros (_ & _ & _ & _ & Hh & _) Hl. unfold live_handle in Hl.
  destruct (nth_n (c_handles c) h) as [hd'|] eqn:E; [|discriminate].
  destruct (h_alive hd'); [|discriminate]. inversion Hl; subst.
  rewrite Forall_forall in Hh. apply Hh. eapply nth_n_In. exact E.
Qed.

Lemma writable_handle_sid c h hd : cinv c -> writable_handle c h = Some hd -> h_sid hd mod 4 = 0.
Proof.
  intros Hc Hw. unfold writable_handle in Hw. destruct (live_handle c h) as [hd'|] eqn:E; [|discriminate].
  destruct (h_stopped hd'); [discriminate|]. inversion Hw; subst. eapply live_handle_sid; eauto.
Qed.

Lemma map_nth_Forall {A} (P : A -> Prop) f i (l : list A) :
  Forall P l -> (forall x, P x -> P (f x)) -> Forall P (map_nth f i l).
Proof.
  intros H Hf. revert i. induction H as [|x l Hx Hl IH]; intros i; cbn [map_nth]; [constructor|].
  destruct (i =? 0); constructor; auto.
Qed.

(* writing a request-stream buffer keeps the invariant *)
Lemma write_request_ok c sid w :
  cinv c -> sid mod 4 = 0 -> req_out (w, None) ->
  cinv (upd_streams c (map_stream (push_out w None) sid (c_streams c))).
Proof.
  intros (Hs & Hnu & Hc & Hlt & Hh & Hg & Hb & Hl) Hsid Hreq.
  unfold cinv. cbn [upd_streams c_server c_streams c_next_uni c_control c_handles c_grease_id c_next_bidi c_last_accepted].
  split; [apply push_request_ok; auto; apply first_uni_cases|].
  repeat (split; [assumption|]). split; [|split; assumption].
  destruct (c_grease_id c) as [gid|]; [|exact I]. destruct Hg as (G1 & G2 & G3). repeat split; auto.
  apply map_stream_Forall; [exact G3|]. intros s Hs' _. exact Hs'.
Qed.

Lemma write_to_request c sid f w :
  cinv c -> sid mod 4 = 0 -> wb_from_frame f = Ok w -> req_out (w, None) ->
  exists c', write_to c sid (wb_from_frame f) None = Ok c' /\ cinv c' /\
             c' = upd_streams c (map_stream (push_out w None) sid (c_streams c)).
Proof.
  intros Hc Hsid E Hreq. unfold write_to. rewrite E. eexists. split; [reflexivity|]. split; [|reflexivity].
  apply write_request_ok; assumption.
Qed.

Ltac cinv_split := refine (conj _ (conj _ (conj _ (conj _ (conj _ (conj _ (conj _ _))))))).

Lemma cinv_fields c c' :
  c_server c' = c_server c -> c_streams c' = c_streams c -> c_next_uni c' = c_next_uni c ->
  c_control c' = c_control c -> c_handles c' = c_handles c -> c_grease_id c' = c_grease_id c ->
  c_next_bidi c' = c_next_bidi c -> c_last_accepted c' = c_last_accepted c -> cinv c -> cinv c'.
Proof.
  unfold cinv. intros -> -> -> -> -> -> -> ->. auto.
Qed.

Lemma map_stream_fresh f id ss new :
  Forall (fun s => s_id s <> id) ss -> s_id new = id ->
  map_stream f id (ss ++ [new]) = ss ++ [f new].
Proof.
  intros H Hn. induction H as [|s ss Hs Hss IH]; cbn [map_stream app].
  - rewrite Hn, N.eqb_refl. reflexivity.
  - destruct (N.eqb_spec (s_id s) id); [contradiction|]. rewrite IH. reflexivity.
Qed.

Lemma set_fin_ok u nu ctl id ss :
  Forall (stream_ok u nu ctl) ss -> Forall (stream_ok u nu ctl) (map_stream set_fin id ss).
Proof. intros H. apply map_stream_Forall; [exact H|]. intros s Hs _. exact Hs. Qed.

Lemma kind_clause_map f id gid ss :
  (forall s, s_id (f s) = s_id s /\ s_kind (f s) = s_kind s) ->
  Forall (fun s => s_id s = gid -> s_kind s = KGrease) ss ->
  Forall (fun s => s_id s = gid -> s_kind s = KGrease) (map_stream f id ss).
Proof.
  intros Hf H. apply map_stream_Forall; [exact H|]. intros s Hs _. destruct (Hf s) as [-> ->]. exact Hs.
Qed.

Lemma finish_stream_ok c id : cinv c -> cinv (finish_stream c id).
Proof.
  intros (Hs & Hnu & Hc & Hlt & Hh & Hg & Hb & Hl). unfold finish_stream, cinv.
  cbn [upd_streams c_server c_streams c_next_uni c_control c_handles c_grease_id c_next_bidi c_last_accepted].
  split; [apply set_fin_ok; exact Hs|]. repeat (split; [assumption|]). split; [|split; assumption].
  destruct (c_grease_id c); [|exact I]. destruct Hg as (G1 & G2 & G3). repeat split; auto.
  apply kind_clause_map; [intros s; split; reflexivity|exact G3].
Qed.

(* the GOAWAY of a shutdown *)
Lemma inner_shutdown_ok c max_id :
  cinv c -> max_id < 2 ^ 62 -> exists c', inner_shutdown c max_id = Ok c' /\ cinv c'.
Proof.
  intros Hc Hm. unfold inner_shutdown.
  destruct (shutdown_checks_conn_error && c_conn_error c); [exists c; auto|].
  destruct (match c_sent_closing c with Some s => cmp_skip s max_id | None => false end); [exists c; auto|].
  destruct (c_ctl_stopped c); [eexists; split; [reflexivity|apply (cinv_fields c); auto]|].
  destruct gen_setup as (_ & _ & _ & _ & _ & -> & _).
  destruct (goaway_wb max_id Hm) as (w & E & Hgo). unfold write_to. rewrite E. eexists. split; [reflexivity|].
  assert (Hc' : cinv (set_closing c max_id)) by (apply (cinv_fields c); auto).
  destruct Hc' as (Hs & Hnu & Hct & Hlt & Hh & Hg & Hb & Hl).
  unfold cinv. cbn [upd_streams set_closing c_server c_streams c_next_uni c_control c_handles c_grease_id c_next_bidi c_last_accepted] in *.
  split; [apply push_goaway_ok; auto; apply first_uni_cases|].
  repeat (split; [assumption|]). split; [|split; assumption].
  destruct (c_grease_id c); [|exact I]. destruct Hg as (G1 & G2 & G3). repeat split; auto.
  apply kind_clause_map; [intros s; split; reflexivity|exact G3].
Qed.

Lemma first_request_id : sid_new 0 Bi Client = 0.
Proof. vm_compute. reflexivity. Qed.

Lemma api_shutdown_ok c n :
  cinv c -> n < 2 ^ 64 -> exists c', api_shutdown c n = Ok c' /\ cinv c'.
Proof.
  intros Hc Hn. unfold api_shutdown. destruct (c_server c).
  - apply inner_shutdown_ok; [exact Hc|].
    destruct Hc as (_ & _ & _ & _ & _ & _ & _ & Hl).
    destruct (c_last_accepted c) as [l|].
    + destruct (sid_add_valid l n Hl Hn) as (H1 & _).
      assert (H1n : 1 < 2 ^ 64) by (vm_compute; reflexivity).
      destruct (sid_add_valid (sid_add l n) 1 H1 H1n) as (H2 & _). exact H2.
    + rewrite first_request_id.
      assert (H0 : 0 < 2 ^ 62) by (vm_compute; reflexivity).
      destruct (sid_add_valid 0 n H0 Hn) as (H2 & _). exact H2.
  - apply inner_shutdown_ok; [exact Hc|]. vm_compute. reflexivity.
Qed.

Lemma add_request_stream_ok c sid : cinv c -> sid mod 4 = 0 -> cinv (add_stream c sid KRequest).
Proof.
  intros Hc Hsid. unfold add_stream. destruct (has_stream (c_streams c) sid); [exact Hc|].
  destruct Hc as (Hs & Hnu & Hct & Hlt & Hh & Hg & Hb & Hl). unfold cinv.
  cbn [upd_streams c_server c_streams c_next_uni c_control c_handles c_grease_id c_next_bidi c_last_accepted].
  split.
  { apply Forall_app. split; [exact Hs|]. constructor; [|constructor].
    unfold stream_ok. cbn [s_kind s_id s_out]. split; [exact Hsid|constructor]. }
  repeat (split; [assumption|]). split; [|split; assumption].
  destruct (c_grease_id c) as [gid|]; [|exact I]. destruct Hg as (G1 & G2 & G3). repeat split; auto.
  apply Forall_app. split; [exact G3|]. constructor; [|constructor]. cbn [s_id s_kind]. intros E.
  pose proof (first_uni_cases (c_server c)). lia.
Qed.

Lemma add_stream_streams_req c sid :
  c_server (add_stream c sid KRequest) = c_server c /\ c_next_uni (add_stream c sid KRequest) = c_next_uni c /\
  c_control (add_stream c sid KRequest) = c_control c /\ c_handles (add_stream c sid KRequest) = c_handles c /\
  c_grease_id (add_stream c sid KRequest) = c_grease_id c /\ c_next_bidi (add_stream c sid KRequest) = c_next_bidi c /\
  c_last_accepted (add_stream c sid KRequest) = c_last_accepted c /\
  c_sent_closing (add_stream c sid KRequest) = c_sent_closing c /\ c_ongoing (add_stream c sid KRequest) = c_ongoing c /\
  c_grease_frame (add_stream c sid KRequest) = c_grease_frame c /\ c_closing (add_stream c sid KRequest) = c_closing c.
Proof. unfold add_stream. destruct (has_stream (c_streams c) sid); repeat split. Qed.

Lemma fresh_uni c :
  cinv c -> Forall (fun s => s_id s <> c_next_uni c) (c_streams c).
Proof.
  intros (Hs & Hnu & Hct & Hlt & _). pose proof (first_uni_cases (c_server c)) as Hu.
  eapply Forall_impl; [|exact Hs]. intros s Hok. unfold stream_ok in Hok.
  destruct (s_kind s).
  - destruct Hok as (A & _). lia.
  - destruct Hok as (_ & B & _). lia.
  - destruct Hok as (_ & B & _). lia.
  - destruct Hok as (_ & B & _). lia.
  - destruct Hok as (A & _). lia.
Qed.

Lemma grease_poll_ok c gs gf accepted :
  cinv c -> gs < grease_range -> gf < grease_range ->
  exists c', grease_poll c gs gf accepted = Ok c' /\ cinv c'.
Proof.
  intros Hc Hgs Hgf. unfold grease_poll. destruct (c_grease_stream c); [|exists c; auto].
  destruct gen_setup as (_ & _ & -> & _).
  destruct (c_grease_id c) as [gid|] eqn:Egid.
  - (* resuming the write *)
    eexists. split; [reflexivity|].
    assert (H1 : cinv (upd_streams c (map_stream (set_cut accepted) gid (c_streams c)))).
    { destruct Hc as (Hs & Hnu & Hct & Hlt & Hh & Hg & Hb & Hl). rewrite Egid in Hg. destruct Hg as (G1 & G2 & G3).
      unfold cinv. cbn [upd_streams c_server c_streams c_next_uni c_control c_handles c_grease_id c_next_bidi c_last_accepted].
      rewrite Egid. split.
      { assert (Hboth : Forall (fun s => stream_ok (first_uni_of (c_server c)) (c_next_uni c) (c_control c) s /\
                                         (s_id s = gid -> s_kind s = KGrease)) (c_streams c)).
        { clear - Hs G3. induction Hs; inversion G3; subst; constructor; auto. }
        apply (map_stream_Forall _ (set_cut accepted) gid) in Hboth.
        - eapply Forall_impl; [|exact Hboth]. intros s [A _]. exact A.
        - intros s [Hok Hk] Hid. specialize (Hk Hid). split; [|intros _; exact Hk].
          unfold stream_ok in *. unfold set_cut. cbn [s_kind s_id s_out]. rewrite Hk in *.
          destruct Hok as (A & B & C & w & cut & gs' & gf' & E & Hi & H1 & H2 & Hv).
          repeat (split; [assumption|]). exists w, accepted, gs', gf'. rewrite E. cbn [map fst].
          repeat (split; [assumption || reflexivity|]). exact Hv. }
      repeat (split; [assumption|]). split; [|split; assumption].
      repeat split; auto. apply kind_clause_map; [intros s; split; reflexivity|exact G3]. }
    destruct accepted; [exact H1|].
    apply finish_stream_ok with (id := gid) in H1.
    destruct H1 as (Hs & Hnu & Hct & Hlt & Hh & Hg & Hb & Hl).
    unfold cinv. cbn [set_grease_stream c_server c_streams c_next_uni c_control c_handles c_grease_id c_next_bidi c_last_accepted] in *.
    repeat (split; [assumption|]). split; [exact I|]. split; assumption.
  - (* opening the stream *)
    destruct gen_grease as (_ & _ & -> & -> & _). rewrite grease_value_ok by exact Hgs.
    destruct (grease_pair_wb gs gf Hgs Hgf) as (w & E & Hi & Hv).
    pose proof (fresh_uni c Hc) as Hfresh.
    unfold write_to. rewrite E.
    unfold add_stream. rewrite (has_stream_false _ _ Hfresh).
    cbn [upd_streams c_streams].
    set (new := {| s_id := c_next_uni c; s_kind := KGrease; s_out := []; s_fin := false |}).
    rewrite (map_stream_fresh (push_out w accepted) (c_next_uni c) (c_streams c) new Hfresh eq_refl).
    destruct Hc as (Hs & Hnu & Hct & Hlt & Hh & Hg & Hb & Hl).
    pose proof (first_uni_cases (c_server c)) as Hu.
    assert (Hstreams : Forall (stream_ok (first_uni_of (c_server c)) (c_next_uni c + 4) (c_control c))
                              (c_streams c ++ [push_out w accepted new])).
    { apply Forall_app. split.
      - eapply Forall_impl; [|exact Hs]. intros s. apply stream_ok_mono. lia.
      - constructor; [|constructor]. unfold stream_ok, push_out, new. cbn [s_kind s_id s_out app].
        split; [exact Hnu|]. split; [lia|]. split; [lia|].
        exists w, accepted, gs, gf. repeat (split; [assumption || reflexivity|]). exact Hv. }
    assert (Hclause : Forall (fun s => s_id s = c_next_uni c -> s_kind s = KGrease) (c_streams c ++ [push_out w accepted new])).
    { apply Forall_app. split.
      - eapply Forall_impl; [|exact Hfresh]. intros s Hne Heq. contradiction.
      - constructor; [|constructor]. intros _. reflexivity. }
    destruct accepted as [k|].
    + eexists. split; [reflexivity|]. unfold cinv.
      cbn [set_grease_stream upd_streams c_server c_streams c_next_uni c_control c_handles c_grease_id c_next_bidi c_last_accepted].
      split; [exact Hstreams|]. split; [lia|]. split; [exact Hct|]. split; [lia|]. split; [exact Hh|].
      split; [|split; assumption]. split; [exact Hnu|]. split; [lia|exact Hclause].
    + eexists. split; [reflexivity|]. unfold cinv, finish_stream.
      cbn [set_grease_stream upd_streams c_server c_streams c_next_uni c_control c_handles c_grease_id c_next_bidi c_last_accepted].
      split; [apply set_fin_ok; exact Hstreams|]. split; [lia|]. split; [exact Hct|]. split; [lia|]. split; [exact Hh|].
      split; [exact I|]. split; assumption.
Qed.

Lemma set_conn_error_ok c : cinv c -> cinv (set_conn_error c).
Proof. apply cinv_fields; reflexivity. Qed.

Lemma accept_idle_ok c : cinv c -> exists c', accept_idle c = Ok c' /\ cinv c'.
Proof.
  intros Hc. unfold accept_idle. destruct (c_conn_error c); [exists c; auto|].
  destruct (c_recv_closing c); [|exists c; auto]. destruct (c_ongoing c); [|exists c; auto].
  apply api_shutdown_ok; [exact Hc|vm_compute; reflexivity].
Qed.

Lemma step_ok c o : cinv c -> op_ok o -> exists c', step c o = Ok c' /\ cinv c'.
Proof.
  intros Hc Ho. destruct o as [f gs gf acc| |sid out|b|h b|h p|h g|h|h| |h|n]; cbn [op_ok] in Ho.
  - (* a control frame of the peer *)
    destruct Ho as [Hgs Hgf]. cbn [step]. destruct (c_conn_error c); [exists c; auto|].
    destruct f as [|id| | |].
    + destruct (c_got_settings c); [eexists; split; [reflexivity|apply set_conn_error_ok; exact Hc]|].
      apply grease_poll_ok; auto; apply (cinv_fields c); auto.
    + destruct (c_got_settings c); cbn [negb]; [|eexists; split; [reflexivity|apply set_conn_error_ok; exact Hc]].
      destruct (grease_poll_ok c gs gf acc Hc Hgs Hgf) as (c1 & E1 & Hc1). rewrite E1.
      destruct (negb (c_server c1) && negb (sid_is_request id)).
      * eexists. split; [reflexivity|apply set_conn_error_ok; exact Hc1].
      * eexists. split; [reflexivity|]. unfold process_goaway.
        destruct (match c_recv_closing c1 with Some prev => prev <? id | None => false end);
          apply (cinv_fields c1); auto.
    + destruct (c_got_settings c); cbn [negb]; [|eexists; split; [reflexivity|apply set_conn_error_ok; exact Hc]].
      destruct (grease_poll_ok c gs gf acc Hc Hgs Hgf) as (c1 & E1 & Hc1). rewrite E1.
      destruct (c_server c1); eexists; (split; [reflexivity|]); [exact Hc1|apply set_conn_error_ok; exact Hc1].
    + exists c. auto.
    + eexists. split; [reflexivity|apply set_conn_error_ok; exact Hc].
  - (* accept() with nothing to accept *)
    cbn [step]. destruct (c_server c); [apply accept_idle_ok; exact Hc|exists c; auto].
  - (* accept *)
    destruct Ho as (Hsid & Hlt & Hb). cbn [step]. destruct (c_server c) eqn:Esrv; cbn [negb]; [|exists c; auto].
    pose proof (add_request_stream_ok c sid Hc Hsid) as Hc0.
    destruct (add_stream_streams_req c sid) as (F1 & F2 & F3 & F4 & F5 & F6 & F7 & F8 & F9 & F10 & F11).
    set (c0 := add_stream c sid KRequest) in *.
    destruct (c_conn_error c0); [exists c0; auto|].
    destruct (match c_sent_closing c0 with Some m => m <=? sid | None => false end).
    + destruct (c_ongoing c0); [|exists c0; auto].
      apply api_shutdown_ok; [exact Hc0|vm_compute; reflexivity].
    + set (last := match c_last_accepted c0 with Some l => N.max l sid | None => sid end).
      assert (Hlast : last < 2 ^ 62).
      { unfold last. destruct Hc0 as (_ & _ & _ & _ & _ & _ & _ & Hl). destruct (c_last_accepted c0); lia. }
      set (c1 := set_ongoing (set_last_accepted (set_grease_frame c0 false) last) (c_ongoing c0 ++ [sid])).
      assert (Hc1 : cinv c1).
      { destruct Hc0 as (Hs & Hnu & Hct & Hlt' & Hh & Hg & Hbb & Hl). unfold cinv, c1.
        cbn [set_ongoing set_last_accepted set_grease_frame c_server c_streams c_next_uni c_control c_handles c_grease_id c_next_bidi c_last_accepted].
        cinv_split; assumption. }
      destruct out as [stopped|block|ce].
      * eexists. split; [reflexivity|].
        destruct Hc1 as (Hs & Hnu & Hct & Hlt' & Hh & Hg & Hbb & Hl). unfold cinv.
        cbn [set_handles c_server c_streams c_next_uni c_control c_handles c_grease_id c_next_bidi c_last_accepted].
        cinv_split; try assumption.
        apply Forall_app. split; [exact Hh|]. constructor; [exact Hsid|constructor].
      * destruct (headers_out block Hb) as (w & E & Hreq).
        destruct (write_to_request c1 sid (FHeaders block) w Hc1 Hsid E Hreq) as (c2 & E2 & Hc2 & _).
        rewrite E2. eexists. split; [reflexivity|]. apply (cinv_fields c2); auto.
      * eexists. split; [reflexivity|]. destruct ce; [apply set_conn_error_ok|]; apply (cinv_fields c1); auto.
  - (* send_request *)
    cbn [step]. destruct (c_server c) eqn:Esrv; cbn [orb]; [exists c; auto|].
    destruct (c_closing c); [exists c; auto|].
    assert (Hnb : c_next_bidi c mod 4 = 0).
    { destruct Hc as (_ & _ & _ & _ & _ & _ & Hbb & _). apply Hbb. exact Esrv. }
    pose proof (add_request_stream_ok c (c_next_bidi c) Hc Hnb) as Hc0.
    destruct (add_stream_streams_req c (c_next_bidi c)) as (F1 & F2 & F3 & F4 & F5 & F6 & F7 & F8 & F9 & F10 & F11).
    set (c0 := add_stream c (c_next_bidi c) KRequest) in *.
    set (c1 := set_next_bidi c0 (c_next_bidi c + 4)).
    assert (Hc1 : cinv c1).
    { destruct Hc0 as (Hs & Hnu & Hct & Hlt' & Hh & Hg & Hbb & Hl). unfold cinv, c1.
      cbn [set_next_bidi c_server c_streams c_next_uni c_control c_handles c_grease_id c_next_bidi c_last_accepted].
      cinv_split; try assumption. intros _. lia. }
    destruct b as [blk|]; [|exists c1; auto].
    destruct (headers_out blk Ho) as (w & E & Hreq).
    destruct (write_to_request c1 (c_next_bidi c) (FHeaders blk) w Hc1 Hnb E Hreq) as (c2 & E2 & Hc2 & _).
    rewrite E2. eexists. split; [reflexivity|].
    destruct Hc2 as (Hs & Hnu & Hct & Hlt' & Hh & Hg & Hbb & Hl). unfold cinv.
    cbn [set_grease_frame set_handles c_server c_streams c_next_uni c_control c_handles c_grease_id c_next_bidi c_last_accepted].
    cinv_split; try assumption.
    apply Forall_app. split; [exact Hh|]. constructor; [exact Hnb|constructor].
  - (* send_response / send_trailers *)
    cbn [step]. destruct (writable_handle c h) as [hd|] eqn:El; [|exists c; auto].
    destruct b as [blk|]; [|exists c; auto].
    pose proof (writable_handle_sid c h hd Hc El) as Hsid.
    destruct (headers_out blk Ho) as (w & E & Hreq).
    destruct (write_to_request c (h_sid hd) (FHeaders blk) w Hc Hsid E Hreq) as (c2 & E2 & Hc2 & _).
    exists c2. auto.
  - (* send_data *)
    destruct Ho as [Hne Hlen]. cbn [step]. destruct (writable_handle c h) as [hd|] eqn:El; [|exists c; auto].
    pose proof (writable_handle_sid c h hd Hc El) as Hsid.
    destruct (data_out p Hne Hlen) as (w & E & Hreq).
    destruct (write_to_request c (h_sid hd) (FData p) w Hc Hsid E Hreq) as (c2 & E2 & Hc2 & _).
    exists c2. auto.
  - (* finish *)
    cbn [step]. destruct (live_handle c h) as [hd|] eqn:El; [|exists c; auto].
    pose proof (live_handle_sid c h hd Hc El) as Hsid.
    destruct gen_setup as (_ & _ & _ & -> & _).
    destruct (h_stopped hd && h_grease hd && true); [exists c; auto|].
    assert (Hr : exists c1, (if h_grease hd && true then write_to c (h_sid hd) (wb_from_frame (FGrease g)) None else Ok c) = Ok c1 /\ cinv c1).
    { destruct (h_grease hd); cbn [andb].
      - destruct (grease_frame_out g Ho) as (w & E & Hreq).
        destruct (write_to_request c (h_sid hd) (FGrease g) w Hc Hsid E Hreq) as (c2 & E2 & Hc2 & _).
        exists c2. auto.
      - exists c. auto. }
    destruct Hr as (c1 & E1 & Hc1). rewrite E1. eexists. split; [reflexivity|].
    apply finish_stream_ok.
    destruct Hc1 as (Hs & Hnu & Hct & Hlt' & Hh & Hg & Hbb & Hl). unfold cinv.
    cbn [set_handles c_server c_streams c_next_uni c_control c_handles c_grease_id c_next_bidi c_last_accepted].
    cinv_split; try assumption.
    destruct (h_grease hd); [|exact Hh]. apply map_nth_Forall; [exact Hh|]. intros x Hx. exact Hx.
  - exists c. auto.
  - (* STOP_SENDING *)
    cbn [step]. destruct (live_handle c h) as [hd|]; [|exists c; auto].
    eexists. split; [reflexivity|].
    destruct Hc as (Hs & Hnu & Hct & Hlt' & Hh & Hg & Hbb & Hl). unfold cinv.
    cbn [set_handles c_server c_streams c_next_uni c_control c_handles c_grease_id c_next_bidi c_last_accepted].
    cinv_split; try assumption.
    apply map_nth_Forall; [exact Hh|]. intros x Hx. exact Hx.
  - eexists. split; [reflexivity|apply (cinv_fields c); auto].
  - (* drop *)
    cbn [step]. destruct (live_handle c h) as [hd|]; [|exists c; auto].
    eexists. split; [reflexivity|].
    destruct Hc as (Hs & Hnu & Hct & Hlt' & Hh & Hg & Hbb & Hl). unfold cinv.
    cbn [set_ongoing set_handles c_server c_streams c_next_uni c_control c_handles c_grease_id c_next_bidi c_last_accepted].
    cinv_split; try assumption.
    apply map_nth_Forall; [exact Hh|]. intros x Hx. exact Hx.
  - apply api_shutdown_ok; assumption.
Qed.

Lemma run_ops_ok prog : forall c, cinv c -> Forall op_ok prog -> exists c', run_ops c prog = Ok c' /\ cinv c'.
Proof.
  induction prog as [|o prog IH]; intros c Hc Hp.
  - exists c. auto.
  - inversion Hp as [|? ? Ho Hr]; subst. cbn [run_ops].
    destruct (step_ok c o Hc Ho) as (c1 & E1 & Hc1). rewrite E1. cbn [res_bind]. apply IH; assumption.
Qed.

(* ---- setup ---- *)
Lemma setup_write_eq fu es role c pos code u w :
  nth_n setup_open_pos role = Some pos -> nth_n setup_headers role = Some code ->
  header_of code es = Ok u -> wb_from_uni u = Ok w ->
  setup_write fu es role c =
    Ok (upd_streams (add_stream c (fu + 4 * pos) (kind_of_header code))
          (map_stream (push_out w None) (fu + 4 * pos) (c_streams (add_stream c (fu + 4 * pos) (kind_of_header code))))).
Proof.
  intros H1 H2 H3 H4. unfold setup_write. rewrite H1, H2, H3. unfold write_to. rewrite H4. reflexivity.
Qed.

Lemma control_header_fits es :
  settings_good es -> len (pairs_bytes es) <= 61 ->
  uni_args_ok (UControl es) /\ len (uni_header_bytes (UControl es)) <= 64.
Proof.
  intros (Hp & _) Hlen. cbn [uni_args_ok uni_header_bytes]. rewrite rfc_settings_bytes_eq. split.
  - split; [exact Hp|]. change (2 ^ 62) with 4611686018427387904. lia.
  - unfold rfc_frame. rewrite !len_app.
    rewrite (len_rfc_varint (len (pairs_bytes es))) by (change (2 ^ 62) with 4611686018427387904; lia).
    assert (rfc_vi_shortest (len (pairs_bytes es)) = 1).
    { unfold rfc_vi_shortest. destruct (N.ltb_spec (len (pairs_bytes es)) (2 ^ 6)); [reflexivity|]. change (2 ^ 6) with 64 in *. lia. }
    change (len (rfc_varint S_CONTROL)) with 1. change (len (rfc_varint T_SETTINGS)) with 1. lia.
Qed.

Lemma setup_ok server cfg g :
  g < grease_range ->
  exists r, setup server cfg g = Ok r /\ match r with Some c => cinv c /\ c_server c = server | None => True end.
Proof.
  intros Hg. unfold setup.
  destruct (config_settings_good cfg g Hg) as (r & Er & Hr). rewrite Er.
  destruct r as [es|]; [|exists None; auto]. destruct Hr as [Hgood Hlen].
  destruct (control_header_fits es Hgood Hlen) as [Ha Hf].
  destruct (wb_from_uni_ok (UControl es) Ha Hf) as (w0 & E0 & Hi0 & Hv0).
  destruct (wb_from_uni_ok UEncoder I) as (w1 & E1 & Hi1 & Hv1); [vm_compute; discriminate|].
  destruct (wb_from_uni_ok UDecoder I) as (w2 & E2 & Hi2 & Hv2); [vm_compute; discriminate|].
  destruct gen_setup as (Hpos & Hhdr & _).
  set (fu := first_uni_of server).
  rewrite (setup_write_eq fu es 0 _ 0 0 (UControl es) w0) by (rewrite ?Hpos, ?Hhdr; auto; reflexivity).
  cbn [res_bind].
  rewrite (setup_write_eq fu es 2 _ 2 2 UDecoder w2) by (rewrite ?Hpos, ?Hhdr; auto; reflexivity).
  cbn [res_bind].
  rewrite (setup_write_eq fu es 1 _ 1 1 UEncoder w1) by (rewrite ?Hpos, ?Hhdr; auto; reflexivity).
  eexists. split; [reflexivity|].
  rewrite Hpos. cbn [nth_n]. change (0 =? 0) with true. cbv beta iota.
  assert (Hfu : fu = 2 \/ fu = 3) by apply first_uni_cases.
  (* the three streams, concretely *)
  match goal with |- cinv ?c /\ _ => set (cfinal := c) end.
  assert (Hstreams : c_streams cfinal =
            [ {| s_id := fu; s_kind := KControl; s_out := [(w0, None)]; s_fin := false |};
              {| s_id := fu + 8; s_kind := KDecoder; s_out := [(w2, None)]; s_fin := false |};
              {| s_id := fu + 4; s_kind := KEncoder; s_out := [(w1, None)]; s_fin := false |} ]).
  { unfold cfinal, fu. destruct server; vm_compute; reflexivity. }
  assert (Hfields : c_server cfinal = server /\ c_next_uni cfinal = fu + 12 /\ c_control cfinal = fu /\
                    c_handles cfinal = [] /\ c_grease_id cfinal = None /\ c_next_bidi cfinal = (if server then 1 else 0) /\
                    c_last_accepted cfinal = None).
  { unfold cfinal, fu. destruct server; vm_compute; repeat split. }
  destruct Hfields as (F1 & F2 & F3 & F4 & F5 & F6 & F7).
  split; [|exact F1]. unfold cinv. rewrite Hstreams, F1, F2, F3, F4, F5, F6, F7. fold fu.
  cinv_split; try lia; try exact I; try constructor.
  - unfold stream_ok. cbn [s_kind s_id s_out]. split; [reflexivity|].
    exists w0, es, []. split; [reflexivity|]. split; [exact Hi0|]. split; [exact Hgood|].
    split; [change (2 ^ 62) with 4611686018427387904; lia|]. split; [|constructor].
    rewrite Hv0. cbn [uni_header_bytes]. reflexivity.
  - constructor; [|constructor; [|constructor]].
    + unfold stream_ok. cbn [s_kind s_id s_out]. split; [lia|]. split; [lia|]. split; [lia|].
      exists w2. split; [reflexivity|]. split; [exact Hi2|]. exact Hv2.
    + unfold stream_ok. cbn [s_kind s_id s_out]. split; [lia|]. split; [lia|]. split; [lia|].
      exists w1. split; [reflexivity|]. split; [exact Hi1|]. exact Hv1.
  - intros Hs. rewrite Hs. reflexivity.
Qed.

(* ---- what is on the wire ---- *)
Definition req_frame_ok (f : N * bytes) : Prop := req_type_ok (fst f) /\ len (snd f) < 2 ^ 62.

Lemma req_type_lt ty : req_type_ok ty -> ty < 2 ^ 62.
Proof. intros [->|[->|[_ H]]]; [vm_compute; reflexivity|vm_compute; reflexivity|exact H]. Qed.

Lemma req_outs_wire outs :
  Forall req_out outs -> exists fs, concat (map out_bytes outs) = frames_bytes fs /\ Forall req_frame_ok fs.
Proof.
  induction 1 as [|[w cut] outs (Hc & Hi & ty & p & Hv & Hp & Ht) Hr (fs & E & Hfs)].
  - exists []. split; [reflexivity|constructor].
  - cbn [fst snd] in *. subst cut. exists ((ty, p) :: fs). split.
    + cbn [map concat]. unfold out_bytes at 1. cbn [fst snd]. rewrite Hv, E. reflexivity.
    + constructor; [split; assumption|exact Hfs].
Qed.

Lemma goaway_outs_wire outs :
  Forall goaway_out outs ->
  exists ids, concat (map out_bytes outs) = frames_bytes (map (fun id => (T_GOAWAY, rfc_varint id)) ids) /\
              Forall (fun id => id < 2 ^ 62) ids.
Proof.
  induction 1 as [|[w cut] outs (Hc & Hi & id & Hid & Hv) Hr (ids & E & Hids)].
  - exists []. split; [reflexivity|constructor].
  - cbn [fst snd] in *. subst cut. exists (id :: ids). split.
    + cbn [map concat]. unfold out_bytes at 1. cbn [fst snd]. rewrite Hv, E. reflexivity.
    + constructor; assumption.
Qed.

Lemma request_judged fs :
  Forall req_frame_ok fs -> rfc_judge_request (frames_bytes fs) = VRequest fs.
Proof.
  intros H. unfold rfc_judge_request. rewrite frames_ok.
  - assert (Hall : forallb rfc_request_frame_ok fs = true).
    { apply forallb_forall. intros [ty p] Hin. rewrite Forall_forall in H. destruct (H _ Hin) as [Ht _]. cbn [fst] in Ht.
      unfold rfc_request_frame_ok. destruct Ht as [->|[->|[Hr _]]]; [reflexivity|reflexivity|].
      rewrite Hr. apply orb_true_r. }
    rewrite Hall. reflexivity.
  - eapply Forall_impl; [|exact H]. intros [ty p] [Ht Hp]. split; [apply req_type_lt; exact Ht|exact Hp].
Qed.

Lemma settings_payload_judged es : settings_good es -> rfc_settings_payload_ok (pairs_bytes es) = true.
Proof.
  intros (Hp & Hn & Ha). unfold rfc_settings_payload_ok. rewrite settings_pairs_ok by exact Hp.
  rewrite nodup_ids_spec by exact Hn. cbn [andb].
  apply forallb_forall. intros e Hin. rewrite Forall_forall in Ha. destruct (Ha e Hin) as [Hh Hk].
  rewrite Hh. cbn [negb andb]. destruct Hk as [->| ->]; [reflexivity|apply orb_true_r].
Qed.

Definition control_frames (es : list (N * N)) (ids : list N) : list (N * bytes) :=
  (T_SETTINGS, pairs_bytes es) :: map (fun id => (T_GOAWAY, rfc_varint id)) ids.

Lemma control_judged role es ids :
  settings_good es -> len (pairs_bytes es) < 2 ^ 62 -> Forall (fun id => id < 2 ^ 62) ids ->
  rfc_judge_uni role (rfc_varint S_CONTROL ++ frames_bytes (control_frames es ids)) = VControl (control_frames es ids).
Proof.
  intros Hes Hlen Hids. unfold rfc_judge_uni. rewrite read_varint_enc by (vm_compute; reflexivity).
  change (S_CONTROL =? S_CONTROL) with true. cbv beta iota.
  rewrite frames_ok.
  - assert (Hok : rfc_control_frames_ok role (control_frames es ids) = true).
    { unfold control_frames, rfc_control_frames_ok. change (T_SETTINGS =? T_SETTINGS) with true.
      rewrite settings_payload_judged by exact Hes. cbn [andb].
      apply forallb_forall. intros f Hin. apply in_map_iff in Hin as (id & <- & Hin).
      rewrite Forall_forall in Hids. unfold rfc_control_frame_ok. change (T_GOAWAY =? T_GOAWAY) with true. cbv beta iota.
      apply single_varint_ok. apply Hids. exact Hin. }
    rewrite Hok. reflexivity.
  - unfold control_frames. constructor.
    + split; [vm_compute; reflexivity|exact Hlen].
    + apply Forall_forall. intros f Hin. apply in_map_iff in Hin as (id & <- & Hin).
      rewrite Forall_forall in Hids. specialize (Hids id Hin). split; [vm_compute; reflexivity|].
      cbn [snd]. rewrite len_rfc_varint by exact Hids. pose proof (shortest_le_8 id).
      change (2 ^ 62) with 4611686018427387904. lia.
Qed.

Lemma reserved_judged role ty raw :
  rfc_reserved ty = true -> ty < 2 ^ 62 -> rfc_judge_uni role (rfc_varint ty ++ raw) = VReserved ty raw.
Proof.
  intros Hr Hlt. unfold rfc_judge_uni. rewrite read_varint_enc by exact Hlt.
  assert (Hty : 33 <= ty /\ (ty - 33) mod 31 = 0).
  { unfold rfc_reserved in Hr. apply andb_true_iff in Hr as [A B]. split; lia. }
  unfold S_CONTROL, S_QPACK_ENCODER, S_QPACK_DECODER, S_WEBTRANSPORT.
  destruct (N.eqb_spec ty 0); [lia|]. destruct (N.eqb_spec ty 2); [lia|]. destruct (N.eqb_spec ty 3); [lia|].
  destruct (N.eqb_spec ty 84); [lia|]. rewrite Hr. unfold rfc_varint_range.
  destruct (N.ltb_spec ty (2 ^ 62)); [reflexivity|lia].
Qed.

Definition grease_full (gs gf : N) : bytes := rfc_varint (grease_id gs) ++ rfc_frame (grease_id gf) grease_payload.

Definition wire_valid (s : sstate) : Prop :=
  match s_kind s with
  | KControl =>
      exists es ids, settings_good es /\ Forall (fun id => id < 2 ^ 62) ids /\
        stream_wire s = rfc_varint S_CONTROL ++ frames_bytes (control_frames es ids) /\
        forall role, rfc_judge_uni role (stream_wire s) = VControl (control_frames es ids)
  | KEncoder => stream_wire s = rfc_varint S_QPACK_ENCODER /\ forall role, rfc_judge_uni role (stream_wire s) = VQpackEncoder []
  | KDecoder => stream_wire s = rfc_varint S_QPACK_DECODER /\ forall role, rfc_judge_uni role (stream_wire s) = VQpackDecoder []
  | KGrease =>
      exists gs gf, gs < grease_range /\ gf < grease_range /\
        (exists k, stream_wire s = firstn k (grease_full gs gf)) /\
        (Forall (fun o => snd o = None) (s_out s) -> stream_wire s = grease_full gs gf) /\
        (len (rfc_varint (grease_id gs)) <= len (stream_wire s) ->
         forall role, exists raw, rfc_judge_uni role (stream_wire s) = VReserved (grease_id gs) raw)
  | KRequest =>
      exists fs, Forall req_frame_ok fs /\ stream_wire s = frames_bytes fs /\
                 rfc_judge_request (stream_wire s) = VRequest fs
  end.

Lemma firstn_app_ge {A} k (a b : list A) : (length a <= k)%nat -> firstn k (a ++ b) = a ++ firstn (k - length a) b.
Proof. intros H. rewrite firstn_app. rewrite firstn_all2 by exact H. reflexivity. Qed.

Lemma stream_ok_wire_valid u nu ctl s : stream_ok u nu ctl s -> wire_valid s.
Proof.
  unfold stream_ok, wire_valid, stream_wire. destruct (s_kind s).
  - intros (_ & w & es & rest & E & Hi & Hgood & Hlen & Hv & Hr).
    destruct (goaway_outs_wire rest Hr) as (ids & Eids & Hids).
    exists es, ids. split; [exact Hgood|]. split; [exact Hids|].
    assert (Hw : concat (map out_bytes (s_out s)) = rfc_varint S_CONTROL ++ frames_bytes (control_frames es ids)).
    { rewrite E. cbn [map concat]. unfold out_bytes at 1. cbn [fst snd]. rewrite Hv, Eids.
      unfold control_frames, frames_bytes. cbn [map concat fst snd]. rewrite <- app_assoc. reflexivity. }
    split; [exact Hw|]. intros role. rewrite Hw. apply control_judged; assumption.
  - intros (_ & _ & _ & w & E & Hi & Hv). rewrite E. cbn [map concat]. unfold out_bytes. cbn [fst snd].
    rewrite app_nil_r, Hv. split; [reflexivity|]. intros role. vm_compute. reflexivity.
  - intros (_ & _ & _ & w & E & Hi & Hv). rewrite E. cbn [map concat]. unfold out_bytes. cbn [fst snd].
    rewrite app_nil_r, Hv. split; [reflexivity|]. intros role. vm_compute. reflexivity.
  - intros (_ & _ & _ & w & cut & gs & gf & E & Hi & Hgs & Hgf & Hv).
    exists gs, gf. split; [exact Hgs|]. split; [exact Hgf|]. rewrite E. cbn [map concat]. rewrite app_nil_r.
    unfold out_bytes. cbn [fst snd]. rewrite Hv. fold (grease_full gs gf).
    split; [|split].
    + destruct cut as [k|]; [exists (N.to_nat k); reflexivity|].
      exists (length (grease_full gs gf)). rewrite firstn_all. reflexivity.
    + intros Hall. inversion Hall as [|? ? Hc _]. cbn [snd] in Hc. subst cut. reflexivity.
    + intros Hlen role.
      pose proof (grease_id_reserved gs) as Hr. pose proof (grease_id_range gs Hgs) as Hlt.
      destruct cut as [k|].
      * unfold grease_full in *.
        assert (Hk : (length (rfc_varint (grease_id gs)) <= N.to_nat k)%nat).
        { rewrite len_firstn in Hlen. unfold len in Hlen. lia. }
        rewrite firstn_app_ge by exact Hk. eexists. apply reserved_judged; assumption.
      * unfold grease_full. eexists. apply reserved_judged; assumption.
  - intros (_ & Hr). destruct (req_outs_wire (s_out s) Hr) as (fs & E & Hfs).
    exists fs. split; [exact Hfs|]. split; [exact E|]. rewrite E. apply request_judged. exact Hfs.
Qed.

Lemma stream_ok_bufs_inv u nu ctl s : stream_ok u nu ctl s -> Forall (fun o => wb_inv (fst o)) (s_out s).
Proof.
  unfold stream_ok. destruct (s_kind s).
  - intros (_ & w & es & rest & E & Hi & _ & _ & _ & Hr). rewrite E. constructor; [exact Hi|].
    eapply Forall_impl; [|exact Hr]. intros o (_ & H & _). exact H.
  - intros (_ & _ & _ & w & E & Hi & _). rewrite E. constructor; [exact Hi|constructor].
  - intros (_ & _ & _ & w & E & Hi & _). rewrite E. constructor; [exact Hi|constructor].
  - intros (_ & _ & _ & w & cut & gs & gf & E & Hi & _). rewrite E. constructor; [exact Hi|constructor].
  - intros (_ & Hr). eapply Forall_impl; [|exact Hr]. intros o (_ & H & _). exact H.
Qed.

(* only the grease stream can be left with a write that was not polled to completion *)
Lemma stream_ok_cuts u nu ctl s : stream_ok u nu ctl s -> s_kind s <> KGrease -> Forall (fun o => snd o = None) (s_out s).
Proof.
  unfold stream_ok. destruct (s_kind s); intros H Hk; try congruence.
  - destruct H as (_ & w & es & rest & E & _ & _ & _ & _ & Hr). rewrite E. constructor; [reflexivity|].
    eapply Forall_impl; [|exact Hr]. intros o (H & _). exact H.
  - destruct H as (_ & _ & _ & w & E & _). rewrite E. constructor; [reflexivity|constructor].
  - destruct H as (_ & _ & _ & w & E & _). rewrite E. constructor; [reflexivity|constructor].
  - destruct H as (_ & Hr). eapply Forall_impl; [|exact Hr]. intros o (H & _). exact H.
Qed.

(* ---- T3 ---- *)
Theorem program_output_valid server cfg g prog :
  g < grease_range -> Forall op_ok prog ->
  exists r, run server cfg g prog = Ok r /\
    match r with
    | Some c => Forall wire_valid (c_streams c) /\
                Forall (fun s => Forall (fun o => wb_inv (fst o)) (s_out s)) (c_streams c) /\
                Forall (fun s => s_kind s <> KGrease -> Forall (fun o => snd o = None) (s_out s)) (c_streams c)
    | None => True
    end.
Proof.
  intros Hg Hp. unfold run. destruct (setup_ok server cfg g Hg) as (r & Er & Hr). rewrite Er.
  destruct r as [c0|]; [|exists None; auto]. destruct Hr as [Hc0 _].
  destruct (run_ops_ok prog c0 Hc0 Hp) as (c & Ec & Hc). rewrite Ec. exists (Some c). split; [reflexivity|].
  destruct Hc as (Hs & _). repeat split.
  - eapply Forall_impl; [|exact Hs]. intros s. apply stream_ok_wire_valid.
  - eapply Forall_impl; [|exact Hs]. intros s. apply stream_ok_bufs_inv.
  - eapply Forall_impl; [|exact Hs]. intros s. apply stream_ok_cuts.
Qed.

(* ---- the tie between the wire bytes and the transport's acceptance scripts ---- *)
Definition script_delivers (o : wbuf * option N) (ks : list N) (out : bytes) : Prop :=
  exists w', wb_consume ks (fst o) = Ok (out, w') /\
             match snd o with None => wb_view w' = [] | Some k => len out = k end.

Fixpoint delivered (os : list (wbuf * option N)) (kss : list (list N)) (outs : list bytes) : Prop :=
  match os, kss, outs with
  | [], [], [] => True
  | o :: os', ks :: kss', out :: outs' => script_delivers o ks out /\ delivered os' kss' outs'
  | _, _, _ => False
  end.

Lemma script_delivers_out o ks out : wb_inv (fst o) -> script_delivers o ks out -> out = out_bytes o.
Proof.
  intros Hi (w' & E & Hend). destruct (wb_consume_exact ks (fst o) Hi) as (out' & w'' & E' & Hv & _).
  rewrite E in E'. inversion E'; subst out' w''. unfold out_bytes. destruct (snd o) as [k|].
  - rewrite <- Hv. rewrite firstn_app. replace (N.to_nat k - length out)%nat with 0%nat by (unfold len in Hend; lia).
    cbn [firstn]. rewrite app_nil_r. rewrite firstn_all2; [reflexivity|unfold len in Hend; lia].
  - rewrite Hend, app_nil_r in Hv. exact Hv.
Qed.

Theorem delivered_is_wire os : Forall (fun o => wb_inv (fst o)) os ->
  forall kss outs, delivered os kss outs -> concat outs = concat (map out_bytes os).
Proof.
  induction 1 as [|o os Ho Hos IH]; intros kss outs Hd.
  - destruct kss, outs; cbn in Hd; try contradiction. reflexivity.
  - destruct kss as [|ks kss], outs as [|out outs]; cbn [delivered] in Hd; try contradiction.
    destruct Hd as [H1 H2]. cbn [map concat]. rewrite (script_delivers_out o ks out Ho H1). f_equal. eapply IH. exact H2.
Qed.

(* ---- corollaries spelled out ---- *)
Lemma req_frames_no_h2 fs :
  Forall req_frame_ok fs ->
  Forall (fun f => rfc_h2_frame (fst f) = false /\
                   (fst f = T_DATA \/ fst f = T_HEADERS \/ (rfc_reserved (fst f) = true /\ fst f < 2 ^ 62))) fs.
Proof.
  intros H. eapply Forall_impl; [|exact H]. intros [ty p] [Ht _]. cbn [fst] in *. split; [|exact Ht].
  destruct Ht as [->|[->|[Hr _]]]; [reflexivity|reflexivity|apply reserved_not_h2; exact Hr].
Qed.

Lemma control_frames_no_h2 es ids :
  Forall (fun f => rfc_h2_frame (fst f) = false) (control_frames es ids) /\
  (exists p, control_frames es ids = (T_SETTINGS, p) :: map (fun id => (T_GOAWAY, rfc_varint id)) ids).
Proof.
  split; [|eexists; reflexivity]. unfold control_frames. constructor; [reflexivity|].
  apply Forall_forall. intros f Hin. apply in_map_iff in Hin as (id & <- & _). reflexivity.
Qed.

Lemma settings_good_ids es :
  settings_good es ->
  NoDup (map fst es) /\
  Forall (fun e => rfc_h2_setting (fst e) = false /\ (rfc_known_setting (fst e) = true \/ rfc_reserved (fst e) = true) /\
                   fst e < 2 ^ 62 /\ snd e < 2 ^ 62) es.
Proof.
  intros (Hp & Hn & Ha). split; [exact Hn|]. apply Forall_forall. intros e Hin.
  rewrite Forall_forall in Hp, Ha. destruct (Ha e Hin) as [A B]. destruct (Hp e Hin) as [C D]. auto.
Qed.

(* programs x scripts in one statement *)
Theorem any_program_any_scripts server cfg g prog c :
  g < grease_range -> Forall op_ok prog -> run server cfg g prog = Ok (Some c) ->
  forall s, In s (c_streams c) ->
    wire_valid s /\
    forall kss outs, delivered (s_out s) kss outs -> concat outs = stream_wire s.
Proof.
  intros Hg Hp Hrun s Hin.
  destruct (program_output_valid server cfg g prog Hg Hp) as (r & Er & Hr). rewrite Hrun in Er. inversion Er; subst r.
  destruct Hr as (Hv & Hi & _). rewrite Forall_forall in Hv, Hi. split; [apply Hv; exact Hin|].
  intros kss outs Hd. unfold stream_wire. eapply delivered_is_wire; [apply Hi; exact Hin|exact Hd].
Qed.

Theorem program_never_panics server cfg g prog :
  g < grease_range -> Forall op_ok prog -> exists r, run server cfg g prog = Ok r.
Proof.
  intros Hg Hp. destruct (program_output_valid server cfg g prog Hg Hp) as (r & Er & _). exists r. exact Er.
Qed.
