(* C09: safety and liveness-at-quiescence of the ongoing-requests accounting, for all histories. *)
From H3V Require Import Base.Bytes Base.BytesLemmas Gen.GenCodes Gen.GenGoaway
  Spec.GoawaySpec Spec.DrainSpec Model.Goaway Model.Ongoing Proofs.GoawaySpecLemmas Proofs.GoawayProofs.
From Coq Require Import ZifyBool ZifyN.

(* ---------- the monitor is sound for the two trace predicates ---------- *)
Lemma drain_run_at a : forall st e b,
  drain_run st (a ++ e :: b) = true -> drain_check (fold_left app_step a st) e = true.
Proof.
  induction a as [|x a IH]; intros st e b H; cbn [app drain_run fold_left] in *.
  - apply andb_true_iff in H. apply H.
  - apply andb_true_iff in H. destruct H as [_ H]. eapply IH. exact H.
Qed.

Lemma is_nilb_spec {A} (l : list A) : is_nilb l = true <-> l = [].
Proof. destruct l; cbn; split; intros H; try reflexivity; discriminate H. Qed.

Lemma excuse_mem c l : existsb (N.eqb c) l = true <-> In c l.
Proof.
  rewrite existsb_exists. split.
  - intros (x & Hx & E). apply N.eqb_eq in E. subst. exact Hx.
  - intros H. exists c. split; [exact H|apply N.eqb_refl].
Qed.

Theorem drain_okb_sound t : drain_okb t = true -> drain_safe t /\ drain_live t /\ errors_justified t.
Proof.
  intros H. split; [|split].
  - intros a b E. subst t. apply drain_run_at in H. cbn [drain_check] in H.
    apply is_nilb_spec in H. exact H.
  - intros a b E (Hg & Ho & Hw & Hb). subst t. apply drain_run_at in H. cbn [drain_check] in H.
    fold (app_after a) in H. rewrite Hg, Ho, Hw, Hb in H. discriminate H.
  - intros a b c E. subst t. apply drain_run_at in H. cbn [drain_check] in H. apply excuse_mem. exact H.
Qed.

Lemma drain_run_complete t : forall pre,
  drain_safe (pre ++ t) -> drain_live (pre ++ t) -> errors_justified (pre ++ t) -> drain_run (app_after pre) t = true.
Proof.
  induction t as [|e t IH]; intros pre Hs Hl He; cbn [drain_run]; [reflexivity|].
  assert (Hc : drain_check (app_after pre) e = true).
  { destruct e as [o|o|bl|]; [reflexivity| |reflexivity|reflexivity]. destruct o; try reflexivity; cbn [drain_check].
    - apply is_nilb_spec. apply (Hs pre t). reflexivity.
    - specialize (Hl pre t eq_refl). unfold drained in Hl.
      destruct (a_goaway (app_after pre)); [|reflexivity].
      destruct (a_objs (app_after pre)); [|reflexivity].
      destruct (a_wait (app_after pre)); [|reflexivity].
      destruct (a_blocked (app_after pre)); [reflexivity|].
      exfalso. apply Hl. auto.
    - apply excuse_mem. apply (He pre t). reflexivity. }
  rewrite Hc. cbn [andb].
  replace (app_step (app_after pre) e) with (app_after (pre ++ [e])).
  - apply IH; rewrite <- app_assoc; assumption.
  - unfold app_after. rewrite fold_left_app. reflexivity.
Qed.

Theorem drain_okb_complete t : drain_safe t -> drain_live t -> errors_justified t -> drain_okb t = true.
Proof. intros Hs Hl He. exact (drain_run_complete t [] Hs Hl He). Qed.

Lemma drain_run_app a : forall st b,
  drain_run st (a ++ b) = drain_run st a && drain_run (fold_left app_step a st) b.
Proof.
  induction a as [|x a IH]; intros st b; cbn [app drain_run fold_left]; [reflexivity|].
  rewrite IH, andb_assoc. reflexivity.
Qed.

(* ---------- decision points used below ---------- *)
Lemma fact_flags :
  end_created_at_accept = true /\ end_moved_from_resolver = true /\ end_drop_sends = true /\
  ongoing_insert = true /\ completion_removes = true /\ pending_needs_recv_closing = true /\
  reject_none_if_idle = true.
Proof. repeat split; reflexivity. Qed.

(* ---------- small list facts ---------- *)
Lemma set_remove_In x y l : In x (set_remove y l) <-> In x l /\ x <> y.
Proof.
  unfold set_remove. rewrite filter_In. split; intros [H1 H2]; split; try assumption.
  - intros E. subst. rewrite N.eqb_refl in H2. discriminate H2.
  - destruct (N.eqb_spec y x); [subst; contradiction|reflexivity].
Qed.

Lemma drain_In x chan : forall ongoing,
  In x (drain ongoing chan) <-> In x ongoing /\ ~ In x chan.
Proof.
  unfold drain. destruct fact_flags as (_ & _ & _ & _ & -> & _).
  induction chan as [|c chan IH]; intros ongoing; cbn [fold_left].
  - cbn. tauto.
  - rewrite IH, set_remove_In. cbn [In]. split.
    + intros [[H1 H2] H3]. split; [exact H1|]. intros [E|E]; [subst; contradiction|contradiction].
    + intros [H1 H2]. split; [split; [exact H1|]|]; intros E; apply H2; [left; symmetry; exact E|right; exact E].
Qed.

Lemma set_insert_In x y l : In x (set_insert y l) <-> x = y \/ In x l.
Proof.
  unfold set_insert. destruct (existsb (N.eqb y) l) eqn:E.
  - split; [auto|]. intros [->|H]; [|exact H].
    apply existsb_exists in E. destruct E as (z & Hz & Ez). apply N.eqb_eq in Ez. subst. exact Hz.
  - cbn [In]. split; intros [H|H]; auto.
Qed.

Definition hids (h : list (N * (aobj * bool))) : list N := map fst h.
Definition hobjs (h : list (N * (aobj * bool))) : list (N * aobj) := map (fun e => (fst e, fst (snd e))) h.

Lemma lookup_hobjs id h :
  lookup id (hobjs h) = match lookup id h with Some (o, _) => Some o | None => None end.
Proof.
  induction h as [|[k [o e]] h IH]; cbn [hobjs map lookup fst snd]; [reflexivity|].
  destruct (id =? k); [reflexivity|exact IH].
Qed.

Lemma update_hobjs id (v : option (aobj * bool)) h :
  hobjs (update id v h) = update id (match v with Some (o, _) => Some o | None => None end) (hobjs h).
Proof.
  induction h as [|[k [o e]] h IH]; cbn [hobjs map update fst snd]; [reflexivity|].
  destruct (id =? k).
  - destruct v as [[o' e']|]; reflexivity.
  - cbn [map fst snd]. f_equal. exact IH.
Qed.

Lemma lookup_In {V} id (h : list (N * V)) v : lookup id h = Some v -> In id (map fst h).
Proof.
  induction h as [|[k x] h IH]; cbn [lookup map fst]; [discriminate|].
  destruct (N.eqb_spec id k); [subst; left; reflexivity|]. intros H. right. apply IH. exact H.
Qed.

Lemma update_some_ids {V} id (v : V) h : map fst (update id (Some v) h) = map fst h.
Proof.
  induction h as [|[k x] h IH]; cbn [update map fst]; [reflexivity|].
  destruct (id =? k); cbn [map fst]; [reflexivity|]. f_equal. exact IH.
Qed.

Lemma update_none_split {V} id (h : list (N * V)) v :
  lookup id h = Some v ->
  exists h1 h2, map fst h = h1 ++ id :: h2 /\ map fst (update id None h) = h1 ++ h2 /\ ~ In id h1.
Proof.
  induction h as [|[k x] h IH]; cbn [lookup update map fst]; [discriminate|].
  destruct (N.eqb_spec id k) as [->|Hne].
  - intros _. exists [], (map fst h). cbn. auto.
  - intros H. destruct (IH H) as (h1 & h2 & E1 & E2 & Hn). exists (k :: h1), h2. cbn [map fst app].
    rewrite E1, E2. repeat split; try reflexivity. intros [E|E]; [congruence|contradiction].
Qed.

Lemma update_has_end id v (h : list (N * (aobj * bool))) :
  (forall i o e, In (i, (o, e)) h -> e = true) ->
  (forall o e, v = Some (o, e) -> e = true) ->
  forall i o e, In (i, (o, e)) (update id v h) -> e = true.
Proof.
  intros Hh Hv. induction h as [|[k [o0 e0]] h IH]; cbn [update]; intros i o e Hi; [destruct Hi|].
  destruct (id =? k).
  - destruct v as [[o' e']|].
    + destruct Hi as [Hi|Hi]; [inversion Hi; subst; eapply Hv; reflexivity|].
      eapply Hh. right. exact Hi.
    + eapply Hh. right. exact Hi.
  - destruct Hi as [Hi|Hi]; [eapply Hh; left; exact Hi|].
    eapply IH; [|exact Hi]. intros. eapply Hh. right. eassumption.
Qed.

(* ---------- shape of the accept loop ---------- *)
Definition rej_ev (id : N) : gev := ERejected id reject_stop_code reject_reset_code.

Lemma accept_loop_shape : forall q sent recv last ongoing,
  match accept_loop sent recv last ongoing q with
  | (rej, a, q', last', ong') =>
      exists rids, rej = map rej_ev rids /\
        match a with
        | ASome id => q = rids ++ id :: q' /\ ong' = set_insert id ongoing
        | ANone => (exists dropped, q = rids ++ dropped /\ q' = dropped) /\ ong' = ongoing /\ ongoing = []
        | APending => q = rids /\ q' = [] /\ ong' = ongoing /\ (recv = None \/ ongoing <> [])
        end
  end.
Proof.
  destruct fact_flags as (_ & _ & _ & Ei & _ & Ep & Er).
  induction q as [|id q IH]; intros sent recv last ongoing; cbn [accept_loop].
  - rewrite Ep. exists []. split; [reflexivity|].
    destruct recv as [r|]; cbn [andb].
    + destruct ongoing as [|x o]; cbn [is_nil].
      * split; [exists []; split; reflexivity|]. split; reflexivity.
      * repeat split. right. discriminate.
    + repeat split. left. reflexivity.
  - destruct (reject_present && _).
    + rewrite Er. cbn [andb]. destruct ongoing as [|x o] eqn:Eo; cbn [is_nil].
      * exists [id]. split; [reflexivity|]. split; [exists q; split; reflexivity|]. split; reflexivity.
      * specialize (IH sent recv last (x :: o)).
        destruct (accept_loop sent recv last (x :: o) q) as [[[[rej a] q'] last'] ong'].
        destruct IH as (rids & Erej & Ha). exists (id :: rids). split; [cbn [map]; rewrite Erej; reflexivity|].
        destruct a as [i| |].
        -- destruct Ha as [Hq Ho]. split; [cbn [app]; rewrite Hq; reflexivity|exact Ho].
        -- destruct Ha as ((d & Hq & Hq') & Ho & Hn). discriminate Hn.
        -- destruct Ha as (Hq & Hq' & Ho & Hc). repeat split; try assumption. cbn [app]. rewrite Hq. reflexivity.
    + exists []. split; [reflexivity|]. rewrite Ei, fact_insert_arg. split; reflexivity.
Qed.

Lemma process_goaways_some ctl : forall recv recv',
  process_goaways recv ctl = (recv', None) -> recv <> None \/ ctl <> [] -> recv' <> None.
Proof.
  induction ctl as [|id ctl IH]; intros recv recv' H Hc; cbn [process_goaways] in H.
  - inversion H; subst. destruct Hc as [Hc|Hc]; [exact Hc|contradiction].
  - destruct (order_present && _); [discriminate H|].
    eapply IH; [exact H|]. left. discriminate.
Qed.

(* ---------- invariant between the world and the application-side bookkeeping ---------- *)
Record w_inv (w : world) (st : astate) (R : list N) : Prop := {
  wi_objs : hobjs (w_handles w) = a_objs st;
  wi_wait : s_inq (w_srv w) = a_wait st;
  wi_goaway : a_goaway st = true -> s_recv (w_srv w) <> None \/ s_ctl (w_srv w) <> [];
  wi_nodup : NoDup (hids (w_handles w) ++ s_inq (w_srv w) ++ R);
  wi_chan : forall id, In id (s_chan (w_srv w)) -> ~ In id (hids (w_handles w) ++ s_inq (w_srv w) ++ R);
  wi_live : forall id, In id (hids (w_handles w)) -> In id (s_ongoing (w_srv w));
  wi_cover : forall id, In id (s_ongoing (w_srv w)) -> In id (hids (w_handles w)) \/ In id (s_chan (w_srv w));
  wi_end : forall i o e, In (i, (o, e)) (w_handles w) -> e = true;
  wi_alive : s_dead (w_srv w) = false;
  wi_err : forall c, s_err (w_srv w) = Some c -> In c (a_excuse st);
  wi_chain_err : forall r e, process_goaways (s_recv (w_srv w)) (s_ctl (w_srv w)) = (r, Some e) -> In e (a_excuse st);
  wi_chain_last : forall r, process_goaways (s_recv (w_srv w)) (s_ctl (w_srv w)) = (r, None) -> r = a_lastgo st
}.

Lemma app_rejected st rids :
  fold_left app_step (map DO (map rej_ev rids)) st =
  st_objs st (a_objs st) (fold_left (fun w id => remove1 id w) rids (a_wait st)) (a_excuse st).
Proof.
  revert st. induction rids as [|id rids IH]; intros st; cbn [map fold_left].
  - destruct st; reflexivity.
  - rewrite IH. reflexivity.
Qed.

Lemma check_rejected st rids : drain_run st (map DO (map rej_ev rids)) = true.
Proof. revert st. induction rids as [|id rids IH]; intros st; cbn [map drain_run drain_check]; [reflexivity|apply IH]. Qed.

Lemma remove_heads rids : forall rest, fold_left (fun w id => remove1 id w) rids (rids ++ rest) = rest.
Proof.
  induction rids as [|id rids IH]; intros rest; cbn [fold_left app]; [reflexivity|].
  rewrite remove1_head. apply IH.
Qed.

Lemma NoDup_drop_middle {A} (a b c : list A) : NoDup (a ++ b ++ c) -> NoDup (a ++ c).
Proof.
  induction b as [|x b IH]; cbn [app]; [auto|]. intros H. apply IH. eapply NoDup_remove_1. exact H.
Qed.

Lemma shown_ids_app a b : shown_ids (a ++ b) = shown_ids a ++ shown_ids b.
Proof.
  induction a as [|e a IH]; cbn [app shown_ids]; [reflexivity|].
  destruct e; cbn [app]; rewrite ?IH; reflexivity.
Qed.
Lemma shown_ids_rej rids : shown_ids (map rej_ev rids) = [].
Proof. induction rids; cbn [map shown_ids rej_ev]; auto. Qed.

Lemma do_shutdown_shape s n :
  exists w sent', do_shutdown s n =
    (w, {| s_last := s_last s; s_sent := sent'; s_recv := s_recv s; s_ongoing := s_ongoing s;
           s_chan := s_chan s; s_inq := s_inq s; s_ctl := s_ctl s; s_err := s_err s; s_dead := s_dead s |})
    /\ (w = [] \/ exists g, w = [EWire g]).
Proof.
  unfold do_shutdown. destruct (inner_shutdown (s_sent s) (shutdown_id (s_last s) n)) as [w sent'] eqn:E.
  exists w, sent'. split; [reflexivity|].
  unfold inner_shutdown in E. destruct (s_sent s) as [g0|].
  - destruct (guard_present && _); inversion E; subst; [left; reflexivity|right; eexists; reflexivity].
  - inversion E; subst. right. eexists. reflexivity.
Qed.

Lemma nil_of_no_elem {A} (l : list A) : (forall x, ~ In x l) -> l = [].
Proof. destruct l as [|x l]; [reflexivity|]. intros H. exfalso. apply (H x). left. reflexivity. Qed.

Lemma hobjs_nil h : hids h = [] -> hobjs h = [].
Proof. destruct h; cbn; [reflexivity|discriminate]. Qed.
Lemma hids_of_hobjs_nil h : hobjs h = [] -> hids h = [].
Proof. destruct h; cbn; [reflexivity|discriminate]. Qed.

Lemma accept_drain w st R :
  w_inv w st R ->
  drain_run st (map DO (fst (accept (w_srv w)))) = true /\
  match shown_ids (fst (accept (w_srv w))) with
  | id :: _ =>
      w_inv {| w_srv := snd (accept (w_srv w));
               w_handles := w_handles w ++ [(id, (AResolver, end_created_at_accept))] |}
            (fold_left app_step (map DO (fst (accept (w_srv w)))) st) R /\
      (length (s_inq (snd (accept (w_srv w)))) < length (s_inq (w_srv w)))%nat
  | [] =>
      s_dead (snd (accept (w_srv w))) = true \/
      (w_inv {| w_srv := snd (accept (w_srv w)); w_handles := w_handles w |}
             (fold_left app_step (map DO (fst (accept (w_srv w)))) st) R /\
       (length (s_inq (snd (accept (w_srv w)))) <= length (s_inq (w_srv w)))%nat)
  end.
Proof.
  intros [Ho Hw Hg Hnd Hch Hlive Hcov Hend Halive Herr Hcerr Hclast].
  set (s := w_srv w) in *. set (H := w_handles w) in *.
  unfold accept.
  destruct (s_err s) as [e|] eqn:Eerr.
  { cbn [fst snd map drain_run drain_check shown_ids s_dead].
    rewrite (proj2 (excuse_mem e _) (Herr e eq_refl)). split; [reflexivity|]. left. reflexivity. }
  destruct (process_goaways (s_recv s) (s_ctl s)) as [recv' [e|]] eqn:Epg.
  { cbn [fst snd map drain_run drain_check shown_ids s_dead].
    rewrite (proj2 (excuse_mem e _) (Hcerr _ e eq_refl)). split; [reflexivity|]. left. reflexivity. }
  assert (Hlastgo : recv' = a_lastgo st) by (apply Hclast; reflexivity).
  pose proof (accept_loop_shape (s_inq s) (s_sent s) recv' (s_last s) (drain (s_ongoing s) (s_chan s))) as Hs.
  destruct (accept_loop (s_sent s) recv' (s_last s) (drain (s_ongoing s) (s_chan s)) (s_inq s))
    as [[[[rej a] q'] last'] ong'].
  destruct Hs as (rids & Erej & Ha).
  assert (Hrecv : a_goaway st = true -> recv' <> None).
  { intros G. eapply process_goaways_some; [exact Epg|]. apply Hg. exact G. }
  assert (Hin_drain : forall id, In id (hids H) -> In id (drain (s_ongoing s) (s_chan s))).
  { intros id Hi. apply drain_In. split; [apply Hlive; exact Hi|].
    intros Hc. apply (Hch id Hc). apply in_app_iff. left. exact Hi. }
  assert (Hdrain_cov : forall id, In id (drain (s_ongoing s) (s_chan s)) -> In id (hids H)).
  { intros id Hi. apply drain_In in Hi. destruct Hi as [Hi Hn]. destruct (Hcov id Hi); [assumption|contradiction]. }
  destruct a as [id| |].
  - (* handed out *)
    destruct Ha as [Hq Hong]. subst rej ong'.
    cbn [fst snd]. rewrite shown_ids_app, shown_ids_rej. cbn [app shown_ids].
    rewrite !map_app, drain_run_app, check_rejected, fold_left_app, app_rejected.
    cbn [map drain_run drain_check fold_left app_step andb]. split; [reflexivity|].
    cbn [st_objs a_objs a_goaway a_wait a_lastgo a_excuse]. rewrite <- Hw, Hq, remove_heads, remove1_head.
    split.
    + split; cbn [w_srv w_handles s_inq s_recv s_ctl s_chan s_ongoing s_dead s_err st_objs a_objs a_goaway a_wait a_lastgo a_excuse process_goaways].
      * unfold hobjs. rewrite map_app. cbn [map fst snd]. fold (hobjs H). rewrite Ho. reflexivity.
      * reflexivity.
      * intros G. left. apply Hrecv. exact G.
      * unfold hids. rewrite map_app. cbn [map fst]. fold (hids H).
        rewrite Hq in Hnd. rewrite <- !app_assoc in Hnd. apply NoDup_drop_middle in Hnd.
        rewrite <- !app_assoc. cbn [app]. exact Hnd.
      * intros x [].
      * intros x Hx. unfold hids in Hx. rewrite map_app in Hx. apply in_app_iff in Hx.
        apply set_insert_In. destruct Hx as [Hx|Hx].
        -- right. apply Hin_drain. exact Hx.
        -- left. cbn in Hx. destruct Hx as [Hx|[]]. symmetry. exact Hx.
      * intros x Hx. left. unfold hids. rewrite map_app. apply in_app_iff.
        apply set_insert_In in Hx. destruct Hx as [Hx|Hx].
        -- right. subst. left. reflexivity.
        -- left. apply Hdrain_cov. exact Hx.
      * intros i o e Hi. apply in_app_iff in Hi. destruct Hi as [Hi|Hi]; [eapply Hend; exact Hi|].
        destruct Hi as [Hi|[]]. inversion Hi. reflexivity.
      * reflexivity.
      * intros c0 Hc0. discriminate Hc0.
      * intros r0 e0 Hc0. discriminate Hc0.
      * intros r0 Hc0. inversion Hc0; subst r0. exact Hlastgo.
    + cbn [s_inq]. rewrite ?Hq, !app_length. cbn [length]. lia.
  - (* no more requests *)
    destruct Ha as ((dropped & Hq & Hq') & Hong & Hnil). subst rej ong' q'.
    rewrite fact_accept_none, fact_accept_none_unguarded. cbn [andb].
    set (s1 := {| s_last := last'; s_sent := s_sent s; s_recv := recv'; s_ongoing := drain (s_ongoing s) (s_chan s);
                  s_chan := []; s_inq := dropped; s_ctl := []; s_err := None; s_dead := false |}).
    destruct (do_shutdown_shape s1 0) as (wr & sent' & Eds & Hwr). rewrite Eds.
    cbn [fst snd s1 s_last s_recv s_ongoing s_chan s_inq s_ctl s_err s_dead].
    assert (HH : hids H = []).
    { apply nil_of_no_elem. intros x Hx. apply Hin_drain in Hx. rewrite Hnil in Hx. destruct Hx. }
    assert (Hshown : shown_ids (map rej_ev rids ++ wr ++ [ENone]) = []).
    { rewrite !shown_ids_app, shown_ids_rej. destruct Hwr as [->|(g & ->)]; reflexivity. }
    rewrite Hshown.
    assert (Hst : fold_left app_step (map DO (map rej_ev rids ++ wr ++ [ENone])) st =
                  st_objs st (a_objs st) dropped (a_excuse st)).
    { rewrite !map_app, !fold_left_app, app_rejected. rewrite <- Hw, Hq, remove_heads.
      destruct Hwr as [->|(g & ->)]; reflexivity. }
    split.
    + rewrite !map_app, !drain_run_app, check_rejected, app_rejected.
      assert (Eo : a_objs st = []) by (rewrite <- Ho; apply hobjs_nil; exact HH).
      destruct Hwr as [->|(g & ->)]; cbn [map drain_run drain_check fold_left app_step a_objs andb]; rewrite Eo; reflexivity.
    + right. rewrite Hst. split.
      * split; cbn [w_srv w_handles s_inq s_recv s_ctl s_chan s_ongoing s_dead s_err st_objs a_objs a_goaway a_wait a_lastgo a_excuse process_goaways].
        -- exact Ho.
        -- reflexivity.
        -- intros G. left. apply Hrecv. exact G.
        -- rewrite Hq in Hnd. rewrite <- !app_assoc in Hnd. apply NoDup_drop_middle in Hnd. exact Hnd.
        -- intros x [].
        -- intros x Hx. rewrite HH in Hx. destruct Hx.
        -- intros x Hx. rewrite Hnil in Hx. destruct Hx.
        -- exact Hend.
        -- reflexivity.
        -- intros c0 Hc0. discriminate Hc0.
        -- intros r0 e0 Hc0. discriminate Hc0.
        -- intros r0 Hc0. inversion Hc0; subst r0. exact Hlastgo.
      * rewrite Hq, app_length. lia.
  - (* pending *)
    destruct Ha as (Hq & Hq' & Hong & Hc). subst rej ong' q'.
    cbn [fst snd]. rewrite shown_ids_app, shown_ids_rej. cbn [app shown_ids].
    assert (Hst : fold_left app_step (map DO (map rej_ev rids ++ [EPending])) st =
                  st_objs st (a_objs st) [] (a_excuse st)).
    { rewrite !map_app, !fold_left_app, app_rejected. rewrite <- Hw, Hq.
      replace rids with (rids ++ []) at 2 by apply app_nil_r. rewrite remove_heads. reflexivity. }
    split.
    + rewrite !map_app, drain_run_app, check_rejected, app_rejected.
      cbn [map drain_run drain_check st_objs a_objs a_goaway a_wait a_blocked].
      rewrite <- Hw, Hq. replace rids with (rids ++ []) at 2 by apply app_nil_r. rewrite remove_heads.
      cbn [is_nilb]. rewrite andb_true_r.
      destruct (a_blocked st); [cbn [negb]; rewrite !andb_false_r; reflexivity|]. cbn [negb]. rewrite andb_true_r.
      destruct (a_goaway st) eqn:G; [|reflexivity].
      destruct (a_objs st) as [|x l] eqn:Eo; [|reflexivity].
      exfalso. specialize (Hrecv eq_refl).
      assert (HH : hids H = []) by (apply hids_of_hobjs_nil; rewrite Ho; reflexivity).
      assert (Hd : drain (s_ongoing s) (s_chan s) = []).
      { apply nil_of_no_elem. intros y Hy. apply Hdrain_cov in Hy. rewrite HH in Hy. destruct Hy. }
      destruct Hc as [Hc|Hc]; contradiction.
    + right. rewrite Hst. split.
      * split; cbn [w_srv w_handles s_inq s_recv s_ctl s_chan s_ongoing s_dead s_err st_objs a_objs a_goaway a_wait a_lastgo a_excuse process_goaways].
        -- exact Ho.
        -- reflexivity.
        -- intros G. left. apply Hrecv. exact G.
        -- rewrite Hq in Hnd. apply NoDup_drop_middle in Hnd. cbn [app]. exact Hnd.
        -- intros x [].
        -- intros x Hx. apply Hin_drain. exact Hx.
        -- intros x Hx. left. apply Hdrain_cov. exact Hx.
        -- exact Hend.
        -- reflexivity.
        -- intros c0 Hc0. discriminate Hc0.
        -- intros r0 e0 Hc0. discriminate Hc0.
        -- intros r0 Hc0. inversion Hc0; subst r0. exact Hlastgo.
      * cbn [s_inq length]. lia.
Qed.

Lemma poll_all_drain : forall fuel w st R,
  w_inv w st R -> (length (s_inq (w_srv w)) < fuel)%nat ->
  drain_run st (map DO (fst (poll_all fuel w))) = true /\
  (s_dead (w_srv (snd (poll_all fuel w))) = true \/
   w_inv (snd (poll_all fuel w)) (fold_left app_step (map DO (fst (poll_all fuel w))) st) R).
Proof.
  induction fuel as [|k IH]; intros w st R Hinv Hlen; [inversion Hlen|].
  cbn [poll_all]. pose proof (accept_drain w st R Hinv) as (Hrun & Hcase).
  destruct (accept (w_srv w)) as [out s']. cbn [fst snd] in *.
  destruct (shown_ids out) as [|id l].
  - cbn [fst snd]. split; [exact Hrun|]. destruct Hcase as [Hd|[Hi _]]; [left; exact Hd|right; exact Hi].
  - destruct Hcase as [Hi Hl].
    specialize (IH _ _ R Hi ltac:(cbn [w_srv]; lia)).
    destruct (poll_all k _) as [out' w'']. cbn [fst snd] in *.
    destruct IH as [Hrun' Hcase']. rewrite map_app, drain_run_app, fold_left_app, Hrun. split; assumption.
Qed.

Definition is_handle_op (o : dop) : Prop :=
  match o with DArrive _ | DPoll | DPeerGoaway _ => False | _ => True end.

Definition gone_of {A} (o : option A) : bool := match o with None => true | Some _ => false end.

Definition hstep (w : world) (o : dop) (id : N) : list dev * world :=
  match lookup id (w_handles w) with
  | None => ([], w)
  | Some (obj, has_end) =>
      match obj_update obj o with
      | None => ([], w)
      | Some obj' =>
          let '(sends, has_end', err) := end_effect has_end o (gone_of obj') in
          let s1 := send_n sends (w_srv w) id in
          let s2 := match err with Some e => with_err s1 e | None => s1 end in
          ([DI o],
           {| w_srv := s2;
              w_handles := update id (match obj' with Some ob => Some (ob, has_end') | None => None end)
                                  (w_handles w) |})
      end
  end.

Lemma dstep_handle w o id :
  is_handle_op o -> op_target o = Some id -> s_dead (w_srv w) = false -> dstep w o = hstep w o id.
Proof.
  intros Hh Ht Hd. unfold dstep, hstep. rewrite Hd.
  destruct o; cbn [is_handle_op] in Hh; try contradiction; cbn [op_target] in Ht; inversion Ht; subst; cbn [op_target];
    destruct (lookup id (w_handles w)) as [[obj he]|]; try reflexivity;
    destruct (obj_update obj _) as [[ob|]|]; reflexivity.
Qed.

Lemma app_step_handle st o id :
  is_handle_op o -> op_target o = Some id ->
  app_step st (DI o) =
    match lookup id (a_objs st) with
    | Some ob => match obj_update ob o with
                 | Some o' => st_objs st (update id o' (a_objs st)) (a_wait st) (fail_excuse o ++ a_excuse st)
                 | None => st
                 end
    | None => st
    end.
Proof.
  intros Hh Ht. destruct o; cbn [is_handle_op] in Hh; try contradiction; cbn [app_step]; rewrite Ht; reflexivity.
Qed.

Lemma end_effect_true o obj obj' :
  is_handle_op o -> obj_update obj o = Some obj' ->
  exists he' err, end_effect true o (gone_of obj') = ((if gone_of obj' then 1 else 0)%nat, he', err) /\
                  (gone_of obj' = false -> he' = true) /\
                  (forall e, err = Some e -> In e (fail_excuse o)).
Proof.
  destruct fact_flags as (_ & Em & _).
  assert (Eq : headers_qpack_code = rfc_QPACK_DECOMPRESSION_FAILED) by reflexivity.
  assert (Eu : headers_unexpected_code = rfc_H3_FRAME_UNEXPECTED) by reflexivity.
  assert (Et : headers_truncated_code = rfc_H3_FRAME_ERROR) by reflexivity.
  intros Hh Hu. unfold end_effect. rewrite Em, Eq, Eu, Et.
  destruct o; cbn [is_handle_op] in Hh; try contradiction;
    destruct obj as [| |sd rv]; repeat (match goal with b : bool |- _ => destruct b end); cbn [obj_update] in Hu;
    try discriminate Hu; inversion Hu; subst; cbn [gone_of andb];
    try (destruct k); eexists; eexists; (split; [reflexivity|]); (split; [intros; try reflexivity; try discriminate|]);
    intros e0 He0; try discriminate He0; inversion He0; subst; left; reflexivity.
Qed.

Lemma send_one s id : send_n 1 s id = with_chan s (s_chan s ++ [id]).
Proof. cbn [send_n]. unfold end_dropped. destruct fact_flags as (_ & _ & -> & _). reflexivity. Qed.

Lemma lookup_In_pair id (h : list (N * (aobj * bool))) o e : lookup id h = Some (o, e) -> In (id, (o, e)) h.
Proof.
  induction h as [|[k [o0 e0]] h IH]; cbn [lookup]; [discriminate|].
  destruct (N.eqb_spec id k) as [->|Hne].
  - intros E. inversion E; subst. left. reflexivity.
  - intros E. right. apply IH. exact E.
Qed.

Definition maybe_err (s : server) (err : option N) : server :=
  match err with Some e => with_err s e | None => s end.

Lemma maybe_err_fields s err :
  s_inq (maybe_err s err) = s_inq s /\ s_recv (maybe_err s err) = s_recv s /\ s_ctl (maybe_err s err) = s_ctl s /\
  s_chan (maybe_err s err) = s_chan s /\ s_ongoing (maybe_err s err) = s_ongoing s /\ s_dead (maybe_err s err) = s_dead s.
Proof. destruct err; cbn; repeat split. Qed.

Lemma send_n_err k id : forall s, s_err (send_n k s id) = s_err s.
Proof.
  induction k as [|k IH]; intros s; cbn [send_n]; [reflexivity|]. rewrite IH. unfold end_dropped.
  destruct end_drop_sends; reflexivity.
Qed.
Lemma maybe_err_err s err c :
  s_err (maybe_err s err) = Some c -> s_err s = Some c \/ err = Some c.
Proof. destruct err as [e|]; cbn [maybe_err with_err s_err]; [|auto]. destruct (s_err s); auto. Qed.

Lemma hstep_drain w st R o id :
  is_handle_op o -> op_target o = Some id -> w_inv w st R ->
  drain_run st (fst (hstep w o id)) = true /\
  w_inv (snd (hstep w o id)) (fold_left app_step (fst (hstep w o id)) st) R.
Proof.
  intros Hh Ht Hinv. pose proof Hinv as [Ho Hw Hg Hnd Hch Hlive Hcov Hend Halive Herr Hcerr Hclast].
  unfold hstep.
  destruct (lookup id (w_handles w)) as [[obj he]|] eqn:El; [|cbn; split; [reflexivity|exact Hinv]].
  destruct (obj_update obj o) as [obj'|] eqn:Eu; [|cbn; split; [reflexivity|exact Hinv]].
  assert (Ehe : he = true) by (eapply Hend; apply lookup_In_pair; exact El). subst he.
  destruct (end_effect_true o obj obj' Hh Eu) as (he' & err & Eee & Hhe' & Herrc). rewrite Eee.
  cbn [fst snd fold_left drain_run]. rewrite app_step_handle with (id := id) by assumption.
  rewrite <- Ho, lookup_hobjs, El, Eu.
  assert (Hdc : drain_check st (DI o) = true) by reflexivity. rewrite Hdc. cbn [andb]. split; [reflexivity|].
  fold (maybe_err (send_n (if gone_of obj' then 1%nat else 0%nat) (w_srv w) id) err).
  destruct (maybe_err_fields (send_n (if gone_of obj' then 1%nat else 0%nat) (w_srv w) id) err)
    as (F1 & F2 & F3 & F4 & F5 & F6).
  assert (Herr' : forall c, s_err (maybe_err (send_n (if gone_of obj' then 1%nat else 0%nat) (w_srv w) id) err) = Some c ->
                  In c (fail_excuse o ++ a_excuse st)).
  { intros c Hc. apply maybe_err_err in Hc. apply in_app_iff. destruct Hc as [Hc|Hc].
    - right. apply Herr. rewrite send_n_err in Hc. exact Hc.
    - left. apply Herrc. exact Hc. }
  assert (Hcerr' : forall r e, process_goaways (s_recv (w_srv w)) (s_ctl (w_srv w)) = (r, Some e) ->
                   In e (fail_excuse o ++ a_excuse st)).
  { intros r e Hc. apply in_app_iff. right. eapply Hcerr. exact Hc. }
  destruct obj' as [ob|]; cbn [gone_of] in *.
  - (* the application still holds something *)
    cbn [send_n] in *. specialize (Hhe' eq_refl). subst he'.
    split; cbn [w_srv w_handles st_objs a_objs a_goaway a_wait a_lastgo a_excuse]; rewrite ?F1, ?F2, ?F3, ?F4, ?F5, ?F6;
      unfold hids in *; rewrite ?update_some_ids; try assumption.
    + rewrite update_hobjs. reflexivity.
    + apply update_has_end; [exact Hend|]. intros o0 e0 E. inversion E. reflexivity.
  - (* the last object is gone: the id goes into the channel *)
    rewrite send_one in *. cbn [with_chan s_inq s_recv s_ctl s_chan s_ongoing s_dead] in *.
    destruct (update_none_split id (w_handles w) _ El) as (h1 & h2 & E1 & E2 & Hn1).
    split; cbn [w_srv w_handles st_objs a_objs a_goaway a_wait a_lastgo a_excuse]; rewrite ?F1, ?F2, ?F3, ?F4, ?F5, ?F6;
      unfold hids in *; rewrite ?E2; rewrite ?E1 in *; try assumption.
    + rewrite update_hobjs. reflexivity.
    + rewrite <- app_assoc in Hnd |- *. cbn [app] in Hnd. eapply NoDup_remove_1. exact Hnd.
    + intros x Hx. apply in_app_iff in Hx. destruct Hx as [Hx|Hx].
      * intros Hin. apply (Hch x Hx). rewrite <- app_assoc in Hin |- *. cbn [app].
        apply in_app_iff in Hin. apply in_app_iff. destruct Hin as [Hin|Hin]; [left; exact Hin|right; right; exact Hin].
      * destruct Hx as [Hx|[]]. subst x. rewrite <- app_assoc in Hnd |- *. cbn [app] in Hnd.
        apply NoDup_remove_2 in Hnd. exact Hnd.
    + intros x Hx. apply Hlive. apply in_app_iff in Hx. apply in_app_iff. destruct Hx; [left|right; right]; assumption.
    + intros x Hx. destruct (Hcov x Hx) as [Hc|Hc].
      * apply in_app_iff in Hc. destruct Hc as [Hc|[Hc|Hc]].
        -- left. apply in_app_iff. left. exact Hc.
        -- right. apply in_app_iff. right. left. exact Hc.
        -- left. apply in_app_iff. right. exact Hc.
      * right. apply in_app_iff. left. exact Hc.
    + apply update_has_end; [exact Hend|]. intros o0 e0 E. discriminate E.
Qed.

Fixpoint arrivals (h : list dop) : list N :=
  match h with
  | [] => []
  | DArrive id :: r => id :: arrivals r
  | _ :: r => arrivals r
  end.

Lemma process_goaways_snoc ctl : forall recv pid,
  process_goaways recv (ctl ++ [pid]) =
    match process_goaways recv ctl with
    | (r, Some e) => (r, Some e)
    | (r, None) => if (match r with Some l => l <? pid | None => false end)
                   then (r, Some rfc_H3_ID_ERROR) else (Some pid, None)
    end.
Proof.
  induction ctl as [|id ctl IH]; intros recv pid; cbn [app process_goaways].
  - rewrite fact_order_test. destruct (match recv with Some l => l <? pid | None => false end); reflexivity.
  - rewrite fact_order_test. destruct (match recv with Some l => l <? id | None => false end); [reflexivity|].
    apply IH.
Qed.

Lemma dstep_drain w st o h :
  w_inv w st (arrivals (o :: h)) ->
  drain_run st (fst (dstep w o)) = true /\
  (s_dead (w_srv (snd (dstep w o))) = true \/
   w_inv (snd (dstep w o)) (fold_left app_step (fst (dstep w o)) st) (arrivals h)).
Proof.
  intros Hinv. pose proof Hinv as [Ho Hw Hg Hnd Hch Hlive Hcov Hend Halive Herr Hcerr Hclast].
  destruct o as [id| |pid|id|id|id k|id|id|id|id|id sd];
    try (cbn [arrivals] in Hinv;
         match goal with |- context [dstep w ?o] =>
           rewrite (dstep_handle w o id I eq_refl Halive);
           destruct (hstep_drain w st _ o id I eq_refl Hinv) as [H1 H2]; split; [exact H1|right; exact H2]
         end).
  - (* DArrive *)
    unfold dstep. rewrite Halive. cbn [fst snd drain_run drain_check fold_left app_step andb arrivals] in *.
    split; [reflexivity|]. right.
    split; cbn [w_srv w_handles with_inq s_inq s_recv s_ctl s_chan s_ongoing s_dead s_err st_objs a_objs a_goaway a_wait a_lastgo a_excuse]; try assumption.
    + rewrite Hw. reflexivity.
    + rewrite <- app_assoc. cbn [app]. exact Hnd.
    + intros x Hx. rewrite <- app_assoc. cbn [app]. apply Hch. exact Hx.
  - (* DPoll *)
    unfold dstep. rewrite Halive. cbn [arrivals] in *.
    destruct (poll_all_drain (S (length (s_inq (w_srv w)))) w st _ Hinv ltac:(lia)) as [H1 H2].
    destruct (poll_all (S (length (s_inq (w_srv w)))) w) as [out w']. cbn [fst snd] in *.
    cbn [drain_run drain_check fold_left app_step op_target andb]. split; [exact H1|exact H2].
  - (* DPeerGoaway *)
    unfold dstep. rewrite Halive. cbn [fst snd drain_run drain_check fold_left app_step andb arrivals] in *.
    split; [reflexivity|]. right.
    split; cbn [w_srv w_handles with_ctl s_inq s_recv s_ctl s_chan s_ongoing s_dead s_err a_objs a_goaway a_wait a_lastgo a_excuse]; try assumption.
    + intros _. right. destruct (s_ctl (w_srv w)); discriminate.
    + intros c Hc. apply in_app_iff. right. apply Herr. exact Hc.
    + intros r e Hc. rewrite process_goaways_snoc in Hc. apply in_app_iff.
      destruct (process_goaways (s_recv (w_srv w)) (s_ctl (w_srv w))) as [r0 [e0|]] eqn:Epg.
      * inversion Hc; subst. right. eapply Hcerr. reflexivity.
      * rewrite <- (Hclast r0 eq_refl).
        destruct r0 as [l|]; [|discriminate Hc].
        destruct (l <? pid); inversion Hc; subst. left. left. reflexivity.
    + intros r Hc. rewrite process_goaways_snoc in Hc.
      destruct (process_goaways (s_recv (w_srv w)) (s_ctl (w_srv w))) as [r0 [e0|]] eqn:Epg; [discriminate Hc|].
      destruct (match r0 with Some l => l <? pid | None => false end); inversion Hc. reflexivity.
Qed.

Lemma dstep_dead w o : s_dead (w_srv w) = true -> dstep w o = ([], w).
Proof. intros H. unfold dstep. rewrite H. reflexivity. Qed.

Lemma drun_dead h : forall w, s_dead (w_srv w) = true -> fst (drun w h) = [].
Proof.
  induction h as [|o h IH]; intros w Hd; cbn [drun]; [reflexivity|].
  rewrite dstep_dead by exact Hd. specialize (IH w Hd). destruct (drun w h) as [out' w'']. cbn [fst] in *.
  rewrite IH. reflexivity.
Qed.

Lemma drun_drain h : forall w st,
  w_inv w st (arrivals h) -> drain_run st (fst (drun w h)) = true.
Proof.
  induction h as [|o h IH]; intros w st Hinv; cbn [drun]; [reflexivity|].
  destruct (dstep_drain w st o h Hinv) as [H1 H2].
  destruct (dstep w o) as [out w']. cbn [fst snd] in *.
  destruct H2 as [Hd|Hi].
  - pose proof (drun_dead h w' Hd) as E. destruct (drun w' h) as [out' w'']. cbn [fst] in *. subst out'.
    rewrite app_nil_r. exact H1.
  - specialize (IH _ _ Hi). destruct (drun w' h) as [out' w'']. cbn [fst] in *.
    rewrite drain_run_app, H1. exact IH.
Qed.

Lemma w_inv0 R : NoDup R -> w_inv world0 astate0 R.
Proof.
  intros H. split; cbn; try reflexivity; try discriminate; try (intros; contradiction); try exact H.
  all: intros r Hc; inversion Hc; reflexivity.
Qed.

(* the monitor accepts every trace of the model *)
Theorem model_drains h : NoDup (arrivals h) -> drain_okb (dtrace h) = true.
Proof. intros H. unfold drain_okb, dtrace. apply drun_drain. apply w_inv0. exact H. Qed.

Theorem model_drain_safe_live h :
  NoDup (arrivals h) -> drain_safe (dtrace h) /\ drain_live (dtrace h) /\ errors_justified (dtrace h).
Proof. intros H. apply drain_okb_sound, model_drains, H. Qed.

(* ---------- the positive form of liveness: a drained connection answers None when polled ---------- *)
Lemma drun_app h1 : forall w h2,
  drun w (h1 ++ h2) =
    (fst (drun w h1) ++ fst (drun (snd (drun w h1)) h2), snd (drun (snd (drun w h1)) h2)).
Proof.
  induction h1 as [|o h1 IH]; intros w h2; cbn [app drun].
  - cbn [fst snd app]. destruct (drun w h2); reflexivity.
  - destruct (dstep w o) as [out w']. rewrite IH.
    destruct (drun w' h1) as [out1 w1]. cbn [fst snd].
    destruct (drun w1 h2) as [out2 w2]. cbn [fst snd]. rewrite app_assoc. reflexivity.
Qed.

Lemma arrivals_app h1 h2 : arrivals (h1 ++ h2) = arrivals h1 ++ arrivals h2.
Proof.
  induction h1 as [|o h1 IH]; cbn [app arrivals]; [reflexivity|].
  destruct o; cbn [app]; rewrite ?IH; reflexivity.
Qed.

Lemma NoDup_app_l {A} (a b : list A) : NoDup (a ++ b) -> NoDup a.
Proof.
  induction a as [|x a IH]; cbn [app]; intros H; [constructor|].
  inversion H; subst. constructor; [intros Hi; apply H2; apply in_app_iff; left; exact Hi|apply IH; assumption].
Qed.

Lemma drun_dead_snd h : forall w, s_dead (w_srv w) = true -> snd (drun w h) = w.
Proof.
  induction h as [|o h IH]; intros w Hd; cbn [drun]; [reflexivity|].
  rewrite dstep_dead by exact Hd. specialize (IH w Hd). destruct (drun w h) as [out' w'']. cbn [snd] in *. exact IH.
Qed.

(* the invariant at the end of a history (or the connection has failed) *)
Lemma drun_final_inv h : forall w st,
  w_inv w st (arrivals h) ->
  s_dead (w_srv (snd (drun w h))) = true \/ w_inv (snd (drun w h)) (fold_left app_step (fst (drun w h)) st) [].
Proof.
  induction h as [|o h IH]; intros w st Hinv; cbn [drun].
  - right. exact Hinv.
  - destruct (dstep_drain w st o h Hinv) as [_ H2].
    destruct (dstep w o) as [out w']. cbn [fst snd] in *.
    destruct H2 as [Hd|Hi].
    + left. pose proof (drun_dead_snd h w' Hd) as E. destruct (drun w' h) as [out' w'']. cbn [snd] in *. subst. exact Hd.
    + specialize (IH _ _ Hi). destruct (drun w' h) as [out' w'']. cbn [fst snd] in *.
      rewrite fold_left_app. exact IH.
Qed.

(* a failed connection has reported its error through accept() *)
Lemma accept_dead s : s_dead (snd (accept s)) = true -> exists c, In (EErr c) (fst (accept s)).
Proof.
  unfold accept. destruct (s_err s) as [e|].
  { intros _. exists e. left. reflexivity. }
  destruct (process_goaways (s_recv s) (s_ctl s)) as [recv' [e|]].
  { intros _. exists e. left. reflexivity. }
  destruct (accept_loop _ _ _ _ _) as [[[[rej a] q'] last'] ong'].
  destruct a; cbn [fst snd s_dead]; try discriminate.
  destruct accept_none_shutdown as [n|]; cbn [fst snd s_dead]; [|discriminate].
  destruct (accept_none_only_if_unsent && _); cbn [fst snd s_dead]; [discriminate|].
  match goal with |- context [do_shutdown ?s1 n] => destruct (do_shutdown_shape s1 n) as (wr & sent' & -> & _) end.
  cbn [fst snd s_dead]. discriminate.
Qed.

Lemma poll_all_dead : forall fuel w,
  s_dead (w_srv w) = false -> s_dead (w_srv (snd (poll_all fuel w))) = true ->
  exists c, In (EErr c) (fst (poll_all fuel w)).
Proof.
  induction fuel as [|k IH]; intros w Ha Hd; cbn [poll_all] in *; [cbn in Hd; congruence|].
  pose proof (accept_dead (w_srv w)) as Had.
  destruct (accept (w_srv w)) as [out s']. cbn [fst snd] in *.
  destruct (shown_ids out) as [|id l].
  - cbn [fst snd w_srv] in *. exact (Had Hd).
  - destruct (s_dead s') eqn:Es.
    + destruct (Had eq_refl) as (c & Hc). destruct (poll_all k _) as [out' w'']. cbn [fst]. exists c.
      apply in_app_iff. left. exact Hc.
    + specialize (IH {| w_srv := s'; w_handles := w_handles w ++ [(id, (AResolver, end_created_at_accept))] |} Es).
      destruct (poll_all k _) as [out' w'']. cbn [fst snd] in *. destruct (IH Hd) as (c & Hc).
      exists c. apply in_app_iff. right. exact Hc.
Qed.

Lemma hstep_alive w o id : s_dead (w_srv (snd (hstep w o id))) = s_dead (w_srv w).
Proof.
  unfold hstep. destruct (lookup id (w_handles w)) as [[obj he]|]; [|reflexivity].
  destruct (obj_update obj o) as [obj'|]; [|reflexivity].
  destruct (end_effect he o (gone_of obj')) as [[sends he'] err]. cbn [snd w_srv].
  assert (Hs : forall k s, s_dead (send_n k s id) = s_dead s).
  { induction k as [|k IHk]; intros s; cbn [send_n]; [reflexivity|]. rewrite IHk. unfold end_dropped.
    destruct end_drop_sends; reflexivity. }
  destruct err; cbn [with_err s_dead]; apply Hs.
Qed.

Lemma dstep_dead_err w o :
  s_dead (w_srv w) = false -> s_dead (w_srv (snd (dstep w o))) = true ->
  exists c, In (DO (EErr c)) (fst (dstep w o)).
Proof.
  intros Ha Hd.
  destruct o as [id| |pid|id|id|id k|id|id|id|id|id sd];
    try (match goal with |- context [dstep w ?o] =>
           rewrite (dstep_handle w o id I eq_refl Ha) in *; rewrite hstep_alive in Hd; congruence end).
  - unfold dstep in *. rewrite Ha in *. cbn [fst snd w_srv with_inq s_dead] in Hd. congruence.
  - unfold dstep in *. rewrite Ha in *.
    pose proof (poll_all_dead (S (length (s_inq (w_srv w)))) w Ha) as Hp.
    destruct (poll_all _ w) as [out w']. cbn [fst snd] in *. destruct (Hp Hd) as (c & Hc).
    exists c. right. apply in_map. exact Hc.
  - unfold dstep in *. rewrite Ha in *. cbn [fst snd w_srv with_ctl s_dead] in Hd. congruence.
Qed.

Lemma drun_dead_err h : forall w,
  s_dead (w_srv w) = false -> s_dead (w_srv (snd (drun w h))) = true ->
  exists c, In (DO (EErr c)) (fst (drun w h)).
Proof.
  induction h as [|o h IH]; intros w Ha Hd; cbn [drun] in *; [cbn in Hd; congruence|].
  pose proof (dstep_dead_err w o Ha) as Hs.
  destruct (dstep w o) as [out w'] eqn:Es. cbn [fst snd] in *.
  destruct (s_dead (w_srv w')) eqn:Ed.
  - destruct (Hs eq_refl) as (c & Hc). destruct (drun w' h) as [out' w'']. cbn [fst]. exists c.
    apply in_app_iff. left. exact Hc.
  - specialize (IH w' Ed). destruct (drun w' h) as [out' w'']. cbn [fst snd] in *.
    destruct (IH Hd) as (c & Hc). exists c. apply in_app_iff. right. exact Hc.
Qed.

(* accept() on an empty transport queue *)
Lemma accept_empty s :
  s_inq s = [] ->
  (exists c, fst (accept s) = [EErr c]) \/ fst (accept s) = [EPending] \/
  (exists wr, fst (accept s) = wr ++ [ENone] /\ (wr = [] \/ exists g, wr = [EWire g])).
Proof.
  intros Hq. unfold accept. destruct (s_err s) as [e|].
  { left. exists e. reflexivity. }
  destruct (process_goaways (s_recv s) (s_ctl s)) as [recv' [e|]].
  { left. exists e. reflexivity. }
  rewrite Hq. cbn [accept_loop].
  destruct (if pending_needs_recv_closing then _ else _).
  - right. right. rewrite fact_accept_none, fact_accept_none_unguarded. cbn [andb].
    match goal with |- context [do_shutdown ?s1 0] => destruct (do_shutdown_shape s1 0) as (wr & sent' & -> & Hwr) end.
    cbn [fst app]. exists wr. split; [reflexivity|exact Hwr].
  - right. left. reflexivity.
Qed.

Theorem drained_poll_answers h :
  NoDup (arrivals h) ->
  (forall c, ~ In (DO (EErr c)) (dtrace h)) ->
  drained (app_after (dtrace h)) ->
  exists pre ans, dtrace (h ++ [DPoll]) = dtrace h ++ DI DPoll :: map DO (pre ++ [ans]) /\
                  (pre = [] \/ exists g, pre = [EWire g]) /\
                  (ans = ENone \/ exists c, ans = EErr c).
Proof.
  intros Hnd Hnoerr Hdr.
  pose proof (drun_final_inv h world0 astate0 (w_inv0 _ Hnd)) as Hfin.
  pose proof (drun_dead_err h world0 eq_refl) as Hde.
  assert (Htr : dtrace (h ++ [DPoll]) = dtrace h ++ fst (dstep (snd (drun world0 h)) DPoll)).
  { unfold dtrace. rewrite drun_app. cbn [fst drun].
    destruct (dstep (snd (drun world0 h)) DPoll) as [o w']. cbn [fst]. rewrite app_nil_r. reflexivity. }
  fold (dtrace h) in Hde, Hfin. fold (app_after (dtrace h)) in Hfin.
  destruct Hfin as [Hd|Hinv].
  { exfalso. destruct (Hde Hd) as (c & Hc). exact (Hnoerr c Hc). }
  set (w := snd (drun world0 h)) in *.
  destruct Hdr as (Hg & Ho & Hw & Hbl).
  assert (Hq : s_inq (w_srv w) = []) by (rewrite (wi_wait _ _ _ Hinv); exact Hw).
  assert (Hstep : fst (dstep w DPoll) = DI DPoll :: map DO (fst (accept (w_srv w)))).
  { unfold dstep. rewrite (wi_alive _ _ _ Hinv), Hq. cbn [length poll_all].
    destruct (accept_empty (w_srv w) Hq) as [(c & E)|[E|(wr & E & Hwr)]];
      destruct (accept (w_srv w)) as [out s']; cbn [fst] in *; subst out.
    - reflexivity.
    - reflexivity.
    - rewrite shown_ids_app. destruct Hwr as [->|(g & ->)]; reflexivity. }
  rewrite Htr, Hstep.
  destruct (accept_empty (w_srv w) Hq) as [(c & E)|[E|(wr & E & Hwr)]]; rewrite E.
  - exists [], (EErr c). split; [reflexivity|]. split; [left; reflexivity|right; exists c; reflexivity].
  - exfalso.
    assert (Hnd' : NoDup (arrivals (h ++ [DPoll]))) by (rewrite arrivals_app; cbn [arrivals]; rewrite app_nil_r; exact Hnd).
    destruct (model_drain_safe_live _ Hnd') as (_ & Hlive & _).
    apply (Hlive (dtrace h ++ [DI DPoll]) []).
    + rewrite Htr, Hstep, E. rewrite <- app_assoc. reflexivity.
    + unfold drained, app_after. rewrite fold_left_app. cbn [fold_left app_step op_target].
      fold (app_after (dtrace h)). auto.
  - exists wr, ENone. split; [reflexivity|]. split; [exact Hwr|left; reflexivity].
Qed.
