(* C06 PART 3: no-Panic facts of receive-path component models that their owners state in another form. *)
From H3V Require Import Base.Bytes Spec.RFC9000 Spec.RFC9297 Model.Varint Model.Datagram Proofs.DatagramProofs.

(* HTTP Datagram header decode (h3-datagram, reached from peer QUIC datagrams) *)
Lemma dg_decode_no_panic : forall bs, wf_bytes bs -> is_panic (dg_decode bs) = false.
Proof.
  intros bs Hwf. rewrite (dg_decode_spec bs Hwf).
  destruct (rfc_dg_decode bs) as [[s p]|]; reflexivity.
Qed.
