(* C06 PART 3: no-Panic facts of receive-path component models that their owners state in another form. *)
From H3V Require Import Base.Bytes Spec.RFC9000 Spec.RFC9297 Model.Varint Model.Datagram Proofs.DatagramProofs.

(* HTTP Datagram header decode (h3-datagram, reached from peer QUIC datagrams) *)
Lemma dg_decode_no_panic : forall bs, wf_bytes bs -> is_panic (dg_decode bs) = false.
Proof.
  intros bs Hwf. rewrite (dg_decode_spec bs Hwf).
  destruct (rfc_dg_decode bs) as [[s p]|]; reflexivity.
Qed.

(* ---------------------------------------------------------------- QPACK string literals *)
From H3V Require Import Gen.GenPrefixInt Model.PrefixInt Model.Huffman Model.PrefixString
  Proofs.PrefixIntProofs Proofs.HuffmanDecodeProofs Base.BytesLemmas.
From Coq Require Import ZifyBool ZifyNat ZifyN.

Lemma pi_dec_loop_rest_wf : forall bs value power v r,
  wf_bytes bs -> pi_dec_loop bs value power = Ok (v, r) -> wf_bytes r.
Proof.
  induction bs as [|b t IH]; intros value power v r Hwf H; cbn [pi_dec_loop] in H; [discriminate|].
  apply wf_bytes_cons in Hwf as [_ Ht].
  destruct (64 <=? power); [discriminate|].
  destruct (2 ^ 64 <=? _); [discriminate|].
  destruct (N.land b pi_dec_cont_mask =? 0).
  - inversion H; subst. exact Ht.
  - destruct (cmp_ge _ _ _); [discriminate|]. eapply IH; eauto.
Qed.

Lemma pi_decode_rest_wf size bs f v r : wf_bytes bs -> pi_decode size bs = Ok (f, v, r) -> wf_bytes r.
Proof.
  intros Hwf H. unfold pi_decode in H.
  destruct (negb _); [discriminate|]. destruct bs as [|b t]; [discriminate|].
  apply wf_bytes_cons in Hwf as [_ Ht].
  destruct (pi_dec_mask_width <? size); [discriminate|].
  destruct (8 <=? _); [discriminate|].
  destruct (cmp_lt _ _ _).
  - inversion H; subst. exact Ht.
  - destruct (pi_dec_loop t _ _) as [[v' r']|e|s] eqn:L; try discriminate.
    inversion H; subst. eapply pi_dec_loop_rest_wf; eauto.
Qed.

(* prefix_string::decode(size, buf) for the sizes h3 uses (8 and 4) and all others in 2..9 *)
Lemma ps_decode_no_panic_c06 size bs : 2 <= size <= 9 -> wf_bytes bs -> is_panic (ps_decode size bs) = false.
Proof.
  intros Hs Hwf. unfold ps_decode.
  destruct (size =? 0) eqn:E0; [lia|].
  pose proof (pi_decode_no_panic (size - 1) bs ltac:(lia) Hwf) as P.
  destruct (pi_decode (size - 1) bs) as [[[flags n] r]|e|s] eqn:D; [|destruct e; reflexivity|discriminate].
  pose proof (pi_decode_rest_wf _ _ _ _ _ Hwf D) as Wr.
  destruct (len r <? n) eqn:Hlen; [reflexivity|].
  destruct (N.land flags 1 =? 0); [reflexivity|].
  (* the size guard in front of the Huffman decoder (H1 / F18 repair) is what gives fits_u32 *)
  match goal with |- is_panic (if ?c then _ else _) = false => destruct c eqn:G; [reflexivity|] end.
  assert (F : fits_u32 (firstn (N.to_nat n) r)).
  { unfold fits_u32, len in *. rewrite firstn_length. lia. }
  pose proof (hpack_decode_no_panic (firstn (N.to_nat n) r) (wf_bytes_firstn _ _ Wr) F) as H.
  destruct (hpack_decode _); [reflexivity|reflexivity|discriminate].
Qed.
