(* C11 (for C01): what encode_stateless writes is read back by decode_stateless as the same field list, and a
   bound on the length of the block in terms of the RFC 9114 size. *)
From H3V Require Import Base.Bytes Base.BytesLemmas Gen.GenStatic Gen.GenQStateless Gen.GenPrefixString
  Spec.PrefixInt Spec.RFC7541Huffman Spec.HuffmanKnown Spec.RFC9204Static Spec.FieldSize
  Model.PrefixInt Model.Huffman Model.PrefixString Model.Static Model.QpackStateless
  Proofs.C15Finite Proofs.BitsLemmas Proofs.HuffmanWalk Proofs.HuffmanStrict Proofs.HuffmanDecodeProofs Proofs.HuffmanEncodeProofs
  Proofs.PrefixIntProofs Proofs.PrefixStringProofs
  Proofs.StaticTableProofs Proofs.QpackSpecLemmas Proofs.QpackStatelessProofs Proofs.QpackEncodeProofs.
From Coq Require Import ZifyBool ZifyNat ZifyN.
Ltac Zify.zify_post_hook ::= Z.div_mod_to_equations.

(* fields whose strings h3 can read back: the Huffman decoder addresses bits with u32 (strings below 2^26 octets) *)
Definition small_field (f : field) : Prop :=
  wf_bytes (fst f) /\ wf_bytes (snd f) /\ len (fst f) < 2 ^ 26 /\ len (snd f) < 2 ^ 26.

Lemma small_field_wf f : small_field f -> wf_field f.
Proof.
  intros H. exact H.
Qed.

(* ---------------------------------------------------------------- integers: round trip with the first octet known *)
Lemma pi_roundtrip_first size flags v r :
  1 <= size <= 8 -> flags < 2 ^ (8 - size) -> v < 2 ^ 62 -> wf_bytes r ->
  exists b0 t, pi_encode size flags v = Ok (b0 :: t) /\ wf_bytes (b0 :: t) /\ b0 / 2 ^ size = flags /\
               pi_decode size ((b0 :: t) ++ r) = Ok (flags, v, r).
Proof.
  intros Hs Hf Hv Hr.
  assert (Hv63 : v < 2 ^ 63 + (2 ^ size - 1)).
  { change (2 ^ 62) with 4611686018427387904 in Hv. change (2 ^ 63) with 9223372036854775808. lia. }
  assert (Hv64 : v < 2 ^ 64).
  { change (2 ^ 62) with 4611686018427387904 in Hv. change (2 ^ 64) with 18446744073709551616. lia. }
  destruct (pi_roundtrip size flags v r Hs Hf Hv63 Hr) as (e & He & Hd).
  destruct (pi_encode_total size flags v Hs Hf Hv64) as (e' & He' & Hwf & Hrfc & _).
  rewrite He in He'. inversion He'; subst e'.
  destruct e as [|b0 t].
  - specialize (Hrfc []). cbn in Hrfc. discriminate.
  - exists b0, t. repeat split; auto.
    specialize (Hrfc []). symmetry. eapply rfc_pi_decode_first. exact Hrfc.
Qed.

(* ---------------------------------------------------------------- one field *)
Lemma ps_roundtrip_wf size flags s r :
  2 <= size <= 8 -> flags < 2 ^ (8 - size) -> wf_bytes s -> len s < 2 ^ 26 -> wf_bytes r ->
  forall e, ps_encode size flags s = Ok e -> ps_decode size (e ++ r) = Ok (s, r).
Proof.
  intros Hs Hf Hwf Hl Hr e He. destruct (ps_roundtrip size flags s r Hs Hf Hwf Hl Hr) as (e' & He' & Hd).
  rewrite He in He'. inversion He'; subst. exact Hd.
Qed.

Lemma small_len_58 s : len s < 2 ^ 26 -> len s < 2 ^ 26.
Proof. auto. Qed.

Lemma field_roundtrip f r :
  small_field f -> wf_bytes r ->
  exists l, field_encode f = Ok l /\ wf_bytes l /\ l <> [] /\ field_decode (l ++ r) = Ok (f, r).
Proof.
  intros (Hwn & Hwv & Hln & Hlv) Hr. unfold field_encode.
  destruct (st_find f) as [i|] eqn:Ef.
  - (* indexed *)
    pose proof (st_find_sound _ _ Ef) as Hg. pose proof (st_get_range _ _ Hg) as Hi.
    change qs_idx_enc_bits with 6. change qs_idx_enc_static_flags with 3.
    destruct (pi_roundtrip_first 6 3 i r ltac:(lia) ltac:(reflexivity)
                ltac:(change (2 ^ 62) with 4611686018427387904; lia) Hr) as (b0 & t & He & Hwe & Hb & Hd).
    exists (b0 :: t). split; [exact He|]. split; [exact Hwe|]. split; [discriminate|].
    assert (Hb0 : b0 < 256) by (apply wf_bytes_cons in Hwe; tauto). change (2 ^ 6) with 64 in Hb.
    unfold field_decode. cbn [app]. rewrite (hbf_decode_classify b0 Hb0). unfold classify.
    destruct (N.leb_spec 128 b0); [|lia].
    unfold indexed_decode. change qs_idx_bits with 6. change (b0 :: t ++ r) with ((b0 :: t) ++ r). rewrite Hd.
    cbn [lift_int]. change qs_idx_static_flags with 3. change (3 =? 3) with true. cbv iota.
    unfold usize_max. destruct (N.ltb_spec (2 ^ 64 - 1) i) as [Hc|_].
    { change (2 ^ 64) with 18446744073709551616 in Hc. lia. }
    unfold static_or_err. rewrite Hg. reflexivity.
  - destruct (st_find_name (fst f)) as [i|] eqn:En.
    + (* literal with static name reference *)
      destruct (st_find_name_sound _ _ En) as (v0 & Hg). pose proof (st_get_range _ _ Hg) as Hi.
      change qs_nr_enc_bits with 4. change qs_nr_enc_flags with 5.
      change qs_nr_enc_string_size with 8. change qs_nr_enc_string_flags with 0.
      destruct (ps_encode_value (snd f) Hwv (small_len_58 _ Hlv)) as (sv & Hsv & Hwsv & _).
      pose proof (ps_roundtrip_wf 8 0 (snd f) r ltac:(lia) ltac:(reflexivity) Hwv Hlv Hr sv Hsv) as Hdv.
      assert (Hwr : wf_bytes (sv ++ r)) by (apply wf_bytes_app; auto).
      destruct (pi_roundtrip_first 4 5 i (sv ++ r) ltac:(lia) ltac:(reflexivity)
                  ltac:(change (2 ^ 62) with 4611686018427387904; lia) Hwr) as (b0 & t & He & Hwe & Hb & Hd).
      rewrite He, Hsv. cbn [cat2]. exists ((b0 :: t) ++ sv). split; [reflexivity|].
      split; [apply wf_bytes_app; auto|]. split; [discriminate|].
      assert (Hb0 : b0 < 256) by (apply wf_bytes_cons in Hwe; tauto). change (2 ^ 4) with 16 in Hb.
      unfold field_decode. rewrite <- app_assoc. cbn [app]. rewrite (hbf_decode_classify b0 Hb0). unfold classify.
      destruct (N.leb_spec 128 b0); [lia|]. destruct (N.leb_spec 64 b0); [|lia].
      unfold nameref_decode. change qs_nr_bits with 4. change (b0 :: t ++ sv ++ r) with ((b0 :: t) ++ sv ++ r). rewrite Hd.
      cbn [lift_int]. change (N.land 5 qs_nr_static_mask =? qs_nr_static_value) with true. cbv iota.
      unfold usize_max. destruct (N.ltb_spec (2 ^ 64 - 1) i) as [Hc|_].
      { change (2 ^ 64) with 18446744073709551616 in Hc. lia. }
      change qs_nr_static_string_size with 8. rewrite Hdv. cbn [lift_str].
      unfold static_or_err. rewrite Hg. destruct f as [n v]. reflexivity.
    + (* literal with literal name *)
      change qs_lit_enc_name_size with 4. change qs_lit_enc_name_flags with 2.
      change qs_lit_enc_value_size with 8. change qs_lit_enc_value_flags with 0.
      destruct (ps_encode_name (fst f) Hwn (small_len_58 _ Hln)) as (sn & Hsn & Hwsn & Hlitn).
      destruct (ps_encode_value (snd f) Hwv (small_len_58 _ Hlv)) as (sv & Hsv & Hwsv & _).
      pose proof (ps_roundtrip_wf 8 0 (snd f) r ltac:(lia) ltac:(reflexivity) Hwv Hlv Hr sv Hsv) as Hdv.
      assert (Hwr : wf_bytes (sv ++ r)) by (apply wf_bytes_app; auto).
      pose proof (ps_roundtrip_wf 4 2 (fst f) (sv ++ r) ltac:(lia) ltac:(reflexivity) Hwn Hln Hwr sn Hsn) as Hdn.
      rewrite Hsn, Hsv. cbn [cat2]. exists (sn ++ sv). split; [reflexivity|].
      split; [apply wf_bytes_app; auto|].
      destruct (str_lit_first _ _ _ _ _ Hlitn) as (b0 & t & -> & Hb). change (2 ^ 3) with 8 in Hb.
      split; [discriminate|].
      assert (Hb0 : b0 < 256) by (apply wf_bytes_cons in Hwsn; tauto).
      unfold field_decode. rewrite <- app_assoc. cbn [app]. rewrite (hbf_decode_classify b0 Hb0). unfold classify.
      destruct (N.leb_spec 128 b0); [lia|]. destruct (N.leb_spec 64 b0); [lia|]. destruct (N.leb_spec 32 b0); [|lia].
      unfold literal_decode. rewrite (literal_mask_ok b0 ltac:(lia)). cbn [negb].
      change qs_lit_name_size with 4. change qs_lit_value_size with 8.
      change (b0 :: t ++ sv ++ r) with ((b0 :: t) ++ sv ++ r). rewrite Hdn. cbn [lift_str]. rewrite Hdv. cbn [lift_str].
      destruct f as [n v]. reflexivity.
Qed.

(* ---------------------------------------------------------------- the list *)
Lemma fields_roundtrip fs :
  Forall small_field fs ->
  exists ls, fields_encode fs = Ok (ls, section_size fs) /\ wf_bytes ls /\
    forall fuel mem acc, (length ls <= fuel)%nat ->
      fields_loop fuel ls None mem acc = Ok (rev acc ++ fs, mem + section_size fs).
Proof.
  induction fs as [|f fs IH]; intros Hall.
  - exists []. split; [reflexivity|]. split; [constructor|]. intros fuel mem acc _.
    destruct fuel; cbn [fields_loop section_size]; rewrite app_nil_r; f_equal; f_equal; lia.
  - inversion Hall as [|? ? Hf Hfs]; subst. destruct (IH Hfs) as (ls & Hls & Hwls & Hloop).
    destruct (field_roundtrip f ls Hf Hwls) as (l & Hl & Hwl & Hne & Hd).
    exists (l ++ ls). split; [cbn [fields_encode]; rewrite Hl, Hls, mem_size_is_field_size; reflexivity|].
    split; [apply wf_bytes_app; auto|]. intros fuel mem acc Hfuel.
    destruct l as [|b t]; [congruence|]. rewrite app_length in Hfuel. cbn [length] in Hfuel.
    destruct fuel as [|k]; [lia|]. change ((b :: t) ++ ls) with (b :: (t ++ ls)). cbn [fields_loop].
    change (b :: (t ++ ls)) with ((b :: t) ++ ls). rewrite Hd. cbn [too_long].
    rewrite (Hloop k (mem + mem_size f) (f :: acc) ltac:(lia)). cbn [rev section_size].
    rewrite <- app_assoc, mem_size_is_field_size. cbn [app]. f_equal. f_equal. lia.
Qed.

Lemma hp_decode_zero_prefix ls : hp_decode (0 :: 0 :: ls) = Ok (0, false, 0, ls).
Proof. reflexivity. Qed.

(* the round trip through h3's own decoder: same list, same order, same size *)
Theorem stateless_roundtrip fs :
  Forall small_field fs ->
  exists bs, encode_stateless fs = Ok (bs, section_size fs) /\ wf_bytes bs /\
             decode_stateless None bs = Ok (fs, section_size fs) /\
             forall L, section_size fs <= L -> decode_stateless (Some L) bs = Ok (fs, section_size fs).
Proof.
  intros Hall. destruct (fields_roundtrip fs Hall) as (ls & Hls & Hwls & Hloop).
  unfold encode_stateless. rewrite hp_encode_zero, Hls. exists ([0; 0] ++ ls). split; [reflexivity|].
  split; [apply wf_bytes_app; split; [repeat constructor; reflexivity|exact Hwls]|].
  assert (Hd : decode_stateless None ([0; 0] ++ ls) = Ok (fs, section_size fs)).
  { unfold decode_stateless. cbn [app]. rewrite hp_decode_zero_prefix. unfold_qs. cbn [andb negb N.eqb].
    change (0 =? 0) with true. cbn [negb andb]. rewrite (Hloop (length ls) 0 [] ltac:(lia)). reflexivity. }
  split; [exact Hd|].
  intros L HL. revert Hd. generalize ([0; 0] ++ ls). intros bs Hd.
  unfold decode_stateless in *. destruct (hp_decode bs) as [[[[eic sign] delta] r]|e|]; try discriminate.
  destruct (qs_ric_nonzero_rejected && negb (eic =? 0)); [discriminate|].
  destruct (qs_base_checked && qs_negative_base_is_error && sign); [discriminate|].
  revert Hd. generalize (length r) as fuel. generalize (@nil field) as acc. generalize 0 as mem.
  intros mem acc fuel. revert r mem acc.
  induction fuel as [|k IHk]; intros r mem acc Hd; destruct r as [|b t]; cbn [fields_loop] in *; try discriminate; try exact Hd.
  destruct (field_decode (b :: t)) as [[f r']|e|]; try discriminate.
  cbn [too_long] in Hd. unfold too_long, qs_too_long_strict.
  assert (Hmono : mem + mem_size f <= section_size fs).
  { clear IHk. revert Hd. generalize (mem + mem_size f) as mem'. intros mem' Hd.
    assert (G : forall fuel r mem acc fs' m, fields_loop fuel r None mem acc = Ok (fs', m) -> mem <= m).
    { clear. induction fuel as [|k IH]; intros r mem acc fs' m H; destruct r as [|b t]; cbn [fields_loop] in H;
        try discriminate; try (inversion H; lia).
      destruct (field_decode (b :: t)) as [[f r']|e|]; try discriminate. cbn [too_long] in H. apply IH in H. lia. }
    eapply G. exact Hd. }
  destruct (N.ltb_spec L (mem + mem_size f)) as [Hc|_]; [lia|]. apply IHk. exact Hd.
Qed.

(* ---------------------------------------------------------------- length of the block *)
Lemma rfc_pi_tail_length fuel : forall i k, i < 128 ^ N.of_nat (S k) -> (length (rfc_pi_tail fuel i) <= S k)%nat.
Proof.
  induction fuel as [|f IH]; intros i k Hi; cbn [rfc_pi_tail length]; [lia|].
  destruct (N.ltb_spec i 128) as [_|Hge]; [cbn [length]; lia|]. cbn [length].
  destruct k as [|k'].
  - change (128 ^ N.of_nat 1) with 128 in Hi. lia.
  - assert (Hd : i / 128 < 128 ^ N.of_nat (S k')).
    { rewrite Nat2N.inj_succ, N.pow_succ_r' in Hi. apply N.div_lt_upper_bound; lia. }
    specialize (IH _ _ Hd). lia.
Qed.

Lemma pi_encode_length size flags v e :
  1 <= size <= 8 -> flags < 2 ^ (8 - size) -> v < 2 ^ 64 -> pi_encode size flags v = Ok e -> (length e <= 11)%nat.
Proof.
  intros Hs Hf Hv He. rewrite (pi_encode_is_rfc size flags v Hs Hf Hv) in He. inversion He; subst.
  unfold rfc_pi_encode. destruct (v <? 2 ^ size - 1); [cbn; lia|]. cbn [length].
  assert (H : v - (2 ^ size - 1) < 128 ^ N.of_nat 10).
  { change (128 ^ N.of_nat 10) with 1180591620717411303424. change (2 ^ 64) with 18446744073709551616 in Hv. lia. }
  pose proof (rfc_pi_tail_length (N.to_nat (N.size v)) _ 9 H). lia.
Qed.

Lemma ps_encode_length size flags s e :
  2 <= size <= 8 -> flags < 2 ^ (8 - size) -> wf_bytes s -> len s < 2 ^ 26 -> ps_encode size flags s = Ok e ->
  len e <= 11 + 4 * len s.
Proof.
  intros Hs Hf Hwf Hl He. unfold ps_encode, ps_enc_size_offset, ps_enc_flag_shift, ps_enc_flag_or in He.
  destruct (hpack_encode_valid s Hwf Hl) as (p & Hp & Hwp & Hv & Hlen). rewrite Hp in He.
  destruct (N.ltb_spec size 1); [lia|].
  pose proof (huffman_length_bound p s Hv Hl) as Hp64.
  destruct (pi_encode (size - 1) (N.lor (N.shiftl flags 1 mod 256) 1) (len p)) as [hd|u|] eqn:Eh; try discriminate.
  inversion He; subst e.
  assert (Hfl : N.lor (N.shiftl flags 1 mod 256) 1 < 2 ^ (8 - (size - 1))).
  { assert (Hsz : size = 2 \/ size = 3 \/ size = 4 \/ size = 5 \/ size = 6 \/ size = 7 \/ size = 8) by lia.
    assert (Hb : flags < 64) by (assert (2 ^ (8 - size) <= 2 ^ 6) by (apply N.pow_le_mono_r; lia); change (2 ^ 6) with 64 in *; lia).
    pose proof (forall_below_spec 64 (fun fl => forallb (fun sz => negb (fl <? 2 ^ (8 - sz)) || (N.lor (N.shiftl fl 1 mod 256) 1 <? 2 ^ (8 - (sz - 1))))
                                                     [2; 3; 4; 5; 6; 7; 8]) ltac:(vm_compute; reflexivity) flags Hb) as Hc.
    cbv beta in Hc. rewrite forallb_forall in Hc. specialize (Hc size).
    assert (Hin : In size [2; 3; 4; 5; 6; 7; 8]) by (cbn; intuition).
    specialize (Hc Hin). apply orb_true_iff in Hc. destruct Hc as [Hc|Hc].
    - apply negb_true_iff in Hc. apply N.ltb_ge in Hc. lia.
    - apply N.ltb_lt in Hc. exact Hc. }
  pose proof (pi_encode_length (size - 1) _ (len p) hd ltac:(lia) Hfl Hp64 Eh) as Hhd.
  pose proof (codes_length_le s Hwf) as Hc. rewrite len_app. unfold len in *. lia.
Qed.

Lemma field_encode_length f l : wf_field f -> field_encode f = Ok l -> len l + 106 <= 4 * field_size f.
Proof.
  intros (Hwn & Hwv & Hln & Hlv) H. unfold field_encode in H. unfold field_size.
  destruct (st_find f) as [i|] eqn:Ef.
  - pose proof (st_get_range _ _ (st_find_sound _ _ Ef)) as Hi.
    pose proof (pi_encode_length qs_idx_enc_bits qs_idx_enc_static_flags i l ltac:(unfold_qs; lia) ltac:(reflexivity)
                  ltac:(change (2 ^ 64) with 18446744073709551616; lia) H) as Hlen.
    clear Hln Hlv. unfold len in *. lia.
  - destruct (st_find_name (fst f)) as [i|] eqn:En.
    + destruct (st_find_name_sound _ _ En) as (v0 & Hg). pose proof (st_get_range _ _ Hg) as Hi.
      destruct (pi_encode qs_nr_enc_bits qs_nr_enc_flags i) as [e|u|] eqn:Ee; try discriminate.
      destruct (ps_encode qs_nr_enc_string_size qs_nr_enc_string_flags (snd f)) as [sv|u|] eqn:Es; try discriminate.
      cbn [cat2] in H. inversion H; subst l.
      pose proof (pi_encode_length qs_nr_enc_bits qs_nr_enc_flags i e ltac:(unfold_qs; lia) ltac:(reflexivity)
                    ltac:(change (2 ^ 64) with 18446744073709551616; lia) Ee) as Hlen.
      pose proof (ps_encode_length qs_nr_enc_string_size qs_nr_enc_string_flags (snd f) sv ltac:(unfold_qs; lia) ltac:(reflexivity) Hwv Hlv Es) as Hsl.
      rewrite len_app. clear Hln Hlv. unfold len in *. lia.
    + destruct (ps_encode qs_lit_enc_name_size qs_lit_enc_name_flags (fst f)) as [sn|u|] eqn:En'; try discriminate.
      destruct (ps_encode qs_lit_enc_value_size qs_lit_enc_value_flags (snd f)) as [sv|u|] eqn:Es; try discriminate.
      cbn [cat2] in H. inversion H; subst l.
      pose proof (ps_encode_length qs_lit_enc_name_size qs_lit_enc_name_flags (fst f) sn ltac:(unfold_qs; lia) ltac:(reflexivity) Hwn Hln En') as Hnl.
      pose proof (ps_encode_length qs_lit_enc_value_size qs_lit_enc_value_flags (snd f) sv ltac:(unfold_qs; lia) ltac:(reflexivity) Hwv Hlv Es) as Hsl.
      rewrite len_app. clear Hln Hlv. unfold len in *. lia.
Qed.

Lemma fields_encode_length fs : forall ls size, Forall wf_field fs -> fields_encode fs = Ok (ls, size) ->
  len ls + 106 * N.of_nat (length fs) <= 4 * section_size fs.
Proof.
  induction fs as [|f fs IH]; intros ls size Hall H; cbn [fields_encode] in H.
  - inversion H; subst. cbn. lia.
  - inversion Hall as [|? ? Hf Hfs]; subst.
    destruct (field_encode f) as [l|u|] eqn:El; try discriminate.
    destruct (fields_encode fs) as [[ls' size']|u|] eqn:Els; try discriminate.
    inversion H; subst. pose proof (field_encode_length f l Hf El) as H1. specialize (IH _ _ Hfs eq_refl).
    rewrite len_app. cbn [section_size length]. lia.
Qed.

(* the block is at most 2 + 4 * size octets long (and shorter than 4 * size as soon as there is a field) *)
Theorem encode_stateless_length fs bs size :
  Forall wf_field fs -> encode_stateless fs = Ok (bs, size) ->
  len bs + 106 * N.of_nat (length fs) <= 2 + 4 * section_size fs.
Proof.
  intros Hall H. unfold encode_stateless in H. rewrite hp_encode_zero in H.
  destruct (fields_encode fs) as [[ls size']|u|] eqn:E; try discriminate. inversion H; subst.
  pose proof (fields_encode_length fs ls _ Hall E) as Hb. unfold len in *. cbn [app length]. lia.
Qed.
