(* Proofs for C04, part 3: the driver model against the BYTES the peer sent.
   Ties the stream-header reader (AcceptRecvProofs), the control automaton (UniStreamsProofs) and C02's refinement
   of FrameStream::poll_next (FramesProofs) together over whole histories. *)
From H3V Require Import Base.Bytes Base.BytesLemmas Gen.GenCodes Gen.GenVarint Gen.GenFrameTypes Gen.GenStreamTypes
  Spec.RFC9000 Spec.FrameVocab Spec.Frames Spec.FrameTrace Spec.UniStreams
  Model.Varint Model.FrameDec Model.FrameStream Model.AcceptRecv Model.ConnInner
  Proofs.VarintProofs Proofs.FramesProofs Proofs.AcceptRecvProofs Proofs.UniStreamsProofs.
From Coq Require Import ZifyBool ZifyNat ZifyN.
Ltac Zify.zify_post_hook ::= Z.div_mod_to_equations.

(* ---------- more about one call of the header reader: what it leaves in the queue, the eos flag ---------- *)
Definition only_chunks (q : rx) : Prop := Forall (fun e => is_terminal e = false) q.

Lemma pnv_consumes : forall q s r s' q',
  pnv_buffer_then_transport s q = (r, s', q') -> exists pre, q = pre ++ q' /\ only_chunks pre.
Proof.
  induction q as [|e q IH]; intros s r s' q' H; cbn [pnv_buffer_then_transport] in H.
  - destruct (pnv_try (pnv_memo s)) as [[r0 s0]|]; inversion H; subst; exists []; split; auto; constructor.
  - destruct (pnv_try (pnv_memo s)) as [[r0 s0]|].
    { inversion H; subst. exists []. split; auto. constructor. }
    destruct e as [b| |x].
    + destruct b as [|b1 br].
      * inversion H; subst. exists []. split; auto. constructor.
      * apply IH in H. destruct H as (pre & -> & Hp). exists (Chunk (b1 :: br) :: pre). split; [reflexivity|].
        constructor; [reflexivity|exact Hp].
    + unfold pnv_stopped_round in H. destruct (pnv_try _) as [[r0 s0]|]; inversion H; subst; exists []; split; auto; constructor.
    + destruct x; try (inversion H; subst; exists []; split; auto; constructor).
      unfold pnv_stopped_round in H. destruct (pnv_try _) as [[r0 s0]|]; inversion H; subst; exists []; split; auto; constructor.
Qed.

Lemma pnv_eos : forall q s, rx_ok q -> wf_bytes (ar_buf s) -> memo_ok s ->
  match pnv_buffer_then_transport s q with
  | (Ready (Ok _), s', _) => ar_eos s' = ar_eos s
  | (Pending, s', _) => ar_eos s' = ar_eos s
  | _ => True
  end.
Proof.
  induction q as [|e q IH]; intros s Hq Hwf Hm; cbn [pnv_buffer_then_transport]; rewrite pnv_try_spec by assumption.
  - destruct (rfc_take_varint (ar_buf s)) as [[x rest]|].
    + destruct (after_varint_fields s rest) as (_ & _ & _ & _ & He). exact He.
    + apply pnv_memo_eos.
  - apply rx_ok_tail in Hq as [He Hq].
    destruct (rfc_take_varint (ar_buf s)) as [[x rest]|] eqn:Ht.
    + destruct (after_varint_fields s rest) as (_ & _ & _ & _ & Hx). exact Hx.
    + destruct e as [b| |x].
      * destruct He as [Hne Hwb]. destruct b as [|b1 br]; [congruence|].
        set (s2 := ar_push (pnv_memo s) (b1 :: br)).
        assert (Hwf2 : wf_bytes (ar_buf s2)).
        { unfold s2, ar_push. cbn [ar_buf ar_with_buf]. rewrite pnv_memo_buf. apply wf_bytes_app; auto. }
        assert (Hm2 : memo_ok s2).
        { pose proof (pnv_memo_shape s Hm) as Hs. unfold memo_ok, s2, ar_push.
          cbn [ar_memo ar_buf ar_with_buf]. rewrite pnv_memo_buf.
          destruct (ar_buf s) as [|b0 r] eqn:Hb; rewrite Hs; [exact I|].
          exists b0, (r ++ b1 :: br). auto. }
        specialize (IH s2 Hq Hwf2 Hm2).
        assert (Heq : ar_eos s2 = ar_eos s) by (unfold s2, ar_push; cbn [ar_eos ar_with_buf]; apply pnv_memo_eos).
        destruct (pnv_buffer_then_transport s2 q) as [[p s'] q']. destruct p as [[v|e0|n]|]; auto; congruence.
      * destruct (stopped_round_none (ar_set_eos (pnv_memo s)) (Fin :: q)) as (s' & Hr).
        -- apply pnv_memo_ok in Hm. exact Hm.
        -- cbn [ar_buf ar_set_eos]. rewrite pnv_memo_buf. assumption.
        -- cbn [ar_buf ar_set_eos]. rewrite pnv_memo_buf. assumption.
        -- rewrite Hr. exact I.
      * destruct He as [c ->].
        destruct (stopped_round_none (pnv_memo s) (Abort (QTerminated c) :: q)) as (s' & Hr).
        -- apply pnv_memo_ok; assumption.
        -- rewrite pnv_memo_buf. assumption.
        -- rewrite pnv_memo_buf. assumption.
        -- rewrite Hr. exact I.
Qed.

Lemma only_chunks_app a b : only_chunks a -> only_chunks b -> only_chunks (a ++ b).
Proof. intros; apply Forall_app; auto. Qed.

Lemma poll_type_id_consumes s q r s' q' :
  poll_type_id s q = (r, s', q') -> exists pre, q = pre ++ q' /\ only_chunks pre.
Proof.
  unfold poll_type_id.
  assert (Hid : forall (x : poll (res pterr unit)), (x, s, q) = (r, s', q') -> exists pre, q = pre ++ q' /\ only_chunks pre).
  { intros x Hx; inversion Hx; subst. exists []. split; auto. constructor. }
  destruct (ar_ty s); [|apply Hid]. destruct (ar_sid s); [apply Hid|].
  destruct (memN n two_varint_types); [|apply Hid].
  rewrite pnv_is_buffer_first.
  destruct (pnv_buffer_then_transport s q) as [[p s1] q1] eqn:Hp. apply pnv_consumes in Hp.
  destruct p as [[v|e|n0]|]; intros H; inversion H; subst; exact Hp.
Qed.

Lemma poll_type_consumes s q r s' q' :
  poll_type s q = (r, s', q') -> exists pre, q = pre ++ q' /\ only_chunks pre.
Proof.
  unfold poll_type. destruct (ar_ty s); [apply poll_type_id_consumes|].
  rewrite pnv_is_buffer_first.
  destruct (pnv_buffer_then_transport s q) as [[p s1] q1] eqn:Hp. apply pnv_consumes in Hp.
  destruct Hp as (pre1 & -> & Hc1).
  destruct p as [[v|e|n0]|]; try (intros H; inversion H; subst; solve [eauto]).
  intros H. apply poll_type_id_consumes in H. destruct H as (pre2 & -> & Hc2).
  exists (pre1 ++ pre2). rewrite app_assoc. split; [reflexivity|apply only_chunks_app; assumption].
Qed.

Lemma poll_type_eos s q flat : hdr_inv s q flat ->
  match poll_type s q with
  | (Ready (Ok _), s', _) => ar_eos s' = ar_eos s
  | (Pending, s', _) => ar_eos s' = ar_eos s
  | _ => True
  end.
Proof.
  intros (Hq & Hwf & Hm & Hsid & Hty). unfold poll_type.
  assert (Hid : forall s0 q0, rx_ok q0 -> wf_bytes (ar_buf s0) -> memo_ok s0 ->
            match poll_type_id s0 q0 with
            | (Ready (Ok _), s', _) => ar_eos s' = ar_eos s0
            | (Pending, s', _) => ar_eos s' = ar_eos s0
            | _ => True
            end).
  { intros s0 q0 Hq0 Hw0 Hm0. unfold poll_type_id.
    destruct (ar_ty s0); [|reflexivity]. destruct (ar_sid s0); [reflexivity|].
    destruct (memN n two_varint_types); [|reflexivity].
    rewrite pnv_is_buffer_first. pose proof (pnv_eos q0 s0 Hq0 Hw0 Hm0) as H.
    destruct (pnv_buffer_then_transport s0 q0) as [[p s1] q1]. destruct p as [[v|e|n0]|]; auto. }
  destruct (ar_ty s) as [t|] eqn:Et; [apply Hid; assumption|].
  rewrite pnv_is_buffer_first.
  pose proof (pnv_eos q s Hq Hwf Hm) as He. pose proof (pnv_char q s Hq Hwf Hm) as Hc.
  destruct (pnv_buffer_then_transport s q) as [[p s1] q1] eqn:Hp.
  destruct p as [[v|e|n0]|]; auto.
  (* first varint read: the second half runs on a state with the same eos flag *)
  destruct (rfc_take_varint (view s q)) as [[x rest]|].
  - destruct Hc as (s1' & q1' & Hr & Hv & Hmm & _ & Hw & Hq1 & _). inversion Hr; subst s1' q1' x.
    assert (Hm2 : memo_ok (ar_with_ty s1 v)) by (unfold memo_ok; cbn [ar_memo ar_with_ty]; rewrite Hmm; exact I).
    pose proof (Hid (ar_with_ty s1 v) q1 Hq1 Hw Hm2) as H2. cbn [ar_eos ar_with_ty] in H2.
    destruct (poll_type_id (ar_with_ty s1 v) q1) as [[p2 s2] q2]. destruct p2 as [[u|e|n0]|]; auto; congruence.
  - destruct (terminated q).
    + destruct Hc as (s1' & q1' & Hr). discriminate Hr.
    + destruct Hc as (s1' & Hr & _). discriminate Hr.
Qed.

(* ====================================================================================== *)
(* What the peer has sent so far: per stream the bytes and the ending, and the streams it announced *)
(* ====================================================================================== *)
Record sent := { sn_flat : N -> bytes; sn_end : N -> ending; sn_ann : list N }.
Definition sent_init : sent := {| sn_flat := fun _ => []; sn_end := fun _ => Open; sn_ann := [] |}.
Definition upd {A} (f : N -> A) (k : N) (v : A) (j : N) : A := if j =? k then v else f j.
Definition end_of_ev (e : ev) : ending := match e with Chunk _ => Open | Fin => Finished | Abort q => Broken q end.
Definition sent_step (x : sent) (e : wev) : sent :=
  match e with
  | ENewUni id => {| sn_flat := sn_flat x; sn_end := sn_end x; sn_ann := sn_ann x ++ [id] |}
  | EArrive id ev =>
      match sn_end x id with
      | Open =>
          match ev with
          | Chunk b => {| sn_flat := upd (sn_flat x) id (sn_flat x id ++ b); sn_end := sn_end x; sn_ann := sn_ann x |}
          | _ => {| sn_flat := sn_flat x; sn_end := upd (sn_end x) id (end_of_ev ev); sn_ann := sn_ann x |}
          end
      | _ => x
      end
  | _ => x
  end.
Definition sent_of (h : list wev) : sent := fold_left sent_step h sent_init.

Definition wev_ok (e : wev) : Prop := match e with EArrive _ x => ev_ok x | _ => True end.

Lemma upd_same {A} (f : N -> A) k v : upd f k v k = v.
Proof. unfold upd. rewrite N.eqb_refl. reflexivity. Qed.
Lemma upd_other {A} (f : N -> A) k v j : j <> k -> upd f k v j = f j.
Proof. unfold upd. intros H. destruct (N.eqb_spec j k); [congruence|reflexivity]. Qed.

(* the header type visible in what was sent on a stream *)
Definition hdr_type (x : sent) (id : N) : option N :=
  match uni_header (sn_flat x id) with Some (t, _, _) => Some t | None => None end.

(* x' has at least what x has: bytes only get appended, announcements only added *)
Definition sent_le (x x' : sent) : Prop :=
  (forall id, exists b, sn_flat x' id = sn_flat x id ++ b) /\ incl (sn_ann x) (sn_ann x').

Lemma sent_le_refl x : sent_le x x.
Proof. split; [intros id; exists []; rewrite app_nil_r; reflexivity|apply incl_refl]. Qed.
Lemma sent_le_trans a b c : sent_le a b -> sent_le b c -> sent_le a c.
Proof.
  intros [H1 H2] [K1 K2]. split; [|eapply incl_tran; eauto].
  intros id. destruct (H1 id) as [u Hu]. destruct (K1 id) as [v Hv]. exists (u ++ v). rewrite Hv, Hu, app_assoc. reflexivity.
Qed.
Lemma sent_step_le x e : sent_le x (sent_step x e).
Proof.
  destruct e; try apply sent_le_refl; cbn [sent_step].
  - split; [intros j; exists []; rewrite app_nil_r; reflexivity|]. cbn. apply incl_appl, incl_refl.
  - destruct (sn_end x id); try apply sent_le_refl. destruct e; split; cbn; try apply incl_refl.
    + intros j. unfold upd. destruct (N.eqb_spec j id); [subst; eauto|exists []; rewrite app_nil_r; reflexivity].
    + intros j; exists []; rewrite app_nil_r; reflexivity.
    + intros j; exists []; rewrite app_nil_r; reflexivity.
Qed.
Lemma hdr_type_le x x' id t : sent_le x x' -> hdr_type x id = Some t -> hdr_type x' id = Some t.
Proof.
  intros [H _] Ht. unfold hdr_type in *. destruct (H id) as [b Hb]. rewrite Hb.
  destruct (uni_header (sn_flat x id)) as [[[t0 i] rest]|] eqn:Eh; [|discriminate].
  rewrite (uni_header_app _ b _ _ _ Eh). exact Ht.
Qed.

(* ---------- queues ---------- *)
Lemma qbytes_chunks q : qbytes q = chunks q.
Proof. induction q as [|[b| |x] q IH]; cbn; congruence. Qed.

Lemma terminated_qend' q : terminated q = false <-> q_end q = Open.
Proof.
  unfold terminated. induction q as [|[b| |x] q IH]; cbn; try tauto; split; discriminate.
Qed.
Lemma qend_app_open q e : q_end q = Open -> q_end (q ++ [e]) = end_of_ev e.
Proof. induction q as [|[b| |x] q IH]; cbn; intros H; try discriminate; auto; destruct e; reflexivity. Qed.
Lemma qend_only_chunks pre q : only_chunks pre -> q_end (pre ++ q) = q_end q.
Proof.
  induction 1 as [|e pre He Hp IH]; [reflexivity|]. destruct e; cbn in *; try discriminate. exact IH.
Qed.
Lemma queue_ok_suffix pre q : queue_ok (pre ++ q) -> queue_ok q.
Proof.
  induction pre as [|e pre IH]; [auto|]. cbn [app]. intros H. inversion H as [|c q0 Hc Hw Hq0| |x]; subst.
  - apply IH. exact Hq0.
  - destruct pre, q; try discriminate. constructor.
  - destruct pre, q; try discriminate. constructor.
Qed.
Lemma queue_ok_snoc q e : queue_ok q -> q_end q = Open -> ev_ok e -> queue_ok (q ++ [e]).
Proof.
  intros Hq Ho He. destruct (open_queue_snoc q e Hq Ho) as (_ & _ & H). apply H.
  destruct e; auto.
Qed.

(* ---------- the world's receive side ---------- *)
Lemma assoc_aset_same {V} k (v : V) l : assoc k (aset k v l) = Some v.
Proof.
  induction l as [|[k' v'] l IH]; cbn [aset assoc].
  - rewrite N.eqb_refl. reflexivity.
  - destruct (N.eqb_spec k k'); cbn [assoc].
    + rewrite N.eqb_refl. reflexivity.
    + destruct (N.eqb_spec k k'); [congruence|exact IH].
Qed.
Lemma assoc_aset_other {V} k j (v : V) l : j <> k -> assoc j (aset k v l) = assoc j l.
Proof.
  intros Hne. induction l as [|[k' v'] l IH]; cbn [aset assoc].
  - destruct (N.eqb_spec j k); [congruence|reflexivity].
  - destruct (N.eqb_spec k k'); cbn [assoc].
    + subst k'. destruct (N.eqb_spec j k); [congruence|reflexivity].
    + destruct (N.eqb_spec j k'); [reflexivity|exact IH].
Qed.
Lemma rxq_set_same w id q : rxq (set_rxq w id q) id = q.
Proof. unfold rxq, set_rxq. cbn [w_rx]. rewrite assoc_aset_same. reflexivity. Qed.
Lemma rxq_set_other w id j q : j <> id -> rxq (set_rxq w id q) j = rxq w j.
Proof. intros H. unfold rxq, set_rxq. cbn [w_rx]. rewrite assoc_aset_other by exact H. reflexivity. Qed.

(* ====================================================================================== *)
(* The stream-level invariant                                                             *)
(* ====================================================================================== *)
Definition is_ctl (c : conn) (id : N) : Prop := exists fs, c_control c = Some (id, fs).
Definition qgood (q : rx) : Prop := queue_ok q /\ rx_ok q.
Definition ids_of (P : list (N * arecv)) : list N := map fst P.
Definition waiting (P : list (N * arecv)) (w : world) : list N := w_incoming w ++ ids_of P.
Definition stops_of (w : world) : list (N * N) := l_stops (w_log w).
Definition unknown_type (ty : N) : Prop := kind_assoc ty into_stream_arms = UUnknown.

(* while no error has been recorded; [P] = the streams whose header is still being read *)
Record live_p (P : list (N * arecv)) (c : conn) (w : world) (x : sent) : Prop := {
  lv_q : forall id, ~ is_ctl c id -> qgood (rxq w id) /\ q_end (rxq w id) = sn_end x id;
  lv_unread : forall id, (~ In id (sn_ann x) \/ In id (w_incoming w)) -> qbytes (rxq w id) = sn_flat x id;
  lv_ann : NoDup (sn_ann x);
  lv_nodup : NoDup (waiting P w);
  lv_incl : incl (waiting P w) (sn_ann x);
  lv_pend : forall id a, In (id, a) P -> hdr_inv a (rxq w id) (sn_flat x id) /\ ar_eos a = false;
  lv_ctl : forall id, is_ctl c id -> In id (sn_ann x) /\ ~ In id (waiting P w) /\ hdr_type x id = Some ST_CONTROL;
  lv_enc : c_enc c = true ->
           exists id, In id (sn_ann x) /\ ~ In id (waiting P w) /\ hdr_type x id = Some ST_QPACK_ENCODER;
  lv_dec : c_dec c = true ->
           exists id, In id (sn_ann x) /\ ~ In id (waiting P w) /\ hdr_type x id = Some ST_QPACK_DECODER;
  lv_stop_out : forall id code, In (id, code) (stops_of w) -> ~ In id (waiting P w)
}.
Definition live (c : conn) (w : world) (x : sent) : Prop := live_p (c_pending c) c w x.

(* always: facts that stay true whatever else the peer sends *)
Definition two_of (x : sent) (ty : N) : Prop :=
  exists id1 id2, id1 <> id2 /\ In id1 (sn_ann x) /\ In id2 (sn_ann x) /\
                  hdr_type x id1 = Some ty /\ hdr_type x id2 = Some ty.
Record frozen (c : conn) (w : world) (x : sent) : Prop := {
  fz_stops : forall id code, In (id, code) (stops_of w) ->
             code = E_STREAM_CREATION /\ In id (sn_ann x) /\ exists ty, hdr_type x id = Some ty /\ unknown_type ty;
  fz_stops_nodup : NoDup (map fst (stops_of w));
  fz_two_control : c_cause c = Some CzTwoControl -> two_of x ST_CONTROL;
  fz_two_encoder : c_cause c = Some CzTwoEncoder -> two_of x ST_QPACK_ENCODER;
  fz_two_decoder : c_cause c = Some CzTwoDecoder -> two_of x ST_QPACK_DECODER;
  fz_no_internal : c_cause c <> Some CzHeaderInternal
}.

Lemma two_of_le x x' ty : sent_le x x' -> two_of x ty -> two_of x' ty.
Proof.
  intros Hle (a & b & Hne & Ha & Hb & Hta & Htb). destruct Hle as [Hf Hi].
  exists a, b. repeat split; auto; eapply hdr_type_le; eauto; split; auto.
Qed.

Lemma frozen_le c w x x' : sent_le x x' -> frozen c w x -> frozen c w x'.
Proof.
  intros Hle [F1 F2 F3 F4 F5 F6]. constructor; auto.
  - intros id code Hin. destruct (F1 id code Hin) as (Hc & Ha & ty & Ht & Hu).
    split; [exact Hc|]. split; [apply Hle; exact Ha|]. exists ty. split; [eapply hdr_type_le; eauto|exact Hu].
  - intros H. eapply two_of_le; eauto.
  - intros H. eapply two_of_le; eauto.
  - intros H. eapply two_of_le; eauto.
Qed.

(* frozen only reads these *)
Lemma frozen_ext c w c' w' x :
  stops_of w' = stops_of w -> c_cause c' = c_cause c -> frozen c w x -> frozen c' w' x.
Proof. intros Hs Hc [F1 F2 F3 F4 F5 F6]. constructor; rewrite ?Hs, ?Hc; auto. Qed.

(* ---------- events other than polls ---------- *)
Lemma ghost_arrive_slots e c :
  c_pending (ghost_arrive e c) = c_pending c /\ c_control (ghost_arrive e c) = c_control c /\
  c_enc (ghost_arrive e c) = c_enc c /\ c_dec (ghost_arrive e c) = c_dec c /\
  c_cause (ghost_arrive e c) = c_cause c /\ c_err (ghost_arrive e c) = c_err c.
Proof.
  unfold ghost_arrive. destruct e; try (repeat split; reflexivity).
  destruct (c_control c) as [[cid fs]|] eqn:Hc; [|rewrite ?Hc; repeat split; congruence].
  destruct (id =? cid); cbn; rewrite ?Hc; repeat split; congruence.
Qed.

(* live only reads these parts of the connection *)
Lemma live_p_ext P c c' w x :
  c_control c' = c_control c -> c_enc c' = c_enc c -> c_dec c' = c_dec c -> live_p P c w x -> live_p P c' w x.
Proof.
  intros H1 H2 H3 [L1 L2 L3 L4 L5 L6 L7 L8 L9 L10].
  assert (Hc : forall id, is_ctl c' id <-> is_ctl c id) by (intros id; unfold is_ctl; rewrite H1; tauto).
  constructor; auto.
  - intros id Hn. apply L1. intros Hx. apply Hn. apply Hc. exact Hx.
  - intros id Hx. apply L7. apply Hc. exact Hx.
  - rewrite H2. exact L8.
  - rewrite H3. exact L9.
Qed.

Lemma NoDup_insert {A} (a : A) l1 l2 : NoDup (l1 ++ l2) -> ~ In a (l1 ++ l2) -> NoDup (l1 ++ a :: l2).
Proof. intros H Hn. apply (NoDup_Add (Add_app a l1 l2)). auto. Qed.
Lemma NoDup_remove_mid {A} (a : A) l1 l2 : NoDup (l1 ++ a :: l2) -> NoDup (l1 ++ l2) /\ ~ In a (l1 ++ l2).
Proof. intros H. apply (NoDup_Add (Add_app a l1 l2)). exact H. Qed.

Lemma live_new_uni c w x id :
  NoDup (sn_ann x ++ [id]) -> frozen c w x -> live c w x ->
  live c (apply_wev (ENewUni id) w) (sent_step x (ENewUni id)).
Proof.
  intros Hnd Hfz [L1 L2 L3 L4 L5 L6 L7 L8 L9 L10]. unfold live in *.
  assert (Hid : ~ In id (sn_ann x)).
  { apply NoDup_remove_mid in Hnd. rewrite app_nil_r in Hnd. tauto. }
  assert (Hrx : forall j, rxq (apply_wev (ENewUni id) w) j = rxq w j).
  { intros j. cbn [apply_wev]. unfold set_incoming. cbn [rxq w_rx]. fold (rxq (set_rxq w id (rxq w id)) j).
    destruct (N.eq_dec j id) as [->|Hne]; [apply rxq_set_same|apply rxq_set_other; exact Hne]. }
  assert (Hinc : w_incoming (apply_wev (ENewUni id) w) = w_incoming w ++ [id]) by reflexivity.
  assert (Hst : stops_of (apply_wev (ENewUni id) w) = stops_of w) by reflexivity.
  assert (Hw : forall P j, In j (waiting P (apply_wev (ENewUni id) w)) <-> j = id \/ In j (waiting P w)).
  { intros P j. unfold waiting. rewrite Hinc. rewrite !in_app_iff. cbn [In]. intuition. }
  assert (Hnw : ~ In id (waiting (c_pending c) w)) by (intros Hx; apply Hid; apply L5; exact Hx).
  constructor; cbn [sent_step sn_flat sn_end sn_ann].
  - intros j Hn. rewrite Hrx. apply L1. exact Hn.
  - intros j Hj. rewrite Hrx. apply L2. rewrite Hinc in Hj. rewrite !in_app_iff in Hj. cbn [In] in Hj.
    destruct (N.eq_dec j id) as [->|Hne]; [left; exact Hid|].
    intuition congruence.
  - exact Hnd.
  - unfold waiting. rewrite Hinc, <- app_assoc. cbn [app]. apply NoDup_insert; [exact L4|exact Hnw].
  - intros j Hj. apply Hw in Hj. apply in_app_iff. destruct Hj as [->|Hj]; [right; left; reflexivity|left; apply L5; exact Hj].
  - intros j a Hin. rewrite Hrx. apply L6. exact Hin.
  - intros j Hc. destruct (L7 j Hc) as (Ha & Hn & Ht). split; [apply in_app_iff; auto|]. split; [|exact Ht].
    rewrite Hw. intros [->|Hx]; [exact (Hid Ha)|exact (Hn Hx)].
  - intros He. destruct (L8 He) as (j & Ha & Hn & Ht). exists j. split; [apply in_app_iff; auto|]. split; [|exact Ht].
    rewrite Hw. intros [->|Hx]; [exact (Hid Ha)|exact (Hn Hx)].
  - intros He. destruct (L9 He) as (j & Ha & Hn & Ht). exists j. split; [apply in_app_iff; auto|]. split; [|exact Ht].
    rewrite Hw. intros [->|Hx]; [exact (Hid Ha)|exact (Hn Hx)].
  - intros j code Hin. rewrite Hst in Hin. rewrite Hw. intros [->|Hx]; [|exact (L10 j code Hin Hx)].
    destruct (fz_stops c w x Hfz id code Hin) as (_ & Ha & _). exact (Hid Ha).
Qed.

Lemma qbytes_app_chunk q b : q_end q = Open -> qbytes (q ++ [Chunk b]) = qbytes q ++ b.
Proof. intros H. rewrite !qbytes_chunks. apply chunks_app_chunk. apply terminated_qend'. exact H. Qed.
Lemma qbytes_app_terminal q e : q_end q = Open -> is_terminal e = true -> qbytes (q ++ [e]) = qbytes q.
Proof. intros H He. rewrite !qbytes_chunks. apply chunks_app_terminal; [apply terminated_qend'; exact H|exact He]. Qed.

Lemma hdr_type_upd_other x id j v :
  j <> id -> hdr_type {| sn_flat := upd (sn_flat x) id v; sn_end := sn_end x; sn_ann := sn_ann x |} j = hdr_type x j.
Proof. intros H. unfold hdr_type. cbn [sn_flat]. rewrite upd_other by exact H. reflexivity. Qed.

Lemma live_arrive c w x id e :
  ev_ok e -> live c w x -> live c (apply_wev (EArrive id e) w) (sent_step x (EArrive id e)).
Proof.
  intros Hok Hl. pose proof (sent_step_le x (EArrive id e)) as Hle.
  destruct Hl as [L1 L2 L3 L4 L5 L6 L7 L8 L9 L10]. unfold live in *.
  set (x' := sent_step x (EArrive id e)) in *.
  assert (Hann : sn_ann x' = sn_ann x).
  { unfold x'. cbn [sent_step]. destruct (sn_end x id); try reflexivity. destruct e; reflexivity. }
  assert (Hinc : w_incoming (apply_wev (EArrive id e) w) = w_incoming w).
  { cbn [apply_wev]. destruct (terminated (rxq w id)); reflexivity. }
  assert (Hst : stops_of (apply_wev (EArrive id e) w) = stops_of w).
  { cbn [apply_wev]. destruct (terminated (rxq w id)); reflexivity. }
  assert (Hrxo : forall j, j <> id -> rxq (apply_wev (EArrive id e) w) j = rxq w j).
  { intros j Hj. cbn [apply_wev]. destruct (terminated (rxq w id)); [reflexivity|apply rxq_set_other; exact Hj]. }
  assert (Hxo : forall j, j <> id -> sn_flat x' j = sn_flat x j /\ sn_end x' j = sn_end x j).
  { intros j Hj. unfold x'. cbn [sent_step]. destruct (sn_end x id); try (split; reflexivity).
    destruct e; cbn [sn_flat sn_end]; rewrite ?upd_other by exact Hj; split; reflexivity. }
  assert (Hwt : forall P, waiting P (apply_wev (EArrive id e) w) = waiting P w).
  { intros P. unfold waiting. rewrite Hinc. reflexivity. }
  assert (Hty : forall j t, hdr_type x j = Some t -> hdr_type x' j = Some t).
  { intros j t. apply hdr_type_le. exact Hle. }
  (* the stream itself, when it is not the control stream: model and bookkeeping move together *)
  assert (Hself : ~ is_ctl c id ->
            qgood (rxq (apply_wev (EArrive id e) w) id) /\ q_end (rxq (apply_wev (EArrive id e) w) id) = sn_end x' id /\
            ((~ In id (sn_ann x) \/ In id (w_incoming w)) -> qbytes (rxq (apply_wev (EArrive id e) w) id) = sn_flat x' id) /\
            (forall a, hdr_inv a (rxq w id) (sn_flat x id) -> hdr_inv a (rxq (apply_wev (EArrive id e) w) id) (sn_flat x' id))).
  { intros Hn. destruct (L1 id Hn) as [[Hqo Hro] Hqe].
    cbn [apply_wev]. unfold x'. cbn [sent_step].
    destruct (terminated (rxq w id)) eqn:Ht.
    - assert (Hne : q_end (rxq w id) <> Open).
      { intros Ho. apply terminated_qend' in Ho. congruence. }
      rewrite <- Hqe. destruct (q_end (rxq w id)) eqn:Hq; [congruence| |];
        (split; [split; assumption|]); (split; [congruence|]); (split; [apply L2|auto]).
    - assert (Ho : q_end (rxq w id) = Open) by (apply terminated_qend'; exact Ht).
      rewrite <- Hqe, Ho. rewrite rxq_set_same.
      split; [split; [apply queue_ok_snoc; assumption|apply rx_ok_app; assumption]|].
      destruct e as [b| |qe]; cbn [sn_flat sn_end].
      + rewrite upd_same. split; [rewrite qend_app_open by exact Ho; cbn; congruence|].
        split.
        * intros Hu. rewrite qbytes_app_chunk by exact Ho. rewrite (L2 id Hu). reflexivity.
        * intros a Ha. destruct Hok as [Hne Hwb]. apply hdr_inv_chunk; assumption.
      + rewrite upd_same. split; [rewrite qend_app_open by exact Ho; reflexivity|].
        split.
        * intros Hu. rewrite qbytes_app_terminal by auto. apply L2. exact Hu.
        * intros a Ha. apply hdr_inv_terminal; auto.
      + rewrite upd_same. split; [rewrite qend_app_open by exact Ho; reflexivity|].
        split.
        * intros Hu. rewrite qbytes_app_terminal by auto. apply L2. exact Hu.
        * intros a Ha. apply hdr_inv_terminal; auto. }
  constructor; rewrite ?Hwt, ?Hann, ?Hinc, ?Hst; auto.
  - intros j Hn. destruct (N.eq_dec j id) as [->|Hj].
    + destruct (Hself Hn) as (H1 & H2 & _). auto.
    + rewrite Hrxo by exact Hj. destruct (Hxo j Hj) as [_ ->]. apply L1. exact Hn.
  - intros j Hu. destruct (N.eq_dec j id) as [->|Hj].
    + assert (Hn : ~ is_ctl c id).
      { intros Hc. destruct (L7 id Hc) as (Ha & Hnw & _). destruct Hu as [Hu|Hu]; [exact (Hu Ha)|].
        apply Hnw. unfold waiting. apply in_app_iff. auto. }
      destruct (Hself Hn) as (_ & _ & H3 & _). apply H3. exact Hu.
    + rewrite Hrxo by exact Hj. destruct (Hxo j Hj) as [-> _]. apply L2. exact Hu.
  - intros j a Hin. destruct (L6 j a Hin) as [Hh He]. split; [|exact He].
    destruct (N.eq_dec j id) as [->|Hj].
    + assert (Hn : ~ is_ctl c id).
      { intros Hc. destruct (L7 id Hc) as (_ & Hnw & _). apply Hnw. unfold waiting, ids_of. apply in_app_iff. right.
        apply in_map_iff. exists (id, a). auto. }
      destruct (Hself Hn) as (_ & _ & _ & H4). apply H4. exact Hh.
    + rewrite Hrxo by exact Hj. destruct (Hxo j Hj) as [-> _]. exact Hh.
  - intros j Hc. destruct (L7 j Hc) as (Ha & Hn & Ht). auto.
  - intros He. destruct (L8 He) as (j & Ha & Hn & Ht). exists j. auto.
  - intros He. destruct (L9 He) as (j & Ha & Hn & Ht). exists j. auto.
Qed.

Lemma live_world_ext P c w w' x :
  (forall j, rxq w' j = rxq w j) -> w_incoming w' = w_incoming w -> stops_of w' = stops_of w ->
  live_p P c w x -> live_p P c w' x.
Proof.
  intros Hr Hi Hs [L1 L2 L3 L4 L5 L6 L7 L8 L9 L10].
  assert (Hw : waiting P w' = waiting P w) by (unfold waiting; rewrite Hi; reflexivity).
  constructor; rewrite ?Hw, ?Hi, ?Hs; auto.
  - intros id Hn. rewrite Hr. auto.
  - intros id Hu. rewrite Hr. auto.
  - intros id a Hin. rewrite Hr. auto.
Qed.

(* ---------- one call of poll_type on a stream of the invariant ---------- *)
Lemma uni_header_second flat ty sid rest :
  uni_header flat = Some (ty, sid, rest) -> has_second_varint ty = true -> exists i, sid = Some i.
Proof.
  unfold uni_header. destruct (rfc_take_varint flat) as [[t r1]|]; [|discriminate].
  destruct (has_second_varint t) eqn:H2.
  - destruct (rfc_take_varint r1) as [[i r2]|]; [|discriminate]. intros H; inversion H; subst. eauto.
  - intros H; inversion H; subst. congruence.
Qed.

Lemma poll_type_cases a q flat :
  hdr_inv a q flat -> ar_eos a = false ->
  exists p a' q', poll_type a q = (p, a', q') /\
    (exists pre, q = pre ++ q' /\ only_chunks pre) /\
    match p with
    | Pending => hdr_inv a' q' flat /\ ar_eos a' = false /\ uni_header flat = None /\ terminated q = false
    | Ready (Err PEnd) => uni_header flat = None /\ terminated q = true
    | Ready (Ok _) =>
        exists ty sid rest, uni_header flat = Some (ty, sid, rest) /\ ar_ty a' = Some ty /\ ar_sid a' = sid /\
                            view a' q' = rest /\ wf_bytes (ar_buf a') /\ ar_eos a' = false
    | _ => False
    end.
Proof.
  intros Hinv He. pose proof (poll_type_char a q flat Hinv) as Hc. pose proof (poll_type_eos a q flat Hinv) as Heos.
  destruct (poll_type a q) as [[p a'] q'] eqn:Hp. exists p, a', q'. split; [reflexivity|].
  split; [eapply poll_type_consumes; eauto|].
  destruct (uni_header flat) as [[[ty sid] rest]|].
  - destruct Hc as (s' & q1 & Hr & Hty & Hsid & Hv & Hw & _). inversion Hr; subst.
    exists ty, (ar_sid s'), (view s' q1). repeat split; auto. congruence.
  - destruct (terminated q).
    + destruct Hc as (s' & q1 & Hr). inversion Hr; subst. auto.
    + destruct Hc as (s' & Hr & Hi). inversion Hr; subst. split; [exact Hi|]. split; [congruence|]. auto.
Qed.

Lemma into_stream_kind_ok a ty sid rest flat :
  uni_header flat = Some (ty, sid, rest) -> ar_ty a = Some ty -> ar_sid a = sid ->
  into_stream_kind a = Ok (kind_assoc ty into_stream_arms).
Proof.
  intros Hh Hty Hsid. unfold into_stream_kind. rewrite Hty.
  destruct (kind_assoc ty into_stream_arms) eqn:Hk; try reflexivity.
  (* WebTransport: the session id is there *)
  assert (H2 : has_second_varint ty = true).
  { unfold kind_assoc, into_stream_arms in Hk. unfold has_second_varint, ST_PUSH, ST_WEBTRANSPORT_UNI.
    repeat match type of Hk with (if ?t =? ?k then _ else _) = _ => destruct (N.eqb_spec t k); [subst; try discriminate Hk|] end;
      try discriminate Hk. reflexivity. }
  destruct (uni_header_second _ _ _ _ Hh H2) as [i Hi]. rewrite Hsid, Hi. reflexivity.
Qed.

(* the type a kind stands for *)
Lemma kind_control ty : kind_assoc ty into_stream_arms = UControl -> ty = ST_CONTROL.
Proof.
  unfold kind_assoc, into_stream_arms. intros Hk.
  repeat match type of Hk with (if ?t =? ?k then _ else _) = _ => destruct (N.eqb_spec t k); [subst; try discriminate Hk|] end;
    try discriminate Hk. reflexivity.
Qed.
Lemma kind_encoder ty : kind_assoc ty into_stream_arms = UEncoder -> ty = ST_QPACK_ENCODER.
Proof.
  unfold kind_assoc, into_stream_arms. intros Hk.
  repeat match type of Hk with (if ?t =? ?k then _ else _) = _ => destruct (N.eqb_spec t k); [subst; try discriminate Hk|] end;
    try discriminate Hk. reflexivity.
Qed.
Lemma kind_decoder ty : kind_assoc ty into_stream_arms = UDecoder -> ty = ST_QPACK_DECODER.
Proof.
  unfold kind_assoc, into_stream_arms. intros Hk.
  repeat match type of Hk with (if ?t =? ?k then _ else _) = _ => destruct (N.eqb_spec t k); [subst; try discriminate Hk|] end;
    try discriminate Hk. reflexivity.
Qed.

(* ---------- poll_accept_recv's loop: building blocks ---------- *)
Lemma in_ids_mid kept id a rest : In id (ids_of (kept ++ (id, a) :: rest)).
Proof. unfold ids_of. rewrite map_app. apply in_app_iff. right. left. reflexivity. Qed.

Lemma waiting_mid kept id (a : arecv) rest w :
  waiting (kept ++ (id, a) :: rest) w = (w_incoming w ++ ids_of kept) ++ id :: ids_of rest.
Proof. unfold waiting, ids_of. rewrite map_app, app_assoc. reflexivity. Qed.
Lemma waiting_drop kept rest w : waiting (kept ++ rest) w = (w_incoming w ++ ids_of kept) ++ ids_of rest.
Proof. unfold waiting, ids_of. rewrite map_app, app_assoc. reflexivity. Qed.

(* the stream at the head of the work list has been looked at: its queue is now the suffix q' *)
Section HeadStream.
  Variables (kept rest : list (N * arecv)) (id : N) (a : arecv) (c : conn) (w : world) (x : sent).
  Variables (pre q' : rx).
  Hypothesis Hl : live_p (kept ++ (id, a) :: rest) c w x.
  Hypothesis Hq : rxq w id = pre ++ q'.
  Hypothesis Hpre : only_chunks pre.

  Let w1 := set_rxq w id q'.

  Lemma head_facts :
    In id (sn_ann x) /\ ~ In id (waiting (kept ++ rest) w) /\ NoDup (waiting (kept ++ rest) w) /\ ~ is_ctl c id /\
    ~ In id (w_incoming w) /\ (forall code, ~ In (id, code) (stops_of w)).
  Proof.
    destruct Hl as [L1 L2 L3 L4 L5 L6 L7 L8 L9 L10].
    rewrite waiting_mid in L4. apply NoDup_remove_mid in L4 as [Hnd Hni]. rewrite <- waiting_drop in Hnd, Hni.
    assert (Hw : In id (waiting (kept ++ (id, a) :: rest) w)).
    { unfold waiting. apply in_app_iff. right. apply in_ids_mid. }
    repeat split; auto.
    - intros Hc. destruct (L7 id Hc) as (_ & Hn & _). exact (Hn Hw).
    - intros Hi. apply Hni. unfold waiting. apply in_app_iff. auto.
    - intros code Hs. exact (L10 id code Hs Hw).
  Qed.

  Lemma w1_other j : j <> id -> rxq w1 j = rxq w j.
  Proof. apply rxq_set_other. Qed.
  Lemma w1_same : rxq w1 id = q'.
  Proof. apply rxq_set_same. Qed.
  Lemma w1_waiting P : waiting P w1 = waiting P w.
  Proof. reflexivity. Qed.

  Lemma q'_good : qgood q' /\ q_end q' = sn_end x id.
  Proof.
    destruct head_facts as (_ & _ & _ & Hn & _). destruct (lv_q _ _ _ _ Hl id Hn) as [[Hqo Hro] He].
    rewrite Hq in *. split; [split|].
    - eapply queue_ok_suffix; eauto.
    - apply Forall_app in Hro. tauto.
    - rewrite <- He. symmetry. apply qend_only_chunks. exact Hpre.
  Qed.

  (* common part: every clause of live that does not mention the head stream's own entry *)
  Lemma head_common P :
    (forall j, In j (waiting P w) -> In j (waiting (kept ++ (id, a) :: rest) w)) ->
    NoDup (waiting P w) ->
    (forall j b, In (j, b) P -> hdr_inv b (rxq w1 j) (sn_flat x j) /\ ar_eos b = false) ->
    live_p P c w1 x.
  Proof.
    intros Hsub Hnd Hp. destruct Hl as [L1 L2 L3 L4 L5 L6 L7 L8 L9 L10].
    destruct head_facts as (Ha & Hni & _ & Hnc & Hninc & Hns).
    constructor; rewrite ?w1_waiting; auto.
    - intros j Hn. destruct (N.eq_dec j id) as [Hj|Hj]; [rewrite Hj, w1_same; apply q'_good|rewrite w1_other by exact Hj; auto].
    - intros j Hu. destruct (N.eq_dec j id) as [Hj|Hj]; [rewrite Hj in Hu; tauto|rewrite w1_other by exact Hj; auto].
    - intros j Hj. apply L5. apply Hsub. exact Hj.
    - intros j Hc. destruct (L7 j Hc) as (H1 & H2 & H3). repeat split; auto.
    - intros He. destruct (L8 He) as (j & H1 & H2 & H3). exists j. repeat split; auto.
    - intros He. destruct (L9 He) as (j & H1 & H2 & H3). exists j. repeat split; auto.
    - intros j code Hs Hw. exact (L10 j code Hs (Hsub j Hw)).
  Qed.

  Lemma sub_drop j : In j (waiting (kept ++ rest) w) -> In j (waiting (kept ++ (id, a) :: rest) w).
  Proof.
    rewrite waiting_drop, waiting_mid, !in_app_iff. cbn [In]. tauto.
  Qed.

  Lemma others_pend j b : In (j, b) (kept ++ rest) -> hdr_inv b (rxq w1 j) (sn_flat x j) /\ ar_eos b = false.
  Proof.
    intros Hin. destruct head_facts as (_ & Hni & _).
    assert (Hj : j <> id).
    { intros Hj. rewrite Hj in Hin. apply Hni. unfold waiting, ids_of. apply in_app_iff. right. apply in_map_iff. exists (id, b). auto. }
    rewrite w1_other by exact Hj. apply (lv_pend _ _ _ _ Hl).
    apply in_app_iff in Hin. apply in_app_iff. destruct Hin; [left|right; right]; assumption.
  Qed.

  (* the stream is no longer waiting (resolved or dropped) *)
  Lemma live_drop : live_p (kept ++ rest) c w1 x.
  Proof.
    apply head_common; [apply sub_drop| |apply others_pend].
    destruct head_facts as (_ & _ & Hnd & _). exact Hnd.
  Qed.

  (* the stream keeps waiting with the reader state a' *)
  Lemma live_keep a' : hdr_inv a' q' (sn_flat x id) -> ar_eos a' = false -> live_p (kept ++ (id, a') :: rest) c w1 x.
  Proof.
    intros Hh He. apply head_common.
    - intros j. rewrite !waiting_mid. auto.
    - rewrite waiting_mid. rewrite <- (waiting_mid kept id a rest w). apply (lv_nodup _ _ _ _ Hl).
    - intros j b Hin. apply in_app_iff in Hin. destruct Hin as [Hin|[Heq|Hin]].
      + apply others_pend. apply in_app_iff. auto.
      + injection Heq as Hj Hb. rewrite <- Hj, <- Hb, w1_same. auto.
      + apply others_pend. apply in_app_iff. auto.
  Qed.
End HeadStream.

Lemma live_claim_control P c c' w x id fs :
  live_p P c w x -> c_control c = None -> c_control c' = Some (id, fs) -> c_enc c' = c_enc c -> c_dec c' = c_dec c ->
  In id (sn_ann x) -> ~ In id (waiting P w) -> hdr_type x id = Some ST_CONTROL ->
  live_p P c' w x.
Proof.
  intros [L1 L2 L3 L4 L5 L6 L7 L8 L9 L10] Hn Hc He Hd Ha Hw Ht.
  constructor; auto.
  - intros j Hj. apply L1. intros [fs0 Hx]. congruence.
  - intros j [fs0 Hx]. rewrite Hc in Hx. inversion Hx; subst. auto.
  - rewrite He. exact L8.
  - rewrite Hd. exact L9.
Qed.

Lemma live_claim_enc P c c' w x id :
  live_p P c w x -> c_control c' = c_control c -> c_dec c' = c_dec c ->
  In id (sn_ann x) -> ~ In id (waiting P w) -> hdr_type x id = Some ST_QPACK_ENCODER ->
  live_p P c' w x.
Proof.
  intros [L1 L2 L3 L4 L5 L6 L7 L8 L9 L10] Hc Hd Ha Hw Ht.
  assert (Hic : forall j, is_ctl c' j <-> is_ctl c j) by (intros j; unfold is_ctl; rewrite Hc; tauto).
  constructor; auto.
  - intros j Hj. apply L1. intros Hx. apply Hj. apply Hic. exact Hx.
  - intros j Hj. apply L7. apply Hic. exact Hj.
  - intros _. exists id. auto.
  - rewrite Hd. exact L9.
Qed.

Lemma live_claim_dec P c c' w x id :
  live_p P c w x -> c_control c' = c_control c -> c_enc c' = c_enc c ->
  In id (sn_ann x) -> ~ In id (waiting P w) -> hdr_type x id = Some ST_QPACK_DECODER ->
  live_p P c' w x.
Proof.
  intros [L1 L2 L3 L4 L5 L6 L7 L8 L9 L10] Hc He Ha Hw Ht.
  assert (Hic : forall j, is_ctl c' j <-> is_ctl c j) by (intros j; unfold is_ctl; rewrite Hc; tauto).
  constructor; auto.
  - intros j Hj. apply L1. intros Hx. apply Hj. apply Hic. exact Hx.
  - intros j Hj. apply L7. apply Hic. exact Hj.
  - rewrite He. exact L8.
  - intros _. exists id. auto.
Qed.

Lemma live_add_stop P c w x id code :
  live_p P c w x -> ~ In id (waiting P w) -> live_p P c (add_stop w id code) x.
Proof.
  intros [L1 L2 L3 L4 L5 L6 L7 L8 L9 L10] Hw.
  constructor; auto.
  intros j cd Hin. unfold stops_of, add_stop in Hin. cbn in Hin. apply in_app_iff in Hin.
  destruct Hin as [Hin|[Heq|[]]]; [exact (L10 j cd Hin)|]. inversion Heq; subst. exact Hw.
Qed.

Lemma frozen_add_stop c w x id ty :
  frozen c w x -> In id (sn_ann x) -> hdr_type x id = Some ty -> unknown_type ty ->
  (forall code, ~ In (id, code) (stops_of w)) ->
  frozen c (add_stop w id code_par_stop_unknown) x.
Proof.
  intros [F1 F2 F3 F4 F5 F6] Ha Ht Hu Hn.
  assert (Hs : stops_of (add_stop w id code_par_stop_unknown) = stops_of w ++ [(id, code_par_stop_unknown)]) by reflexivity.
  constructor; auto; rewrite Hs.
  - intros j cd Hin. apply in_app_iff in Hin. destruct Hin as [Hin|[Heq|[]]]; [auto|].
    inversion Heq; subst. split; [reflexivity|]. split; [exact Ha|]. exists ty. auto.
  - rewrite map_app. cbn [map fst]. rewrite <- (app_nil_r (map fst (stops_of w) ++ [id])), <- app_assoc. cbn [app].
    apply NoDup_insert; rewrite app_nil_r; [exact F2|].
    intros Hin. apply in_map_iff in Hin. destruct Hin as ([j cd] & Hj & Hin). cbn in Hj. subst j. exact (Hn cd Hin).
Qed.

(* a failure of one of poll_accept_recv's sites *)
Lemma frozen_fail {A} z code c0 w wr (r : pres A) c' w' wr' x :
  c_err c0 = None -> frozen c0 w x ->
  @fail A z code (c0, w, wr) = (r, (c', w', wr')) ->
  (z = CzTwoControl -> two_of x ST_CONTROL) -> (z = CzTwoEncoder -> two_of x ST_QPACK_ENCODER) ->
  (z = CzTwoDecoder -> two_of x ST_QPACK_DECODER) -> z <> CzHeaderInternal ->
  frozen c' w' x /\ c_err c' <> None.
Proof.
  intros He [F1 F2 F3 F4 F5 F6] H H1 H2 H3 H4. rewrite fail_spec, He in H. inversion H; subst.
  split; [|discriminate].
  constructor; cbn [c_cause set_err]; auto.
  - intros Hz; inversion Hz; auto.
  - intros Hz; inversion Hz; auto.
  - intros Hz; inversion Hz; auto.
  - intros Hz; inversion Hz; auto.
Qed.

(* ====================================================================================== *)
(* The control stream as a run of C02's FrameStream model                                 *)
(* ====================================================================================== *)
Lemma run_app : forall h1 h2 s d,
  run (h1 ++ h2) s d =
    let '(o1, s1) := run h1 s d in
    let '(o2, s2) := run h2 s1 (d || existsb obs_final o1) in (o1 ++ o2, s2).
Proof.
  induction h1 as [|a h1 IH]; intros h2 s d; cbn [app run].
  - cbn [existsb]. rewrite orb_false_r. destruct (run h2 s d); reflexivity.
  - destruct a.
    + apply IH.
    + destruct d.
      * rewrite IH. reflexivity.
      * destruct (poll_next s) as [r s']. rewrite IH.
        destruct (run h1 s' (obs_final (ONext r))) as [o1 s1]. cbn [existsb orb].
        destruct (run h2 s1 (obs_final (ONext r) || existsb obs_final o1)); reflexivity.
    + destruct d.
      * rewrite IH. reflexivity.
      * destruct (poll_data s) as [r s']. rewrite IH.
        destruct (run h1 s' (obs_final (OData r))) as [o1 s1]. cbn [existsb orb].
        destruct (run h2 s1 (obs_final (OData r) || existsb obs_final o1)); reflexivity.
    + destruct d.
      * rewrite IH. reflexivity.
      * destruct (st_rem s =? 0).
        -- destruct (poll_next s) as [r s']. rewrite IH.
           destruct (run h1 s' (obs_final (ONext r))) as [o1 s1]. cbn [existsb orb].
           destruct (run h2 s1 (obs_final (ONext r) || existsb obs_final o1)); reflexivity.
        -- destruct (poll_data s) as [r s']. rewrite IH.
           destruct (run h1 s' (obs_final (OData r))) as [o1 s1]. cbn [existsb orb].
           destruct (run h2 s1 (obs_final (OData r) || existsb obs_final o1)); reflexivity.
Qed.

Lemma run_snoc_arrive h e s0 obs cur :
  run h s0 false = (obs, cur) -> run (h ++ [Arrive e]) s0 false = (obs, arrive e cur).
Proof.
  intros H. rewrite run_app, H. cbn [run]. rewrite app_nil_r. reflexivity.
Qed.

Lemma run_snoc_call h s0 obs cur :
  run h s0 false = (obs, cur) -> existsb obs_final obs = false -> st_rem cur = 0 ->
  run (h ++ [CallAuto]) s0 false = (obs ++ [ONext (fst (poll_next cur))], snd (poll_next cur)).
Proof.
  intros H Hf Hr. rewrite run_app, H, Hf. cbn [orb run]. rewrite Hr. cbn.
  destruct (poll_next cur) as [r s']. reflexivity.
Qed.

Lemma arrivals_snoc h e :
  arrivals (h ++ [Arrive e]) =
    match snd (arrivals h) with
    | Open => (fst (arrivals h) ++ qbytes [e], end_of_ev e)
    | _ => arrivals h
    end.
Proof.
  induction h as [|a h IH]; cbn [app arrivals].
  - destruct e; cbn; rewrite ?app_nil_r; reflexivity.
  - destruct a as [x| | |]; try exact IH.
    destruct x as [c| |q]; try reflexivity.
    rewrite IH. destruct (arrivals h) as [b en]. cbn [fst snd].
    destruct en; cbn [fst snd]; try reflexivity. rewrite app_assoc. reflexivity.
Qed.
Lemma arrivals_snoc_call h : arrivals (h ++ [CallAuto]) = arrivals h.
Proof.
  induction h as [|a h IH]; cbn [app arrivals]; [reflexivity|].
  destruct a as [x| | |]; try exact IH. destruct x; try reflexivity. rewrite IH. reflexivity.
Qed.

Lemma toks_of_app a b : toks_of (a ++ b) = toks_of a ++ toks_of b.
Proof. unfold toks_of. apply flat_map_app. Qed.

(* poll_next leaves remaining_data alone unless it hands out a DATA / WebTransport header *)
Lemma try_recv_rem s : st_rem (snd (try_recv s)) = st_rem s.
Proof.
  unfold try_recv. destruct (st_eos s); [reflexivity|].
  destruct (rx_poll (st_q s)) as [[[[c|]|e|n]|] q']; try reflexivity. destruct c; reflexivity.
Qed.
Lemma decoder_decode_rem s : st_rem (snd (decoder_decode s)) = st_rem s.
Proof. unfold decoder_decode. destruct (dec_loop _ _ _) as [[r b] m]. reflexivity. Qed.

Definition keeps_rem (r : poll (res fserr (option frame))) : bool :=
  match r with
  | Ready (Ok (Some (FData _))) | Ready (Ok (Some (FWebTransport _))) => false
  | _ => true
  end.

Lemma next_loop_rem : forall fuel s,
  keeps_rem (fst (next_loop fuel s)) = true -> st_rem (snd (next_loop fuel s)) = st_rem s.
Proof.
  induction fuel as [|fuel IH]; intros s; [reflexivity|].
  cbn [next_loop]. pose proof (try_recv_rem s) as Htq.
  destruct (try_recv s) as [p s1]. cbn [snd] in Htq.
  pose proof (decoder_decode_rem s1) as Hdq.
  destruct (decoder_decode s1) as [r s2]. cbn [snd] in Hdq.
  assert (H2 : st_rem s2 = st_rem s) by congruence.
  destruct p as [[b|e|n]|]; cbn [fst snd]; auto.
  - destruct r as [[f|]|e|n]; cbn [fst snd]; auto.
    + destruct f; cbn [fst snd keeps_rem]; auto; discriminate.
    + destruct b.
      * destruct (fs_next_end_checks_buffer && negb (bl_remaining (st_buf s2) =? 0)); cbn [fst snd]; auto.
      * intros H. rewrite IH by exact H. exact H2.
  - destruct r as [[f|]|e|n]; cbn [fst snd]; auto. destruct f; cbn [fst snd keeps_rem]; auto; discriminate.
Qed.

Lemma poll_next_rem s : st_rem s = 0 -> keeps_rem (fst (poll_next s)) = true -> st_rem (snd (poll_next s)) = 0.
Proof.
  intros Hr. unfold poll_next. rewrite Hr. cbn [N.eqb negb]. change (negb (0 =? 0)) with false. cbv iota.
  intros H. rewrite next_loop_rem by exact H. exact Hr.
Qed.

Lemma fs_with_q_id s : fs_with_q (fs_with_q s []) (st_q s) = s.
Proof. destruct s; reflexivity. Qed.
Lemma fs_with_q_q s q : st_q (fs_with_q s q) = q.
Proof. reflexivity. Qed.

(* what was sent on the control stream, from the bytes seen when it was claimed and the arrivals since *)
Definition joined (flat0 : bytes) (s0 : fstream) (tr : list action) : bytes * ending :=
  match q_end (st_q s0) with
  | Open => (flat0 ++ fst (arrivals tr), snd (arrivals tr))
  | e => (flat0, e)
  end.

(* the claimed control stream is a run of the FrameStream model from the state s0 it was claimed in;
   [going]: the driver may poll it again *)
Definition ctl_cause (z : cause) : bool :=
  match z with CzCtlClosed | CzCtlTruncated | CzCtlProto _ | CzCtlReset => true | _ => false end.
(* a failure of the control stream itself was caused by the last result of poll_next *)
Definition cause_last (z : cause) (obs : list obs) : Prop :=
  match z with
  | CzCtlClosed => last_obs obs = Some (ONext (Ready (Ok None)))
  | CzCtlTruncated => last_obs obs = Some (ONext (Ready (Err FsUnexpectedEnd)))
  | CzCtlProto k => exists fe, last_obs obs = Some (ONext (Ready (Err (FsProto k fe)))) /\ map_ferr fe = Some (FsProto k fe)
  | CzCtlReset => exists q, last_obs obs = Some (ONext (Ready (Err (FsQuic q))))
  | _ => True
  end.

Definition ctl_ok (going : bool) (c : conn) (w : world) (x : sent) (id : N) (fs : fstream) : Prop :=
  exists s0 obs flat0,
    In id (sn_ann x) /\
    c_ctl0 c = Some s0 /\ fs_inv s0 /\ st_rem s0 = 0 /\
    FrameTrace.hist_ok (c_trace c) /\
    run (c_trace c) s0 false = (obs, fs_with_q fs (rxq w id)) /\
    toks_of obs = map TFrame (c_taken c) /\
    uni_header flat0 = Some (ST_CONTROL, None, V s0 []) /\
    (sn_flat x id, sn_end x id) = joined flat0 s0 (c_trace c) /\
    (forall z, c_cause c = Some z -> cause_last z obs) /\
    (going = true ->
       fs_inv (fs_with_q fs (rxq w id)) /\ st_rem fs = 0 /\ existsb obs_final obs = false).

Definition ctl_inv2 (going : bool) (c : conn) (w : world) (x : sent) : Prop :=
  match c_control c with
  | None => c_taken c = [] /\ (forall z, c_cause c = Some z -> ctl_cause z = false)
  | Some (id, fs) => ctl_ok going c w x id fs
  end.

Lemma ctl_inv2_stop c w x : ctl_inv2 true c w x -> ctl_inv2 false c w x.
Proof.
  unfold ctl_inv2. destruct (c_control c) as [[id fs]|]; [|auto].
  intros (s0 & obs & flat0 & K0 & K1 & K2 & K3 & K4 & K5 & K6 & K7 & K8 & K9 & K10). exists s0, obs, flat0.
  repeat (split; [assumption|]). discriminate.
Qed.

(* it only reads these *)
Lemma ctl_inv2_ext g c c' w w' x :
  c_control c' = c_control c -> c_ctl0 c' = c_ctl0 c -> c_trace c' = c_trace c -> c_taken c' = c_taken c ->
  (forall z, c_cause c' = Some z -> ctl_cause z = true -> c_cause c = Some z) ->
  (forall id fs, c_control c = Some (id, fs) -> rxq w' id = rxq w id) ->
  ctl_inv2 g c w x -> ctl_inv2 g c' w' x.
Proof.
  intros H1 H2 H3 H4 Hz Hq. unfold ctl_inv2. rewrite H1. destruct (c_control c) as [[id fs]|].
  2:{ intros [Ht Hn]. split; [congruence|]. intros z Hc. destruct (ctl_cause z) eqn:Ez; [|reflexivity].
      rewrite <- Ez. apply Hn. apply Hz; assumption. }
  intros (s0 & obs & flat0 & K0 & K1 & K2 & K3 & K4 & K5 & K6 & K7 & K8 & K9 & K10). exists s0, obs, flat0.
  rewrite H2, H3, H4, (Hq id fs eq_refl). repeat (split; [assumption|]). split; [|exact K10].
  intros z Hc. destruct (ctl_cause z) eqn:Ez; [apply K9; apply Hz; assumption|].
  destruct z; try exact I; discriminate.
Qed.

(* other streams' bookkeeping may move *)
Lemma ctl_inv2_sent g c w x x' :
  (forall id fs, c_control c = Some (id, fs) -> sn_flat x' id = sn_flat x id /\ sn_end x' id = sn_end x id) ->
  incl (sn_ann x) (sn_ann x') ->
  ctl_inv2 g c w x -> ctl_inv2 g c w x'.
Proof.
  intros Hx Hi. unfold ctl_inv2. destruct (c_control c) as [[id fs]|]; [|auto].
  destruct (Hx id fs eq_refl) as [Hf He].
  intros (s0 & obs & flat0 & K0 & K). exists s0, obs, flat0. rewrite Hf, He. split; [apply Hi; exact K0|exact K].
Qed.

Lemma hist_ok_snoc h a : FrameTrace.hist_ok h -> FrameTrace.action_ok a -> FrameTrace.hist_ok (h ++ [a]).
Proof. intros H Ha. apply Forall_app. split; [exact H|constructor; [exact Ha|constructor]]. Qed.

(* an arrival on the control stream *)
Lemma ctl_arrive g c w x id fs e :
  c_control c = Some (id, fs) -> ev_ok e -> ctl_inv2 g c w x ->
  ctl_inv2 g (ghost_arrive (EArrive id e) c) (apply_wev (EArrive id e) w) (sent_step x (EArrive id e)).
Proof.
  intros Hc Hok. unfold ctl_inv2. rewrite (proj1 (proj2 (ghost_arrive_slots (EArrive id e) c))), Hc.
  intros (s0 & obs & flat0 & Hann & H0 & Hi0 & Hr0 & Hh & Hrun & Htk & Hhd & Hj & Hcz & Hgo).
  assert (Hg : ghost_arrive (EArrive id e) c = set_ghost c (c_ctl0 c) (c_trace c ++ [Arrive e])).
  { unfold ghost_arrive. rewrite Hc, N.eqb_refl. reflexivity. }
  rewrite Hg. exists s0, obs, flat0. cbn [c_ctl0 c_trace c_taken c_cause set_ghost].
  assert (Hcur : fs_with_q fs (rxq (apply_wev (EArrive id e) w) id) = arrive e (fs_with_q fs (rxq w id))).
  { cbn [apply_wev]. unfold arrive. cbn [st_q fs_with_q]. destruct (terminated (rxq w id)); [reflexivity|].
    rewrite rxq_set_same. reflexivity. }
  assert (Hact : FrameTrace.action_ok (Arrive e)).
  { destruct e; cbn; auto. }
  split; [destruct (sent_step_le x (EArrive id e)) as [_ Hi]; apply Hi; exact Hann|].
  split; [exact H0|]. split; [exact Hi0|]. split; [exact Hr0|]. split; [apply hist_ok_snoc; assumption|].
  split; [rewrite Hcur; apply run_snoc_arrive; exact Hrun|]. split; [exact Htk|]. split; [exact Hhd|].
  split.
  - (* the bookkeeping and the trace move together *)
    unfold joined in *. rewrite arrivals_snoc. cbn [sent_step].
    destruct (arrivals (c_trace c)) as [ab ae] eqn:Harr. cbn [fst snd] in *.
    destruct (q_end (st_q s0)) eqn:Hq0; inversion Hj as [[Hf He]]; rewrite He.
    + destruct ae.
      * destruct e as [b| |qe]; cbn [sn_flat sn_end qbytes end_of_ev fst snd];
          rewrite upd_same, ?Hf, ?app_nil_r, ?app_assoc, ?He; reflexivity.
      * rewrite Hf, He. reflexivity.
      * rewrite Hf, He. reflexivity.
    + rewrite Hf, He. reflexivity.
    + rewrite Hf, He. reflexivity.
  - split; [exact Hcz|].
    intros Hgt. destruct (Hgo Hgt) as (Hic & Hrc & Hfin). rewrite Hcur. split; [|auto].
    apply arrive_inv; assumption.
Qed.

Lemma uni_header_no_second flat ty sid rest :
  uni_header flat = Some (ty, sid, rest) -> has_second_varint ty = false -> sid = None.
Proof.
  unfold uni_header. destruct (rfc_take_varint flat) as [[t r1]|]; [|discriminate].
  destruct (has_second_varint t) eqn:H2.
  - destruct (rfc_take_varint r1) as [[i r2]|]; [|discriminate]. intros H; inversion H; subst. congruence.
  - intros H; inversion H; subst. reflexivity.
Qed.

Lemma into_frame_stream_inv a q :
  wf_bytes (ar_buf a) -> ar_eos a = false -> queue_ok q -> fs_inv (fs_with_q (into_frame_stream a) q).
Proof.
  intros Hw He Hq. constructor; cbn [st_buf st_q st_memo st_eos st_rem fs_with_q into_frame_stream].
  - destruct (ar_buf a) as [|b0 r] eqn:Hb; [apply chunks_ok_nil|].
    split; [constructor; [discriminate|constructor]|]. cbn [concat]. rewrite app_nil_r. exact Hw.
  - exact Hq.
  - exact I.
  - congruence.
  - congruence.
  - reflexivity.
Qed.

Lemma into_frame_stream_V a q : V (fs_with_q (into_frame_stream a) q) [] = view a q.
Proof.
  unfold V, view. cbn [st_buf st_q fs_with_q into_frame_stream]. rewrite app_nil_r, qbytes_chunks.
  destruct (ar_buf a); cbn [concat]; rewrite ?app_nil_r; reflexivity.
Qed.

(* claiming the control stream *)
Lemma ctl_claim c w x id a' q' sid :
  c_control c = None -> c_taken c = [] -> c_cause c = None -> In id (sn_ann x) ->
  uni_header (sn_flat x id) = Some (ST_CONTROL, sid, view a' q') ->
  wf_bytes (ar_buf a') -> ar_eos a' = false -> queue_ok q' -> q_end q' = sn_end x id -> rxq w id = q' ->
  ctl_inv2 true
    (set_ghost (set_control c (Some (id, into_frame_stream a'))) (Some (fs_with_q (into_frame_stream a') q')) [])
    w x.
Proof.
  intros Hn Ht Hcz Hin Hh Hw He Hq Hqe Hrx. unfold ctl_inv2. cbn [c_control set_ghost set_control set_slots].
  set (s0 := fs_with_q (into_frame_stream a') q').
  assert (Hs : sid = None) by (eapply uni_header_no_second; [exact Hh|reflexivity]).
  assert (Hi : fs_inv s0) by (apply into_frame_stream_inv; assumption).
  exists s0, [], (sn_flat x id). cbn [c_ctl0 c_trace c_taken c_cause set_ghost set_control set_slots].
  rewrite Hrx. fold s0.
  split; [exact Hin|].
  split; [reflexivity|]. split; [exact Hi|]. split; [reflexivity|]. split; [constructor|].
  split; [reflexivity|]. split; [rewrite Ht; reflexivity|].
  split; [unfold s0; rewrite into_frame_stream_V, <- Hs; exact Hh|].
  split.
  - unfold joined. cbn [arrivals fst snd]. unfold s0. cbn [st_q fs_with_q]. rewrite Hqe.
    destruct (sn_end x id); rewrite ?app_nil_r; reflexivity.
  - split; [intros z Hz; congruence|]. intros _. split; [exact Hi|]. split; reflexivity.
Qed.

(* polling it *)
Definition goes_on (r : poll (res fserr (option frame))) : bool :=
  match r with
  | Pending => true
  | Ready (Ok (Some f)) => match f with FData _ | FWebTransport _ => false | _ => true end
  | _ => false
  end.
Definition taken_by (c : conn) (r : poll (res fserr (option frame))) : conn :=
  match r with Ready (Ok (Some f)) => log_taken c f | _ => c end.

Definition cause_matches (z : cause) (r : poll (res fserr (option frame))) : Prop :=
  match z with
  | CzCtlClosed => r = Ready (Ok None)
  | CzCtlTruncated => r = Ready (Err FsUnexpectedEnd)
  | CzCtlProto k => exists fe, r = Ready (Err (FsProto k fe)) /\ map_ferr fe = Some (FsProto k fe)
  | CzCtlReset => exists q, r = Ready (Err (FsQuic q))
  | _ => True
  end.

Lemma ctl_poll c1 w1 x id fs r fs' c3 :
  c_control c1 = Some (id, fs) -> ctl_inv2 true c1 w1 x ->
  poll_next (fs_with_q fs (rxq w1 id)) = (r, fs') ->
  let c2 := taken_by (set_ghost (set_control c1 (Some (id, fs_with_q fs' []))) (c_ctl0 c1) (c_trace c1 ++ [CallAuto])) r in
  c_control c3 = c_control c2 -> c_ctl0 c3 = c_ctl0 c2 -> c_trace c3 = c_trace c2 -> c_taken c3 = c_taken c2 ->
  (forall z, c_cause c3 = Some z -> cause_matches z r) ->
  ctl_inv2 (goes_on r) c3 (set_rxq w1 id (st_q fs')) x /\
  fs_inv (fs_with_q fs (rxq w1 id)) /\ st_rem fs = 0 /\
  step_ok (spec_of (fs_with_q fs (rxq w1 id)) [] Open) (E (fs_with_q fs (rxq w1 id)) Open) [] Open (ONext r) fs'.
Proof.
  intros Hc Hinv Hpn c2 E1 E2 E3 E4 Hcz3. unfold ctl_inv2 in Hinv. rewrite Hc in Hinv.
  set (cur := fs_with_q fs (rxq w1 id)) in *.
  set (w2 := set_rxq w1 id (st_q fs')).
  destruct Hinv as (s0 & obs & flat0 & Hann & H0 & Hi0 & Hr0 & Hh & Hrun & Htk & Hhd & Hj & Hcz & Hgo).
  destruct (Hgo eq_refl) as (Hic & Hrc & Hfin).
  assert (Hrcur : st_rem cur = 0) by exact Hrc.
  assert (Hfut : fut_ok cur []) by (split; [constructor|reflexivity]).
  pose proof (poll_next_spec cur [] Open Hic Hrcur Hfut) as Hstep. rewrite Hpn in Hstep. cbn [fst snd] in Hstep.
  split; [|auto].
  assert (Hctl : c_control c2 = Some (id, fs_with_q fs' [])).
  { unfold c2, taken_by. destruct r as [[[f|]|e|n]|]; reflexivity. }
  unfold ctl_inv2. rewrite E1, Hctl.
  assert (Hcur' : fs_with_q (fs_with_q fs' []) (rxq w2 id) = fs').
  { unfold w2. rewrite rxq_set_same. apply fs_with_q_id. }
  exists s0, (obs ++ [ONext r]), flat0.
  assert (Hg0 : c_ctl0 c2 = c_ctl0 c1) by (unfold c2, taken_by; destruct r as [[[f|]|e|n]|]; reflexivity).
  assert (Hgt : c_trace c2 = c_trace c1 ++ [CallAuto]) by (unfold c2, taken_by; destruct r as [[[f|]|e|n]|]; reflexivity).
  rewrite E2, E3, E4, Hg0, Hgt, Hcur'.
  split; [exact Hann|].
  split; [exact H0|]. split; [exact Hi0|]. split; [exact Hr0|].
  split; [apply hist_ok_snoc; [exact Hh|exact I]|].
  split.
  { pose proof (run_snoc_call _ _ _ _ Hrun Hfin Hrcur) as Hx. unfold cur in Hx, Hpn. rewrite Hpn in Hx. exact Hx. }
  split.
  { rewrite toks_of_app, Htk. unfold c2, taken_by, toks_of. cbn [flat_map toks_of_obs].
    destruct r as [[[f|]|e|n]|]; cbn [c_taken log_taken set_ghost set_control set_slots toks_of_obs];
      rewrite ?app_nil_r, ?map_app; reflexivity. }
  split; [exact Hhd|].
  split; [unfold joined in *; rewrite arrivals_snoc_call; exact Hj|].
  split.
  { intros z Hz. specialize (Hcz3 z Hz). unfold cause_last. rewrite last_obs_app.
    destruct z; cbn [cause_matches] in Hcz3; try exact I.
    - destruct Hcz3 as [q ->]. eauto.
    - subst r. reflexivity.
    - subst r. reflexivity.
    - destruct Hcz3 as (fe & -> & Hmf). eauto. }
  intros Hgo'.
  assert (Hkeep : keeps_rem r = true).
  { unfold goes_on in Hgo'. destruct r as [[[f|]|e|n]|]; try discriminate; try reflexivity. destruct f; try discriminate; reflexivity. }
  split; [|split].
  - (* the state poll_next leaves satisfies the frame layer's invariant *)
    destruct r as [[[f|]|e|n]|]; try discriminate Hgo'.
    + inversion Hstep as [ | | f0 s1 Hnw Hcont Ho | x0 s1 Ho | | | | | | | | ]; subst.
      * destruct Hcont as (Hx & _). exact Hx.
      * discriminate Hgo'.
    + inversion Hstep as [s1 Hcont Hq Ho Hw | | | | | | | | | | | ]; subst. destruct Hcont as (Hx & _). exact Hx.
  - cbn [st_rem fs_with_q]. pose proof (poll_next_rem cur Hrcur) as Hx. unfold cur in Hx, Hpn. rewrite Hpn in Hx. cbn [fst snd] in Hx. auto.
  - rewrite existsb_app, Hfin. cbn [existsb orb]. rewrite orb_false_r.
    unfold goes_on in Hgo'. destruct r as [[[f|]|e|n]|]; try discriminate; try reflexivity.
    destruct f; try discriminate; reflexivity.
Qed.


(* ---------- the streams that left pending_recv_streams ---------- *)
Record seen_frozen (c : conn) (w : world) (x : sent) : Prop := {
  sf_res : forall id ty, In (id, Some ty) (c_seen c) ->
           In id (sn_ann x) /\ hdr_type x id = Some ty /\ (unknown_type ty -> exists code, In (id, code) (stops_of w));
  sf_drop : forall id, In (id, None) (c_seen c) ->
            In id (sn_ann x) /\ uni_header (sn_flat x id) = None /\ sn_end x id <> Open
}.
Record seen_live (P : list (N * arecv)) (c : conn) (w : world) (x : sent) : Prop := {
  sl_all : forall id, In id (sn_ann x) -> In id (waiting P w) \/ In id (map fst (c_seen c));
  sl_ctl : forall id, In (id, Some ST_CONTROL) (c_seen c) -> is_ctl c id;
  sl_enc1 : forall a b, In (a, Some ST_QPACK_ENCODER) (c_seen c) -> In (b, Some ST_QPACK_ENCODER) (c_seen c) -> a = b;
  sl_enc0 : c_enc c = false -> forall a, ~ In (a, Some ST_QPACK_ENCODER) (c_seen c);
  sl_dec1 : forall a b, In (a, Some ST_QPACK_DECODER) (c_seen c) -> In (b, Some ST_QPACK_DECODER) (c_seen c) -> a = b;
  sl_dec0 : c_dec c = false -> forall a, ~ In (a, Some ST_QPACK_DECODER) (c_seen c)
}.

Lemma seen_frozen_ext c c' w w' x :
  c_seen c' = c_seen c -> (forall e, In e (stops_of w) -> In e (stops_of w')) -> seen_frozen c w x -> seen_frozen c' w' x.
Proof.
  intros Hs Hst [F1 F2]. constructor; rewrite Hs; auto.
  intros id ty Hin. destruct (F1 id ty Hin) as (A & B & C). repeat split; auto.
  intros Hu. destruct (C Hu) as [code Hc]. exists code. auto.
Qed.

Lemma seen_live_ext P c c' w w' x :
  c_seen c' = c_seen c -> (forall id, is_ctl c id -> is_ctl c' id) -> c_enc c' = c_enc c -> c_dec c' = c_dec c ->
  w_incoming w' = w_incoming w -> seen_live P c w x -> seen_live P c' w' x.
Proof.
  intros Hs Hc He Hd Hi [L1 L2 L3 L4 L5 L6].
  assert (Hw : waiting P w' = waiting P w) by (unfold waiting; rewrite Hi; reflexivity).
  constructor; rewrite ?Hs, ?Hw, ?He, ?Hd; auto.
Qed.

(* a stream leaves the waiting set and is logged *)
Lemma in_seen_snoc (c : conn) id ty e : In e (c_seen (log_seen c id ty)) <-> In e (c_seen c) \/ e = (id, ty).
Proof. cbn [c_seen log_seen]. rewrite in_app_iff. cbn [In]. intuition. Qed.

Lemma seen_frozen_add c w x id ty :
  seen_frozen c w x -> In id (sn_ann x) ->
  match ty with
  | Some t => hdr_type x id = Some t /\ (unknown_type t -> exists code, In (id, code) (stops_of w))
  | None => uni_header (sn_flat x id) = None /\ sn_end x id <> Open
  end ->
  seen_frozen (log_seen c id ty) w x.
Proof.
  intros [F1 F2] Ha Hty. constructor.
  - intros j t Hin. apply in_seen_snoc in Hin. destruct Hin as [Hin|Heq]; [auto|]. inversion Heq; subst. tauto.
  - intros j Hin. apply in_seen_snoc in Hin. destruct Hin as [Hin|Heq]; [auto|]. inversion Heq; subst. tauto.
Qed.

Lemma hdr_type_of x id ty sid rest : uni_header (sn_flat x id) = Some (ty, sid, rest) -> hdr_type x id = Some ty.
Proof. unfold hdr_type. intros ->. reflexivity. Qed.

Definition just_polled (x : sent) (P : list (N * arecv)) : Prop :=
  forall id a, In (id, a) P -> uni_header (sn_flat x id) = None /\ sn_end x id = Open.

Lemma kind_other ty :
  match kind_assoc ty into_stream_arms with
  | UControl => ty = ST_CONTROL
  | UEncoder => ty = ST_QPACK_ENCODER
  | UDecoder => ty = ST_QPACK_DECODER
  | _ => ty <> ST_CONTROL /\ ty <> ST_QPACK_ENCODER /\ ty <> ST_QPACK_DECODER
  end.
Proof.
  unfold kind_assoc, into_stream_arms, st_CONTROL, st_PUSH, st_ENCODER, st_DECODER, st_WEBTRANSPORT_UNI,
    ST_CONTROL, ST_QPACK_ENCODER, ST_QPACK_DECODER.
  repeat match goal with |- context [if ?t =? ?k then _ else _] => destruct (N.eqb_spec t k); [subst; try reflexivity; repeat split; discriminate|] end.
  repeat split; assumption.
Qed.

Lemma seen_live_leave kept rest id (a : arecv) c c' w w' x ty :
  seen_live (kept ++ (id, a) :: rest) c w x ->
  c_seen c' = c_seen c ++ [(id, ty)] -> w_incoming w' = w_incoming w ->
  (forall j, is_ctl c j -> is_ctl c' j) ->
  (ty = Some ST_CONTROL -> is_ctl c' id) ->
  ((ty = Some ST_QPACK_ENCODER /\ c_enc c = false /\ c_enc c' = true) \/ (ty <> Some ST_QPACK_ENCODER /\ c_enc c' = c_enc c)) ->
  ((ty = Some ST_QPACK_DECODER /\ c_dec c = false /\ c_dec c' = true) \/ (ty <> Some ST_QPACK_DECODER /\ c_dec c' = c_dec c)) ->
  seen_live (kept ++ rest) c' w' x.
Proof.
  intros [L1 L2 L3 L4 L5 L6] Hs Hi Hc Hct He Hd.
  assert (Hin : forall e, In e (c_seen c') <-> In e (c_seen c) \/ e = (id, ty)).
  { intros e. rewrite Hs, in_app_iff. cbn [In]. intuition. }
  constructor.
  - intros j Hj. destruct (L1 j Hj) as [Hw|Hsn].
    + rewrite waiting_mid in Hw. apply in_app_iff in Hw. destruct Hw as [Hw|[Heq|Hw]].
      * left. rewrite waiting_drop. unfold waiting in *. rewrite Hi. apply in_app_iff. auto.
      * right. subst j. apply in_map_iff. exists (id, ty). split; [reflexivity|]. apply Hin. auto.
      * left. rewrite waiting_drop. apply in_app_iff. auto.
    + right. apply in_map_iff in Hsn. destruct Hsn as (e & He1 & He2). apply in_map_iff. exists e. split; [exact He1|]. apply Hin. auto.
  - intros j Hj. apply Hin in Hj. destruct Hj as [Hj|Heq]; [apply Hc; apply L2; exact Hj|]. inversion Heq; subst. auto.
  - intros p q Hp Hq. apply Hin in Hp. apply Hin in Hq.
    destruct He as [(Ht & He0 & _)|[Hnt _]].
    + destruct Hp as [Hp|Hp]; [exfalso; exact (L4 He0 p Hp)|]. destruct Hq as [Hq|Hq]; [exfalso; exact (L4 He0 q Hq)|]. congruence.
    + destruct Hp as [Hp|Hp]; [|inversion Hp; congruence]. destruct Hq as [Hq|Hq]; [|inversion Hq; congruence]. auto.
  - intros Hf p Hp. apply Hin in Hp. destruct He as [(Ht & He0 & He1)|[Hnt Hsame]]; [congruence|].
    destruct Hp as [Hp|Hp]; [|inversion Hp; congruence]. rewrite Hsame in Hf. exact (L4 Hf p Hp).
  - intros p q Hp Hq. apply Hin in Hp. apply Hin in Hq.
    destruct Hd as [(Ht & He0 & _)|[Hnt _]].
    + destruct Hp as [Hp|Hp]; [exfalso; exact (L6 He0 p Hp)|]. destruct Hq as [Hq|Hq]; [exfalso; exact (L6 He0 q Hq)|]. congruence.
    + destruct Hp as [Hp|Hp]; [|inversion Hp; congruence]. destruct Hq as [Hq|Hq]; [|inversion Hq; congruence]. auto.
  - intros Hf p Hp. apply Hin in Hp. destruct Hd as [(Ht & He0 & He1)|[Hnt Hsame]]; [congruence|].
    destruct Hp as [Hp|Hp]; [|inversion Hp; congruence]. rewrite Hsame in Hf. exact (L6 Hf p Hp).
Qed.

Lemma seen_live_keep kept rest id (a a' : arecv) c w w' x :
  seen_live (kept ++ (id, a) :: rest) c w x -> w_incoming w' = w_incoming w ->
  seen_live (kept ++ (id, a') :: rest) c w' x.
Proof.
  intros [L1 L2 L3 L4 L5 L6] Hi. constructor; auto.
  intros j Hj. destruct (L1 j Hj) as [Hw|Hs]; [left|right; exact Hs].
  rewrite waiting_mid in *. unfold waiting in *. rewrite Hi. exact Hw.
Qed.

Lemma par_iter_bytes wt x : forall todo kept c w wr r c' w' wr',
  par_iter wt todo kept (c, w, wr) = (r, (c', w', wr')) ->
  c_err c = None -> c_cause c = None ->
  live_p (kept ++ todo) c w x -> frozen c w x -> just_polled x kept -> ctl_inv2 true c w x ->
  seen_frozen c w x -> seen_live (kept ++ todo) c w x ->
  frozen c' w' x /\ ctl_inv2 true c' w' x /\ seen_frozen c' w' x /\
  (c_err c' = None -> live c' w' x /\ just_polled x (c_pending c') /\ seen_live (c_pending c') c' w' x).
Proof.
  induction todo as [|[id a] rest IH]; intros kept c w wr r c' w' wr' H He Hcn Hl Hf Hk Hci Hsf Hsl; cbn [par_iter] in H.
  - inversion H; subst. rewrite app_nil_r in Hl, Hsl. split; [|split; [|split]].
    + eapply frozen_ext; [| |exact Hf]; reflexivity.
    + eapply ctl_inv2_ext; [| | | | | |exact Hci]; auto.
    + eapply seen_frozen_ext; [| |exact Hsf]; auto.
    + intros _. split; [|split; [exact Hk|]].
      * unfold live. cbn [c_pending set_pending]. eapply live_p_ext; [| | |exact Hl]; reflexivity.
      * cbn [c_pending set_pending]. eapply seen_live_ext; [| | | | |exact Hsl]; auto.
  - destruct (lv_pend _ _ _ _ Hl id a) as [Hh Heos].
    { apply in_app_iff. right. left. reflexivity. }
    destruct (poll_type_cases a (rxq w id) (sn_flat x id) Hh Heos) as (p & a' & q' & Hpt & (pre & Hq & Hpre) & Hcase).
    rewrite Hpt in H.
    pose proof (head_facts kept rest id a c w x Hl) as (Hann & Hnw & Hnd & Hnc & Hninc & Hns).
    pose proof (live_drop kept rest id a c w x pre q' Hl Hq Hpre) as Hdrop.
    destruct (q'_good kept rest id a c w x pre q' Hl Hq Hpre) as [[Hqok Hrok] Hqe'].
    set (w1 := set_rxq w id q') in *.
    assert (Hst1 : stops_of w1 = stops_of w) by reflexivity.
    assert (Hother : forall j, j <> id -> rxq w1 j = rxq w j) by (intros j Hj; apply rxq_set_other; exact Hj).
    (* the logged connection state *)
    assert (Hlog : forall ty0, let cs := log_seen c id ty0 in
              live_p (kept ++ rest) cs w1 x /\ frozen cs w1 x /\ ctl_inv2 true cs w1 x /\ c_err cs = None /\ c_cause cs = None).
    { intros ty0 cs. split; [eapply live_p_ext; [| | |exact Hdrop]; reflexivity|].
      split; [eapply frozen_ext; [| |exact Hf]; reflexivity|].
      split; [|auto].
      eapply ctl_inv2_ext; [reflexivity|reflexivity|reflexivity|reflexivity|auto| |exact Hci].
      intros j fs0 Hj. apply Hother. intros ->. apply Hnc. exists fs0. exact Hj. }
    destruct p as [[u|e|n]|].
    + (* the header is complete *)
      destruct Hcase as (ty & sid & rst & Hhd & Hty & Hsid & Hv & Hw & Heos').
      rewrite (into_stream_kind_ok a' ty sid rst _ Hhd Hty Hsid), Hty in H.
      pose proof (hdr_type_of x id ty sid rst Hhd) as Htype.
      set (cs := log_seen c id (Some ty)) in *.
      destruct (Hlog (Some ty)) as (Hdrop' & Hf' & Hci' & He' & Hcn'). fold cs in Hdrop', Hf', Hci', He', Hcn'.
      pose proof (kind_other ty) as Hko.
      (* generic continuation: the state (c2, w2) handed to the rest of the loop *)
      assert (Hnext : forall c2 w2,
                par_iter wt rest kept (c2, w2, wr) = (r, (c', w', wr')) ->
                c_err c2 = None -> c_cause c2 = None -> live_p (kept ++ rest) c2 w2 x -> frozen c2 w2 x ->
                ctl_inv2 true c2 w2 x -> seen_frozen c2 w2 x -> seen_live (kept ++ rest) c2 w2 x ->
                frozen c' w' x /\ ctl_inv2 true c' w' x /\ seen_frozen c' w' x /\
                (c_err c' = None -> live c' w' x /\ just_polled x (c_pending c') /\ seen_live (c_pending c') c' w' x)).
      { intros c2 w2 Hp A1 A2 A3 A4 A5 A6 A7. eapply IH; eauto. }
      (* a failure: the connection dies, the frozen facts stay *)
      assert (Hdead : forall z code, @fail unit z code (set_pending cs (kept ++ rest), w1, wr) = (r, (c', w', wr')) ->
                ctl_cause z = false -> z <> CzHeaderInternal ->
                (z = CzTwoControl -> two_of x ST_CONTROL) -> (z = CzTwoEncoder -> two_of x ST_QPACK_ENCODER) ->
                (z = CzTwoDecoder -> two_of x ST_QPACK_DECODER) -> (unknown_type ty -> False) ->
                frozen c' w' x /\ ctl_inv2 true c' w' x /\ seen_frozen c' w' x /\
                (c_err c' = None -> live c' w' x /\ just_polled x (c_pending c') /\ seen_live (c_pending c') c' w' x)).
      { intros z code Hfl Hzc Hzi T1 T2 T3 Hnu.
        pose proof Hfl as Hfl2. rewrite fail_spec in Hfl2. cbn [c_err set_pending] in Hfl2. rewrite He' in Hfl2. inversion Hfl2; subst r c' w' wr'.
        eapply frozen_fail in Hfl; [| |eapply frozen_ext; [| |exact Hf']; reflexivity| | | |]; try exact He'; auto.
        destruct Hfl as [Hfz Hne]. split; [exact Hfz|]. split; [|split; [|intros Hx; congruence]].
        - eapply (ctl_inv2_ext true cs _ w1); [reflexivity|reflexivity|reflexivity|reflexivity| | |exact Hci'].
          + cbn [c_cause set_err set_pending]. intros z0 Hz0 Hc0. inversion Hz0; subst. congruence.
          + intros j fs0 _. reflexivity.
        - apply (seen_frozen_ext cs _ w1); [reflexivity|auto|].
          apply seen_frozen_add; [eapply seen_frozen_ext; [| |exact Hsf]; auto|exact Hann|]. split; [exact Htype|]. intros Hu. destruct (Hnu Hu). }
      assert (Hsf1 : (unknown_type ty -> False) -> seen_frozen cs w1 x).
      { intros Hnu. apply seen_frozen_add; [eapply seen_frozen_ext; [| |exact Hsf]; auto|exact Hann|].
        split; [exact Htype|]. intros Hu. destruct (Hnu Hu). }
      destruct (kind_assoc ty into_stream_arms) eqn:Hkind;
        change (c_control cs) with (c_control c) in H; change (c_enc cs) with (c_enc c) in H; change (c_dec cs) with (c_dec c) in H.
      * (* control *)
        subst ty.
        destruct (c_control c) as [[id0 fs0]|] eqn:Hctl.
        -- eapply Hdead; [exact H|reflexivity|discriminate| |discriminate|discriminate|unfold unknown_type; congruence].
           intros _. destruct (lv_ctl _ _ _ _ Hl id0) as (Ha0 & Hn0 & Ht0); [exists fs0; exact Hctl|].
           exists id0, id. repeat split; auto. intros ->. apply Hn0. unfold waiting. apply in_app_iff. right. apply in_ids_mid.
        -- eapply Hnext; [exact H|exact He'|exact Hcn'| | | | |].
           ++ eapply live_claim_control; [exact Hdrop'|exact Hctl|reflexivity|reflexivity|reflexivity|exact Hann|exact Hnw|exact Htype].
           ++ eapply frozen_ext; [| |exact Hf']; reflexivity.
           ++ unfold ctl_inv2 in Hci. rewrite Hctl in Hci. destruct Hci as [Hci _].
              apply (ctl_claim cs w1 x id a' q' sid); auto.
              ** rewrite <- Hv in Hhd. exact Hhd.
              ** apply rxq_set_same.
           ++ eapply seen_frozen_ext; [| |apply Hsf1; unfold unknown_type; congruence]; auto.
           ++ eapply (seen_live_leave kept rest id a c); [exact Hsl|reflexivity|reflexivity| | | |].
              ** intros j [fj Hj]. congruence.
              ** intros _. eexists. reflexivity.
              ** right. split; [discriminate|reflexivity].
              ** right. split; [discriminate|reflexivity].
      * (* push *)
        destruct Hko as (K1 & K2 & K3).
        eapply Hnext; [exact H|exact He'|exact Hcn'|exact Hdrop'|exact Hf'|exact Hci'| |].
        -- apply Hsf1. unfold unknown_type. congruence.
        -- eapply (seen_live_leave kept rest id a c); [exact Hsl|reflexivity|reflexivity|auto| | |].
           ++ intros Hx; inversion Hx; congruence.
           ++ right. split; [intros Hx; inversion Hx; congruence|reflexivity].
           ++ right. split; [intros Hx; inversion Hx; congruence|reflexivity].
      * (* encoder *)
        subst ty.
        destruct (c_enc c) eqn:Henc.
        -- eapply Hdead; [exact H|reflexivity|discriminate|discriminate| |discriminate|unfold unknown_type; congruence].
           intros _. destruct (lv_enc _ _ _ _ Hl Henc) as (id0 & Ha0 & Hn0 & Ht0).
           exists id0, id. repeat split; auto. intros ->. apply Hn0. unfold waiting. apply in_app_iff. right. apply in_ids_mid.
        -- eapply Hnext; [exact H|exact He'|exact Hcn'| | | | |].
           ++ eapply live_claim_enc; [exact Hdrop'|reflexivity|reflexivity|exact Hann|exact Hnw|exact Htype].
           ++ eapply frozen_ext; [| |exact Hf']; reflexivity.
           ++ eapply ctl_inv2_ext; [| | | | | |exact Hci']; auto.
           ++ eapply seen_frozen_ext; [| |apply Hsf1; unfold unknown_type; congruence]; auto.
           ++ eapply (seen_live_leave kept rest id a c); [exact Hsl|reflexivity|reflexivity|auto| | |].
              ** discriminate.
              ** left. auto.
              ** right. split; [discriminate|reflexivity].
      * (* decoder *)
        subst ty.
        destruct (c_dec c) eqn:Hdec.
        -- eapply Hdead; [exact H|reflexivity|discriminate|discriminate|discriminate| |unfold unknown_type; congruence].
           intros _. destruct (lv_dec _ _ _ _ Hl Hdec) as (id0 & Ha0 & Hn0 & Ht0).
           exists id0, id. repeat split; auto. intros ->. apply Hn0. unfold waiting. apply in_app_iff. right. apply in_ids_mid.
        -- eapply Hnext; [exact H|exact He'|exact Hcn'| | | | |].
           ++ eapply live_claim_dec; [exact Hdrop'|reflexivity|reflexivity|exact Hann|exact Hnw|exact Htype].
           ++ eapply frozen_ext; [| |exact Hf']; reflexivity.
           ++ eapply ctl_inv2_ext; [| | | | | |exact Hci']; auto.
           ++ eapply seen_frozen_ext; [| |apply Hsf1; unfold unknown_type; congruence]; auto.
           ++ eapply (seen_live_leave kept rest id a c); [exact Hsl|reflexivity|reflexivity|auto| | |].
              ** discriminate.
              ** right. split; [discriminate|reflexivity].
              ** left. auto.
      * (* WebTransport *)
        destruct Hko as (K1 & K2 & K3).
        assert (Hslw : forall c2, c_seen c2 = c_seen cs -> c_control c2 = c_control c -> c_enc c2 = c_enc c -> c_dec c2 = c_dec c ->
                  seen_live (kept ++ rest) c2 w1 x).
        { intros c2 E1 E2 E3 E4. eapply (seen_live_leave kept rest id a c); [exact Hsl|exact E1|reflexivity| | | |].
          - intros j [fj Hj]. exists fj. congruence.
          - intros Hx; inversion Hx; congruence.
          - right. split; [intros Hx; inversion Hx; congruence|exact E3].
          - right. split; [intros Hx; inversion Hx; congruence|exact E4]. }
        destruct wt.
        -- eapply Hnext; [exact H|exact He'|exact Hcn'| | | | |].
           ++ eapply live_p_ext; [| | |exact Hdrop']; reflexivity.
           ++ eapply frozen_ext; [| |exact Hf']; reflexivity.
           ++ eapply ctl_inv2_ext; [| | | | | |exact Hci']; auto.
           ++ eapply seen_frozen_ext; [| |apply Hsf1; unfold unknown_type; congruence]; auto.
           ++ apply Hslw; reflexivity.
        -- eapply Hnext; [exact H|exact He'|exact Hcn'|exact Hdrop'|exact Hf'|exact Hci'| |].
           ++ apply Hsf1. unfold unknown_type. congruence.
           ++ apply Hslw; reflexivity.
      * (* unknown type: refused *)
        destruct Hko as (K1 & K2 & K3).
        eapply Hnext; [exact H|exact He'|exact Hcn'| | | | |].
        -- apply live_add_stop; [exact Hdrop'|exact Hnw].
        -- eapply frozen_add_stop; eauto.
        -- eapply ctl_inv2_ext; [| | | | | |exact Hci']; auto.
        -- apply seen_frozen_add; [eapply seen_frozen_ext; [| |exact Hsf]; [reflexivity|]|exact Hann|].
           ++ intros e0 He0. unfold stops_of, add_stop. cbn. apply in_app_iff. left. exact He0.
           ++ split; [exact Htype|]. intros _. exists code_par_stop_unknown. unfold stops_of, add_stop. cbn. apply in_app_iff. right. left. reflexivity.
        -- eapply (seen_live_leave kept rest id a c); [exact Hsl|reflexivity|reflexivity|auto| | |].
           ++ intros Hx; inversion Hx; congruence.
           ++ right. split; [intros Hx; inversion Hx; congruence|reflexivity].
           ++ right. split; [intros Hx; inversion Hx; congruence|reflexivity].
    + destruct e as [|code|qe]; try contradiction.
      (* ended before the header was complete: dropped *)
      destruct Hcase as [Hnone Hterm].
      destruct (Hlog None) as (Hdrop' & Hf' & Hci' & He' & Hcn').
      eapply IH in H; [exact H|exact He'|exact Hcn'|exact Hdrop'|exact Hf'|exact Hk|exact Hci'| |].
      * apply seen_frozen_add; [eapply seen_frozen_ext; [| |exact Hsf]; auto|exact Hann|].
        split; [exact Hnone|]. destruct (lv_q _ _ _ _ Hl id Hnc) as [_ Hqe]. rewrite <- Hqe.
        intros Ho. apply terminated_qend' in Ho. congruence.
      * eapply (seen_live_leave kept rest id a c); [exact Hsl|reflexivity|reflexivity|auto| | |].
        -- discriminate.
        -- right. split; [discriminate|reflexivity].
        -- right. split; [discriminate|reflexivity].
    + contradiction.
    + (* still waiting *)
      destruct Hcase as (Hh' & Heos' & Hnone & Hterm).
      eapply IH in H; [exact H|exact He|exact Hcn| | | | | |].
      * rewrite <- app_assoc. cbn [app]. eapply live_keep; eauto.
      * eapply frozen_ext; [| |exact Hf]; reflexivity.
      * intros j b Hin. apply in_app_iff in Hin. destruct Hin as [Hin|[Heq|[]]]; [exact (Hk j b Hin)|].
        inversion Heq; subst. split; [exact Hnone|].
        destruct (lv_q _ _ _ _ Hl j Hnc) as [_ Hqe]. rewrite <- Hqe. apply terminated_qend'. exact Hterm.
      * eapply ctl_inv2_ext; [reflexivity|reflexivity|reflexivity|reflexivity|auto| |exact Hci].
        intros j fs0 Hj. apply Hother. intros ->. apply Hnc. exists fs0. exact Hj.
      * eapply seen_frozen_ext; [| |exact Hsf]; auto.
      * rewrite <- app_assoc. cbn [app]. eapply seen_live_keep; [exact Hsl|reflexivity].
Qed.

Lemma NoDup_app_swap {A} (a b : list A) : NoDup (a ++ b) -> NoDup (b ++ a).
Proof.
  induction a as [|x a IH]; cbn [app]; intros H; [rewrite app_nil_r; exact H|].
  inversion H as [|y l Hx Hn]; subst. apply NoDup_insert; [apply IH; exact Hn|].
  intros Hi. apply Hx. apply in_app_iff. apply in_app_iff in Hi. tauto.
Qed.

Lemma poll_accept_recv_bytes wt x c w wr r c' w' wr' :
  poll_accept_recv wt (c, w, wr) = (r, (c', w', wr')) ->
  c_err c = None -> c_cause c = None -> live c w x -> frozen c w x -> ctl_inv2 true c w x ->
  seen_frozen c w x -> seen_live (c_pending c) c w x ->
  frozen c' w' x /\ ctl_inv2 true c' w' x /\ seen_frozen c' w' x /\
  (c_err c' = None -> live c' w' x /\ just_polled x (c_pending c') /\ seen_live (c_pending c') c' w' x).
Proof.
  intros H He Hcn Hl Hf Hci Hsf Hsl. unfold poll_accept_recv in H. rewrite He in H.
  set (p := c_pending c ++ map (fun id => (id, ar_new)) (w_incoming w)) in *.
  eapply (par_iter_bytes wt x p []) in H; [exact H|exact He|exact Hcn| | | | | |].
  4:{ eapply ctl_inv2_ext; [| | | | | |exact Hci]; auto. }
  - cbn [app]. destruct Hl as [L1 L2 L3 L4 L5 L6 L7 L8 L9 L10].
    assert (Hids : ids_of p = ids_of (c_pending c) ++ w_incoming w).
    { unfold p, ids_of. rewrite map_app, map_map. cbn [fst]. rewrite map_id. reflexivity. }
    assert (Hwt : forall j, In j (waiting p (set_incoming w [])) <-> In j (waiting (c_pending c) w)).
    { intros j. unfold waiting. cbn [w_incoming set_incoming app]. rewrite Hids, !in_app_iff. tauto. }
    constructor; cbn [c_enc c_dec set_pending]; auto.
    * intros j Hj. change (rxq (set_incoming w []) j) with (rxq w j). apply L2. left.
      destruct Hj as [Hj|Hj]; [exact Hj|destruct Hj].
    * unfold waiting. cbn [w_incoming set_incoming app]. rewrite Hids. apply NoDup_app_swap. exact L4.
    * intros j Hj. apply L5. apply Hwt. exact Hj.
    * intros j a Hin. unfold p in Hin. apply in_app_iff in Hin. destruct Hin as [Hin|Hin]; [apply L6; exact Hin|].
      apply in_map_iff in Hin. destruct Hin as (j0 & Heq & Hin). inversion Heq; subst.
      assert (Hn : ~ is_ctl c j).
      { intros Hc. destruct (L7 j Hc) as (_ & Hn & _). apply Hn. unfold waiting. apply in_app_iff. auto. }
      destruct (L1 j Hn) as [[Hqo Hro] _]. split; [|reflexivity].
      unfold hdr_inv, memo_ok. cbn [ar_buf ar_memo ar_sid ar_ty ar_new]. repeat split; auto.
      -- constructor.
      -- unfold view. cbn [ar_buf ar_new app]. rewrite <- qbytes_chunks. apply L2. auto.
    * intros j Hc. destruct (L7 j Hc) as (H1 & H2 & H3). repeat split; auto. rewrite Hwt. exact H2.
    * intros Hx. destruct (L8 Hx) as (j & H1 & H2 & H3). exists j. repeat split; auto. rewrite Hwt. exact H2.
    * intros Hx. destruct (L9 Hx) as (j & H1 & H2 & H3). exists j. repeat split; auto. rewrite Hwt. exact H2.
    * intros j code Hs. rewrite Hwt. apply (L10 j code). exact Hs.
  - eapply frozen_ext; [| |exact Hf]; reflexivity.
  - intros j a [].
  - eapply seen_frozen_ext; [| |exact Hsf]; auto.
  - destruct Hsl as [S1 S2 S3 S4 S5 S6]. constructor; cbn [c_seen c_enc c_dec set_pending]; auto.
    intros j Hj. destruct (S1 j Hj) as [Hw|Hs]; [left|right; exact Hs].
    unfold waiting in *. cbn [w_incoming set_incoming app].
    unfold p, ids_of. rewrite map_app, map_map. cbn [fst]. rewrite map_id.
    apply in_app_iff in Hw. apply in_app_iff. unfold ids_of in Hw. tauto.
Qed.


(* ====================================================================================== *)
(* poll_control and the role's driver at byte level                                       *)
(* ====================================================================================== *)
(* the receive side of the world, as far as the invariants read it *)
Definition wsame (w w' : world) : Prop :=
  w_rx w' = w_rx w /\ w_incoming w' = w_incoming w /\ stops_of w' = stops_of w.
Lemma wsame_refl w : wsame w w.
Proof. repeat split. Qed.
Lemma wsame_trans a b c : wsame a b -> wsame b c -> wsame a c.
Proof. intros (A1 & A2 & A3) (B1 & B2 & B3). repeat split; congruence. Qed.
Lemma wsame_rxq w w' j : wsame w w' -> rxq w' j = rxq w j.
Proof. intros (H & _). unfold rxq. rewrite H. reflexivity. Qed.

Lemma open_send_wsame w id w' : open_send w = Some (id, w') -> wsame w w'.
Proof. unfold open_send. destruct (w_credit w =? 0); [discriminate|]. intros H; inversion H; subst. repeat split. Qed.
Lemma poll_ready_wsame id wr w r wr' w' : poll_ready id wr w = (r, wr', w') -> wsame w w'.
Proof.
  unfold poll_ready. destruct (assoc id wr) as [[lo hi]|]; [|intros H; inversion H; subst; apply wsame_refl].
  destruct (assoc id (w_pstop w)); [intros H; inversion H; subst; apply wsame_refl|].
  destruct (tx_budget (tx_of w id)); [|intros H; inversion H; subst; apply wsame_refl].
  destruct (hi <=? n); [intros H; inversion H; subst; repeat split|].
  destruct (n + tx_slack (tx_of w id) <? lo); intros H; inversion H; subst; repeat split.
Qed.

Lemma grease_finish_wsame c w wr r c' w' wr' : grease_finish (c, w, wr) = (r, (c', w', wr')) -> wsame w w'.
Proof.
  unfold grease_finish. destruct (c_gstep c); try (intros H; inversion H; subst; repeat split; fail).
  destruct (assoc (c_gid c) (w_finp w)) as [[|p]|]; intros H; inversion H; subst; repeat split.
Qed.
Lemma grease_ready_wsame c w wr r c' w' wr' : grease_ready (c, w, wr) = (r, (c', w', wr')) -> wsame w w'.
Proof.
  unfold grease_ready. destruct (c_gstep c); try apply grease_finish_wsame.
  destruct (poll_ready (c_gid c) wr w) as [[x wr1] w1] eqn:Hp. apply poll_ready_wsame in Hp.
  destruct x; intros H.
  - apply grease_finish_wsame in H. eapply wsame_trans; eauto.
  - inversion H; subst. exact Hp.
  - inversion H; subst. exact Hp.
  - inversion H; subst. exact Hp.
Qed.
Lemma grease_send_wsame c w wr r c' w' wr' : grease_send (c, w, wr) = (r, (c', w', wr')) -> wsame w w'.
Proof. unfold grease_send. destruct (c_gstep c); apply grease_ready_wsame. Qed.
Lemma poll_grease_wsame c w wr r c' w' wr' : poll_grease_stream (c, w, wr) = (r, (c', w', wr')) -> wsame w w'.
Proof.
  unfold poll_grease_stream. destruct (c_gstep c); try apply grease_send_wsame.
  destruct (open_send w) as [[id w1]|] eqn:Ho.
  - apply open_send_wsame in Ho. intros H. apply grease_send_wsame in H. eapply wsame_trans; eauto.
  - intros H; inversion H; subst. apply wsame_refl.
Qed.

(* the parts of the connection the stream-level invariants read *)
Definition stream_part (c : conn) :=
  (c_pending c, c_control c, c_enc c, c_dec c, c_ctl0 c, c_trace c, c_taken c, c_seen c).

Lemma after_frame_parts f c w wr r c' w' wr' :
  after_frame f (c, w, wr) = (r, (c', w', wr')) ->
  stream_part c' = stream_part c /\ wsame w w' /\ c_cause c' = c_cause c /\ c_err c' = c_err c.
Proof.
  intros H. pose proof H as H2. apply after_frame_spec in H. destruct H as (c1 & (gf & st & gid & ->) & Hr).
  assert (Hw : wsame w w').
  { unfold after_frame, hand in H2. destruct (c_gflag c).
    - destruct (poll_grease_stream (c, w, wr)) as [g [[cc ww] wwr]] eqn:Hg. apply poll_grease_wsame in Hg.
      change grease_pending_propagates with false in H2. destruct g; inversion H2; subst; exact Hg.
    - inversion H2; subst. apply wsame_refl. }
  destruct Hr as [[-> ->]|[-> ->]]; (split; [reflexivity|split; [exact Hw|split; reflexivity]]).
Qed.

Lemma fail_parts {A} z code c w wr (r : pres A) c' w' wr' :
  c_err c = None -> @fail A z code (c, w, wr) = (r, (c', w', wr')) ->
  stream_part c' = stream_part c /\ wsame w w' /\ c_cause c' = Some z /\ c_err c' = Some code /\ r = PErr code.
Proof. intros He H. rewrite fail_spec, He in H. inversion H; subst. repeat split. Qed.

Lemma control_frame_parts f c w wr r c' w' wr' :
  c_err c = None -> control_frame f (c, w, wr) = (r, (c', w', wr')) ->
  stream_part c' = stream_part c /\ wsame w w' /\
  ((c_cause c' = c_cause c /\ c_err c' = None /\ (r = PReady f \/ r = PIndet)) \/
   (c_cause c' = Some (CzFrame f) /\ exists e, r = PErr e /\ c_err c' = Some e)).
Proof.
  intros He H. unfold control_frame in H.
  assert (Hf : forall code, @fail frame (CzFrame f) code (c, w, wr) = (r, (c', w', wr')) ->
          stream_part c' = stream_part c /\ wsame w w' /\
          ((c_cause c' = c_cause c /\ c_err c' = None /\ (r = PReady f \/ r = PIndet)) \/
           (c_cause c' = Some (CzFrame f) /\ exists e, r = PErr e /\ c_err c' = Some e))).
  { intros code Hx. apply fail_parts in Hx; [|exact He]. destruct Hx as (A & B & C & D & E).
    split; [exact A|]. split; [exact B|]. right. split; [exact C|]. exists code. auto. }
  assert (Ha : forall c0, stream_part c0 = stream_part c -> c_cause c0 = c_cause c -> c_err c0 = None ->
          after_frame f (c0, w, wr) = (r, (c', w', wr')) ->
          stream_part c' = stream_part c /\ wsame w w' /\
          ((c_cause c' = c_cause c /\ c_err c' = None /\ (r = PReady f \/ r = PIndet)) \/
           (c_cause c' = Some (CzFrame f) /\ exists e, r = PErr e /\ c_err c' = Some e))).
  { intros c0 A B C Hx. pose proof Hx as Hy. apply after_frame_parts in Hx. destruct Hx as (P1 & P2 & P3 & P4).
    apply after_frame_spec in Hy. destruct Hy as (cc & _ & Hr).
    split; [congruence|]. split; [exact P2|]. left. split; [congruence|]. split; [congruence|].
    destruct Hr as [[-> _]|[-> _]]; auto. }
  destruct f; try (destruct (c_got c); cbn [negb] in H; [destruct (passes _ pc_pass_through); [apply Ha in H; auto|apply Hf in H; auto]|apply Hf in H; auto]).
  destruct (c_got c); [apply Hf in H; auto|apply Ha in H; auto].
Qed.

Lemma live_p_ext2 P c c' w w' x :
  (forall id, is_ctl c' id <-> is_ctl c id) -> c_enc c' = c_enc c -> c_dec c' = c_dec c -> wsame w w' ->
  live_p P c w x -> live_p P c' w' x.
Proof.
  intros Hc H2 H3 Hw Hl.
  assert (Hl1 : live_p P c w' x).
  { destruct Hw as (A & B & C). apply (live_world_ext P c w w' x); auto. intros j. unfold rxq. rewrite A. reflexivity. }
  destruct Hl1 as [L1 L2 L3 L4 L5 L6 L7 L8 L9 L10].
  constructor; auto.
  - intros id Hn. apply L1. intros Hx. apply Hn. apply Hc. exact Hx.
  - intros id Hx. apply L7. apply Hc. exact Hx.
  - rewrite H2. exact L8.
  - rewrite H3. exact L9.
Qed.

Lemma live_ctl_queue P c w x id q : is_ctl c id -> live_p P c w x -> live_p P c (set_rxq w id q) x.
Proof.
  intros Hc [L1 L2 L3 L4 L5 L6 L7 L8 L9 L10]. destruct (L7 id Hc) as (Ha & Hnw & _).
  constructor; auto.
  - intros j Hn. assert (Hj : j <> id) by (intros ->; exact (Hn Hc)). rewrite rxq_set_other by exact Hj. auto.
  - intros j Hu. destruct (N.eq_dec j id) as [->|Hj].
    + exfalso. destruct Hu as [Hu|Hu]; [exact (Hu Ha)|]. apply Hnw. unfold waiting. apply in_app_iff. auto.
    + rewrite rxq_set_other by exact Hj. auto.
  - intros j a Hin. assert (Hj : j <> id).
    { intros ->. apply Hnw. unfold waiting, ids_of. apply in_app_iff. right. apply in_map_iff. exists (id, a). auto. }
    rewrite rxq_set_other by exact Hj. auto.
Qed.

Lemma stream_part_inv c c' :
  stream_part c' = stream_part c ->
  c_pending c' = c_pending c /\ c_control c' = c_control c /\ c_enc c' = c_enc c /\ c_dec c' = c_dec c /\
  c_ctl0 c' = c_ctl0 c /\ c_trace c' = c_trace c /\ c_taken c' = c_taken c /\ c_seen c' = c_seen c.
Proof. unfold stream_part. intros H. inversion H. auto 10. Qed.

(* the log of the streams that left pending_recv_streams, with the same reading *)
Definition sgood (c : conn) (w : world) (x : sent) : Prop :=
  seen_frozen c w x /\ (c_err c = None -> seen_live (c_pending c) c w x).
Lemma sgood_ext c c' w w' x :
  c_seen c' = c_seen c -> c_pending c' = c_pending c -> (forall id, is_ctl c id -> is_ctl c' id) ->
  c_enc c' = c_enc c -> c_dec c' = c_dec c -> w_incoming w' = w_incoming w -> stops_of w' = stops_of w ->
  (c_err c' = None -> c_err c = None) -> sgood c w x -> sgood c' w' x.
Proof.
  intros H1 H2 H3 H4 H5 H6 H7 H8 [A B]. split.
  - eapply seen_frozen_ext; [exact H1| |exact A]. rewrite H7. auto.
  - intros He. rewrite H2. eapply seen_live_ext; [exact H1|exact H3|exact H4|exact H5|exact H6|]. auto.
Qed.
Lemma sgood_parts c c' w w' x :
  stream_part c' = stream_part c -> wsame w w' -> (c_err c' = None -> c_err c = None) -> sgood c w x -> sgood c' w' x.
Proof.
  intros Hp (W1 & W2 & W3) He. apply stream_part_inv in Hp. destruct Hp as (A & B & C & D & _ & _ & _ & S).
  apply sgood_ext; auto. intros id. unfold is_ctl. rewrite B. auto.
Qed.

Lemma live_parts c c' w w' x : stream_part c' = stream_part c -> wsame w w' -> live c w x -> live c' w' x.
Proof.
  intros Hp Hw Hl. apply stream_part_inv in Hp. destruct Hp as (A & B & C & D & _).
  unfold live in *. rewrite A. eapply live_p_ext2; [| | |exact Hw|exact Hl]; auto.
  intros id. unfold is_ctl. rewrite B. tauto.
Qed.

Lemma frozen_parts c c' w w' x :
  stops_of w' = stops_of w ->
  (c_cause c' = c_cause c \/ exists z, c_cause c' = Some z /\ (ctl_cause z = true \/ exists f, z = CzFrame f)) ->
  frozen c w x -> frozen c' w' x.
Proof.
  intros Hs Hc [F1 F2 F3 F4 F5 F6].
  destruct Hc as [Hc|(z & Hz & Hk)].
  - constructor; rewrite ?Hs, ?Hc; auto.
  - constructor; rewrite ?Hs; auto; rewrite Hz; intros Hx; inversion Hx; subst;
      destruct Hk as [Hk|[f Hk]]; discriminate.
Qed.

Lemma ctl_parts g c c' w w' x :
  stream_part c' = stream_part c -> wsame w w' ->
  (forall z, c_cause c' = Some z -> ctl_cause z = true -> c_cause c = Some z) ->
  ctl_inv2 g c w x -> ctl_inv2 g c' w' x.
Proof.
  intros Hp Hw Hz. apply stream_part_inv in Hp. destruct Hp as (_ & B & _ & _ & E & F & G & _).
  apply ctl_inv2_ext; auto. intros id fs _. apply wsame_rxq. exact Hw.
Qed.

Definition cont {A} (r : pres A) : bool := match r with PReady _ | PPending => true | _ => false end.

Lemma ctl_inv2_weaken g c w x : ctl_inv2 true c w x -> ctl_inv2 g c w x.
Proof. destruct g; [auto|apply ctl_inv2_stop]. Qed.
Lemma ctl_inv2_false g c w x : ctl_inv2 g c w x -> ctl_inv2 false c w x.
Proof. destruct g; [apply ctl_inv2_stop|auto]. Qed.

(* a DATA or WebTransport header is never handed to the role's driver *)
Lemma control_frame_refuses f c w wr r c' w' wr' :
  c_err c = None -> goes_on (Ready (Ok (Some f))) = false ->
  control_frame f (c, w, wr) = (r, (c', w', wr')) -> cont r = false.
Proof.
  intros He Hg H. apply control_frame_spec in H; [|exact He].
  destruct H as [(Hd & _)|(e & _ & -> & _)]; [|reflexivity].
  exfalso. inversion Hd; subst; destruct f; try discriminate; cbn in Hg; try discriminate Hg;
    match goal with Hp : passes _ _ = true |- _ => vm_compute in Hp; discriminate Hp end.
Qed.

Lemma poll_control_bytes wt x c w wr r c' w' wr' :
  poll_control wt (c, w, wr) = (r, (c', w', wr')) ->
  c_err c = None -> c_cause c = None -> live c w x -> frozen c w x -> ctl_inv2 true c w x -> sgood c w x ->
  frozen c' w' x /\ ctl_inv2 (cont r) c' w' x /\ sgood c' w' x /\
  (cont r = true -> live c' w' x /\ c_err c' = None /\ c_cause c' = None).
Proof.
  intros H He Hcn Hl Hf Hci [Hsf Hsl]. specialize (Hsl He). unfold poll_control in H. rewrite He in H.
  destruct (poll_accept_recv wt (c, w, wr)) as [r1 [[c1 w1] wr1]] eqn:Hpar.
  pose proof (poll_accept_recv_frame _ _ _ _ _ _ _ _ Hpar) as (Hfp & -> & _).
  pose proof (poll_accept_recv_bytes _ x _ _ _ _ _ _ _ Hpar He Hcn Hl Hf Hci Hsf Hsl) as (Hf1 & Hci1 & Hsf1 & Hl1).
  assert (Hsg1 : sgood c1 w1 x) by (split; [exact Hsf1|intros Hx; apply (Hl1 Hx)]).
  destruct Hfp as (_ & _ & Hes & Ho).
  assert (Hcn1 : c_err c1 = None -> c_cause c1 = None).
  { intros Hx. destruct Hes as [Hs|(_ & z & code & Hy & _)]; [unfold err_part in Hs; congruence|congruence]. }
  (* the cases in which poll_accept_recv's result is poll_control's *)
  assert (Hsame : forall (y : pres frame), (cont y = true -> err_of r1 = None) ->
            (y, (c1, w1, wr)) = (r, (c', w', wr')) ->
            frozen c' w' x /\ ctl_inv2 (cont r) c' w' x /\ sgood c' w' x /\
            (cont r = true -> live c' w' x /\ c_err c' = None /\ c_cause c' = None)).
  { intros y Hc Heq. inversion Heq; subst. split; [exact Hf1|]. split; [apply ctl_inv2_weaken; exact Hci1|].
    split; [exact Hsg1|]. intros Hx. specialize (Hc Hx). rewrite Hc in Ho. specialize (Ho He).
    destruct (Hl1 Ho) as [Hlv _]. auto. }
  destruct r1 as [u| |e|n| |];
    try (eapply Hsame; [|exact H]; intros Hx; try reflexivity; discriminate Hx).
  cbn [err_of] in Ho. specialize (Ho He). destruct (Hl1 Ho) as [Hlv1 _]. specialize (Hcn1 Ho).
  destruct (c_control c1) as [[id fs]|] eqn:Hctl.
  2:{ inversion H; subst. split; [exact Hf1|]. split; [exact Hci1|]. split; [exact Hsg1|]. intros _. auto. }
  destruct (poll_next (fs_with_q fs (rxq w1 id))) as [pr fs'] eqn:Hpn.
  set (c2 := set_ghost (set_control c1 (Some (id, fs_with_q fs' []))) (c_ctl0 c1) (c_trace c1 ++ [CallAuto])) in *.
  set (w2 := set_rxq w1 id (st_q fs')) in *.
  assert (Hic : is_ctl c1 id) by (exists fs; exact Hctl).
  assert (Hstep : step_ok (spec_of (fs_with_q fs (rxq w1 id)) [] Open) (E (fs_with_q fs (rxq w1 id)) Open) [] Open (ONext pr) fs').
  { pose proof Hci1 as Hx. unfold ctl_inv2 in Hx. rewrite Hctl in Hx.
    destruct Hx as (s0 & obs & flat0 & _ & _ & _ & _ & _ & _ & _ & _ & _ & _ & Hgo).
    destruct (Hgo eq_refl) as (Hicur & Hrc & _).
    pose proof (poll_next_spec (fs_with_q fs (rxq w1 id)) [] Open Hicur Hrc) as Hy.
    rewrite Hpn in Hy. apply Hy. split; [constructor|reflexivity]. }
  (* whatever the connection looks like afterwards, as long as its stream-level parts are those of [taken_by c2 pr] *)
  assert (Hafter : forall c3 w3, stream_part c3 = stream_part (taken_by c2 pr) -> wsame w2 w3 ->
            (forall z, c_cause c3 = Some z -> cause_matches z pr) ->
            (c_cause c3 = None \/ exists z, c_cause c3 = Some z /\ (ctl_cause z = true \/ exists f, z = CzFrame f)) ->
            frozen c3 w3 x /\ ctl_inv2 (goes_on pr) c3 w3 x /\ live c3 w3 x /\ sgood c3 w3 x).
  { intros c3 w3 Hp Hw Hcm Hcz. pose proof (stream_part_inv _ _ Hp) as (P1 & P2 & P3 & P4 & P5 & P6 & P7 & P8).
    assert (Hpend : c_pending (taken_by c2 pr) = c_pending c1) by (unfold taken_by; destruct pr as [[[f|]|e0|n0]|]; reflexivity).
    assert (Hcc : c_control (taken_by c2 pr) = Some (id, fs_with_q fs' [])) by (unfold taken_by; destruct pr as [[[f|]|e0|n0]|]; reflexivity).
    assert (Henc : c_enc (taken_by c2 pr) = c_enc c1) by (unfold taken_by; destruct pr as [[[f|]|e0|n0]|]; reflexivity).
    assert (Hdec : c_dec (taken_by c2 pr) = c_dec c1) by (unfold taken_by; destruct pr as [[[f|]|e0|n0]|]; reflexivity).
    assert (Hseen : c_seen (taken_by c2 pr) = c_seen c1) by (unfold taken_by; destruct pr as [[[f|]|e0|n0]|]; reflexivity).
    destruct (ctl_poll c1 w1 x id fs pr fs' c3 Hctl Hci1 Hpn P2 P5 P6 P7 Hcm) as (Hc3 & _).
    split; [|split; [|split]].
    - eapply frozen_parts; [| |exact Hf1].
      + destruct Hw as (A & B & C). rewrite C. reflexivity.
      + rewrite Hcn1. destruct Hcz as [Hz|Hz]; [left; congruence|right; exact Hz].
    - eapply ctl_inv2_ext; [reflexivity|reflexivity|reflexivity|reflexivity|auto| |exact Hc3].
      intros j fs0 _. apply wsame_rxq. exact Hw.
    - assert (Hl2 : live_p (c_pending c1) c1 w2 x) by (apply live_ctl_queue; assumption).
      unfold live. rewrite P1.
      rewrite Hpend. eapply live_p_ext2; [| | |exact Hw|exact Hl2].
      + intros j. unfold is_ctl. rewrite P2.
        rewrite Hcc, Hctl. split; intros [fs0 Hx]; inversion Hx; subst; eauto.
      + rewrite P3. exact Henc.
      + rewrite P4. exact Hdec.
    - destruct Hw as (W1 & W2 & W3). eapply sgood_ext; [| | | | | | | |exact Hsg1]; try congruence.
      + intros j. unfold is_ctl. rewrite P2, Hcc, Hctl. intros [fs0 Hx]; inversion Hx; subst; eauto.
      + rewrite W2. reflexivity.
      + rewrite W3. reflexivity. }
  (* results that leave (c2, w2) *)
  assert (Hstay : forall (y : pres frame), cont y = goes_on pr -> (forall f, pr <> Ready (Ok (Some f))) ->
            (y, (c2, w2, wr)) = (r, (c', w', wr')) ->
            frozen c' w' x /\ ctl_inv2 (cont r) c' w' x /\ sgood c' w' x /\
            (cont r = true -> live c' w' x /\ c_err c' = None /\ c_cause c' = None)).
  { intros y Hy Hnf Heq. inversion Heq; subst.
    assert (Ht : taken_by c2 pr = c2) by (destruct pr as [[[f|]|e0|n0]|]; try reflexivity; exfalso; eapply Hnf; reflexivity).
    destruct (Hafter c2 w2) as (A & B & C & S).
    - rewrite Ht. reflexivity.
    - apply wsame_refl.
    - intros z Hz. cbn in Hz. congruence.
    - left. exact Hcn1.
    - split; [exact A|]. split; [rewrite Hy; exact B|]. split; [exact S|]. intros _. split; [exact C|]. split; [exact Ho|exact Hcn1]. }
  (* failures of the control stream itself *)
  assert (Hfail : forall z code, ctl_cause z = true -> cause_matches z pr -> (forall f, pr <> Ready (Ok (Some f))) ->
            @fail frame z code (c2, w2, wr) = (r, (c', w', wr')) ->
            frozen c' w' x /\ ctl_inv2 (cont r) c' w' x /\ sgood c' w' x /\
            (cont r = true -> live c' w' x /\ c_err c' = None /\ c_cause c' = None)).
  { intros z code Hz Hm Hnf Hfl. apply fail_parts in Hfl; [|exact Ho]. destruct Hfl as (P & Hw & Hc & Hce & ->).
    assert (Ht : taken_by c2 pr = c2) by (destruct pr as [[[f|]|e0|n0]|]; try reflexivity; exfalso; eapply Hnf; reflexivity).
    destruct (Hafter c' w') as (A & B & C & S).
    - rewrite Ht. exact P.
    - exact Hw.
    - intros z0 Hz0. rewrite Hc in Hz0. inversion Hz0; subst. exact Hm.
    - right. exists z. auto.
    - split; [exact A|]. split; [cbn [cont]; eapply ctl_inv2_false; exact B|]. split; [exact S|discriminate]. }
  destruct pr as [[[f|]|e|n]|].
  - (* a frame *)
    pose proof (control_frame_parts f (log_taken c2 f) w2 wr r c' w' wr' Ho H) as Hcf.
    destruct Hcf as (P & Hw & Hcase).
    destruct (Hafter c' w') as (A & B & C & S).
    + exact P.
    + exact Hw.
    + intros z Hz. destruct Hcase as [(Hc & _)|(Hc & _)]; rewrite Hc in Hz.
      * cbn in Hz. congruence.
      * inversion Hz; subst. exact I.
    + destruct Hcase as [(Hc & _)|(Hc & _)]; [left; rewrite Hc; exact Hcn1|right; eexists; split; [exact Hc|right; eauto]].
    + split; [exact A|]. destruct (goes_on (Ready (Ok (Some f)))) eqn:Hgo.
      * split; [apply ctl_inv2_weaken; exact B|]. split; [exact S|]. intros Hx.
        destruct Hcase as [(Hc & Hn & _)|(_ & e & -> & _)]; [|discriminate Hx].
        split; [exact C|]. split; [exact Hn|]. rewrite Hc. exact Hcn1.
      * pose proof (control_frame_refuses f (log_taken c2 f) w2 wr r c' w' wr' Ho Hgo H) as Hcr. rewrite Hcr.
        split; [exact B|]. split; [exact S|discriminate].
  - apply (Hfail CzCtlClosed code_pc_closed); [reflexivity|reflexivity|intros f0; discriminate|exact H].
  - destruct e as [k fe|qe|].
    + destruct (perr_code k) as [code|] eqn:Hk.
      * apply (Hfail (CzCtlProto k) code); [reflexivity| |intros f0; discriminate|exact H].
        inversion Hstep; subst. exists fe. split; [reflexivity|assumption].
      * apply (Hstay (PPanic 53)); [reflexivity|intros f0; discriminate|exact H].
    + destruct qe; try (apply (Hstay POutside); [reflexivity|intros f0; discriminate|exact H]).
      apply (Hfail CzCtlReset code_pc_reset); [reflexivity|eexists; reflexivity|intros f0; discriminate|exact H].
    + apply (Hfail CzCtlTruncated code_pc_unexpected_end); [reflexivity|reflexivity|intros f0; discriminate|exact H].
  - apply (Hstay (PPanic n)); [reflexivity|intros f0; discriminate|exact H].
  - apply (Hstay PPending); [reflexivity|intros f0; discriminate|exact H].
Qed.

(* ---------- the role's driver ---------- *)
Record good (c : conn) (w : world) (x : sent) : Prop := {
  gd_live : live c w x; gd_frozen : frozen c w x; gd_ctl : ctl_inv2 true c w x;
  gd_err : c_err c = None; gd_cause : c_cause c = None; gd_seen : sgood c w x
}.
(* what a step leaves behind: the facts that stay, and everything if the driver goes on *)
Definition post {A} (r : pres A) (c : conn) (w : world) (x : sent) : Prop :=
  frozen c w x /\ ctl_inv2 (cont r) c w x /\ sgood c w x /\ (cont r = true -> good c w x).

Lemma post_of_good {A} (r : pres A) c w x : good c w x -> post r c w x.
Proof.
  intros [A1 A2 A3 A4 A5 A6]. split; [exact A2|]. split; [apply ctl_inv2_weaken; exact A3|]. split; [exact A6|].
  intros _. constructor; auto.
Qed.

(* a change that only touches what the stream-level invariants do not read *)
Lemma good_parts c c' w w' x :
  stream_part c' = stream_part c -> wsame w w' -> c_err c' = None -> c_cause c' = None -> good c w x -> good c' w' x.
Proof.
  intros Hp Hw He Hc [A1 A2 A3 A4 A5 A6]. constructor; auto.
  - eapply live_parts; eauto.
  - eapply frozen_parts; [| |exact A2]; [destruct Hw as (_ & _ & Hs); exact Hs|left; congruence].
  - eapply ctl_parts; eauto. intros z Hz. congruence.
  - eapply sgood_parts; eauto.
Qed.

(* a failure caused by a frame *)
Lemma post_frame_fail {A} (r : pres A) c c' w w' x f :
  stream_part c' = stream_part c -> wsame w w' -> c_cause c' = Some (CzFrame f) -> cont r = false ->
  good c w x -> post r c' w' x.
Proof.
  intros Hp Hw Hc Hr [A1 A2 A3 A4 A5 A6]. unfold post. rewrite Hr. split; [|split; [|split; [|discriminate]]].
  - eapply frozen_parts; [| |exact A2]; [destruct Hw as (_ & _ & Hs); exact Hs|].
    right. exists (CzFrame f). split; [exact Hc|right; eauto].
  - apply ctl_inv2_stop. eapply ctl_parts; eauto. intros z Hz Hk. rewrite Hc in Hz. inversion Hz; subst. discriminate.
  - eapply sgood_parts; eauto.
Qed.

Lemma log_s_good a c w wr x : good c w x -> let '(c', w', _) := log_s a (c, w, wr) in good c' w' x.
Proof. intros Hg. cbn [log_s]. eapply good_parts; [| | | |exact Hg]; try reflexivity; try apply wsame_refl; apply Hg. Qed.

Lemma process_goaway_parts id c w wr r c' w' wr' :
  c_err c = None -> process_goaway id (c, w, wr) = (r, (c', w', wr')) ->
  stream_part c' = stream_part c /\ wsame w w' /\
  ((r = PReady tt /\ c_err c' = None /\ c_cause c' = c_cause c) \/
   (exists code, r = PErr code /\ c_cause c' = Some (CzFrame (FGoaway id)))).
Proof.
  intros He. unfold process_goaway.
  assert (Hok : (PReady tt, (set_closing c (Some id), w, wr)) = (r, (c', w', wr')) ->
          stream_part c' = stream_part c /\ wsame w w' /\
          ((r = PReady tt /\ c_err c' = None /\ c_cause c' = c_cause c) \/
           (exists code, r = PErr code /\ c_cause c' = Some (CzFrame (FGoaway id))))).
  { intros H; inversion H; subst. split; [reflexivity|]. split; [apply wsame_refl|]. left. auto. }
  destruct (c_recv_closing c) as [p|]; [|exact Hok].
  destruct (gcmp_eval goaway_reject_cmp p id); [|exact Hok].
  intros H. apply fail_parts in H; [|exact He]. destruct H as (P & Hw & Hc & _ & ->).
  split; [exact P|]. split; [exact Hw|]. right. eauto.
Qed.

Lemma next_control_bytes role wt x c w wr r c' w' wr' :
  next_control role wt (c, w, wr) = (r, (c', w', wr')) -> good c w x -> post r c' w' x.
Proof.
  intros H [A1 A2 A3 A4 A5 A6].
  assert (Hpc : exists r0 c1 w1 wr1, poll_control wt (c, w, wr) = (r0, (c1, w1, wr1)) /\
            frozen c1 w1 x /\ ctl_inv2 (cont r0) c1 w1 x /\ sgood c1 w1 x /\ (cont r0 = true -> good c1 w1 x)).
  { destruct (poll_control wt (c, w, wr)) as [r0 [[c1 w1] wr1]] eqn:Hp. exists r0, c1, w1, wr1. split; [reflexivity|].
    destruct (poll_control_bytes _ x _ _ _ _ _ _ _ Hp A4 A5 A1 A2 A3 A6) as (B1 & B2 & Bs & B3).
    split; [exact B1|]. split; [exact B2|]. split; [exact Bs|]. intros Hx. destruct (B3 Hx) as (C1 & C2 & C3). constructor; auto.
    rewrite Hx in B2. exact B2. }
  destruct Hpc as (r0 & c1 & w1 & wr1 & Hp & B1 & B2 & Bs & B3).
  (* poll_control's result handed on unchanged *)
  assert (Hlift : (@lift frame unit r0, (c1, w1, wr1)) = (r, (c', w', wr')) -> (forall f, r0 <> PReady f) -> post r c' w' x).
  { intros Heq Hnf. inversion Heq; subst. unfold post.
    assert (Hc : cont (@lift frame unit r0) = cont r0) by (destruct r0; try reflexivity; exfalso; eapply Hnf; reflexivity).
    rewrite Hc. auto. }
  (* a frame the role's driver acted upon *)
  assert (Hact : forall a c2 w2 wr2, (PReady tt, log_s a (c2, w2, wr2)) = (r, (c', w', wr')) -> good c2 w2 x -> post r c' w' x).
  { intros a c2 w2 wr2 Heq Hg. inversion Heq; subst. apply post_of_good.
    eapply good_parts; [| | | |exact Hg]; try reflexivity; try apply wsame_refl; apply Hg. }
  (* a frame the role's driver refused *)
  assert (Hrej : forall f code c2, good c2 w1 x -> @fail unit (CzFrame f) code (c2, w1, wr1) = (r, (c', w', wr')) -> post r c' w' x).
  { intros f code c2 Hg Hfl. apply fail_parts in Hfl; [|apply Hg]. destruct Hfl as (P & Hw & Hc & _ & ->).
    eapply post_frame_fail; eauto. }
  assert (Hgo : forall id, good c1 w1 x ->
            match process_goaway id (c1, w1, wr1) with
            | (PReady _, s2) => (PReady tt, log_s (AGoaway id) s2)
            | (r2, s2) => (r2, s2)
            end = (r, (c', w', wr')) -> post r c' w' x).
  { intros id Hg Heq. destruct (process_goaway id (c1, w1, wr1)) as [rg [[c2 w2] wr2]] eqn:Hpg.
    apply process_goaway_parts in Hpg; [|apply Hg].
    destruct Hpg as (P & Hw & [(-> & He2 & Hc2)|(code & -> & Hc2)]).
    - eapply Hact; [exact Heq|]. eapply good_parts; [exact P|exact Hw|exact He2| |exact Hg]. rewrite Hc2. apply Hg.
    - inversion Heq; subst. eapply post_frame_fail; eauto. }
  destruct role; cbn [next_control] in H.
  - unfold srv_next_control in H. rewrite Hp in H.
    destruct r0 as [f| |e|n| |]; try (apply Hlift; [exact H|discriminate]).
    specialize (B3 eq_refl).
    destruct f; try (eapply Hrej; [exact B3|exact H]).
    + destruct (kind_in KCancelPush srv_ignored); [eapply Hact; eauto|eapply Hrej; eauto].
    + eapply Hact; eauto.
    + apply (Hgo id B3 H).
    + destruct (kind_in KMaxPushId srv_ignored); [eapply Hact; eauto|eapply Hrej; eauto].
  - unfold cli_next_control in H. rewrite Hp in H.
    destruct r0 as [f| |e|n| |]; try (apply Hlift; [exact H|discriminate]).
    specialize (B3 eq_refl).
    destruct f; try (eapply Hrej; [exact B3|exact H]).
    + eapply Hact; eauto.
    + destruct (negb (sid_is_request id)); [eapply Hrej; eauto|apply (Hgo id B3 H)].
Qed.

Lemma post_stop {A B} (r : pres A) (r' : pres B) c w x : cont r' = false -> post r c w x -> post r' c w x.
Proof.
  intros Hc (A1 & A2 & As & A3). unfold post. rewrite Hc. split; [exact A1|]. split; [eapply ctl_inv2_false; exact A2|].
  split; [exact As|discriminate].
Qed.

Lemma control_loop_bytes role wt x : forall fuel c w wr r c' w' wr',
  control_loop (next_control role wt) fuel (c, w, wr) = (r, (c', w', wr')) -> good c w x ->
  post r c' w' x /\ r <> PReady tt.
Proof.
  induction fuel as [|fuel IH]; intros c w wr r c' w' wr' H Hg; cbn [control_loop] in H.
  - inversion H; subst. split; [|discriminate]. eapply (post_stop (@PPending unit)); [reflexivity|apply post_of_good; exact Hg].
  - destruct (next_control role wt (c, w, wr)) as [r1 [[c1 w1] wr1]] eqn:Hn.
    pose proof (next_control_bytes _ _ x _ _ _ _ _ _ _ Hn Hg) as Hp.
    destruct r1 as [u| |e|n| |]; try (inversion H; subst; split; [exact Hp|discriminate]).
    destruct Hp as (_ & _ & _ & Hgo). eapply IH; [exact H|]. apply Hgo. reflexivity.
Qed.

(* ---------- the driver task ---------- *)
Definition running (d : drv) : bool := match d_ph d with PhDone => false | _ => true end.
Definition dgood (d : drv) (x : sent) : Prop :=
  let '(c, w, _) := d_s d in
  frozen c w x /\ ctl_inv2 (running d) c w x /\ sgood c w x /\ (running d = true -> good c w x).

Lemma dgood_finish_run d ph c w wr x r :
  ph <> PhDone -> good c w x -> dgood (finish d ph (c, w, wr) r) x.
Proof.
  intros Hph Hg. unfold dgood, running. cbn [d_s d_ph finish].
  destruct ph; try congruence; (split; [apply Hg|split; [apply Hg|split; [apply Hg|intros _; exact Hg]]]).
Qed.
Lemma dgood_finish_done {A} d c w wr x (r0 : pres A) r :
  post r0 c w x -> dgood (finish d PhDone (c, w, wr) r) x.
Proof.
  intros (A1 & A2 & As & _). unfold dgood, running. cbn [d_s d_ph finish].
  split; [exact A1|]. split; [eapply ctl_inv2_false; exact A2|]. split; [exact As|discriminate].
Qed.

Lemma good_world c w w' x : wsame w w' -> good c w x -> good c w' x.
Proof. intros Hw Hg. eapply good_parts; [reflexivity|exact Hw|apply Hg|apply Hg|exact Hg]. Qed.

Lemma run_shutdown_bytes d c w wr x : good c w x -> dgood (run_shutdown d (c, w, wr)) x.
Proof.
  intros Hg. unfold run_shutdown.
  destruct (poll_ready (control_send_id (d_role d)) wr w) as [[y wr1] w1] eqn:Hp. apply poll_ready_wsame in Hp.
  pose proof (good_world c w w1 x Hp Hg) as Hg1.
  destruct y.
  - apply dgood_finish_run; [discriminate|exact Hg1].
  - apply dgood_finish_run; [discriminate|exact Hg1].
  - eapply (dgood_finish_done _ _ _ _ _ (@PPending unit)). apply post_of_good. exact Hg1.
  - eapply (dgood_finish_done _ _ _ _ _ (@PPending unit)). apply post_of_good. exact Hg1.
Qed.

Lemma run_driver_bytes d c w wr x : good c w x -> dgood (run_driver d (c, w, wr)) x.
Proof.
  intros Hg. unfold run_driver. destruct (d_role d).
  - destruct (control_loop (next_control RServer (d_wt d)) (fuel_of (c, w, wr)) (c, w, wr)) as [res [[c1 w1] wr1]] eqn:Hl.
    destruct (control_loop_bytes _ _ x _ _ _ _ _ _ _ _ Hl Hg) as [Hp Hnr].
    destruct res as [u| |e|n| |]; try (eapply dgood_finish_done; exact Hp).
    destruct Hp as (_ & _ & _ & Hgo). specialize (Hgo eq_refl).
    destruct (c_recv_closing c1) eqn:Hrc.
    + destruct (c_sent c1).
      * apply dgood_finish_run; [discriminate|exact Hgo].
      * apply run_shutdown_bytes. eapply good_parts; [| | | |exact Hgo]; try reflexivity; try apply wsame_refl; apply Hgo.
    + apply dgood_finish_run; [discriminate|exact Hgo].
  - destruct (control_loop (next_control RClient (d_wt d)) (fuel_of (c, w, wr)) (c, w, wr)) as [res [[c1 w1] wr1]] eqn:Hl.
    destruct (control_loop_bytes _ _ x _ _ _ _ _ _ _ _ Hl Hg) as [Hp Hnr].
    destruct res as [u| |e|n| |]; try (eapply dgood_finish_done; exact Hp).
    destruct Hp as (_ & _ & _ & Hgo). apply dgood_finish_run; [discriminate|exact (Hgo eq_refl)].
Qed.

Lemma run_headers_bytes d c w wr x : good c w x -> dgood (run_headers d (c, w, wr)) x.
Proof.
  intros Hg. unfold run_headers.
  destruct (poll_ready (control_send_id (d_role d)) wr w) as [[r1 wr1] w1] eqn:H1. apply poll_ready_wsame in H1.
  pose proof (good_world _ _ _ _ H1 Hg) as G1.
  assert (Hdone : forall w0 wr0 r, good c w0 x -> dgood (finish d PhDone (c, w0, wr0) r) x).
  { intros w0 wr0 r G. eapply (dgood_finish_done _ _ _ _ _ (@PPending unit)). apply post_of_good. exact G. }
  destruct r1; try (apply Hdone; exact G1);
    destruct (poll_ready (decoder_send_id (d_role d)) wr1 w1) as [[r2 wr2] w2] eqn:H2; apply poll_ready_wsame in H2;
    pose proof (good_world _ _ _ _ H2 G1) as G2;
    destruct r2; try (apply Hdone; exact G2);
    destruct (poll_ready (encoder_send_id (d_role d)) wr2 w2) as [[r3 wr3] w3] eqn:H3; apply poll_ready_wsame in H3;
    pose proof (good_world _ _ _ _ H3 G2) as G3;
    destruct r3; try (apply Hdone; exact G3);
    try (apply dgood_finish_run; [discriminate|exact G3]).
  apply run_driver_bytes. exact G3.
Qed.

Lemma run_open_bytes d x : forall n k c w wr, good c w x -> dgood (run_open n k d (c, w, wr)) x.
Proof.
  induction n as [|n IH]; intros k c w wr Hg; cbn [run_open].
  - destruct (3 <=? k); [apply run_headers_bytes; exact Hg|].
    eapply (dgood_finish_done _ _ _ _ _ (@PPending unit)). apply post_of_good. exact Hg.
  - destruct (3 <=? k); [apply run_headers_bytes; exact Hg|].
    destruct (open_send w) as [[id w']|] eqn:Ho.
    + apply IH. apply open_send_wsame in Ho. eapply good_world; eauto.
    + apply dgood_finish_run; [discriminate|exact Hg].
Qed.

Lemma drive_bytes d x : dgood d x -> dgood (drive d) x.
Proof.
  intros Hd. unfold drive.
  set (d1 := {| d_role := d_role d; d_grease := d_grease d; d_wt := d_wt d; d_ph := d_ph d; d_s := d_s d;
                d_res := d_res d; d_polls := d_polls d + 1; d_at := d_at d |}).
  assert (H1 : dgood d1 x) by exact Hd.
  unfold dgood, running in Hd. change (d_ph d1) with (d_ph d). change (d_s d1) with (d_s d).
  destruct (d_s d) as [[c w] wr] eqn:Hs.
  destruct (d_ph d) eqn:Hph; try (destruct Hd as (_ & _ & _ & Hg); specialize (Hg eq_refl)).
  - apply run_open_bytes. exact Hg.
  - apply run_headers_bytes. exact Hg.
  - apply run_driver_bytes. exact Hg.
  - apply run_shutdown_bytes. exact Hg.
  - apply run_driver_bytes. exact Hg.
  - exact H1.
Qed.

(* ---------- events other than polls, at the level of the driver ---------- *)
Definition on_control (c : conn) (e : wev) : Prop :=
  match e, c_control c with EArrive id _, Some (cid, _) => id = cid | _, _ => False end.

Lemma ghost_arrive_other e c : ~ on_control c e -> ghost_arrive e c = c.
Proof.
  unfold on_control, ghost_arrive. destruct e; try reflexivity.
  destruct (c_control c) as [[cid fs]|]; [|reflexivity].
  intros Hn. destruct (N.eqb_spec id cid); [contradiction|reflexivity].
Qed.

Lemma apply_wev_stops e w : stops_of (apply_wev e w) = stops_of w.
Proof. destruct e; try reflexivity. cbn [apply_wev]. destruct (terminated (rxq w id)); reflexivity. Qed.

Lemma apply_wev_rxq_other e w j :
  (forall x, e <> EArrive j x) -> rxq (apply_wev e w) j = rxq w j.
Proof.
  intros Hn. destruct e; try reflexivity.
  - cbn [apply_wev]. unfold set_incoming. cbn [rxq w_rx]. fold (rxq (set_rxq w id (rxq w id)) j).
    destruct (N.eq_dec j id) as [->|Hne]; [apply rxq_set_same|apply rxq_set_other; exact Hne].
  - cbn [apply_wev]. destruct (terminated (rxq w id)); [reflexivity|].
    apply rxq_set_other. intros ->. eapply Hn. reflexivity.
Qed.

Lemma sent_step_other x e j :
  (forall y, e <> EArrive j y) -> sn_flat (sent_step x e) j = sn_flat x j /\ sn_end (sent_step x e) j = sn_end x j.
Proof.
  intros Hn. destruct e; try (split; reflexivity). cbn [sent_step].
  assert (Hj : j <> id) by (intros ->; eapply Hn; reflexivity).
  destruct (sn_end x id); try (split; reflexivity).
  destruct e; cbn [sn_flat sn_end]; rewrite ?upd_other by exact Hj; split; reflexivity.
Qed.

Lemma ctl_event g c w x e :
  wev_ok e -> e <> EPoll -> ctl_inv2 g c w x ->
  ctl_inv2 g (ghost_arrive e c) (apply_wev e w) (sent_step x e).
Proof.
  intros Hok Hne Hci.
  destruct (c_control c) as [[cid fs]|] eqn:Hc.
  - assert (Hdec : (exists y, e = EArrive cid y) \/ (forall y, e <> EArrive cid y)).
    { destruct e; try (right; intros y Hy; discriminate).
      destruct (N.eq_dec id cid) as [->|Hj]; [left; eauto|right; intros y Hy; inversion Hy; congruence]. }
    destruct Hdec as [[y ->]|Hno].
    + eapply ctl_arrive; eauto.
    + rewrite ghost_arrive_other.
      * apply (ctl_inv2_sent g c (apply_wev e w) x).
        -- intros j fs0 Hj. rewrite Hc in Hj. inversion Hj; subst. apply sent_step_other. exact Hno.
        -- apply sent_step_le.
        -- eapply ctl_inv2_ext; [reflexivity|reflexivity|reflexivity|reflexivity|auto| |exact Hci].
           intros j fs0 Hj. rewrite Hc in Hj. inversion Hj; subst. apply apply_wev_rxq_other. exact Hno.
      * unfold on_control. rewrite Hc. destruct e; auto. intros ->. eapply Hno. reflexivity.
  - rewrite ghost_arrive_other.
    + unfold ctl_inv2 in *. rewrite Hc in *. exact Hci.
    + unfold on_control. rewrite Hc. destruct e; auto.
Qed.

Lemma live_event c w x e :
  wev_ok e -> e <> EPoll -> NoDup (sn_ann (sent_step x e)) -> frozen c w x -> live c w x ->
  live (ghost_arrive e c) (apply_wev e w) (sent_step x e).
Proof.
  intros Hok Hne Hnd Hf Hl.
  assert (Hg : live (ghost_arrive e c) (apply_wev e w) (sent_step x e) <-> live c (apply_wev e w) (sent_step x e)).
  { destruct (ghost_arrive_slots e c) as (A & B & C & D & _). unfold live. rewrite A.
    split; intros H; (eapply live_p_ext; [| | |exact H]); congruence. }
  apply Hg. destruct e; try congruence.
  - apply live_new_uni; auto.
  - apply live_arrive; auto.
  - cbn [sent_step]. apply (live_world_ext _ c w); auto.
  - cbn [sent_step]. apply (live_world_ext _ c w); auto.
  - cbn [sent_step]. apply (live_world_ext _ c w); auto.
  - cbn [sent_step]. apply (live_world_ext _ c w); auto.
  - cbn [sent_step]. apply (live_world_ext _ c w); auto.
Qed.

Lemma ghost_arrive_seen e c : c_seen (ghost_arrive e c) = c_seen c.
Proof.
  unfold ghost_arrive. destruct e; try reflexivity.
  destruct (c_control c) as [[cid fs]|]; [|reflexivity]. destruct (id =? cid); reflexivity.
Qed.

Lemma apply_wev_incoming e w :
  w_incoming (apply_wev e w) = match e with ENewUni id => w_incoming w ++ [id] | _ => w_incoming w end.
Proof. destruct e; try reflexivity. cbn [apply_wev]. destruct (terminated (rxq w id)); reflexivity. Qed.

Lemma sgood_event c w x e :
  e <> EPoll -> sgood c w x -> sgood (ghost_arrive e c) (apply_wev e w) (sent_step x e).
Proof.
  intros Hne [[F1 F2] L].
  destruct (ghost_arrive_slots e c) as (Hp & Hc & Hen & Hde & _ & Her).
  pose proof (sent_step_le x e) as Hle.
  split.
  - constructor; rewrite ghost_arrive_seen.
    + intros id ty Hin. destruct (F1 id ty Hin) as (A & B & C). split; [apply Hle; exact A|].
      split; [eapply hdr_type_le; eauto|]. rewrite apply_wev_stops. exact C.
    + intros id Hin. destruct (F2 id Hin) as (A & B & C). split; [apply Hle; exact A|].
      destruct e; try (split; assumption). cbn [sent_step].
      destruct (N.eq_dec id0 id) as [->|Hj].
      * destruct (sn_end x id) eqn:He; try (rewrite ?He; split; congruence).
      * destruct (sn_end x id0); try (split; assumption).
        destruct e; cbn [sn_flat sn_end]; rewrite ?upd_other by congruence; split; assumption.
  - rewrite Her. intros He. destruct (L He) as [L1 L2 L3 L4 L5 L6].
    constructor; rewrite ?ghost_arrive_seen, ?Hen, ?Hde; auto.
    + intros id Hin. unfold waiting. rewrite apply_wev_incoming, Hp.
      destruct e; try (apply L1; exact Hin).
      * cbn [sent_step sn_ann] in Hin. apply in_app_iff in Hin. destruct Hin as [Hin|[<-|[]]].
        -- destruct (L1 _ Hin) as [Hw|Hs]; [left|right; exact Hs]. unfold waiting in Hw.
           apply in_app_iff in Hw. rewrite !in_app_iff. tauto.
        -- left. rewrite !in_app_iff. cbn [In]. tauto.
      * apply L1. cbn [sent_step] in Hin. destruct (sn_end x id0); [destruct e|..]; exact Hin.
    + intros id Hin. specialize (L2 id Hin). unfold is_ctl in *. rewrite Hc. exact L2.
Qed.

Lemma step_bytes d x e :
  wev_ok e -> NoDup (sn_ann (sent_step x e)) -> dgood d x -> dgood (step d e) (sent_step x e).
Proof.
  intros Hok Hnd Hd. assert (Hdec : e = EPoll \/ e <> EPoll) by (destruct e; auto; right; discriminate). destruct Hdec as [->|Hne].
  - cbn [step sent_step]. apply drive_bytes. exact Hd.
  - unfold dgood, running in *.
    assert (Hs : d_s (step d e) = (let '(c, w, wr) := d_s d in (ghost_arrive e c, apply_wev e w, wr)) /\ d_ph (step d e) = d_ph d).
    { destruct e; try congruence; cbn [step]; destruct (d_s d) as [[c w] wr]; split; reflexivity. }
    destruct (d_s d) as [[c w] wr]. destruct Hs as [Hs Hph]. rewrite Hs, Hph.
    destruct Hd as (A & B & Sg & C).
    destruct (ghost_arrive_slots e c) as (_ & _ & _ & _ & Hcz & Hce).
    pose proof (sgood_event c w x e Hne Sg) as Sg'.
    assert (Hf' : frozen (ghost_arrive e c) (apply_wev e w) (sent_step x e)).
    { eapply frozen_ext; [apply apply_wev_stops|exact Hcz|]. eapply frozen_le; [apply sent_step_le|exact A]. }
    split; [exact Hf'|]. split; [apply ctl_event; assumption|]. split; [exact Sg'|].
    intros Hr. destruct (C Hr) as [G1 G2 G3 G4 G5 G6].
    constructor; [apply live_event; assumption|exact Hf'|apply ctl_event; assumption|congruence|congruence|exact Sg'].
Qed.

(* ---------- whole histories ---------- *)
Definition whist_ok (h : list wev) : Prop := Forall wev_ok h /\ NoDup (sn_ann (sent_of h)).

Lemma ann_grows : forall h x, exists l, sn_ann (fold_left sent_step h x) = sn_ann x ++ l.
Proof.
  induction h as [|e h IH]; intros x; cbn [fold_left]; [exists []; rewrite app_nil_r; reflexivity|].
  destruct (IH (sent_step x e)) as [l Hl]. rewrite Hl.
  assert (He : exists l0, sn_ann (sent_step x e) = sn_ann x ++ l0).
  { destruct e; try (exists []; rewrite app_nil_r; reflexivity); cbn [sent_step].
    - exists [id]. reflexivity.
    - destruct (sn_end x id); try (exists []; rewrite app_nil_r; reflexivity).
      destruct e; exists []; rewrite app_nil_r; reflexivity. }
  destruct He as [l0 ->]. exists (l0 ++ l). rewrite app_assoc. reflexivity.
Qed.

Lemma dgood_init role grease wt credit dflt : dgood (new_drv role grease wt credit dflt) sent_init.
Proof.
  unfold dgood, new_drv, running. cbn [d_s d_ph].
  assert (Hf : frozen (new_conn grease) (new_world role credit dflt) sent_init).
  { constructor; cbn; try discriminate; try tauto. constructor. }
  assert (Hc : ctl_inv2 true (new_conn grease) (new_world role credit dflt) sent_init) by (split; [reflexivity|discriminate]).
  assert (Hsg : sgood (new_conn grease) (new_world role credit dflt) sent_init).
  { split; [constructor; cbn; intros; tauto|intros _; constructor; cbn; intros; try tauto; try discriminate]. }
  split; [exact Hf|]. split; [exact Hc|]. split; [exact Hsg|]. intros _. constructor; auto.
  unfold live. constructor.
  - intros j _. split; [split; constructor|reflexivity].
  - intros j _. reflexivity.
  - constructor.
  - constructor.
  - intros j [].
  - intros j a [].
  - intros j [fs Hx]. discriminate.
  - discriminate.
  - discriminate.
  - intros j code [].
Qed.

Lemma fold_bytes : forall h d x,
  dgood d x -> Forall wev_ok h -> NoDup (sn_ann (fold_left sent_step h x)) ->
  dgood (fold_left step h d) (fold_left sent_step h x).
Proof.
  induction h as [|e h IH]; intros d x Hd Hok Hnd; cbn [fold_left]; [exact Hd|].
  inversion Hok; subst. apply IH; auto.
  apply step_bytes; auto.
  destruct (ann_grows h (sent_step x e)) as [l Hl]. cbn [fold_left] in Hnd. rewrite Hl in Hnd.
  clear - Hnd. induction (sn_ann (sent_step x e)) as [|y l0 IHl]; [constructor|].
  cbn [app] in Hnd. inversion Hnd; subst. constructor; [|auto].
  intros Hin. apply H1. apply in_app_iff. auto.
Qed.

Theorem bytes_invariant role grease wt credit dflt h :
  whist_ok h -> dgood (run_history h (new_drv role grease wt credit dflt)) (sent_of h).
Proof.
  intros [Hok Hnd]. unfold run_history, sent_of. apply fold_bytes; auto. apply dgood_init.
Qed.

(* ====================================================================================== *)
(* Consequences for the final state of any history                                        *)
(* ====================================================================================== *)
Lemma V_app s fut : V s fut = V s [] ++ fut.
Proof. unfold V. rewrite app_nil_r, app_assoc. reflexivity. Qed.

Lemma spec_of_rem0 s fut fen : st_rem s = 0 -> spec_of s fut fen = frame_outcome settings_verdict (V s fut) (E s fen).
Proof. intros H. unfold spec_of, outcome_in. rewrite H. reflexivity. Qed.

(* T3, at the level of the bytes: the frames taken out of the control stream are, in order, the first frames of the
   RFC 9114 7.1 segmentation of what the peer sent on that stream after its type, and the observations made on it
   refine that outcome in C02's sense (final results explained, nothing awaited forever) *)
Theorem control_stream_bytes role grease wt credit dflt h :
  whist_ok h ->
  let d := run_history h (new_drv role grease wt credit dflt) in
  let c := conn_of d in
  let x := sent_of h in
  match c_control c with
  | None => c_taken c = [] /\ (forall z, c_cause c = Some z -> ctl_cause z = false)
  | Some (id, _) =>
      exists rest obs,
        In id (sn_ann x) /\
        uni_header (sn_flat x id) = Some (ST_CONTROL, None, rest) /\
        toks_of obs = map TFrame (c_taken c) /\
        refines obs (frame_outcome settings_verdict rest (sn_end x id)) (sn_end x id) (settled (c_trace c)) /\
        (forall z, c_cause c = Some z -> cause_last z obs)
  end.
Proof.
  intros Hh d c x. pose proof (bytes_invariant role grease wt credit dflt h Hh) as Hd. fold d x in Hd.
  unfold dgood in Hd. unfold c, conn_of. destruct (d_s d) as [[c0 w0] wr0]. destruct Hd as (_ & Hci & _).
  unfold ctl_inv2 in Hci. destruct (c_control c0) as [[id fs]|]; [|exact Hci].
  destruct Hci as (s0 & obs & flat0 & Hann & H0 & Hi0 & Hr0 & Hh0 & Hrun & Htk & Hhd & Hj & Hcz & _).
  (* what arrived after the claim *)
  set (fa := match q_end (st_q s0) with Open => arrivals (c_trace c0) | _ => ([], Open) end).
  assert (Hfut : fut_ok s0 (fst fa)).
  { unfold fa. destruct (q_end (st_q s0)) eqn:Hq; split; try constructor; try reflexivity.
    - apply arrivals_wf. exact Hh0.
    - congruence. }
  assert (Harr : q_end (st_q s0) = Open -> arrivals (c_trace c0) = (fst fa, snd fa)).
  { intros Hq. unfold fa. rewrite Hq. destruct (arrivals (c_trace c0)); reflexivity. }
  pose proof (run_refines (c_trace c0) s0 (fst fa) (snd fa) Hi0 Hfut Hh0 Harr) as Href.
  rewrite Hrun in Href. cbn [fst] in Href.
  rewrite spec_of_rem0, V_app in Href by exact Hr0.
  assert (Hjoin : (sn_flat x id, sn_end x id) = (flat0 ++ fst fa, E s0 (snd fa))).
  { rewrite Hj. unfold joined, fa, E. destruct (q_end (st_q s0)); cbn [fst snd]; rewrite ?app_nil_r; reflexivity. }
  inversion Hjoin as [[Hf He]].
  exists (V s0 [] ++ fst fa), obs. split; [exact Hann|]. split; [|split; [exact Htk|split; [rewrite He; exact Href|exact Hcz]]].
  rewrite Hf. apply uni_header_app. exact Hhd.
Qed.

(* T1 / T2, the part about stream types: STOP_SENDING only on announced streams of unknown type, once, with
   H3_STREAM_CREATION_ERROR; "second critical stream" only when the peer really opened two of them; the header
   reader never fails the connection *)
Theorem stream_types_bytes role grease wt credit dflt h :
  whist_ok h ->
  let d := run_history h (new_drv role grease wt credit dflt) in
  let x := sent_of h in
  frozen (conn_of d) (world_of d) x.
Proof.
  intros Hh d x. pose proof (bytes_invariant role grease wt credit dflt h Hh) as Hd. fold d x in Hd.
  unfold dgood in Hd. unfold conn_of, world_of. destruct (d_s d) as [[c0 w0] wr0]. destruct Hd as (Hf & _). exact Hf.
Qed.

(* liveness of the stream handling: while the driver is running and the last thing that happened was a poll,
   every stream still pending has an incomplete header and has not ended - hence every stream whose complete header
   was delivered has been classified (unknown ones refused), and every stream that ended early has been dropped *)
Theorem polled_streams_settled wt x c w wr r c' w' wr' :
  poll_accept_recv wt (c, w, wr) = (r, (c', w', wr')) -> good c w x ->
  c_err c' = None -> just_polled x (c_pending c').
Proof.
  intros H [A1 A2 A3 A4 A5 [A6 A7]] Hn.
  destruct (poll_accept_recv_bytes _ x _ _ _ _ _ _ _ H A4 A5 A1 A2 A3 A6 (A7 A4)) as (_ & _ & _ & Hl).
  destruct (Hl Hn) as (_ & Hp & _). exact Hp.
Qed.

(* ====================================================================================== *)
(* T2: every connection error is one the specification allows for what the peer sent      *)
(* ====================================================================================== *)
Definition sdescs (x : sent) : list sdesc :=
  map (fun id => {| sd_id := id; sd_bytes := sn_flat x id; sd_end := sn_end x id |}) (sn_ann x).

(* the rule table over a prefix of the token list *)
Lemma ctl_scan_run r : forall fs st more t,
  match ctl_run r st fs with
  | (acts, _, Some codes) =>
      fst (fst (ctl_scan r st (map TFrame fs ++ more) t)) = acts /\
      snd (fst (ctl_scan r st (map TFrame fs ++ more) t)) = codes
  | (acts, st', None) =>
      fst (fst (ctl_scan r st (map TFrame fs ++ more) t)) = acts ++ fst (fst (ctl_scan r st' more t)) /\
      snd (fst (ctl_scan r st (map TFrame fs ++ more) t)) = snd (fst (ctl_scan r st' more t))
  end.
Proof.
  induction fs as [|f fs IH]; intros st more t; cbn [ctl_run map app ctl_scan].
  - auto.
  - destruct (ctl_rule r st f) as [a st1 soft|codes]; [|cbn; auto].
    specialize (IH st1 more t).
    destruct (ctl_run r st1 fs) as [[acts st2] [codes|]];
      destruct (ctl_scan r st1 (map TFrame fs ++ more) t) as [[a1 h1] s1]; cbn [fst snd] in *;
      destruct IH as [-> ->]; auto.
Qed.

Lemma ctl_scan_bytes r st bs t : ctl_scan r st (map TByte bs) t = ([], tail_rule (cs_got st) t, []).
Proof. induction bs as [|b bs IH]; cbn [map ctl_scan]; auto. Qed.

(* a control stream the peer announced contributes its violations to the allowed set *)
Lemma control_in_spec sc r x id rest :
  In id (sn_ann x) -> uni_header (sn_flat x id) = Some (ST_CONTROL, None, rest) ->
  In (control_view_with sc r rest (sn_end x id)) (controls_with sc r (sdescs x)).
Proof.
  intros Hin Hh. unfold controls_with, sdescs. apply in_flat_map.
  exists {| sd_id := id; sd_bytes := sn_flat x id; sd_end := sn_end x id |}. split.
  - apply in_map_iff. exists id. auto.
  - unfold classify_stream. cbn [sd_bytes sd_end]. unfold uni_header in Hh.
    destruct (rfc_take_varint (sn_flat x id)) as [[ty r1]|]; [|discriminate].
    destruct (has_second_varint ty) eqn:H2.
    + destruct (rfc_take_varint r1) as [[i r2]|]; discriminate.
    + inversion Hh; subst. cbn. left. reflexivity.
Qed.

Lemma hard_of_control sc r h v e : In v (controls_with sc r h) -> In e (cv_hard v) -> In e (hs_hard (uni_spec_with sc r h)).
Proof.
  intros Hv He. unfold uni_spec_with. cbn [hs_hard]. apply in_app_iff. right. apply in_flat_map. eauto.
Qed.
Lemma closed_of_control sc r h v e : In v (controls_with sc r h) -> In e (cv_closed v) -> In e (hs_soft (uni_spec_with sc r h)).
Proof.
  intros Hv He. unfold uni_spec_with. cbn [hs_soft]. apply in_app_iff. right. apply in_app_iff. left. apply in_flat_map. eauto.
Qed.

(* two announced streams of one critical type *)
Lemma count_two (p : sclass -> bool) x ty :
  NoDup (sn_ann x) -> two_of x ty ->
  (forall id, hdr_type x id = Some ty -> p (classify_stream {| sd_id := id; sd_bytes := sn_flat x id; sd_end := sn_end x id |}) = true) ->
  (2 <=? count_class p (sdescs x))%nat = true.
Proof.
  intros Hnd (a & b & Hne & Ha & Hb & Hta & Htb) Hp. unfold count_class, sdescs.
  rewrite <- (map_length (fun s => sd_id s)).
  assert (Hin : forall j, In j (sn_ann x) -> hdr_type x j = Some ty ->
            In j (map (fun s => sd_id s) (filter (fun s => p (classify_stream s))
                 (map (fun id => {| sd_id := id; sd_bytes := sn_flat x id; sd_end := sn_end x id |}) (sn_ann x))))).
  { intros j Hj Ht. apply in_map_iff. exists {| sd_id := j; sd_bytes := sn_flat x j; sd_end := sn_end x j |}.
    split; [reflexivity|]. apply filter_In. split; [apply in_map_iff; eauto|apply Hp; exact Ht]. }
  pose proof (Hin a Ha Hta) as Ia. pose proof (Hin b Hb Htb) as Ib.
  destruct (map (fun s => sd_id s) _) as [|y [|z l]]; cbn [length].
  - destruct Ia.
  - exfalso. destruct Ia as [<-|[]]. destruct Ib as [<-|[]]. congruence.
  - reflexivity.
Qed.

(* the reference reader only says "aborted" when the stream was *)
Lemma outcome_aborted sc : forall fuel v en ts q, outcome_from fuel sc v en = (ts, Aborted q) -> en = Broken q.
Proof.
  assert (Hcut : forall en q, cut_tail en = Aborted q -> en = Broken q) by (intros [| |e] q H; inversion H; reflexivity).
  assert (Hbd : forall en q, boundary_tail en = Aborted q -> en = Broken q) by (intros [| |e] q H; inversion H; reflexivity).
  induction fuel as [|fuel IH]; intros v en ts q H; cbn [outcome_from] in H; [discriminate|].
  destruct v as [|b0 v']; [inversion H; auto|].
  destruct (rfc_take_varint (b0 :: v')) as [[ty r1]|]; [|inversion H; auto].
  destruct (ty =? T_WEBTRANSPORT_STREAM).
  - destruct (rfc_take_varint r1) as [[sid r2]|]; inversion H; auto.
  - destruct (rfc_take_varint r1) as [[l r2]|]; [|inversion H; auto].
    destruct (ty =? T_DATA).
    + destruct (len r2 <? l); [inversion H; auto|].
      destruct (outcome_from fuel sc (skipn (N.to_nat l) r2) en) as [ts1 t1] eqn:Ho. inversion H; subst. eapply IH; eauto.
    + destruct (len r2 <? l); [inversion H; auto|].
      destruct (classify sc ty (firstn (N.to_nat l) r2)).
      * destruct (outcome_from fuel sc (skipn (N.to_nat l) r2) en) as [ts1 t1] eqn:Ho. inversion H; subst. eapply IH; eauto.
      * discriminate.
      * eapply IH; eauto.
Qed.

Lemma code_facts :
  code_pc_closed = E_CLOSED_CRITICAL /\ code_pc_reset = E_CLOSED_CRITICAL /\ code_pc_unexpected_end = E_FRAME_ERROR /\
  code_par_two_control = E_STREAM_CREATION /\ code_par_two_encoder = E_STREAM_CREATION /\
  code_par_two_decoder = E_STREAM_CREATION /\
  perr_code PK_Malformed = Some E_FRAME_ERROR /\ perr_code PK_ForbiddenFrame = Some E_FRAME_UNEXPECTED /\
  perr_code PK_Settings = Some E_SETTINGS_ERROR.
Proof. vm_compute. repeat split; reflexivity. Qed.

Theorem errors_allowed role grease wt credit dflt h e :
  whist_ok h ->
  let d := run_history h (new_drv role grease wt credit dflt) in
  d_res d <> RIndet -> d_res d = RErr e ->
  In e (allowed_errors_with settings_verdict (srole_of role) (sdescs (sent_of h))).
Proof.
  intros Hh d Hni Hres.
  pose proof (exactly_once role grease wt credit dflt h) as Hx. cbv zeta in Hx. fold d in Hx. specialize (Hx Hni).
  pose proof (control_stream_bytes role grease wt credit dflt h Hh) as Hb. cbv zeta in Hb. fold d in Hb.
  pose proof (stream_types_bytes role grease wt credit dflt h Hh) as Hf. cbv zeta in Hf. fold d in Hf.
  set (x := sent_of h) in *. set (c := conn_of d) in *.
  destruct Hh as [_ Hnd]. fold x in Hnd.
  destruct code_facts as (K1 & K2 & K3 & K4 & K5 & K6 & K7 & K8 & K9).
  unfold allowed_errors_with. apply in_app_iff.
  (* facts about the control stream, when there is one *)
  assert (Hctlfacts : forall id fs, c_control c = Some (id, fs) ->
            exists rest obs, In (control_view_with settings_verdict (srole_of role) rest (sn_end x id))
                               (controls_with settings_verdict (srole_of role) (sdescs x)) /\
              toks_of obs = map TFrame (c_taken c) /\
              refines obs (frame_outcome settings_verdict rest (sn_end x id)) (sn_end x id) (settled (c_trace c)) /\
              (forall z, c_cause c = Some z -> cause_last z obs)).
  { intros id fs Hc. rewrite Hc in Hb. destruct Hb as (rest & obs & Hin & Hh & Htk & Href & Hcz).
    exists rest, obs. split; [apply control_in_spec; assumption|auto]. }
  (* a failure of the control stream itself: the last observation is final and C02 explains it *)
  assert (final_facts : forall z, c_cause c = Some z -> ctl_cause z = true ->
            exists id rest obs,
              In (control_view_with settings_verdict (srole_of role) rest (sn_end x id))
                 (controls_with settings_verdict (srole_of role) (sdescs x)) /\
              toks_of obs = map TFrame (c_taken c) /\ cause_last z obs /\
              (forall o0, last_obs obs = Some o0 -> obs_final o0 = true ->
                 exists t, tail_of_obs o0 = Some t /\
                   refines_final (toks_of obs) t (frame_outcome settings_verdict rest (sn_end x id)) (sn_end x id))).
  { intros z Hz Hk. destruct (c_control c) as [[id fs]|] eqn:Hc.
    - destruct (Hctlfacts id fs eq_refl) as (rest & obs & Hv & Htk & Href & Hcz).
      exists id, rest, obs. split; [exact Hv|]. split; [exact Htk|]. split; [apply Hcz; exact Hz|].
      destruct Href as (_ & Hfin & _). exact Hfin.
    - destruct Hb as [_ Hb]. rewrite (Hb z Hz) in Hk. discriminate. }
  destruct (ctl_run (srole_of role) cs_init (c_taken c)) as [[acts st] [codes|]] eqn:Hrun.
  - (* a frame of the control stream was refused *)
    destruct Hx as (_ & e' & He' & Hin). rewrite Hres in He'. inversion He'; subst e'.
    destruct (c_control c) as [[id fs]|] eqn:Hc.
    2:{ destruct Hb as [Hb _]. rewrite Hb in Hrun. cbn in Hrun. discriminate. }
    destruct (Hctlfacts id fs eq_refl) as (rest & obs & Hv & Htk & Href & _).
    left. eapply hard_of_control; [exact Hv|].
    unfold control_view_with. destruct (frame_outcome settings_verdict rest (sn_end x id)) as [ts t] eqn:Ho.
    destruct Href as ((more & Hmore) & _). cbn [fst] in Hmore. rewrite Htk in Hmore. subst ts.
    pose proof (ctl_scan_run (srole_of role) (c_taken c) cs_init more t) as Hs. rewrite Hrun in Hs.
    destruct (ctl_scan (srole_of role) cs_init (map TFrame (c_taken c) ++ more) t) as [[a1 h1] s1]. cbn [fst snd] in Hs.
    destruct Hs as [_ ->]. cbn [cv_hard]. exact Hin.
  - destruct Hx as (Hacts & Hcause). destruct (Hcause e Hres) as (z & Hz & Hpc).
    destruct Hf as [F1 F2 F3 F4 F5 F6].
    destruct Hpc as [Hpar|[[Ez Ee]|[[Ez Ee]|[[Ez Ee]|(k & Ez & Hk)]]]]; try subst z; try subst e.
    + (* a second critical stream *)
      left. unfold uni_spec_with. cbn [hs_hard]. apply in_app_iff. left. unfold duplicates.
      destruct Hpar as [[Ez Ee]|[[Ez Ee]|[[Ez Ee]|Ez]]]; try subst z; try subst e; [| | |congruence].
      * rewrite (count_two is_control x ST_CONTROL Hnd (F3 Hz)); [rewrite K4; left; reflexivity|].
        intros j Ht. unfold hdr_type, uni_header, classify_stream in *. cbn [sd_bytes].
        destruct (rfc_take_varint (sn_flat x j)) as [[ty r1]|]; [|discriminate].
        destruct (has_second_varint ty) eqn:H2; [destruct (rfc_take_varint r1) as [[i r2]|]; [|discriminate]|];
          inversion Ht; subst; try discriminate H2; reflexivity.
      * rewrite (count_two is_encoder x ST_QPACK_ENCODER Hnd (F4 Hz)); [rewrite orb_true_r, K5; left; reflexivity|].
        intros j Ht. unfold hdr_type, uni_header, classify_stream in *. cbn [sd_bytes].
        destruct (rfc_take_varint (sn_flat x j)) as [[ty r1]|]; [|discriminate].
        destruct (has_second_varint ty) eqn:H2; [destruct (rfc_take_varint r1) as [[i r2]|]; [|discriminate]|];
          inversion Ht; subst; try discriminate H2; reflexivity.
      * rewrite (count_two is_decoder x ST_QPACK_DECODER Hnd (F5 Hz)); [rewrite !orb_true_r, K6; left; reflexivity|].
        intros j Ht. unfold hdr_type, uni_header, classify_stream in *. cbn [sd_bytes].
        destruct (rfc_take_varint (sn_flat x j)) as [[ty r1]|]; [|discriminate].
        destruct (has_second_varint ty) eqn:H2; [destruct (rfc_take_varint r1) as [[i r2]|]; [|discriminate]|];
          inversion Ht; subst; try discriminate H2; reflexivity.
    + (* the control stream was reset *)
      destruct (final_facts CzCtlReset Hz eq_refl) as (id & rest & obs & Hv & Htk & Hlast & Hfin).
      destruct Hlast as [q Hlast]. rewrite Hlast in Hfin.
      destruct (Hfin _ eq_refl eq_refl) as (t & Ht & Hrf). cbn in Ht. inversion Ht; subst t.
      right. eapply closed_of_control; [exact Hv|]. unfold control_view_with.
      destruct (frame_outcome settings_verdict rest (sn_end x id)) as [ts tl] eqn:Ho.
      destruct (ctl_scan (srole_of role) cs_init ts tl) as [[a1 h1] s1]. cbn [cv_closed].
      assert (Hbr : exists q0, sn_end x id = Broken q0).
      { destruct Hrf as [[_ Hs]|[[Hx _]|(ee0 & rst & He0 & _)]]; [|discriminate Hx|eauto].
        cbn [snd] in Hs. subst tl. unfold frame_outcome in Ho. apply outcome_aborted in Ho. eauto. }
      destruct Hbr as [q0 ->]. cbn. rewrite K2. left. reflexivity.
    + (* the control stream ended inside a frame *)
      destruct (final_facts CzCtlTruncated Hz eq_refl) as (id & rest & obs & Hv & Htk & Hlast & Hfin).
      rewrite Hlast in Hfin.
      destruct (Hfin _ eq_refl eq_refl) as (t & Ht & Hrf). cbn in Ht. inversion Ht; subst t.
      left. eapply hard_of_control; [exact Hv|]. unfold control_view_with.
      destruct (frame_outcome settings_verdict rest (sn_end x id)) as [ts tl] eqn:Ho. cbn [fst snd] in Hrf.
      assert (Hshape : tl = FrameError /\ exists bs, ts = map TFrame (c_taken c) ++ map TByte bs).
      { destruct Hrf as [[H1 H2]|[(_ & H2 & bs & H3)|(ee0 & rst & _ & Hx & _)]]; [| |discriminate Hx].
        - split; [auto|]. exists []. rewrite app_nil_r, <- Htk. auto.
        - split; [auto|]. exists bs. rewrite <- Htk. auto. }
      destruct Hshape as [-> [bs ->]].
      pose proof (ctl_scan_run (srole_of role) (c_taken c) cs_init (map TByte bs) FrameError) as Hs. rewrite Hrun in Hs.
      rewrite ctl_scan_bytes in Hs.
      destruct (ctl_scan (srole_of role) cs_init (map TFrame (c_taken c) ++ map TByte bs) FrameError) as [[a1 h1] s1].
      cbn [fst snd] in Hs. destruct Hs as [_ ->]. cbn [cv_hard tail_rule]. rewrite K3. left. reflexivity.
    + (* the control stream ended between frames *)
      destruct (final_facts CzCtlClosed Hz eq_refl) as (id & rest & obs & Hv & Htk & Hlast & Hfin).
      rewrite Hlast in Hfin.
      destruct (Hfin _ eq_refl eq_refl) as (t & Ht & Hrf). cbn in Ht. inversion Ht; subst t.
      left. eapply hard_of_control; [exact Hv|]. unfold control_view_with.
      destruct (frame_outcome settings_verdict rest (sn_end x id)) as [ts tl] eqn:Ho. cbn [fst snd] in Hrf.
      assert (Hshape : tl = CleanEnd /\ ts = map TFrame (c_taken c) ++ []).
      { destruct Hrf as [[H1 H2]|[(Hx & _)|(ee0 & rst & _ & Hx & _)]]; [|discriminate Hx|discriminate Hx].
        split; [auto|]. rewrite app_nil_r, <- Htk. auto. }
      destruct Hshape as [-> ->].
      pose proof (ctl_scan_run (srole_of role) (c_taken c) cs_init [] CleanEnd) as Hs. rewrite Hrun in Hs.
      destruct (ctl_scan (srole_of role) cs_init (map TFrame (c_taken c) ++ []) CleanEnd) as [[a1 h1] s1].
      cbn [fst snd ctl_scan] in Hs. destruct Hs as [_ ->]. cbn [cv_hard tail_rule]. rewrite K1. left. reflexivity.
    + (* the frame layer refused a frame of the control stream *)
      destruct (final_facts (CzCtlProto k) Hz eq_refl) as (id & rest & obs & Hv & Htk & Hlast & Hfin).
      destruct Hlast as (fe & Hlast & Hmf). rewrite Hlast in Hfin.
      destruct (Hfin _ eq_refl eq_refl) as (t & Ht & Hrf). cbn [tail_of_obs] in Ht.
      left. eapply hard_of_control; [exact Hv|]. unfold control_view_with.
      destruct (frame_outcome settings_verdict rest (sn_end x id)) as [ts tl] eqn:Ho. cbn [fst snd] in Hrf.
      assert (Hshape : tl = t /\ ts = map TFrame (c_taken c) ++ []).
      { destruct fe; cbn in Ht; try discriminate Ht; inversion Ht; subst t;
          (destruct Hrf as [[H1 H2]|[(Hx & _)|(ee0 & rst & _ & Hx & _)]]; [|discriminate Hx|discriminate Hx]);
          (split; [auto|]); rewrite app_nil_r, <- Htk; auto. }
      destruct Hshape as [-> ->].
      pose proof (ctl_scan_run (srole_of role) (c_taken c) cs_init [] t) as Hs. rewrite Hrun in Hs.
      destruct (ctl_scan (srole_of role) cs_init (map TFrame (c_taken c) ++ []) t) as [[a1 h1] s1].
      cbn [fst snd ctl_scan] in Hs. destruct Hs as [_ ->]. cbn [cv_hard].
      destruct fe; cbn in Ht; try discriminate Ht; inversion Ht; subst t; cbn [tail_rule];
        cbn in Hmf; inversion Hmf; subst k; rewrite ?K7, ?K8, ?K9 in Hk; inversion Hk; subst e; left; reflexivity.
Qed.

(* T1 as a corollary *)
Theorem no_error_unless_allowed role grease wt credit dflt h :
  whist_ok h ->
  let d := run_history h (new_drv role grease wt credit dflt) in
  d_res d <> RIndet ->
  allowed_errors_with settings_verdict (srole_of role) (sdescs (sent_of h)) = [] ->
  forall e, d_res d <> RErr e.
Proof.
  intros Hh d Hni Hnone e He.
  pose proof (errors_allowed role grease wt credit dflt h e Hh Hni He) as Hin. fold d in Hin.
  rewrite Hnone in Hin. destruct Hin.
Qed.

(* the stream-type facts, unfolded *)
Theorem stream_types_statement role grease wt credit dflt h :
  whist_ok h ->
  let d := run_history h (new_drv role grease wt credit dflt) in
  let x := sent_of h in
  let c := conn_of d in
  let w := world_of d in
  (forall id code, In (id, code) (l_stops (w_log w)) ->
     code = E_STREAM_CREATION /\ In id (sn_ann x) /\ exists ty, hdr_type x id = Some ty /\ unknown_type ty) /\
  NoDup (map fst (l_stops (w_log w))) /\
  (c_cause c = Some CzTwoControl -> two_of x ST_CONTROL) /\
  (c_cause c = Some CzTwoEncoder -> two_of x ST_QPACK_ENCODER) /\
  (c_cause c = Some CzTwoDecoder -> two_of x ST_QPACK_DECODER) /\
  c_cause c <> Some CzHeaderInternal.
Proof.
  intros Hh d x c w.
  destruct (stream_types_bytes role grease wt credit dflt h Hh) as [F1 F2 F3 F4 F5 F6]. auto 10.
Qed.

(* ====================================================================================== *)
(* Liveness: what a poll of the running driver leaves behind                              *)
(* ====================================================================================== *)
Lemma settled_snoc_call : forall h, settled (h ++ [CallAuto]) = true.
Proof.
  induction h as [|a h IH]; cbn [app settled]; [reflexivity|].
  destruct a; try exact IH. rewrite IH, andb_true_r, existsb_app. cbn. apply orb_true_r.
Qed.

Lemma par_iter_incoming wt : forall todo kept c w wr r c' w' wr',
  par_iter wt todo kept (c, w, wr) = (r, (c', w', wr')) -> w_incoming w' = w_incoming w.
Proof.
  assert (Hfail : forall (z : cause) code c0 w0 wr0 (r : pres unit) c' w' wr',
            fail z code (c0, w0, wr0) = (r, (c', w', wr')) -> w_incoming w' = w_incoming w0).
  { intros z code c0 w0 wr0 r c' w' wr' H. rewrite fail_spec in H. destruct (c_err c0); inversion H; subst; reflexivity. }
  induction todo as [|[id a] rest IH]; intros kept c w wr r c' w' wr' H; cbn [par_iter] in H.
  - inversion H; subst. reflexivity.
  - destruct (poll_type a (rxq w id)) as [[p a'] q'].
    assert (Hi : forall ww, w_incoming ww = w_incoming (set_rxq w id q') -> w_incoming ww = w_incoming w) by (intros ww Hx; exact Hx).
    destruct p as [[u|e|n]|].
    + destruct (into_stream_kind a') as [k|e|n]; [|inversion H; subst; reflexivity|inversion H; subst; reflexivity].
      cbn [c_control c_enc c_dec log_seen] in H. destruct k.
      * destruct (c_control c); [apply Hfail in H; exact H|apply IH in H; exact H].
      * apply IH in H; exact H.
      * destruct (c_enc c); [apply Hfail in H; exact H|apply IH in H; exact H].
      * destruct (c_dec c); [apply Hfail in H; exact H|apply IH in H; exact H].
      * destruct wt; apply IH in H; exact H.
      * apply IH in H; exact H.
    + destruct e as [|code|qe].
      * apply IH in H; exact H.
      * apply Hfail in H; exact H.
      * inversion H; subst. reflexivity.
    + inversion H; subst. reflexivity.
    + apply IH in H; exact H.
Qed.

Lemma poll_accept_recv_incoming wt c w wr r c' w' wr' :
  c_err c = None -> poll_accept_recv wt (c, w, wr) = (r, (c', w', wr')) -> w_incoming w' = [].
Proof.
  intros He H. unfold poll_accept_recv in H. rewrite He in H. apply par_iter_incoming in H. exact H.
Qed.

(* nothing delivered so far is left unexamined *)
Definition ctl_drained (c : conn) : Prop :=
  forall id fs, c_control c = Some (id, fs) ->
    exists s0, c_ctl0 c = Some s0 /\
      last_obs (fst (run (c_trace c) s0 false)) = Some (ONext Pending) /\ settled (c_trace c) = true.
Definition quiet (c : conn) (w : world) (x : sent) : Prop :=
  just_polled x (c_pending c) /\ w_incoming w = [] /\ ctl_drained c.

Lemma quiet_parts c c' w w' x :
  stream_part c' = stream_part c -> wsame w w' -> quiet c w x -> quiet c' w' x.
Proof.
  intros Hp (_ & Hi & _) (Q1 & Q2 & Q3). apply stream_part_inv in Hp. destruct Hp as (A & B & _ & _ & E & F & _).
  unfold quiet, ctl_drained. rewrite A, B, E, F, Hi. auto.
Qed.

Lemma poll_control_quiet wt x c w wr c' w' wr' :
  poll_control wt (c, w, wr) = (PPending, (c', w', wr')) -> good c w x -> quiet c' w' x.
Proof.
  intros H [A1 A2 A3 A4 A5 [A6 A7]]. unfold poll_control in H. rewrite A4 in H.
  destruct (poll_accept_recv wt (c, w, wr)) as [r1 [[c1 w1] wr1]] eqn:Hpar.
  pose proof (poll_accept_recv_frame _ _ _ _ _ _ _ _ Hpar) as (Hfp & -> & _).
  pose proof (poll_accept_recv_bytes _ x _ _ _ _ _ _ _ Hpar A4 A5 A1 A2 A3 A6 (A7 A4)) as (_ & Hci1 & _ & Hl1).
  pose proof (poll_accept_recv_incoming _ _ _ _ _ _ _ _ A4 Hpar) as Hinc.
  destruct Hfp as (_ & _ & _ & Ho).
  destruct r1 as [u| |e|n| |]; try discriminate H.
  2:{ (* poll_accept_recv never answers Pending *)
      exfalso. unfold poll_accept_recv in Hpar. rewrite A4 in Hpar. clear - Hpar.
      revert Hpar. generalize (c_pending c ++ map (fun id : N => (id, ar_new)) (w_incoming w)) at 1.
      generalize (set_pending c (c_pending c ++ map (fun id : N => (id, ar_new)) (w_incoming w))), (set_incoming w []).
      intros c0 w0 todo. generalize (@nil (N * arecv)). revert c0 w0.
      induction todo as [|[id a] rest IH]; intros c0 w0 kept Hp; cbn [par_iter] in Hp; [discriminate|].
      destruct (poll_type a (rxq w0 id)) as [[p a'] q'].
      assert (Hf : forall (z : cause) code s0, fail z code s0 = (@PPending unit, (c1, w1, wr)) -> False).
      { intros z code [[cc ww] wwr] Hx. rewrite fail_spec in Hx. destruct (c_err cc); discriminate. }
      destruct p as [[u|e|n]|]; try (eapply IH; eauto; fail); try discriminate.
      - destruct (into_stream_kind a') as [k|e|n]; try discriminate.
        cbn [c_control c_enc c_dec log_seen] in Hp. destruct k; try (eapply IH; eauto; fail).
        + destruct (c_control c0); [eapply Hf; eauto|eapply IH; eauto].
        + destruct (c_enc c0); [eapply Hf; eauto|eapply IH; eauto].
        + destruct (c_dec c0); [eapply Hf; eauto|eapply IH; eauto].
        + destruct wt; eapply IH; eauto.
      - destruct e as [|code|qe]; try discriminate; [eapply IH; eauto|eapply Hf; eauto]. }
  cbn [err_of] in Ho. specialize (Ho A4). destruct (Hl1 Ho) as (_ & Hpolled & _).
  destruct (c_control c1) as [[id fs]|] eqn:Hctl.
  2:{ inversion H; subst. split; [exact Hpolled|]. split; [exact Hinc|]. intros j fj Hx. congruence. }
  destruct (poll_next (fs_with_q fs (rxq w1 id))) as [pr fs'] eqn:Hpn.
  assert (Hpend : pr = Pending /\ c' = set_ghost (set_control c1 (Some (id, fs_with_q fs' []))) (c_ctl0 c1) (c_trace c1 ++ [CallAuto])
                  /\ w' = set_rxq w1 id (st_q fs')).
  { destruct pr as [[[f|]|e|n]|].
    - exfalso. apply control_frame_spec in H; [|exact Ho].
      destruct H as [(_ & [Hx|Hx] & _)|(e & _ & Hx & _)]; discriminate.
    - rewrite fail_spec in H. cbn [c_err set_ghost set_control set_slots] in H. rewrite Ho in H. discriminate.
    - exfalso. destruct e as [k fe|qe|].
      + destruct (perr_code k); [|discriminate]. rewrite fail_spec in H. cbn [c_err set_ghost set_control set_slots] in H. rewrite Ho in H. discriminate.
      + destruct qe; try discriminate. rewrite fail_spec in H. cbn [c_err set_ghost set_control set_slots] in H. rewrite Ho in H. discriminate.
      + rewrite fail_spec in H. cbn [c_err set_ghost set_control set_slots] in H. rewrite Ho in H. discriminate.
    - discriminate.
    - inversion H; subst. auto. }
  destruct Hpend as (-> & -> & ->).
  split; [exact Hpolled|]. split; [exact Hinc|].
  intros j fj Hx. cbn [c_control set_ghost set_control set_slots] in Hx. inversion Hx; subst j fj.
  unfold ctl_inv2 in Hci1. rewrite Hctl in Hci1.
  destruct Hci1 as (s0 & obs & flat0 & _ & H0 & _ & _ & _ & Hrun & _ & _ & _ & _ & Hgo).
  destruct (Hgo eq_refl) as (_ & Hrc & Hfin).
  exists s0. cbn [c_ctl0 c_trace set_ghost set_control set_slots]. split; [exact H0|].
  rewrite (run_snoc_call _ _ _ _ Hrun Hfin Hrc), Hpn. cbn [fst]. split; [apply last_obs_app|apply settled_snoc_call].
Qed.

Lemma next_control_quiet role wt x c w wr c' w' wr' :
  next_control role wt (c, w, wr) = (PPending, (c', w', wr')) -> good c w x -> quiet c' w' x.
Proof.
  intros H Hg.
  destruct (poll_control wt (c, w, wr)) as [r0 [[c1 w1] wr1]] eqn:Hp.
  assert (Hnf : forall (z : cause) code s0 (r : pres unit) s1, fail z code s0 = (r, s1) -> r <> PPending).
  { intros z code [[cc ww] wwr] r s1 Hx. rewrite fail_spec in Hx. destruct (c_err cc); inversion Hx; discriminate. }
  assert (Hgo : forall id s0 s1,
            match process_goaway id s0 with
            | (PReady _, s2) => (PReady tt, log_s (AGoaway id) s2)
            | (r2, s2) => (r2, s2)
            end = (@PPending unit, s1) -> False).
  { intros id [[cc ww] wwr] s1 Hx. unfold process_goaway in Hx.
    destruct (c_recv_closing cc) as [p|]; [|discriminate].
    destruct (gcmp_eval goaway_reject_cmp p id); [|discriminate].
    rewrite fail_spec in Hx. destruct (c_err cc); discriminate. }
  assert (Hpend : r0 = PPending /\ (c1, w1, wr1) = (c', w', wr')).
  { destruct role; cbn [next_control] in H; [unfold srv_next_control in H|unfold cli_next_control in H]; rewrite Hp in H.
    - destruct r0 as [f| |e|n| |]; try discriminate; [|inversion H; auto].
      exfalso. destruct f; try (eapply Hnf; eauto; fail); try discriminate H; try (eapply Hgo; eauto; fail);
        try (destruct (kind_in _ srv_ignored); [discriminate H|eapply Hnf; eauto]).
    - destruct r0 as [f| |e|n| |]; try discriminate; [|inversion H; auto].
      exfalso. destruct f; try (eapply Hnf; eauto; fail); try discriminate H.
      destruct (negb (sid_is_request id)); [eapply Hnf; eauto|eapply Hgo; eauto]. }
  destruct Hpend as [-> Heq]. inversion Heq; subst. eapply poll_control_quiet; eauto.
Qed.

Lemma control_loop_quiet role wt x : forall fuel c w wr c' w' wr',
  control_loop (next_control role wt) fuel (c, w, wr) = (PPending, (c', w', wr')) -> good c w x -> quiet c' w' x.
Proof.
  induction fuel as [|fuel IH]; intros c w wr c' w' wr' H Hg; cbn [control_loop] in H; [discriminate|].
  destruct (next_control role wt (c, w, wr)) as [r1 [[c1 w1] wr1]] eqn:Hn.
  destruct r1 as [u| |e|n| |]; try discriminate.
  - pose proof (next_control_bytes _ _ x _ _ _ _ _ _ _ Hn Hg) as (_ & _ & _ & Hgo). eapply IH; [exact H|apply Hgo; reflexivity].
  - inversion H; subst. eapply next_control_quiet; eauto.
Qed.

(* the driver has just run its control loop to Pending *)
Definition dquiet (d : drv) (x : sent) : Prop :=
  match d_ph d with
  | PhRun | PhNone => let '(c, w, _) := d_s d in quiet c w x
  | _ => True
  end.

Lemma dquiet_finish d ph c w wr x r : quiet c w x -> dquiet (finish d ph (c, w, wr) r) x.
Proof. intros Hq. unfold dquiet. cbn [d_ph d_s finish]. destruct ph; auto. Qed.
Lemma dquiet_other d ph s x r : ph <> PhRun -> ph <> PhNone -> dquiet (finish d ph s r) x.
Proof. intros H1 H2. unfold dquiet. cbn [d_ph finish]. destruct ph; auto; congruence. Qed.

Lemma run_driver_quiet d c w wr x : good c w x -> dquiet (run_driver d (c, w, wr)) x.
Proof.
  intros Hg. unfold run_driver. destruct (d_role d).
  - destruct (control_loop (next_control RServer (d_wt d)) (fuel_of (c, w, wr)) (c, w, wr)) as [res [[c1 w1] wr1]] eqn:Hl.
    destruct res as [u| |e|n| |]; try (apply dquiet_other; discriminate).
    pose proof (control_loop_quiet _ _ x _ _ _ _ _ _ _ Hl Hg) as Hq.
    destruct (c_recv_closing c1).
    + destruct (c_sent c1); [apply dquiet_finish; exact Hq|].
      unfold run_shutdown.
      destruct (poll_ready (control_send_id (d_role d)) _ w1) as [[y wr2] w2] eqn:Hp. apply poll_ready_wsame in Hp.
      destruct y; try (apply dquiet_other; discriminate).
      apply dquiet_finish. eapply quiet_parts; [|exact Hp|exact Hq]. reflexivity.
    + apply dquiet_finish. exact Hq.
  - destruct (control_loop (next_control RClient (d_wt d)) (fuel_of (c, w, wr)) (c, w, wr)) as [res [[c1 w1] wr1]] eqn:Hl.
    destruct res as [u| |e|n| |]; try (apply dquiet_other; discriminate).
    apply dquiet_finish. eapply control_loop_quiet; eauto.
Qed.

Lemma run_headers_quiet d c w wr x : good c w x -> dquiet (run_headers d (c, w, wr)) x.
Proof.
  intros Hg. unfold run_headers.
  destruct (poll_ready (control_send_id (d_role d)) wr w) as [[r1 wr1] w1] eqn:H1. apply poll_ready_wsame in H1.
  pose proof (good_world _ _ _ _ H1 Hg) as G1.
  destruct r1; try (apply dquiet_other; discriminate);
    destruct (poll_ready (decoder_send_id (d_role d)) wr1 w1) as [[r2 wr2] w2] eqn:H2; apply poll_ready_wsame in H2;
    pose proof (good_world _ _ _ _ H2 G1) as G2;
    destruct r2; try (apply dquiet_other; discriminate);
    destruct (poll_ready (encoder_send_id (d_role d)) wr2 w2) as [[r3 wr3] w3] eqn:H3; apply poll_ready_wsame in H3;
    pose proof (good_world _ _ _ _ H3 G2) as G3;
    destruct r3; try (apply dquiet_other; discriminate).
  apply run_driver_quiet. exact G3.
Qed.

Lemma run_open_quiet d x : forall n k c w wr, good c w x -> dquiet (run_open n k d (c, w, wr)) x.
Proof.
  induction n as [|n IH]; intros k c w wr Hg; cbn [run_open].
  - destruct (3 <=? k); [apply run_headers_quiet; exact Hg|apply dquiet_other; discriminate].
  - destruct (3 <=? k); [apply run_headers_quiet; exact Hg|].
    destruct (open_send w) as [[id w']|] eqn:Ho.
    + apply IH. apply open_send_wsame in Ho. eapply good_world; eauto.
    + apply dquiet_other; discriminate.
Qed.

(* a poll made while the driver is not waiting for its last GOAWAY to be written *)
Lemma drive_quiet d x : dgood d x -> d_ph d <> PhShutdown -> d_ph d <> PhDone -> dquiet (drive d) x.
Proof.
  intros Hd Hns Hnd. unfold drive.
  set (d1 := {| d_role := d_role d; d_grease := d_grease d; d_wt := d_wt d; d_ph := d_ph d; d_s := d_s d;
                d_res := d_res d; d_polls := d_polls d + 1; d_at := d_at d |}).
  unfold dgood, running in Hd. change (d_ph d1) with (d_ph d). change (d_s d1) with (d_s d).
  destruct (d_s d) as [[c w] wr] eqn:Hs.
  destruct (d_ph d) eqn:Hph; try congruence; destruct Hd as (_ & _ & _ & Hg); specialize (Hg eq_refl).
  - apply run_open_quiet. exact Hg.
  - apply run_headers_quiet. exact Hg.
  - apply run_driver_quiet. exact Hg.
  - apply run_driver_quiet. exact Hg.
Qed.

(* what the invariant says about a claimed control stream, with the run made explicit *)
Lemma ctl_refines g c w x id fs :
  ctl_ok g c w x id fs ->
  exists s0 rest,
    c_ctl0 c = Some s0 /\ In id (sn_ann x) /\
    uni_header (sn_flat x id) = Some (ST_CONTROL, None, rest) /\
    toks_of (fst (run (c_trace c) s0 false)) = map TFrame (c_taken c) /\
    refines (fst (run (c_trace c) s0 false)) (frame_outcome settings_verdict rest (sn_end x id)) (sn_end x id)
            (settled (c_trace c)).
Proof.
  intros (s0 & obs & flat0 & Hann & H0 & Hi0 & Hr0 & Hh0 & Hrun & Htk & Hhd & Hj & Hcz & _).
  set (fa := match q_end (st_q s0) with Open => arrivals (c_trace c) | _ => ([], Open) end).
  assert (Hfut : fut_ok s0 (fst fa)).
  { unfold fa. destruct (q_end (st_q s0)) eqn:Hq; split; try constructor; try reflexivity.
    - apply arrivals_wf. exact Hh0.
    - congruence. }
  assert (Harr : q_end (st_q s0) = Open -> arrivals (c_trace c) = (fst fa, snd fa)).
  { intros Hq. unfold fa. rewrite Hq. destruct (arrivals (c_trace c)); reflexivity. }
  pose proof (run_refines (c_trace c) s0 (fst fa) (snd fa) Hi0 Hfut Hh0 Harr) as Href.
  rewrite spec_of_rem0, V_app in Href by exact Hr0.
  assert (Hjoin : (sn_flat x id, sn_end x id) = (flat0 ++ fst fa, E s0 (snd fa))).
  { rewrite Hj. unfold joined, fa, E. destruct (q_end (st_q s0)); cbn [fst snd]; rewrite ?app_nil_r; reflexivity. }
  inversion Hjoin as [[Hf He]].
  exists s0, (V s0 [] ++ fst fa). split; [exact H0|]. split; [exact Hann|].
  split; [rewrite Hf; apply uni_header_app; exact Hhd|].
  rewrite Hrun. cbn [fst]. split; [exact Htk|]. rewrite He. rewrite Hrun in Href. exact Href.
Qed.

(* Liveness.  After a poll of the running driver that was not spent waiting for its own last GOAWAY to be written:
   - no announced stream is left unaccepted; every stream still pending has an incomplete header and has not ended;
   - the control stream, if claimed, has been read to the end of what was delivered: the RFC 7.1 segmentation of its
     bytes consists of exactly the frames taken (all complete frames were taken, none is pending) and the stream is
     still open. *)
Theorem poll_settles role grease wt credit dflt h :
  whist_ok (h ++ [EPoll]) ->
  let d0 := run_history h (new_drv role grease wt credit dflt) in
  let d := run_history (h ++ [EPoll]) (new_drv role grease wt credit dflt) in
  let x := sent_of (h ++ [EPoll]) in
  d_ph d0 <> PhShutdown -> d_ph d = PhRun \/ d_ph d = PhNone ->
  just_polled x (c_pending (conn_of d)) /\ w_incoming (world_of d) = [] /\
  (forall id fs, c_control (conn_of d) = Some (id, fs) ->
     exists rest, In id (sn_ann x) /\ uni_header (sn_flat x id) = Some (ST_CONTROL, None, rest) /\
       frame_outcome settings_verdict rest (sn_end x id) = (map TFrame (c_taken (conn_of d)), Waiting) /\
       sn_end x id = Open).
Proof.
  intros Hh d0 d x Hns Hph.
  assert (Hx : x = sent_of h).
  { unfold x, sent_of. rewrite fold_left_app. reflexivity. }
  assert (Hd : d = drive d0).
  { unfold d, d0, run_history. rewrite fold_left_app. reflexivity. }
  assert (Hh0 : whist_ok h).
  { destruct Hh as [Hf Hn]. split; [apply Forall_app in Hf; tauto|]. fold x in Hn. rewrite Hx in Hn. exact Hn. }
  pose proof (bytes_invariant role grease wt credit dflt h Hh0) as Hg0. fold d0 in Hg0. rewrite <- Hx in Hg0.
  pose proof (bytes_invariant role grease wt credit dflt (h ++ [EPoll]) Hh) as Hg. fold d x in Hg.
  assert (Hnd : d_ph d0 <> PhDone).
  { intros Hdone. assert (Hx2 : d_ph (drive d0) = PhDone) by (unfold drive; cbn [d_ph]; rewrite Hdone; cbn [d_ph]; reflexivity).
    rewrite <- Hd in Hx2. destruct Hph; congruence. }
  pose proof (drive_quiet d0 x Hg0 Hns Hnd) as Hq. rewrite <- Hd in Hq.
  unfold dquiet in Hq. unfold dgood in Hg. unfold conn_of, world_of.
  destruct (d_s d) as [[c w] wr]. destruct Hg as (_ & Hci & _).
  assert (Hq' : quiet c w x) by (destruct Hph as [E|E]; rewrite E in Hq; exact Hq).
  destruct Hq' as (Q1 & Q2 & Q3). split; [exact Q1|]. split; [exact Q2|].
  intros id fs Hc. unfold ctl_inv2 in Hci. rewrite Hc in Hci.
  destruct (ctl_refines _ _ _ _ _ _ Hci) as (s0 & rest & H0 & Hann & Hhd & Htk & Href).
  destruct (Q3 id fs Hc) as (s0' & H0' & Hlast & Hset). rewrite H0 in H0'. inversion H0'; subst s0'.
  destruct Href as (_ & _ & Hquiet). rewrite Hset in Hquiet.
  destruct (Hquiet eq_refl _ Hlast eq_refl) as [Hopen HO].
  exists rest. split; [exact Hann|]. split; [exact Hhd|]. split; [rewrite HO, Htk; reflexivity|exact Hopen].
Qed.

(* ---------- nothing complete is left unanswered ---------- *)
Lemma flat_map_nil {A B} (f : A -> list B) l : (forall a, In a l -> f a = []) -> flat_map f l = [].
Proof.
  induction l as [|a l IH]; intros H; cbn [flat_map]; [reflexivity|].
  rewrite (H a (or_introl eq_refl)), IH; [reflexivity|]. intros b Hb. apply H. right. exact Hb.
Qed.

Lemma filter_nil {A} (q : A -> bool) l : (forall a, In a l -> q a = false) -> filter q l = [].
Proof.
  induction l as [|a l IH]; intros H; cbn [filter]; [reflexivity|].
  rewrite (H a (or_introl eq_refl)). apply IH. intros b Hb. apply H. right. exact Hb.
Qed.

Lemma count_one (p : sclass -> bool) x :
  NoDup (sn_ann x) ->
  (forall a b, In a (sn_ann x) -> In b (sn_ann x) ->
     p (classify_stream {| sd_id := a; sd_bytes := sn_flat x a; sd_end := sn_end x a |}) = true ->
     p (classify_stream {| sd_id := b; sd_bytes := sn_flat x b; sd_end := sn_end x b |}) = true -> a = b) ->
  (2 <=? count_class p (sdescs x))%nat = false.
Proof.
  unfold count_class, sdescs. set (mk := fun id => {| sd_id := id; sd_bytes := sn_flat x id; sd_end := sn_end x id |}).
  set (q := fun s => p (classify_stream s)).
  induction (sn_ann x) as [|a l IH]; intros Hnd Hu; [reflexivity|].
  inversion Hnd as [|a0 l0 Hna Hnd']; subst. cbn [map filter].
  destruct (q (mk a)) eqn:Hqa.
  - rewrite (filter_nil q (map mk l)); [reflexivity|].
    intros s Hs. apply in_map_iff in Hs. destruct Hs as (b & <- & Hb).
    destruct (q (mk b)) eqn:Hqb; [|reflexivity]. exfalso. apply Hna.
    rewrite (Hu a b); [exact Hb|left; reflexivity|right; exact Hb|exact Hqa|exact Hqb].
  - apply IH; [exact Hnd'|]. intros a1 b1 Ha1 Hb1. apply Hu; right; assumption.
Qed.

(* the types the specification calls unknown are the ones into_stream has no arm for *)
Lemma unknown_of_spec ty :
  (ty =? ST_CONTROL) = false -> (ty =? ST_PUSH) = false -> (ty =? ST_QPACK_ENCODER) = false ->
  (ty =? ST_QPACK_DECODER) = false -> (ty =? ST_WEBTRANSPORT_UNI) = false -> unknown_type ty.
Proof.
  unfold unknown_type, kind_assoc, into_stream_arms, st_CONTROL, st_PUSH, st_ENCODER, st_DECODER, st_WEBTRANSPORT_UNI,
    ST_CONTROL, ST_PUSH, ST_QPACK_ENCODER, ST_QPACK_DECODER, ST_WEBTRANSPORT_UNI.
  intros -> -> -> -> ->. reflexivity.
Qed.

(* Liveness, second half.  After a poll of the running driver (not spent waiting for its own last GOAWAY):
   - nothing the peer sent so far is a complete violation ([hs_hard] is empty): no second control, encoder or decoder
     stream was announced with a complete header, and the frames of the control stream, all of which were taken
     (poll_settles), were all accepted by the rule table;
   - every announced stream whose complete header names an unknown type has been answered with STOP_SENDING.
   Contrapositive: once the peer's bytes contain a complete violation the statement lists, a poll cannot leave the
   driver running - it has failed (exactly_once/errors_allowed say with which code), or left the model's domain. *)
Theorem poll_complete role grease wt credit dflt h :
  whist_ok (h ++ [EPoll]) ->
  let d0 := run_history h (new_drv role grease wt credit dflt) in
  let d := run_history (h ++ [EPoll]) (new_drv role grease wt credit dflt) in
  let x := sent_of (h ++ [EPoll]) in
  d_ph d0 <> PhShutdown -> d_ph d = PhRun \/ d_ph d = PhNone ->
  hs_hard (uni_spec_with settings_verdict (srole_of role) (sdescs x)) = [] /\
  (forall id, In id (hs_stops (uni_spec_with settings_verdict (srole_of role) (sdescs x))) ->
     exists code, In (id, code) (l_stops (w_log (world_of d)))).
Proof.
  intros Hh d0 d x Hns Hph.
  pose proof (poll_settles role grease wt credit dflt h Hh) as Hps. cbv zeta in Hps. fold d0 d x in Hps.
  destruct (Hps Hns Hph) as (Q1 & Q2 & Q3). clear Hps.
  pose proof (bytes_invariant role grease wt credit dflt (h ++ [EPoll]) Hh) as Hg. fold d x in Hg.
  pose proof (exactly_once role grease wt credit dflt (h ++ [EPoll])) as Hx. cbv zeta in Hx. fold d in Hx.
  pose proof (run_history_inv (h ++ [EPoll]) _ (new_drv_inv role grease wt credit dflt)) as Hinv. fold d in Hinv.
  destruct Hinv as (_ & _ & _ & I4).
  assert (Hnd : d_ph d <> PhDone) by (destruct Hph as [E|E]; rewrite E; discriminate).
  destruct (I4 Hnd) as [Hni Hne]. specialize (Hx Hni).
  destruct Hh as [_ Hnodup]. fold x in Hnodup.
  unfold dgood, running in Hg. unfold conn_of, world_of in *.
  destruct (d_s d) as [[c w] wr].
  assert (Hrun : match d_ph d with PhDone => false | _ => true end = true) by (destruct Hph as [E|E]; rewrite E; reflexivity).
  destruct Hg as (_ & _ & _ & Hgood). specialize (Hgood Hrun).
  destruct Hgood as [_ _ _ Herr _ [Sf Sl]]. specialize (Sl Herr).
  destruct Sf as [F1 F2]. destruct Sl as [L1 L2 L3 L4 L5 L6].
  (* every announced stream with a complete header has left the pending set, with its type recorded *)
  assert (Hres : forall id, In id (sn_ann x) -> uni_header (sn_flat x id) <> None ->
            exists ty, In (id, Some ty) (c_seen c) /\ hdr_type x id = Some ty).
  { intros id Hann Hhd. destruct (L1 id Hann) as [Hw|Hs].
    - exfalso. unfold waiting in Hw. rewrite Q2 in Hw. cbn [app] in Hw. unfold ids_of in Hw.
      apply in_map_iff in Hw. destruct Hw as ([j a] & Hj & Hin). cbn [fst] in Hj. subst j.
      destruct (Q1 id a Hin) as [Hnone _]. contradiction.
    - apply in_map_iff in Hs. destruct Hs as ([j o] & Hj & Hin). cbn [fst] in Hj. subst j.
      destruct o as [ty|].
      + exists ty. split; [exact Hin|]. apply (F1 id ty Hin).
      + exfalso. destruct (F2 id Hin) as (_ & Hnone & _). contradiction. }
  (* what the specification's classification says about the header *)
  assert (Hcls : forall id ty rest, rfc_take_varint (sn_flat x id) = Some (ty, rest) -> has_second_varint ty = false ->
            uni_header (sn_flat x id) = Some (ty, None, rest) /\ hdr_type x id = Some ty).
  { intros id ty rest Hv H2. unfold hdr_type, uni_header. rewrite Hv, H2. split; reflexivity. }
  assert (Hseen : forall id ty rest, In id (sn_ann x) -> rfc_take_varint (sn_flat x id) = Some (ty, rest) ->
            has_second_varint ty = false -> In (id, Some ty) (c_seen c)).
  { intros id ty rest Hann Hv H2. destruct (Hcls id ty rest Hv H2) as [Hu Ht].
    destruct (Hres id Hann) as (ty' & Hin & Ht'); [rewrite Hu; discriminate|]. rewrite Ht in Ht'. inversion Ht'; subst. exact Hin. }
  split.
  - unfold uni_spec_with. cbn [hs_hard].
    match goal with |- ?a ++ ?b = [] => assert (Ha : a = []); [|assert (Hb : b = []); [|rewrite Ha, Hb; reflexivity]] end.
    + (* no duplicates *)
      unfold duplicates.
      rewrite (count_one is_control), (count_one is_encoder), (count_one is_decoder); [reflexivity| | | | | |]; try exact Hnodup.
      * intros a b Ha Hb Pa Pb. apply L5; [|].
        -- unfold classify_stream in Pa. cbn [sd_bytes] in Pa. destruct (rfc_take_varint (sn_flat x a)) as [[ty rest]|] eqn:Hv; [|discriminate].
           destruct (ty =? ST_CONTROL); [discriminate|]. destruct (ty =? ST_PUSH); [discriminate|].
           destruct (ty =? ST_QPACK_ENCODER); [discriminate|]. destruct (N.eqb_spec ty ST_QPACK_DECODER) as [->|]; [|destruct (ty =? ST_WEBTRANSPORT_UNI); discriminate].
           eapply Hseen; eauto.
        -- unfold classify_stream in Pb. cbn [sd_bytes] in Pb. destruct (rfc_take_varint (sn_flat x b)) as [[ty rest]|] eqn:Hv; [|discriminate].
           destruct (ty =? ST_CONTROL); [discriminate|]. destruct (ty =? ST_PUSH); [discriminate|].
           destruct (ty =? ST_QPACK_ENCODER); [discriminate|]. destruct (N.eqb_spec ty ST_QPACK_DECODER) as [->|]; [|destruct (ty =? ST_WEBTRANSPORT_UNI); discriminate].
           eapply Hseen; eauto.
      * intros a b Ha Hb Pa Pb. apply L3; [|].
        -- unfold classify_stream in Pa. cbn [sd_bytes] in Pa. destruct (rfc_take_varint (sn_flat x a)) as [[ty rest]|] eqn:Hv; [|discriminate].
           destruct (ty =? ST_CONTROL); [discriminate|]. destruct (ty =? ST_PUSH); [discriminate|].
           destruct (N.eqb_spec ty ST_QPACK_ENCODER) as [->|]; [|destruct (ty =? ST_QPACK_DECODER); [|destruct (ty =? ST_WEBTRANSPORT_UNI)]; discriminate].
           eapply Hseen; eauto.
        -- unfold classify_stream in Pb. cbn [sd_bytes] in Pb. destruct (rfc_take_varint (sn_flat x b)) as [[ty rest]|] eqn:Hv; [|discriminate].
           destruct (ty =? ST_CONTROL); [discriminate|]. destruct (ty =? ST_PUSH); [discriminate|].
           destruct (N.eqb_spec ty ST_QPACK_ENCODER) as [->|]; [|destruct (ty =? ST_QPACK_DECODER); [|destruct (ty =? ST_WEBTRANSPORT_UNI)]; discriminate].
           eapply Hseen; eauto.
      * intros a b Ha Hb Pa Pb.
        assert (Hc : forall j, In j (sn_ann x) ->
                  is_control (classify_stream {| sd_id := j; sd_bytes := sn_flat x j; sd_end := sn_end x j |}) = true -> is_ctl c j).
        { intros j Hj Pj. apply L2. unfold classify_stream in Pj. cbn [sd_bytes] in Pj.
          destruct (rfc_take_varint (sn_flat x j)) as [[ty rest]|] eqn:Hv; [|discriminate].
          destruct (N.eqb_spec ty ST_CONTROL) as [->|];
            [|destruct (ty =? ST_PUSH); [|destruct (ty =? ST_QPACK_ENCODER); [|destruct (ty =? ST_QPACK_DECODER); [|destruct (ty =? ST_WEBTRANSPORT_UNI)]]]; discriminate].
          eapply Hseen; eauto. }
        destruct (Hc a Ha Pa) as [fa Hfa]. destruct (Hc b Hb Pb) as [fb Hfb]. congruence.
    + (* the control stream's frames were all accepted *)
      apply flat_map_nil. intros v Hv. unfold controls_with in Hv. apply in_flat_map in Hv.
      destruct Hv as (s & Hs & Hv). unfold sdescs in Hs. apply in_map_iff in Hs. destruct Hs as (id & <- & Hann).
      unfold classify_stream in Hv. cbn [sd_bytes sd_end] in Hv.
      destruct (rfc_take_varint (sn_flat x id)) as [[ty rest]|] eqn:Hvar; [|destruct Hv].
      destruct (N.eqb_spec ty ST_CONTROL) as [->|];
        [|destruct (ty =? ST_PUSH); [|destruct (ty =? ST_QPACK_ENCODER); [|destruct (ty =? ST_QPACK_DECODER); [|destruct (ty =? ST_WEBTRANSPORT_UNI)]]]; destruct Hv].
      destruct Hv as [<-|[]].
      assert (Hin : In (id, Some ST_CONTROL) (c_seen c)) by (eapply Hseen; eauto).
      destruct (L2 id Hin) as [fs Hc].
      destruct (Q3 id fs Hc) as (rest' & _ & Hhd & Hout & _).
      destruct (Hcls id ST_CONTROL rest Hvar eq_refl) as [Hu _]. rewrite Hu in Hhd. inversion Hhd; subst rest'.
      unfold control_view_with. rewrite Hout.
      pose proof (ctl_scan_run (srole_of role) (c_taken c) cs_init [] Waiting) as Hsr. rewrite app_nil_r in Hsr.
      destruct (ctl_run (srole_of role) cs_init (c_taken c)) as [[acts st] [codes|]].
      * exfalso. destruct Hx as (_ & e & He & _). exact (Hne e He).
      * destruct (ctl_scan (srole_of role) cs_init (map TFrame (c_taken c)) Waiting) as [[a0 h0] s0]. cbn [fst snd cv_hard] in *.
        destruct Hsr as [_ ->]. reflexivity.
  - (* unknown types are refused *)
    intros id Hin. unfold uni_spec_with in Hin. cbn [hs_stops] in Hin. apply in_flat_map in Hin.
    destruct Hin as (s & Hs & Hin). unfold sdescs in Hs. apply in_map_iff in Hs. destruct Hs as (j & <- & Hann).
    unfold classify_stream in Hin. cbn [sd_bytes sd_id] in Hin.
    destruct (rfc_take_varint (sn_flat x j)) as [[ty rest]|] eqn:Hvar; [|destruct Hin].
    destruct (ty =? ST_CONTROL) eqn:E1; [destruct Hin|]. destruct (ty =? ST_PUSH) eqn:E2; [destruct Hin|].
    destruct (ty =? ST_QPACK_ENCODER) eqn:E3; [destruct Hin|]. destruct (ty =? ST_QPACK_DECODER) eqn:E4; [destruct Hin|].
    destruct (ty =? ST_WEBTRANSPORT_UNI) eqn:E5; [destruct Hin|]. destruct Hin as [<-|[]].
    assert (H2 : has_second_varint ty = false) by (unfold has_second_varint; rewrite E2, E5; reflexivity).
    pose proof (Hseen j ty rest Hann Hvar H2) as Hsn.
    destruct (F1 j ty Hsn) as (_ & _ & Hstop). apply Hstop. apply unknown_of_spec; assumption.
Qed.
