(* C14, part 1: the Buf laws of WriteBuf under any consumption, and what each constructor puts in it. *)
From H3V Require Import Base.Bytes Base.BytesLemmas Gen.GenWriters Spec.RFC9000 Spec.RFC9114Wire
  Model.Varint Model.Datagram Model.FrameEnc Model.WriteBuf Proofs.VarintProofs Proofs.DatagramProofs.
From Coq Require Import ZifyBool ZifyNat ZifyN.
Ltac Zify.zify_post_hook ::= Z.div_mod_to_equations.

(* ---- the facts read from the source that the proofs rely on (each is a proof obligation of the run) ---- *)
Lemma gen_payload_variants : payload_variants = [0; 1; 5] /\ payload_mut_variants = [0; 1; 5].
Proof. split; reflexivity. Qed.
Lemma gen_buf_impl :
  chunk_lo_off = 0%Z /\ chunk_hi_off = 0%Z /\ advance_uses_min = true /\
  advance_pos_off = 0%Z /\ advance_cnt_off = 0%Z /\ advance_payload_off = 0%Z.
Proof. repeat split; reflexivity. Qed.
Lemma gen_init : wb_init_len = 0 /\ wb_init_pos = 0 /\ write_buf_encode_size = 64.
Proof. repeat split; reflexivity. Qed.

Lemma off_0 x : off x 0 = Some x.
Proof. unfold off. rewrite Z.add_0_r. destruct (Z.ltb_spec (Z.of_N x) 0); [lia|]. f_equal. lia. Qed.

Lemma frame_payload_eq f : frame_payload f = frame_payload_raw f.
Proof. destruct f; reflexivity. Qed.
Lemma frame_payload_mut_eq f : frame_payload_mut f = frame_payload_raw f.
Proof. destruct f; reflexivity. Qed.

Lemma concat_bytes_chunks b : concat (bytes_chunks b) = b.
Proof. destruct b; cbn; [reflexivity|]. rewrite app_nil_r. reflexivity. Qed.
Lemma nonempty_bytes_chunks b : nonempty_chunks (bytes_chunks b).
Proof. destruct b; cbn; constructor; [discriminate|constructor]. Qed.

(* ---- invariant ---- *)
Definition wb_inv (w : wbuf) : Prop :=
  w_pos w <= w_len w /\ w_len w <= len (w_buf w) /\
  match wb_payload w with Some p => nonempty_chunks p | None => True end.

Definition wb_pl (w : wbuf) : bytes := match wb_payload w with Some p => concat p | None => [] end.
Definition wb_hdr (w : wbuf) : bytes :=
  firstn (N.to_nat (w_len w - w_pos w)) (skipn (N.to_nat (w_pos w)) (w_buf w)).
Lemma wb_view_split w : wb_view w = wb_hdr w ++ wb_pl w.
Proof. reflexivity. Qed.

Lemma len_hdr w : wb_inv w -> len (wb_hdr w) = w_len w - w_pos w.
Proof. intros (Hp & Hl & _). unfold wb_hdr. rewrite len_firstn, len_skipn. lia. Qed.

Lemma wb_remaining_law w : wb_inv w -> wb_remaining w = Ok (len (wb_view w)).
Proof.
  intros Hinv. pose proof (len_hdr w Hinv) as Hh. destruct Hinv as (Hp & Hl & _).
  unfold wb_remaining. destruct (N.ltb_spec (w_len w) (w_pos w)); [lia|].
  rewrite wb_view_split, len_app, Hh. unfold wb_pl. f_equal. f_equal.
  destruct (wb_payload w); [reflexivity|]. reflexivity.
Qed.

Lemma wb_chunk_law w :
  wb_inv w ->
  exists c rest, wb_chunk w = Ok c /\ wb_view w = c ++ rest /\ (wb_view w <> [] -> c <> []).
Proof.
  intros Hinv. pose proof (len_hdr w Hinv) as Hh. destruct Hinv as (Hp & Hl & Hne).
  unfold wb_chunk. destruct (N.ltb_spec (w_len w) (w_pos w)); [lia|].
  destruct gen_buf_impl as (-> & -> & _). rewrite !off_0.
  destruct (N.ltb_spec 0 (w_len w - w_pos w)) as [Hpos|Hz].
  - unfold slice.
    destruct (N.ltb_spec (w_len w) (w_pos w)); [lia|].
    destruct (N.ltb_spec (len (w_buf w)) (w_len w)); [lia|]. cbn [orb].
    exists (wb_hdr w), (wb_pl w). split; [reflexivity|]. split; [reflexivity|].
    intros _ E. apply (f_equal len) in E. rewrite Hh in E. unfold len in E at 1. cbn in E. lia.
  - rewrite wb_view_split. unfold wb_hdr, wb_pl.
    replace (w_len w - w_pos w) with 0 by lia. cbn [N.to_nat firstn app].
    destruct (wb_payload w) as [p|].
    + destruct p as [|c r]; cbn [pl_chunk concat].
      * exists [], []. auto.
      * exists c, (concat r). repeat split; auto. inversion Hne; auto.
    + exists [], []. auto.
Qed.

Definition payload_after (f : frame) (p : list bytes) : list bytes :=
  match f with FData _ => p | _ => bytes_chunks (concat p) end.
Lemma concat_payload_after f p : concat (payload_after f p) = concat p.
Proof. destruct f; try reflexivity; apply concat_bytes_chunks. Qed.
Lemma nonempty_payload_after f p : nonempty_chunks p -> nonempty_chunks (payload_after f p).
Proof. intros H. destruct f; try exact H; apply nonempty_bytes_chunks. Qed.

Lemma wb_payload_set w f p pos' :
  w_frame w = Some f -> frame_payload_raw f <> None ->
  wb_payload {| w_buf := w_buf w; w_len := w_len w; w_pos := pos'; w_frame := Some (frame_set_payload f p) |}
  = Some (payload_after f p).
Proof.
  intros _ Hsome. unfold wb_payload. cbn [w_frame]. rewrite frame_payload_eq.
  destruct f; cbn in *; try congruence; reflexivity.
Qed.

(* wb_advance with the source facts substituted *)
Definition wb_advance_c (cnt : N) (w : wbuf) : res unit wbuf :=
  if w_len w <? w_pos w then Panic 33 else
  let adv := N.min cnt (w_len w - w_pos w) in
  match w_frame w with
  | Some f =>
      match frame_payload_raw f with
      | Some p =>
          match pl_advance (cnt - adv) p with
          | None => Panic 35
          | Some p' => Ok {| w_buf := w_buf w; w_len := w_len w; w_pos := w_pos w + adv;
                             w_frame := Some (frame_set_payload f p') |}
          end
      | None => Ok {| w_buf := w_buf w; w_len := w_len w; w_pos := w_pos w + adv; w_frame := Some f |}
      end
  | None => Ok {| w_buf := w_buf w; w_len := w_len w; w_pos := w_pos w + adv; w_frame := None |}
  end.

Lemma wb_advance_clean cnt w : wb_advance cnt w = wb_advance_c cnt w.
Proof.
  unfold wb_advance, wb_advance_c.
  destruct (N.ltb_spec (w_len w) (w_pos w)) as [|Hle]; [reflexivity|].
  destruct gen_buf_impl as (_ & _ & -> & -> & -> & ->).
  set (rem := w_len w - w_pos w).
  assert (Hstep : (if 0 <? rem
                   then match off (w_pos w + N.min cnt rem) 0 with
                        | Some pos' => match off (N.min cnt rem) 0 with
                                       | Some d => if cnt <? d then None else Some (pos', cnt - d)
                                       | None => None
                                       end
                        | None => None
                        end
                   else Some (w_pos w, cnt)) = Some (w_pos w + N.min cnt rem, cnt - N.min cnt rem)).
  { destruct (N.ltb_spec 0 rem).
    - rewrite !off_0. destruct (N.ltb_spec cnt (N.min cnt rem)); [lia|]. reflexivity.
    - f_equal. f_equal; lia. }
  rewrite Hstep. clear Hstep. unfold wb_payload_mut.
  destruct (w_frame w) as [f|]; [|reflexivity].
  rewrite frame_payload_mut_eq. destruct (frame_payload_raw f); [|reflexivity].
  rewrite off_0. reflexivity.
Qed.

Lemma wb_advance_law k w :
  wb_inv w -> k <= len (wb_view w) ->
  exists w', wb_advance k w = Ok w' /\ wb_view w' = skipn (N.to_nat k) (wb_view w) /\ wb_inv w'.
Proof.
  intros Hinv Hk. pose proof (len_hdr w Hinv) as Hh. destruct Hinv as (Hp & Hl & Hne).
  rewrite wb_advance_clean. unfold wb_advance_c. destruct (N.ltb_spec (w_len w) (w_pos w)); [lia|].
  set (rem := w_len w - w_pos w) in *.
  set (adv := N.min k rem).
  assert (Hview : len (wb_view w) = rem + len (wb_pl w)).
  { rewrite wb_view_split, len_app, Hh. reflexivity. }
  (* the header part of the new view *)
  assert (Hhdr : forall fr,
     wb_hdr {| w_buf := w_buf w; w_len := w_len w; w_pos := w_pos w + adv; w_frame := fr |}
     = skipn (N.to_nat adv) (wb_hdr w)).
  { intros fr. unfold wb_hdr. cbn [w_buf w_len w_pos]. fold rem.
    rewrite skipn_firstn_comm. rewrite skipn_skipn'. f_equal; [lia|]. f_equal. lia. }
  assert (Hlenhdr : length (wb_hdr w) = N.to_nat rem).
  { unfold len in Hh. lia. }
  unfold wb_pl, wb_payload in *.
  destruct (w_frame w) as [f|] eqn:Hf.
  - rewrite frame_payload_eq in *.
    destruct (frame_payload_raw f) as [p|] eqn:Hpay.
    + (* a frame with a payload *)
      destruct (pl_advance_ok (k - adv) p Hne) as (p' & H1 & H2 & H3).
      { unfold pl_remaining. unfold adv. lia. }
      rewrite H1. eexists. split; [reflexivity|].
      assert (Hnew : wb_payload {| w_buf := w_buf w; w_len := w_len w; w_pos := w_pos w + adv;
                                    w_frame := Some (frame_set_payload f p') |}
                     = Some (payload_after f p')).
      { apply (wb_payload_set w f p' (w_pos w + adv) Hf). congruence. }
      split.
      * rewrite !wb_view_split, Hhdr. unfold wb_pl. rewrite Hnew.
        rewrite concat_payload_after, H2. unfold wb_payload. rewrite Hf, frame_payload_eq, Hpay.
        destruct (N.le_gt_cases k rem) as [Hle|Hgt].
        -- replace adv with k by (unfold adv; lia). replace (k - k) with 0 by lia.
           cbn [N.to_nat skipn]. rewrite skipn_app_le by lia. reflexivity.
        -- replace adv with rem by (unfold adv; lia).
           rewrite skipn_app_ge by lia. rewrite skipn_all2 by lia. cbn [app].
           f_equal. lia.
      * unfold wb_inv. rewrite Hnew. cbn [w_buf w_len w_pos]. repeat split; [unfold adv; lia|lia|].
        apply nonempty_payload_after. exact H3.
    + (* a frame without payload *)
      eexists. split; [reflexivity|]. split.
      * rewrite !wb_view_split, Hhdr. unfold wb_pl, wb_payload. cbn [w_frame].
        rewrite Hf, frame_payload_eq, Hpay. rewrite !app_nil_r.
        change (len (@nil N)) with 0 in Hview.
        replace adv with k by (unfold adv; lia). reflexivity.
      * unfold wb_inv, wb_payload. cbn [w_buf w_len w_pos w_frame].
        rewrite frame_payload_eq, Hpay. repeat split; [unfold adv; lia|lia].
  - eexists. split; [reflexivity|]. split.
    + rewrite !wb_view_split, Hhdr. unfold wb_pl, wb_payload. cbn [w_frame]. rewrite Hf, !app_nil_r.
      change (len (@nil N)) with 0 in Hview.
      replace adv with k by (unfold adv; lia). reflexivity.
    + unfold wb_inv, wb_payload. cbn [w_buf w_len w_pos w_frame]. repeat split; [unfold adv; lia|lia].
Qed.

(* advancing past the end: a panic of the payload Buf when there is one; silently absorbed otherwise *)
Lemma wb_advance_past_end k w :
  wb_inv w -> len (wb_view w) < k ->
  match wb_payload w with
  | Some _ => wb_advance k w = Panic 35
  | None => exists w', wb_advance k w = Ok w' /\ wb_view w' = [] /\ wb_inv w'
  end.
Proof.
  intros Hinv Hk. pose proof (len_hdr w Hinv) as Hh. destruct Hinv as (Hp & Hl & Hne).
  assert (Hview : len (wb_view w) = (w_len w - w_pos w) + len (wb_pl w)).
  { rewrite wb_view_split, len_app, Hh. reflexivity. }
  rewrite wb_advance_clean. unfold wb_advance_c. destruct (N.ltb_spec (w_len w) (w_pos w)); [lia|].
  set (rem := w_len w - w_pos w) in *.
  replace (N.min k rem) with rem by lia. replace (w_pos w + rem) with (w_len w) by lia.
  unfold wb_pl, wb_payload in *.
  destruct (w_frame w) as [f|] eqn:Hf.
  - rewrite frame_payload_eq in *.
    destruct (frame_payload_raw f) as [p|] eqn:Hpay.
    + rewrite pl_advance_panics; [reflexivity|]. unfold pl_remaining. lia.
    + eexists. split; [reflexivity|]. split.
      * rewrite wb_view_split. unfold wb_hdr, wb_pl, wb_payload. cbn [w_buf w_len w_pos w_frame].
        rewrite frame_payload_eq, Hpay. replace (w_len w - w_len w) with 0 by lia. reflexivity.
      * unfold wb_inv, wb_payload. cbn [w_buf w_len w_pos w_frame]. rewrite frame_payload_eq, Hpay.
        repeat split; lia.
  - eexists. split; [reflexivity|]. split.
    + rewrite wb_view_split. unfold wb_hdr, wb_pl, wb_payload. cbn [w_buf w_len w_pos w_frame].
      replace (w_len w - w_len w) with 0 by lia. reflexivity.
    + unfold wb_inv, wb_payload. cbn [w_buf w_len w_pos w_frame]. repeat split; lia.
Qed.

(* ---- any acceptance script of a transport ---- *)
Theorem wb_consume_exact ks :
  forall w, wb_inv w ->
    exists out w', wb_consume ks w = Ok (out, w') /\ out ++ wb_view w' = wb_view w /\ wb_inv w'.
Proof.
  induction ks as [|k ks IH]; intros w Hinv.
  - exists [], w. cbn. auto.
  - cbn [wb_consume].
    destruct (wb_chunk_law w Hinv) as (c & rest & Hc & Hv & Hnz). rewrite Hc.
    set (n := N.min k (len c)).
    assert (Hn : n <= len (wb_view w)) by (rewrite Hv, len_app; lia).
    destruct (wb_advance_law n w Hinv Hn) as (w1 & Ha & Hv1 & Hinv1). rewrite Ha.
    destruct (IH w1 Hinv1) as (out & w2 & Hr & Hv2 & Hinv2). rewrite Hr.
    eexists _, _. split; [reflexivity|]. split; [|exact Hinv2].
    rewrite <- app_assoc, Hv2, Hv1, Hv.
    assert (Hnc : (N.to_nat n <= length c)%nat) by (unfold n, len; lia).
    rewrite skipn_app_le by exact Hnc.
    rewrite app_assoc. rewrite firstn_skipn. reflexivity.
Qed.

(* a transport that accepts at least one byte per step empties the buffer in at most |view| steps,
   and then has been handed exactly the view *)
Theorem wb_consume_complete ks :
  forall w, wb_inv w -> Forall (fun k => 1 <= k) ks -> len (wb_view w) <= N.of_nat (length ks) ->
    exists w', wb_consume ks w = Ok (wb_view w, w') /\ wb_view w' = [] /\ wb_remaining w' = Ok 0.
Proof.
  induction ks as [|k ks IH]; intros w Hinv Hks Hlen.
  - assert (E : wb_view w = []) by (apply len_nil_iff; cbn in Hlen; lia).
    exists w. cbn [wb_consume]. split; [rewrite E; reflexivity|]. split; [exact E|].
    rewrite wb_remaining_law by exact Hinv. rewrite E. reflexivity.
  - cbn [wb_consume].
    destruct (wb_chunk_law w Hinv) as (c & rest & Hc & Hv & Hnz). rewrite Hc.
    set (n := N.min k (len c)).
    assert (Hn : n <= len (wb_view w)) by (rewrite Hv, len_app; lia).
    destruct (wb_advance_law n w Hinv Hn) as (w1 & Ha & Hv1 & Hinv1). rewrite Ha.
    inversion Hks as [|? ? Hk Hks']; subst.
    assert (Hlen1 : len (wb_view w1) <= N.of_nat (length ks)).
    { rewrite Hv1, len_skipn. cbn [length] in Hlen.
      destruct (list_eq_dec N.eq_dec (wb_view w) []) as [E|E].
      - rewrite E. unfold len. cbn. lia.
      - specialize (Hnz E). assert (1 <= len c).
        { destruct c; [congruence|]. unfold len. cbn. lia. }
        lia. }
    destruct (IH w1 Hinv1 Hks' Hlen1) as (w2 & Hr & Hv2 & Hrem). rewrite Hr.
    exists w2. split; [|split; [exact Hv2|exact Hrem]].
    f_equal. f_equal. rewrite Hv1, Hv.
    assert (Hnc : (N.to_nat n <= length c)%nat) by (unfold n, len; lia).
    rewrite skipn_app_le by exact Hnc.
    rewrite app_assoc. rewrite firstn_skipn. reflexivity.
Qed.

(* the general consumer: every byte it is shown is the next byte of the view, every skip removes exactly that many *)
Fixpoint replay (evs : list cevent) (v : bytes) : option bytes :=
  match evs with
  | [] => Some v
  | EOut b :: r =>
      if list_eq_dec N.eq_dec (firstn (length b) v) b
      then (if (length b <=? length v)%nat then replay r (skipn (length b) v) else None) else None
  | ESkipped k :: r => if k <=? len v then replay r (skipn (N.to_nat k) v) else None
  end.

Fixpoint skips_within (steps : list cstep) (n : N) : Prop :=
  match steps with
  | [] => True
  | CTake k :: r => forall m, m <= n -> skips_within r m
  | CSkip k :: r => k <= n /\ skips_within r (n - k)
  end.

Theorem wb_run_exact steps :
  forall w, wb_inv w -> skips_within steps (len (wb_view w)) ->
    exists evs w', wb_run steps w = Ok (evs, w') /\ replay evs (wb_view w) = Some (wb_view w') /\ wb_inv w'.
Proof.
  induction steps as [|s steps IH]; intros w Hinv Hsk.
  - exists [], w. cbn. auto.
  - destruct s as [k|k]; cbn [wb_run].
    + destruct (wb_chunk_law w Hinv) as (c & rest & Hc & Hv & Hnz). rewrite Hc.
      set (n := N.min k (len c)).
      assert (Hn : n <= len (wb_view w)) by (rewrite Hv, len_app; lia).
      destruct (wb_advance_law n w Hinv Hn) as (w1 & Ha & Hv1 & Hinv1). rewrite Ha.
      assert (Hsk1 : skips_within steps (len (wb_view w1))).
      { cbn [skips_within] in Hsk. apply Hsk. rewrite Hv1, len_skipn. lia. }
      destruct (IH w1 Hinv1 Hsk1) as (evs & w2 & Hr & Hrep & Hinv2). rewrite Hr.
      eexists _, _. split; [reflexivity|]. split; [|exact Hinv2].
      cbn [replay].
      assert (Hnc : (N.to_nat n <= length c)%nat) by (unfold n, len; lia).
      assert (Hfl : length (firstn (N.to_nat n) c) = N.to_nat n) by (rewrite firstn_length; lia).
      rewrite Hfl.
      assert (Hpre : firstn (N.to_nat n) (wb_view w) = firstn (N.to_nat n) c).
      { rewrite Hv, firstn_app. replace (N.to_nat n - length c)%nat with 0%nat by lia.
        cbn [firstn]. apply app_nil_r. }
      rewrite Hpre. destruct (list_eq_dec N.eq_dec (firstn (N.to_nat n) c) (firstn (N.to_nat n) c)); [|congruence].
      destruct (Nat.leb_spec (N.to_nat n) (length (wb_view w))); [|unfold len in Hn; lia].
      rewrite <- Hv1. exact Hrep.
    + cbn [skips_within] in Hsk. destruct Hsk as [Hk Hsk].
      destruct (wb_advance_law k w Hinv Hk) as (w1 & Ha & Hv1 & Hinv1). rewrite Ha.
      assert (Hsk1 : skips_within steps (len (wb_view w1))).
      { rewrite Hv1, len_skipn. replace (N.of_nat (N.to_nat k)) with k by lia. exact Hsk. }
      destruct (IH w1 Hinv1 Hsk1) as (evs & w2 & Hr & Hrep & Hinv2). rewrite Hr.
      eexists _, _. split; [reflexivity|]. split; [|exact Hinv2].
      cbn [replay]. destruct (N.leb_spec k (len (wb_view w))); [|lia].
      rewrite <- Hv1. exact Hrep.
Qed.

(* ---- the provided Buf methods a transport may use instead (defaults, not overridden) ---- *)
Lemma wb_chunks_vectored_law w :
  wb_inv w ->
  exists sl, wb_chunks_vectored w = Ok sl /\
    match sl with
    | [] => wb_view w = []
    | [c] => c <> [] /\ exists rest, wb_view w = c ++ rest
    | _ => False
    end.
Proof.
  intros Hinv. unfold wb_chunks_vectored. rewrite wb_remaining_law by exact Hinv.
  destruct (N.eqb_spec (len (wb_view w)) 0) as [E|E].
  - exists []. split; [reflexivity|]. apply len_nil_iff. exact E.
  - destruct (wb_chunk_law w Hinv) as (c & rest & Hc & Hv & Hnz). rewrite Hc. exists [c]. split; [reflexivity|].
    split; [|exists rest; exact Hv]. apply Hnz. intros E'. rewrite E' in E. apply E. reflexivity.
Qed.

Lemma firstn_plus {A} (a b : nat) (l : list A) : firstn (a + b) l = firstn a l ++ firstn b (skipn a l).
Proof.
  revert l. induction a as [|a IH]; intros l; cbn [Nat.add firstn skipn app]; [reflexivity|].
  destruct l as [|x l]; [destruct b; reflexivity|]. cbn [firstn skipn app]. rewrite IH. reflexivity.
Qed.

Lemma wb_copy_loop_exact fuel :
  forall left w, wb_inv w -> left <= len (wb_view w) -> left <= N.of_nat fuel ->
    exists w', wb_copy_loop fuel left w = Ok (firstn (N.to_nat left) (wb_view w), w') /\
               wb_view w' = skipn (N.to_nat left) (wb_view w) /\ wb_inv w'.
Proof.
  induction fuel as [|f IH]; intros left w Hinv Hle Hfuel.
  - assert (left = 0) by lia. subst. exists w. cbn. auto.
  - cbn [wb_copy_loop]. destruct (N.eqb_spec left 0) as [->|Hnz]; [exists w; cbn; auto|].
    destruct (wb_chunk_law w Hinv) as (c & rest & Hc & Hv & Hne). rewrite Hc.
    assert (Hvne : wb_view w <> []).
    { intros E. rewrite E in Hle. unfold len in Hle. cbn in Hle. lia. }
    specialize (Hne Hvne).
    assert (Hlc : 1 <= len c) by (destruct c; [congruence|unfold len; cbn; lia]).
    set (n := N.min left (len c)).
    destruct (N.eqb_spec n 0) as [En|_]; [unfold n in En; lia|].
    assert (Hn : n <= len (wb_view w)) by (rewrite Hv, len_app; unfold n; lia).
    destruct (wb_advance_law n w Hinv Hn) as (w1 & Ha & Hv1 & Hinv1). rewrite Ha.
    assert (Hle1 : left - n <= len (wb_view w1)).
    { rewrite Hv1, len_skipn. unfold n. lia. }
    destruct (IH (left - n) w1 Hinv1 Hle1) as (w2 & E2 & Hv2 & Hinv2); [unfold n; lia|].
    rewrite E2. exists w2. split; [|split; [|exact Hinv2]].
    + f_equal. f_equal. rewrite Hv1.
      assert (Hnc : (N.to_nat n <= length c)%nat) by (unfold n, len; lia).
      replace (firstn (N.to_nat n) c) with (firstn (N.to_nat n) (wb_view w)).
      2:{ rewrite Hv, firstn_app. replace (N.to_nat n - length c)%nat with 0%nat by lia. cbn [firstn]. apply app_nil_r. }
      replace (N.to_nat left) with (N.to_nat n + N.to_nat (left - n))%nat by (unfold n; lia).
      rewrite firstn_plus. reflexivity.
    + rewrite Hv2, Hv1, skipn_skipn'. f_equal. unfold n. lia.
Qed.

Theorem wb_copy_to_bytes_exact k w :
  wb_inv w -> k <= len (wb_view w) ->
  exists w', wb_copy_to_bytes k w = Ok (firstn (N.to_nat k) (wb_view w), w') /\
             wb_view w' = skipn (N.to_nat k) (wb_view w) /\ wb_inv w'.
Proof.
  intros Hinv Hk. unfold wb_copy_to_bytes. rewrite wb_remaining_law by exact Hinv.
  destruct (N.ltb_spec (len (wb_view w)) k); [lia|]. apply wb_copy_loop_exact; auto. lia.
Qed.

Theorem wb_copy_to_bytes_too_much k w : wb_inv w -> len (wb_view w) < k -> wb_copy_to_bytes k w = Panic 36.
Proof.
  intros Hinv Hk. unfold wb_copy_to_bytes. rewrite wb_remaining_law by exact Hinv.
  destruct (N.ltb_spec (len (wb_view w)) k); [reflexivity|lia].
Qed.
