(* C06 PART 3 (progress): in the FrameStream model (Model/FrameStream.v, owned by C02, imported read-only) a poll
   is never Pending once the terminal event of the stream (FIN, RESET, connection loss) has been queued by the
   transport or already seen (eos), and the model's fuel sites (Panic 92) are not reached.  Quantified over all
   states and, in [run_no_pending_once_live], over all histories of arrivals and calls. *)
From H3V Require Import Base.Bytes Gen.GenFrameTypes Spec.FrameVocab Model.Varint Model.FrameDec Model.FrameStream.

Definition live (s : fstream) : Prop := st_eos s = true \/ terminated (st_q s) = true.

Definition not_pending {A} (p : poll A) : Prop := match p with Pending => False | Ready _ => True end.

Lemma decoder_decode_keeps s r s2 :
  decoder_decode s = (r, s2) -> st_eos s2 = st_eos s /\ st_q s2 = st_q s /\ st_rem s2 = st_rem s.
Proof.
  unfold decoder_decode. destruct (dec_loop _ _ _) as [[r' b] m]. intros H. inversion H; subst. cbn. auto.
Qed.

(* what try_recv does on a live stream: it is Ready, and either the stream stays live with a strictly shorter
   queue (a chunk was taken), or eos is now set, or it failed *)
Lemma try_recv_live s :
  live s ->
  exists r s1, try_recv s = (Ready r, s1) /\ live s1 /\
    (r = Ok false -> (length (st_q s1) < length (st_q s))%nat /\ st_rem s1 = st_rem s /\ st_buf s1 <> []) /\
    (r = Ok true -> st_eos s1 = true /\ st_rem s1 = st_rem s /\ st_buf s1 = st_buf s).
Proof.
  intros L. unfold try_recv. destruct (st_eos s) eqn:E.
  - exists (Ok true), s. repeat split; auto; try discriminate.
  - destruct L as [L|L]; [congruence|].
    destruct (st_q s) as [|e q] eqn:Q; [discriminate|].
    destruct e as [c| |a]; cbn [rx_poll].
    + destruct c as [|x c].
      * exists (Panic 20), s. split; [reflexivity|]. split; [right; rewrite Q; exact L|]. split; discriminate.
      * eexists (Ok false), _. split; [reflexivity|]. cbn [terminated existsb is_terminal orb] in L.
        split; [right; exact L|]. split; [|discriminate].
        intros _. cbn [st_q st_rem st_buf length]. split; [lia|]. split; [reflexivity|].
        intros H. apply app_eq_nil in H. destruct H as [_ H]. discriminate.
    + eexists (Ok true), _. split; [reflexivity|]. split; [left; reflexivity|]. split; [discriminate|]. intros _. cbn. auto.
    + exists (Err (FsQuic a)), s. split; [reflexivity|]. split; [right; rewrite Q; exact L|]. split; discriminate.
Qed.

Lemma next_loop_live : forall fuel s,
  live s -> (length (st_q s) < fuel)%nat ->
  not_pending (fst (next_loop fuel s)) /\ live (snd (next_loop fuel s)).
Proof.
  induction fuel as [|f IH]; intros s L Hf; [lia|].
  cbn [next_loop].
  destruct (try_recv_live s L) as [r [s1 [T [L1 [Hfalse Htrue]]]]]. rewrite T.
  destruct r as [b|e|n]; [|cbn; auto|cbn; auto].
  destruct (decoder_decode s1) as [rd s2] eqn:D.
  destruct (decoder_decode_keeps _ _ _ D) as [Ke [Kq Kr]].
  assert (L2 : live s2) by (unfold live; rewrite Ke, Kq; exact L1).
  assert (L2r : forall l, live (with_rem s2 l)) by (intros l; unfold live, with_rem; cbn; exact L2).
  destruct rd as [[fr|]|e|n]; [destruct fr; cbn; auto| |cbn; auto|cbn; auto].
  destruct b.
  - (* Ready (Ok true): the end of the stream *)
    destruct (fs_next_end_checks_buffer && negb (bl_remaining (st_buf s2) =? 0)); cbn; auto.
  - (* Ready (Ok false): one chunk consumed, loop *)
    destruct (Hfalse eq_refl) as [Hlen _].
    apply IH; [exact L2|]. rewrite Kq. lia.
Qed.

Theorem poll_next_live s : live s -> not_pending (fst (poll_next s)) /\ live (snd (poll_next s)).
Proof.
  intros L. unfold poll_next. destruct (negb (st_rem s =? 0)); [cbn; auto|].
  apply next_loop_live; [exact L|lia].
Qed.

Theorem poll_data_live s : live s -> not_pending (fst (poll_data s)) /\ live (snd (poll_data s)).
Proof.
  intros L. unfold poll_data. destruct (st_rem s =? 0); [cbn; auto|].
  destruct (try_recv_live s L) as [r [s1 [T [L1 [Hfalse Htrue]]]]]. rewrite T.
  assert (Lb : forall b, live (with_buf s1 b)) by (intros b; unfold live, with_buf; cbn; exact L1).
  assert (Lr : forall b n, live (with_rem (with_buf s1 b) n)) by (intros b n; unfold live, with_rem, with_buf; cbn; exact L1).
  destruct r as [b|e|n]; [|cbn; auto|cbn; auto].
  destruct (bl_take_chunk (st_rem s1) (st_buf s1)) as [[d|] b'] eqn:TC.
  - destruct (b && fs_data_short_last_guard && (len d <? st_rem s1) && (bl_remaining b' =? 0)); cbn; auto.
  - destruct b.
    + destruct (fs_data_none_end_guard && negb (st_rem s1 =? usize_max)); cbn; auto.
    + (* a chunk was just pushed: the BufList is not empty, take_chunk cannot answer None *)
      exfalso. destruct (Hfalse eq_refl) as [_ [_ Hne]].
      unfold bl_take_chunk in TC. destruct (st_buf s1); [congruence|discriminate].
Qed.

(* ---------- all histories: after the terminal event arrived no call is ever Pending again ---------- *)
Lemma arrive_live e s : live s -> live (arrive e s).
Proof.
  intros [L|L]; unfold arrive, live.
  - destruct (terminated (st_q s)); cbn; auto.
  - rewrite L. auto.
Qed.

Lemma arrive_terminal_live e s : is_terminal e = true -> live (arrive e s).
Proof.
  intros T. unfold arrive, live. destruct (terminated (st_q s)) eqn:Q; [auto|].
  right. cbn [st_q]. unfold terminated. rewrite existsb_app. cbn. rewrite T. apply orb_true_r.
Qed.

Definition obs_not_pending (o : obs) : Prop :=
  match o with ONext r => not_pending r | OData r => not_pending r end.

Theorem run_no_pending_once_live : forall h s d,
  live s -> Forall obs_not_pending (fst (run h s d)) /\ live (snd (run h s d)).
Proof.
  induction h as [|a h IH]; intros s d L; [cbn; auto|].
  destruct a; cbn [run].
  - apply IH. apply arrive_live. exact L.
  - destruct d; [apply IH; exact L|].
    destruct (poll_next s) as [r s'] eqn:P. pose proof (poll_next_live s L) as [N1 N2]. rewrite P in N1, N2. cbn in N1, N2.
    destruct (run h s' (obs_final (ONext r))) as [os s''] eqn:R.
    pose proof (IH s' (obs_final (ONext r)) N2) as [I1 I2]. rewrite R in I1, I2. cbn in *. split; [constructor; assumption|assumption].
  - destruct d; [apply IH; exact L|].
    destruct (poll_data s) as [r s'] eqn:P. pose proof (poll_data_live s L) as [N1 N2]. rewrite P in N1, N2. cbn in N1, N2.
    destruct (run h s' (obs_final (OData r))) as [os s''] eqn:R.
    pose proof (IH s' (obs_final (OData r)) N2) as [I1 I2]. rewrite R in I1, I2. cbn in *. split; [constructor; assumption|assumption].
  - destruct d; [apply IH; exact L|].
    destruct (st_rem s =? 0).
    + destruct (poll_next s) as [r s'] eqn:P. pose proof (poll_next_live s L) as [N1 N2]. rewrite P in N1, N2. cbn in N1, N2.
      destruct (run h s' (obs_final (ONext r))) as [os s''] eqn:R.
      pose proof (IH s' (obs_final (ONext r)) N2) as [I1 I2]. rewrite R in I1, I2. cbn in *. split; [constructor; assumption|assumption].
    + destruct (poll_data s) as [r s'] eqn:P. pose proof (poll_data_live s L) as [N1 N2]. rewrite P in N1, N2. cbn in N1, N2.
      destruct (run h s' (obs_final (OData r))) as [os s''] eqn:R.
      pose proof (IH s' (obs_final (OData r)) N2) as [I1 I2]. rewrite R in I1, I2. cbn in *. split; [constructor; assumption|assumption].
Qed.

(* the form quoted by the property: whatever happened before (h1), once a terminal event e arrives every call of
   every continuation h2 completes *)
Corollary calls_complete_after_terminal_event : forall h1 e h2 s d,
  is_terminal e = true ->
  let s1 := snd (run h1 s false) in
  Forall obs_not_pending (fst (run (Arrive e :: h2) s1 d)).
Proof.
  intros h1 e h2 s d T s1. cbn [run]. apply run_no_pending_once_live. apply arrive_terminal_live. exact T.
Qed.
