(* C15, integers: the model of prefix_int.rs against RFC 7541 5.1 (unbounded naturals). *)
From H3V Require Import Base.Bytes Base.BytesLemmas Gen.GenPrefixInt Spec.PrefixInt Model.PrefixInt Proofs.C15Finite.
From Coq Require Import ZifyBool ZifyNat ZifyN.
Ltac Zify.zify_post_hook ::= Z.div_mod_to_equations.

(* ---------- byte-level facts, by evaluation over the 256 octets ---------- *)

Lemma byte_cont_check :
  forall_below 256 (fun b => (N.land b pi_dec_val_mask =? b mod 128) &&
                             Bool.eqb (N.land b pi_dec_cont_mask =? 0) (b / 128 =? 0)) = true.
Proof. vm_compute. reflexivity. Qed.

Lemma byte_cont_facts b : b < 256 ->
  N.land b pi_dec_val_mask = b mod 128 /\ (N.land b pi_dec_cont_mask =? 0) = (b / 128 =? 0).
Proof.
  intros Hb. pose proof (forall_below_spec 256 _ byte_cont_check b Hb) as H. cbv beta in H.
  apply andb_true_iff in H as [H1 H2]. apply N.eqb_eq in H1. apply Bool.eqb_prop in H2. auto.
Qed.

(* first octet, decode side: for every prefix size 1..8 *)
Definition first_dec_ok (size b : N) : bool :=
  (N.shiftr b size mod 256 =? b / 2 ^ size) &&
  (N.shiftr pi_dec_mask_full (pi_dec_mask_width - size) =? 2 ^ size - 1) &&
  (N.land b (2 ^ size - 1) =? b mod 2 ^ size).

Lemma first_dec_check :
  forall_range 1 8 (fun size => forall_below 256 (first_dec_ok size)) = true.
Proof. vm_compute. reflexivity. Qed.

Lemma first_dec_facts size b : 1 <= size <= 8 -> b < 256 ->
  N.shiftr b size mod 256 = b / 2 ^ size /\
  N.shiftr pi_dec_mask_full (pi_dec_mask_width - size) = 2 ^ size - 1 /\
  N.land b (2 ^ size - 1) = b mod 2 ^ size.
Proof.
  intros Hs Hb.
  pose proof (forall_range_spec 1 8 _ first_dec_check size) as H. cbv beta in H.
  assert (Hq : forall_below 256 (first_dec_ok size) = true) by (apply H; lia).
  pose proof (forall_below_spec 256 _ Hq b Hb) as H1. unfold first_dec_ok in H1.
  apply andb_true_iff in H1 as [H1 H3]. apply andb_true_iff in H1 as [H1 H2].
  apply N.eqb_eq in H1, H2, H3. auto.
Qed.

(* first octet, encode side: mask, shifted flags and their `|` *)
Definition first_enc_ok (size x : N) : bool :=
  (* x ranges over 0..255 and is split as flags = x / 2^size (so flags < 2^(8-size)), low = x mod 2^size *)
  let flags := x / 2 ^ size in
  let low := x mod 2 ^ size in
  (255 - N.shiftl pi_enc_mask_full size mod 256 =? 2 ^ size - 1) &&
  (N.lor (N.shiftl flags size mod 256) low =? flags * 2 ^ size + low) &&
  (N.lor (2 ^ size - 1) (N.shiftl flags size mod 256) =? flags * 2 ^ size + (2 ^ size - 1)).

Lemma first_enc_check :
  forall_range 1 8 (fun size => forall_below 256 (first_enc_ok size)) = true.
Proof. vm_compute. reflexivity. Qed.

Lemma first_enc_facts size flags low : 1 <= size <= 8 -> flags < 2 ^ (8 - size) -> low < 2 ^ size ->
  255 - N.shiftl pi_enc_mask_full size mod 256 = 2 ^ size - 1 /\
  N.lor (N.shiftl flags size mod 256) low = flags * 2 ^ size + low /\
  N.lor (2 ^ size - 1) (N.shiftl flags size mod 256) = flags * 2 ^ size + (2 ^ size - 1).
Proof.
  intros Hs Hf Hl.
  pose proof (forall_range_spec 1 8 _ first_enc_check size) as H. cbv beta in H.
  assert (Hq : forall_below 256 (first_enc_ok size) = true) by (apply H; lia).
  assert (Hp : 2 ^ (8 - size) * 2 ^ size = 256).
  { rewrite <- N.pow_add_r. replace (8 - size + size) with 8 by lia. reflexivity. }
  assert (Hpos : 0 < 2 ^ size) by (apply N.neq_0_lt_0, N.pow_nonzero; lia).
  set (x := flags * 2 ^ size + low).
  assert (Hx : x < 256) by (unfold x; nia).
  pose proof (forall_below_spec 256 _ Hq x Hx) as H1. unfold first_enc_ok in H1.
  assert (Hd : x / 2 ^ size = flags).
  { unfold x. symmetry. apply N.div_unique with low; lia. }
  assert (Hm : x mod 2 ^ size = low).
  { unfold x. symmetry. apply N.mod_unique with flags; lia. }
  rewrite Hd, Hm in H1.
  apply andb_true_iff in H1 as [H1 H3]. apply andb_true_iff in H1 as [H1 H2].
  apply N.eqb_eq in H1, H2, H3. auto.
Qed.

(* ---------- the continuation loop of decode ---------- *)

Definition loop_spec (bs : bytes) (k value : N) : res pi_err (N * bytes) :=
  if 9 <=? N.of_nat (cont_run bs) + k then Err PiOverflow
  else match rfc_pi_cont bs (7 * k) with
       | Some (v, rest) => Ok (value + v, rest)
       | None => Err PiUnexpectedEnd
       end.

Lemma pi_dec_loop_spec bs : forall k value,
  wf_bytes bs -> k <= 8 -> value <= 254 + 2 ^ (7 * k) ->
  pi_dec_loop bs value (7 * k) = loop_spec bs k value.
Proof.
  induction bs as [|b r IH]; intros k value Hwf Hk Hv.
  - unfold loop_spec. cbn [pi_dec_loop cont_run rfc_pi_cont].
    destruct (N.leb_spec 9 (N.of_nat 0 + k)) as [Hc|Hc]; [lia|reflexivity].
  - apply wf_bytes_cons in Hwf as [Hb Hr].
    destruct (byte_cont_facts b Hb) as [Hland Hcont].
    cbn [pi_dec_loop]. rewrite Hland, Hcont.
    unfold pi_dec_step, pi_dec_overflow_ge, pi_max_power, cmp_ge.
    destruct (N.leb_spec 64 (7 * k)) as [Hc|_]; [lia|].
    set (P := 2 ^ (7 * k)) in *.
    assert (HP : P <= 2 ^ 56).
    { unfold P. apply N.pow_le_mono_r; lia. }
    assert (HP0 : 0 < P) by (unfold P; apply N.neq_0_lt_0, N.pow_nonzero; lia).
    assert (HP7 : 2 ^ (7 * (k + 1)) = 128 * P).
    { unfold P. replace (7 * (k + 1)) with (7 + 7 * k) by lia. rewrite N.pow_add_r. reflexivity. }
    change (2 ^ 56) with 72057594037927936 in HP.
    rewrite N.shiftl_mul_pow2. fold P.
    assert (Hsmall : b mod 128 * P < 2 ^ 64).
    { change (2 ^ 64) with 18446744073709551616. nia. }
    rewrite (N.mod_small _ _ Hsmall).
    change (2 ^ 64) with 18446744073709551616 in *.
    destruct (N.leb_spec 18446744073709551616 (value + b mod 128 * P)) as [Hc|_]; [nia|].
    unfold loop_spec. cbn [cont_run rfc_pi_cont]. fold P.
    destruct (N.eqb_spec (b / 128) 0) as [Hz|Hnz].
    + destruct (N.leb_spec 9 (N.of_nat 0 + k)) as [Hc|_]; [lia|]. reflexivity.
    + destruct (N.leb_spec 63 (7 * k + 7)) as [Hov|Hov].
      * destruct (N.leb_spec 9 (N.of_nat (S (cont_run r)) + k)) as [_|Hc]; [reflexivity|lia].
      * replace (7 * k + 7) with (7 * (k + 1)) by lia.
        rewrite IH; [|assumption|lia|rewrite HP7; nia].
        unfold loop_spec.
        replace (N.of_nat (S (cont_run r)) + k) with (N.of_nat (cont_run r) + (k + 1)) by lia.
        destruct (N.leb_spec 9 (N.of_nat (cont_run r) + (k + 1))) as [_|_]; [reflexivity|].
        replace (7 * k + 7) with (7 * (k + 1)) by lia.
        destruct (rfc_pi_cont r (7 * (k + 1))) as [[v rest]|]; [|reflexivity].
        f_equal. f_equal. lia.
Qed.

(* ---------- complete characterisation of decode (T2) ---------- *)

(* what pi_decode returns on every well-formed input, in terms of the RFC functions only *)
Definition pi_decode_spec (size : N) (bs : bytes) : res pi_err (N * N * bytes) :=
  match bs with
  | [] => Err PiUnexpectedEnd
  | b0 :: r =>
      if b0 mod 2 ^ size <? 2 ^ size - 1 then Ok (b0 / 2 ^ size, b0 mod 2 ^ size, r)
      else if 9 <=? N.of_nat (cont_run r) then Err PiOverflow
      else match rfc_pi_decode size bs with
           | Some x => Ok x
           | None => Err PiUnexpectedEnd
           end
  end.

Lemma size_ok_dec size : 1 <= size <= 8 ->
  negb (cmp_lt (negb pi_dec_size_le) size pi_dec_size_max) = false /\
  (pi_dec_mask_width <? size) = false /\ (8 <=? pi_dec_mask_width - size) = false.
Proof.
  intros Hs. unfold pi_dec_size_le, pi_dec_size_max, pi_dec_mask_width, cmp_lt. cbn [negb].
  repeat split; lia.
Qed.

Theorem pi_decode_characterised size bs :
  1 <= size <= 8 -> wf_bytes bs -> pi_decode size bs = pi_decode_spec size bs.
Proof.
  intros Hs Hwf. unfold pi_decode, pi_decode_spec.
  destruct (size_ok_dec size Hs) as (E1 & E2 & E3). rewrite E1.
  destruct bs as [|b0 r]; [reflexivity|].
  apply wf_bytes_cons in Hwf as [Hb Hr].
  rewrite E2, E3.
  destruct (first_dec_facts size b0 Hs Hb) as (F1 & F2 & F3).
  rewrite F1, F2, F3. unfold pi_dec_short_lt, cmp_lt, pi_dec_power_init.
  destruct (N.ltb_spec (b0 mod 2 ^ size) (2 ^ size - 1)) as [Hlt|Hge]; [reflexivity|].
  assert (Hpow : 2 ^ size <= 256).
  { change 256 with (2 ^ 8). apply N.pow_le_mono_r; lia. }
  assert (Hpos : 0 < 2 ^ size) by (apply N.neq_0_lt_0, N.pow_nonzero; lia).
  change 0 with (7 * 0) at 1.
  rewrite pi_dec_loop_spec; [|assumption|lia|change (7 * 0) with 0; change (2 ^ 0) with 1; lia].
  unfold loop_spec. rewrite N.add_0_r. change (7 * 0) with 0.
  destruct (N.leb_spec 9 (N.of_nat (cont_run r))) as [_|_]; [reflexivity|].
  unfold rfc_pi_decode.
  destruct (N.ltb_spec (b0 mod 2 ^ size) (2 ^ size - 1)) as [Hc|_]; [lia|].
  assert (Hm : b0 mod 2 ^ size = 2 ^ size - 1).
  { pose proof (N.mod_upper_bound b0 (2 ^ size)). lia. }
  destruct (rfc_pi_cont r 0) as [[v rest]|]; [|reflexivity].
  rewrite Hm. reflexivity.
Qed.

(* consequences used in Properties *)
Theorem pi_decode_sound size bs f v rest :
  1 <= size <= 8 -> wf_bytes bs ->
  pi_decode size bs = Ok (f, v, rest) -> rfc_pi_decode size bs = Some (f, v, rest).
Proof.
  intros Hs Hwf H. rewrite pi_decode_characterised in H by assumption.
  unfold pi_decode_spec in H. destruct bs as [|b0 r]; [discriminate|].
  destruct (b0 mod 2 ^ size <? 2 ^ size - 1) eqn:Hlt.
  - unfold rfc_pi_decode. rewrite Hlt. inversion H; reflexivity.
  - destruct (9 <=? N.of_nat (cont_run r)); [discriminate|].
    destruct (rfc_pi_decode size (b0 :: r)) as [x|]; [inversion H; reflexivity|discriminate].
Qed.

Theorem pi_decode_truncated size bs :
  1 <= size <= 8 -> wf_bytes bs ->
  pi_decode size bs = Err PiUnexpectedEnd -> rfc_pi_decode size bs = None.
Proof.
  intros Hs Hwf H. rewrite pi_decode_characterised in H by assumption.
  unfold pi_decode_spec in H. destruct bs as [|b0 r]; [reflexivity|].
  destruct (b0 mod 2 ^ size <? 2 ^ size - 1); [discriminate|].
  destruct (9 <=? N.of_nat (cont_run r)); [discriminate|].
  destruct (rfc_pi_decode size (b0 :: r)) as [x|]; [discriminate|reflexivity].
Qed.

Theorem pi_decode_overflow_iff size bs :
  1 <= size <= 8 -> wf_bytes bs ->
  (pi_decode size bs = Err PiOverflow <->
   exists b0 r, bs = b0 :: r /\ b0 mod 2 ^ size = 2 ^ size - 1 /\ (9 <= cont_run r)%nat).
Proof.
  intros Hs Hwf. rewrite pi_decode_characterised by assumption. unfold pi_decode_spec.
  assert (Hpos : 0 < 2 ^ size) by (apply N.neq_0_lt_0, N.pow_nonzero; lia).
  destruct bs as [|b0 r].
  - split; [discriminate|]. intros (b & r & H & _). discriminate.
  - pose proof (N.mod_upper_bound b0 (2 ^ size)) as Hub.
    destruct (N.ltb_spec (b0 mod 2 ^ size) (2 ^ size - 1)) as [Hlt|Hge].
    + split; [discriminate|]. intros (b & r' & H & Hm & _). inversion H; subst. lia.
    + destruct (N.leb_spec 9 (N.of_nat (cont_run r))) as [Hc|Hc].
      * split; [|reflexivity]. intros _. exists b0, r. repeat split; lia.
      * split.
        -- destruct (rfc_pi_decode size (b0 :: r)); discriminate.
        -- intros (b & r' & H & _ & Hr). inversion H; subst. lia.
Qed.

Theorem pi_decode_no_panic size bs :
  1 <= size <= 8 -> wf_bytes bs -> is_panic (pi_decode size bs) = false.
Proof.
  intros Hs Hwf. rewrite pi_decode_characterised by assumption. unfold pi_decode_spec.
  destruct bs as [|b0 r]; [reflexivity|].
  destruct (b0 mod 2 ^ size <? 2 ^ size - 1); [reflexivity|].
  destruct (9 <=? N.of_nat (cont_run r)); [reflexivity|].
  destruct (rfc_pi_decode size (b0 :: r)); reflexivity.
Qed.

(* ---------- the encoder (T1, T1b) ---------- *)

(* the continuation octets written for [x]: their RFC value is x, the run of continuation bits
   is floor(log128 x), and nothing of what follows is consumed *)
Lemma pi_enc_loop_spec fuel : forall x,
  x < 128 ^ N.of_nat (S fuel) ->
  exists tl, pi_enc_loop (S fuel) x = Ok tl /\ wf_bytes tl /\
    (forall r m, rfc_pi_cont (tl ++ r) m = Some (x * 2 ^ m, r)) /\
    (forall r, 128 ^ N.of_nat (cont_run (tl ++ r)) <= N.max x 1 /\ x < 128 ^ N.of_nat (S (cont_run (tl ++ r)))).
Proof.
  assert (Hbase : forall f x, x < 128 ->
    exists tl, pi_enc_loop (S f) x = Ok tl /\ wf_bytes tl /\
    (forall r m, rfc_pi_cont (tl ++ r) m = Some (x * 2 ^ m, r)) /\
    (forall r, 128 ^ N.of_nat (cont_run (tl ++ r)) <= N.max x 1 /\ x < 128 ^ N.of_nat (S (cont_run (tl ++ r))))).
  { intros f x Hlt. cbn [pi_enc_loop].
    unfold cmp_ge, pi_enc_loop_ge, pi_enc_loop_bound, pi_enc_modulus, pi_enc_cont_add, pi_enc_divisor.
    destruct (N.leb_spec 128 x) as [Hge|_]; [lia|].
    exists [x mod 256]. split; [reflexivity|]. split.
    - apply wf_bytes_cons. split; [lia|constructor].
    - split.
      + intros r m. cbn [app rfc_pi_cont].
        replace (x mod 256 / 128) with 0 by lia. change (0 =? 0) with true. cbv iota.
        replace (x mod 256 mod 128) with x by lia. reflexivity.
      + intros r. cbn [app cont_run].
        replace (x mod 256 / 128) with 0 by lia. change (0 =? 0) with true. cbv iota.
        cbn [N.of_nat]. change (128 ^ 0) with 1. change (128 ^ N.pos 1) with 128. lia. }
  induction fuel as [|fuel IH]; intros x Hx.
  - apply Hbase. change (128 ^ N.of_nat 1) with 128 in Hx. exact Hx.
  - destruct (N.ltb_spec x 128) as [Hlt|Hge]; [apply Hbase; exact Hlt|].
    cbn [pi_enc_loop]. unfold cmp_ge, pi_enc_loop_ge, pi_enc_loop_bound, pi_enc_modulus, pi_enc_cont_add, pi_enc_divisor.
    rewrite Nat2N.inj_succ, N.pow_succ_r' in Hx.
    destruct (N.leb_spec 128 x) as [_|Hc]; [|lia].
    destruct (N.leb_spec 256 (x mod 128 mod 256 + 128)) as [Hc|_]; [lia|].
    destruct (IH (x / 128)) as (tl & Htl & Hwf & Hval & Hrun); [lia|].
    cbn [pi_enc_loop] in Htl.
    unfold cmp_ge, pi_enc_loop_ge, pi_enc_loop_bound, pi_enc_modulus, pi_enc_cont_add, pi_enc_divisor in Htl.
    rewrite Htl. eexists. split; [reflexivity|]. split.
    + apply wf_bytes_cons. split; [lia|assumption].
    + split.
      * intros r m. cbn [app rfc_pi_cont].
        replace ((x mod 128 mod 256 + 128) / 128) with 1 by lia.
        change (1 =? 0) with false. cbv iota. rewrite Hval.
        replace ((x mod 128 mod 256 + 128) mod 128) with (x mod 128) by lia.
        f_equal. f_equal. rewrite N.pow_add_r. change (2 ^ 7) with 128.
        pose proof (N.div_mod x 128). nia.
      * intros r. cbn [app cont_run].
        replace ((x mod 128 mod 256 + 128) / 128) with 1 by lia.
        change (1 =? 0) with false. cbv iota.
        destruct (Hrun r) as [Hlo Hhi].
        rewrite !Nat2N.inj_succ, !N.pow_succ_r' in *.
        set (c := cont_run (tl ++ r)) in *.
        set (Q := 128 ^ N.of_nat c) in *.
        split; lia.
Qed.

Lemma size_ok_enc size : 1 <= size <= 8 ->
  negb (cmp_lt (negb pi_enc_size_le) size pi_enc_size_max) = false.
Proof.
  intros Hs. unfold pi_enc_size_le, pi_enc_size_max, cmp_lt. cbn [negb]. lia.
Qed.

(* the encoder never fails or panics on a u64 value, and writes exactly the RFC 7541 5.1 octets *)
Theorem pi_encode_total size flags v :
  1 <= size <= 8 -> flags < 2 ^ (8 - size) -> v < 2 ^ 64 ->
  exists e, pi_encode size flags v = Ok e /\ wf_bytes e /\
    (forall r, rfc_pi_decode size (e ++ r) = Some (flags, v, r)) /\
    (forall r, v < 2 ^ 63 + (2 ^ size - 1) ->
       match e ++ r with b0 :: t => b0 mod 2 ^ size <? 2 ^ size - 1 = true \/ (cont_run t < 9)%nat | [] => False end) /\
    (forall r, 2 ^ 63 + (2 ^ size - 1) <= v ->
       match e ++ r with b0 :: t => b0 mod 2 ^ size = 2 ^ size - 1 /\ (9 <= cont_run t)%nat | [] => False end).
Proof.
  intros Hs Hf Hv. unfold pi_encode. rewrite (size_ok_enc size Hs).
  assert (Hpow : 2 ^ size <= 256).
  { change 256 with (2 ^ 8). apply N.pow_le_mono_r; lia. }
  assert (Hpos : 2 <= 2 ^ size).
  { change 2 with (2 ^ 1) at 1. apply N.pow_le_mono_r; lia. }
  assert (Hp : 2 ^ (8 - size) * 2 ^ size = 256).
  { rewrite <- N.pow_add_r. replace (8 - size + size) with 8 by lia. reflexivity. }
  set (mask := 2 ^ size - 1) in *.
  destruct (first_enc_facts size flags (N.min v mask) Hs Hf ltac:(lia)) as (M1 & M2 & M3).
  fold mask in M1, M3. rewrite M1. unfold pi_enc_short_lt, cmp_lt.
  destruct (N.ltb_spec v mask) as [Hlt|Hge].
  - replace (N.min v mask) with v in M2 by lia.
    rewrite (N.mod_small v 256) by lia. rewrite M2.
    eexists. split; [reflexivity|].
    assert (Hd : (flags * 2 ^ size + v) / 2 ^ size = flags).
    { symmetry. apply N.div_unique with v; lia. }
    assert (Hm : (flags * 2 ^ size + v) mod 2 ^ size = v).
    { symmetry. apply N.mod_unique with flags; lia. }
    split; [apply wf_bytes_cons; split; [nia|constructor]|].
    split; [|split].
    + intros r. cbn [app]. unfold rfc_pi_decode. rewrite Hd, Hm. fold mask.
      destruct (N.ltb_spec v mask); [reflexivity|lia].
    + intros r _. cbn [app]. rewrite Hm. left. fold mask. lia.
    + intros r Hc. change (2 ^ 63) with 9223372036854775808 in Hc. lia.
  - destruct (pi_enc_loop_spec 69 (v - mask)) as (tl & Htl & Hwf & Hval & Hrun).
    { change (2 ^ 64) with 18446744073709551616 in Hv.
      assert (2 ^ 64 < 128 ^ N.of_nat 70) by (vm_compute; reflexivity).
      change (2 ^ 64) with 18446744073709551616 in *. lia. }
    rewrite Htl. rewrite M3.
    eexists. split; [reflexivity|].
    assert (Hd : (flags * 2 ^ size + mask) / 2 ^ size = flags).
    { symmetry. apply N.div_unique with mask; lia. }
    assert (Hm : (flags * 2 ^ size + mask) mod 2 ^ size = mask).
    { symmetry. apply N.mod_unique with flags; lia. }
    split; [apply wf_bytes_cons; split; [unfold mask; nia|assumption]|].
    split; [|split].
    + intros r. cbn [app]. unfold rfc_pi_decode. rewrite Hd, Hm. fold mask.
      destruct (N.ltb_spec mask mask); [lia|].
      rewrite Hval. f_equal. f_equal. f_equal. change (2 ^ 0) with 1. lia.
    + intros r Hc. cbn [app]. right.
      destruct (Hrun r) as [Hlo _].
      destruct (Nat.lt_ge_cases (cont_run (tl ++ r)) 9) as [|Hbad]; [assumption|exfalso].
      assert (H9 : 128 ^ 9 <= 128 ^ N.of_nat (cont_run (tl ++ r))).
      { apply N.pow_le_mono_r; lia. }
      change (128 ^ 9) with 9223372036854775808 in H9.
      change (2 ^ 63) with 9223372036854775808 in Hc. lia.
    + intros r Hc. cbn [app]. split; [exact Hm|].
      destruct (Hrun r) as [_ Hhi].
      destruct (Nat.lt_ge_cases (cont_run (tl ++ r)) 9) as [Hbad|]; [exfalso|assumption].
      assert (H9 : 128 ^ N.of_nat (S (cont_run (tl ++ r))) <= 128 ^ 9).
      { apply N.pow_le_mono_r; lia. }
      change (128 ^ 9) with 9223372036854775808 in H9.
      change (2 ^ 63) with 9223372036854775808 in Hc. lia.
Qed.

(* T1: every value in the decoder's range round-trips, for every prefix size and flag bits *)
Theorem pi_roundtrip size flags v r :
  1 <= size <= 8 -> flags < 2 ^ (8 - size) -> v < 2 ^ 63 + (2 ^ size - 1) -> wf_bytes r ->
  exists e, pi_encode size flags v = Ok e /\ pi_decode size (e ++ r) = Ok (flags, v, r).
Proof.
  intros Hs Hf Hv Hr.
  assert (Hv64 : v < 2 ^ 64).
  { assert (2 ^ size <= 2 ^ 8) by (apply N.pow_le_mono_r; lia).
    change (2 ^ 8) with 256 in *. change (2 ^ 63) with 9223372036854775808 in Hv.
    change (2 ^ 64) with 18446744073709551616. lia. }
  destruct (pi_encode_total size flags v Hs Hf Hv64) as (e & He & Hwf & Hdec & Hin & _).
  exists e. split; [assumption|].
  rewrite pi_decode_characterised; [|assumption|apply wf_bytes_app; auto].
  specialize (Hdec r). specialize (Hin r Hv). unfold pi_decode_spec.
  destruct (e ++ r) as [|b0 t]; [contradiction|].
  destruct (b0 mod 2 ^ size <? 2 ^ size - 1) eqn:Hlt.
  - unfold rfc_pi_decode in Hdec. rewrite Hlt in Hdec. inversion Hdec; reflexivity.
  - destruct Hin as [Hc|Hc]; [discriminate|].
    destruct (N.leb_spec 9 (N.of_nat (cont_run t))); [lia|].
    rewrite Hdec. reflexivity.
Qed.

(* T1b: a u64 value beyond the range is rejected as Overflow - never wrapped *)
Theorem pi_beyond_range size flags v r :
  1 <= size <= 8 -> flags < 2 ^ (8 - size) -> 2 ^ 63 + (2 ^ size - 1) <= v -> v < 2 ^ 64 -> wf_bytes r ->
  exists e, pi_encode size flags v = Ok e /\ pi_decode size (e ++ r) = Err PiOverflow.
Proof.
  intros Hs Hf Hlo Hv64 Hr.
  destruct (pi_encode_total size flags v Hs Hf Hv64) as (e & He & Hwf & Hdec & _ & Hout).
  exists e. split; [assumption|].
  apply pi_decode_overflow_iff; [assumption|apply wf_bytes_app; auto|].
  specialize (Hout r Hlo). destruct (e ++ r) as [|b0 t]; [contradiction|].
  exists b0, t. tauto.
Qed.

(* the encoder output is the RFC 7541 5.1 octet string *)
Lemma pi_enc_loop_unfold f x :
  pi_enc_loop (S f) x =
  if 128 <=? x then
    match pi_enc_loop f (x / 128) with
    | Ok tl => Ok ((x mod 128 + 128) :: tl)
    | Err e => Err e
    | Panic s => Panic s
    end
  else Ok [x mod 256].
Proof.
  cbn [pi_enc_loop]. unfold cmp_ge, pi_enc_loop_ge, pi_enc_loop_bound, pi_enc_modulus, pi_enc_cont_add, pi_enc_divisor.
  destruct (N.leb_spec 128 x); [|reflexivity].
  destruct (N.leb_spec 256 (x mod 128 mod 256 + 128)) as [Hc|_]; [lia|].
  replace (x mod 128 mod 256) with (x mod 128) by lia. reflexivity.
Qed.

Lemma rfc_pi_tail_eq fuel : forall x fuel', x < 128 ^ N.of_nat (S fuel) -> x < 128 ^ N.of_nat (S fuel') ->
  pi_enc_loop (S fuel) x = Ok (rfc_pi_tail fuel' x).
Proof.
  induction fuel as [|fuel IH]; intros x fuel' Hx Hx'; rewrite pi_enc_loop_unfold.
  - change (128 ^ N.of_nat 1) with 128 in Hx.
    destruct (N.leb_spec 128 x); [lia|].
    destruct fuel'; cbn [rfc_pi_tail]; [|destruct (N.ltb_spec x 128); [|lia]]; f_equal; f_equal; lia.
  - rewrite Nat2N.inj_succ, N.pow_succ_r' in Hx.
    destruct fuel' as [|fuel'].
    + change (128 ^ N.of_nat 1) with 128 in Hx'. destruct (N.leb_spec 128 x); [lia|].
      cbn [rfc_pi_tail]. f_equal. f_equal. lia.
    + rewrite Nat2N.inj_succ, N.pow_succ_r' in Hx'. cbn [rfc_pi_tail].
      destruct (N.leb_spec 128 x) as [Hge|Hlt]; destruct (N.ltb_spec x 128); try lia.
      * rewrite (IH (x / 128) fuel') by lia. reflexivity.
      * f_equal. f_equal. lia.
Qed.

(* the bytes written are exactly the RFC 7541 5.1 octets *)
Theorem pi_encode_is_rfc size flags v :
  1 <= size <= 8 -> flags < 2 ^ (8 - size) -> v < 2 ^ 64 ->
  pi_encode size flags v = Ok (rfc_pi_encode size flags v).
Proof.
  intros Hs Hf Hv. unfold pi_encode, rfc_pi_encode. rewrite (size_ok_enc size Hs).
  assert (Hpow : 2 ^ size <= 256).
  { change 256 with (2 ^ 8). apply N.pow_le_mono_r; lia. }
  assert (Hpos : 2 <= 2 ^ size).
  { change 2 with (2 ^ 1) at 1. apply N.pow_le_mono_r; lia. }
  set (mask := 2 ^ size - 1) in *.
  destruct (first_enc_facts size flags (N.min v mask) Hs Hf ltac:(lia)) as (M1 & M2 & M3).
  fold mask in M1, M3. rewrite M1. unfold pi_enc_short_lt, cmp_lt.
  destruct (N.ltb_spec v mask) as [Hlt|Hge].
  - replace (N.min v mask) with v in M2 by lia.
    rewrite (N.mod_small v 256) by lia. rewrite M2. reflexivity.
  - rewrite M3.
    assert (H64 : 2 ^ 64 < 128 ^ N.of_nat 70) by (vm_compute; reflexivity).
    rewrite (rfc_pi_tail_eq 69 (v - mask) (N.to_nat (N.size v))).
    + reflexivity.
    + lia.
    + pose proof (N.size_gt v) as Hsz.
      assert (Hle : 2 ^ N.size v <= 128 ^ N.of_nat (S (N.to_nat (N.size v)))).
      { rewrite Nat2N.inj_succ, N2Nat.id.
        change 128 with (2 ^ 7). rewrite <- N.pow_mul_r. apply N.pow_le_mono_r; lia. }
      lia.
Qed.
