(* T3b: HeaderPrefix::get inverts HeaderPrefix::new whenever the decoder's insert count is within
   max_entries of the Required Insert Count; the `% 0` panic sites need a non-zero Required Insert Count
   with a capacity below 32. *)
From H3V Require Import Base.Bytes Gen.GenQpack Model.Vas Model.QInstr.
From Coq Require Import ZifyBool ZifyN.
Ltac Zify.zify_post_hook ::= Z.div_mod_to_equations.

Lemma wrap_cases F q p i w me r t :
  F = 2 * me -> 0 < me -> r = F * q + i -> t = F * p + w -> i < F -> w < F ->
  t < r + me -> r <= t + me -> q = p \/ q = p + 1 \/ p = q + 1.
Proof. intros. nia. Qed.

Lemma hp_get_new_required me r t' :
  0 < me -> 0 < r -> t' < r + me -> r <= t' + me -> r + 4 * me + t' < usize_lim ->
  let F := 2 * me in
  let ic := r mod F in
  let w := t' mod F in
  let '(ic', w') := if ic + me <=? w then (ic + 2 * me, w) else if w + me <? ic then (ic, w + 2 * me) else (ic, w) in
  w' <= ic' + t' /\ ic' + t' - w' = r /\ ic' + t' < usize_lim /\ ic + me < usize_lim.
Proof.
  intros Hme Hr H1 H2 Hlim F ic w.
  assert (HF : F = 2 * me) by reflexivity.
  assert (HF0 : F <> 0) by lia.
  pose proof (N.div_mod r F HF0) as Er. pose proof (N.div_mod t' F HF0) as Et.
  pose proof (N.mod_lt r F HF0) as Li. pose proof (N.mod_lt t' F HF0) as Lw.
  fold ic in Er, Li. fold w in Et, Lw.
  set (q := r / F) in *. set (p := t' / F) in *.
  destruct (wrap_cases F q p ic w me r t' HF Hme Er Et Li Lw H1 H2) as [E | [E | E]].
  - subst q. destruct (ic + me <=? w) eqn:C1; [| destruct (w + me <? ic) eqn:C2]; lia.
  - assert (F * q = F * p + F) by (rewrite E; lia).
    destruct (ic + me <=? w) eqn:C1; [| destruct (w + me <? ic) eqn:C2]; lia.
  - assert (F * p = F * q + F) by (rewrite E; lia).
    destruct (ic + me <=? w) eqn:C1; [| destruct (w + me <? ic) eqn:C2]; lia.
Qed.

Definition max_entries (m : N) : N := m / 32.

Theorem hp_roundtrip :
  forall r b t t' m,
    32 <= m -> 0 < r -> r <= t ->
    t' < r + max_entries m -> r <= t' + max_entries m ->
    r + 4 * max_entries m + t' < usize_lim -> b < usize_lim ->
    exists p, hp_new r b t m = Ok p /\ hp_get p t' m = Ok (r, b) /\ 0 < hp_eic p /\ hp_eic p <= 2 * max_entries m.
Proof.
  intros r b t t' m Hm Hr Hrt H1 H2 Hlim Hb.
  unfold max_entries in *.
  assert (Hme : 0 < m / 32) by lia.
  unfold hp_new. unfold q_max_entries_div_new, q_eic_mul, q_eic_add.
  destruct (m =? 0) eqn:E0; [lia|].
  destruct (r =? 0) eqn:E1; [lia|].
  destruct (t <? r) eqn:E2; [lia|].
  destruct (2 * (m / 32) =? 0) eqn:E3; [lia|].
  pose proof (hp_get_new_required (m / 32) r t' Hme Hr H1 H2 Hlim) as K. cbv zeta in K.
  assert (Lmod : r mod (2 * (m / 32)) < 2 * (m / 32)) by (apply N.mod_lt; lia).
  destruct (b <? r) eqn:Eb.
  - eexists. split; [reflexivity|]. unfold hp_get, q_max_entries_div_get. cbn [hp_eic hp_sign hp_delta].
    rewrite E0.
    destruct (r mod (2 * (m / 32)) + 1 =? 0) eqn:E4; [lia|].
    rewrite E3.
    replace (r mod (2 * (m / 32)) + 1 - 1) with (r mod (2 * (m / 32))) by lia.
    destruct (usize_lim <=? r mod (2 * (m / 32)) + m / 32) eqn:E5; [lia|].
    destruct (if r mod (2 * (m / 32)) + m / 32 <=? t' mod (2 * (m / 32))
              then (r mod (2 * (m / 32)) + 2 * (m / 32), t' mod (2 * (m / 32)))
              else if t' mod (2 * (m / 32)) + m / 32 <? r mod (2 * (m / 32))
                   then (r mod (2 * (m / 32)), t' mod (2 * (m / 32)) + 2 * (m / 32))
                   else (r mod (2 * (m / 32)), t' mod (2 * (m / 32)))) as [ic' w'] eqn:EP.
    destruct K as (K1 & K2 & K3 & K4).
    destruct (usize_lim <=? ic' + t') eqn:E6; [lia|].
    destruct (ic' + t' <? w') eqn:E7; [lia|].
    rewrite K2. rewrite E1. cbn [negb].
    destruct (usize_lim <=? r - b - 1 + 1) eqn:E8; [unfold usize_lim in *; lia|].
    destruct (r <? r - b - 1 + 1) eqn:E9; [lia|].
    split; [f_equal; f_equal; lia | lia].
  - eexists. split; [reflexivity|]. unfold hp_get, q_max_entries_div_get. cbn [hp_eic hp_sign hp_delta].
    rewrite E0.
    destruct (r mod (2 * (m / 32)) + 1 =? 0) eqn:E4; [lia|].
    rewrite E3.
    replace (r mod (2 * (m / 32)) + 1 - 1) with (r mod (2 * (m / 32))) by lia.
    destruct (usize_lim <=? r mod (2 * (m / 32)) + m / 32) eqn:E5; [lia|].
    destruct (if r mod (2 * (m / 32)) + m / 32 <=? t' mod (2 * (m / 32))
              then (r mod (2 * (m / 32)) + 2 * (m / 32), t' mod (2 * (m / 32)))
              else if t' mod (2 * (m / 32)) + m / 32 <? r mod (2 * (m / 32))
                   then (r mod (2 * (m / 32)), t' mod (2 * (m / 32)) + 2 * (m / 32))
                   else (r mod (2 * (m / 32)), t' mod (2 * (m / 32)))) as [ic' w'] eqn:EP.
    destruct K as (K1 & K2 & K3 & K4).
    destruct (usize_lim <=? ic' + t') eqn:E6; [lia|].
    destruct (ic' + t' <? w') eqn:E7; [lia|].
    rewrite K2. rewrite E1. cbn [negb].
    destruct (usize_lim <=? r + (b - r)) eqn:E8; [lia|].
    split; [f_equal; f_equal; lia | lia].
Qed.

(* no references: the prefix is all zero and reads back as (0, 0), for every capacity *)
Theorem hp_roundtrip_zero : forall b t t' m, hp_new 0 b t m = Ok hp_zero /\ hp_get hp_zero t' m = Ok (0, 0).
Proof.
  intros. unfold hp_new, hp_get, hp_zero; cbn [hp_eic hp_sign hp_delta].
  destruct (m =? 0); split; reflexivity.
Qed.

(* the `% 0` sites (capacity 1..31) and the assert are reached only with a non-zero Required Insert Count *)
Theorem hp_new_panics_only_when :
  forall r b t m s, hp_new r b t m = Panic s -> 0 < r /\ 0 < m /\ (t < r \/ m < 32).
Proof.
  intros r b t m s. unfold hp_new, q_max_entries_div_new, q_eic_mul.
  destruct (m =? 0) eqn:E0; [discriminate|].
  destruct (r =? 0) eqn:E1; [discriminate|].
  destruct (t <? r) eqn:E2; [intros _; lia|].
  destruct (b <? r); destruct (2 * (m / 32) =? 0) eqn:E3; try discriminate; intros _; lia.
Qed.

Theorem hp_get_zero_capacity : forall p t, hp_get p t 0 = Ok (0, 0).
Proof. reflexivity. Qed.
