(* C01: the incremental reference reader of Model/EndToEndRef.v hands up the RFC reading of the flat byte string,
   whatever the chunking and however arrivals and the application's calls interleave.
   Architecture (DESIGN 3a): (1) a call that cannot progress changes nothing; a call that progresses does the same
   after more bytes have arrived (stability under extension) - so any interleaved run can be replayed as a batch run
   with everything already received (confluence up to body-piece merging); (2) the batch run computes the reading. *)
From H3V Require Import Base.Bytes Base.BytesLemmas Spec.RFC9000 Spec.FrameVocab Spec.Frames Model.EndToEnd
  Spec.EndToEndStream Model.EndToEndRef.
From Coq Require Import ZifyBool ZifyNat ZifyN.
Ltac Zify.zify_post_hook ::= Z.div_mod_to_equations.

Notation sc := no_settings_check.

(* ---------- n calls in a row ---------- *)
Fixpoint polls (n : nat) (s : rstate) : list ritem * rstate :=
  match n with
  | O => ([], s)
  | S k => let '(o, s1) := ref_poll s in let '(o2, s2) := polls k s1 in (o ++ o2, s2)
  end.

Lemma polls_app n : forall m s,
  polls (n + m) s = let '(o1, s1) := polls n s in let '(o2, s2) := polls m s1 in (o1 ++ o2, s2).
Proof.
  induction n as [|n IH]; intros m s.
  - cbn. destruct (polls m s). reflexivity.
  - cbn [plus polls]. destruct (ref_poll s) as [o s1]. rewrite IH.
    destruct (polls n s1) as [o1 s2]. destruct (polls m s2) as [o2 s3]. rewrite app_assoc. reflexivity.
Qed.

Lemma poll_done s : ref_done s = true -> ref_poll s = ([], s).
Proof. unfold ref_done, ref_poll. destruct (rs_phase s); try discriminate; reflexivity. Qed.

Lemma polls_done n : forall s, ref_done s = true -> polls n s = ([], s).
Proof. induction n as [|n IH]; intros s H; [reflexivity|]. cbn [polls]. rewrite (poll_done s H), (IH s H). reflexivity. Qed.

Lemma polls_deterministic n m s i1 s1 i2 s2 :
  polls n s = (i1, s1) -> ref_done s1 = true -> polls m s = (i2, s2) -> ref_done s2 = true -> i1 = i2 /\ s1 = s2.
Proof.
  intros H1 D1 H2 D2.
  assert (A : polls (n + m) s = (i1, s1)).
  { rewrite polls_app, H1, (polls_done m s1 D1), app_nil_r. reflexivity. }
  assert (B : polls (m + n) s = (i2, s2)).
  { rewrite polls_app, H2, (polls_done n s2 D2), app_nil_r. reflexivity. }
  rewrite Nat.add_comm in A. rewrite A in B. inversion B. split; reflexivity.
Qed.

Lemma rx_run_polls n s : rx_run rstate ref_arrive ref_fin ref_poll (repeat HPoll n) s = polls n s.
Proof.
  revert s. induction n as [|n IH]; intros s; [reflexivity|]. cbn [repeat rx_run polls].
  destruct (ref_poll s) as [o s1]. rewrite IH. reflexivity.
Qed.

(* ---------- merging ---------- *)
Lemma merge_flush a q l : merge_items a (flush_items q ++ l) = merge_items (a ++ q) l.
Proof. destruct q; cbn [flush_items app merge_items]; [rewrite app_nil_r|]; reflexivity. Qed.

Lemma merge_nodata a (x : ritem) l : (forall p, x <> RData p) ->
  merge_items a (x :: l) = flush_items a ++ x :: merge_items [] l.
Proof. intros H. destruct x; try reflexivity. exfalso. eapply H. reflexivity. Qed.

Lemma merge_congr o : forall l1 l2, (forall a, merge_items a l1 = merge_items a l2) ->
  forall a, merge_items a (o ++ l1) = merge_items a (o ++ l2).
Proof.
  induction o as [|e o IH]; intros l1 l2 H a; [apply H|].
  destruct e; cbn [app merge_items]; try (rewrite (IH l1 l2 H); reflexivity).
Qed.

(* ---------- the state after more bytes and FIN ---------- *)
Definition ext (x : bytes) (s : rstate) : rstate :=
  {| rs_buf := rs_buf s ++ x; rs_fin := true; rs_phase := rs_phase s |}.

Lemma ext_nil s : rs_fin s = true -> ext [] s = s.
Proof. destruct s as [b f p]. cbn. intros ->. unfold ext. cbn. rewrite app_nil_r. reflexivity. Qed.

Lemma ext_arrive c x s : ext x (ref_arrive c s) = ext (c ++ x) s.
Proof. unfold ext, ref_arrive. cbn. rewrite app_assoc. reflexivity. Qed.

Lemma ext_fin x s : ext x (ref_fin s) = ext x s.
Proof. reflexivity. Qed.

Lemma poll_keeps_fin s : rs_fin (snd (ref_poll s)) = rs_fin s.
Proof.
  unfold ref_poll, starve, fail, set_buf.
  destruct (rs_phase s) as [| |rem|[tb|]| |]; cbn [snd];
  repeat match goal with
  | |- context [match next_frame ?b with _ => _ end] => destruct (next_frame b) as [|?l ?r|[[]| |] ?r|]
  | |- context [match rs_buf s with _ => _ end] => destruct (rs_buf s)
  | |- context [if rs_fin s then _ else _] => destruct (rs_fin s) eqn:?
  | |- context [if ?c then _ else _] => destruct c
  end; cbn [snd rs_fin]; congruence.
Qed.

(* ---------- what has been read stays read when more bytes follow ---------- *)
Lemma firstn_app_le {A} n (l x : list A) : (n <= length l)%nat -> firstn n (l ++ x) = firstn n l.
Proof. intros H. rewrite firstn_app. replace (n - length l)%nat with O by lia. cbn. apply app_nil_r. Qed.
Lemma skipn_app_le {A} n (l x : list A) : (n <= length l)%nat -> skipn n (l ++ x) = skipn n l ++ x.
Proof. intros H. rewrite skipn_app. replace (n - length l)%nat with O by lia. reflexivity. Qed.

Lemma take_varint_ext v a r x : rfc_take_varint v = Some (a, r) -> rfc_take_varint (v ++ x) = Some (a, r ++ x).
Proof.
  unfold rfc_take_varint. destruct v as [|b0 v']; [discriminate|]. cbn [app].
  change (b0 :: v' ++ x) with ((b0 :: v') ++ x).
  destruct (N.ltb_spec (len (b0 :: v')) (rfc_vi_len b0)) as [|Hl]; [discriminate|]. intros H. inversion H; subst. clear H.
  destruct (N.ltb_spec (len ((b0 :: v') ++ x)) (rfc_vi_len b0)) as [Hc|_]; [rewrite len_app in Hc; lia|].
  assert (Hn : (N.to_nat (rfc_vi_len b0) <= length (b0 :: v'))%nat) by (unfold len in Hl; lia).
  rewrite firstn_app_le, skipn_app_le by exact Hn. reflexivity.
Qed.

Lemma take_varint_shorter v a r : rfc_take_varint v = Some (a, r) -> (length r < length v)%nat.
Proof.
  unfold rfc_take_varint. destruct v as [|b0 v']; [discriminate|].
  destruct (N.ltb_spec (len (b0 :: v')) (rfc_vi_len b0)) as [|Hl]; [discriminate|]. intros H. inversion H; subst.
  rewrite skipn_length. assert (1 <= rfc_vi_len b0).
  { unfold rfc_vi_len. assert (0 < 2 ^ (b0 / 64)) by (apply N.neq_0_lt_0, N.pow_nonzero; lia). lia. }
  cbn [length]. lia.
Qed.

Lemma tlv_header_ext v ty l r x : tlv_header v = Some (ty, l, r) -> tlv_header (v ++ x) = Some (ty, l, r ++ x).
Proof.
  unfold tlv_header. destruct (rfc_take_varint v) as [[t r1]|] eqn:E1; [|discriminate].
  destruct (rfc_take_varint r1) as [[l' r2]|] eqn:E2; [|discriminate]. intros H. inversion H; subst.
  rewrite (take_varint_ext _ _ _ x E1), (take_varint_ext _ _ _ x E2). reflexivity.
Qed.

Lemma tlv_header_shorter v ty l r : tlv_header v = Some (ty, l, r) -> (S (length r) < length v)%nat.
Proof.
  unfold tlv_header. destruct (rfc_take_varint v) as [[t r1]|] eqn:E1; [|discriminate].
  destruct (rfc_take_varint r1) as [[l' r2]|] eqn:E2; [|discriminate]. intros H. inversion H; subst.
  apply take_varint_shorter in E1. apply take_varint_shorter in E2. lia.
Qed.

Lemma next_frame_ext b x :
  match next_frame b with
  | NFMore => True
  | NFData l rest => next_frame (b ++ x) = NFData l (rest ++ x)
  | NFFrame c rest => next_frame (b ++ x) = NFFrame c (rest ++ x)
  | NFBad => next_frame (b ++ x) = NFBad
  end.
Proof.
  unfold next_frame. destruct (tlv_header b) as [[[ty l] r]|] eqn:E; [|exact I].
  rewrite (tlv_header_ext _ _ _ _ x E).
  destruct (ty =? T_WEBTRANSPORT_STREAM); [reflexivity|]. destruct (ty =? T_DATA); [reflexivity|].
  destruct (N.ltb_spec (len r) l) as [|Hl]; [exact I|].
  destruct (N.ltb_spec (len (r ++ x)) l) as [Hc|_]; [rewrite len_app in Hc; lia|].
  assert (Hn : (N.to_nat l <= length r)%nat) by (unfold len in Hl; lia).
  rewrite firstn_app_le, skipn_app_le by exact Hn. reflexivity.
Qed.

Lemma next_frame_shorter b :
  match next_frame b with
  | NFData _ rest | NFFrame _ rest => (S (length rest) < length b)%nat
  | _ => True
  end.
Proof.
  unfold next_frame. destruct (tlv_header b) as [[[ty l] r]|] eqn:E; [|exact I].
  apply tlv_header_shorter in E.
  destruct (ty =? T_WEBTRANSPORT_STREAM); [exact I|]. destruct (ty =? T_DATA); [exact E|].
  destruct (len r <? l); [exact I|]. rewrite skipn_length. lia.
Qed.
