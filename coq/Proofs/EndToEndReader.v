(* C01: the incremental reference reader of Model/EndToEndRef.v hands up the RFC reading of the flat byte string,
   whatever the chunking and however arrivals and the application's calls interleave.
   Architecture (DESIGN 3a): (1) a call that cannot progress changes nothing; a call that progresses does the same
   after more bytes have arrived (stability under extension) - so any interleaved run can be replayed as a batch run
   with everything already received (confluence up to body-piece merging); (2) the batch run computes the reading. *)
From H3V Require Import Base.Bytes Base.BytesLemmas Spec.RFC9000 Spec.FrameVocab Spec.Frames Model.EndToEnd
  Spec.EndToEndStream Model.EndToEndRef.
From Coq Require Import ZifyBool ZifyNat ZifyN.
Ltac Zify.zify_post_hook ::= Z.div_mod_to_equations.

Notation sc := no_settings_check.

(* ---------- n calls in a row ---------- *)
Fixpoint polls (n : nat) (s : rstate) : list ritem * rstate :=
  match n with
  | O => ([], s)
  | S k => let '(o, s1) := ref_poll s in let '(o2, s2) := polls k s1 in (o ++ o2, s2)
  end.

Lemma polls_app n : forall m s,
  polls (n + m) s = let '(o1, s1) := polls n s in let '(o2, s2) := polls m s1 in (o1 ++ o2, s2).
Proof.
  induction n as [|n IH]; intros m s.
  - cbn. destruct (polls m s). reflexivity.
  - cbn [plus polls]. destruct (ref_poll s) as [o s1]. rewrite IH.
    destruct (polls n s1) as [o1 s2]. destruct (polls m s2) as [o2 s3]. rewrite app_assoc. reflexivity.
Qed.

Lemma poll_done s : ref_done s = true -> ref_poll s = ([], s).
Proof. unfold ref_done, ref_poll. destruct (rs_phase s); try discriminate; reflexivity. Qed.

Lemma polls_done n : forall s, ref_done s = true -> polls n s = ([], s).
Proof. induction n as [|n IH]; intros s H; [reflexivity|]. cbn [polls]. rewrite (poll_done s H), (IH s H). reflexivity. Qed.

Lemma polls_deterministic n m s i1 s1 i2 s2 :
  polls n s = (i1, s1) -> ref_done s1 = true -> polls m s = (i2, s2) -> ref_done s2 = true -> i1 = i2 /\ s1 = s2.
Proof.
  intros H1 D1 H2 D2.
  assert (A : polls (n + m) s = (i1, s1)).
  { rewrite polls_app, H1, (polls_done m s1 D1), app_nil_r. reflexivity. }
  assert (B : polls (m + n) s = (i2, s2)).
  { rewrite polls_app, H2, (polls_done n s2 D2), app_nil_r. reflexivity. }
  rewrite Nat.add_comm in A. rewrite A in B. inversion B. split; reflexivity.
Qed.

Lemma rx_run_polls n s : rx_run rstate ref_arrive ref_fin ref_poll (repeat HPoll n) s = polls n s.
Proof.
  revert s. induction n as [|n IH]; intros s; [reflexivity|]. cbn [repeat rx_run polls].
  destruct (ref_poll s) as [o s1]. rewrite IH. reflexivity.
Qed.

(* ---------- merging ---------- *)
Lemma merge_flush a q l : merge_items a (flush_items q ++ l) = merge_items (a ++ q) l.
Proof. destruct q; cbn [flush_items app merge_items]; [rewrite app_nil_r|]; reflexivity. Qed.

Lemma merge_nodata a (x : ritem) l : (forall p, x <> RData p) ->
  merge_items a (x :: l) = flush_items a ++ x :: merge_items [] l.
Proof. intros H. destruct x; try reflexivity. exfalso. eapply H. reflexivity. Qed.

Lemma merge_congr o : forall l1 l2, (forall a, merge_items a l1 = merge_items a l2) ->
  forall a, merge_items a (o ++ l1) = merge_items a (o ++ l2).
Proof.
  induction o as [|e o IH]; intros l1 l2 H a; [apply H|].
  destruct e; cbn [app merge_items]; try (rewrite (IH l1 l2 H); reflexivity).
Qed.

(* ---------- the state after more bytes and FIN ---------- *)
Definition ext (x : bytes) (s : rstate) : rstate :=
  {| rs_buf := rs_buf s ++ x; rs_fin := true; rs_phase := rs_phase s |}.

Lemma ext_nil s : rs_fin s = true -> ext [] s = s.
Proof. destruct s as [b f p]. cbn. intros ->. unfold ext. cbn. rewrite app_nil_r. reflexivity. Qed.

Lemma ext_arrive c x s : ext x (ref_arrive c s) = ext (c ++ x) s.
Proof. unfold ext, ref_arrive. cbn. rewrite app_assoc. reflexivity. Qed.

Lemma ext_fin x s : ext x (ref_fin s) = ext x s.
Proof. reflexivity. Qed.

Lemma poll_keeps_fin s : rs_fin (snd (ref_poll s)) = rs_fin s.
Proof.
  unfold ref_poll, starve, fail, set_buf.
  destruct (rs_phase s) as [| |rem|[tb|]| |]; cbn [snd];
  repeat match goal with
  | |- context [match next_frame ?b with _ => _ end] => destruct (next_frame b) as [|?l ?r|[[]| |] ?r|]
  | |- context [match rs_buf s with _ => _ end] => destruct (rs_buf s)
  | |- context [if rs_fin s then _ else _] => destruct (rs_fin s) eqn:?
  | |- context [if ?c then _ else _] => destruct c
  end; cbn [snd rs_fin]; congruence.
Qed.

(* ---------- what has been read stays read when more bytes follow ---------- *)
Lemma firstn_app_le {A} n (l x : list A) : (n <= length l)%nat -> firstn n (l ++ x) = firstn n l.
Proof. intros H. rewrite firstn_app. replace (n - length l)%nat with O by lia. cbn. apply app_nil_r. Qed.
Lemma skipn_app_le {A} n (l x : list A) : (n <= length l)%nat -> skipn n (l ++ x) = skipn n l ++ x.
Proof. intros H. rewrite skipn_app. replace (n - length l)%nat with O by lia. reflexivity. Qed.

Lemma take_varint_ext v a r x : rfc_take_varint v = Some (a, r) -> rfc_take_varint (v ++ x) = Some (a, r ++ x).
Proof.
  unfold rfc_take_varint. destruct v as [|b0 v']; [discriminate|]. cbn [app].
  change (b0 :: v' ++ x) with ((b0 :: v') ++ x).
  destruct (N.ltb_spec (len (b0 :: v')) (rfc_vi_len b0)) as [|Hl]; [discriminate|]. intros H. inversion H; subst. clear H.
  destruct (N.ltb_spec (len ((b0 :: v') ++ x)) (rfc_vi_len b0)) as [Hc|_]; [rewrite len_app in Hc; lia|].
  assert (Hn : (N.to_nat (rfc_vi_len b0) <= length (b0 :: v'))%nat) by (unfold len in Hl; lia).
  rewrite firstn_app_le, skipn_app_le by exact Hn. reflexivity.
Qed.

Lemma take_varint_shorter v a r : rfc_take_varint v = Some (a, r) -> (length r < length v)%nat.
Proof.
  unfold rfc_take_varint. destruct v as [|b0 v']; [discriminate|].
  destruct (N.ltb_spec (len (b0 :: v')) (rfc_vi_len b0)) as [|Hl]; [discriminate|]. intros H. inversion H; subst.
  rewrite skipn_length. assert (1 <= rfc_vi_len b0).
  { unfold rfc_vi_len. assert (0 < 2 ^ (b0 / 64)) by (apply N.neq_0_lt_0, N.pow_nonzero; lia). lia. }
  cbn [length]. lia.
Qed.

Lemma tlv_header_ext v ty l r x : tlv_header v = Some (ty, l, r) -> tlv_header (v ++ x) = Some (ty, l, r ++ x).
Proof.
  unfold tlv_header. destruct (rfc_take_varint v) as [[t r1]|] eqn:E1; [|discriminate].
  destruct (rfc_take_varint r1) as [[l' r2]|] eqn:E2; [|discriminate]. intros H. inversion H; subst.
  rewrite (take_varint_ext _ _ _ x E1), (take_varint_ext _ _ _ x E2). reflexivity.
Qed.

Lemma tlv_header_shorter v ty l r : tlv_header v = Some (ty, l, r) -> (S (length r) < length v)%nat.
Proof.
  unfold tlv_header. destruct (rfc_take_varint v) as [[t r1]|] eqn:E1; [|discriminate].
  destruct (rfc_take_varint r1) as [[l' r2]|] eqn:E2; [|discriminate]. intros H. inversion H; subst.
  apply take_varint_shorter in E1. apply take_varint_shorter in E2. lia.
Qed.

Lemma next_frame_ext b x :
  match next_frame b with
  | NFMore => True
  | NFData l rest => next_frame (b ++ x) = NFData l (rest ++ x)
  | NFFrame c rest => next_frame (b ++ x) = NFFrame c (rest ++ x)
  | NFBad => next_frame (b ++ x) = NFBad
  end.
Proof.
  unfold next_frame. destruct (tlv_header b) as [[[ty l] r]|] eqn:E; [|exact I].
  rewrite (tlv_header_ext _ _ _ _ x E).
  destruct (ty =? T_WEBTRANSPORT_STREAM); [reflexivity|]. destruct (ty =? T_DATA); [reflexivity|].
  destruct (N.ltb_spec (len r) l) as [|Hl]; [exact I|].
  destruct (N.ltb_spec (len (r ++ x)) l) as [Hc|_]; [rewrite len_app in Hc; lia|].
  assert (Hn : (N.to_nat l <= length r)%nat) by (unfold len in Hl; lia).
  rewrite firstn_app_le, skipn_app_le by exact Hn. reflexivity.
Qed.

Lemma next_frame_shorter b :
  match next_frame b with
  | NFData _ rest | NFFrame _ rest => (S (length rest) < length b)%nat
  | _ => True
  end.
Proof.
  unfold next_frame. destruct (tlv_header b) as [[[ty l] r]|] eqn:E; [|exact I].
  apply tlv_header_shorter in E.
  destruct (ty =? T_WEBTRANSPORT_STREAM); [exact I|]. destruct (ty =? T_DATA); [exact E|].
  destruct (len r <? l); [exact I|]. rewrite skipn_length. lia.
Qed.

Lemma data_poll_eq b f rem : b <> [] ->
  ref_poll {| rs_buf := b; rs_fin := f; rs_phase := PData rem |} =
  ([RData (firstn (N.to_nat (N.min rem (len b))) b)],
   {| rs_buf := skipn (N.to_nat (N.min rem (len b))) b; rs_fin := f;
      rs_phase := if rem - N.min rem (len b) =? 0 then PBody else PData (rem - N.min rem (len b)) |}).
Proof. destruct b; [contradiction|reflexivity]. Qed.

(* ---------- a call now, or the same call after the rest has arrived: same outcome up to piece boundaries ---------- *)
Definition commutes (s : rstate) (x : bytes) : Prop :=
  exists k1 k2 o1 o2 t,
    polls k1 (ext x s) = (o1, t) /\ polls k2 (ext x (snd (ref_poll s))) = (o2, t) /\
    forall a l, merge_items a (o1 ++ l) = merge_items a (fst (ref_poll s) ++ o2 ++ l).

Lemma commute_stay s x : ref_poll s = ([], s) -> commutes s x.
Proof.
  intros H. exists O, O, [], [], (ext x s). rewrite H. cbn [snd fst polls app]. repeat split; reflexivity.
Qed.

Lemma commute_same s x :
  ref_poll (ext x s) = (fst (ref_poll s), ext x (snd (ref_poll s))) -> commutes s x.
Proof.
  intros H. exists 1%nat, O, (fst (ref_poll s)), [], (ext x (snd (ref_poll s))).
  cbn [polls]. rewrite H. rewrite app_nil_r. repeat split; reflexivity.
Qed.

Lemma poll_commute s x : (rs_fin s = true -> x = []) -> commutes s x.
Proof.
  intros Hfin. destruct (rs_fin s) eqn:Ef.
  - (* FIN already there: nothing more can arrive *)
    rewrite (Hfin eq_refl). apply commute_same. rewrite (ext_nil s Ef).
    rewrite ext_nil by (rewrite poll_keeps_fin; exact Ef). destruct (ref_poll s); reflexivity.
  - clear Hfin. destruct s as [b f ph]. cbn [rs_fin] in Ef. subst f.
    destruct ph as [| |rem|[tb|]| |].
    + (* PFirst *)
      pose proof (next_frame_ext b x) as Hx.
      destruct (next_frame b) as [|l r|c r|] eqn:En.
      * apply commute_stay. unfold ref_poll. cbn [rs_phase rs_buf]. rewrite En. reflexivity.
      * apply commute_same. unfold ref_poll. cbn [rs_phase rs_buf ext]. rewrite En, Hx. reflexivity.
      * apply commute_same. unfold ref_poll. cbn [rs_phase rs_buf ext]. rewrite En, Hx.
        destruct c as [[]| |]; reflexivity.
      * apply commute_same. unfold ref_poll. cbn [rs_phase rs_buf ext]. rewrite En, Hx. reflexivity.
    + (* PBody *)
      destruct b as [|b0 b'].
      * apply commute_stay. reflexivity.
      * pose proof (next_frame_ext (b0 :: b') x) as Hx.
        destruct (next_frame (b0 :: b')) as [|l r|c r|] eqn:En.
        -- apply commute_stay. unfold ref_poll. cbn [rs_phase rs_buf]. rewrite En. reflexivity.
        -- apply commute_same. unfold ref_poll. cbn [rs_phase rs_buf ext app]. change (b0 :: b' ++ x) with ((b0 :: b') ++ x).
           rewrite En, Hx. reflexivity.
        -- apply commute_same. unfold ref_poll. cbn [rs_phase rs_buf ext app]. change (b0 :: b' ++ x) with ((b0 :: b') ++ x).
           rewrite En, Hx. destruct c as [[]| |]; reflexivity.
        -- apply commute_same. unfold ref_poll. cbn [rs_phase rs_buf ext app]. change (b0 :: b' ++ x) with ((b0 :: b') ++ x).
           rewrite En, Hx. reflexivity.
    + (* PData *)
      destruct b as [|b0 b'].
      * apply commute_stay. reflexivity.
      * assert (Hb : b0 :: b' <> []) by discriminate. assert (Hbx : (b0 :: b') ++ x <> []) by discriminate.
        revert Hb Hbx. generalize (b0 :: b'). intros b Hb Hbx.
        destruct (N.le_gt_cases rem (len b)) as [Hle|Hgt].
        -- (* the rest of the payload is already there *)
           apply commute_same. unfold ext. cbn [rs_phase rs_buf]. rewrite !data_poll_eq by assumption. cbn [fst snd rs_buf rs_phase].
           assert (E1 : N.min rem (len b) = rem) by lia. assert (E2 : N.min rem (len (b ++ x)) = rem) by (rewrite len_app; lia).
           rewrite E1, E2. assert (Hn : (N.to_nat rem <= length b)%nat) by (unfold len in Hle; lia).
           rewrite firstn_app_le, skipn_app_le by exact Hn. reflexivity.
        -- (* only part of it: the piece handed out now and the next one are one piece later *)
           assert (E1 : N.min rem (len b) = len b) by lia.
           destruct x as [|x0 x'].
           ++ apply commute_same. unfold ext. cbn [rs_phase rs_buf]. rewrite !data_poll_eq by assumption.
              cbn [fst snd rs_buf rs_phase]. rewrite !app_nil_r. reflexivity.
           ++ assert (Hx : x0 :: x' <> []) by discriminate. revert Hx Hbx. generalize (x0 :: x'). intros x Hx Hbx.
              set (m := N.min (rem - len b) (len x)).
              assert (Hm : N.min rem (len (b ++ x)) = len b + m) by (rewrite len_app; unfold m; lia).
              set (ph' := if rem - (len b + m) =? 0 then PBody else PData (rem - (len b + m))).
              exists 1%nat, 1%nat, [RData (b ++ firstn (N.to_nat m) x)], [RData (firstn (N.to_nat m) x)],
                     {| rs_buf := skipn (N.to_nat m) x; rs_fin := true; rs_phase := ph' |}.
              assert (Hl : N.to_nat (len b + m) = (length b + N.to_nat m)%nat) by (unfold len; lia).
              assert (Hlb : N.to_nat (len b) = length b) by (unfold len; lia).
              assert (Ez : rem - len b =? 0 = false) by (apply N.eqb_neq; lia).
              split; [|split].
              ** cbn [polls]. unfold ext. cbn [rs_phase rs_buf]. rewrite data_poll_eq by assumption. rewrite Hm, Hl.
                 rewrite firstn_app, skipn_app.
                 replace (length b + N.to_nat m - length b)%nat with (N.to_nat m) by lia.
                 rewrite firstn_all2 by lia. rewrite skipn_all2 by lia. cbn [app]. reflexivity.
              ** cbn [polls]. rewrite data_poll_eq by assumption. cbn [snd]. rewrite E1, Hlb, skipn_all, Ez.
                 unfold ext. cbn [rs_phase rs_buf app]. rewrite data_poll_eq by assumption. fold m.
                 replace (rem - len b - m) with (rem - (len b + m)) by lia. reflexivity.
              ** intros a l. rewrite data_poll_eq by assumption. cbn [fst]. rewrite E1, Hlb, firstn_all.
                 cbn [app merge_items]. rewrite !app_assoc. reflexivity.
    + (* PTrailers (Some tb) *)
      destruct b as [|b0 b'].
      * apply commute_stay. reflexivity.
      * pose proof (next_frame_ext (b0 :: b') x) as Hx.
        destruct (next_frame (b0 :: b')) as [|l r|c r|] eqn:En.
        -- apply commute_stay. unfold ref_poll. cbn [rs_phase rs_buf]. rewrite En. reflexivity.
        -- apply commute_same. unfold ref_poll. cbn [rs_phase rs_buf ext app]. change (b0 :: b' ++ x) with ((b0 :: b') ++ x).
           rewrite En, Hx. reflexivity.
        -- apply commute_same. unfold ref_poll. cbn [rs_phase rs_buf ext app]. change (b0 :: b' ++ x) with ((b0 :: b') ++ x).
           rewrite En, Hx. destruct c as [[]| |]; reflexivity.
        -- apply commute_same. unfold ref_poll. cbn [rs_phase rs_buf ext app]. change (b0 :: b' ++ x) with ((b0 :: b') ++ x).
           rewrite En, Hx. reflexivity.
    + (* PTrailers None *) apply commute_same. reflexivity.
    + apply commute_stay. reflexivity.
    + apply commute_stay. reflexivity.
Qed.

(* ---------- any interleaved run can be replayed as a batch run ---------- *)
Notation run := (rx_run rstate ref_arrive ref_fin ref_poll).

Lemma only_polls_after_fin h : hist_ok_from true h = true -> hist_flat h = [].
Proof.
  induction h as [|e h IH]; [reflexivity|]. destruct e; cbn [hist_ok_from negb andb hist_flat]; try discriminate. exact IH.
Qed.

Theorem run_is_batch h : forall s items s',
  hist_ok_from (rs_fin s) h = true -> run h s = (items, s') -> ref_done s' = true ->
  exists n ib sb, polls n (ext (hist_flat h) s) = (ib, sb) /\ ref_done sb = true /\
                  forall a, merge_items a items = merge_items a ib.
Proof.
  induction h as [|e h IH]; intros s items s' Hok Hrun Hd.
  - cbn in Hrun. inversion Hrun; subst. exists O, [], (ext [] s'). cbn [polls hist_flat]. repeat split.
    unfold ref_done, ext in *. cbn [rs_phase]. exact Hd.
  - destruct e as [c| |]; cbn [hist_ok_from rx_run hist_flat] in *.
    + apply andb_true_iff in Hok. destruct Hok as [Hok1 Hok]. apply andb_true_iff in Hok1. destruct Hok1 as [Hf _].
      apply negb_true_iff in Hf.
      destruct (IH (ref_arrive c s) items s') as (n & ib & sb & Hp & Hdb & Hm); try assumption.
      { cbn [ref_arrive rs_fin]. rewrite Hf. exact Hok. }
      exists n, ib, sb. rewrite <- ext_arrive. repeat split; assumption.
    + apply andb_true_iff in Hok. destruct Hok as [_ Hok].
      destruct (IH (ref_fin s) items s') as (n & ib & sb & Hp & Hdb & Hm); try assumption.
      exists n, ib, sb. rewrite <- (ext_fin (hist_flat h) s). repeat split; assumption.
    + destruct (ref_poll s) as [o s1] eqn:Ep. destruct (run h s1) as [items2 s2] eqn:Er. inversion Hrun; subst items s2.
      assert (Hfin1 : rs_fin s1 = rs_fin s) by (pose proof (poll_keeps_fin s) as K; rewrite Ep in K; exact K).
      destruct (IH s1 items2 s') as (n & ib & sb & Hp & Hdb & Hm); try assumption.
      { rewrite Hfin1. exact Hok. }
      assert (Hx : rs_fin s = true -> hist_flat h = []).
      { intros Hf. rewrite Hf in Hok. apply only_polls_after_fin. exact Hok. }
      destruct (poll_commute s (hist_flat h) Hx) as (k1 & k2 & o1 & o2 & t & H1 & H2 & H3).
      rewrite Ep in H2, H3. cbn [fst snd] in H2, H3.
      (* the batch run from s1 goes through t *)
      destruct (polls n t) as [ib' sb'] eqn:Et.
      assert (A : polls (k2 + n) (ext (hist_flat h) s1) = (o2 ++ ib', sb')) by (rewrite polls_app, H2, Et; reflexivity).
      assert (B : polls (n + k2) (ext (hist_flat h) s1) = (ib, sb)).
      { rewrite polls_app, Hp, (polls_done k2 sb Hdb), app_nil_r. reflexivity. }
      rewrite Nat.add_comm in A. rewrite A in B. inversion B; subst ib sb'.
      exists (k1 + n)%nat, (o1 ++ ib'), sb. split; [rewrite polls_app, H1, Et; reflexivity|]. split; [exact Hdb|].
      intros a. rewrite H3. apply merge_congr. exact Hm.
Qed.

(* ---------- the batch run computes the RFC reading ---------- *)
Definition st (v : bytes) (ph : rphase) : rstate := {| rs_buf := v; rs_fin := true; rs_phase := ph |}.
Definition rd (ph : rd_phase) (acc : bytes) (f : nat) (v : bytes) : list ritem :=
  read_tokens ph acc (fst (outcome_from f sc v Finished)) (snd (outcome_from f sc v Finished)).

Lemma no_fail_flush q : no_fail (flush_items q).
Proof. destruct q; repeat constructor. Qed.

Lemma no_fail_merge l : forall a, no_fail (merge_items a l) <-> no_fail l.
Proof.
  unfold no_fail. induction l as [|e l IH]; intros a.
  - cbn. split; intros _; [constructor|apply no_fail_flush].
  - destruct e; cbn [merge_items];
      try (rewrite Forall_app, !Forall_cons_iff, IH; split;
           [intros (_ & H1 & H2); split; assumption | intros (H1 & H2); split; [apply no_fail_flush|split; assumption]]).
    rewrite IH, Forall_cons_iff. tauto.
Qed.

Lemma read_bytes q : forall acc rest tl,
  read_tokens RdBody acc (map TByte q ++ rest) tl = read_tokens RdBody (acc ++ q) rest tl.
Proof.
  induction q as [|x q IH]; intros acc rest tl; [cbn; rewrite app_nil_r; reflexivity|].
  cbn [map app read_tokens]. rewrite IH, <- app_assoc. reflexivity.
Qed.

(* pending payload bytes and the next piece are one piece *)
Lemma read_acc_shift toks tl : forall p q a,
  merge_items a (RData p :: read_tokens RdBody q toks tl) = merge_items a (read_tokens RdBody (p ++ q) toks tl).
Proof.
  induction toks as [|t toks IH]; intros p q a.
  - cbn [read_tokens]. destruct tl; cbn [merge_items]; rewrite !merge_flush, app_assoc; reflexivity.
  - destruct t as [fr|x]; [destruct fr|]; cbn [read_tokens];
      try (cbn [merge_items]; rewrite !merge_flush, app_assoc; reflexivity).
    + apply IH.
    + rewrite IH, app_assoc. reflexivity.
Qed.

Lemma outcome_step f v : v <> [] ->
  match next_frame v with
  | NFMore => outcome_from (S f) sc v Finished = ([], FrameError)
  | NFBad => exists sid, outcome_from (S f) sc v Finished = ([TFrame (FWebTransport sid)], Handover)
  | NFData l r =>
      outcome_from (S f) sc v Finished =
      if len r <? l then (TFrame (FData l) :: map TByte r, FrameError)
      else (TFrame (FData l) :: map TByte (firstn (N.to_nat l) r) ++ fst (outcome_from f sc (skipn (N.to_nat l) r) Finished),
            snd (outcome_from f sc (skipn (N.to_nat l) r) Finished))
  | NFFrame c rest =>
      (forall l, c <> CKnown (FData l)) /\
      outcome_from (S f) sc v Finished =
      match c with
      | CKnown fr => (TFrame fr :: fst (outcome_from f sc rest Finished), snd (outcome_from f sc rest Finished))
      | CBad e => ([], ProtoError e)
      | CSkip => outcome_from f sc rest Finished
      end
  end.
Proof.
  intros Hv. unfold next_frame, tlv_header. cbn [outcome_from]. destruct v as [|b0 v']; [contradiction|].
  destruct (rfc_take_varint (b0 :: v')) as [[ty r1]|] eqn:E1; [|reflexivity].
  destruct (ty =? T_WEBTRANSPORT_STREAM) eqn:Ew.
  - destruct (rfc_take_varint r1) as [[sid r2]|]; [|reflexivity]. rewrite Ew. exists sid. reflexivity.
  - destruct (rfc_take_varint r1) as [[l r2]|] eqn:E2; [|reflexivity]. rewrite Ew.
    destruct (ty =? T_DATA) eqn:Ed.
    + destruct (len r2 <? l); [reflexivity|]. destruct (outcome_from f sc (skipn (N.to_nat l) r2) Finished). reflexivity.
    + destruct (len r2 <? l); [reflexivity|]. split.
      * intros l0. unfold classify.
        repeat match goal with
        | |- context [if ?c then _ else _] => destruct c
        | |- context [match ?o with Some _ => _ | None => _ end] => destruct o as [[]|]
        | |- context [match ?o with Some _ => _ | None => _ end] => destruct o
        end; discriminate.
      * destruct (classify sc ty (firstn (N.to_nat l) r2)); try reflexivity.
        destruct (outcome_from f sc (skipn (N.to_nat l) r2) Finished). reflexivity.
Qed.

Lemma poll_first_step s o s1 n ib sb : ref_poll s = (o, s1) -> polls n s1 = (ib, sb) -> polls (S n) s = (o ++ ib, sb).
Proof. intros H1 H2. cbn [polls]. rewrite H1, H2. reflexivity. Qed.

Lemma nf_fail_contra l : no_fail l -> (exists w pre post, l = pre ++ RFail w :: post) -> False.
Proof.
  intros H (w & pre & post & E). subst l. unfold no_fail in H. rewrite Forall_app in H. destruct H as [_ H].
  inversion H as [|? ? Hw _]. exact Hw.
Qed.

Ltac contra_fail H :=
  exfalso; apply (nf_fail_contra _ H);
  first [ (eexists; exists []; eexists; reflexivity)
        | (eexists; eexists; eexists; reflexivity) ].

(* after the trailers only frames of unknown type, then the end *)
Lemma batch_trailers f : forall v tb, (length v < f)%nat -> no_fail (rd (RdTrailers tb) [] f v) ->
  rd (RdTrailers tb) [] f v = [RTrailers (Some tb)] /\
  exists n, polls n (st v (PTrailers (Some tb))) = ([RTrailers (Some tb)], st [] PDone).
Proof.
  induction f as [|f IH]; intros v tb Hl Hnf; [lia|].
  destruct v as [|b0 v'].
  - split; [reflexivity|]. exists 1%nat. reflexivity.
  - set (v := b0 :: v') in *. assert (Hv : v <> []) by discriminate.
    pose proof (outcome_step f v Hv) as Hs. pose proof (next_frame_shorter v) as Hsh. unfold rd in *.
    destruct (next_frame v) as [|l r|c rest|] eqn:En.
    + rewrite Hs in Hnf. cbn [fst snd read_tokens] in Hnf. contra_fail Hnf.
    + rewrite Hs in Hnf. destruct (len r <? l); cbn [fst snd read_tokens] in Hnf; contra_fail Hnf.
    + destruct Hs as [_ Hs]. rewrite Hs in *. destruct c as [fr|e|].
      * cbn [fst snd read_tokens] in Hnf. contra_fail Hnf.
      * cbn [fst snd read_tokens] in Hnf. contra_fail Hnf.
      * destruct (IH rest tb ltac:(lia) Hnf) as [Hr (n & Hp)]. split; [exact Hr|]. exists (S n).
        apply (poll_first_step _ [] (st rest (PTrailers (Some tb)))); [|exact Hp].
        unfold ref_poll, st. cbn [rs_phase rs_buf]. unfold v at 1. fold v. rewrite En. reflexivity.
    + destruct Hs as (sid & Hs). rewrite Hs in Hnf. cbn [fst snd read_tokens] in Hnf. contra_fail Hnf.
Qed.

Lemma batch_body f : forall v, (length v < f)%nat -> no_fail (rd RdBody [] f v) ->
  exists n ib sb, polls n (st v PBody) = (ib, sb) /\ ref_done sb = true /\
                  forall a, merge_items a ib = merge_items a (rd RdBody [] f v).
Proof.
  induction f as [|f IH]; intros v Hl Hnf; [lia|].
  destruct v as [|b0 v'].
  - exists 2%nat, [RDataEnd; RTrailers None], (st [] PDone). repeat split.
  - set (v := b0 :: v') in *. assert (Hv : v <> []) by discriminate.
    pose proof (outcome_step f v Hv) as Hs. pose proof (next_frame_shorter v) as Hsh. unfold rd in *.
    assert (Hpoll : forall o s1, (match next_frame v with
                                  | NFMore => starve (st v PBody)
                                  | NFData l rest => ([], set_buf rest (if l =? 0 then PBody else PData l) (st v PBody))
                                  | NFFrame (CKnown (FHeaders blk)) rest => ([RDataEnd], set_buf rest (PTrailers (Some blk)) (st v PBody))
                                  | NFFrame CSkip rest => ([], set_buf rest PBody (st v PBody))
                                  | _ => fail (st v PBody)
                                  end) = (o, s1) -> ref_poll (st v PBody) = (o, s1)).
    { intros o s1 H. unfold ref_poll, st. cbn [rs_phase rs_buf]. unfold v at 1. fold v. exact H. }
    destruct (next_frame v) as [|l r|c rest|] eqn:En.
    + rewrite Hs in Hnf. cbn [fst snd read_tokens flush_items app] in Hnf. contra_fail Hnf.
    + rewrite Hs in *. destruct (N.ltb_spec (len r) l) as [Hlt|Hge].
      * cbn [fst snd read_tokens] in Hnf. rewrite <- (app_nil_r (map TByte r)) in Hnf. rewrite read_bytes in Hnf.
        cbn [read_tokens] in Hnf. contra_fail Hnf.
      * cbn [fst snd read_tokens] in *. rewrite read_bytes in *. cbn [app] in *.
        set (p := firstn (N.to_nat l) r) in *. set (rest := skipn (N.to_nat l) r) in *.
        assert (Hnf' : no_fail (read_tokens RdBody [] (fst (outcome_from f sc rest Finished)) (snd (outcome_from f sc rest Finished)))).
        { apply (no_fail_merge _ []) in Hnf. rewrite <- (app_nil_r p) in Hnf. rewrite <- read_acc_shift in Hnf.
          apply no_fail_merge in Hnf. unfold no_fail in Hnf. rewrite Forall_cons_iff in Hnf. apply Hnf. }
        assert (Hrl : (length rest < f)%nat) by (unfold rest; rewrite skipn_length; lia).
        destruct (IH rest Hrl Hnf') as (n & ib & sb & Hp & Hd & Hm).
        destruct (N.eqb_spec l 0) as [Hz|Hnz].
        -- (* DATA with an empty payload *)
           subst l. exists (S n), ib, sb. split; [|split; [exact Hd|]].
           ++ apply (poll_first_step _ [] (st rest PBody)); [|exact Hp]. apply Hpoll. reflexivity.
           ++ intros a. rewrite Hm. unfold p. reflexivity.
        -- exists (S (S n)), (RData p :: ib), sb. split; [|split; [exact Hd|]].
           ++ apply (poll_first_step _ [] (st r (PData l))); [apply Hpoll; destruct (N.eqb_spec l 0); [contradiction|reflexivity]|].
              apply (poll_first_step _ [RData p] (st rest PBody)); [|exact Hp].
              assert (Hr : r <> []) by (intros E; subst r; unfold len in Hge; cbn in Hge; lia).
              unfold st. rewrite data_poll_eq by exact Hr. assert (Emin : N.min l (len r) = l) by lia. rewrite Emin.
              replace (l - l =? 0) with true by (symmetry; apply N.eqb_eq; lia). reflexivity.
           ++ intros a. cbn [merge_items]. rewrite Hm. rewrite <- (app_nil_r p) at 2. rewrite <- read_acc_shift. reflexivity.
    + destruct Hs as [Hnd Hs]. rewrite Hs in *. destruct c as [fr|e|].
      * destruct fr as [l0|blk| | | | | |]; cbn [fst snd read_tokens flush_items app] in Hnf;
          try solve [contra_fail Hnf]; try solve [exfalso; apply (Hnd l0); reflexivity].
        assert (Hnf' : no_fail (rd (RdTrailers blk) [] f rest)).
        { unfold no_fail in Hnf. rewrite Forall_cons_iff in Hnf. apply Hnf. }
        destruct (batch_trailers f rest blk ltac:(lia) Hnf') as [Hr (n & Hp)].
        exists (S n), (RDataEnd :: [RTrailers (Some blk)]), (st [] PDone). split; [|split; [reflexivity|]].
        -- apply (poll_first_step _ [RDataEnd] (st rest (PTrailers (Some blk)))); [apply Hpoll; reflexivity|exact Hp].
        -- intros a. cbn [fst snd read_tokens flush_items app]. unfold rd in Hr. rewrite Hr. reflexivity.
      * cbn [fst snd read_tokens flush_items app] in Hnf. contra_fail Hnf.
      * destruct (IH rest ltac:(lia) Hnf) as (n & ib & sb & Hp & Hd & Hm).
        exists (S n), ib, sb. split; [|split; [exact Hd|exact Hm]].
        apply (poll_first_step _ [] (st rest PBody)); [apply Hpoll; reflexivity|exact Hp].
    + destruct Hs as (sid & Hs). rewrite Hs in Hnf. cbn [fst snd read_tokens flush_items app] in Hnf. contra_fail Hnf.
Qed.

Lemma batch_first f : forall v, (length v < f)%nat -> no_fail (rd RdFirst [] f v) ->
  exists n ib sb, polls n (st v PFirst) = (ib, sb) /\ ref_done sb = true /\
                  forall a, merge_items a ib = merge_items a (rd RdFirst [] f v).
Proof.
  induction f as [|f IH]; intros v Hl Hnf; [lia|].
  destruct v as [|b0 v'].
  - unfold rd in Hnf. cbn [outcome_from fst snd read_tokens] in Hnf. contra_fail Hnf.
  - set (v := b0 :: v') in *. assert (Hv : v <> []) by discriminate.
    pose proof (outcome_step f v Hv) as Hs. pose proof (next_frame_shorter v) as Hsh. unfold rd in *.
    assert (Hpoll : forall o s1, (match next_frame v with
                                  | NFMore => starve (st v PFirst)
                                  | NFFrame (CKnown (FHeaders blk)) rest => ([RFirst blk], set_buf rest PBody (st v PFirst))
                                  | NFFrame CSkip rest => ([], set_buf rest PFirst (st v PFirst))
                                  | _ => fail (st v PFirst)
                                  end) = (o, s1) -> ref_poll (st v PFirst) = (o, s1)).
    { intros o s1 H. exact H. }
    destruct (next_frame v) as [|l r|c rest|] eqn:En.
    + rewrite Hs in Hnf. cbn [fst snd read_tokens] in Hnf. contra_fail Hnf.
    + rewrite Hs in Hnf. destruct (len r <? l); cbn [fst snd read_tokens] in Hnf; contra_fail Hnf.
    + destruct Hs as [Hnd Hs]. rewrite Hs in *. destruct c as [fr|e|].
      * destruct fr as [l0|blk| | | | | |]; cbn [fst snd read_tokens] in Hnf; try solve [contra_fail Hnf].
        assert (Hnf' : no_fail (rd RdBody [] f rest)).
        { unfold no_fail in Hnf. rewrite Forall_cons_iff in Hnf. apply Hnf. }
        destruct (batch_body f rest ltac:(lia) Hnf') as (n & ib & sb & Hp & Hd & Hm).
        exists (S n), (RFirst blk :: ib), sb. split; [|split; [exact Hd|]].
        -- apply (poll_first_step _ [RFirst blk] (st rest PBody)); [apply Hpoll; reflexivity|exact Hp].
        -- intros a. cbn [fst snd read_tokens merge_items]. f_equal. f_equal. apply Hm.
      * cbn [fst snd read_tokens] in Hnf. contra_fail Hnf.
      * destruct (IH rest ltac:(lia) Hnf) as (n & ib & sb & Hp & Hd & Hm).
        exists (S n), ib, sb. split; [|split; [exact Hd|exact Hm]].
        apply (poll_first_step _ [] (st rest PFirst)); [apply Hpoll; reflexivity|exact Hp].
    + destruct Hs as (sid & Hs). rewrite Hs in Hnf. cbn [fst snd read_tokens] in Hnf. contra_fail Hnf.
Qed.

Lemma rfc_reading_rd v : rfc_stream_reading v = rd RdFirst [] (S (length v)) v.
Proof. unfold rfc_stream_reading, rfc_stream_reading_with, rd, frame_outcome. destruct (outcome_from (S (length v)) sc v Finished). reflexivity. Qed.

(* ---------- the law ---------- *)
Theorem ref_reader_law h items s :
  hist_ok h = true -> run h ref_init = (items, s) -> ref_done s = true ->
  no_fail (rfc_stream_reading (hist_flat h)) ->
  forall a, merge_items a items = merge_items a (rfc_stream_reading (hist_flat h)).
Proof.
  intros Hok Hrun Hd Hnf a.
  destruct (run_is_batch h ref_init items s Hok Hrun Hd) as (n & ib & sb & Hp & Hdb & Hm).
  rewrite rfc_reading_rd in *.
  destruct (batch_first (S (length (hist_flat h))) (hist_flat h) ltac:(lia) Hnf) as (n0 & ib0 & sb0 & Hp0 & Hd0 & Hm0).
  change (ext (hist_flat h) ref_init) with (st (hist_flat h) PFirst) in Hp.
  destruct (polls_deterministic _ _ _ _ _ _ _ Hp Hdb Hp0 Hd0) as [E _]. subst ib0.
  rewrite Hm. apply Hm0.
Qed.

(* once everything has arrived, finitely many further calls complete the message: nothing waits forever *)
Lemma completes_gen h : forall s,
  hist_ok_from (rs_fin s) h = true ->
  (exists n ib sb, polls n (ext (hist_flat h) s) = (ib, sb) /\ ref_done sb = true) ->
  exists m items' s', run (h ++ repeat HPoll m) s = (items', s') /\ ref_done s' = true.
Proof.
  induction h as [|e h IH]; intros s Hok (n & ib & sb & Hp & Hd).
  - cbn [hist_ok_from] in Hok. cbn [app hist_flat] in *. rewrite (ext_nil s Hok) in Hp.
    exists n, ib, sb. rewrite rx_run_polls. split; assumption.
  - destruct e as [c| |]; cbn [hist_ok_from hist_flat app rx_run] in *.
    + apply andb_true_iff in Hok. destruct Hok as [Hok1 Hok]. apply andb_true_iff in Hok1. destruct Hok1 as [Hf _].
      apply negb_true_iff in Hf. apply (IH (ref_arrive c s)); [cbn [ref_arrive rs_fin]; rewrite Hf; exact Hok|].
      exists n, ib, sb. rewrite ext_arrive. split; assumption.
    + apply andb_true_iff in Hok. destruct Hok as [_ Hok]. apply (IH (ref_fin s)); [exact Hok|].
      exists n, ib, sb. split; assumption.
    + destruct (ref_poll s) as [o s1] eqn:Ep.
      assert (Hfin1 : rs_fin s1 = rs_fin s) by (pose proof (poll_keeps_fin s) as K; rewrite Ep in K; exact K).
      assert (Hx : rs_fin s = true -> hist_flat h = []).
      { intros Hf. rewrite Hf in Hok. apply only_polls_after_fin. exact Hok. }
      destruct (poll_commute s (hist_flat h) Hx) as (k1 & k2 & o1 & o2 & t & H1 & H2 & _).
      rewrite Ep in H2. cbn [snd] in H2.
      destruct (polls n t) as [ib' sb'] eqn:Et.
      assert (Hdt : ref_done sb' = true).
      { assert (A : polls (k1 + n) (ext (hist_flat h) s) = (o1 ++ ib', sb')) by (rewrite polls_app, H1, Et; reflexivity).
        assert (B : polls (n + k1) (ext (hist_flat h) s) = (ib, sb)).
        { rewrite polls_app, Hp, (polls_done k1 sb Hd), app_nil_r. reflexivity. }
        rewrite Nat.add_comm in A. rewrite A in B. inversion B; subst. exact Hd. }
      destruct (IH s1) as (m & it & s' & Hr & Hd').
      { rewrite Hfin1. exact Hok. }
      { exists (k2 + n)%nat, (o2 ++ ib'), sb'. split; [rewrite polls_app, H2, Et; reflexivity|exact Hdt]. }
      exists m, (o ++ it), s'. rewrite Hr. split; [reflexivity|exact Hd'].
Qed.

Theorem ref_reader_completes h :
  hist_ok h = true -> no_fail (rfc_stream_reading (hist_flat h)) ->
  exists m items s, run (h ++ repeat HPoll m) ref_init = (items, s) /\ ref_done s = true.
Proof.
  intros Hok Hnf. rewrite rfc_reading_rd in Hnf.
  destruct (batch_first (S (length (hist_flat h))) (hist_flat h) ltac:(lia) Hnf) as (n0 & ib0 & sb0 & Hp0 & Hd0 & _).
  apply completes_gen; [exact Hok|]. exists n0, ib0, sb0. split; [exact Hp0|exact Hd0].
Qed.
