(* Finite-domain helpers for C15: "for all x < n" by evaluation. *)
From H3V Require Import Base.Bytes Base.BytesLemmas.
From Coq Require Import ZifyBool ZifyNat ZifyN.
Ltac Zify.zify_post_hook ::= Z.div_mod_to_equations.

Fixpoint range_from (start : N) (n : nat) : list N :=
  match n with
  | O => []
  | S k => start :: range_from (start + 1) k
  end.

Lemma range_from_In n : forall start x, start <= x -> x < start + N.of_nat n -> In x (range_from start n).
Proof.
  induction n as [|n IH]; intros start x Hlo Hhi.
  - lia.
  - cbn [range_from]. destruct (N.eq_dec x start) as [->|Hne]; [left; reflexivity|].
    right. apply IH; lia.
Qed.

Definition forall_below (n : nat) (P : N -> bool) : bool := forallb P (range_from 0 n).

Lemma forall_below_spec n P : forall_below n P = true -> forall x, x < N.of_nat n -> P x = true.
Proof.
  unfold forall_below. rewrite forallb_forall. intros H x Hx. apply H. apply range_from_In; lia.
Qed.

(* for all x in [lo, lo + n) *)
Definition forall_range (lo : N) (n : nat) (P : N -> bool) : bool := forallb P (range_from lo n).
Lemma forall_range_spec lo n P : forall_range lo n P = true -> forall x, lo <= x -> x < lo + N.of_nat n -> P x = true.
Proof.
  unfold forall_range. rewrite forallb_forall. intros H x H1 H2. apply H. apply range_from_In; lia.
Qed.
