(* C01: the header-mapping round trip over the C12 model: what Header::request / response / trailer + HeaderIter
   emit is accepted by TryFrom + into_request_parts / into_response_parts / into_fields and gives the message back.
   The facts about the `http` crate that this needs (every value an application can hold prints to a string its
   parser accepts) are explicit premises: [request_ok], [response_ok], [map_ok]. *)
From H3V Require Import Base.Bytes Base.BytesLemmas Gen.GenHeaders Model.HttpCrate Model.Headers Spec.WellFormed
  Spec.HttpParseable Proofs.HeadersProofs Model.EndToEnd Model.EndToEndLayers.

(* ---------- a HeaderMap rebuilt from its own iteration ---------- *)
Lemma hm_of_app a b m : hm_of (a ++ b) m = hm_of b (hm_of a m).
Proof. unfold hm_of. apply fold_left_app. Qed.

Lemma hm_append_fresh k v m : ~ In k (map fst m) -> hm_append k v m = m ++ [(k, [v])].
Proof.
  induction m as [|[k' vs] r IH]; intros H; [reflexivity|].
  cbn [hm_append app]. cbn [map fst] in H.
  destruct (HttpCrate.bytes_eqb k' k) eqn:E.
  - apply bytes_eqb_eq in E. subst. exfalso. apply H. left. reflexivity.
  - rewrite IH; [reflexivity|]. intros I. apply H. right. exact I.
Qed.

Lemma hm_append_last k v l m : ~ In k (map fst m) -> hm_append k v (m ++ [(k, l)]) = m ++ [(k, l ++ [v])].
Proof.
  induction m as [|[k' vs] r IH]; intros H.
  - cbn [app hm_append]. rewrite bytes_eqb_refl. reflexivity.
  - cbn [hm_append app]. cbn [map fst] in H.
    destruct (HttpCrate.bytes_eqb k' k) eqn:E.
    + apply bytes_eqb_eq in E. subst. exfalso. apply H. left. reflexivity.
    + rewrite IH; [reflexivity|]. intros I. apply H. right. exact I.
Qed.

Lemma hm_of_entry k vs : forall l m, ~ In k (map fst m) ->
  hm_of (map (fun v => (k, v)) vs) (m ++ [(k, l)]) = m ++ [(k, l ++ vs)].
Proof.
  induction vs as [|v vs IH]; intros l m H.
  - cbn. rewrite app_nil_r. reflexivity.
  - cbn [map hm_of fold_left fst snd]. rewrite hm_append_last by exact H.
    change (fold_left _ (map (fun v0 => (k, v0)) vs) ?x) with (hm_of (map (fun v0 => (k, v0)) vs) x).
    rewrite IH by exact H. rewrite <- app_assoc. reflexivity.
Qed.

Definition map_shape (m : hmap) : Prop := NoDup (map fst m) /\ Forall (fun e => snd e <> []) m.

Lemma hm_of_iter m2 : forall m1, NoDup (map fst (m1 ++ m2)) -> Forall (fun e => snd e <> []) m2 ->
  hm_of (hm_iter m2) m1 = m1 ++ m2.
Proof.
  induction m2 as [|[k vs] r IH]; intros m1 ND NE.
  - cbn. rewrite app_nil_r. reflexivity.
  - rewrite hm_iter_cons, hm_of_app. inversion NE as [|? ? Hvs NE']; subst. cbn [snd] in Hvs.
    assert (Hk : ~ In k (map fst m1)).
    { rewrite map_app in ND. cbn [map fst] in ND. apply NoDup_remove_2 in ND. intros I. apply ND. apply in_or_app. left. exact I. }
    destruct vs as [|v vs]; [contradiction|].
    cbn [map]. change (hm_of ((k, v) :: ?l) m1) with (hm_of l (hm_append k v m1)).
    rewrite hm_append_fresh by exact Hk. rewrite hm_of_entry by exact Hk. cbn [app].
    rewrite IH.
    + rewrite <- app_assoc. reflexivity.
    + rewrite <- app_assoc. exact ND.
    + exact NE'.
Qed.

Lemma hm_of_iter_id m : map_shape m -> hm_of (hm_iter m) [] = m.
Proof. intros [ND NE]. apply (hm_of_iter m []); assumption. Qed.

(* ---------- Field::parse accepts what the application's values print to ---------- *)
(* a header map an application can hold: names are valid lower-case HeaderNames, values valid HeaderValues *)
Definition entry_ok (e : bytes * list bytes) : Prop :=
  forallb is_token_char (fst e) = true /\ hname_ok (fst e) = true /\
  Forall (fun v => hvalue_ok v = true /\ wf_bytes v) (snd e).
Definition map_ok (m : hmap) : Prop := map_shape m /\ Forall entry_ok m.

Lemma token_not_pseudo n : hname_ok n = true -> forallb is_token_char n = true -> exists c r, n = c :: r /\ (c =? 58) = false.
Proof.
  intros Hn Ht. destruct n as [|c r]; [discriminate|]. exists c, r. split; [reflexivity|].
  cbn [forallb] in Ht. apply andb_true_iff in Ht. destruct Ht as [Hc _].
  destruct (N.eqb_spec c 58) as [E|E]; [subst; vm_compute in Hc; discriminate|reflexivity].
Qed.

Lemma field_parse_regular_fwd n v :
  forallb is_token_char n = true -> hname_ok n = true -> hvalue_ok v = true -> field_parse n v = Ok (FHeader n v).
Proof.
  intros Ht Hn Hv. destruct (token_not_pseudo n Hn Ht) as (c & r & E & Hc). subst n.
  unfold field_parse. change pseudo_prefix with 58. rewrite Hc. cbn [negb].
  change token_check_used with true. change name_ctor_lowercase with true. change value_checked with true.
  rewrite Ht, Hn, Hv. reflexivity.
Qed.

Lemma iter_fields_ok m : Forall entry_ok m ->
  Forall (fun f => field_parse (fst f) (snd f) = Ok (FHeader (fst f) (snd f))) (hm_iter m).
Proof.
  induction 1 as [|[k vs] r (Ht & Hn & Hv) _ IH]; [constructor|].
  rewrite hm_iter_cons. apply Forall_app. split; [|exact IH].
  cbn [fst snd] in *. induction Hv as [|v vs [Hv _] _ IHv]; [constructor|].
  cbn [map]. constructor; [|exact IHv]. cbn [fst snd]. apply field_parse_regular_fwd; assumption.
Qed.

(* the `for field in headers` loop over regular field lines *)
Lemma try_from_loop_regular rs : forall i ps m,
  Forall (fun f => field_parse (fst f) (snd f) = Ok (FHeader (fst f) (snd f))) rs ->
  try_from_loop no_grow_failure i rs ps m = Ok {| h_pseudo := ps; h_fields := hm_of rs m |}.
Proof.
  induction rs as [|[n v] rs IH]; intros i ps m H; [reflexivity|].
  inversion H as [|? ? Hf H']; subst. cbn [fst snd] in Hf.
  cbn [try_from_loop]. rewrite Hf. unfold no_grow_failure at 1. cbn iota.
  rewrite IH by exact H'. reflexivity.
Qed.

Lemma try_from_loop_pseudo n v f rest i ps m :
  field_parse n v = Ok f -> (forall hn hv, f <> FHeader hn hv) ->
  try_from_loop no_grow_failure i ((n, v) :: rest) ps m = try_from_loop no_grow_failure (i + 1) rest (set_field f ps) m.
Proof.
  intros Hf Hn. cbn [try_from_loop]. rewrite Hf. destruct f; try reflexivity. exfalso. eapply Hn. reflexivity.
Qed.

Ltac pseudo_parse :=
  unfold field_parse; change pseudo_prefix with 58;
  match goal with |- context [?a =? 58] => change (a =? 58) with true end; cbn [negb];
  change pseudo_value_checked with true; cbn [andb].

Lemma fp_method v : hvalue_ok v = true -> method_ok v = true -> field_parse pn_method v = Ok (FMethod v).
Proof.
  intros Hv Hm. unfold pn_method. pseudo_parse. rewrite Hv. cbn [negb].
  unfold pseudo_arms. cbn [assoc_bytes].
  repeat match goal with |- context [HttpCrate.bytes_eqb ?a ?b] =>
    let T := eval vm_compute in (HttpCrate.bytes_eqb a b) in change (HttpCrate.bytes_eqb a b) with T; cbv iota end.
  unfold parse_pseudo. rewrite Hm. reflexivity.
Qed.
Lemma fp_scheme v : hvalue_ok v = true -> utf8_valid v = true -> scheme_ok v = true -> field_parse pn_scheme v = Ok (FScheme v).
Proof.
  intros Hv Hu Hs. unfold pn_scheme. pseudo_parse. rewrite Hv. cbn [negb].
  unfold pseudo_arms. cbn [assoc_bytes].
  repeat match goal with |- context [HttpCrate.bytes_eqb ?a ?b] =>
    let T := eval vm_compute in (HttpCrate.bytes_eqb a b) in change (HttpCrate.bytes_eqb a b) with T; cbv iota end.
  unfold parse_pseudo. change try_value_utf8 with true. rewrite Hu, Hs. reflexivity.
Qed.
Lemma fp_authority v : hvalue_ok v = true -> utf8_valid v = true -> authority_ok v = true ->
  field_parse pn_authority v = Ok (FAuthority v).
Proof.
  intros Hv Hu Hs. unfold pn_authority. pseudo_parse. rewrite Hv. cbn [negb].
  unfold pseudo_arms. cbn [assoc_bytes].
  repeat match goal with |- context [HttpCrate.bytes_eqb ?a ?b] =>
    let T := eval vm_compute in (HttpCrate.bytes_eqb a b) in change (HttpCrate.bytes_eqb a b) with T; cbv iota end.
  unfold parse_pseudo. change try_value_utf8 with true. rewrite Hu, Hs. reflexivity.
Qed.
Lemma fp_path v q : hvalue_ok v = true -> utf8_valid v = true -> path_parse v = Ok q -> field_parse pn_path v = Ok (FPath q).
Proof.
  intros Hv Hu Hs. unfold pn_path. pseudo_parse. rewrite Hv. cbn [negb].
  unfold pseudo_arms. cbn [assoc_bytes].
  repeat match goal with |- context [HttpCrate.bytes_eqb ?a ?b] =>
    let T := eval vm_compute in (HttpCrate.bytes_eqb a b) in change (HttpCrate.bytes_eqb a b) with T; cbv iota end.
  unfold parse_pseudo. change try_value_utf8 with true. rewrite Hu, Hs. reflexivity.
Qed.
Lemma fp_status v k : hvalue_ok v = true -> status_parse v = Some k -> field_parse pn_status v = Ok (FStatus k).
Proof.
  intros Hv Hs. unfold pn_status. pseudo_parse. rewrite Hv. cbn [negb].
  unfold pseudo_arms. cbn [assoc_bytes].
  repeat match goal with |- context [HttpCrate.bytes_eqb ?a ?b] =>
    let T := eval vm_compute in (HttpCrate.bytes_eqb a b) in change (HttpCrate.bytes_eqb a b) with T; cbv iota end.
  unfold parse_pseudo. rewrite Hs. reflexivity.
Qed.

(* ---------- trailers ---------- *)
(* the `http` crate's HeaderMap holds at most 24576 entries (C12_capacity_limit) *)
Definition count_ok (n : nat) : Prop := N.of_nat n <= 24576.
Lemma count_ok_capacity n : count_ok n -> try_with_capacity_ok (N.of_nat n) = true.
Proof. unfold count_ok. intros H. apply capacity_limit; [|exact H]. assert (24576 < 2 ^ 63) by reflexivity. lia. Qed.
Lemma count_ok_le n m : (m <= n)%nat -> count_ok n -> count_ok m.
Proof. unfold count_ok. lia. Qed.

Theorem trailers_roundtrip t fs :
  map_ok t -> count_ok (length (hm_iter t)) ->
  c12_fields_of_trailers t = Some fs -> c12_trailers_of_fields fs = Some t.
Proof.
  intros [Hs He] Hc H. unfold c12_fields_of_trailers in H. rewrite send_trailers_shape in H. cbn [ok_opt] in H.
  inversion H; subst fs. unfold c12_trailers_of_fields, recv_trailers, try_from. rewrite (count_ok_capacity _ Hc).
  rewrite try_from_loop_regular by (apply iter_fields_ok; exact He).
  cbn [delivered_opt into_fields h_fields]. rewrite hm_of_iter_id by exact Hs. reflexivity.
Qed.

(* ---------- responses ---------- *)
Lemma digit_value_ok b : 48 <= b <= 57 -> value_byte_ok b = true.
Proof.
  intros H. unfold value_byte_ok. apply orb_true_iff. left. apply andb_true_iff. split.
  - apply N.leb_le. lia.
  - apply negb_true_iff. apply N.eqb_neq. lia.
Qed.

Lemma status_str_value_ok st : 100 <= st <= 999 -> hvalue_ok (status_as_str st) = true.
Proof.
  intros H. unfold hvalue_ok, status_as_str. cbn [forallb].
  assert (H1 : 1 <= st / 100 <= 9) by (split; [apply N.div_le_lower_bound; lia|apply N.lt_succ_r, N.div_lt_upper_bound; lia]).
  assert (H2 : (st / 10) mod 10 < 10) by (apply N.mod_lt; lia).
  assert (H3 : st mod 10 < 10) by (apply N.mod_lt; lia).
  rewrite !digit_value_ok by lia. reflexivity.
Qed.

Definition response_ok (p : c12_response) : Prop :=
  100 <= cp_status p <= 999 /\ map_ok (cp_fields p) /\ count_ok (S (length (hm_iter (cp_fields p)))).

Theorem response_roundtrip p fs :
  response_ok p -> c12_fields_of_response p = Some fs ->
  c12_response_of_fields fs = Some {| rs_status := cp_status p; rs_headers := cp_fields p |}.
Proof.
  intros (Hst & [Hs He] & Hc) H. unfold c12_fields_of_response in H. rewrite send_response_shape in H. cbn [ok_opt] in H.
  inversion H; subst fs. unfold c12_response_of_fields, recv_response, try_from. cbn [length]. rewrite (count_ok_capacity _ Hc).
  rewrite (try_from_loop_pseudo pn_status (status_as_str (cp_status p)) (FStatus (cp_status p)))
    by (first [apply fp_status; [apply status_str_value_ok; exact Hst|apply status_roundtrip; exact Hst] | intros; discriminate]).
  rewrite try_from_loop_regular by (apply iter_fields_ok; exact He).
  unfold into_response_parts. cbn [h_pseudo set_field p_status pseudo0 h_fields delivered_opt].
  rewrite hm_of_iter_id by exact Hs. reflexivity.
Qed.

(* ---------- requests ---------- *)
Definition plain_connect (q : c12_request) : bool := HttpCrate.bytes_eqb (cq_method q) m_CONNECT.

(* PathAndQuery::from(as_str) as the Uri builder of into_request_parts sees it *)
Definition reparse (v : bytes) : pq :=
  match path_parse v with
  | Ok q1 => match pq_data q1 with [] => pq_slash | _ => q1 end
  | _ => pq_slash
  end.

(* the authority the server application sees: the target's, else the Host field *)
Definition request_authority (q : c12_request) : bytes :=
  match uri_authority (cq_uri q) with
  | Some a => a
  | None => match hm_get host_name (cq_fields q) with Some h => h | None => [] end
  end.

Definition c12_norm_request (q : c12_request) : request :=
  {| rq_method := cq_method q;
     rq_uri := if plain_connect q
               then {| u_scheme := None; u_authority := request_authority q; u_path := pq_empty |}
               else {| u_scheme := Some (sent_scheme (cq_uri q)); u_authority := request_authority q;
                       u_path := reparse (sent_path (cq_uri q)) |};
     rq_protocol := None;
     rq_headers := cq_fields q |}.

(* the request is one an application can build with the `http` crate and that names its target *)
Definition request_ok (q : c12_request) : Prop :=
  cq_ext q = None /\
  hvalue_ok (cq_method q) = true /\ method_ok (cq_method q) = true /\
  map_ok (cq_fields q) /\ count_ok (4 + length (hm_iter (cq_fields q))) /\
  (plain_connect q = false ->
     (hvalue_ok (sent_scheme (cq_uri q)) = true /\ utf8_valid (sent_scheme (cq_uri q)) = true /\
      scheme_ok (sent_scheme (cq_uri q)) = true) /\
     (hvalue_ok (sent_path (cq_uri q)) = true /\ utf8_valid (sent_path (cq_uri q)) = true /\
      exists q1, path_parse (sent_path (cq_uri q)) = Ok q1) /\
     wf_bytes (sent_scheme (cq_uri q)) /\ wf_bytes (sent_path (cq_uri q))) /\
  match uri_authority (cq_uri q) with
  | Some a => hvalue_ok a = true /\ utf8_valid a = true /\ authority_ok a = true /\
              match hm_get host_name (cq_fields q) with Some h => a = h | None => True end
  | None => exists h, hm_get host_name (cq_fields q) = Some h /\ authority_ok h = true
  end.

Definition emitted_request (q : c12_request) : fieldl :=
  (pn_method, cq_method q) ::
  (if plain_connect q then [] else [(pn_scheme, sent_scheme (cq_uri q))]) ++
  match uri_authority (cq_uri q) with Some a => [(pn_authority, a)] | None => [] end ++
  (if plain_connect q then [] else [(pn_path, sent_path (cq_uri q))]) ++
  hm_iter (cq_fields q).

Lemma send_request_computed q : request_ok q -> c12_fields_of_request q = Some (emitted_request q).
Proof.
  intros (Hext & _ & _ & _ & _ & _ & Hauth).
  unfold c12_fields_of_request, send_request, header_request, emitted_request, plain_connect.
  change send_host_name with host_name. rewrite Hext.
  assert (Hhdr : (match uri_authority (cq_uri q), hm_get host_name (cq_fields q) with
                  | None, None => if send_missing_authority then Err MissingAuthority
                                  else Ok {| h_pseudo := pseudo_request (cq_method q) (cq_uri q) None; h_fields := cq_fields q |}
                  | Some a, Some h => if send_contradiction && negb (HttpCrate.bytes_eqb a h) then Err ContradictedAuthority
                                      else Ok {| h_pseudo := pseudo_request (cq_method q) (cq_uri q) None; h_fields := cq_fields q |}
                  | _, _ => Ok {| h_pseudo := pseudo_request (cq_method q) (cq_uri q) None; h_fields := cq_fields q |}
                  end) = Ok {| h_pseudo := pseudo_request (cq_method q) (cq_uri q) None; h_fields := cq_fields q |}).
  { destruct (uri_authority (cq_uri q)) as [a|]; destruct (hm_get host_name (cq_fields q)) as [h|]; try reflexivity.
    - destruct Hauth as (_ & _ & _ & E). subst h. rewrite bytes_eqb_refl. reflexivity.
    - destruct Hauth as (h & E & _). discriminate. }
  rewrite Hhdr. clear Hhdr.
  unfold header_iter. change iter_pseudo_first with true. cbv iota.
  assert (Hps : iter_pseudo iter_order (pseudo_request (cq_method q) (cq_uri q) None) =
                Ok ((pn_method, cq_method q) ::
                    (if HttpCrate.bytes_eqb (cq_method q) m_CONNECT then [] else [(pn_scheme, sent_scheme (cq_uri q))]) ++
                    match uri_authority (cq_uri q) with Some a => [(pn_authority, a)] | None => [] end ++
                    (if HttpCrate.bytes_eqb (cq_method q) m_CONNECT then [] else [(pn_path, sent_path (cq_uri q))]))).
  { pose proof (pseudo_request_path (cq_method q) (cq_uri q) None) as Hp.
    unfold pseudo_request in *. unfold iter_order. cbn [iter_pseudo pseudo_value p_method p_scheme p_authority p_path p_status p_protocol].
    destruct (HttpCrate.bytes_eqb (cq_method q) m_CONNECT) eqn:Ec; cbn [andb negb is_some fst snd p_path] in *.
    - unfold parts_of_uri. cbn [pt_authority]. destruct (uri_authority (cq_uri q)); reflexivity.
    - specialize (Hp _ eq_refl). rewrite Hp. unfold parts_of_uri, sent_scheme, uri_scheme_str. cbn [pt_authority pt_scheme].
      destruct (uri_authority (cq_uri q)); destruct (u_scheme (cq_uri q)); reflexivity. }
  cbn [h_pseudo h_fields]. rewrite Hps. cbn [ok_opt]. cbn [app]. rewrite <- !app_assoc. reflexivity.
Qed.

Lemma builder_path_reparse' v q1 p :
  path_parse v = Ok q1 ->
  builder_path (Some p) (pq_as_str q1) =
    Some {| pt_scheme := pt_scheme p; pt_authority := pt_authority p; pt_path := Some (reparse v) |}.
Proof.
  intros H. unfold reparse. rewrite H. apply path_parse_data in H. destruct H as [_ R]. unfold pq_as_str.
  destruct (pq_data q1) as [|d0 dr] eqn:D; [reflexivity|].
  unfold builder_path. rewrite R by discriminate. reflexivity.
Qed.

Ltac step_pseudo L :=
  match goal with
  | |- context [try_from_loop no_grow_failure ?i ((?n, ?v) :: ?rest) ?ps ?m] =>
      rewrite (try_from_loop_pseudo n v _ rest i ps m L) by (intros; discriminate)
  end.

Theorem request_roundtrip q fs :
  request_ok q -> c12_fields_of_request q = Some fs -> c12_request_of_fields fs = Some (c12_norm_request q).
Proof.
  intros Hok H. rewrite (send_request_computed q Hok) in H. inversion H; subst fs. clear H.
  destruct Hok as (Hext & Hmv & Hm & [Hs He] & Hc & Hsp & Hauth).
  unfold c12_request_of_fields, resolve_request, try_from.
  assert (Hcap : try_with_capacity_ok (N.of_nat (length (emitted_request q))) = true).
  { apply count_ok_capacity. eapply count_ok_le; [|exact Hc]. unfold emitted_request. cbn [length].
    rewrite !app_length. destruct (plain_connect q); destruct (uri_authority (cq_uri q)); cbn [length]; lia. }
  rewrite Hcap. clear Hcap.
  unfold emitted_request, c12_norm_request, request_authority.
  pose proof (iter_fields_ok _ He) as Hreg.
  destruct (plain_connect q) eqn:Ec.
  - (* CONNECT: :method, :authority? *)
    cbn [app]. step_pseudo (fp_method _ Hmv Hm).
    destruct (uri_authority (cq_uri q)) as [a|] eqn:Ea.
    + destruct Hauth as (Hav & Hau & Hao & Hh). cbn [app].
      step_pseudo (fp_authority _ Hav Hau Hao).
      rewrite try_from_loop_regular by exact Hreg. rewrite hm_of_iter_id by exact Hs.
      unfold into_request_parts. cbn [h_pseudo h_fields set_field pseudo0 p_method p_scheme p_authority p_path p_protocol].
      destruct (hm_get host_name (cq_fields q)) as [h|].
      * subst h. change req_contradiction with true. rewrite bytes_eqb_refl. cbn [andb negb].
        unfold builder_authority, builder_new. rewrite Hao. cbn. reflexivity.
      * unfold builder_authority, builder_new. rewrite Hao. cbn. reflexivity.
    + destruct Hauth as (h & Hh & Hao). cbn [app].
      rewrite try_from_loop_regular by exact Hreg. rewrite hm_of_iter_id by exact Hs.
      unfold into_request_parts. cbn [h_pseudo h_fields set_field pseudo0 p_method p_scheme p_authority p_path p_protocol].
      rewrite Hh. unfold builder_authority, builder_new. rewrite Hao. cbn. reflexivity.
  - (* everything else: :method, :scheme, :authority?, :path *)
    destruct (Hsp eq_refl) as ((Hsv & Hsu & Hso) & (Hpv & Hpu & q1 & Hpp) & _).
    cbn [app]. step_pseudo (fp_method _ Hmv Hm). step_pseudo (fp_scheme _ Hsv Hsu Hso).
    destruct (uri_authority (cq_uri q)) as [a|] eqn:Ea.
    + destruct Hauth as (Hav & Hau & Hao & Hh). cbn [app].
      step_pseudo (fp_authority _ Hav Hau Hao). step_pseudo (fp_path _ q1 Hpv Hpu Hpp).
      rewrite try_from_loop_regular by exact Hreg. rewrite hm_of_iter_id by exact Hs.
      unfold into_request_parts. cbn [h_pseudo h_fields set_field pseudo0 p_method p_scheme p_authority p_path p_protocol].
      unfold builder_new. rewrite (builder_path_reparse' _ q1 _ Hpp). unfold builder_scheme. rewrite Hso.
      cbn [pt_scheme pt_authority pt_path parts0].
      destruct (hm_get host_name (cq_fields q)) as [h|].
      * subst h. change req_contradiction with true. rewrite bytes_eqb_refl. cbn [andb negb].
        unfold builder_authority. rewrite Hao. cbn. reflexivity.
      * unfold builder_authority. rewrite Hao. cbn. reflexivity.
    + destruct Hauth as (h & Hh & Hao). cbn [app].
      step_pseudo (fp_path _ q1 Hpv Hpu Hpp).
      rewrite try_from_loop_regular by exact Hreg. rewrite hm_of_iter_id by exact Hs.
      unfold into_request_parts. cbn [h_pseudo h_fields set_field pseudo0 p_method p_scheme p_authority p_path p_protocol].
      unfold builder_new. rewrite (builder_path_reparse' _ q1 _ Hpp). unfold builder_scheme. rewrite Hso.
      cbn [pt_scheme pt_authority pt_path parts0].
      rewrite Hh. unfold builder_authority. rewrite Hao. cbn. reflexivity.
Qed.

(* what the delivered target looks like through the `http` accessors: scheme, authority, path-and-query *)
Theorem norm_request_components q q1 :
  plain_connect q = false -> path_parse (sent_path (cq_uri q)) = Ok q1 ->
  let u := rq_uri (c12_norm_request q) in
  uri_scheme_str u = Some (sent_scheme (cq_uri q)) /\
  u_authority u = request_authority q /\
  pq_as_str (u_path u) = path_canon (sent_path (cq_uri q)).
Proof.
  intros Hc Hp. unfold c12_norm_request. cbn [rq_uri]. rewrite Hc. cbn [uri_scheme_str u_scheme u_authority u_path].
  repeat split. unfold reparse. rewrite Hp. pose proof (path_parse_as_str _ _ Hp) as Ha.
  destruct (pq_data q1) eqn:D; [|exact Ha]. rewrite <- Ha. unfold pq_as_str. rewrite D. reflexivity.
Qed.

(* ---------- what is emitted consists of bytes ---------- *)
Lemma iter_fields_wf m : Forall entry_ok m -> wf_fields (hm_iter m).
Proof.
  unfold wf_fields. induction 1 as [|[k vs] r (Ht & _ & Hv) _ IH]; [constructor|].
  rewrite hm_iter_cons. apply Forall_app. split; [|exact IH]. cbn [fst snd] in *.
  assert (Hk : wf_bytes k).
  { unfold wf_bytes. apply Forall_forall. intros b Hb. rewrite forallb_forall in Ht. apply is_token_char_bounded. apply Ht. exact Hb. }
  induction Hv as [|v vs [_ Hw] _ IHv]; [constructor|]. cbn [map]. constructor; [|exact IHv]. cbn [fst snd]. split; assumption.
Qed.

Lemma method_ok_wf m : method_ok m = true -> wf_bytes m.
Proof.
  unfold method_ok. destruct m as [|b r]; [discriminate|]. intros H. unfold wf_bytes. apply Forall_forall. intros x Hx.
  rewrite forallb_forall in H. apply method_char_bounded. apply H. exact Hx.
Qed.

Lemma authority_ok_wf a : authority_ok a = true -> wf_bytes a.
Proof.
  intros H. destruct (authority_ok_bytes a H) as [_ Hb]. unfold wf_bytes. rewrite Forall_forall in *. intros x Hx.
  pose proof (authority_byte_visible x (Hb x Hx)) as Hv. unfold wf_byte. lia.
Qed.

Lemma pn_wf : wf_bytes pn_method /\ wf_bytes pn_scheme /\ wf_bytes pn_authority /\ wf_bytes pn_path /\ wf_bytes pn_status.
Proof. repeat split; apply wf_bytesb_spec; reflexivity. Qed.

Lemma emitted_request_wf q : request_ok q -> wf_fields (emitted_request q).
Proof.
  intros (_ & _ & Hm & [_ He] & _ & Hsp & Hauth). destruct pn_wf as (W1 & W2 & W3 & W4 & _).
  unfold emitted_request, wf_fields. constructor; [split; [exact W1|apply method_ok_wf; exact Hm]|].
  destruct (plain_connect q).
  - cbn [app]. destruct (uri_authority (cq_uri q)) as [a|].
    + destruct Hauth as (_ & _ & Hao & _). cbn [app]. constructor; [split; [exact W3|apply authority_ok_wf; exact Hao]|].
      apply iter_fields_wf. exact He.
    + cbn [app]. apply iter_fields_wf. exact He.
  - destruct (Hsp eq_refl) as (_ & _ & Hws & Hwp). cbn [app]. constructor; [split; [exact W2|exact Hws]|].
    destruct (uri_authority (cq_uri q)) as [a|].
    + destruct Hauth as (_ & _ & Hao & _). cbn [app]. constructor; [split; [exact W3|apply authority_ok_wf; exact Hao]|].
      constructor; [split; [exact W4|exact Hwp]|]. apply iter_fields_wf. exact He.
    + cbn [app]. constructor; [split; [exact W4|exact Hwp]|]. apply iter_fields_wf. exact He.
Qed.

Lemma emitted_response_wf p : response_ok p -> wf_fields ((pn_status, status_as_str (cp_status p)) :: hm_iter (cp_fields p)).
Proof.
  intros (Hst & [_ He] & _). destruct pn_wf as (_ & _ & _ & _ & W5). constructor; [|apply iter_fields_wf; exact He].
  split; [exact W5|]. cbn [snd]. unfold status_as_str.
  assert (Ha : cp_status p / 100 <= 9) by (apply N.lt_succ_r, N.div_lt_upper_bound; lia).
  assert (Hb : (cp_status p / 10) mod 10 < 10) by (apply N.mod_lt; lia).
  assert (Hc : cp_status p mod 10 < 10) by (apply N.mod_lt; lia).
  repeat constructor; unfold wf_byte; lia.
Qed.
