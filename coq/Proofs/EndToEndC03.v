(* C01: the receive-side law over the C02 + C03 models.  For every history of chunk arrivals, FIN and calls of the
   documented application on h3's FrameStream + RequestStream model, once the calls have completed, the items handed
   up (body pieces merged) are the RFC reading of the flat bytes - obtained from C03's refinement theorem
   (Proofs/RequestProofs.v request_refinement = C03_refinement) by translating the two specification vocabularies. *)
From H3V Require Import Base.Bytes Base.BytesLemmas Spec.FrameVocab Spec.Frames Spec.FrameTrace Spec.RequestSeq
  Spec.RequestTrace Model.FrameDec Model.FrameStream Model.RequestStream Proofs.RequestProofs
  Model.EndToEnd Spec.EndToEndStream Model.EndToEndLayers Proofs.EndToEndMerge.

Notation sv := settings_verdict.

(* ---------- histories ---------- *)
Definition tr_event (e : hevent) : raction :=
  match e with HArrive c => RArrive (Chunk c) | HFin => RArrive Fin | HPoll => RCall end.
Definition tr (h : list hevent) : list raction := map tr_event h.

Lemma no_arrival_after_fin h : hist_ok_from true h = true -> hist_flat h = [].
Proof.
  induction h as [|e h IH]; [reflexivity|]. destruct e; cbn [hist_ok_from negb andb hist_flat]; try discriminate. exact IH.
Qed.

Lemma arrivals_tr h : hist_ok_from false h = true -> arrivals (map to_action (tr h)) = (hist_flat h, Finished).
Proof.
  unfold tr. induction h as [|e h IH]; [discriminate|]. destruct e as [c| |]; cbn [hist_ok_from negb andb map tr_event to_action arrivals hist_flat].
  - intros H. apply andb_true_iff in H. destruct H as [_ H]. rewrite (IH H). reflexivity.
  - intros H. rewrite (no_arrival_after_fin h H). reflexivity.
  - exact IH.
Qed.

Lemma rhist_ok_tr h : forall f, hist_ok_from f h = true -> wf_bytes (hist_flat h) -> rhist_ok (tr h).
Proof.
  unfold rhist_ok, FrameTrace.hist_ok, tr. induction h as [|e h IH]; intros f Hok Hwf; [constructor|].
  destruct e as [c| |]; cbn [hist_ok_from map tr_event to_action hist_flat] in *.
  - apply andb_true_iff in Hok. destruct Hok as [H1 Hok]. apply andb_true_iff in H1. destruct H1 as [_ Hne].
    apply wf_bytes_app in Hwf. destruct Hwf as [Hc Hr]. constructor; [|exact (IH false Hok Hr)].
    cbn [action_ok]. split; [|exact Hc]. destruct c; [discriminate|discriminate].
  - apply andb_true_iff in Hok. destruct Hok as [_ Hok]. constructor; [exact I|exact (IH true Hok Hwf)].
  - constructor; [exact I|exact (IH f Hok Hwf)].
Qed.

(* ---------- the run of Model/EndToEnd.v is RequestStream.rrun ---------- *)
Notation c03_run r := (rx_run c03_state c03_arrive c03_fin (c03_poll r)).

Lemma rrun_done r h : forall rs, fst (rrun r h rs PDone) = [] .
Proof. induction h as [|a h IH]; intros rs; [reflexivity|]. destruct a; cbn [rrun]; apply IH. Qed.

Lemma rrun_done_state r h : forall rs, c03_run r h (rs, PDone) = ([], (snd (rrun r (tr h) rs PDone), PDone)).
Proof.
  induction h as [|e h IH]; intros rs; [reflexivity|].
  destruct e as [c| |]; cbn [rx_run tr map tr_event rrun]; change (map tr_event h) with (tr h); try apply IH.
  cbn [c03_poll snd]. rewrite IH. reflexivity.
Qed.

Definition step_final (o : robs) (ph' : phase) : Prop := (ph' = PDone <-> robs_final o = true).

Lemma run_corr r h : forall rs ph,
  exists ph', c03_run r h (rs, ph) = (flat_map items_of_robs (fst (rrun r (tr h) rs ph)), (snd (rrun r (tr h) rs ph), ph')) /\
              (ph' = PDone -> ph <> PDone ->
               exists o, last_robs (fst (rrun r (tr h) rs ph)) = Some o /\ robs_final o = true).
Proof.
  induction h as [|e h IH]; intros rs ph.
  - exists ph. split; [reflexivity|]. intros H1 H2. contradiction.
  - destruct e as [c| |]; cbn [rx_run tr map tr_event rrun]; change (map tr_event h) with (tr h).
    + apply (IH (rarrive (Chunk c) rs) ph).
    + apply (IH (rarrive Fin rs) ph).
    + assert (Hstep : forall (o : robs) (rs1 : rstream) (ph1 : phase),
                (ph1 = PDone <-> robs_final o = true) ->
                exists ph', (let '(o2, s2) := c03_run r h (rs1, ph1) in (items_of_robs o ++ o2, s2)) =
                            (flat_map items_of_robs (o :: fst (rrun r (tr h) rs1 ph1)), (snd (rrun r (tr h) rs1 ph1), ph')) /\
                            (ph' = PDone -> exists o', last_robs (o :: fst (rrun r (tr h) rs1 ph1)) = Some o' /\ robs_final o' = true)).
      { intros o rs1 ph1 Hf. destruct (IH rs1 ph1) as (ph' & Hr & Hl). exists ph'. rewrite Hr. split; [reflexivity|].
        intros Hd. destruct ph1.
        - destruct (Hl Hd ltac:(discriminate)) as (o' & Ho' & Hfo'). exists o'. split; [|exact Hfo'].
          cbn [last_robs]. destruct (fst (rrun r (tr h) rs1 PFirst)); [discriminate|exact Ho'].
        - destruct (Hl Hd ltac:(discriminate)) as (o' & Ho' & Hfo'). exists o'. split; [|exact Hfo'].
          cbn [last_robs]. destruct (fst (rrun r (tr h) rs1 PBody)); [discriminate|exact Ho'].
        - destruct (Hl Hd ltac:(discriminate)) as (o' & Ho' & Hfo'). exists o'. split; [|exact Hfo'].
          cbn [last_robs]. destruct (fst (rrun r (tr h) rs1 PTrailers)); [discriminate|exact Ho'].
        - exists o. rewrite rrun_done. split; [reflexivity|]. apply Hf. reflexivity. }
      destruct ph; cbn [c03_poll snd fst].
      * destruct (poll_first r rs) as [res rs1] eqn:Ep.
        destruct (rrun r (tr h) rs1 (match res with Pending => PFirst | Ready (Ok _) => PBody | Ready _ => PDone end)) as [os rs2] eqn:Er.
        destruct (Hstep (OHead res) rs1 (match res with Pending => PFirst | Ready (Ok _) => PBody | Ready _ => PDone end)) as (ph' & H1 & H2).
        { destruct res as [[ | | ]|]; cbn; split; intros; try reflexivity; discriminate. }
        rewrite Er in H1, H2. cbn [fst snd] in H1, H2. exists ph'. split; [exact H1|]. intros Hd _. exact (H2 Hd).
      * destruct (poll_recv_data rs) as [res rs1] eqn:Ep.
        destruct (rrun r (tr h) rs1 (match res with
                     | Pending => PBody | Ready (Ok (Some _)) => PBody | Ready (Ok None) => PTrailers | Ready _ => PDone end)) as [os rs2] eqn:Er.
        destruct (Hstep (OBody res) rs1 (match res with
                     | Pending => PBody | Ready (Ok (Some _)) => PBody | Ready (Ok None) => PTrailers | Ready _ => PDone end)) as (ph' & H1 & H2).
        { destruct res as [[[|]| | ]|]; cbn; split; intros; try reflexivity; discriminate. }
        rewrite Er in H1, H2. cbn [fst snd] in H1, H2. exists ph'. split; [exact H1|]. intros Hd _. exact (H2 Hd).
      * destruct (poll_recv_trailers rs) as [res rs1] eqn:Ep.
        destruct (rrun r (tr h) rs1 (match res with Pending => PTrailers | Ready _ => PDone end)) as [os rs2] eqn:Er.
        destruct (Hstep (OTrail res) rs1 (match res with Pending => PTrailers | Ready _ => PDone end)) as (ph' & H1 & H2).
        { destruct res as [[ | | ]|]; cbn; split; intros; try reflexivity; discriminate. }
        rewrite Er in H1, H2. cbn [fst snd] in H1, H2. exists ph'. split; [exact H1|]. intros Hd _. exact (H2 Hd).
      * exists PDone. rewrite rrun_done_state. rewrite rrun_done. split; [reflexivity|]. intros _ H. contradiction.
Qed.

(* ---------- all observations but the last are non-final ---------- *)
Lemma nonfinal_prefix r h : forall rs ph, Forall (fun o => robs_final o = false) (removelast (fst (rrun r h rs ph))).
Proof.
  induction h as [|a h IH]; intros rs ph; [constructor|]. destruct a as [e|]; cbn [rrun]; [apply IH|].
  assert (Hgen : forall (o : robs) rs1 ph1, (ph1 = PDone <-> robs_final o = true) ->
            Forall (fun o0 => robs_final o0 = false) (removelast (o :: fst (rrun r h rs1 ph1)))).
  { intros o rs1 ph1 Hf. destruct (fst (rrun r h rs1 ph1)) as [|o1 os] eqn:E; [constructor|].
    change (removelast (o :: o1 :: os)) with (o :: removelast (o1 :: os)).
    constructor; [|rewrite <- E; apply IH].
    destruct (robs_final o) eqn:Ef; [|reflexivity]. exfalso.
    assert (ph1 = PDone) by (apply Hf; reflexivity). subst ph1. rewrite rrun_done in E. discriminate. }
  destruct ph.
  - destruct (poll_first r rs) as [res rs1].
    destruct (rrun r h rs1 _) as [os rs2] eqn:Er. cbn [fst].
    replace os with (fst (rrun r h rs1 (match res with Pending => PFirst | Ready (Ok _) => PBody | Ready _ => PDone end)))
      by (rewrite Er; reflexivity).
    apply Hgen. destruct res as [[ | | ]|]; cbn; split; intros; try reflexivity; discriminate.
  - destruct (poll_recv_data rs) as [res rs1].
    destruct (rrun r h rs1 _) as [os rs2] eqn:Er. cbn [fst].
    replace os with (fst (rrun r h rs1 (match res with
                     | Pending => PBody | Ready (Ok (Some _)) => PBody | Ready (Ok None) => PTrailers | Ready _ => PDone end)))
      by (rewrite Er; reflexivity).
    apply Hgen. destruct res as [[[|]| | ]|]; cbn; split; intros; try reflexivity; discriminate.
  - destruct (poll_recv_trailers rs) as [res rs1].
    destruct (rrun r h rs1 _) as [os rs2] eqn:Er. cbn [fst].
    replace os with (fst (rrun r h rs1 (match res with Pending => PTrailers | Ready _ => PDone end)))
      by (rewrite Er; reflexivity).
    apply Hgen. destruct res as [[ | | ]|]; cbn; split; intros; try reflexivity; discriminate.
  - apply IH.
Qed.

(* ---------- the two specification vocabularies ---------- *)
Definition events_of_item (i : ritem) : list revent :=
  match i with
  | RFirst b => [EHead b]
  | RData d => map EByte d
  | RDataEnd => [EBodyEnd]
  | RTrailers t => [ETrailers t]
  | RFail _ => []
  end.
Definition events_of_items (l : list ritem) : list revent := flat_map events_of_item l.

(* regrouping content bytes into pieces: what merging computes *)
Fixpoint regroup (acc : bytes) (evs : list revent) : list ritem :=
  match evs with
  | [] => flush_items acc
  | EByte b :: r => regroup (acc ++ [b]) r
  | EHead h :: r => flush_items acc ++ RFirst h :: regroup [] r
  | EBodyEnd :: r => flush_items acc ++ RDataEnd :: regroup [] r
  | ETrailers t :: r => flush_items acc ++ RTrailers t :: regroup [] r
  end.

Lemma regroup_bytes d : forall acc r, regroup acc (map EByte d ++ r) = regroup (acc ++ d) r.
Proof.
  induction d as [|x d IH]; intros acc r; [cbn; rewrite app_nil_r; reflexivity|].
  cbn [map app regroup]. rewrite IH, <- app_assoc. reflexivity.
Qed.

Lemma merge_is_regroup l : no_fail l -> forall a, merge_items a l = regroup a (events_of_items l).
Proof.
  unfold no_fail, events_of_items. induction 1 as [|i l Hi _ IH]; intros a; [reflexivity|].
  destruct i; cbn [flat_map events_of_item merge_items app regroup]; try (rewrite IH; reflexivity).
  - rewrite regroup_bytes. apply IH.
  - contradiction.
Qed.

(* on a stream whose reading has no error item, C03's prescribed outcome is that reading, as events *)
Definition dst (ph : rd_phase) : dstate :=
  match ph with RdFirst => DStart | RdBody => DBody | RdTrailers b => DTrail b end.

Lemma req_out_cons_byte sd x ts tl :
  req_out sd DBody (TByte x :: ts, tl) = (EByte x :: fst (req_out sd DBody (ts, tl)), snd (req_out sd DBody (ts, tl))).
Proof.
  unfold req_out. cbn [fst snd req_walk]. destruct (req_walk sd DBody ts) as [ev [st'|f]]; cbn [fst snd].
  - destruct (req_stop sd st' tl). reflexivity.
  - reflexivity.
Qed.
Lemma req_out_cons_data sd l ts tl : req_out sd DBody (TFrame (FData l) :: ts, tl) = req_out sd DBody (ts, tl).
Proof. reflexivity. Qed.
Lemma req_out_cons_head sd b ts tl :
  req_out sd DStart (TFrame (FHeaders b) :: ts, tl) = (EHead b :: fst (req_out sd DBody (ts, tl)), snd (req_out sd DBody (ts, tl))).
Proof.
  unfold req_out. cbn [fst snd req_walk]. destruct (req_walk sd DBody ts) as [ev [st'|f]]; cbn [fst snd].
  - destruct (req_stop sd st' tl). reflexivity.
  - reflexivity.
Qed.
Lemma req_out_cons_trailers sd b ts tl :
  req_out sd DBody (TFrame (FHeaders b) :: ts, tl) =
  (EBodyEnd :: fst (req_out sd (DTrail b) (ts, tl)), snd (req_out sd (DTrail b) (ts, tl))).
Proof.
  unfold req_out. cbn [fst snd req_walk]. destruct (req_walk sd (DTrail b) ts) as [ev [st'|f]]; cbn [fst snd].
  - destruct (req_stop sd st' tl). reflexivity.
  - reflexivity.
Qed.

Lemma nf_cons_inv x l : no_fail (x :: l) -> no_fail l.
Proof. unfold no_fail. intros H. inversion H. assumption. Qed.
Lemma nf_app_inv a l : no_fail (flush_items a ++ l) -> no_fail l.
Proof. unfold no_fail. rewrite Forall_app. tauto. Qed.
Lemma nf_fail w l : no_fail (RFail w :: l) -> False.
Proof. unfold no_fail. intros H. inversion H. assumption. Qed.

Lemma walk_is_reading sd toks tl : forall ph acc,
  match ph with RdBody => True | _ => acc = [] end ->
  no_fail (read_tokens ph acc toks tl) ->
  snd (req_out sd (dst ph) (toks, tl)) = RDone /\
  map EByte acc ++ fst (req_out sd (dst ph) (toks, tl)) = events_of_items (read_tokens ph acc toks tl).
Proof.
  assert (Hfl : forall a, events_of_items (flush_items a) = map EByte a).
  { intros a. destruct a; [reflexivity|]. unfold events_of_items. cbn. rewrite app_nil_r. reflexivity. }
  assert (Hev : forall l1 l2, events_of_items (l1 ++ l2) = events_of_items l1 ++ events_of_items l2).
  { intros. unfold events_of_items. apply flat_map_app. }
  induction toks as [|t toks IH]; intros ph acc Hacc Hnf.
  - destruct ph; cbn [read_tokens] in *; try subst acc.
    + exfalso. eapply nf_fail. exact Hnf.
    + destruct tl; try (apply nf_app_inv in Hnf; exfalso; eapply nf_fail; exact Hnf).
      cbn [dst]. unfold req_out. cbn [fst snd req_walk req_stop]. split; [reflexivity|].
      rewrite Hev, Hfl. reflexivity.
    + destruct tl; try (exfalso; eapply nf_fail; exact Hnf).
      cbn [dst]. unfold req_out. cbn [fst snd req_walk req_stop]. split; [reflexivity|]. reflexivity.
  - destruct ph; cbn [read_tokens dst] in *; try subst acc.
    + (* first *)
      destruct t as [fr|x]; [destruct fr|]; try (exfalso; eapply nf_fail; exact Hnf).
      apply nf_cons_inv in Hnf. destruct (IH RdBody [] I Hnf) as [H1 H2]. cbn [dst map app] in H1, H2.
      rewrite req_out_cons_head. cbn [fst snd]. split; [exact H1|].
      unfold events_of_items in *. cbn [flat_map events_of_item app map]. rewrite <- H2. reflexivity.
    + (* body *)
      destruct t as [fr|x]; [destruct fr|];
        try (apply nf_app_inv in Hnf; exfalso; eapply nf_fail; exact Hnf).
      * rewrite req_out_cons_data. apply (IH RdBody acc I Hnf).
      * pose proof (nf_cons_inv _ _ (nf_app_inv _ _ Hnf)) as Hnf'.
        destruct (IH (RdTrailers block) [] eq_refl Hnf') as [H1 H2]. cbn [dst map app] in H1, H2.
        rewrite req_out_cons_trailers. cbn [fst snd]. split; [exact H1|].
        rewrite Hev, Hfl. unfold events_of_items in *. cbn [flat_map events_of_item app]. rewrite <- H2. reflexivity.
      * destruct (IH RdBody (acc ++ [x]) I Hnf) as [H1 H2]. cbn [dst] in H1, H2.
        rewrite req_out_cons_byte. cbn [fst snd]. split; [exact H1|].
        rewrite <- H2. rewrite map_app, <- app_assoc. reflexivity.
    + exfalso. eapply nf_fail. exact Hnf.
Qed.

Lemma outcome_is_reading sd flat :
  no_fail (rfc_stream_reading_with sv flat) ->
  request_outcome sv sd flat Finished = (events_of_items (rfc_stream_reading_with sv flat), RDone).
Proof.
  unfold rfc_stream_reading_with, request_outcome. destruct (frame_outcome sv flat Finished) as [toks tl].
  intros Hnf. destruct (walk_is_reading sd toks tl RdFirst [] eq_refl Hnf) as [H1 H2]. cbn [dst map app] in H1, H2.
  destruct (req_out sd DStart (toks, tl)) as [ev f]. cbn [fst snd] in *. subst. reflexivity.
Qed.

(* ---------- the law ---------- *)
Lemma last_robs_split os o : last_robs os = Some o -> os = removelast os ++ [o].
Proof.
  induction os as [|x os IH]; [discriminate|]. destruct os as [|y os'].
  - cbn. intros H. inversion H. reflexivity.
  - intros H. change (last_robs (x :: y :: os')) with (last_robs (y :: os')) in H.
    change (removelast (x :: y :: os')) with (x :: removelast (y :: os')). cbn [app]. f_equal. apply IH. exact H.
Qed.

Lemma good_obs o :
  robs_final o = false \/ final_of_robs o = Some FDone ->
  no_fail (items_of_robs o) /\ events_of_items (items_of_robs o) = events_of_robs o.
Proof.
  unfold no_fail, events_of_items.
  destruct o as [[[h|e|n]|]|[[[d|]|e|n]|]|[[t|e|n]|]]; cbn; intros [H|H]; try discriminate;
    (split; [repeat constructor|]); try reflexivity; rewrite app_nil_r; reflexivity.
Qed.

Lemma good_prefix_items pre : Forall (fun o => robs_final o = false) pre ->
  no_fail (flat_map items_of_robs pre) /\
  flat_map events_of_item (flat_map items_of_robs pre) = flat_map events_of_robs pre.
Proof.
  induction 1 as [|x l Hx _ IH]; [split; [constructor|reflexivity]|].
  destruct (good_obs x (or_introl Hx)) as [H1 H2]. destruct IH as [I1 I2]. cbn [flat_map]. split.
  - unfold no_fail in *. apply Forall_app. split; assumption.
  - rewrite flat_map_app. unfold events_of_items in H2. rewrite H2, I2. reflexivity.
Qed.

Theorem c03_reader_law r h items s :
  hist_ok h = true -> c03_run r h c03_init = (items, s) -> c03_done s = true ->
  wf_bytes (hist_flat h) -> no_fail (rfc_stream_reading_with sv (hist_flat h)) ->
  merge_items [] items = rfc_stream_reading_with sv (hist_flat h).
Proof.
  intros Hok Hrun Hd Hwf Hnf. unfold c03_init in Hrun.
  destruct (run_corr r h (rs_new []) PFirst) as (ph' & Hr & Hl). rewrite Hr in Hrun. inversion Hrun; subst items s. clear Hrun.
  unfold c03_done in Hd. cbn [snd] in Hd. assert (ph' = PDone) by (destruct ph'; try discriminate; reflexivity). subst ph'.
  destruct (Hl eq_refl ltac:(discriminate)) as (o & Hlast & Hfin).
  set (os := fst (rrun r (tr h) (rs_new []) PFirst)) in *.
  (* C03's refinement theorem on the translated history *)
  pose proof (request_refinement r (tr h) (rhist_ok_tr h false Hok Hwf)) as Href.
  unfold rflat_of, rending_of, flat_of, ending_of in Href. rewrite (arrivals_tr h Hok) in Href. cbn [fst snd] in Href.
  rewrite (outcome_is_reading (side_of r) (hist_flat h) Hnf) in Href.
  destruct Href as (_ & Hfinal & _). fold os in Hfinal.
  destruct (Hfinal o Hlast Hfin) as (f & Hfo & Hrf).
  unfold rrefines_final in Hrf. cbn [snd fst] in Hrf.
  assert (Hdone : f = FDone /\ events_of os = events_of_items (rfc_stream_reading_with sv (hist_flat h))).
  { destruct f as [|e].
    - destruct Hrf as (_ & He & _). split; [reflexivity|exact He].
    - destruct e as [c|c|c|q].
      + destruct Hrf as (al & Hx & _). discriminate.
      + destruct Hrf as (Hx & _). discriminate.
      + destruct Hrf as (Hx & _). discriminate.
      + destruct Hrf as (Hx & _). discriminate. }
  destruct Hdone as [Hf Hev]. subst f.
  (* every observation is a good one *)
  pose proof (nonfinal_prefix r (tr h) (rs_new []) PFirst) as Hpre. fold os in Hpre.
  pose proof (last_robs_split os o Hlast) as Hsplit.
  clearbody os. set (pre := removelast os) in *. clearbody pre. subst os.
  assert (Hgood : no_fail (flat_map items_of_robs (pre ++ [o])) /\
                  events_of_items (flat_map items_of_robs (pre ++ [o])) = events_of (pre ++ [o])).
  { unfold events_of. rewrite !flat_map_app. unfold events_of_items, no_fail. rewrite flat_map_app.
    destruct (good_obs o (or_intror Hfo)) as [Ho1 Ho2]. cbn [flat_map]. rewrite !app_nil_r.
    pose proof (good_prefix_items pre Hpre) as Hp.
    destruct Hp as [Hp1 Hp2]. split.
    - apply Forall_app. split; [exact Hp1|exact Ho1].
    - rewrite Hp2. unfold events_of_items in Ho2. rewrite Ho2. reflexivity. }
  destruct Hgood as [Hg1 Hg2].
  rewrite (merge_is_regroup _ Hg1), Hg2, Hev, <- (merge_is_regroup _ Hnf).
  unfold rfc_stream_reading_with. destruct (frame_outcome sv (hist_flat h) Finished) as [toks tl].
  apply read_tokens_merged.
Qed.

(* ---------- the split point is irrelevant: the receive half starts from exactly the whole stream's receive state
   (unconsumed bytes, end-of-stream flag, decoder memo, DATA payload still owed, trailers already taken off the wire) ---------- *)
From H3V Require Import Gen.GenSplit.
Lemma c03_split_id s : c03_split s = s.
Proof.
  unfold c03_split.
  change split_keeps_buf with true. change split_keeps_eos with true. change split_keeps_decoder with true.
  change split_keeps_remaining with true. change split_keeps_trailers with true.
  destruct s as [[[b e m rm q] t rst] ph]. reflexivity.
Qed.

Theorem split_point_irrelevant r h : forall s,
  c03_run_split r h s = rx_run c03_state c03_arrive c03_fin (c03_poll r) (without_splits h) s.
Proof.
  induction h as [|[e|] h IH]; intros s; [reflexivity| |].
  - cbn [c03_run_split without_splits]. destruct e; cbn [rx_run].
    + rewrite IH. destruct (rx_run _ _ _ _ (without_splits h) (c03_arrive chunk s)). reflexivity.
    + rewrite IH. destruct (rx_run _ _ _ _ (without_splits h) (c03_fin s)). reflexivity.
    + destruct (c03_poll r s) as [o s1]. rewrite IH. cbn [app]. rewrite app_nil_r. reflexivity.
  - cbn [c03_run_split without_splits]. rewrite c03_split_id. apply IH.
Qed.

(* ---------- a non-contiguous transport buffer enters the receive buffer whole ---------- *)
From H3V Require Import Gen.GenBufList.
Lemma pushed_is_whole segments : pushed segments = concat segments.
Proof. unfold pushed. change push_bytes_copies_whole_buffer with true. reflexivity. Qed.
