(* C01: the composition theorem instantiated with the component models that exist:
     header mapping  = Model/Headers.v + Model/HttpCrate.v (C12)   - round trip proved in Proofs/EndToEndHeaders.v
     write side      = Model/WriteBuf.v + Model/FrameEnc.v (C14)   - proved in Proofs/EndToEndWire.v from C14's Buf laws
   The layers whose owners have not pinned their round-trip theorem yet stay Section variables with their law as
   a hypothesis (an explicit premise of the pinned theorem):
     field-section codec (C11), receiving FrameStream + RequestStream (C02 + C03).
   The RFC reading of a request stream is Spec/EndToEndStream.v over the reference frame reader of Spec/Frames.v;
   that it reads back the sender's layout is proved in Proofs/EndToEndFrames.v. *)
From H3V Require Import Base.Bytes Base.BytesLemmas Spec.RFC9114Wire Model.HttpCrate Model.Headers Spec.WellFormed
  Proofs.HeadersProofs Model.EndToEnd Spec.EndToEndSpec Model.EndToEndLayers Proofs.EndToEndProofs
  Proofs.EndToEndHeaders Proofs.EndToEndWire Spec.EndToEndStream Proofs.EndToEndFrames
  Model.EndToEndRef Proofs.EndToEndMerge Proofs.EndToEndRefProofs Proofs.EndToEndReader Proofs.EndToEndQpack Proofs.EndToEndC03.


(* the messages the theorems speak about: what an application can build with the `http` crate
   (Proofs/EndToEndHeaders.v), with a field section of less than 2^60 bytes *)
Definition request_head_ok (q : c12_request) : Prop := request_ok q /\ section_fits (emitted_request q).
Definition response_head_ok (p : c12_response) : Prop :=
  response_ok p /\ section_fits ((pn_status, status_as_str (cp_status p)) :: hm_iter (cp_fields p)).
Definition trailers_ok (t : hmap) : Prop := map_ok t /\ count_ok (length (hm_iter t)) /\ section_fits (hm_iter t).

Lemma head_law_request q fs : request_head_ok q -> c12_fields_of_request q = Some fs ->
  fields_ok fs /\ c12_request_of_fields fs = Some (c12_norm_request q).
Proof.
  intros [Hok Hfit] H. split; [|exact (request_roundtrip q fs Hok H)].
  rewrite (send_request_computed q Hok) in H. inversion H. split; [apply emitted_request_wf; exact Hok|exact Hfit].
Qed.

Lemma head_law_response p fs : response_head_ok p -> c12_fields_of_response p = Some fs ->
  fields_ok fs /\ c12_response_of_fields fs = Some {| rs_status := cp_status p; rs_headers := cp_fields p |}.
Proof.
  intros [Hok Hfit] H. split; [|exact (response_roundtrip p fs Hok H)].
  unfold c12_fields_of_response in H. rewrite send_response_shape in H. inversion H.
  split; [apply emitted_response_wf; exact Hok|exact Hfit].
Qed.

Lemma trailers_law t fs : trailers_ok t -> c12_fields_of_trailers t = Some fs ->
  fields_ok fs /\ c12_trailers_of_fields fs = Some t.
Proof.
  intros (Hm & Hc & Hfit) H. split; [|exact (trailers_roundtrip t fs Hm Hc H)].
  unfold c12_fields_of_trailers in H. rewrite send_trailers_shape in H. inversion H.
  split; [apply iter_fields_wf; apply Hm|exact Hfit].
Qed.

Lemma write_law fs ks b :
  Forall (fun f => match f with SHeaders x => block_ok x | SData p => block_ok p | SGrease g => g < 148764065110560899 end) fs ->
  c14_wire_write fs ks = Some b -> b = concat (map rfc_frame_bytes fs).
Proof.
  intros Hok. apply c14_write_exact. eapply Forall_impl; [|exact Hok].
  intros f Hf. destruct f; cbn [sframe_ok payload_ok] in *; try apply Hf.
Qed.

Lemma frames_law sc hb pieces tb g :
  block_ok hb -> Forall block_ok pieces -> match tb with Some b => block_ok b | None => True end ->
  match g with Some x => x < 148764065110560899 | None => True end ->
  rfc_stream_reading_with sc (concat (map rfc_frame_bytes (SHeaders hb :: map SData pieces ++
      match tb with Some b => [SHeaders b] | None => [] end ++
      match g with Some x => [SGrease x] | None => [] end)))
  = RFirst hb :: flush_items (concat pieces) ++ [RDataEnd; RTrailers tb].
Proof.
  intros Hb Hp Ht Hg. apply request_stream_reading_of_layout_with.
  - apply Hb.
  - eapply Forall_impl; [|exact Hp]. intros a Ha. apply Ha.
  - destruct tb; [apply Ht|exact I].
  - exact Hg.
Qed.

Lemma frame_wf_law f :
  match f with SHeaders x => block_ok x | SData p => block_ok p | SGrease g => g < 148764065110560899 end ->
  wf_bytes (rfc_frame_bytes f).
Proof.
  intros Hf. assert (Hv : forall x, wf_bytes (RFC9114Wire.rfc_varint x)) by (intros x; apply VarintProofs.rfc_vi_enc_wf).
  destruct f; cbn [rfc_frame_bytes]; unfold RFC9114Wire.rfc_frame;
    (apply wf_bytes_app; split; [apply Hv|apply wf_bytes_app; split; [apply Hv|]]); try apply Hf.
  apply wf_bytesb_spec. reflexivity.
Qed.

Section Remaining.
  (* the verdict on SETTINGS payloads used by the frame reader (irrelevant on request streams, see Spec/EndToEndStream.v) *)
  Variable sc : bytes -> option FrameVocab.settings_err.
  (* C11 *)
  Variable encode_section : fieldl -> option bytes.
  Variable decode_section : bytes -> option fieldl.
  (* C02 + C03 *)
  Variable rstate : Type.
  Variable r_init : rstate.
  Variable r_arrive : bytes -> rstate -> rstate.
  Variable r_fin : rstate -> rstate.
  Variable r_poll : rstate -> list ritem * rstate.
  Variable r_done : rstate -> bool.

  Hypothesis H_section : forall fs b, fields_ok fs -> encode_section fs = Some b -> block_ok b /\ decode_section b = Some fs.
  Hypothesis H_read : forall h items s, hist_ok h = true -> rx_run rstate r_arrive r_fin r_poll h r_init = (items, s) ->
    r_done s = true -> wf_bytes (hist_flat h) -> no_fail (rfc_stream_reading_with sc (hist_flat h)) ->
    merge_items [] items = rfc_stream_reading_with sc (hist_flat h).

  Theorem request_fidelity :
    forall (grease : option N) (m : message c12_request hmap) (ks : list N) (b : bytes) (h : list hevent) items s,
      request_head_ok (m_head m) -> Forall block_ok (m_pieces m) ->
      match m_trailers m with Some t => trailers_ok t | None => True end ->
      match grease with Some g => g < 148764065110560899 | None => True end ->
      wire c12_request hmap c12_fields_of_request c12_fields_of_trailers encode_section c14_wire_write grease m ks = Some b ->
      hist_ok h = true -> hist_flat h = b ->
      rx_run rstate r_arrive r_fin r_poll h r_init = (items, s) -> r_done s = true ->
      receiver_outcome request hmap c12_request_of_fields c12_trailers_of_fields decode_section
                       rstate r_init r_arrive r_fin r_poll h
      = expected_events c12_norm_request (fun t : hmap => t) m.
  Proof.
    apply (e2e_fidelity_generic c12_request request hmap hmap c12_fields_of_request c12_request_of_fields
             c12_fields_of_trailers c12_trailers_of_fields encode_section decode_section c14_wire_write
             rstate r_init r_arrive r_fin r_poll r_done c12_norm_request (fun t => t)
             request_head_ok trailers_ok fields_ok block_ok rfc_frame_bytes (rfc_stream_reading_with sc)).
    - exact head_law_request.
    - exact trailers_law.
    - exact H_section.
    - exact write_law.
    - exact H_read.
    - exact frame_wf_law.
    - exact (frames_law sc).
  Qed.

  Theorem response_fidelity :
    forall (grease : option N) (m : message c12_response hmap) (ks : list N) (b : bytes) (h : list hevent) items s,
      response_head_ok (m_head m) -> Forall block_ok (m_pieces m) ->
      match m_trailers m with Some t => trailers_ok t | None => True end ->
      match grease with Some g => g < 148764065110560899 | None => True end ->
      wire c12_response hmap c12_fields_of_response c12_fields_of_trailers encode_section c14_wire_write grease m ks = Some b ->
      hist_ok h = true -> hist_flat h = b ->
      rx_run rstate r_arrive r_fin r_poll h r_init = (items, s) -> r_done s = true ->
      receiver_outcome response hmap c12_response_of_fields c12_trailers_of_fields decode_section
                       rstate r_init r_arrive r_fin r_poll h
      = expected_events (fun p => {| rs_status := cp_status p; rs_headers := cp_fields p |}) (fun t : hmap => t) m.
  Proof.
    apply (e2e_fidelity_generic c12_response response hmap hmap c12_fields_of_response c12_response_of_fields
             c12_fields_of_trailers c12_trailers_of_fields encode_section decode_section c14_wire_write
             rstate r_init r_arrive r_fin r_poll r_done
             (fun p => {| rs_status := cp_status p; rs_headers := cp_fields p |}) (fun t => t)
             response_head_ok trailers_ok fields_ok block_ok rfc_frame_bytes (rfc_stream_reading_with sc)).
    - exact head_law_response.
    - exact trailers_law.
    - exact H_section.
    - exact write_law.
    - exact H_read.
    - exact frame_wf_law.
    - exact (frames_law sc).
  Qed.
End Remaining.

(* ---------- every premise met: h3's header mapping and writer, the reference field-section coding and the
   store-and-forward reader.  Closed; shows that the premises above are jointly satisfiable. ---------- *)
Theorem request_fidelity_store_and_forward :
  forall (grease : option N) (m : message c12_request hmap) (ks : list N) (b : bytes) (h : list hevent) items s,
    request_head_ok (m_head m) -> Forall block_ok (m_pieces m) ->
    match m_trailers m with Some t => trailers_ok t | None => True end ->
    match grease with Some g => g < 148764065110560899 | None => True end ->
    wire c12_request hmap c12_fields_of_request c12_fields_of_trailers ref_encode_section c14_wire_write grease m ks = Some b ->
    hist_ok h = true -> hist_flat h = b ->
    rx_run sfstate sf_arrive sf_finish sf_poll h sf_init = (items, s) -> sf_done s = true ->
    receiver_outcome request hmap c12_request_of_fields c12_trailers_of_fields ref_decode_section
                     sfstate sf_init sf_arrive sf_finish sf_poll h
    = expected_events c12_norm_request (fun t : hmap => t) m.
Proof.
  exact (request_fidelity no_settings_check ref_encode_section ref_decode_section sfstate sf_init sf_arrive sf_finish sf_poll sf_done
           ref_section_roundtrip (fun h items s Hok Hrun Hd _ _ => sf_reader_law h items s Hok Hrun Hd)).
Qed.

Theorem response_fidelity_store_and_forward :
  forall (grease : option N) (m : message c12_response hmap) (ks : list N) (b : bytes) (h : list hevent) items s,
    response_head_ok (m_head m) -> Forall block_ok (m_pieces m) ->
    match m_trailers m with Some t => trailers_ok t | None => True end ->
    match grease with Some g => g < 148764065110560899 | None => True end ->
    wire c12_response hmap c12_fields_of_response c12_fields_of_trailers ref_encode_section c14_wire_write grease m ks = Some b ->
    hist_ok h = true -> hist_flat h = b ->
    rx_run sfstate sf_arrive sf_finish sf_poll h sf_init = (items, s) -> sf_done s = true ->
    receiver_outcome response hmap c12_response_of_fields c12_trailers_of_fields ref_decode_section
                     sfstate sf_init sf_arrive sf_finish sf_poll h
    = expected_events (fun p => {| rs_status := cp_status p; rs_headers := cp_fields p |}) (fun t : hmap => t) m.
Proof.
  exact (response_fidelity no_settings_check ref_encode_section ref_decode_section sfstate sf_init sf_arrive sf_finish sf_poll sf_done
           ref_section_roundtrip (fun h items s Hok Hrun Hd _ _ => sf_reader_law h items s Hok Hrun Hd)).
Qed.

(* ---------- the same with the incremental reference reader (one frame header or one piece of payload per call):
   the pipeline that the correspondence run executes.  Closed. ---------- *)
Lemma ref_reader_law_merged h items s :
  hist_ok h = true -> rx_run rstate ref_arrive ref_fin ref_poll h ref_init = (items, s) -> ref_done s = true ->
  wf_bytes (hist_flat h) -> no_fail (rfc_stream_reading (hist_flat h)) ->
  merge_items [] items = rfc_stream_reading (hist_flat h).
Proof.
  intros Hok Hrun Hd _ Hnf. rewrite (ref_reader_law h items s Hok Hrun Hd Hnf []).
  unfold rfc_stream_reading, rfc_stream_reading_with. destruct (Frames.frame_outcome no_settings_check (hist_flat h) Frames.Finished) as [toks tl].
  apply read_tokens_merged.
Qed.

Theorem request_fidelity_reference_reader :
  forall (grease : option N) (m : message c12_request hmap) (ks : list N) (b : bytes) (h : list hevent) items s,
    request_head_ok (m_head m) -> Forall block_ok (m_pieces m) ->
    match m_trailers m with Some t => trailers_ok t | None => True end ->
    match grease with Some g => g < 148764065110560899 | None => True end ->
    wire c12_request hmap c12_fields_of_request c12_fields_of_trailers ref_encode_section c14_wire_write grease m ks = Some b ->
    hist_ok h = true -> hist_flat h = b ->
    rx_run rstate ref_arrive ref_fin ref_poll h ref_init = (items, s) -> ref_done s = true ->
    receiver_outcome request hmap c12_request_of_fields c12_trailers_of_fields ref_decode_section
                     rstate ref_init ref_arrive ref_fin ref_poll h
    = expected_events c12_norm_request (fun t : hmap => t) m.
Proof.
  exact (request_fidelity no_settings_check ref_encode_section ref_decode_section rstate ref_init ref_arrive ref_fin ref_poll ref_done
           ref_section_roundtrip ref_reader_law_merged).
Qed.

Theorem response_fidelity_reference_reader :
  forall (grease : option N) (m : message c12_response hmap) (ks : list N) (b : bytes) (h : list hevent) items s,
    response_head_ok (m_head m) -> Forall block_ok (m_pieces m) ->
    match m_trailers m with Some t => trailers_ok t | None => True end ->
    match grease with Some g => g < 148764065110560899 | None => True end ->
    wire c12_response hmap c12_fields_of_response c12_fields_of_trailers ref_encode_section c14_wire_write grease m ks = Some b ->
    hist_ok h = true -> hist_flat h = b ->
    rx_run rstate ref_arrive ref_fin ref_poll h ref_init = (items, s) -> ref_done s = true ->
    receiver_outcome response hmap c12_response_of_fields c12_trailers_of_fields ref_decode_section
                     rstate ref_init ref_arrive ref_fin ref_poll h
    = expected_events (fun p => {| rs_status := cp_status p; rs_headers := cp_fields p |}) (fun t : hmap => t) m.
Proof.
  exact (response_fidelity no_settings_check ref_encode_section ref_decode_section rstate ref_init ref_arrive ref_fin ref_poll ref_done
           ref_section_roundtrip ref_reader_law_merged).
Qed.

(* ---------- every layer h3's own: C12 header mapping, C11 stateless QPACK, C14 writer, C02 + C03 FrameStream and
   RequestStream (server role for the request, client role for the response).  Closed. ---------- *)
Theorem request_fidelity_h3 :
  forall (grease : option N) (m : message c12_request hmap) (ks : list N) (b : bytes) (h : list hevent) items s,
    request_head_ok (m_head m) -> Forall block_ok (m_pieces m) ->
    match m_trailers m with Some t => trailers_ok t | None => True end ->
    match grease with Some g => g < 148764065110560899 | None => True end ->
    wire c12_request hmap c12_fields_of_request c12_fields_of_trailers c11_encode_section c14_wire_write grease m ks = Some b ->
    hist_ok h = true -> hist_flat h = b ->
    rx_run c03_state c03_arrive c03_fin (c03_poll RequestStream.RServer) h c03_init = (items, s) -> c03_done s = true ->
    receiver_outcome request hmap c12_request_of_fields c12_trailers_of_fields c11_decode_section
                     c03_state c03_init c03_arrive c03_fin (c03_poll RequestStream.RServer) h
    = expected_events c12_norm_request (fun t : hmap => t) m.
Proof.
  exact (request_fidelity FrameDec.settings_verdict c11_encode_section c11_decode_section c03_state c03_init c03_arrive c03_fin
           (c03_poll RequestStream.RServer) c03_done c11_section_law (c03_reader_law RequestStream.RServer)).
Qed.

Theorem response_fidelity_h3 :
  forall (grease : option N) (m : message c12_response hmap) (ks : list N) (b : bytes) (h : list hevent) items s,
    response_head_ok (m_head m) -> Forall block_ok (m_pieces m) ->
    match m_trailers m with Some t => trailers_ok t | None => True end ->
    match grease with Some g => g < 148764065110560899 | None => True end ->
    wire c12_response hmap c12_fields_of_response c12_fields_of_trailers c11_encode_section c14_wire_write grease m ks = Some b ->
    hist_ok h = true -> hist_flat h = b ->
    rx_run c03_state c03_arrive c03_fin (c03_poll RequestStream.RClient) h c03_init = (items, s) -> c03_done s = true ->
    receiver_outcome response hmap c12_response_of_fields c12_trailers_of_fields c11_decode_section
                     c03_state c03_init c03_arrive c03_fin (c03_poll RequestStream.RClient) h
    = expected_events (fun p => {| rs_status := cp_status p; rs_headers := cp_fields p |}) (fun t : hmap => t) m.
Proof.
  exact (response_fidelity FrameDec.settings_verdict c11_encode_section c11_decode_section c03_state c03_init c03_arrive c03_fin
           (c03_poll RequestStream.RClient) c03_done c11_section_law (c03_reader_law RequestStream.RClient)).
Qed.
