(* Invariants of the dynamic table (Model/DynTable.v): size accounting (T1), reference tracking vs eviction (T2),
   validity of the two look-up maps. *)
From H3V Require Import Base.Bytes Gen.GenQpack Gen.GenStatic Model.Vas Model.DynTable Proofs.VasProofs Proofs.AMapLemmas.
From Coq Require Import ZifyBool ZifyN ZifyNat.
Ltac Zify.zify_post_hook ::= Z.div_mod_to_equations.

Fixpoint sum_sizes (fs : list field) : N :=
  match fs with [] => 0 | f :: r => mem_size f + sum_sizes r end.

Lemma sum_sizes_app a b : sum_sizes (a ++ b) = sum_sizes a + sum_sizes b.
Proof. induction a as [|x a IH]; cbn [app sum_sizes]; [lia | rewrite IH; lia]. Qed.

Lemma mem_size_ge f : 32 <= mem_size f.
Proof. unfold mem_size, q_overhead. lia. Qed.

Lemma sum_sizes_ge fs : 32 * N.of_nat (length fs) <= sum_sizes fs.
Proof. induction fs as [|f r IH]; cbn [sum_sizes length]; [lia | pose proof (mem_size_ge f); lia]. Qed.

(* ---------------------------------------------------------------- nth_opt *)
Lemma nth_opt_cons_pos {A} (x : A) l n : 0 < n -> nth_opt (x :: l) n = nth_opt l (n - 1).
Proof. intros H. cbn [nth_opt]. destruct (n =? 0) eqn:E; [lia | reflexivity]. Qed.

Lemma nth_opt_some_lt {A} (l : list A) n x : nth_opt l n = Some x -> n < N.of_nat (length l).
Proof.
  revert n. induction l as [|y l IH]; intros n; cbn [nth_opt length]; [discriminate|].
  destruct (n =? 0) eqn:E; intros H; [lia|]. apply IH in H. lia.
Qed.

Lemma nth_opt_lt_some {A} (l : list A) n : n < N.of_nat (length l) -> exists x, nth_opt l n = Some x.
Proof.
  revert n. induction l as [|y l IH]; intros n; cbn [nth_opt length]; [lia|].
  destruct (n =? 0) eqn:E; intros H; [eauto|]. apply IH. lia.
Qed.

Lemma nth_opt_app_l {A} (l r : list A) n x : nth_opt l n = Some x -> nth_opt (l ++ r) n = Some x.
Proof.
  revert n. induction l as [|y l IH]; intros n; cbn [nth_opt app]; [discriminate|].
  destruct (n =? 0); auto.
Qed.

Lemma nth_opt_app_last {A} (l : list A) x : nth_opt (l ++ [x]) (N.of_nat (length l)) = Some x.
Proof.
  induction l as [|y l IH]; cbn [nth_opt app length]; [reflexivity|].
  destruct (N.of_nat (S (length l)) =? 0) eqn:E; [lia|].
  replace (N.of_nat (S (length l)) - 1) with (N.of_nat (length l)) by lia. assumption.
Qed.

Lemma nth_opt_skipn {A} (l : list A) k n : nth_opt (skipn k l) n = nth_opt l (N.of_nat k + n).
Proof.
  revert l. induction k as [|k IH]; intros l; [cbn [skipn]; f_equal; lia|].
  destruct l as [|y l]; cbn [skipn]; [destruct n; reflexivity|].
  rewrite IH. cbn [nth_opt]. destruct (N.of_nat (S k) + n =? 0) eqn:E; [lia|]. f_equal. lia.
Qed.

(* ---------------------------------------------------------------- the invariant *)
Definition field_at (t : dt) (a : N) : option field := nth_opt (dt_fields t) (vas_pos (dt_vas t) a).

Record dt_ok (t : dt) : Prop := mk_dt_ok {
  ok_vas : vas_inv (dt_vas t);
  ok_delta : v_delta (dt_vas t) = N.of_nat (length (dt_fields t));
  ok_curr : dt_curr t = sum_sizes (dt_fields t);
  ok_cap : dt_curr t <= dt_max t;
  ok_fmap_nd : nodup_keys (dt_fmap t);
  ok_fmap : forall g i, aget field_eqb g (dt_fmap t) = Some i -> vas_live (dt_vas t) i /\ field_at t i = Some g;
  ok_nmap_nd : nodup_keys (dt_nmap t);
  ok_nmap : forall n i, aget bytes_eqb n (dt_nmap t) = Some i ->
                        vas_live (dt_vas t) i /\ exists f, field_at t i = Some f /\ fst f = n;
  ok_track_nd : nodup_keys (dt_track t);
  ok_track : forall r c, aget N.eqb r (dt_track t) = Some c -> 0 < c /\ vas_live (dt_vas t) r
}.

Lemma dt_new_ok : dt_ok dt_new.
Proof.
  constructor; cbn; try reflexivity; try lia; try (constructor; fail); try discriminate.
Qed.

(* the comparison operators extracted from the source, as the model's proofs need them *)
Lemma cmp_loop a b : cmp_eval q_can_free_loop_cmp a b = (a <=? b). Proof. reflexivity. Qed.
Lemma cmp_toolarge a b : cmp_eval q_can_free_toolarge_cmp a b = (b <? a). Proof. reflexivity. Qed.
Lemma cmp_room a b : cmp_eval q_can_free_room_cmp a b = (b <=? a). Proof. reflexivity. Qed.
Lemma cmp_final a b : cmp_eval q_can_free_final_cmp a b = (a <=? b). Proof. reflexivity. Qed.
Lemma cmp_regblocked a b : cmp_eval q_register_blocked_cmp a b = (a <=? b). Proof. reflexivity. Qed.
Lemma cmp_gate a b : cmp_eval q_blocked_gate_cmp a b = (b <=? a). Proof. reflexivity. Qed.
Lemma cmp_setsize a b : cmp_eval q_set_max_size_cmp a b = (b <? a). Proof. reflexivity. Qed.
Lemma cmp_setblocked a b : cmp_eval q_set_max_blocked_cmp a b = (b <=? a). Proof. reflexivity. Qed.

(* ---------------------------------------------------------------- can_free *)
(* the loop: ev entries, all unreferenced, were counted; hyp is what is left after removing them *)
Lemma cf_loop_spec t lower fs idx hyp ev hyp' ev' :
  vas_inv (dt_vas t) ->
  cf_loop t lower fs idx hyp ev = Ok (hyp', ev') ->
  exists k, ev' = ev + N.of_nat k /\ (k <= length fs)%nat /\
            hyp = hyp' + sum_sizes (firstn k fs) /\
            (forall i, i < N.of_nat k -> dt_is_tracked t (idx + i + v_dropped (dt_vas t) + 1) = false).
Proof.
  intros Hv. revert idx hyp ev. induction fs as [|f r IH]; intros idx hyp ev; cbn [cf_loop].
  - intros H. inversion H; subst. exists O. cbn [firstn sum_sizes]. repeat split; lia.
  - rewrite cmp_loop. destruct (hyp <=? lower) eqn:E.
    + intros H. inversion H; subst. exists O. cbn [firstn sum_sizes]. repeat split; lia.
    + destruct (vas_index (dt_vas t) idx) as [a| |] eqn:Ei; try discriminate.
      destruct (dt_is_tracked t a) eqn:Et.
      * intros H. inversion H; subst. exists O. cbn [firstn sum_sizes]. repeat split; lia.
      * destruct (hyp <? mem_size f) eqn:Eh; [discriminate|].
        intros H. apply IH in H. destruct H as (k & H1 & H2 & H3 & H4).
        exists (S k). cbn [firstn sum_sizes length]. repeat split; try lia.
        intros i Hi. apply vas_index_spec in Ei; [|assumption]. destruct Ei as [_ Ea].
        destruct (N.eq_dec i 0) as [->|Hne].
        -- replace (idx + 0 + v_dropped (dt_vas t) + 1) with a by lia. assumption.
        -- replace (idx + i + v_dropped (dt_vas t) + 1) with (idx + 1 + (i - 1) + v_dropped (dt_vas t) + 1) by lia.
           apply H4. lia.
Qed.

Lemma dt_can_free_spec t required n :
  dt_ok t -> dt_can_free t required = Ok (Some n) ->
  (N.to_nat n <= length (dt_fields t))%nat /\
  sum_sizes (skipn (N.to_nat n) (dt_fields t)) + required <= dt_max t /\
  (forall i, i < n -> dt_is_tracked t (v_dropped (dt_vas t) + 1 + i) = false).
Proof.
  intros Hok. unfold dt_can_free. rewrite cmp_toolarge, cmp_room.
  destruct (dt_max t <? required) eqn:E1; [discriminate|].
  destruct (dt_max t <? dt_curr t) eqn:E2; [discriminate|].
  destruct (required <=? dt_max t - dt_curr t) eqn:E3.
  - intros H. inversion H; subst. cbn [N.to_nat skipn]. rewrite <- (ok_curr t Hok). repeat split; lia.
  - destruct (cf_loop t (dt_max t - required) (dt_fields t) 0 (dt_curr t) 0) as [[hyp ev]| |] eqn:EL; try discriminate.
    destruct (dt_max t <? hyp) eqn:E4; [discriminate|]. rewrite cmp_final.
    destruct (required <=? dt_max t - hyp) eqn:E5; [|discriminate].
    intros H. inversion H; subst. apply cf_loop_spec in EL; [|apply (ok_vas t Hok)].
    destruct EL as (k & H1 & H2 & H3 & H4).
    replace (N.to_nat n) with k by lia.
    pose proof (ok_curr t Hok) as Hc.
    assert (Hsplit : sum_sizes (dt_fields t) = sum_sizes (firstn k (dt_fields t)) + sum_sizes (skipn k (dt_fields t))).
    { rewrite <- sum_sizes_app, firstn_skipn. reflexivity. }
    repeat split; try lia.
    intros i Hi. replace (v_dropped (dt_vas t) + 1 + i) with (0 + i + v_dropped (dt_vas t) + 1) by lia. apply H4. lia.
Qed.

(* can_free raises only MaxTableSizeReached, and only for an entry larger than the capacity *)
Lemma dt_can_free_err t required e :
  dt_can_free t required = Err e -> e = EMaxTableSizeReached /\ dt_max t < required.
Proof.
  unfold dt_can_free. rewrite cmp_toolarge, cmp_room.
  destruct (dt_max t <? required) eqn:E1; [intros H; inversion H; split; [reflexivity | lia]|].
  destruct (dt_max t <? dt_curr t); [discriminate|].
  destruct (required <=? dt_max t - dt_curr t); [discriminate|].
  assert (Hl : forall fs idx hyp ev e', cf_loop t (dt_max t - required) fs idx hyp ev <> Err e').
  { induction fs as [|f r IH]; intros idx hyp ev e'; cbn [cf_loop]; [discriminate|].
    destruct (cmp_eval q_can_free_loop_cmp hyp (dt_max t - required)); [discriminate|].
    destruct (vas_index (dt_vas t) idx); try discriminate.
    destruct (dt_is_tracked t a); [discriminate|]. destruct (hyp <? mem_size f); [discriminate|]. apply IH. }
  destruct (cf_loop t (dt_max t - required) (dt_fields t) 0 (dt_curr t) 0) as [[hyp ev]| |] eqn:EL.
  - destruct (dt_max t <? hyp); [discriminate|]. destruct (cmp_eval q_can_free_final_cmp required (dt_max t - hyp)); discriminate.
  - exfalso. eapply Hl; eauto.
  - discriminate.
Qed.

(* ---------------------------------------------------------------- evict *)
Definition evict_maps_nm (t : dt) (f : field) (v' : vas) :=
  match aget bytes_eqb (fst f) (dt_nmap t) with
  | Some i => if vas_evicted v' i then adel bytes_eqb (fst f) (dt_nmap t) else dt_nmap t
  | None => dt_nmap t
  end.
Definition evict_maps_fm (t : dt) (f : field) (v' : vas) :=
  match aget field_eqb f (dt_fmap t) with
  | Some i => if vas_evicted v' i then adel field_eqb f (dt_fmap t) else dt_fmap t
  | None => dt_fmap t
  end.
Definition evict1 (t : dt) (f : field) (r : list field) : dt :=
  let v' := mkVas (v_inserted (dt_vas t)) (v_dropped (dt_vas t) + 1) (v_delta (dt_vas t) - 1) in
  with_store t r (dt_curr t - mem_size f) v' (evict_maps_fm t f v') (evict_maps_nm t f v').

Lemma untracked_none t a : dt_ok t -> dt_is_tracked t a = false -> aget N.eqb a (dt_track t) = None.
Proof.
  intros Hok. unfold dt_is_tracked. destruct (aget N.eqb a (dt_track t)) as [c|] eqn:E; [|reflexivity].
  intros H. apply (ok_track t Hok) in E. lia.
Qed.

Lemma evict1_ok t f r :
  dt_ok t -> dt_fields t = f :: r -> dt_is_tracked t (v_dropped (dt_vas t) + 1) = false -> dt_ok (evict1 t f r).
Proof.
  intros Hok Hf Hnt.
  pose proof (ok_vas t Hok) as Hv. pose proof (ok_delta t Hok) as Hd. pose proof (ok_curr t Hok) as Hc.
  rewrite Hf in Hd, Hc. cbn [length sum_sizes] in Hd, Hc. unfold vas_inv in Hv.
  set (v' := mkVas (v_inserted (dt_vas t)) (v_dropped (dt_vas t) + 1) (v_delta (dt_vas t) - 1)).
  assert (Hlive : forall a, vas_live (dt_vas t) a -> a <> v_dropped (dt_vas t) + 1 -> vas_live v' a).
  { unfold vas_live, v'; cbn [v_inserted v_dropped]. intros; lia. }
  assert (Hat : forall a, vas_live (dt_vas t) a -> a <> v_dropped (dt_vas t) + 1 ->
                          nth_opt r (vas_pos v' a) = field_at t a).
  { intros a [H1 H2] Hne. unfold field_at, vas_pos, v'. cbn [v_dropped]. rewrite Hf.
    rewrite nth_opt_cons_pos by lia. f_equal. lia. }
  assert (Hfront : field_at t (v_dropped (dt_vas t) + 1) = Some f).
  { unfold field_at, vas_pos. rewrite Hf. replace (v_dropped (dt_vas t) + 1 - v_dropped (dt_vas t) - 1) with 0 by lia.
    reflexivity. }
  unfold evict1. fold v'.
  constructor; cbn [dt_fields dt_curr dt_max dt_vas dt_fmap dt_nmap dt_track with_store].
  - unfold vas_inv, v'; cbn [v_inserted v_dropped v_delta]. lia.
  - unfold v'; cbn [v_delta]. lia.
  - lia.
  - pose proof (ok_cap t Hok). lia.
  - unfold evict_maps_fm. destruct (aget field_eqb f (dt_fmap t)) as [i|]; [|apply (ok_fmap_nd t Hok)].
    destruct (vas_evicted v' i); [apply (nodup_adel field_eqb); apply (ok_fmap_nd t Hok) | apply (ok_fmap_nd t Hok)].
  - intros g i Hg.
    assert (Hold : aget field_eqb g (dt_fmap t) = Some i /\ (g = f -> vas_evicted v' i = false)).
    { unfold evict_maps_fm in Hg. destruct (aget field_eqb f (dt_fmap t)) as [j|] eqn:Ej.
      - destruct (vas_evicted v' j) eqn:Eev.
        + destruct (field_eqb g f) eqn:Egf.
          * apply field_eqb_eq in Egf. subst g.
            rewrite (aget_adel_same field_eqb field_eqb_eq) in Hg; [discriminate | apply (ok_fmap_nd t Hok)].
          * rewrite (aget_adel_other field_eqb field_eqb_eq) in Hg.
            2:{ intros ->. rewrite (proj2 (field_eqb_eq f f) eq_refl) in Egf. discriminate. }
            split; [assumption|]. intros ->. rewrite (proj2 (field_eqb_eq f f) eq_refl) in Egf. discriminate.
        + split; [assumption|]. intros ->. rewrite Ej in Hg. inversion Hg; subst. assumption.
      - split; [assumption|]. intros ->. rewrite Ej in Hg. discriminate. }
    destruct Hold as [Hold Hev]. destruct (ok_fmap t Hok g i Hold) as [Hl Ha].
    assert (Hne : i <> v_dropped (dt_vas t) + 1).
    { intros ->. rewrite Hfront in Ha. inversion Ha; subst g. specialize (Hev eq_refl).
      unfold vas_evicted, v' in Hev. cbn [v_dropped] in Hev.
      destruct (v_dropped (dt_vas t) + 1 =? 0) eqn:E0; cbn [negb andb] in Hev; lia. }
    split; [apply Hlive; assumption|]. unfold field_at; cbn [dt_fields dt_vas]. rewrite Hat by assumption. assumption.
  - unfold evict_maps_nm. destruct (aget bytes_eqb (fst f) (dt_nmap t)) as [i|]; [|apply (ok_nmap_nd t Hok)].
    destruct (vas_evicted v' i); [apply (nodup_adel bytes_eqb); apply (ok_nmap_nd t Hok) | apply (ok_nmap_nd t Hok)].
  - intros n i Hn.
    assert (Hold : aget bytes_eqb n (dt_nmap t) = Some i /\ (n = fst f -> vas_evicted v' i = false)).
    { unfold evict_maps_nm in Hn. destruct (aget bytes_eqb (fst f) (dt_nmap t)) as [j|] eqn:Ej.
      - destruct (vas_evicted v' j) eqn:Eev.
        + destruct (bytes_eqb n (fst f)) eqn:Egf.
          * apply bytes_eqb_eq in Egf. subst n.
            rewrite (aget_adel_same bytes_eqb bytes_eqb_eq) in Hn; [discriminate | apply (ok_nmap_nd t Hok)].
          * rewrite (aget_adel_other bytes_eqb bytes_eqb_eq) in Hn.
            2:{ intros ->. rewrite (proj2 (bytes_eqb_eq _ _) eq_refl) in Egf. discriminate. }
            split; [assumption|]. intros ->. rewrite (proj2 (bytes_eqb_eq _ _) eq_refl) in Egf. discriminate.
        + split; [assumption|]. intros ->. rewrite Ej in Hn. inversion Hn; subst. assumption.
      - split; [assumption|]. intros ->. rewrite Ej in Hn. discriminate. }
    destruct Hold as [Hold Hev]. destruct (ok_nmap t Hok n i Hold) as [Hl [g [Ha Hg]]].
    assert (Hne : i <> v_dropped (dt_vas t) + 1).
    { intros ->. rewrite Hfront in Ha. inversion Ha; subst g. specialize (Hev (eq_sym Hg)).
      unfold vas_evicted, v' in Hev. cbn [v_dropped] in Hev.
      destruct (v_dropped (dt_vas t) + 1 =? 0) eqn:E0; cbn [negb andb] in Hev; lia. }
    split; [apply Hlive; assumption|]. exists g. split; [|assumption].
    unfold field_at; cbn [dt_fields dt_vas]. rewrite Hat by assumption. assumption.
  - apply (ok_track_nd t Hok).
  - intros a c Ha. destruct (ok_track t Hok a c Ha) as [H1 H2]. split; [assumption|]. apply Hlive; [assumption|].
    intros ->. rewrite (untracked_none t _ Hok Hnt) in Ha. discriminate.
Qed.

(* facts evict1 does not touch *)
Lemma evict1_frame t f r :
  dt_max (evict1 t f r) = dt_max t /\ dt_track (evict1 t f r) = dt_track t /\ dt_blocks (evict1 t f r) = dt_blocks t /\
  dt_lkr (evict1 t f r) = dt_lkr t /\ dt_bmax (evict1 t f r) = dt_bmax t /\ dt_bcount (evict1 t f r) = dt_bcount t /\
  dt_bstreams (evict1 t f r) = dt_bstreams t /\ dt_fields (evict1 t f r) = r /\
  v_inserted (dt_vas (evict1 t f r)) = v_inserted (dt_vas t) /\
  v_dropped (dt_vas (evict1 t f r)) = v_dropped (dt_vas t) + 1.
Proof. unfold evict1. cbn. repeat split; reflexivity. Qed.

Lemma dt_evict_unfold k t :
  dt_ok t -> forall f r, dt_fields t = f :: r -> dt_evict (S k) t = dt_evict k (evict1 t f r).
Proof.
  intros Hok f r Hf. cbn [dt_evict]. rewrite Hf.
  pose proof (ok_curr t Hok) as Hc. rewrite Hf in Hc. cbn [sum_sizes] in Hc.
  destruct (dt_curr t <? mem_size f) eqn:E; [lia|].
  pose proof (ok_delta t Hok) as Hd. rewrite Hf in Hd. cbn [length] in Hd.
  rewrite vas_drop_ok by lia. reflexivity.
Qed.

Lemma dt_is_tracked_frame t t' a : dt_track t' = dt_track t -> dt_is_tracked t' a = dt_is_tracked t a.
Proof. unfold dt_is_tracked. intros ->. reflexivity. Qed.

Lemma dt_evict_ok k : forall t,
  dt_ok t -> (k <= length (dt_fields t))%nat ->
  (forall i, i < N.of_nat k -> dt_is_tracked t (v_dropped (dt_vas t) + 1 + i) = false) ->
  exists t', dt_evict k t = Ok t' /\ dt_ok t' /\
             dt_fields t' = skipn k (dt_fields t) /\ dt_max t' = dt_max t /\ dt_track t' = dt_track t /\
             dt_blocks t' = dt_blocks t /\ dt_lkr t' = dt_lkr t /\ dt_bmax t' = dt_bmax t /\
             dt_bcount t' = dt_bcount t /\ dt_bstreams t' = dt_bstreams t /\
             v_inserted (dt_vas t') = v_inserted (dt_vas t) /\
             v_dropped (dt_vas t') = v_dropped (dt_vas t) + N.of_nat k.
Proof.
  induction k as [|k IH]; intros t Hok Hlen Hnt.
  - exists t. cbn [dt_evict skipn]. repeat (split; [first [assumption | reflexivity] | ]). cbn [N.of_nat]. lia.
  - destruct (dt_fields t) as [|f r] eqn:Hf; [cbn [length] in Hlen; lia|].
    rewrite (dt_evict_unfold k t Hok f r Hf).
    destruct (evict1_frame t f r) as (F1 & F2 & F3 & F4 & F5 & F6 & F7 & F8 & F9 & F10).
    assert (Hok1 : dt_ok (evict1 t f r)).
    { apply evict1_ok; try assumption. replace (v_dropped (dt_vas t) + 1) with (v_dropped (dt_vas t) + 1 + 0) by lia.
      apply Hnt. lia. }
    destruct (IH (evict1 t f r) Hok1) as (t' & E & Hok' & G1 & G2 & G3 & G4 & G5 & G6 & G7 & G8 & G9 & G10).
    + rewrite F8. cbn [length] in Hlen. lia.
    + intros i Hi. rewrite (dt_is_tracked_frame t _ _ F2). rewrite F10.
      replace (v_dropped (dt_vas t) + 1 + 1 + i) with (v_dropped (dt_vas t) + 1 + (i + 1)) by lia. apply Hnt. lia.
    + exists t'. split; [assumption|]. split; [assumption|].
      rewrite G1, G2, G3, G4, G5, G6, G7, G8, G9, G10, F1, F2, F3, F4, F5, F6, F7, F8, F9, F10.
      cbn [skipn]. repeat split; try reflexivity. lia.
Qed.

(* ---------------------------------------------------------------- insert *)
Definition pushed (t1 : dt) (f : field) : dt :=
  with_store t1 (dt_fields t1 ++ [f]) (dt_curr t1 + mem_size f) (vas_add (dt_vas t1)) (dt_fmap t1) (dt_nmap t1).

Lemma field_at_pushed_old t1 f a g : dt_ok t1 -> field_at t1 a = Some g -> field_at (pushed t1 f) a = Some g.
Proof.
  unfold field_at, pushed, vas_pos, vas_add; cbn [dt_fields dt_vas with_store v_dropped]. intros _ H.
  apply nth_opt_app_l. assumption.
Qed.

Lemma field_at_pushed_new t1 f : dt_ok t1 -> field_at (pushed t1 f) (v_inserted (dt_vas t1) + 1) = Some f.
Proof.
  intros Hok. unfold field_at, pushed, vas_pos, vas_add; cbn [dt_fields dt_vas with_store v_dropped].
  pose proof (ok_vas t1 Hok) as Hv. pose proof (ok_delta t1 Hok) as Hd. unfold vas_inv in Hv.
  replace (v_inserted (dt_vas t1) + 1 - v_dropped (dt_vas t1) - 1) with (N.of_nat (length (dt_fields t1))) by lia.
  apply nth_opt_app_last.
Qed.

Lemma live_pushed t1 f a : vas_live (dt_vas t1) a -> vas_live (dt_vas (pushed t1 f)) a.
Proof. unfold vas_live, pushed, vas_add; cbn [dt_vas with_store v_inserted v_dropped]. lia. Qed.

Lemma pushed_ok t1 f : dt_ok t1 -> dt_curr t1 + mem_size f <= dt_max t1 -> dt_ok (pushed t1 f).
Proof.
  intros Hok Hroom.
  constructor.
  - apply vas_add_inv. apply (ok_vas t1 Hok).
  - unfold pushed, vas_add; cbn [dt_vas dt_fields with_store v_delta]. rewrite app_length. cbn [length].
    pose proof (ok_delta t1 Hok). lia.
  - unfold pushed; cbn [dt_curr dt_fields with_store]. rewrite sum_sizes_app. cbn [sum_sizes].
    pose proof (ok_curr t1 Hok). lia.
  - unfold pushed; cbn [dt_curr dt_max with_store]. assumption.
  - apply (ok_fmap_nd t1 Hok).
  - intros g i Hg. change (dt_fmap (pushed t1 f)) with (dt_fmap t1) in Hg.
    destruct (ok_fmap t1 Hok g i Hg) as [H1 H2]. split; [apply live_pushed; assumption | apply field_at_pushed_old; assumption].
  - apply (ok_nmap_nd t1 Hok).
  - intros n i Hn. change (dt_nmap (pushed t1 f)) with (dt_nmap t1) in Hn.
    destruct (ok_nmap t1 Hok n i Hn) as [H1 [g [H2 H3]]]. split; [apply live_pushed; assumption|].
    exists g. split; [apply field_at_pushed_old; assumption | assumption].
  - apply (ok_track_nd t1 Hok).
  - intros r c Hr. change (dt_track (pushed t1 f)) with (dt_track t1) in Hr.
    destruct (ok_track t1 Hok r c Hr). split; [assumption | apply live_pushed; assumption].
Qed.

(* what DynamicTable::insert does when it succeeds *)
Lemma dt_insert_spec t f :
  dt_ok t ->
  (exists t1 n, dt_insert t f = Ok (pushed t1 f, Some (v_inserted (dt_vas t) + 1)) /\
        dt_can_free t (mem_size f) = Ok (Some n) /\ dt_evict (N.to_nat n) t = Ok t1 /\ dt_ok t1 /\ dt_ok (pushed t1 f) /\
        dt_fields t1 = skipn (N.to_nat n) (dt_fields t) /\ dt_max t1 = dt_max t /\ dt_track t1 = dt_track t /\
        dt_blocks t1 = dt_blocks t /\ dt_lkr t1 = dt_lkr t /\ dt_bmax t1 = dt_bmax t /\ dt_bcount t1 = dt_bcount t /\
        dt_bstreams t1 = dt_bstreams t /\ v_inserted (dt_vas t1) = v_inserted (dt_vas t) /\
        v_dropped (dt_vas t1) = v_dropped (dt_vas t) + n /\ dt_max t <> 0)
  \/ dt_insert t f = Ok (t, None)
  \/ (dt_insert t f = Err EMaxTableSizeReached /\ dt_max t < mem_size f).
Proof.
  intros Hok. unfold dt_insert. destruct (dt_max t =? 0) eqn:E0; [right; left; reflexivity|].
  destruct (dt_can_free t (mem_size f)) as [[n|]| e |s] eqn:Ecf.
  - left. destruct (dt_can_free_spec t _ n Hok Ecf) as (H1 & H2 & H3).
    destruct (dt_evict_ok (N.to_nat n) t Hok H1) as (t1 & Ee & Hok1 & G1 & G2 & G3 & G4 & G5 & G6 & G7 & G8 & G9 & G10).
    { intros i Hi. apply H3. lia. }
    exists t1, n. rewrite Ee.
    assert (Hroom : dt_curr t1 + mem_size f <= dt_max t1).
    { rewrite (ok_curr t1 Hok1), G1, G2. assumption. }
    split.
    { unfold pushed. f_equal. f_equal. unfold vas_add; cbn [v_inserted]. rewrite G9. reflexivity. }
    split; [reflexivity|]. split; [reflexivity|]. split; [assumption|]. split; [apply pushed_ok; assumption|].
    repeat (split; [first [assumption | lia] | ]). lia.
  - right; left; reflexivity.
  - right; right. apply dt_can_free_err in Ecf. destruct Ecf as [-> H]. split; [reflexivity | assumption].
  - (* a panic of can_free needs curr > max or a broken index: excluded by the invariant *)
    exfalso. unfold dt_can_free in Ecf. rewrite cmp_toolarge, cmp_room in Ecf.
    destruct (dt_max t <? mem_size f); [discriminate|].
    destruct (dt_max t <? dt_curr t) eqn:E2; [pose proof (ok_cap t Hok); lia|].
    destruct (mem_size f <=? dt_max t - dt_curr t); [discriminate|].
    assert (Hl : forall fs idx hyp ev s', (N.of_nat (length fs) + idx <= v_delta (dt_vas t)) -> sum_sizes fs <= hyp ->
                 cf_loop t (dt_max t - mem_size f) fs idx hyp ev <> Panic s').
    { induction fs as [|g r IH]; intros idx hyp ev s' Hl Hs; cbn [cf_loop]; [discriminate|].
      cbn [length sum_sizes] in Hl, Hs.
      destruct (cmp_eval q_can_free_loop_cmp hyp (dt_max t - mem_size f)); [discriminate|].
      unfold vas_index. destruct (v_delta (dt_vas t) <=? idx) eqn:Ei; [lia|].
      destruct (dt_is_tracked t (idx + v_dropped (dt_vas t) + 1)); [discriminate|].
      destruct (hyp <? mem_size g) eqn:Eh; [lia|]. apply IH; lia. }
    destruct (cf_loop t (dt_max t - mem_size f) (dt_fields t) 0 (dt_curr t) 0) as [[hyp ev]| |] eqn:EL; try discriminate.
    + apply cf_loop_spec in EL; [|apply (ok_vas t Hok)]. destruct EL as (k & _ & _ & H3 & _).
      destruct (dt_max t <? hyp) eqn:E4; [lia|]. destruct (cmp_eval q_can_free_final_cmp (mem_size f) (dt_max t - hyp)); discriminate.
    + eapply Hl; [| |exact EL]; [pose proof (ok_delta t Hok); lia | pose proof (ok_curr t Hok); lia].
Qed.
