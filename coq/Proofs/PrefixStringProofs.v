(* C15: string literals (prefix_string/mod.rs): round trip and absence of panics. *)
From H3V Require Import Base.Bytes Base.BytesLemmas Gen.GenPrefixString Spec.PrefixInt Spec.RFC7541Huffman Spec.HuffmanKnown
  Model.PrefixInt Model.Huffman Model.PrefixString
  Proofs.C15Finite Proofs.BitsLemmas Proofs.HuffmanWalk Proofs.HuffmanStrict
  Proofs.PrefixIntProofs Proofs.HuffmanDecodeProofs Proofs.HuffmanEncodeProofs.
From Coq Require Import ZifyBool ZifyNat ZifyN.
Ltac Zify.zify_post_hook ::= Z.div_mod_to_equations.

Lemma h_flag_check :
  forall_below 128 (fun f => (N.lor (N.shiftl f 1 mod 256) 1 =? 2 * f + 1) && (N.land (2 * f + 1) 1 =? 1)) = true.
Proof. vm_compute. reflexivity. Qed.

Lemma h_flag_fact f : f < 128 -> N.lor (N.shiftl f 1 mod 256) 1 = 2 * f + 1 /\ N.land (2 * f + 1) 1 = 1.
Proof.
  intros Hf. pose proof (forall_below_spec 128 _ h_flag_check f Hf) as H. cbv beta in H.
  apply andb_true_iff in H as [H1 H2]. apply N.eqb_eq in H1, H2. auto.
Qed.

(* T6 *)
Theorem ps_roundtrip size flags s r :
  2 <= size <= 8 -> flags < 2 ^ (8 - size) -> wf_bytes s -> len s < 2 ^ 26 -> wf_bytes r ->
  exists enc, ps_encode size flags s = Ok enc /\ ps_decode size (enc ++ r) = Ok (s, r).
Proof.
  intros Hs Hf Hwf Hlen Hr.
  destruct (hpack_encode_valid s Hwf Hlen) as (e & He & Hwe & Hv & Hel).
  assert (Hdec : hpack_decode e = Ok s).
  { apply hpack_decode_lax; [assumption|exact (hpack_encode_fits s e Hwf Hlen Hel)|]. apply lax_split. left. exact Hv. }
  pose proof (codes_length s Hwf) as Hcl.
  unfold len in Hlen. change (2 ^ 26) with 67108864 in Hlen.
  assert (Hf128 : flags < 128).
  { assert (2 ^ (8 - size) <= 2 ^ 6) by (apply N.pow_le_mono_r; lia). change (2 ^ 6) with 64 in *. lia. }
  destruct (h_flag_fact flags Hf128) as [Hlor Hland].
  assert (Hf' : 2 * flags + 1 < 2 ^ (8 - (size - 1))).
  { replace (8 - (size - 1)) with (N.succ (8 - size)) by lia. rewrite N.pow_succ_r'. lia. }
  destruct (pi_roundtrip (size - 1) (2 * flags + 1) (len e) (e ++ r)) as (hd & Hhd & Hpd).
  { lia. }
  { exact Hf'. }
  { change (2 ^ 63) with 9223372036854775808. unfold len. lia. }
  { apply wf_bytes_app. auto. }
  unfold ps_encode, ps_enc_size_offset, ps_enc_flag_shift, ps_enc_flag_or. rewrite He.
  destruct (N.ltb_spec size 1) as [?|_]; [lia|].
  rewrite Hlor, Hhd. exists (hd ++ e). split; [reflexivity|].
  unfold ps_decode, ps_dec_size_offset, ps_dec_remaining_lt, ps_dec_h_mask, ps_dec_guard_width, ps_guard_value, ps_dec_guard_ops, sat64.
  cbn [fold_left fst snd].
  destruct (N.ltb_spec size 1) as [?|_]; [lia|].
  rewrite <- app_assoc, Hpd.
  destruct (N.ltb_spec (len (e ++ r)) (len e)) as [Hc|_]; [rewrite len_app in Hc; lia|].
  rewrite Hland. change (1 =? 0) with false. cbv iota.
  destruct (N.ltb_spec (2 ^ 32 - 1) (N.min (N.min (len e * 8) (2 ^ 64 - 1) + 8) (2 ^ 64 - 1))) as [Hc|_].
  { change (2 ^ 32 - 1) with 4294967295 in Hc. change (2 ^ 64 - 1) with 18446744073709551615 in Hc. unfold len in Hc. lia. }
  unfold len. rewrite Nat2N.id, firstn_app_exact, skipn_app_exact, Hdec. reflexivity.
Qed.

Theorem ps_decode_no_panic size bs :
  2 <= size <= 8 -> wf_bytes bs -> is_panic (ps_decode size bs) = false.
Proof.
  intros Hs Hwf. unfold ps_decode, ps_dec_size_offset, ps_dec_remaining_lt, ps_dec_h_mask, ps_dec_guard_width, ps_guard_value, ps_dec_guard_ops, sat64.
  cbn [fold_left fst snd].
  destruct (N.ltb_spec size 1) as [?|_]; [lia|].
  pose proof (pi_decode_no_panic (size - 1) bs ltac:(lia) Hwf) as Hnp.
  destruct (pi_decode (size - 1) bs) as [[[f n] r]|e|p] eqn:Hpd; [|destruct e; reflexivity|discriminate].
  destruct (N.ltb_spec (len r) n) as [|Hge]; [reflexivity|].
  destruct (N.land f 1 =? 0); [reflexivity|].
  destruct (N.ltb_spec (2 ^ 32 - 1) (N.min (N.min (n * 8) (2 ^ 64 - 1) + 8) (2 ^ 64 - 1))) as [|Hguard]; [reflexivity|].
  assert (Hwr : wf_bytes r).
  { apply pi_decode_sound in Hpd; [|lia|assumption].
    unfold rfc_pi_decode in Hpd. destruct bs as [|b0 t]; [discriminate|].
    apply wf_bytes_cons in Hwf as [_ Hwt].
    destruct (b0 mod 2 ^ (size - 1) <? 2 ^ (size - 1) - 1).
    - inversion Hpd; subst. exact Hwt.
    - destruct (rfc_pi_cont t 0) as [[v rest]|] eqn:Hc; [|discriminate]. inversion Hpd; subst.
      clear -Hc Hwt. revert Hc. generalize 0 at 1. revert v.
      induction t as [|b t IH]; intros v m Hc; [discriminate|].
      apply wf_bytes_cons in Hwt as [_ Hwt]. cbn [rfc_pi_cont] in Hc.
      destruct (b / 128 =? 0); [inversion Hc; subst; exact Hwt|].
      destruct (rfc_pi_cont t (m + 7)) as [[v' rest']|] eqn:Hc'; [|discriminate].
      inversion Hc; subst. eapply IH; eauto. }
  assert (Hfit : fits_u32 (firstn (N.to_nat n) r)).
  { unfold fits_u32, len in *. rewrite firstn_length.
    change (2 ^ 32 - 1) with 4294967295 in Hguard. change (2 ^ 64 - 1) with 18446744073709551615 in Hguard.
    change (2 ^ 32) with 4294967296. lia. }
  pose proof (hpack_decode_no_panic (firstn (N.to_nat n) r) (wf_bytes_firstn _ _ Hwr) Hfit) as Hh.
  destruct (hpack_decode (firstn (N.to_nat n) r)); [reflexivity|reflexivity|discriminate].
Qed.

(* soundness of the literal decoder on ALL inputs: an accepted literal has the RFC 7541 5.1 length, its
   value is made of exactly that many payload octets, what follows is left unread, and the H bit (lowest
   flag bit above the length prefix) selects raw octets or Huffman decoding of exactly those octets *)
Theorem ps_decode_sound size bs v rest :
  2 <= size <= 8 -> wf_bytes bs -> ps_decode size bs = Ok (v, rest) ->
  exists f n r, rfc_pi_decode (size - 1) bs = Some (f, n, r) /\ n <= len r /\
    rest = skipn (N.to_nat n) r /\
    (N.land f 1 = 0 -> v = firstn (N.to_nat n) r) /\
    (N.land f 1 <> 0 -> 8 * n + 8 < 2 ^ 32 /\ hpack_decode (firstn (N.to_nat n) r) = Ok v).
Proof.
  intros Hs Hwf. unfold ps_decode, ps_dec_size_offset, ps_dec_remaining_lt, ps_dec_h_mask, ps_dec_guard_width, ps_guard_value, ps_dec_guard_ops, sat64.
  cbn [fold_left fst snd].
  destruct (N.ltb_spec size 1) as [?|_]; [lia|].
  destruct (pi_decode (size - 1) bs) as [[[f n] r]|e|p] eqn:Hpd; [|destruct e; discriminate|discriminate].
  apply pi_decode_sound in Hpd; [|lia|assumption].
  destruct (N.ltb_spec (len r) n) as [|Hge]; [discriminate|].
  destruct (N.eqb_spec (N.land f 1) 0) as [Hraw|Hhuff].
  - intros H. inversion H; subst. exists f, n, r.
    split; [assumption|]. split; [assumption|]. split; [reflexivity|]. split; [reflexivity|].
    intros Hc. contradiction.
  - destruct (N.ltb_spec (2 ^ 32 - 1) (N.min (N.min (n * 8) (2 ^ 64 - 1) + 8) (2 ^ 64 - 1))) as [|Hguard]; [discriminate|].
    destruct (hpack_decode (firstn (N.to_nat n) r)) as [v'|e|p] eqn:Hh; try discriminate.
    intros H. inversion H; subst. exists f, n, r.
    split; [assumption|]. split; [assumption|]. split; [reflexivity|]. split; [intros Hc; contradiction|].
    intros _. split; [|exact Hh].
    change (2 ^ 32 - 1) with 4294967295 in Hguard. change (2 ^ 64 - 1) with 18446744073709551615 in Hguard.
    change (2 ^ 32) with 4294967296. lia.
Qed.

Lemma raw_flag_check : forall_below 128 (fun f => N.land (2 * f) 1 =? 0) = true.
Proof. vm_compute. reflexivity. Qed.

(* the raw (H = 0) branch: a length-prefixed octet string is returned unchanged *)
Theorem ps_decode_raw size flags payload r :
  2 <= size <= 8 -> flags < 2 ^ (8 - size) -> wf_bytes payload -> len payload < 2 ^ 62 -> wf_bytes r ->
  ps_decode size (rfc_pi_encode (size - 1) (2 * flags) (len payload) ++ payload ++ r) = Ok (payload, r).
Proof.
  intros Hs Hf Hwp Hlen Hr.
  assert (Hf128 : flags < 128).
  { assert (2 ^ (8 - size) <= 2 ^ 6) by (apply N.pow_le_mono_r; lia). change (2 ^ 6) with 64 in *. lia. }
  assert (Hf' : 2 * flags < 2 ^ (8 - (size - 1))).
  { replace (8 - (size - 1)) with (N.succ (8 - size)) by lia. rewrite N.pow_succ_r'. lia. }
  change (2 ^ 62) with 4611686018427387904 in Hlen.
  destruct (pi_roundtrip (size - 1) (2 * flags) (len payload) (payload ++ r)) as (hd & Hhd & Hpd);
    [lia|exact Hf'|change (2 ^ 63) with 9223372036854775808; lia|apply wf_bytes_app; auto|].
  rewrite pi_encode_is_rfc in Hhd; [|lia|exact Hf'|change (2 ^ 64) with 18446744073709551616; lia].
  inversion Hhd; subst hd.
  unfold ps_decode, ps_dec_size_offset, ps_dec_remaining_lt, ps_dec_h_mask.
  destruct (N.ltb_spec size 1) as [?|_]; [lia|]. rewrite Hpd.
  destruct (N.ltb_spec (len (payload ++ r)) (len payload)) as [Hc|_]; [rewrite len_app in Hc; lia|].
  pose proof (forall_below_spec 128 _ raw_flag_check flags Hf128) as Hz. cbv beta in Hz. rewrite Hz.
  unfold len. rewrite Nat2N.id, firstn_app_exact, skipn_app_exact. reflexivity.
Qed.
