(* The `Buf` laws of the chunk-queue buffer of Model/ChunkedBuf.v and of the bytes-crate provided methods run on it,
   for EVERY list of non-empty chunks (the bytes::Buf contract: chunk() is empty only when nothing remains):
   advance(k) within the remaining bytes skips exactly k bytes of the flat view, never panics, keeps the chunks non-empty;
   get_u8 / copy_to_slice / copy_to_bytes read exactly the next bytes of the flat view and leave its rest, whatever the
   chunk boundaries are. *)
From H3V Require Import Base.Bytes Base.BytesLemmas Model.ChunkedBuf.
From Coq Require Import ZifyBool ZifyNat ZifyN.
Ltac Zify.zify_post_hook ::= Z.div_mod_to_equations.

Definition cb_wf (cs : cbuf) : Prop := Forall (fun c : bytes => c <> []) cs.

(* ---------- list facts ---------- *)
Lemma cbl_skipn_app_ge {A} n (l1 l2 : list A) : (length l1 <= n)%nat -> skipn n (l1 ++ l2) = skipn (n - length l1) l2.
Proof. intros H. rewrite skipn_app. rewrite (skipn_all2 l1) by exact H. reflexivity. Qed.

Lemma cbl_skipn_app_lt {A} n (l1 l2 : list A) : (n <= length l1)%nat -> skipn n (l1 ++ l2) = skipn n l1 ++ l2.
Proof. intros H. rewrite skipn_app. replace (n - length l1)%nat with O by lia. reflexivity. Qed.

Lemma cbl_firstn_app_ge {A} n (l1 l2 : list A) : (length l1 <= n)%nat -> firstn n (l1 ++ l2) = l1 ++ firstn (n - length l1) l2.
Proof. intros H. rewrite firstn_app. rewrite (firstn_all2 l1) by exact H. reflexivity. Qed.

Lemma cbl_firstn_app_lt {A} n (l1 l2 : list A) : (n <= length l1)%nat -> firstn n (l1 ++ l2) = firstn n l1.
Proof. intros H. rewrite firstn_app. replace (n - length l1)%nat with O by lia. cbn. apply app_nil_r. Qed.

Lemma cbl_len_skipn n (l : bytes) : len (skipn n l) = len l - N.of_nat n.
Proof. unfold len. rewrite skipn_length. lia. Qed.

Lemma cbl_len_nil (l : bytes) : len l = 0 <-> l = [].
Proof. unfold len. destruct l; cbn; split; intros; try reflexivity; try discriminate; lia. Qed.

Lemma cb_wf_cons c r : cb_wf (c :: r) <-> c <> [] /\ cb_wf r.
Proof. unfold cb_wf. split; intros H; [inversion H; auto|constructor; tauto]. Qed.

Lemma cb_wf_single (bs : bytes) : bs <> [] -> cb_wf [bs].
Proof. intros H. apply cb_wf_cons. split; [exact H|constructor]. Qed.

(* ---------- advance ---------- *)
Lemma cb_advance_0 cs : cb_advance 0 cs = Some cs.
Proof. destruct cs; reflexivity. Qed.

Lemma cb_advance_law : forall cs k, cb_wf cs -> k <= len (concat cs) ->
  exists cs', cb_advance k cs = Some cs' /\ concat cs' = skipn (N.to_nat k) (concat cs) /\ cb_wf cs' /\
              (length cs' <= length cs)%nat /\
              (k <> 0 -> len (cb_chunk cs) <= k -> (length cs' < length cs)%nat).
Proof.
  induction cs as [|c r IH]; intros k W Hk.
  - assert (k = 0) by (unfold len in Hk; cbn in Hk; lia). subst k. exists []. cbn.
    repeat split; auto; intros; lia.
  - cbn [cb_advance]. destruct (k =? 0) eqn:E0.
    + assert (k = 0) by lia. subst k. exists (c :: r). cbn [N.to_nat skipn].
      repeat split; auto; intros; lia.
    + apply cb_wf_cons in W as [Hc Wr]. cbn [concat] in *. rewrite len_app in Hk.
      destruct (k <? len c) eqn:E1.
      * exists (skipn (N.to_nat k) c :: r). split; [reflexivity|]. split; [|split; [|split]].
        -- cbn [concat]. rewrite cbl_skipn_app_lt by (unfold len in E1; lia). reflexivity.
        -- apply cb_wf_cons. split; [|exact Wr]. intros H. apply cbl_len_nil in H.
           rewrite cbl_len_skipn in H. lia.
        -- cbn [length]. lia.
        -- cbn [cb_chunk]. intros; lia.
      * destruct (IH (k - len c) Wr) as (cs' & A & B & C & D & _); [lia|].
        exists cs'. split; [exact A|]. split; [|split; [exact C|split]].
        -- rewrite B. rewrite cbl_skipn_app_ge by (unfold len in E1; lia). f_equal. unfold len. lia.
        -- cbn [length]. lia.
        -- intros _ _. cbn [length]. lia.
Qed.

Lemma cb_advance_past_end : forall cs k, len (concat cs) < k -> cb_advance k cs = None.
Proof.
  induction cs as [|c r IH]; intros k Hk.
  - cbn [cb_advance]. destruct (k =? 0) eqn:E0; [unfold len in Hk; cbn in Hk; lia|reflexivity].
  - cbn [cb_advance concat] in *. rewrite len_app in Hk. destruct (k =? 0) eqn:E0; [lia|].
    destruct (k <? len c) eqn:E1; [lia|]. apply IH. lia.
Qed.

(* ---------- remaining / chunk ---------- *)
Lemma cb_chunk_law cs : cb_wf cs -> exists tl, concat cs = cb_chunk cs ++ tl /\ (concat cs <> [] -> cb_chunk cs <> []).
Proof.
  intros W. destruct cs as [|c r]; [exists []; split; [reflexivity|intros H; exact H]|].
  apply cb_wf_cons in W as [Hc _]. exists (concat r). split; [reflexivity|]. intros _. exact Hc.
Qed.

(* ---------- get_u8 ---------- *)
Lemma cb_get_u8_law cs b tl : cb_wf cs -> concat cs = b :: tl ->
  exists cs', cb_get_u8 cs = Ok (b, cs') /\ concat cs' = tl /\ cb_wf cs'.
Proof.
  intros W V. unfold cb_get_u8, cb_remaining. rewrite V.
  replace (len (b :: tl) <? 1) with false by (unfold len; cbn [length]; lia).
  destruct (cb_chunk_law cs W) as (t2 & C1 & C2).
  destruct (cb_chunk cs) as [|x ch] eqn:Ech; [exfalso; apply C2; [rewrite V; discriminate|reflexivity]|].
  rewrite V in C1. cbn [app] in C1. injection C1 as Hx Htl. subst x.
  destruct (cb_advance_law cs 1 W) as (cs' & A & B & C & _); [rewrite V; unfold len; cbn [length]; lia|].
  rewrite A. exists cs'. split; [reflexivity|]. split; [|exact C].
  rewrite B, V. reflexivity.
Qed.

Lemma cb_get_u8_empty cs : concat cs = [] -> cb_get_u8 cs = Panic 900.
Proof. intros V. unfold cb_get_u8, cb_remaining. rewrite V. reflexivity. Qed.

(* ---------- copy_to_slice ---------- *)
Lemma cb_copy_loop_0 fuel cs : cb_copy_loop fuel 0 cs = Ok ([], cs).
Proof. destruct fuel; reflexivity. Qed.

Lemma cb_copy_loop_law : forall fuel k cs, cb_wf cs -> k <= len (concat cs) -> (length cs < fuel)%nat ->
  exists cs', cb_copy_loop fuel k cs = Ok (firstn (N.to_nat k) (concat cs), cs') /\
              concat cs' = skipn (N.to_nat k) (concat cs) /\ cb_wf cs'.
Proof.
  induction fuel as [|f IH]; intros k cs W Hk Hf; [lia|].
  cbn [cb_copy_loop]. destruct (k =? 0) eqn:E0.
  - assert (k = 0) by lia. subst k. exists cs. cbn. auto.
  - destruct (cb_chunk_law cs W) as (tl & C1 & C2).
    assert (Hne : concat cs <> []).
    { intros H. rewrite H in Hk. unfold len in Hk. cbn in Hk. lia. }
    specialize (C2 Hne). set (ch := cb_chunk cs) in *.
    assert (Hch : 1 <= len ch) by (unfold len; destruct ch; [congruence|cbn [length]; lia]).
    set (cnt := N.min (len ch) k).
    destruct (cb_advance_law cs cnt W) as (c1 & A1 & A2 & A3 & A4 & A5).
    { rewrite C1, len_app. unfold cnt. lia. }
    rewrite A1.
    destruct (N.eq_dec (k - cnt) 0) as [Z|NZ].
    + (* the destination is full: the next round returns at once *)
      assert (Hk' : cnt = k) by (unfold cnt in *; lia).
      rewrite Z, cb_copy_loop_0. exists c1. split; [|split; [|exact A3]].
      * f_equal. f_equal. rewrite app_nil_r, Hk', C1.
        rewrite cbl_firstn_app_lt by (unfold cnt, len in *; lia). reflexivity.
      * rewrite A2, Hk'. reflexivity.
    + (* the whole chunk was taken: one chunk fewer remains *)
      assert (Hcnt : cnt = len ch) by (unfold cnt in *; lia).
      assert (Hlt : (length c1 < length cs)%nat) by (apply A5; fold ch; lia).
      destruct (IH (k - cnt) c1 A3) as (c2 & B1 & B2 & B3); [rewrite A2, cbl_len_skipn; lia|lia|].
      rewrite B1. exists c2. split; [|split; [|exact B3]].
      * f_equal. f_equal. rewrite A2, C1, Hcnt.
        replace (N.to_nat (len ch)) with (length ch) by (unfold len; lia).
        rewrite firstn_all, cbl_skipn_app_ge by lia. replace (length ch - length ch)%nat with O by lia. cbn [skipn].
        rewrite cbl_firstn_app_ge by (unfold len in *; lia). f_equal. f_equal. unfold len. lia.
      * rewrite B2, A2, skipn_skipn'. f_equal. lia.
Qed.

Lemma cb_copy_to_slice_law k cs : cb_wf cs -> k <= len (concat cs) ->
  exists cs', cb_copy_to_slice k cs = Ok (firstn (N.to_nat k) (concat cs), cs') /\
              concat cs' = skipn (N.to_nat k) (concat cs) /\ cb_wf cs'.
Proof.
  intros W Hk. unfold cb_copy_to_slice, cb_remaining.
  destruct (len (concat cs) <? k) eqn:E; [lia|]. apply cb_copy_loop_law; [exact W|exact Hk|lia].
Qed.

Lemma cb_copy_to_slice_short k cs : len (concat cs) < k -> cb_copy_to_slice k cs = Panic 900.
Proof. intros Hk. unfold cb_copy_to_slice, cb_remaining. destruct (len (concat cs) <? k) eqn:E; [reflexivity|lia]. Qed.

(* ---------- copy_to_bytes ---------- *)
Lemma cb_take_loop_0 fuel cs : cb_take_loop fuel 0 cs = Ok ([], cs).
Proof. destruct fuel; cbn [cb_take_loop]; rewrite N.min_0_r; reflexivity. Qed.

Lemma cb_take_loop_law : forall fuel k cs, cb_wf cs -> k <= len (concat cs) -> (length cs < fuel)%nat ->
  exists cs', cb_take_loop fuel k cs = Ok (firstn (N.to_nat k) (concat cs), cs') /\
              concat cs' = skipn (N.to_nat k) (concat cs) /\ cb_wf cs'.
Proof.
  induction fuel as [|f IH]; intros k cs W Hk Hf; [lia|].
  cbn [cb_take_loop]. unfold cb_remaining at 1.
  destruct (N.min (len (concat cs)) k =? 0) eqn:E0.
  - assert (k = 0) by lia. subst k. exists cs. cbn. auto.
  - destruct (cb_chunk_law cs W) as (tl & C1 & C2).
    assert (Hne : concat cs <> []).
    { intros H. rewrite H in Hk. unfold len in Hk. cbn in Hk. lia. }
    specialize (C2 Hne). set (ch := cb_chunk cs) in *.
    assert (Hch : 1 <= len ch) by (unfold len; destruct ch; [congruence|cbn [length]; lia]).
    set (cnt := N.min (len ch) k).
    destruct (cb_advance_law cs cnt W) as (c1 & A1 & A2 & A3 & A4 & A5).
    { rewrite C1, len_app. unfold cnt. lia. }
    rewrite A1.
    destruct (N.eq_dec (k - cnt) 0) as [Z|NZ].
    + (* the destination is full: the next round returns at once *)
      assert (Hk' : cnt = k) by (unfold cnt in *; lia).
      rewrite Z, cb_take_loop_0. exists c1. split; [|split; [|exact A3]].
      * f_equal. f_equal. rewrite app_nil_r, Hk', C1.
        rewrite cbl_firstn_app_lt by (unfold cnt, len in *; lia). reflexivity.
      * rewrite A2, Hk'. reflexivity.
    + (* the whole chunk was taken: one chunk fewer remains *)
      assert (Hcnt : cnt = len ch) by (unfold cnt in *; lia).
      assert (Hlt : (length c1 < length cs)%nat) by (apply A5; fold ch; lia).
      destruct (IH (k - cnt) c1 A3) as (c2 & B1 & B2 & B3); [rewrite A2, cbl_len_skipn; lia|lia|].
      rewrite B1. exists c2. split; [|split; [|exact B3]].
      * f_equal. f_equal. rewrite A2, C1, Hcnt.
        replace (N.to_nat (len ch)) with (length ch) by (unfold len; lia).
        rewrite firstn_all, cbl_skipn_app_ge by lia. replace (length ch - length ch)%nat with O by lia. cbn [skipn].
        rewrite cbl_firstn_app_ge by (unfold len in *; lia). f_equal. f_equal. unfold len. lia.
      * rewrite B2, A2, skipn_skipn'. f_equal. lia.
Qed.

Lemma cb_copy_to_bytes_law k cs : cb_wf cs -> k <= len (concat cs) ->
  exists cs', cb_copy_to_bytes k cs = Ok (firstn (N.to_nat k) (concat cs), cs') /\
              concat cs' = skipn (N.to_nat k) (concat cs) /\ cb_wf cs'.
Proof.
  intros W Hk. unfold cb_copy_to_bytes, cb_remaining.
  destruct (len (concat cs) <? k) eqn:E; [lia|]. apply cb_take_loop_law; [exact W|exact Hk|lia].
Qed.

Lemma cb_copy_to_bytes_short k cs : len (concat cs) < k -> cb_copy_to_bytes k cs = Panic 900.
Proof. intros Hk. unfold cb_copy_to_bytes, cb_remaining. destruct (len (concat cs) <? k) eqn:E; [reflexivity|lia]. Qed.

(* every byte string is the view of some buffer of non-empty chunks; a flat buffer is the one-chunk case *)
Lemma cb_flat_wf (bs : bytes) : cb_wf (match bs with [] => [] | _ => [bs] end) /\
                                concat (match bs with [] => [] | _ => [bs] end) = bs.
Proof.
  destruct bs as [|b r]; [split; [constructor|reflexivity]|].
  split; [apply cb_wf_single; discriminate|cbn [concat]; apply app_nil_r].
Qed.
