(* T3a: the index conversions of vas.rs are mutually inverse on live entries. *)
From H3V Require Import Base.Bytes Model.Vas.
From Coq Require Import ZifyBool ZifyN.
Ltac Zify.zify_post_hook ::= Z.div_mod_to_equations.

Definition vas_inv (v : vas) : Prop := v_inserted v = v_dropped v + v_delta v.
(* absolute indices are 1-based: entry a is live when dropped < a <= inserted *)
Definition vas_live (v : vas) (a : N) : Prop := v_dropped v < a /\ a <= v_inserted v.
(* position of a live absolute index in the container *)
Definition vas_pos (v : vas) (a : N) : N := a - v_dropped v - 1.

Lemma vas0_inv : vas_inv vas0.
Proof. reflexivity. Qed.

Lemma vas_add_inv v : vas_inv v -> vas_inv (vas_add v).
Proof. unfold vas_inv, vas_add; cbn [v_inserted v_dropped v_delta]; lia. Qed.

Lemma vas_drop_inv v v' : vas_inv v -> vas_drop v = Ok v' -> vas_inv v'.
Proof.
  unfold vas_inv, vas_drop. intros Hi H.
  destruct (v_delta v =? 0) eqn:E; [discriminate|]. inversion H; subst; clear H.
  cbn [v_inserted v_dropped v_delta]. lia.
Qed.

Lemma vas_drop_ok v : v_delta v <> 0 -> vas_drop v = Ok (mkVas (v_inserted v) (v_dropped v + 1) (v_delta v - 1)).
Proof. unfold vas_drop. intros H. destruct (v_delta v =? 0) eqn:E; [lia|reflexivity]. Qed.

(* container position -> absolute *)
Lemma vas_index_spec v p a :
  vas_inv v -> (vas_index v p = Ok a <-> p < v_delta v /\ a = p + v_dropped v + 1).
Proof.
  unfold vas_inv, vas_index. intros Hi.
  destruct (v_delta v <=? p) eqn:E; split; intros H.
  - discriminate.
  - lia.
  - inversion H; subst. lia.
  - destruct H as [_ ->]. reflexivity.
Qed.

Lemma vas_index_live v a : vas_inv v -> vas_live v a -> vas_index v (vas_pos v a) = Ok a.
Proof.
  intros Hi [H1 H2]. apply vas_index_spec; [assumption|]. unfold vas_pos, vas_inv in *. lia.
Qed.

Lemma vas_index_is_live v p a : vas_inv v -> vas_index v p = Ok a -> vas_live v a /\ vas_pos v a = p.
Proof.
  intros Hi H. apply vas_index_spec in H; [|assumption]. destruct H as [H1 ->].
  unfold vas_live, vas_pos, vas_inv in *. lia.
Qed.

(* relative index on the encoder stream: 0 = newest *)
Lemma vas_relative_live v a :
  vas_inv v -> vas_live v a -> vas_relative v (v_inserted v - a) = Ok (vas_pos v a).
Proof.
  unfold vas_inv, vas_live, vas_relative, vas_pos. intros Hi [H1 H2].
  destruct (v_inserted v <? v_inserted v - a) eqn:E1; [lia|].
  destruct (v_delta v =? 0) eqn:E2; [lia|].
  destruct (v_inserted v - (v_inserted v - a) <=? v_dropped v) eqn:E3; [lia|].
  cbn [orb]. f_equal. lia.
Qed.

Lemma vas_relative_ok v i p :
  vas_inv v -> vas_relative v i = Ok p ->
  vas_live v (v_inserted v - i) /\ p = vas_pos v (v_inserted v - i) /\ i < v_inserted v.
Proof.
  unfold vas_inv, vas_live, vas_relative, vas_pos. intros Hi H.
  destruct (v_inserted v <? i) eqn:E1; [discriminate|].
  destruct (v_delta v =? 0) eqn:E2; [discriminate|].
  destruct (v_inserted v - i <=? v_dropped v) eqn:E3; [discriminate|].
  cbn [orb] in H. inversion H; subst. lia.
Qed.

(* relative to a base *)
Lemma vas_relative_base_live v base a :
  vas_inv v -> vas_live v a -> a <= base -> vas_relative_base v base (base - a) = Ok (vas_pos v a).
Proof.
  unfold vas_inv, vas_live, vas_relative_base, vas_pos. intros Hi [H1 H2] Hb.
  destruct (v_delta v =? 0) eqn:E2; [lia|].
  destruct (base <? base - a) eqn:E1; [lia|].
  destruct (base - (base - a) <=? v_dropped v) eqn:E3; [lia|].
  cbn [orb]. f_equal. lia.
Qed.

Lemma vas_relative_base_ok v base i p :
  vas_relative_base v base i = Ok p -> i <= base /\ v_dropped v < base - i /\ p = vas_pos v (base - i).
Proof.
  unfold vas_relative_base, vas_pos. intros H.
  destruct (v_delta v =? 0) eqn:E2; [discriminate|].
  destruct (base <? i) eqn:E1; [discriminate|].
  destruct (base - i <=? v_dropped v) eqn:E3; [discriminate|].
  cbn [orb] in H. inversion H; subst. lia.
Qed.

(* post-base *)
Lemma vas_post_base_live v base a :
  vas_inv v -> vas_live v a -> base < a -> a < usize_lim ->
  vas_post_base v base (a - base - 1) = Ok (vas_pos v a).
Proof.
  unfold vas_inv, vas_live, vas_post_base, vas_pos. intros Hi [H1 H2] Hb Hl.
  destruct (v_delta v =? 0) eqn:E2; [lia|].
  destruct (usize_lim <=? base + (a - base - 1)) eqn:E0; [lia|].
  destruct (v_inserted v <=? base + (a - base - 1)) eqn:E1; [lia|].
  destruct (base + (a - base - 1) <? v_dropped v) eqn:E3; [lia|].
  cbn [orb]. f_equal. lia.
Qed.

Lemma vas_post_base_ok v base i p :
  vas_inv v -> vas_post_base v base i = Ok p -> vas_live v (base + i + 1) /\ p = vas_pos v (base + i + 1).
Proof.
  unfold vas_inv, vas_live, vas_post_base, vas_pos. intros Hi H.
  destruct (v_delta v =? 0) eqn:E2; [discriminate|].
  destruct (usize_lim <=? base + i) eqn:E0; [discriminate|].
  destruct (v_inserted v <=? base + i) eqn:E1; [discriminate|].
  destruct (base + i <? v_dropped v) eqn:E3; [discriminate|].
  cbn [orb] in H. inversion H; subst. lia.
Qed.

(* the summary pinned as C20_index_maps *)
Theorem vas_index_maps :
  forall v a, vas_inv v -> vas_live v a -> a < usize_lim ->
    vas_index v (vas_pos v a) = Ok a /\
    vas_relative v (v_inserted v - a) = Ok (vas_pos v a) /\
    (forall base, a <= base -> vas_relative_base v base (base - a) = Ok (vas_pos v a)) /\
    (forall base, base < a -> vas_post_base v base (a - base - 1) = Ok (vas_pos v a)) /\
    vas_evicted v a = false.
Proof.
  intros v a Hi Hl Hlim. repeat split.
  - apply vas_index_live; assumption.
  - apply vas_relative_live; assumption.
  - intros. apply vas_relative_base_live; assumption.
  - intros. apply vas_post_base_live; assumption.
  - unfold vas_evicted, vas_live in *. destruct Hl. destruct (a =? 0) eqn:E; cbn [negb andb]; lia.
Qed.

(* and the conversions never yield a position outside the window *)
Theorem vas_maps_sound :
  forall v, vas_inv v ->
    (forall p a, vas_index v p = Ok a -> vas_live v a /\ vas_pos v a = p) /\
    (forall i p, vas_relative v i = Ok p -> vas_live v (v_inserted v - i) /\ p = vas_pos v (v_inserted v - i)) /\
    (forall base i p, vas_post_base v base i = Ok p -> vas_live v (base + i + 1) /\ p = vas_pos v (base + i + 1)).
Proof.
  intros v Hi. split; [|split].
  - intros p a H. eapply vas_index_is_live; eauto.
  - intros i p H. apply vas_relative_ok in H; [|assumption]. destruct H as (H1 & H2 & _). split; assumption.
  - intros base i p H. apply vas_post_base_ok in H; assumption.
Qed.
