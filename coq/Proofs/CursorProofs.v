(* C06 PART 3: the `Buf` laws of buf.rs `Cursor` (Model/Cursor.v): under the transport contract "no empty chunk",
   in every state reached from `BufList::cursor()` by `advance` calls within the remaining bytes,
   - remaining() is exactly the length of the unread flat view and never panics,
   - chunk() never panics while bytes remain, and is a NON-EMPTY PREFIX of the view,
   - advance(k) with k <= remaining never panics, skips exactly k bytes of the view and adds k to position();
     with k > remaining it is the assert (and nothing else),
   - get_u8 / copy_to_slice (bytes default methods) never panic within the remaining bytes and read exactly the
     next bytes of the flat view, whatever the chunk boundaries are (chunking independence of the reader). *)
From H3V Require Import Base.Bytes Base.BytesLemmas Model.Cursor.
From Coq Require Import ZifyBool ZifyNat ZifyN.
Ltac Zify.zify_post_hook ::= Z.div_mod_to_equations.

Definition nonempty_chunks (bufs : list bytes) : Prop := Forall (fun b : bytes => b <> []) bufs.

Definition cur_rest (c : cursor) : list bytes := skipn (N.to_nat (c_index c)) (c_bufs c).

(* the unread bytes *)
Definition cur_view (c : cursor) : bytes := skipn (N.to_nat (c_front c)) (concat (cur_rest c)).

Definition front_ok (rest : list bytes) (front : N) : Prop :=
  match rest with [] => front = 0 | b :: _ => front < len b end.

Record cur_inv (c : cursor) : Prop := {
  ci_nonempty : nonempty_chunks (c_bufs c);
  ci_front : front_ok (cur_rest c) (c_front c);
  ci_view : cur_view c = skipn (N.to_nat (c_total c)) (concat (c_bufs c));
  ci_total : c_total c <= bl_len (c_bufs c)
}.

(* ---------- list facts ---------- *)
Lemma skipn_app_ge {A} n (l1 l2 : list A) : (length l1 <= n)%nat -> skipn n (l1 ++ l2) = skipn (n - length l1) l2.
Proof.
  intros H. rewrite skipn_app. rewrite (skipn_all2 l1) by exact H. reflexivity.
Qed.

Lemma skipn_app_lt {A} n (l1 l2 : list A) : (n <= length l1)%nat -> skipn n (l1 ++ l2) = skipn n l1 ++ l2.
Proof.
  intros H. rewrite skipn_app. replace (n - length l1)%nat with O by lia. reflexivity.
Qed.

Lemma len_skipn n (l : bytes) : len (skipn n l) = len l - N.of_nat n.
Proof. unfold len. rewrite skipn_length. lia. Qed.

Lemma len_nil_iff (l : bytes) : len l = 0 <-> l = [].
Proof. unfold len. destruct l; cbn; split; intros; try reflexivity; try discriminate; lia. Qed.

Lemma nonempty_skipn n bufs : nonempty_chunks bufs -> nonempty_chunks (skipn n bufs).
Proof.
  unfold nonempty_chunks. revert bufs. induction n as [|n IH]; intros bufs H; [exact H|].
  destruct bufs as [|b r]; [constructor|]. cbn [skipn]. apply IH. inversion H; assumption.
Qed.

Lemma nth_error_skipn_hd {A} (l : list A) n : nth_error l n = hd_error (skipn n l).
Proof.
  revert l. induction n as [|n IH]; intros l; destruct l as [|x r]; cbn; auto.
Qed.

(* ---------- initial state ---------- *)
Lemma cur_new_inv bufs : nonempty_chunks bufs -> cur_inv (cur_new bufs).
Proof.
  intros H. constructor; unfold cur_view, cur_rest, cur_new, bl_len; cbn.
  - exact H.
  - destruct bufs as [|b r]; cbn; [reflexivity|]. inversion H; subst. unfold len. destruct b; [congruence|cbn; lia].
  - reflexivity.
  - lia.
Qed.

Lemma cur_new_view bufs : cur_view (cur_new bufs) = concat bufs.
Proof. reflexivity. Qed.

(* ---------- remaining ---------- *)
Lemma cur_view_len c : cur_inv c -> len (cur_view c) = bl_len (c_bufs c) - c_total c.
Proof.
  intros I. rewrite (ci_view c I). rewrite len_skipn. unfold bl_len. pose proof (ci_total c I). unfold bl_len in *. lia.
Qed.

Theorem cur_remaining_law c : cur_inv c -> cur_remaining c = Ok (len (cur_view c)).
Proof.
  intros I. unfold cur_remaining. pose proof (ci_total c I) as T.
  destruct (bl_len (c_bufs c) <? c_total c) eqn:E; [lia|]. rewrite (cur_view_len c I). reflexivity.
Qed.

(* ---------- chunk ---------- *)
Theorem cur_chunk_law c : cur_inv c -> cur_view c <> [] ->
  exists ch tl, cur_chunk c = Ok ch /\ ch <> [] /\ cur_view c = ch ++ tl.
Proof.
  intros I Hne. unfold cur_chunk, cur_view in *. pose proof (ci_front c I) as F. unfold front_ok in F.
  rewrite nth_error_skipn_hd. fold (cur_rest c). destruct (cur_rest c) as [|b r] eqn:R.
  - cbn in Hne. rewrite skipn_nil in Hne. congruence.
  - cbn [hd_error]. destruct (len b <? c_front c) eqn:E; [lia|].
    exists (skipn (N.to_nat (c_front c)) b), (concat r). split; [reflexivity|]. split.
    + intros H. apply len_nil_iff in H. rewrite len_skipn in H. lia.
    + cbn [concat]. apply skipn_app_lt. unfold len in F. lia.
Qed.

(* ---------- advance ---------- *)
Lemma adv_loop_spec : forall rest cnt total front index,
  nonempty_chunks rest -> front_ok rest front -> front + cnt <= len (concat rest) ->
  exists front' k,
    adv_loop rest cnt total front index = Ok (total + cnt, front', index + N.of_nat k) /\
    front_ok (skipn k rest) front' /\
    skipn (N.to_nat front') (concat (skipn k rest)) = skipn (N.to_nat (front + cnt)) (concat rest).
Proof.
  induction rest as [|b r IH]; intros cnt total front index Hne Hf Hc.
  - cbn in Hf, Hc. unfold len in Hc. cbn in Hc. assert (cnt = 0) by lia. subst. cbn.
    exists 0, O. rewrite N.add_0_r. replace (index + N.of_nat 0) with index by lia. repeat split; auto.
  - cbn [adv_loop]. destruct (cnt =? 0) eqn:E0.
    + assert (cnt = 0) by lia. subst. exists front, O. rewrite !N.add_0_r. replace (index + N.of_nat 0) with index by lia.
      repeat split; auto.
    + cbn in Hf. destruct (len b <? front) eqn:E1; [lia|].
      destruct (cnt <? len b - front) eqn:E2.
      * exists (front + cnt), O. replace (index + N.of_nat 0) with index by lia. repeat split; auto. cbn. lia.
      * inversion Hne as [|? ? Hb Hr]; subst.
        assert (Hf' : front_ok r 0).
        { destruct r as [|b' r']; cbn; [reflexivity|]. inversion Hr; subst. unfold len. destruct b'; [congruence|cbn; lia]. }
        assert (Hc' : 0 + (cnt - (len b - front)) <= len (concat r)).
        { cbn [concat] in Hc. rewrite len_app in Hc. lia. }
        destruct (IH (cnt - (len b - front)) (total + (len b - front)) 0 (index + 1) Hr Hf' Hc') as (f' & k & A1 & A2 & A3).
        exists f', (S k). split; [|split].
        -- rewrite A1. f_equal. f_equal; [f_equal; lia|lia].
        -- cbn [skipn]. exact A2.
        -- cbn [skipn concat]. rewrite A3. rewrite skipn_app_ge by (unfold len in *; lia).
           f_equal. unfold len in *. lia.
Qed.

Theorem cur_advance_law k c : cur_inv c -> k <= len (cur_view c) ->
  exists c', cur_advance k c = Ok c' /\ cur_inv c' /\
             cur_view c' = skipn (N.to_nat k) (cur_view c) /\
             cur_position c' = cur_position c + k /\ c_bufs c' = c_bufs c.
Proof.
  intros I Hk. pose proof (cur_view_len c I) as L. pose proof (ci_total c I) as T.
  unfold cur_advance. destruct (bl_len (c_bufs c) <? c_total c) eqn:E1; [lia|].
  destruct (bl_len (c_bufs c) - c_total c <? k) eqn:E2; [lia|].
  fold (cur_rest c).
  assert (Hc : c_front c + k <= len (concat (cur_rest c))).
  { unfold cur_view in Hk. rewrite len_skipn in Hk.
    pose proof (ci_front c I) as F. unfold front_ok in F. destruct (cur_rest c) as [|b r] eqn:R.
    - subst. cbn in *. unfold len in *. cbn in *. lia.
    - cbn [concat] in *. rewrite len_app in *. lia. }
  destruct (adv_loop_spec (cur_rest c) k (c_total c) (c_front c) (c_index c)
              (nonempty_skipn _ _ (ci_nonempty c I)) (ci_front c I) Hc) as (f' & j & A1 & A2 & A3).
  rewrite A1. eexists. split; [reflexivity|].
  assert (R' : cur_rest {| c_bufs := c_bufs c; c_total := c_total c + k; c_front := f'; c_index := c_index c + N.of_nat j |}
               = skipn j (cur_rest c)).
  { unfold cur_rest. cbn. rewrite skipn_skipn'. f_equal. lia. }
  assert (V' : cur_view {| c_bufs := c_bufs c; c_total := c_total c + k; c_front := f'; c_index := c_index c + N.of_nat j |}
               = skipn (N.to_nat k) (cur_view c)).
  { unfold cur_view at 1. rewrite R'. cbn [c_front]. rewrite A3. unfold cur_view. rewrite skipn_skipn'. f_equal. lia. }
  split; [|split; [exact V'|split; reflexivity]].
  constructor; cbn [c_bufs c_total c_front c_index].
  - exact (ci_nonempty c I).
  - rewrite R'. exact A2.
  - rewrite V'. rewrite (ci_view c I). rewrite skipn_skipn'. f_equal. lia.
  - lia.
Qed.

(* advancing past the end is the assert, nothing else *)
Theorem cur_advance_past_end k c : cur_inv c -> len (cur_view c) < k -> cur_advance k c = Panic 143.
Proof.
  intros I Hk. pose proof (cur_view_len c I) as L. pose proof (ci_total c I) as T.
  unfold cur_advance. destruct (bl_len (c_bufs c) <? c_total c) eqn:E1; [reflexivity|].
  destruct (bl_len (c_bufs c) - c_total c <? k) eqn:E2; [reflexivity|lia].
Qed.

(* ---------- bytes default methods ---------- *)
Theorem cur_get_u8_law c b tl : cur_inv c -> cur_view c = b :: tl ->
  exists c', cur_get_u8 c = Ok (b, c') /\ cur_inv c' /\ cur_view c' = tl /\ cur_position c' = cur_position c + 1.
Proof.
  intros I V. unfold cur_get_u8. rewrite (cur_remaining_law c I). rewrite V.
  replace (len (b :: tl) <? 1) with false by (unfold len; cbn [length]; lia).
  destruct (cur_chunk_law c I) as (ch & t2 & C1 & C2 & C3); [rewrite V; discriminate|].
  rewrite C1. destruct ch as [|x ch']; [congruence|].
  rewrite V in C3. cbn [app] in C3. injection C3 as Hx Htl. subst x.
  destruct (cur_advance_law 1 c I) as (c' & A1 & A2 & A3 & A4 & _); [rewrite V; unfold len; cbn [length]; lia|].
  rewrite A1. exists c'. split; [reflexivity|]. split; [exact A2|]. split; [|exact A4].
  rewrite A3, V. change (N.to_nat 1) with 1%nat. reflexivity.
Qed.

Theorem cur_get_u8_empty c : cur_inv c -> cur_view c = [] -> cur_get_u8 c = Panic 900.
Proof.
  intros I V. unfold cur_get_u8. rewrite (cur_remaining_law c I), V. reflexivity.
Qed.

Lemma copy_loop_law : forall fuel k c,
  cur_inv c -> k <= len (cur_view c) -> (length (cur_rest c) < fuel)%nat ->
  exists c', copy_loop fuel k c = Ok (firstn (N.to_nat k) (cur_view c), c') /\ cur_inv c' /\
             cur_view c' = skipn (N.to_nat k) (cur_view c) /\ cur_position c' = cur_position c + k.
Proof.
  induction fuel as [|f IH]; intros k c I Hk Hf; [lia|].
  cbn [copy_loop]. destruct (k =? 0) eqn:E0.
  - assert (k = 0) by lia. subst. exists c. cbn. rewrite N.add_0_r. auto.
  - destruct (cur_chunk_law c I) as (ch & tl & C1 & C2 & C3).
    { intros H. rewrite H in Hk. unfold len in Hk. cbn in Hk. lia. }
    rewrite C1.
    assert (Hch : 1 <= len ch) by (unfold len; destruct ch; [congruence|cbn; lia]).
    set (cnt := N.min (len ch) k).
    destruct (cur_advance_law cnt c I) as (c1 & A1 & A2 & A3 & A4 & A5).
    { rewrite C3, len_app. unfold cnt. lia. }
    rewrite A1.
    (* after the advance: either k is used up, or the whole chunk was consumed and the cursor sits on the next buffer *)
    assert (Hk1 : k - cnt <= len (cur_view c1)).
    { rewrite A3, len_skipn. unfold cnt. lia. }
    destruct (N.eq_dec (k - cnt) 0) as [Z|NZ].
    + (* done *)
      assert (Ec : copy_loop f (k - cnt) c1 = Ok ([], c1)).
      { destruct f; cbn [copy_loop]; rewrite Z; reflexivity. }
      rewrite Ec. exists c1. split; [|split; [exact A2|split]].
      * f_equal. f_equal. rewrite app_nil_r. rewrite C3. assert (cnt = k) by (unfold cnt in *; lia).
        rewrite H. rewrite firstn_app. replace (N.to_nat k - length ch)%nat with O by (unfold cnt, len in *; lia).
        cbn. rewrite app_nil_r. reflexivity.
      * rewrite A3. f_equal. unfold cnt in *. lia.
      * rewrite A4. unfold cnt in *. lia.
    + (* the chunk was shorter than k: cnt = len ch, one buffer fewer remains *)
      assert (Hcnt : cnt = len ch) by (unfold cnt in *; lia).
      assert (Hrest : (length (cur_rest c1) < f)%nat).
      { (* view of c1 = tl = concat of the remaining buffers; the cursor moved to the next buffer *)
        clear IH. unfold cur_chunk in C1. rewrite nth_error_skipn_hd in C1. fold (cur_rest c) in C1.
        destruct (cur_rest c) as [|b r] eqn:R; [discriminate|]. cbn [hd_error] in C1.
        destruct (len b <? c_front c); [discriminate|]. inversion C1; subst ch. clear C1.
        (* replay the advance on the known shape *)
        revert A1. unfold cur_advance.
        destruct (bl_len (c_bufs c) <? c_total c); [discriminate|].
        destruct (bl_len (c_bufs c) - c_total c <? cnt); [discriminate|].
        fold (cur_rest c). rewrite R. cbn [adv_loop].
        destruct (cnt =? 0) eqn:Ez; [lia|].
        pose proof (ci_front c I) as F. unfold front_ok in F. rewrite R in F.
        destruct (len b <? c_front c) eqn:E1; [lia|].
        rewrite len_skipn in Hcnt.
        destruct (cnt <? len b - c_front c) eqn:E2; [lia|].
        replace (cnt - (len b - c_front c)) with 0 by lia.
        assert (Ez0 : forall t fr ix, adv_loop r 0 t fr ix = Ok (t, fr, ix)) by (intros; destruct r; reflexivity).
        rewrite Ez0. intros H. inversion H; subst c1. unfold cur_rest. cbn [c_bufs c_index].
        replace (N.to_nat (c_index c + 1)) with (S (N.to_nat (c_index c))) by lia.
        assert (Hs : skipn (S (N.to_nat (c_index c))) (c_bufs c) = r).
        { replace (S (N.to_nat (c_index c))) with (N.to_nat (c_index c) + 1)%nat by lia.
          rewrite <- skipn_skipn'. unfold cur_rest in R. rewrite R. reflexivity. }
        rewrite Hs. unfold cur_rest in Hf. cbn [length] in Hf. lia. }
      destruct (IH (k - cnt) c1 A2 Hk1 Hrest) as (c2 & B1 & B2 & B3 & B4).
      rewrite B1. exists c2. split; [|split; [exact B2|split]].
      * f_equal. f_equal. rewrite A3, C3, Hcnt.
        replace (N.to_nat (len ch)) with (length ch) by (unfold len; lia).
        rewrite firstn_all, skipn_app_ge by lia. replace (length ch - length ch)%nat with O by lia. cbn [skipn].
        replace (N.to_nat k) with (length ch + N.to_nat (k - len ch))%nat by (unfold len in *; lia).
        rewrite firstn_app_2. reflexivity.
      * rewrite B3, A3, skipn_skipn'. f_equal. lia.
      * rewrite B4, A4. lia.
Qed.

Theorem cur_copy_to_slice_law k c : cur_inv c -> k <= len (cur_view c) ->
  exists c', cur_copy_to_slice k c = Ok (firstn (N.to_nat k) (cur_view c), c') /\ cur_inv c' /\
             cur_view c' = skipn (N.to_nat k) (cur_view c) /\ cur_position c' = cur_position c + k.
Proof.
  intros I Hk. unfold cur_copy_to_slice. rewrite (cur_remaining_law c I).
  destruct (len (cur_view c) <? k) eqn:E; [lia|].
  apply copy_loop_law; [exact I|exact Hk|].
  unfold cur_rest. rewrite skipn_length. lia.
Qed.

Theorem cur_copy_to_slice_short k c : cur_inv c -> len (cur_view c) < k -> cur_copy_to_slice k c = Panic 900.
Proof.
  intros I Hk. unfold cur_copy_to_slice. rewrite (cur_remaining_law c I).
  destruct (len (cur_view c) <? k) eqn:E; [reflexivity|lia].
Qed.

(* ---------- VarInt::decode on a cursor = VarInt::decode on the flat view, for every chunking ---------- *)
From H3V Require Import Gen.GenVarint Model.Varint.

Theorem cur_vi_decode_flat c : cur_inv c -> wf_bytes (cur_view c) ->
  fst (cur_vi_decode c) = fst (vi_decode (cur_view c)) /\
  cur_inv (snd (cur_vi_decode c)) /\
  cur_view (snd (cur_vi_decode c)) = snd (vi_decode (cur_view c)) /\
  cur_position (snd (cur_vi_decode c)) = cur_position c + (len (cur_view c) - len (snd (vi_decode (cur_view c)))).
Proof.
  intros I Hwf. unfold cur_vi_decode. rewrite (cur_remaining_law c I).
  destruct (cur_view c) as [|b0 r] eqn:V.
  - change (len [] =? 0) with true. cbv iota. unfold vi_decode. cbn [fst snd].
    split; [reflexivity|]. split; [exact I|]. split; [exact V|]. unfold len; cbn [length]; lia.
  - replace (len (b0 :: r) =? 0) with false by (unfold len; cbn [length]; lia).
    destruct (cur_get_u8_law c b0 r I V) as (c1 & G1 & I1 & V1 & P1). rewrite G1.
    unfold vi_decode.
    destruct (assoc (N.shiftr b0 dec_tag_shift) dec_rows) as [[need [errc [copy total]]]|] eqn:A.
    2:{ cbn [fst snd]. split; [reflexivity|]. split; [exact I1|]. split; [exact V1|].
        rewrite P1. unfold len; cbn [length]; lia. }
    rewrite (cur_remaining_law c1 I1), V1.
    destruct (len r <? need) eqn:E1.
    { cbn [fst snd]. split; [reflexivity|]. split; [exact I1|]. split; [exact V1|].
      rewrite P1. unfold len; cbn [length]; lia. }
    (* the table rows have copy = need (generated fact), so copy <= len r *)
    assert (Hrow : copy <= need).
    { revert A. unfold dec_rows. cbn [assoc].
      repeat match goal with |- context [if ?x =? ?k then _ else _] => destruct (x =? k) end;
        intros H; inversion H; subst; lia. }
    destruct (len r <? copy) eqn:E2; [lia|].
    destruct (cur_copy_to_slice_law copy c1 I1) as (c2 & C1 & I2 & V2 & P2); [rewrite V1; lia|].
    rewrite C1, V1. cbn [fst snd]. split; [reflexivity|]. split; [exact I2|]. split.
    + rewrite V2, V1. reflexivity.
    + rewrite P2, P1, len_skipn. unfold len; cbn [length]. unfold len in *. lia.
Qed.
