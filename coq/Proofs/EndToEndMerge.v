(* C01: body-piece merging on the items of the request-stream layer, and the fact that the RFC reading of
   Spec/EndToEndStream.v is already in merged form. *)
From H3V Require Import Base.Bytes Spec.FrameVocab Spec.Frames Model.EndToEnd Spec.EndToEndStream.

(* the RFC reading is already in merged form *)
Lemma merge_flush_cons acc (x : ritem) l : (forall p, x <> RData p) ->
  merge_items [] (flush_items acc ++ x :: l) = flush_items acc ++ x :: merge_items [] l.
Proof.
  intros Hx. destruct acc as [|a acc']; cbn [flush_items app merge_items].
  - destruct x; try reflexivity. exfalso. eapply Hx. reflexivity.
  - destruct x; try reflexivity. exfalso. eapply Hx. reflexivity.
Qed.

Lemma read_tokens_merged toks tl : forall ph acc,
  merge_items [] (read_tokens ph acc toks tl) = read_tokens ph acc toks tl.
Proof.
  induction toks as [|t toks IH]; intros ph acc.
  - destruct ph; destruct tl; cbn [read_tokens]; try reflexivity;
      try (rewrite merge_flush_cons by (intros; discriminate); reflexivity).
  - destruct ph; destruct t as [f|x]; try destruct f; cbn [read_tokens]; try reflexivity;
      try (rewrite merge_flush_cons by (intros; discriminate); try rewrite IH; reflexivity);
      try apply IH.
    cbn [merge_items flush_items app]. rewrite IH. reflexivity.
Qed.

