From H3V Require Import Base.Bytes Base.BytesLemmas Gen.GenCodes Gen.GenVarint Gen.GenSettings
  Spec.RFC9000 Spec.RFC9114Settings Model.Varint Model.Settings Proofs.VarintProofs Proofs.SettingsLemmas.
From Coq Require Import ZifyBool ZifyNat ZifyN.
Ltac Zify.zify_post_hook ::= Z.div_mod_to_equations.

(* ================= generated facts against the RFC tables ================= *)

Lemma gen_forbidden : forbidden_ids = rfc_reserved_ids.
Proof. reflexivity. Qed.

Lemma gen_supported_perm : forall y, In y supported_ids <-> In y rfc_known_ids.
Proof. intros y. cbn. intuition. Qed.

Lemma gen_supported_length : length supported_ids = 7%nat.
Proof. reflexivity. Qed.

Lemma gen_supported_nonzero : ~ In sid_NONE supported_ids.
Proof. cbn. intuition discriminate. Qed.

Lemma gen_capacity : N.of_nat (length supported_ids) < settings_len.
Proof. vm_compute. reflexivity. Qed.

(* `if buf.remaining() OP k`: a lone byte is refused, two bytes are looked at *)
Lemma dec_short_check n : cmp_eval dec_min_cmp n dec_min = (n <? 2).
Proof. cbv [cmp_eval dec_min_cmp dec_min]. lia. Qed.

Lemma gen_frame_consts :
  frame_type_settings = rfc_frame_type_SETTINGS /\ stream_type_control = rfc_stream_type_control /\
  write_buf_encode_size = 64.
Proof. repeat split; reflexivity. Qed.

Lemma gen_codes :
  code_settings_error = rfc_H3_SETTINGS_ERROR /\ code_setup_error = rfc_H3_INTERNAL_ERROR /\
  code_second_settings = rfc_H3_FRAME_UNEXPECTED.
Proof. repeat split; reflexivity. Qed.

Lemma gen_grease : grease_mul = 31 /\ grease_add = 33 /\ grease_value = 0 /\ grease_first = true /\
  (grease_bound - 1) * grease_mul + grease_add < 2 ^ 62.
Proof. repeat split; vm_compute; reflexivity. Qed.

Lemma gen_cfg_inserts :
  cfg_inserts = [(SETTINGS_MAX_FIELD_SECTION_SIZE, F_mfs); (SETTINGS_ENABLE_CONNECT_PROTOCOL, F_ec);
                 (SETTINGS_ENABLE_WEBTRANSPORT, F_wt); (SETTINGS_H3_DATAGRAM, F_dg);
                 (SETTINGS_WEBTRANSPORT_MAX_SESSIONS, F_wtmax)].
Proof. reflexivity. Qed.

Lemma gen_apply_rows :
  row_of F_mfs apply_rows = Some (SETTINGS_MAX_FIELD_SECTION_SIZE, false) /\
  row_of F_wt apply_rows = Some (SETTINGS_ENABLE_WEBTRANSPORT, true) /\
  row_of F_ec apply_rows = Some (SETTINGS_ENABLE_CONNECT_PROTOCOL, true) /\
  row_of F_dg apply_rows = Some (SETTINGS_H3_DATAGRAM, true) /\
  row_of F_wtmax apply_rows = Some (SETTINGS_WEBTRANSPORT_MAX_SESSIONS, false).
Proof. repeat split; reflexivity. Qed.

Lemma gen_defaults :
  default_field F_mfs = rfc_unlimited /\ default_field F_wt = 0 /\ default_field F_ec = 0 /\
  default_field F_dg = 0 /\ default_field F_wtmax = 0.
Proof. repeat split; reflexivity. Qed.

Lemma mem_rfc_in x l : mem x l = rfc_in x l.
Proof. reflexivity. Qed.

Lemma mem_supported x : mem x supported_ids = rfc_in x rfc_known_ids.
Proof. rewrite mem_rfc_in. apply rfc_in_ext. apply gen_supported_perm. Qed.

Lemma mem_forbidden x : mem x forbidden_ids = rfc_in x rfc_reserved_ids.
Proof. reflexivity. Qed.

(* ================= Settings::insert ================= *)

Lemma has_id_In id s : has_id id s = true <-> In id (map fst s).
Proof.
  unfold has_id. rewrite existsb_exists. split.
  - intros ([i v] & Hin & E). cbn [fst] in E. apply N.eqb_eq in E. subst.
    apply in_map_iff. exists (id, v). split; [reflexivity|exact Hin].
  - intros H. apply in_map_iff in H as ([i v] & E & Hin). cbn [fst] in E. subst.
    exists (id, v). split; [exact Hin|]. cbn [fst]. apply N.eqb_refl.
Qed.

Lemma has_id_false id s : has_id id s = false <-> ~ In id (map fst s).
Proof. rewrite <- has_id_In. destruct (has_id id s); split; intros H; try congruence; try tauto. Qed.

Lemma vi_from_u64_lt x : x < 2 ^ 62 -> vi_from_u64 x = Some x.
Proof. intros H. rewrite vi_from_u64_spec. destruct (N.ltb_spec x (2 ^ 62)); [reflexivity|lia]. Qed.

Lemma vi_from_u64_ge x : 2 ^ 62 <= x -> vi_from_u64 x = None.
Proof. intros H. rewrite vi_from_u64_spec. destruct (N.ltb_spec x (2 ^ 62)); [lia|reflexivity]. Qed.

(* the checks of `insert`, whatever their order in the source *)
Lemma checks_complete :
  In ChkExceeded insert_checks /\ In ChkInvalidSettingValue insert_checks /\ In ChkRepeated insert_checks.
Proof. cbn; tauto. Qed.

Lemma check_exceeded id v s :
  insert_check_fails ChkExceeded id v s = if settings_len <=? elen s then Some Exceeded else None.
Proof. reflexivity. Qed.

Lemma check_not_fuel c id v s e : insert_check_fails c id v s = Some e -> e <> OutOfFuel.
Proof.
  destruct c; cbn [insert_check_fails].
  - destruct (cmp_eval exceeded_cmp (elen s) settings_len); intros E; inversion E; discriminate.
  - destruct (is_none (vi_from_u64 id) || is_none (vi_from_u64 v)); intros E; inversion E; discriminate.
  - destruct (has_id id s); intros E; inversion E; discriminate.
Qed.

Lemma first_failure_none cs id v s :
  first_failure cs id v s = None <-> (forall c, In c cs -> insert_check_fails c id v s = None).
Proof.
  induction cs as [|c cs IH]; cbn [first_failure].
  - split; [intros _ c []|reflexivity].
  - destruct (insert_check_fails c id v s) as [e|] eqn:E.
    + split; [discriminate|]. intros H. rewrite (H c (or_introl eq_refl)) in E. discriminate.
    + rewrite IH. split.
      * intros H c' [<-|Hin]; [exact E|apply H; exact Hin].
      * intros H c' Hin. apply H. right. exact Hin.
Qed.

Lemma first_failure_not_fuel cs id v s e : first_failure cs id v s = Some e -> e <> OutOfFuel.
Proof.
  induction cs as [|c cs IH]; cbn [first_failure]; [discriminate|].
  destruct (insert_check_fails c id v s) as [e'|] eqn:E; [|exact IH].
  intros H. inversion H; subst. eapply check_not_fuel; eassumption.
Qed.

Lemma st_insert_no_panic id v s : is_panic (st_insert id v s) = false.
Proof.
  unfold st_insert. destruct (first_failure insert_checks id v s) as [e|] eqn:E; [reflexivity|].
  destruct checks_complete as (Hx & _).
  pose proof (proj1 (first_failure_none _ _ _ _) E ChkExceeded Hx) as H. rewrite check_exceeded in H.
  destruct (settings_len <=? elen s); [discriminate|reflexivity].
Qed.

Lemma st_insert_err_not_fuel id v s e : st_insert id v s = Err e -> e <> OutOfFuel.
Proof.
  unfold st_insert. destruct (first_failure insert_checks id v s) as [e'|] eqn:E.
  - intros H. inversion H; subst. eapply first_failure_not_fuel; eassumption.
  - destruct (settings_len <=? elen s); discriminate.
Qed.

Lemma st_insert_ok id v s :
  id < 2 ^ 62 -> v < 2 ^ 62 -> elen s < settings_len -> ~ In id (map fst s) ->
  st_insert id v s = Ok (s ++ [(id, v)]).
Proof.
  intros Hid Hv Hl Hn. unfold st_insert.
  assert (Hroom : (settings_len <=? elen s) = false) by (apply N.leb_gt; exact Hl).
  replace (first_failure insert_checks id v s) with (@None st_err).
  - rewrite Hroom. reflexivity.
  - symmetry. apply first_failure_none. intros [] _.
    + rewrite check_exceeded, Hroom. reflexivity.
    + cbn [insert_check_fails]. rewrite (vi_from_u64_lt id Hid), (vi_from_u64_lt v Hv). reflexivity.
    + cbn [insert_check_fails]. apply has_id_false in Hn. rewrite Hn. reflexivity.
Qed.

(* a failing check makes `insert` fail, whichever check reports first *)
Lemma st_insert_refuses c id v s e :
  In c insert_checks -> insert_check_fails c id v s = Some e ->
  exists e', st_insert id v s = Err e' /\ e' <> OutOfFuel.
Proof.
  intros Hin Hc. unfold st_insert.
  destruct (first_failure insert_checks id v s) as [e'|] eqn:E.
  - exists e'. split; [reflexivity|]. eapply first_failure_not_fuel; eassumption.
  - rewrite (proj1 (first_failure_none _ _ _ _) E c Hin) in Hc. discriminate.
Qed.

Lemma st_insert_repeated id v s :
  In id (map fst s) -> exists e, st_insert id v s = Err e /\ e <> OutOfFuel.
Proof.
  intros Hn. destruct checks_complete as (_ & _ & Hr).
  apply (st_insert_refuses ChkRepeated id v s (Repeated id) Hr).
  cbn [insert_check_fails]. apply has_id_In in Hn. rewrite Hn. reflexivity.
Qed.

Lemma st_insert_unencodable id v s :
  2 ^ 62 <= id \/ 2 ^ 62 <= v -> exists e, st_insert id v s = Err e /\ e <> OutOfFuel.
Proof.
  intros Hb. destruct checks_complete as (_ & Hi & _).
  apply (st_insert_refuses ChkInvalidSettingValue id v s (InvalidSettingValue id v) Hi).
  cbn [insert_check_fails].
  destruct Hb as [Hb|Hb]; rewrite (vi_from_u64_ge _ Hb); cbn [is_none orb]; [reflexivity|].
  rewrite orb_true_r. reflexivity.
Qed.

(* ================= Settings::decode ================= *)

Definition step_entry (e : entry) (s : fsettings) : res st_err fsettings :=
  if mem (fst e) forbidden_ids then Err (InvalidSettingId (fst e))
  else if mem (fst e) supported_ids then st_insert (fst e) (snd e) s
  else Ok s.

Fixpoint st_fold (l : list entry) (s : fsettings) : res st_err fsettings :=
  match l with
  | [] => Ok s
  | e :: r =>
      match step_entry e s with
      | Ok s' => st_fold r s'
      | Err x => Err x
      | Panic p => Panic p
      end
  end.

Definition clean_err (r : res st_err fsettings) : Prop := exists e, r = Err e /\ e <> OutOfFuel.

Lemma len_zero_iff (bs : bytes) : (len bs =? 0) = true <-> bs = [].
Proof. unfold len. destruct bs; cbn [length]; split; intros H; try reflexivity; try discriminate; lia. Qed.

(* the loop is the fold of the per-entry step over the reference parse; a cut-short payload is an error *)
Lemma st_decode_loop_parsed fuel : forall buf s,
  wf_bytes buf -> (length buf < fuel)%nat ->
  match rfc_settings buf with
  | Some l => st_decode_loop fuel buf s = st_fold l s
  | None => clean_err (st_decode_loop fuel buf s)
  end.
Proof.
  induction fuel as [|f IH]; intros buf s Hwf Hlen; [lia|].
  cbn [st_decode_loop].
  destruct buf as [|b0 t].
  { rewrite rfc_settings_nil. reflexivity. }
  destruct (len (b0 :: t) =? 0) eqn:Ez; [apply len_zero_iff in Ez; discriminate|].
  rewrite dec_short_check.
  destruct (N.ltb_spec (len (b0 :: t)) 2) as [Hshort|Hlong].
  { (* a single byte: cut short whichever way it is read *)
    assert (t = []) by (destruct t; [reflexivity|unfold len in Hshort; cbn [length] in Hshort; lia]). subst t.
    replace (rfc_settings [b0]) with (@None (list (N * N))).
    - exists Malformed. split; [reflexivity|discriminate].
    - symmetry. destruct (rfc_varint [b0]) as [[id r1]|] eqn:E1.
      + apply (rfc_settings_cut2 _ id r1 E1).
        pose proof (rfc_varint_shorter _ _ _ E1) as L. destruct r1; [reflexivity|cbn [length] in L; lia].
      + apply rfc_settings_cut1; [discriminate|exact E1]. }
  destruct (rfc_varint (b0 :: t)) as [[id r1]|] eqn:E1.
  2:{ rewrite (rfc_settings_cut1 (b0 :: t) ltac:(discriminate) E1).
      destruct (vi_decode_rfc_none _ Hwf E1) as (e & r & ->).
      exists Malformed. split; [reflexivity|discriminate]. }
  rewrite (vi_decode_rfc_some _ _ _ Hwf E1).
  destruct (rfc_varint_wf _ _ _ Hwf E1) as [Hwf1 Hid].
  destruct (rfc_varint r1) as [[v r2]|] eqn:E2.
  2:{ rewrite (rfc_settings_cut2 _ _ _ E1 E2).
      destruct (vi_decode_rfc_none _ Hwf1 E2) as (e & r & ->).
      exists Malformed. split; [reflexivity|discriminate]. }
  rewrite (vi_decode_rfc_some _ _ _ Hwf1 E2).
  destruct (rfc_varint_wf _ _ _ Hwf1 E2) as [Hwf2 Hv].
  rewrite (rfc_settings_step _ _ _ _ _ E1 E2).
  pose proof (rfc_varint_shorter _ _ _ E1) as L1. pose proof (rfc_varint_shorter _ _ _ E2) as L2.
  assert (Hf : (length r2 < f)%nat) by lia.
  destruct (mem id forbidden_ids) eqn:Efb.
  { destruct (rfc_settings r2) as [l|].
    - cbn [st_fold]. unfold step_entry. cbn [fst snd]. rewrite Efb. reflexivity.
    - exists (InvalidSettingId id). split; [reflexivity|discriminate]. }
  destruct (mem id supported_ids) eqn:Esup.
  { destruct (st_insert id v s) as [s'|e|p] eqn:Ei.
    - specialize (IH r2 s' Hwf2 Hf). destruct (rfc_settings r2) as [l|].
      + cbn [st_fold]. unfold step_entry. cbn [fst snd]. rewrite Efb, Esup, Ei. exact IH.
      + exact IH.
    - destruct (rfc_settings r2) as [l|].
      + cbn [st_fold]. unfold step_entry. cbn [fst snd]. rewrite Efb, Esup, Ei. reflexivity.
      + exists e. split; [reflexivity|]. eapply st_insert_err_not_fuel; eassumption.
    - pose proof (st_insert_no_panic id v s) as Hp. rewrite Ei in Hp. discriminate. }
  specialize (IH r2 s Hwf2 Hf). destruct (rfc_settings r2) as [l|].
  - cbn [st_fold]. unfold step_entry. cbn [fst snd]. rewrite Efb, Esup. exact IH.
  - exact IH.
Qed.

(* what the accumulated settings look like while decoding *)
Definition acc_inv (s : fsettings) : Prop :=
  NoDup (map fst s) /\ (forall id, In id (map fst s) -> In id supported_ids) /\ Forall pair_ok s.

Lemma acc_inv_nil : acc_inv [].
Proof. split; [constructor|]. split; [intros id []|constructor]. Qed.

Lemma acc_inv_room s : acc_inv s -> elen s < settings_len.
Proof.
  intros (Hnd & Hsub & _). pose proof gen_capacity as Hc.
  assert (Hl : (length (map fst s) <= length supported_ids)%nat).
  { apply NoDup_incl_length; [exact Hnd|]. intros x Hx. apply Hsub. exact Hx. }
  rewrite map_length in Hl. unfold elen, fsettings, entry in *. lia.
Qed.

Lemma acc_inv_snoc s id v :
  acc_inv s -> ~ In id (map fst s) -> In id supported_ids -> id < 2 ^ 62 -> v < 2 ^ 62 ->
  acc_inv (s ++ [(id, v)]).
Proof.
  intros (Hnd & Hsub & Hok) Hn Hs Hid Hv. unfold acc_inv. rewrite map_app. cbn [map fst].
  split; [|split].
  - apply NoDup_app_snoc; assumption.
  - intros x Hx. apply in_app_or in Hx as [Hx|[<-|[]]]; auto.
  - apply Forall_app. split; [exact Hok|]. constructor; [split; assumption|constructor].
Qed.

Lemma st_fold_char l : forall s,
  acc_inv s -> Forall pair_ok l ->
  let bad := rfc_has_reserved l || rfc_has_dup (map fst s ++ rfc_ids (rfc_known_part l)) in
  (bad = true -> clean_err (st_fold l s)) /\
  (bad = false -> st_fold l s = Ok (s ++ rfc_known_part l)).
Proof.
  induction l as [|[id v] l IH]; intros s Hinv Hok bad.
  - subst bad. cbn [rfc_has_reserved existsb rfc_known_part filter rfc_ids map orb st_fold].
    rewrite !app_nil_r. destruct Hinv as (Hnd & _). apply rfc_has_dup_NoDup in Hnd. rewrite Hnd.
    split; [discriminate|reflexivity].
  - inversion Hok as [|? ? [Hid Hv] Hokl]; subst. cbn [fst snd] in Hid, Hv.
    subst bad. cbn [st_fold]. unfold step_entry. cbn [fst snd].
    unfold rfc_has_reserved, rfc_known_part. cbn [existsb filter fst].
    fold (rfc_has_reserved l). fold (rfc_known_part l).
    change (mem id forbidden_ids) with (rfc_in id rfc_reserved_ids). rewrite (mem_supported id).
    destruct (rfc_in id rfc_reserved_ids) eqn:Er.
    { cbn [orb]. split; [|discriminate]. intros _. exists (InvalidSettingId id). split; [reflexivity|discriminate]. }
    cbn [orb]. destruct (rfc_in id rfc_known_ids) eqn:Ek.
    + cbn [rfc_ids map fst]. fold (rfc_ids (rfc_known_part l)).
      pose proof (acc_inv_room s Hinv) as Hroom.
      destruct (in_dec N.eq_dec id (map fst s)) as [Hin|Hnin].
      * destruct (st_insert_repeated id v s Hin) as (e & -> & Hne).
        rewrite (rfc_has_dup_app_In id _ _ Hin). rewrite orb_true_r.
        split; [|discriminate]. intros _. exists e. split; [reflexivity|exact Hne].
      * rewrite (st_insert_ok id v s Hid Hv Hroom Hnin).
        assert (Hsup : In id supported_ids) by (apply gen_supported_perm; apply rfc_in_In; exact Ek).
        specialize (IH (s ++ [(id, v)]) (acc_inv_snoc s id v Hinv Hnin Hsup Hid Hv) Hokl).
        cbn zeta in IH. rewrite map_app in IH. cbn [map fst] in IH.
        rewrite <- !app_assoc in IH. cbn [app] in IH. exact IH.
    + exact (IH s Hinv Hokl).
Qed.

Lemma rfc_settings_pairs_ok : forall n bs l, (length bs <= n)%nat -> wf_bytes bs -> rfc_settings bs = Some l -> Forall pair_ok l.
Proof.
  induction n as [|n IH]; intros bs l Hn Hwf H.
  - destruct bs; [|cbn in Hn; lia]. inversion H. constructor.
  - destruct bs as [|b0 t]; [inversion H; constructor|].
    destruct (rfc_varint (b0 :: t)) as [[id r1]|] eqn:E1.
    2:{ rewrite (rfc_settings_cut1 (b0 :: t) ltac:(discriminate) E1) in H. discriminate. }
    destruct (rfc_varint_wf _ _ _ Hwf E1) as [Hwf1 Hid].
    destruct (rfc_varint r1) as [[v r2]|] eqn:E2.
    2:{ rewrite (rfc_settings_cut2 _ _ _ E1 E2) in H. discriminate. }
    destruct (rfc_varint_wf _ _ _ Hwf1 E2) as [Hwf2 Hv].
    rewrite (rfc_settings_step _ _ _ _ _ E1 E2) in H.
    pose proof (rfc_varint_shorter _ _ _ E1). pose proof (rfc_varint_shorter _ _ _ E2).
    destruct (rfc_settings r2) as [l'|] eqn:E3; [|discriminate]. inversion H; subst.
    constructor; [split; assumption|]. apply (IH r2); [cbn [length] in *; lia|exact Hwf2|exact E3].
Qed.

(* ---------- From<&frame::Settings> ---------- *)

Lemma st_get_known id s : id <> sid_NONE -> st_get id s = assoc id s.
Proof.
  intros Hne. unfold st_get, st_array, fsettings, entry in *.
  destruct get_scans_all; [|reflexivity].
  destruct (assoc id s) as [v|] eqn:E.
  - apply assoc_app_some. exact E.
  - rewrite assoc_app_none by exact E. apply assoc_repeat_ne. exact Hne.
Qed.

Lemma st_get_known_part id l :
  rfc_in id rfc_known_ids = true -> st_get id (rfc_known_part l) = assoc id l.
Proof.
  intros Hk. rewrite st_get_known.
  - unfold rfc_known_part. apply (assoc_filter_key (fun k => rfc_in k rfc_known_ids)). exact Hk.
  - intros ->. vm_compute in Hk. discriminate.
Qed.

Definition flag_ok (a : N) (o : option N) : Prop := forall b, o = Some b -> a = b.
Definition applied_ok (a : applied) (r : rfc_applied) : Prop :=
  a_mfs a = r_max_field_section_size r /\ flag_ok (a_wt a) (r_enable_webtransport r) /\
  flag_ok (a_ec a) (r_enable_connect_protocol r) /\ flag_ok (a_dg a) (r_h3_datagram r) /\
  a_wtmax a = r_webtransport_max_sessions r.

Lemma flag_ok_value v : flag_ok (if v =? 0 then 0 else 1) (rfc_flag v).
Proof.
  intros b. unfold rfc_flag. destruct (v =? 0); [intros E; inversion E; reflexivity|].
  destruct (v =? 1); [intros E; inversion E; reflexivity|discriminate].
Qed.

Lemma apply_settings_spec l : applied_ok (apply_settings (rfc_known_part l)) (rfc_apply l).
Proof.
  destruct gen_apply_rows as (R1 & R2 & R3 & R4 & R5).
  unfold applied_ok, apply_settings, rfc_apply, applied_field, rfc_value.
  cbn [a_mfs a_wt a_ec a_dg a_wtmax r_max_field_section_size r_enable_webtransport
       r_enable_connect_protocol r_h3_datagram r_webtransport_max_sessions].
  rewrite R1, R2, R3, R4, R5.
  rewrite !st_get_known_part by reflexivity.
  split; [|split; [|split; [|split]]].
  - destruct (assoc SETTINGS_MAX_FIELD_SECTION_SIZE l); reflexivity.
  - destruct (assoc SETTINGS_ENABLE_WEBTRANSPORT l); [apply flag_ok_value|exact (flag_ok_value 0)].
  - destruct (assoc SETTINGS_ENABLE_CONNECT_PROTOCOL l); [apply flag_ok_value|exact (flag_ok_value 0)].
  - destruct (assoc SETTINGS_H3_DATAGRAM l); [apply flag_ok_value|exact (flag_ok_value 0)].
  - destruct (assoc SETTINGS_WEBTRANSPORT_MAX_SESSIONS l); reflexivity.
Qed.

Lemma default_applied_spec : applied_ok default_applied rfc_defaults.
Proof. repeat split; intros b E; vm_compute in E; inversion E; reflexivity. Qed.

(* ---------- T3: decode = reference parser + receive rules ---------- *)
Theorem st_decode_spec payload :
  wf_bytes payload ->
  match rfc_receive payload with
  | RxTruncated | RxSettingsError => clean_err (st_decode payload)
  | RxApply known a => st_decode payload = Ok known /\ applied_ok (apply_settings known) a
  end.
Proof.
  intros Hwf. unfold rfc_receive, st_decode.
  pose proof (st_decode_loop_parsed (S (length payload)) payload [] Hwf ltac:(lia)) as Hloop.
  destruct (rfc_settings payload) as [l|] eqn:El; [|exact Hloop].
  rewrite Hloop.
  pose proof (rfc_settings_pairs_ok (length payload) payload l ltac:(lia) Hwf El) as Hok.
  destruct (st_fold_char l [] acc_inv_nil Hok) as [Hbad Hgood]. cbn [map app] in Hbad, Hgood.
  unfold rfc_has_repeated_known.
  destruct (rfc_has_reserved l || rfc_has_dup (rfc_ids (rfc_known_part l))) eqn:Eb.
  - apply Hbad. reflexivity.
  - split; [apply Hgood; reflexivity|apply apply_settings_spec].
Qed.

(* which error when: kept for the record, the property only needs "an error" *)
Lemma st_decode_no_panic payload : wf_bytes payload -> is_panic (st_decode payload) = false.
Proof.
  intros Hwf. pose proof (st_decode_spec payload Hwf) as H.
  destruct (rfc_receive payload); try (destruct H as (e & -> & _); reflexivity).
  destruct H as [-> _]. reflexivity.
Qed.

(* ---------- Frame::decode around it ---------- *)
Lemma vi_decode_type4 r : vi_decode (frame_type_settings :: r) = (Ok 4, r).
Proof.
  unfold frame_type_settings, vi_decode, dec_tag_shift, dec_mask.
  change (N.shiftr 4 6) with 0. change (N.land 4 63) with 4. cbn [assoc dec_rows].
  change (0 =? 0) with true. cbv iota beta.
  destruct (N.ltb_spec (len r) 0) as [H|_]; [lia|].
  change (N.to_nat 0) with 0%nat. change (N.to_nat 1) with 1%nat.
  cbn [firstn skipn app]. reflexivity.
Qed.

Theorem frame_decode_settings lenenc payload rest :
  wf_bytes lenenc -> wf_bytes payload -> wf_bytes rest ->
  rfc_varint (lenenc ++ payload ++ rest) = Some (len payload, payload ++ rest) ->
  frame_decode (rfc_frame_type_SETTINGS :: lenenc ++ payload ++ rest) =
    match st_decode payload with
    | Ok s => FrSettings s rest
    | Err e => FrSettingsError e
    | Panic p => FrPanic p
    end.
Proof.
  intros Hl Hp Hr Hv. unfold frame_decode. change rfc_frame_type_SETTINGS with frame_type_settings.
  rewrite vi_decode_type4. change (4 =? frame_type_settings) with true. cbn [negb].
  assert (Hwf : wf_bytes (lenenc ++ payload ++ rest)).
  { apply wf_bytes_app; split; [exact Hl|]. apply wf_bytes_app; split; assumption. }
  rewrite (vi_decode_rfc_some _ _ _ Hwf Hv).
  destruct (N.ltb_spec (len (payload ++ rest)) (len payload)) as [Hc|_].
  { rewrite len_app in Hc. lia. }
  unfold len. rewrite Nat2N.id, firstn_app_exact, skipn_app_exact. reflexivity.
Qed.

(* ---------- the peer-settings cell ---------- *)
Theorem recv_first_settings lenenc payload rest :
  wf_bytes lenenc -> wf_bytes payload -> wf_bytes rest ->
  rfc_varint (lenenc ++ payload ++ rest) = Some (len payload, payload ++ rest) ->
  let fr := frame_decode (rfc_frame_type_SETTINGS :: lenenc ++ payload ++ rest) in
  match rfc_receive payload with
  | RxTruncated | RxSettingsError => on_control_frame fr init_peer = Err rfc_H3_SETTINGS_ERROR
  | RxApply _ a =>
      exists st, on_control_frame fr init_peer = Ok st /\ got_peer_settings st = true /\
                 applied_ok (settings_view st) a /\
                 (* a second SETTINGS frame is refused and nothing is re-applied *)
                 (forall s r, on_control_frame (FrSettings s r) st = Err rfc_H3_FRAME_UNEXPECTED)
  end.
Proof.
  intros Hl Hp Hr Hv fr. subst fr. rewrite (frame_decode_settings _ _ _ Hl Hp Hr Hv).
  pose proof (st_decode_spec payload Hp) as H.
  destruct (rfc_receive payload) as [| |known a].
  - destruct H as (e & -> & _). reflexivity.
  - destruct H as (e & -> & _). reflexivity.
  - destruct H as [-> Ha]. eexists. split; [reflexivity|]. cbn [got_peer_settings]. split; [reflexivity|].
    split; [exact Ha|]. intros s r. reflexivity.
Qed.

Theorem defaults_until_settings : applied_ok (settings_view init_peer) rfc_defaults.
Proof. exact default_applied_spec. Qed.

(* ================= sending: Settings::len / encode, the control-stream header ================= *)

Lemma vsize_ok x : x < 2 ^ 62 -> vsize x = Ok (len (rfc_vi x)).
Proof.
  intros Hx. unfold vsize. rewrite (vi_from_u64_lt x Hx), (vi_size_shortest x Hx), rfc_vi_len_eq. reflexivity.
Qed.

Lemma st_len_from_ok s : forall acc, Forall pair_ok s ->
  st_len_from acc s = Ok (acc + len (rfc_settings_payload s)).
Proof.
  induction s as [|[id v] s IH]; intros acc Hok; cbn [st_len_from rfc_settings_payload].
  - unfold len. cbn [length]. f_equal. lia.
  - inversion Hok as [|? ? [Hid Hv] Hs]; subst. cbn [fst snd] in *.
    rewrite (vsize_ok id Hid), (vsize_ok v Hv). cbn [res_bind]. rewrite (IH _ Hs).
    rewrite !len_app. f_equal. lia.
Qed.

Lemma write_var_ok cap x w :
  x < 2 ^ 62 -> len w + len (rfc_vi x) <= cap -> write_var cap x w = Ok (w ++ rfc_vi x).
Proof.
  intros Hx Hc. unfold write_var, put. rewrite (vi_from_u64_lt x Hx), (vi_encode_rfc x Hx).
  destruct (N.ltb_spec cap (len w + len (rfc_vi x))); [lia|reflexivity].
Qed.

Lemma write_var_overflow cap x w :
  x < 2 ^ 62 -> cap < len w + len (rfc_vi x) -> write_var cap x w = Panic 43.
Proof.
  intros Hx Hc. unfold write_var, put. rewrite (vi_from_u64_lt x Hx), (vi_encode_rfc x Hx).
  destruct (N.ltb_spec cap (len w + len (rfc_vi x))); [reflexivity|lia].
Qed.

Lemma encode_entries_ok cap s : forall w, Forall pair_ok s ->
  len w + len (rfc_settings_payload s) <= cap ->
  encode_entries cap s w = Ok (w ++ rfc_settings_payload s).
Proof.
  induction s as [|[id v] s IH]; intros w Hok Hc; cbn [encode_entries rfc_settings_payload] in *.
  - rewrite app_nil_r. reflexivity.
  - inversion Hok as [|? ? [Hid Hv] Hs]; subst. cbn [fst snd] in *.
    rewrite !len_app in Hc.
    rewrite (write_var_ok cap id w Hid) by lia. cbn [res_bind].
    rewrite (write_var_ok cap v _ Hv) by (rewrite len_app; lia). cbn [res_bind].
    rewrite IH; [|exact Hs|rewrite !len_app; lia].
    rewrite <- !app_assoc. reflexivity.
Qed.

(* any Settings value made of encodable pairs is written as the RFC lays a control stream out,
   provided the buffer is large enough *)
Theorem control_header_encode_ok cap s :
  Forall pair_ok s -> len (rfc_settings_payload s) < 2 ^ 62 ->
  len (rfc_control_stream_start s) <= cap ->
  control_header_encode cap s [] = Ok (rfc_control_stream_start s).
Proof.
  intros Hok Hpl Hc. unfold rfc_control_stream_start, rfc_settings_frame in *.
  rewrite !len_app in Hc.
  unfold control_header_encode, st_encode, st_len.
  change stream_type_control with rfc_stream_type_control.
  change frame_type_settings with rfc_frame_type_SETTINGS.
  rewrite (write_var_ok cap rfc_stream_type_control []) by (try reflexivity; change (len []) with 0; lia).
  cbn [res_bind app].
  rewrite (write_var_ok cap rfc_frame_type_SETTINGS) by (try reflexivity; lia). cbn [res_bind].
  rewrite (st_len_from_ok s 0 Hok). cbn [res_bind]. rewrite N.add_0_l.
  rewrite (write_var_ok cap (len (rfc_settings_payload s))) by (try assumption; rewrite len_app; lia).
  cbn [res_bind].
  rewrite encode_entries_ok; [|exact Hok|rewrite !len_app; lia].
  rewrite <- !app_assoc. reflexivity.
Qed.

(* ================= TryFrom<Config> ================= *)

Definition config_pairs (g : N) (c : config) : list (N * N) :=
  (if c_grease c then [(31 * g + 33, 0)] else []) ++
  rfc_config_pairs (c_mfs c) (c_wt c) (c_ec c) (c_dg c) (c_wtmax c).

Lemma b2n_small b : b2n b < 2 ^ 62.
Proof. destruct b; vm_compute; reflexivity. Qed.

Lemma grease_id_eq g : grease_id g = 31 * g + 33.
Proof. unfold grease_id, grease_mul, grease_add. lia. Qed.

Lemma grease_id_range g : g < grease_bound -> 31 * g + 33 < 2 ^ 62.
Proof. unfold grease_bound. change (2 ^ 62) with 4611686018427387904. lia. Qed.

Lemma grease_is_grease g : rfc_is_grease (31 * g + 33) = true.
Proof.
  unfold rfc_is_grease. apply andb_true_iff. split; [apply N.leb_le; lia|].
  apply N.eqb_eq. replace (31 * g + 33 - 33) with (g * 31) by lia. apply N.mod_mul. discriminate.
Qed.

Lemma grease_not_known_or_reserved id :
  rfc_is_grease id = true -> rfc_in id rfc_known_ids = false /\ rfc_in id rfc_reserved_ids = false.
Proof.
  unfold rfc_is_grease. intros H. apply andb_true_iff in H as [H1 H2].
  apply N.leb_le in H1. apply N.eqb_eq in H2.
  split; apply rfc_in_false; cbn; unfold SETTINGS_QPACK_MAX_TABLE_CAPACITY, SETTINGS_MAX_FIELD_SECTION_SIZE,
    SETTINGS_QPACK_BLOCKED_STREAMS, SETTINGS_ENABLE_CONNECT_PROTOCOL, SETTINGS_H3_DATAGRAM,
    SETTINGS_ENABLE_WEBTRANSPORT, SETTINGS_WEBTRANSPORT_MAX_SESSIONS; intros Hin;
    repeat (destruct Hin as [Hin|Hin]; [subst id; try lia; vm_compute in H2; discriminate|]); exact Hin.
Qed.

Ltac step_insert :=
  match goal with
  | |- context [st_insert ?id ?v ?s] =>
      rewrite (st_insert_ok id v s);
      [cbn [res_bind app]
      | try assumption; try apply b2n_small; try (vm_compute; reflexivity)
      | try assumption; try apply b2n_small; try (vm_compute; reflexivity)
      | vm_compute; reflexivity
      | ]
  end.

Theorem cfg_to_settings_ok g c :
  g < grease_bound -> c_mfs c < 2 ^ 62 -> c_wtmax c < 2 ^ 62 ->
  cfg_to_settings g c = Ok (config_pairs g c).
Proof.
  intros Hg Hm Hw. pose proof (grease_id_range g Hg) as Hgr.
  unfold cfg_to_settings, grease_first, grease_step, config_pairs, rfc_config_pairs.
  rewrite gen_cfg_inserts. rewrite grease_id_eq.
  unfold SETTINGS_MAX_FIELD_SECTION_SIZE, SETTINGS_ENABLE_CONNECT_PROTOCOL, SETTINGS_ENABLE_WEBTRANSPORT,
    SETTINGS_H3_DATAGRAM, SETTINGS_WEBTRANSPORT_MAX_SESSIONS.
  destruct (c_grease c).
  - rewrite (st_insert_ok (31 * g + 33) grease_value []);
      [|exact Hgr|vm_compute; reflexivity|vm_compute; reflexivity|intros []].
    cbn [res_bind app cfg_insert_all cfg_value].
    step_insert; [|cbn [map fst]; intros [H|[]]; lia].
    step_insert; [|cbn [map fst]; intros [H|[H|[]]]; lia].
    step_insert; [|cbn [map fst]; intros [H|[H|[H|[]]]]; lia].
    step_insert; [|cbn [map fst]; intros [H|[H|[H|[H|[]]]]]; lia].
    step_insert; [|cbn [map fst]; intros [H|[H|[H|[H|[H|[]]]]]]; lia].
    reflexivity.
  - cbn [res_bind app cfg_insert_all cfg_value].
    step_insert; [|intros []].
    step_insert; [|cbn [map fst]; intros [H|[]]; lia].
    step_insert; [|cbn [map fst]; intros [H|[H|[]]]; lia].
    step_insert; [|cbn [map fst]; intros [H|[H|[H|[]]]]; lia].
    step_insert; [|cbn [map fst]; intros [H|[H|[H|[H|[]]]]]; lia].
    reflexivity.
Qed.

(* a u64 field of 2^62 or more: the conversion fails cleanly at that insert *)
Theorem cfg_to_settings_err g c :
  g < grease_bound -> 2 ^ 62 <= c_mfs c \/ 2 ^ 62 <= c_wtmax c ->
  exists e, cfg_to_settings g c = Err e.
Proof.
  intros Hg Hbig. pose proof (grease_id_range g Hg) as Hgr.
  unfold cfg_to_settings, grease_first, grease_step.
  rewrite gen_cfg_inserts. rewrite grease_id_eq.
  unfold SETTINGS_MAX_FIELD_SECTION_SIZE, SETTINGS_ENABLE_CONNECT_PROTOCOL, SETTINGS_ENABLE_WEBTRANSPORT,
    SETTINGS_H3_DATAGRAM, SETTINGS_WEBTRANSPORT_MAX_SESSIONS.
  destruct (N.lt_ge_cases (c_mfs c) (2 ^ 62)) as [Hm|Hm].
  - assert (Hw : 2 ^ 62 <= c_wtmax c) by (destruct Hbig; [lia|assumption]).
    destruct (c_grease c).
    + rewrite (st_insert_ok (31 * g + 33) grease_value []);
        [|exact Hgr|vm_compute; reflexivity|vm_compute; reflexivity|intros []].
      cbn [res_bind app cfg_insert_all cfg_value].
      step_insert; [|cbn [map fst]; intros [H|[]]; lia].
      step_insert; [|cbn [map fst]; intros [H|[H|[]]]; lia].
      step_insert; [|cbn [map fst]; intros [H|[H|[H|[]]]]; lia].
      step_insert; [|cbn [map fst]; intros [H|[H|[H|[H|[]]]]]; lia].
      match goal with |- context [st_insert ?i ?x ?t] =>
        destruct (st_insert_unencodable i x t (or_intror Hw)) as (e & -> & _) end.
      exists e. reflexivity.
    + cbn [res_bind app cfg_insert_all cfg_value].
      step_insert; [|intros []].
      step_insert; [|cbn [map fst]; intros [H|[]]; lia].
      step_insert; [|cbn [map fst]; intros [H|[H|[]]]; lia].
      step_insert; [|cbn [map fst]; intros [H|[H|[H|[]]]]; lia].
      match goal with |- context [st_insert ?i ?x ?t] =>
        destruct (st_insert_unencodable i x t (or_intror Hw)) as (e & -> & _) end.
      exists e. reflexivity.
  - destruct (c_grease c).
    + rewrite (st_insert_ok (31 * g + 33) grease_value []);
        [|exact Hgr|vm_compute; reflexivity|vm_compute; reflexivity|intros []].
      cbn [res_bind app cfg_insert_all cfg_value].
      match goal with |- context [st_insert ?i ?x ?t] =>
        destruct (st_insert_unencodable i x t (or_intror Hm)) as (e & -> & _) end.
      exists e. reflexivity.
    + cbn [res_bind app cfg_insert_all cfg_value].
      match goal with |- context [st_insert ?i ?x ?t] =>
        destruct (st_insert_unencodable i x t (or_intror Hm)) as (e & -> & _) end.
      exists e. reflexivity.
Qed.

Lemma config_pairs_ok g c :
  g < grease_bound -> c_mfs c < 2 ^ 62 -> c_wtmax c < 2 ^ 62 -> Forall pair_ok (config_pairs g c).
Proof.
  intros Hg Hm Hw. pose proof (grease_id_range g Hg) as Hgr.
  unfold config_pairs, rfc_config_pairs.
  assert (Hb : forall b, rfc_b2n b < 2 ^ 62) by (intros []; vm_compute; reflexivity).
  apply Forall_app. split.
  - destruct (c_grease c); repeat constructor; cbn [fst snd]; try assumption; try (vm_compute; reflexivity).
  - repeat constructor; cbn [fst snd]; try assumption; try apply Hb; try (vm_compute; reflexivity).
Qed.

Lemma config_pairs_nodup g c : NoDup (rfc_ids (config_pairs g c)).
Proof.
  unfold config_pairs, rfc_config_pairs, rfc_ids.
  unfold SETTINGS_MAX_FIELD_SECTION_SIZE, SETTINGS_ENABLE_CONNECT_PROTOCOL, SETTINGS_ENABLE_WEBTRANSPORT,
    SETTINGS_H3_DATAGRAM, SETTINGS_WEBTRANSPORT_MAX_SESSIONS.
  destruct (c_grease c); cbn [map fst app];
    repeat (constructor; [cbn [In]; intros Hin;
      repeat (destruct Hin as [Hin|Hin]; [try lia; try discriminate|]); exact Hin|]); constructor.
Qed.

Lemma config_pairs_no_reserved g c : rfc_has_reserved (config_pairs g c) = false.
Proof.
  unfold config_pairs, rfc_has_reserved. rewrite existsb_app.
  apply orb_false_iff. split; [|reflexivity].
  destruct (c_grease c); [|reflexivity]. cbn [existsb fst]. rewrite orb_false_r.
  apply (grease_not_known_or_reserved _ (grease_is_grease g)).
Qed.

Lemma len_b2n b : len (rfc_vi (rfc_b2n b)) = 1.
Proof. destruct b; reflexivity. Qed.

Lemma config_payload_len g c : len (rfc_settings_payload (config_pairs g c)) <= 39.
Proof.
  unfold config_pairs, rfc_config_pairs.
  assert (Hrest : len (rfc_settings_payload
            [(SETTINGS_MAX_FIELD_SECTION_SIZE, c_mfs c); (SETTINGS_ENABLE_CONNECT_PROTOCOL, rfc_b2n (c_ec c));
             (SETTINGS_ENABLE_WEBTRANSPORT, rfc_b2n (c_wt c)); (SETTINGS_H3_DATAGRAM, rfc_b2n (c_dg c));
             (SETTINGS_WEBTRANSPORT_MAX_SESSIONS, c_wtmax c)]) <= 30).
  { cbn [rfc_settings_payload]. rewrite !len_app. rewrite !len_b2n.
    change (len (rfc_vi SETTINGS_MAX_FIELD_SECTION_SIZE)) with 1.
    change (len (rfc_vi SETTINGS_ENABLE_CONNECT_PROTOCOL)) with 1.
    change (len (rfc_vi SETTINGS_ENABLE_WEBTRANSPORT)) with 4.
    change (len (rfc_vi SETTINGS_H3_DATAGRAM)) with 1.
    change (len (rfc_vi SETTINGS_WEBTRANSPORT_MAX_SESSIONS)) with 4.
    change (len []) with 0.
    pose proof (rfc_vi_len_bounds (c_mfs c)). pose proof (rfc_vi_len_bounds (c_wtmax c)). lia. }
  destruct (c_grease c); cbn [app]; [|lia].
  cbn [rfc_settings_payload] in *. rewrite !len_app in *. change (len (rfc_vi 0)) with 1.
  pose proof (rfc_vi_len_bounds (31 * g + 33)). lia.
Qed.

Lemma control_start_shape l :
  len (rfc_settings_payload l) < 64 ->
  rfc_control_stream_start l = 0 :: 4 :: len (rfc_settings_payload l) :: rfc_settings_payload l.
Proof.
  intros H. unfold rfc_control_stream_start, rfc_settings_frame.
  rewrite (rfc_vi_small (len (rfc_settings_payload l)) H). reflexivity.
Qed.

(* T1: every configuration whose two integer fields are encodable sets up cleanly; the control stream
   starts with exactly 00, one SETTINGS frame carrying the configured pairs *)
Theorem setup_control_ok g c :
  g < grease_bound -> c_mfs c < 2 ^ 62 -> c_wtmax c < 2 ^ 62 ->
  let pairs := config_pairs g c in
  let payload := rfc_settings_payload pairs in
  setup_control g c = Ok {| wb_hdr := 0 :: 4 :: len payload :: payload; wb_pos := 0 |} /\
  0 :: 4 :: len payload :: payload = rfc_control_stream_start pairs /\
  len (0 :: 4 :: len payload :: payload) <= 42 /\
  wf_bytes payload /\
  rfc_settings payload = Some pairs /\ NoDup (rfc_ids pairs) /\ rfc_has_reserved pairs = false.
Proof.
  intros Hg Hm Hw pairs payload.
  pose proof (config_pairs_ok g c Hg Hm Hw) as Hok.
  pose proof (config_payload_len g c) as Hlen. fold pairs in Hok, Hlen. fold payload in Hlen.
  assert (Hshape : rfc_control_stream_start pairs = 0 :: 4 :: len payload :: payload).
  { apply control_start_shape. fold payload. lia. }
  assert (Htot : len (0 :: 4 :: len payload :: payload) <= 42).
  { unfold len in *. cbn [length]. lia. }
  split; [|split; [symmetry; exact Hshape|split; [exact Htot|split; [apply rfc_settings_payload_wf|
    split; [apply rfc_settings_payload_parses; exact Hok|split;
      [apply config_pairs_nodup|apply config_pairs_no_reserved]]]]]].
  unfold setup_control. rewrite (cfg_to_settings_ok g c Hg Hm Hw). fold pairs.
  unfold writebuf_control. rewrite control_header_encode_ok.
  - rewrite Hshape. reflexivity.
  - exact Hok.
  - fold payload. change (2 ^ 62) with 4611686018427387904. lia.
  - rewrite Hshape. unfold write_buf_encode_size. lia.
Qed.

(* T2: a field that is not an encodable varint: a clean connection error, no panic *)
Theorem setup_control_err g c :
  g < grease_bound -> 2 ^ 62 <= c_mfs c \/ 2 ^ 62 <= c_wtmax c ->
  setup_control g c = Err rfc_H3_INTERNAL_ERROR.
Proof.
  intros Hg Hbig. destruct (cfg_to_settings_err g c Hg Hbig) as (e & E).
  unfold setup_control. rewrite E. reflexivity.
Qed.

Theorem setup_control_total g c :
  g < grease_bound ->
  match setup_control g c with
  | Ok _ => c_mfs c < 2 ^ 62 /\ c_wtmax c < 2 ^ 62
  | Err code => code = rfc_H3_INTERNAL_ERROR /\ (2 ^ 62 <= c_mfs c \/ 2 ^ 62 <= c_wtmax c)
  | Panic _ => False
  end.
Proof.
  intros Hg.
  destruct (N.lt_ge_cases (c_mfs c) (2 ^ 62)) as [Hm|Hm]; [destruct (N.lt_ge_cases (c_wtmax c) (2 ^ 62)) as [Hw|Hw]|].
  - destruct (setup_control_ok g c Hg Hm Hw) as [-> _]. split; assumption.
  - rewrite (setup_control_err g c Hg (or_intror Hw)). split; [reflexivity|right; exact Hw].
  - rewrite (setup_control_err g c Hg (or_introl Hm)). split; [reflexivity|left; exact Hm].
Qed.

(* ================= what an h3 peer makes of it (send then receive) ================= *)

Lemma rfc_known_part_config g c :
  rfc_known_part (config_pairs g c) = rfc_config_pairs (c_mfs c) (c_wt c) (c_ec c) (c_dg c) (c_wtmax c).
Proof.
  unfold config_pairs, rfc_known_part. rewrite filter_app.
  replace (filter _ (if c_grease c then [(31 * g + 33, 0)] else [])) with (@nil (N * N)).
  - reflexivity.
  - destruct (c_grease c); [|reflexivity]. cbn [filter fst].
    destruct (grease_not_known_or_reserved _ (grease_is_grease g)) as [-> _]. reflexivity.
Qed.

Theorem setup_roundtrip g c :
  g < grease_bound -> c_mfs c < 2 ^ 62 -> c_wtmax c < 2 ^ 62 ->
  let payload := rfc_settings_payload (config_pairs g c) in
  exists s, st_decode payload = Ok s /\
    apply_settings s = {| a_mfs := c_mfs c; a_wt := b2n (c_wt c); a_ec := b2n (c_ec c);
                          a_dg := b2n (c_dg c); a_wtmax := c_wtmax c |}.
Proof.
  intros Hg Hm Hw payload.
  pose proof (st_decode_spec payload (rfc_settings_payload_wf _)) as H.
  unfold rfc_receive in H. unfold payload in H.
  rewrite (rfc_settings_payload_parses _ (config_pairs_ok g c Hg Hm Hw)) in H.
  rewrite config_pairs_no_reserved in H. cbn [orb] in H.
  unfold rfc_has_repeated_known in H. rewrite rfc_known_part_config in H.
  change (rfc_has_dup (rfc_ids (rfc_config_pairs (c_mfs c) (c_wt c) (c_ec c) (c_dg c) (c_wtmax c)))) with false in H.
  destruct H as [Hd _]. eexists. split; [exact Hd|].
  destruct gen_apply_rows as (R1 & R2 & R3 & R4 & R5).
  unfold apply_settings, applied_field. rewrite R1, R2, R3, R4, R5.
  rewrite !st_get_known by discriminate.
  unfold rfc_config_pairs, SETTINGS_MAX_FIELD_SECTION_SIZE, SETTINGS_ENABLE_CONNECT_PROTOCOL,
    SETTINGS_ENABLE_WEBTRANSPORT, SETTINGS_H3_DATAGRAM, SETTINGS_WEBTRANSPORT_MAX_SESSIONS.
  cbn [assoc]. cbv beta iota.
  repeat match goal with |- context [?a =? ?b] =>
    match a with
    | rfc_b2n _ => fail 1
    | _ => let r := eval vm_compute in (a =? b) in change (a =? b) with r
    end end.
  cbv beta iota.
  destruct (c_wt c), (c_ec c), (c_dg c); reflexivity.
Qed.

(* ================= the transport drains the WriteBuf: any pattern of chunk()/advance() ================= *)

Definition wb_inv (b : writebuf) : Prop := wb_pos b <= len (wb_hdr b).
Definition wb_view (b : writebuf) : bytes := skipn (N.to_nat (wb_pos b)) (wb_hdr b).

Theorem wb_consume_exact ks : forall b, wb_inv b ->
  exists out b', wb_consume ks b = Ok (out, b') /\ out ++ wb_view b' = wb_view b /\ wb_inv b' /\
                 wb_remaining b = Ok (len (wb_view b)).
Proof.
  induction ks as [|k ks IH]; intros b Hinv; unfold wb_inv in *.
  - exists [], b. repeat split; auto. unfold wb_remaining, wb_view.
    destruct (N.ltb_spec (len (wb_hdr b)) (wb_pos b)); [lia|]. f_equal. unfold len. rewrite skipn_length. lia.
  - cbn [wb_consume]. unfold wb_chunk, wb_advance.
    destruct (N.ltb_spec (len (wb_hdr b)) (wb_pos b)) as [Hc|_]; [lia|]. cbn [res_bind].
    set (c := skipn (N.to_nat (wb_pos b)) (wb_hdr b)).
    assert (Hlc : len c = len (wb_hdr b) - wb_pos b) by (unfold c, len; rewrite skipn_length; lia).
    set (n := N.min k (len c)).
    set (b1 := {| wb_hdr := wb_hdr b;
                  wb_pos := if 0 <? len (wb_hdr b) - wb_pos b then wb_pos b + N.min n (len (wb_hdr b) - wb_pos b)
                            else wb_pos b |}).
    assert (Hpos1 : wb_pos b1 = wb_pos b + n).
    { unfold b1. cbn [wb_pos]. destruct (N.ltb_spec 0 (len (wb_hdr b) - wb_pos b)); unfold n in *; lia. }
    assert (Hinv1 : wb_pos b1 <= len (wb_hdr b1)).
    { rewrite Hpos1. unfold b1. cbn [wb_hdr]. unfold n. lia. }
    destruct (IH b1 Hinv1) as (out & b' & Hrun & Hcat & Hinv' & _).
    rewrite Hrun. cbn [res_bind fst snd].
    exists (firstn (N.to_nat n) c ++ out), b'. split; [reflexivity|]. split; [|split; [exact Hinv'|]].
    + rewrite <- app_assoc, Hcat. unfold wb_view. rewrite Hpos1. unfold b1. cbn [wb_hdr].
      fold (wb_view b). change (wb_view b) with c.
      replace (N.to_nat (wb_pos b + n)) with (N.to_nat (wb_pos b) + N.to_nat n)%nat by lia.
      rewrite <- skipn_skipn'. fold c. apply firstn_skipn.
    + unfold wb_remaining, wb_view.
      destruct (N.ltb_spec (len (wb_hdr b)) (wb_pos b)); [lia|]. f_equal. fold c. lia.
Qed.

(* ================= the builders ================= *)

Definition opt_of (s : setter) : opt :=
  match s with S_mfs => O_mfs | S_grease => O_grease | S_wt => O_wt | S_ec => O_ec | S_dg => O_dg | S_wtmax => O_wtmax end.
Definition cfg_opt (c : config) (o : opt) : N :=
  match o with
  | O_mfs => c_mfs c | O_grease => b2n (c_grease c) | O_wt => b2n (c_wt c) | O_ec => b2n (c_ec c)
  | O_dg => b2n (c_dg c) | O_wtmax => c_wtmax c
  end.
Definition opts_of (r : role) : list opt := match r with RClient => client_opts | RServer => server_opts end.
(* a call the builder's API admits: the setter exists there; a bool argument is 0 or 1, a u64 argument any u64 *)
Definition call_ok (r : role) (call : setter * N) : Prop :=
  In (opt_of (fst call)) (opts_of r) /\
  match fst call with S_mfs | S_wtmax => snd call < 2 ^ 64 | _ => snd call = 0 \/ snd call = 1 end.
Definition opt_call (call : setter * N) : opt * N := (opt_of (fst call), snd call).

Lemma apply_call_step r c call o :
  call_ok r call ->
  cfg_opt (apply_call r c call) o = if opt_n (opt_of (fst call)) =? opt_n o then snd call else cfg_opt c o.
Proof.
  destruct call as [s v]. intros [Hin Hv]. cbn [fst snd] in *. destruct c.
  destruct r, s; cbn in Hin; try (exfalso; intuition discriminate);
    try (destruct Hv as [-> | ->]); destruct o; vm_compute; try reflexivity;
    match goal with |- context [match ?b with true => _ | false => _ end] => destruct b; reflexivity end.
Qed.

Lemma builder_fold r o calls : forall c,
  Forall (call_ok r) calls ->
  cfg_opt (fold_left (apply_call r) calls c) o =
  fold_left (fun acc call => if opt_n (fst call) =? opt_n o then snd call else acc) (map opt_call calls) (cfg_opt c o).
Proof.
  induction calls as [|call calls IH]; intros c Hok; [reflexivity|].
  inversion Hok; subst. cbn [fold_left map]. rewrite IH by assumption.
  rewrite apply_call_step by assumption. reflexivity.
Qed.

Lemma default_config_opts o : cfg_opt default_config o = opt_default o.
Proof. destruct o; reflexivity. Qed.

(* every setter sets its own option and nothing else, in whatever order and however often they are called *)
Theorem builder_config_spec r calls o :
  Forall (call_ok r) calls -> cfg_opt (builder_config r calls) o = opt_value (map opt_call calls) o.
Proof.
  intros Hok. unfold builder_config, opt_value. rewrite builder_fold by assumption.
  rewrite default_config_opts. reflexivity.
Qed.

(* the clause "for every configuration the builders accept, setup completes" read with accept = "the setters
   take the value": refuted, a u64 of 2^62 or more is taken by the setter and setup answers with an error *)
Theorem setup_completes_refuted :
  exists r calls g, g < grease_bound /\ Forall (call_ok r) calls /\
    setup_control g (builder_config r calls) = Err rfc_H3_INTERNAL_ERROR.
Proof.
  exists RServer, [(S_mfs, 2 ^ 62)], 0. split; [reflexivity|]. split.
  - constructor; [|constructor]. split; [cbn; tauto|]. cbn [fst snd]. reflexivity.
  - vm_compute. reflexivity.
Qed.

(* ================= two SETTINGS frames in one delivery ================= *)
Theorem recv_second_settings lenenc1 payload1 lenenc2 payload2 rest known a s2 :
  wf_bytes lenenc1 -> wf_bytes payload1 -> wf_bytes lenenc2 -> wf_bytes payload2 -> wf_bytes rest ->
  let frame2 := rfc_frame_type_SETTINGS :: lenenc2 ++ payload2 ++ rest in
  rfc_varint (lenenc1 ++ payload1 ++ frame2) = Some (len payload1, payload1 ++ frame2) ->
  rfc_varint (lenenc2 ++ payload2 ++ rest) = Some (len payload2, payload2 ++ rest) ->
  rfc_receive payload1 = RxApply known a -> st_decode payload2 = Ok s2 ->
  forall fuel, recv_control (S (S fuel)) (rfc_frame_type_SETTINGS :: lenenc1 ++ payload1 ++ frame2) init_peer
               = Err rfc_H3_FRAME_UNEXPECTED.
Proof.
  intros Hl1 Hp1 Hl2 Hp2 Hr frame2 Hv1 Hv2 Hrx Hd2 fuel.
  assert (Hwf2 : wf_bytes frame2).
  { unfold frame2. apply wf_bytes_cons. split; [vm_compute; reflexivity|].
    apply wf_bytes_app; split; [assumption|]. apply wf_bytes_app; split; assumption. }
  cbn [recv_control].
  rewrite (frame_decode_settings lenenc1 payload1 frame2 Hl1 Hp1 Hwf2 Hv1).
  pose proof (st_decode_spec payload1 Hp1) as H1. rewrite Hrx in H1. destruct H1 as [-> _].
  cbn [on_control_frame init_peer got_peer_settings].
  unfold frame2 at 1. cbv iota beta.
  unfold frame2. rewrite (frame_decode_settings lenenc2 payload2 rest Hl2 Hp2 Hr Hv2). rewrite Hd2.
  reflexivity.
Qed.

(* building does not touch the builder: a second connection gets the first configuration plus the later calls *)
Theorem build_twice_spec r calls1 calls2 o :
  Forall (call_ok r) calls1 -> Forall (call_ok r) calls2 ->
  cfg_opt (fst (build_twice r calls1 calls2)) o = opt_value (map opt_call calls1) o /\
  cfg_opt (snd (build_twice r calls1 calls2)) o = opt_value (map opt_call (calls1 ++ calls2)) o.
Proof.
  intros H1 H2. unfold build_twice, builder_build. cbn [fst snd]. split.
  - apply builder_config_spec. exact H1.
  - replace (fold_left (apply_call r) calls2 (builder_config r calls1)) with (builder_config r (calls1 ++ calls2)).
    + apply builder_config_spec. apply Forall_app. split; assumption.
    + unfold builder_config. apply fold_left_app.
Qed.
