(* Bit-string lemmas for C15: bits_msb, bits_val, bits_of_bytes, strip, all_ones. *)
From H3V Require Import Base.Bytes Base.BytesLemmas Spec.RFC7541Huffman.
From Coq Require Import ZifyBool ZifyNat ZifyN.
Ltac Zify.zify_post_hook ::= Z.div_mod_to_equations.

Lemma bits_msb_length n x : length (bits_msb n x) = n.
Proof. induction n as [|n IH]; cbn [bits_msb length]; auto. Qed.

Lemma bits_msb_succ n x : bits_msb (S n) x = N.testbit x (N.of_nat n) :: bits_msb n x.
Proof. reflexivity. Qed.

(* only the n low bits matter *)
Lemma bits_msb_mod n : forall x, bits_msb n (x mod 2 ^ N.of_nat n) = bits_msb n x.
Proof.
  assert (H : forall m k x, (k <= m)%nat -> bits_msb k (x mod 2 ^ N.of_nat m) = bits_msb k x).
  { intros m k. induction k as [|k IH]; intros x Hle; [reflexivity|].
    cbn [bits_msb]. rewrite IH by lia. f_equal.
    apply N.mod_pow2_bits_low. lia. }
  intros x. apply H. lia.
Qed.

Lemma bits_msb_ext n x y : x mod 2 ^ N.of_nat n = y mod 2 ^ N.of_nat n -> bits_msb n x = bits_msb n y.
Proof. intros H. rewrite <- (bits_msb_mod n x), <- (bits_msb_mod n y), H. reflexivity. Qed.

(* skipping the o most significant of n bits *)
Lemma skipn_bits_msb o : forall n x, (o <= n)%nat -> skipn o (bits_msb n x) = bits_msb (n - o) x.
Proof.
  induction o as [|o IH]; intros n x Hle.
  - rewrite Nat.sub_0_r. reflexivity.
  - destruct n as [|n]; [lia|]. cbn [bits_msb skipn]. rewrite IH by lia. reflexivity.
Qed.

(* the l most significant of m bits *)
Lemma firstn_bits_msb l : forall m x, (l <= m)%nat ->
  firstn l (bits_msb m x) = bits_msb l (x / 2 ^ N.of_nat (m - l)).
Proof.
  induction l as [|l IH]; intros m x Hle; [reflexivity|].
  destruct m as [|m]; [lia|]. cbn [bits_msb firstn]. rewrite IH by lia.
  replace (S m - S l)%nat with (m - l)%nat by lia. f_equal.
  rewrite N.div_pow2_bits. f_equal. lia.
Qed.

Lemma bits_val_acc b : forall acc, bits_val acc b = acc * 2 ^ N.of_nat (length b) + bits_val 0 b.
Proof.
  induction b as [|x b IH]; intros acc.
  - cbn. lia.
  - cbn [bits_val length]. rewrite IH. rewrite (IH (2 * 0 + _)).
    rewrite Nat2N.inj_succ, N.pow_succ_r'. destruct x; lia.
Qed.

Lemma bits_val_app a b : bits_val 0 (a ++ b) = bits_val 0 a * 2 ^ N.of_nat (length b) + bits_val 0 b.
Proof.
  assert (H : forall acc, bits_val acc (a ++ b) = bits_val (bits_val acc a) b).
  { induction a as [|x a IH]; intros acc; cbn [app bits_val]; auto. }
  rewrite H. apply bits_val_acc.
Qed.

Lemma bits_val_bound b : bits_val 0 b < 2 ^ N.of_nat (length b).
Proof.
  induction b as [|x b IH].
  - cbn. lia.
  - cbn [bits_val length]. rewrite bits_val_acc. rewrite Nat2N.inj_succ, N.pow_succ_r'.
    destruct x; lia.
Qed.

Lemma testbit_b2n_pow (x : bool) n v : v < 2 ^ n ->
  N.testbit ((if x then 1 else 0) * 2 ^ n + v) n = x.
Proof.
  intros Hv. rewrite N.testbit_eqb.
  replace (((if x then 1 else 0) * 2 ^ n + v) / 2 ^ n) with (if x then 1 else 0 : N).
  - destruct x; reflexivity.
  - apply N.div_unique with v; [assumption|lia].
Qed.

Lemma bits_val_msb n : forall x, bits_val 0 (bits_msb n x) = x mod 2 ^ N.of_nat n.
Proof.
  induction n as [|n IH]; intros x.
  - cbn. rewrite N.mod_1_r. reflexivity.
  - cbn [bits_msb bits_val]. rewrite bits_val_acc, IH, bits_msb_length.
    rewrite Nat2N.inj_succ, N.pow_succ_r'.
    rewrite N.testbit_eqb.
    set (P := 2 ^ N.of_nat n).
    assert (HP : 0 < P) by (apply N.neq_0_lt_0, N.pow_nonzero; lia).
    rewrite (N.mul_comm 2 P), N.mod_mul_r by lia.
    pose proof (N.mod_upper_bound (x / P) 2 ltac:(lia)) as Hub.
    set (t := (x / P) mod 2) in *. set (u := x mod P).
    destruct (N.eqb_spec t 1) as [H1|H1]; [rewrite H1; lia|].
    assert (H0 : t = 0) by lia. rewrite H0. lia.
Qed.

(* a bit string is the msb-first expansion of its value *)
Lemma bits_msb_val b : bits_msb (length b) (bits_val 0 b) = b.
Proof.
  induction b as [|x b IH]; [reflexivity|].
  cbn [length bits_msb bits_val]. rewrite bits_val_acc.
  replace (2 * 0 + (if x then 1 else 0)) with (if x then 1 else 0 : N) by (destruct x; lia).
  rewrite testbit_b2n_pow by apply bits_val_bound. f_equal.
  transitivity (bits_msb (length b) (bits_val 0 b)); [|exact IH]. apply bits_msb_ext.
  rewrite N.add_comm, N.mod_add by (apply N.pow_nonzero; lia). reflexivity.
Qed.

Lemma bits_msb_of_val c b : length b = c -> bits_msb c (bits_val 0 b) = b.
Proof. intros <-. apply bits_msb_val. Qed.

(* ---------- byte strings as bit strings ---------- *)

Lemma bits_of_bytes_cons b r : bits_of_bytes (b :: r) = bits_msb 8 b ++ bits_of_bytes r.
Proof. reflexivity. Qed.

Lemma bits_of_bytes_app a b : bits_of_bytes (a ++ b) = bits_of_bytes a ++ bits_of_bytes b.
Proof. unfold bits_of_bytes. apply flat_map_app. Qed.

Lemma bits_of_bytes_length a : length (bits_of_bytes a) = (8 * length a)%nat.
Proof.
  induction a as [|x a IH]; [reflexivity|].
  rewrite bits_of_bytes_cons, app_length, bits_msb_length, IH. cbn [length]. lia.
Qed.

Lemma skipn_bits_of_bytes pre l : skipn (8 * length pre) (bits_of_bytes (pre ++ l)) = bits_of_bytes l.
Proof.
  rewrite bits_of_bytes_app. rewrite <- bits_of_bytes_length. apply skipn_app_exact.
Qed.

Lemma firstn_bits_of_bytes pre l : firstn (8 * length pre) (bits_of_bytes (pre ++ l)) = bits_of_bytes pre.
Proof.
  rewrite bits_of_bytes_app. rewrite <- bits_of_bytes_length. apply firstn_app_exact.
Qed.

(* splitting a list at an index *)
Lemma nth_error_split_at {A} (l : list A) (i : nat) x :
  nth_error l i = Some x -> l = firstn i l ++ x :: skipn (S i) l /\ length (firstn i l) = i.
Proof.
  revert l. induction i as [|i IH]; intros l H; destruct l as [|y l]; try discriminate.
  - cbn in H. inversion H. split; reflexivity.
  - cbn [nth_error] in H. destruct (IH l H) as [H1 H2].
    cbn [firstn skipn app length]. split; [f_equal; exact H1|f_equal; exact H2].
Qed.

Lemma nth_error_lt_some {A} (l : list A) (i : nat) : (i < length l)%nat -> exists x, nth_error l i = Some x.
Proof.
  intros H. destruct (nth_error l i) eqn:E; [eauto|]. apply nth_error_None in E. lia.
Qed.

(* ---------- all_ones / repeat ---------- *)

Lemma all_ones_app a b : all_ones (a ++ b) = all_ones a && all_ones b.
Proof. unfold all_ones. apply forallb_app. Qed.

Lemma all_ones_repeat k : all_ones (repeat true k) = true.
Proof. induction k; cbn; auto. Qed.

Lemma all_ones_eq_repeat l : all_ones l = true -> l = repeat true (length l).
Proof.
  induction l as [|x l IH]; intros H; [reflexivity|].
  cbn in H. apply andb_true_iff in H as [Hx Hl]. subst x. cbn [length repeat]. f_equal. auto.
Qed.

Lemma all_ones_skipn n l : all_ones l = true -> all_ones (skipn n l) = true.
Proof.
  intros H. rewrite <- (firstn_skipn n l), all_ones_app in H. apply andb_true_iff in H. tauto.
Qed.

Lemma all_ones_firstn n l : all_ones l = true -> all_ones (firstn n l) = true.
Proof.
  intros H. rewrite <- (firstn_skipn n l), all_ones_app in H. apply andb_true_iff in H. tauto.
Qed.

Lemma repeat_app_plus {A} (x : A) a b : repeat x (a + b) = repeat x a ++ repeat x b.
Proof. induction a; cbn; [reflexivity|f_equal; auto]. Qed.

(* ---------- strip ---------- *)

Lemma strip_spec p : forall l rest, strip p l = Some rest <-> l = p ++ rest.
Proof.
  induction p as [|x p IH]; intros l rest.
  - cbn. split; [intros H; inversion H; reflexivity|intros ->; reflexivity].
  - destruct l as [|y l]; cbn [strip app].
    + split; [discriminate|intros H; discriminate].
    + destruct (Bool.eqb x y) eqn:E.
      * apply Bool.eqb_prop in E. subst y. rewrite IH. split; [intros ->; reflexivity|intros H; inversion H; reflexivity].
      * split; [discriminate|]. intros H. inversion H. subst. rewrite Bool.eqb_reflx in E. discriminate.
Qed.

Lemma strip_app p rest : strip p (p ++ rest) = Some rest.
Proof. apply strip_spec. reflexivity. Qed.

(* two prefixes of the same string are comparable *)
Lemma prefixes_comparable (a : bits) : forall b r1 r2, a ++ r1 = b ++ r2 ->
  (exists t, b = a ++ t) \/ (exists t, a = b ++ t).
Proof.
  induction a as [|x a IH]; intros b r1 r2 H.
  - left. exists b. reflexivity.
  - destruct b as [|y b].
    + right. exists (x :: a). reflexivity.
    + cbn [app] in H. inversion H as [[Hxy Hrest]]. subst y.
      destruct (IH b r1 r2 Hrest) as [[t ->]|[t ->]]; [left|right]; exists t; reflexivity.
Qed.
