(* A byte-granular delivery schedule is an instruction-granular one: every theorem about sys_run transfers to brun. *)
From H3V Require Import Base.Bytes Model.Vas Model.DynTable Model.QInstr Model.QEncoder Model.QDecoder Model.QSystem Model.QWire Model.QBytes
  Proofs.QSystemProofs Proofs.QAgreementProofs Proofs.QAccountingProofs.

Definition honest_bop (o : bop) : bool := match o with BOp o' => honest_op o' | _ => true end.

Lemma bop_op_honest b o : honest_bop o = true -> honest_op (fst (fst (bop_op b o))) = true.
Proof.
  destruct o as [o'|n|n]; cbn [honest_bop bop_op].
  - destruct o'; cbn [fst]; auto.
  - intros _. destruct (complete_within wire_einstr _ _). reflexivity.
  - intros _. destruct (complete_within wire_dinstr _ _). reflexivity.
Qed.

Theorem brun_is_sys_run os : forall b,
  b_sys (fst (brun b os)) = fst (sys_run (b_sys b) (bops_ops b os)) /\
  snd (brun b os) = snd (sys_run (b_sys b) (bops_ops b os)) /\
  (forallb honest_bop os = true -> forallb honest_op (bops_ops b os) = true).
Proof.
  induction os as [|o r IH]; intros b; [repeat split|].
  cbn [brun bops_ops]. pose proof (bop_op_honest b o) as Hh. unfold bstep in *.
  destruct (bop_op b o) as [[o' ep] dp] eqn:Eo. cbn [fst] in Hh.
  cbn [sys_run]. destruct (sys_step (b_sys b) o') as [s' x] eqn:Es. cbn [fst].
  destruct (IH (mkBsys s' ep dp)) as (A & B & C). cbn [b_sys] in *.
  destruct (brun (mkBsys s' ep dp) r) as [b2 xs]. destruct (sys_run s' (bops_ops (mkBsys s' ep dp) r)) as [s2 ys].
  cbn [fst snd] in *. repeat split; [assumption | congruence |].
  cbn [forallb]. intros H. apply andb_true_iff in H. destruct H as [H1 H2]. rewrite (Hh H1), (C H2). reflexivity.
Qed.

(* agreement for byte-granular schedules *)
Theorem bsys_agreement :
  forall cap blocked s os b' j sec,
    sys_init cap blocked = Some s -> forallb honest_bop os = true -> fst (brun (mkBsys s 0 0) os) = b' ->
    v_inserted (dt_vas (s_enc (b_sys b'))) < 2 ^ 62 ->
    nth_error (s_secs (b_sys b')) j = Some sec -> sec_done sec = false ->
    dec_decode_header (s_dec (b_sys b')) (sec_block sec) =
      if v_inserted (dt_vas (s_dec (b_sys b'))) <? sec_required sec then Err (DEMissingRefs (sec_required sec))
      else Ok (sec_fields sec, 0 <? sec_required sec).
Proof.
  intros cap blocked s os b' j sec Hi Hh <- Hlim Hj Hd.
  destruct (brun_is_sys_run os (mkBsys s 0 0)) as (A & _ & C). cbn [b_sys] in A.
  rewrite A in *. eapply sys_agreement; try eassumption; [apply C; assumption | reflexivity].
Qed.
