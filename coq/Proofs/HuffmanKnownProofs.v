(* C15: the executable form of the known-finding class (used by the model driver for the digest
   families of the thorough tier) is the class LongOnes of Spec/HuffmanKnown.v. *)
From H3V Require Import Base.Bytes Base.BytesLemmas Spec.RFC7541Huffman Spec.HuffmanKnown
  Proofs.C15Finite Proofs.BitsLemmas Proofs.HuffmanWalk Proofs.HuffmanStrict.
From Coq Require Import ZifyBool ZifyNat ZifyN.
Ltac Zify.zify_post_hook ::= Z.div_mod_to_equations.

Lemma sym_table_length : length sym_code_table = 256%nat.
Proof. vm_compute. reflexivity. Qed.

Lemma nth_firstn_lt {A} (l : list A) d : forall n i, (i < n)%nat -> nth i (firstn n l) d = nth i l d.
Proof.
  induction l as [|x l IH]; intros n i Hi; [rewrite firstn_nil; reflexivity|].
  destruct n as [|n]; [lia|]. destruct i as [|i]; [reflexivity|]. cbn [firstn nth]. apply IH. lia.
Qed.

Lemma sym_table_nth i : (i < 256)%nat -> nth i sym_code_table [] = code_bits (N.of_nat i).
Proof.
  intros Hi. unfold sym_code_table, code_bits. rewrite nth_firstn_lt by assumption.
  rewrite Nat2N.id. reflexivity.
Qed.

Lemma match_sym_found x rest : x < 256 ->
  match_code sym_code_table 0 (code_bits x ++ rest) = Some (x, rest).
Proof.
  intros Hx.
  rewrite (match_code_some_first sym_code_table 0 _ (N.to_nat x) rest).
  - f_equal. f_equal. lia.
  - pose proof sym_table_length as HL. unfold bits in HL. rewrite HL. lia.
  - rewrite sym_table_nth by lia. rewrite N2Nat.id. reflexivity.
  - intros j r' Hj Hl. pose proof sym_table_length as HL. unfold bits in HL. rewrite HL in Hj.
    rewrite sym_table_nth in Hl by lia. unfold code_bits in Hl. rewrite Nat2N.id in Hl.
    apply (rfc_row_unique (code_bits x ++ rest) (N.to_nat x) j rest r'); [lia|lia|reflexivity|exact Hl].
Qed.

Lemma match_sym_spec l x rest : match_code sym_code_table 0 l = Some (x, rest) ->
  x < 256 /\ l = code_bits x ++ rest.
Proof.
  intros H. destruct (match_code_spec _ _ _ _ _ H) as (_ & Hlt & Hl).
  pose proof sym_table_length as HL. unfold bits in *. rewrite HL in Hlt. rewrite N.sub_0_r in *.
  rewrite sym_table_nth in Hl by lia. rewrite N2Nat.id in Hl. split; [lia|exact Hl].
Qed.

(* greedy_split always returns a decomposition *)
Lemma greedy_split_sound fuel : forall l s rest, greedy_split fuel l = (s, rest) ->
  wf_bytes s /\ l = codes s ++ rest.
Proof.
  induction fuel as [|f IH]; intros l s rest H; cbn [greedy_split] in H.
  - inversion H; subst. split; [constructor|reflexivity].
  - destruct (match_code sym_code_table 0 l) as [[x r]|] eqn:Hm.
    + destruct (greedy_split f r) as [out r'] eqn:Hg. inversion H; subst.
      destruct (match_sym_spec _ _ _ Hm) as [Hx Hl]. destruct (IH _ _ _ Hg) as [Hwf Hr].
      split; [apply wf_bytes_cons; split; assumption|].
      rewrite codes_cons, <- app_assoc, <- Hr. exact Hl.
    + inversion H; subst. split; [constructor|reflexivity].
Qed.

(* on codes followed by (fewer than 64) ones it returns exactly that decomposition *)
Lemma greedy_split_complete s : forall fuel pad, wf_bytes s -> all_ones pad = true -> (length pad < 64)%nat ->
  (length (codes s ++ pad) < fuel)%nat -> greedy_split fuel (codes s ++ pad) = (s, pad).
Proof.
  induction s as [|x s IH]; intros fuel pad Hwf Hones Hlen Hfuel.
  - destruct fuel as [|f]; [lia|]. cbn [codes flat_map app greedy_split].
    pose proof (forall_below_spec 64 _ sym_table_ones_check (N.of_nat (length pad)) ltac:(lia)) as Hn.
    cbv beta in Hn. rewrite Nat2N.id, <- (all_ones_eq_repeat pad Hones) in Hn.
    destruct (match_code sym_code_table 0 pad); [discriminate|reflexivity].
  - destruct fuel as [|f]; [lia|]. apply wf_bytes_cons in Hwf as [Hx Hwf]. unfold wf_byte in Hx.
    rewrite codes_cons, <- app_assoc. cbn [greedy_split]. rewrite match_sym_found by assumption.
    rewrite (IH f pad Hwf Hones Hlen); [reflexivity|].
    rewrite codes_cons, <- app_assoc, app_length in Hfuel. pose proof (code_bits_len x ltac:(lia)). lia.
Qed.

Theorem long_ones_b_spec bs : long_ones_b bs = true <-> LongOnes bs.
Proof.
  unfold long_ones_b, long_ones_split. split.
  - destruct (greedy_split _ _) as [s pad] eqn:Hg. intros H.
    apply andb_true_iff in H as [H H3]. apply andb_true_iff in H as [H1 H2].
    apply Nat.leb_le in H2, H3. destruct (greedy_split_sound _ _ _ _ Hg) as [Hwf Hl].
    exists s, pad. repeat split; assumption.
  - intros (s & pad & Hwf & Hl & Hones & Hlen). rewrite Hl.
    rewrite greedy_split_complete; [|assumption|assumption|lia|rewrite <- Hl, bits_of_bytes_length; lia].
    rewrite Hones. destruct (Nat.leb_spec 8 (length pad)); [|lia]. destruct (Nat.leb_spec (length pad) 37); [|lia].
    reflexivity.
Qed.

Theorem long_ones_result_spec bs : LongOnes bs -> LongOnesResult bs (long_ones_result bs).
Proof.
  intros (s & pad & Hwf & Hl & Hones & Hlen). unfold long_ones_result, long_ones_split. rewrite Hl.
  rewrite greedy_split_complete; [|assumption|assumption|lia|rewrite <- Hl, bits_of_bytes_length; lia].
  cbn [fst]. exists pad. rewrite <- Hl. repeat split; assumption || lia.
Qed.
