(* C01: the field-section law over the C11 model: decode_stateless (encode_stateless fs) = fs, the block consists of
   bytes and fits a HEADERS frame.  From C11's stateless_roundtrip and encode_stateless_length. *)
From H3V Require Import Base.Bytes Base.BytesLemmas Spec.FieldSize Model.QpackStateless Proofs.QpackEncodeProofs
  Proofs.QpackRoundtrip Spec.WellFormed Proofs.HeadersProofs Model.EndToEnd Spec.EndToEndSpec Model.EndToEndLayers
  Proofs.EndToEndRefProofs.
From Coq Require Import ZifyBool ZifyNat ZifyN.
Ltac Zify.zify_post_hook ::= Z.div_mod_to_equations.

Lemma small_fields fs : wf_fields fs -> section_size fs < 2 ^ 26 -> Forall small_field fs.
Proof.
  induction fs as [|f fs IH]; intros Hwf Hs; [constructor|].
  inversion Hwf as [|? ? [Hn Hv] Hwf']; subst. cbn [section_size] in Hs. unfold field_size in Hs.
  constructor; [|apply IH; [exact Hwf'|lia]].
  unfold small_field. repeat split; try assumption; lia.
Qed.

Theorem c11_section_law fs b :
  fields_ok fs -> c11_encode_section fs = Some b -> block_ok b /\ c11_decode_section b = Some fs.
Proof.
  intros [Hwf Hfit] H. unfold section_fits in Hfit.
  pose proof (small_fields fs Hwf Hfit) as Hsm.
  destruct (stateless_roundtrip fs Hsm) as (bs & He & Hw & Hd & _).
  unfold c11_encode_section in H. rewrite He in H. inversion H; subst b.
  assert (Hwff : Forall QpackEncodeProofs.wf_field fs).
  { eapply Forall_impl; [|exact Hsm]. intros f. apply small_field_wf. }
  pose proof (encode_stateless_length fs bs _ Hwff He) as Hl.
  split.
  - split; [exact Hw|]. change (2 ^ 62) with 4611686018427387904. change (2 ^ 26) with 67108864 in Hfit. lia.
  - unfold c11_decode_section. rewrite Hd. reflexivity.
Qed.

(* ---------- the default field-section limit (config.rs `impl Default for Settings`, read by translate/gen_msgpath.py)
   is the largest varint: with nothing configured no field section the theorems speak about is refused, by the sender
   (which assumes the default of a peer whose SETTINGS it has not seen yet) or by the receiver ---------- *)
From H3V Require Import Gen.GenMsgPath.
Lemma default_limit_unbounded : default_max_field_section_size = 2 ^ 62 - 1.
Proof. reflexivity. Qed.
Lemma default_limit_admits fs : section_fits fs -> section_size fs <= default_max_field_section_size.
Proof.
  unfold section_fits. rewrite default_limit_unbounded. change (2 ^ 62 - 1) with 4611686018427387903.
  change (2 ^ 26) with 67108864. lia.
Qed.
