(* T4, last part: acknowledgement accounting.  While a section has not been decoded by an honest decoder its references
   are counted in the encoder's track_map (so its entries are in the table), and the encoder never evicts an entry the
   decoder has not received - for histories of encodes, deliveries, decodes and feedback deliveries (no cancellation). *)
From H3V Require Import Base.Bytes Base.BytesLemmas Gen.GenQpack Gen.GenStatic Model.Vas Model.DynTable Model.QInstr Model.QEncoder
  Model.QDecoder Model.QSystem Proofs.VasProofs Proofs.QPrefixProofs Proofs.AMapLemmas Proofs.DynTableProofs Proofs.QEncoderProofs
  Proofs.QSystemProofs Proofs.QSimulationProofs Proofs.QDenotationProofs Proofs.QAgreementProofs.
From Coq Require Import ZifyBool ZifyN ZifyNat.
Ltac Zify.zify_post_hook ::= Z.div_mod_to_equations.

(* ghost view of an emitted section: the references committed with it, and whether the encoder has released them *)
Record gsec := mkG { g_sec : section; g_rs : refs; g_popped : bool }.

Definition g_sid (x : gsec) : N := sec_sid (g_sec x).
Definition g_done (x : gsec) : bool := sec_done (g_sec x).

(* references still held, per absolute index *)
Fixpoint tot (a : N) (xs : list gsec) : N :=
  match xs with
  | [] => 0
  | x :: r => (if g_popped x then 0 else cnt a (g_rs x)) + tot a r
  end.

(* the not yet released sections of one stream, oldest first *)
Definition np (sid : N) (xs : list gsec) : list gsec :=
  filter (fun x => (g_sid x =? sid) && negb (g_popped x)) xs.
Definition qof (sid : N) (xs : list gsec) : list refs := map g_rs (np sid xs).

(* done sections come first *)
Fixpoint done_prefix (l : list gsec) : Prop :=
  match l with
  | [] => True
  | x :: r => (g_done x = true /\ done_prefix r) \/ Forall (fun y => g_done y = false) (x :: r)
  end.
Fixpoint ndone (l : list gsec) : N :=
  match l with [] => 0 | x :: r => (if g_done x then 1 else 0) + ndone r end.

Definition is_ack (sid : N) (i : dinstr) : bool := match i with DAck s => s =? sid | _ => false end.
Fixpoint nacks (sid : N) (l : list dinstr) : N :=
  match l with [] => 0 | i :: r => (if is_ack sid i then 1 else 0) + nacks sid r end.
Definition no_cancel (i : dinstr) : Prop := match i with DCancel _ => False | _ => True end.

Lemma nacks_app sid a b : nacks sid (a ++ b) = nacks sid a + nacks sid b.
Proof. induction a as [|i r IH]; cbn [app nacks]; [lia | rewrite IH; lia]. Qed.

Lemma tot_app a xs ys : tot a (xs ++ ys) = tot a xs + tot a ys.
Proof. induction xs as [|x r IH]; cbn [app tot]; [lia | rewrite IH; lia]. Qed.

Lemma np_app sid xs ys : np sid (xs ++ ys) = np sid xs ++ np sid ys.
Proof. unfold np. apply filter_app. Qed.

Lemma done_prefix_head l : done_prefix l -> 1 <= ndone l -> exists x r, l = x :: r /\ g_done x = true /\ done_prefix r.
Proof.
  destruct l as [|x r]; cbn [done_prefix ndone]; [lia|]. intros [[Hd Hp] | Hall] Hn.
  - exists x, r. auto.
  - exfalso. assert (K : forall l, Forall (fun y => g_done y = false) l -> ndone l = 0).
    { induction l as [|y l IH]; intros F; cbn [ndone]; [reflexivity|]. inversion F; subst. rewrite H1, IH by assumption. reflexivity. }
    pose proof (K _ Hall) as K0. cbn [ndone] in K0. lia.
Qed.

Lemma done_prefix_snoc l x : done_prefix l -> g_done x = false -> done_prefix (l ++ [x]).
Proof.
  induction l as [|y r IH]; intros Hp Hx; cbn [app done_prefix].
  - right. constructor; [assumption | constructor].
  - destruct Hp as [[Hd Hp] | Hall].
    + left. split; [assumption | apply IH; assumption].
    + right. change (y :: r ++ [x]) with ((y :: r) ++ [x]). apply Forall_app. split; [assumption | constructor; [assumption | constructor]].
Qed.

Lemma ndone_app a b : ndone (a ++ b) = ndone a + ndone b.
Proof. induction a as [|x r IH]; cbn [app ndone]; [lia | rewrite IH; lia]. Qed.

(* ---------------------------------------------------------------- giving back one block, exactly *)
Lemma cnt_adel_same r m : nodup_keys m -> cnt r (adel N.eqb r m) = 0.
Proof. intros H. unfold cnt. rewrite (aget_adel_same N.eqb Neqb_eq') by assumption. reflexivity. Qed.
Lemma cnt_adel_other r r' m : r' <> r -> cnt r' (adel N.eqb r m) = cnt r' m.
Proof. intros H. unfold cnt. rewrite (aget_adel_other N.eqb Neqb_eq') by assumption. reflexivity. Qed.
Lemma cnt_aset_same r c m : cnt r (aset N.eqb r c m) = c.
Proof. unfold cnt. rewrite (aget_aset_same N.eqb Neqb_eq'). reflexivity. Qed.
Lemma cnt_aset_other r r' c m : r' <> r -> cnt r' (aset N.eqb r c m) = cnt r' m.
Proof. intros H. unfold cnt. rewrite (aget_aset_other N.eqb Neqb_eq') by assumption. reflexivity. Qed.

Lemma cnt_cons_same r c rest : cnt r ((r, c) :: rest) = c.
Proof. unfold cnt. cbn [aget]. rewrite N.eqb_refl. reflexivity. Qed.
Lemma cnt_cons_other r r' c rest : r' <> r -> cnt r' ((r, c) :: rest) = cnt r' rest.
Proof. intros H. unfold cnt. cbn [aget]. destruct (r' =? r) eqn:E; [lia | reflexivity]. Qed.

Lemma dt_track_cancel_exact rs : forall tr,
  nodup_keys rs -> nodup_keys tr -> (forall a c, aget N.eqb a rs = Some c -> 0 < c) ->
  (forall a, cnt a rs <= cnt a tr) ->
  exists tr', dt_track_cancel rs tr = Ok tr' /\ nodup_keys tr' /\ forall a, cnt a tr' = cnt a tr - cnt a rs.
Proof.
  induction rs as [|[r c] rest IH]; intros tr Hn Hnt Hpos Hle; cbn [dt_track_cancel].
  - exists tr. split; [reflexivity|]. split; [assumption|]. intros a. unfold cnt at 3. cbn [aget]. lia.
  - unfold nodup_keys in Hn. cbn [keys map fst] in Hn. inversion Hn as [|? ? Hnotin Hn']; subst.
    assert (Hc : 0 < c) by (apply (Hpos r c); cbn [aget]; rewrite N.eqb_refl; reflexivity).
    assert (Hr0 : cnt r rest = 0).
    { unfold cnt. destruct (aget N.eqb r rest) as [c'|] eqn:E; [|reflexivity]. exfalso. apply Hnotin.
      apply (aget_In N.eqb Neqb_eq') in E. change (In (fst (r, c')) (map fst rest)). apply in_map. assumption. }
    pose proof (Hle r) as Hler. rewrite cnt_cons_same in Hler.
    unfold cnt in Hler. destruct (aget N.eqb r tr) as [have|] eqn:Eh; [|lia].
    destruct (have <? c) eqn:E1; [lia|].
    assert (Hpos' : forall a c0, aget N.eqb a rest = Some c0 -> 0 < c0).
    { intros a c0 Ha. apply (Hpos a c0). cbn [aget]. destruct (a =? r) eqn:E; [|assumption].
      exfalso. apply N.eqb_eq in E. subst a. apply Hnotin. apply (aget_In N.eqb Neqb_eq') in Ha.
      change (In (fst (r, c0)) (map fst rest)). apply in_map. assumption. }
    destruct (have =? c) eqn:E2.
    + destruct (IH (adel N.eqb r tr)) as (tr' & Et & Hnd & Hcnt); try assumption.
      * apply (nodup_adel N.eqb). assumption.
      * intros a. destruct (N.eq_dec a r) as [->|Hne]; [rewrite Hr0; lia|].
        rewrite cnt_adel_other by assumption. specialize (Hle a). rewrite cnt_cons_other in Hle by assumption. assumption.
      * exists tr'. split; [assumption|]. split; [assumption|]. intros a. rewrite Hcnt.
        destruct (N.eq_dec a r) as [->|Hne].
        -- rewrite cnt_adel_same by assumption. rewrite cnt_cons_same. unfold cnt at 2. rewrite Eh. lia.
        -- rewrite cnt_adel_other, cnt_cons_other by assumption. reflexivity.
    + destruct (IH (aset N.eqb r (have - c) tr)) as (tr' & Et & Hnd & Hcnt); try assumption.
      * apply (nodup_aset N.eqb Neqb_eq'). assumption.
      * intros a. destruct (N.eq_dec a r) as [->|Hne]; [rewrite Hr0; lia|].
        rewrite cnt_aset_other by assumption. specialize (Hle a). rewrite cnt_cons_other in Hle by assumption. assumption.
      * exists tr'. split; [assumption|]. split; [assumption|]. intros a. rewrite Hcnt.
        destruct (N.eq_dec a r) as [->|Hne].
        -- rewrite cnt_aset_same, cnt_cons_same, Hr0. unfold cnt. rewrite Eh. lia.
        -- rewrite cnt_aset_other, cnt_cons_other by assumption. reflexivity.
Qed.

(* ---------------------------------------------------------------- the encoder-side accounting invariant *)
Record enc_acct (t : dt) (xs : list gsec) : Prop := mk_enc_acct {
  ea_tot : forall a, cnt a (dt_track t) = tot a xs;
  ea_blocks_nd : nodup_keys (dt_blocks t);
  ea_blocks : forall sid, aget N.eqb sid (dt_blocks t) = match qof sid xs with [] => None | q => Some q end;
  ea_rs : forall x, In x xs -> nodup_keys (g_rs x) /\ (forall a c, aget N.eqb a (g_rs x) = Some c -> 0 < c);
  ea_pd : forall x, In x xs -> g_popped x = true -> g_done x = true;
  ea_dp : forall sid, done_prefix (np sid xs)
}.

Definition acks_ok (xs : list gsec) (dq : list dinstr) : Prop := forall sid, nacks sid dq <= ndone (np sid xs).

Definition secrs (xs : list gsec) : list (section * refs) := map (fun x => (g_sec x, g_rs x)) xs.

(* release the oldest unreleased section of a stream *)
Fixpoint pop_first (sid : N) (xs : list gsec) : list gsec :=
  match xs with
  | [] => []
  | x :: r => if (g_sid x =? sid) && negb (g_popped x) then mkG (g_sec x) (g_rs x) true :: r else x :: pop_first sid r
  end.

Lemma pop_first_secrs sid xs : secrs (pop_first sid xs) = secrs xs.
Proof.
  induction xs as [|x r IH]; cbn [pop_first]; [reflexivity|].
  destruct ((g_sid x =? sid) && negb (g_popped x)); cbn [secrs map g_sec g_rs]; [reflexivity|]. unfold secrs in IH. rewrite IH. reflexivity.
Qed.

Lemma pop_first_np_same sid xs : np sid (pop_first sid xs) = tl (np sid xs).
Proof.
  induction xs as [|x r IH]; cbn [pop_first np filter]; [reflexivity|].
  destruct ((g_sid x =? sid) && negb (g_popped x)) eqn:E.
  - cbn [np filter g_sid g_sec g_popped negb andb tl]. unfold g_sid in E. cbn [g_sec]. rewrite andb_false_r. reflexivity.
  - cbn [np filter]. rewrite E. exact IH.
Qed.

Lemma pop_first_np_other sid sid' xs : sid' <> sid -> np sid' (pop_first sid xs) = np sid' xs.
Proof.
  intros Hne. induction xs as [|x r IH]; cbn [pop_first np filter]; [reflexivity|].
  destruct ((g_sid x =? sid) && negb (g_popped x)) eqn:E.
  - apply andb_true_iff in E. destruct E as [E1 E2]. apply N.eqb_eq in E1.
    cbn [np filter]. unfold g_sid in *. cbn [g_sec g_popped]. rewrite E1.
    destruct (sid =? sid') eqn:E3; [apply N.eqb_eq in E3; congruence|]. reflexivity.
  - cbn [np filter]. unfold np in IH. rewrite IH. reflexivity.
Qed.

Lemma pop_first_tot sid xs x rest a : np sid xs = x :: rest -> tot a (pop_first sid xs) + cnt a (g_rs x) = tot a xs.
Proof.
  induction xs as [|y r IH]; cbn [pop_first np filter tot]; [discriminate|].
  destruct ((g_sid y =? sid) && negb (g_popped y)) eqn:E.
  - intros H. inversion H; subst. apply andb_true_iff in E. destruct E as [_ E2]. destruct (g_popped x); [discriminate|].
    cbn [tot g_popped g_rs]. lia.
  - intros H. cbn [tot]. specialize (IH H). lia.
Qed.

Lemma np_In sid xs x : In x (np sid xs) -> In x xs /\ g_sid x = sid /\ g_popped x = false.
Proof.
  unfold np. intros H. apply filter_In in H. destruct H as [H1 H2]. apply andb_true_iff in H2. destruct H2 as [A B].
  apply N.eqb_eq in A. destruct (g_popped x); [discriminate|]. auto.
Qed.

Lemma pop_first_In sid xs y : In y (pop_first sid xs) ->
  In y xs \/ (exists x, In x xs /\ hd_error (np sid xs) = Some x /\ y = mkG (g_sec x) (g_rs x) true).
Proof.
  induction xs as [|x r IH]; cbn [pop_first]; [intros []|].
  destruct ((g_sid x =? sid) && negb (g_popped x)) eqn:E; cbn [In np filter]; rewrite ?E.
  - intros [<- | H]; [right; exists x; cbn [hd_error]; auto | left; auto].
  - intros [<- | H]; [left; auto|]. destruct (IH H) as [K | (z & K1 & K2 & K3)]; [left; auto | right; exists z; auto].
Qed.

Lemma tot_ge a xs x : In x xs -> g_popped x = false -> cnt a (g_rs x) <= tot a xs.
Proof.
  induction xs as [|y r IH]; [intros []|]. intros [<- | H] Hp; cbn [tot].
  - rewrite Hp. lia.
  - specialize (IH H Hp). lia.
Qed.

(* one acknowledgement *)
Lemma untrack_acct t xs sid x rest :
  dt_ok t -> enc_acct t xs -> np sid xs = x :: rest -> g_done x = true ->
  exists t', dt_untrack_block t sid = Ok t' /\ enc_acct t' (pop_first sid xs).
Proof.
  intros Hok A Hnp Hdone. pose proof A as A0. destruct A as [Atot And Abl Ars Apd Adp].
  unfold dt_untrack_block. rewrite (Abl sid). unfold qof. rewrite Hnp. cbn [map].
  destruct (np_In sid xs x) as (Hin & Hsid & Hpop); [rewrite Hnp; left; reflexivity|].
  destruct (Ars x Hin) as [Hnd Hpos].
  assert (Hle : forall a, cnt a (g_rs x) <= cnt a (dt_track t)) by (intros a; rewrite Atot; apply tot_ge; assumption).
  assert (Hfin : forall t1, dt_track t1 = dt_track t ->
            (forall s0, aget N.eqb s0 (dt_blocks t1) = match qof s0 (pop_first sid xs) with [] => None | q => Some q end) ->
            nodup_keys (dt_blocks t1) ->
            exists t', match dt_track_cancel (g_rs x) (dt_track t1) with Ok tr => Ok (with_track t1 tr) | Err e => Err e | Panic s => Panic s end = Ok t' /\
                       enc_acct t' (pop_first sid xs)).
  { intros t1 Ht Hb Hbn. rewrite Ht.
    destruct (dt_track_cancel_exact (g_rs x) (dt_track t) Hnd (ok_track_nd t Hok) Hpos Hle) as (tr' & Et & Hnd' & Hcnt).
    rewrite Et. eexists. split; [reflexivity|]. constructor; cbn [with_track dt_track dt_blocks].
    - intros a. rewrite Hcnt, Atot. pose proof (pop_first_tot sid xs x rest a Hnp). lia.
    - assumption.
    - assumption.
    - intros y Hy. destruct (pop_first_In _ _ _ Hy) as [K | (z & K1 & K2 & ->)]; [auto | cbn [g_rs]; auto].
    - intros y Hy Hp. destruct (pop_first_In _ _ _ Hy) as [K | (z & K1 & K2 & ->)]; [auto|].
      rewrite Hnp in K2. cbn [hd_error] in K2. inversion K2; subst z. exact Hdone.
    - intros s0. destruct (N.eq_dec s0 sid) as [->|Hne].
      + rewrite pop_first_np_same, Hnp. cbn [tl]. specialize (Adp sid). rewrite Hnp in Adp. cbn [done_prefix] in Adp.
        destruct Adp as [[_ K] | K]; [assumption|]. inversion K; subst.
        clear - H2. induction rest as [|y r IH]; cbn [done_prefix]; [exact I|]. right. assumption.
      + rewrite pop_first_np_other by assumption. apply Adp. }
  assert (Hother : forall bl s0, s0 <> sid -> aget N.eqb s0 bl = aget N.eqb s0 (dt_blocks t) ->
             aget N.eqb s0 bl = match qof s0 (pop_first sid xs) with [] => None | q => Some q end).
  { intros bl s0 Hne E. rewrite E, (Abl s0). unfold qof. rewrite pop_first_np_other by assumption. reflexivity. }
  destruct rest as [|x2 rest2]; cbn [map].
  - apply Hfin; [reflexivity | | apply (nodup_adel N.eqb); assumption].
    intros s0. cbn [with_blocks dt_blocks]. destruct (N.eq_dec s0 sid) as [->|Hne].
    + rewrite (aget_adel_same N.eqb Neqb_eq') by assumption. unfold qof. rewrite pop_first_np_same, Hnp. reflexivity.
    + apply Hother; [assumption|]. apply (aget_adel_other N.eqb Neqb_eq'). assumption.
  - apply Hfin; [reflexivity | | apply (nodup_aset N.eqb Neqb_eq'); assumption].
    intros s0. cbn [with_blocks dt_blocks]. destruct (N.eq_dec s0 sid) as [->|Hne].
    + rewrite (aget_aset_same N.eqb Neqb_eq'). unfold qof. rewrite pop_first_np_same, Hnp. reflexivity.
    + apply Hother; [assumption|]. apply (aget_aset_other N.eqb Neqb_eq'). assumption.
Qed.

Lemma untrack_unknown t xs sid : enc_acct t xs -> np sid xs = [] -> dt_untrack_block t sid = Err (EUnknownStreamId sid).
Proof.
  intros A Hnp. unfold dt_untrack_block. rewrite (ea_blocks _ _ A sid). unfold qof. rewrite Hnp. reflexivity.
Qed.

(* increments do not touch the accounting *)
Lemma update_lr_acct t n t' xs : enc_acct t xs -> dt_update_largest_received t n = Ok t' -> enc_acct t' xs.
Proof.
  intros A. unfold dt_update_largest_received. destruct (dt_bcount t =? 0).
  - intros H; inversion H; subst. destruct A. constructor; assumption.
  - match goal with |- context [if ?c then _ else _] => destruct c end; [discriminate|].
    intros H; inversion H; subst. destruct A. constructor; assumption.
Qed.

Lemma ndone_tl l : ndone (tl l) <= ndone l.
Proof. destruct l as [|x r]; cbn [tl ndone]; lia. Qed.

(* a batch of decoder-stream instructions (acknowledgements and increments) *)
Lemma feedback_acct is : forall t xs later,
  dt_ok t -> enc_acct t xs -> acks_ok xs (is ++ later) -> Forall no_cancel is ->
  exists xs', enc_acct (fst (enc_on_decoder_recv t is)) xs' /\ acks_ok xs' later /\ secrs xs' = secrs xs.
Proof.
  induction is as [|i r IH]; intros t xs later Hok A Hacks Hnc; cbn [enc_on_decoder_recv].
  - exists xs. cbn [fst]. auto.
  - inversion Hnc as [|? ? Hi Hr]; subst.
    assert (Hdrop : forall xs0, acks_ok xs0 ((i :: r) ++ later) -> acks_ok xs0 later).
    { intros xs0 K sid. specialize (K sid). cbn [app nacks] in K. rewrite nacks_app in K. lia. }
    destruct i as [sid|sid|n]; [| contradiction |].
    + destruct (np sid xs) as [|x rest] eqn:Hnp.
      * rewrite (untrack_unknown t xs sid A Hnp). cbn [fst]. exists xs. auto.
      * pose proof (Hacks sid) as Hs. cbn [app nacks is_ack] in Hs. rewrite N.eqb_refl in Hs.
        destruct (done_prefix_head (np sid xs) (ea_dp _ _ A sid)) as (x' & r' & E & Hd & _); [lia|].
        rewrite Hnp in E. inversion E; subst x' r'.
        destruct (untrack_acct t xs sid x rest Hok A Hnp Hd) as (t' & Et & A').
        rewrite Et. destruct (IH t' (pop_first sid xs) later) as (xs' & B1 & B2 & B3); try assumption.
        -- eapply dt_untrack_block_ok; eassumption.
        -- intros s0. specialize (Hacks s0). cbn [app nacks is_ack] in Hacks. destruct (N.eq_dec s0 sid) as [->|Hne].
           ++ rewrite N.eqb_refl in Hacks. rewrite pop_first_np_same, Hnp. cbn [tl]. rewrite Hnp in Hacks. cbn [ndone] in Hacks.
              rewrite Hd in Hacks. lia.
           ++ destruct (sid =? s0) eqn:E0; [apply N.eqb_eq in E0; congruence|]. rewrite pop_first_np_other by assumption. lia.
        -- exists xs'. split; [assumption|]. split; [assumption|]. rewrite B3. apply pop_first_secrs.
    + destruct (q_increment_limit <? n); cbn [fst]; [exists xs; auto|].
      destruct (dt_update_largest_received t n) as [t1| |] eqn:E; cbn [fst]; [|exists xs; auto|exists xs; auto].
      apply IH; try assumption.
      * eapply dt_update_largest_received_ok; eassumption.
      * eapply update_lr_acct; eassumption.
      * intros s0. specialize (Hacks s0). cbn [app nacks is_ack] in Hacks. lia.
Qed.
